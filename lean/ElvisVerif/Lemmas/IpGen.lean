import ElvisVerif.Model.IpGen
/-!
Helper lemmas for C15 (address generator): mask arithmetic, the sorted-list `BTreeSet`,
membership characterisations of `block_range` / `fetch_net`.
-/
namespace Elvis.IpGen

/-! ### abstraction -/

/-- address `a` lies in the inclusive range `r` -/
def inR (r : Range) (a : Nat) : Prop := r.1 ≤ a ∧ a ≤ r.2

/-- the set of addresses a generator can still hand out -/
def avail (g : Gen) (a : Nat) : Prop := ∃ r ∈ g, inR r a

/-- `BTreeSet` representation invariant: strictly increasing in the derived order -/
def Sorted (g : Gen) : Prop := g.Pairwise (fun a b => Range.lt a b = true)

/-- every stored bound is a `u32` -/
def Bounded (g : Gen) : Prop := ∀ r ∈ g, r.1 ≤ U32MAX ∧ r.2 ≤ U32MAX

/-- a well-formed `Ipv4Net`: mask of prefix length `32 - k`, id aligned, id a `u32`.
    Every value the public API of `subnetting.rs` can build satisfies it. -/
def Net.WF (n : Net) (k : Nat) : Prop :=
  k ≤ 32 ∧ n.mask = 2 ^ 32 - 2 ^ k ∧ n.id % 2 ^ k = 0 ∧ n.id < 2 ^ 32

/-- address `a` belongs to net `n` whose host part has `k` bits -/
def inNet (n : Net) (k : Nat) (a : Nat) : Prop := n.id ≤ a ∧ a ≤ n.id + (2 ^ k - 1)

/-! ### mask arithmetic -/

theorem pow_le_2_32 {k : Nat} (hk : k ≤ 32) : 2 ^ k ≤ 2 ^ 32 :=
  Nat.pow_le_pow_right (by omega) hk

theorem pow_pos' (k : Nat) : 0 < 2 ^ k := Nat.pow_pos (by omega)

theorem and_mask (x k : Nat) (hk : k ≤ 32) (hx : x < 2 ^ 32) :
    x &&& (2 ^ 32 - 2 ^ k) = x / 2 ^ k * 2 ^ k := by
  apply Nat.eq_of_testBit_eq
  intro i
  rw [Nat.testBit_and]
  have h2 : 2 ^ 32 - 2 ^ k = (2 ^ (32 - k) - 1) * 2 ^ k := by
    have : 2 ^ (32 - k) * 2 ^ k = 2 ^ 32 := by rw [← Nat.pow_add]; congr 1; omega
    rw [Nat.sub_mul, this]; simp
  rw [h2, Nat.testBit_mul_two_pow, Nat.testBit_mul_two_pow, Nat.testBit_two_pow_sub_one]
  by_cases hik : k ≤ i
  · simp only [hik, decide_true, Bool.true_and, Nat.testBit_div_two_pow]
    have e : i - k + k = i := by omega
    rw [e]
    by_cases h32 : i < 32
    · have : i - k < 32 - k := by omega
      simp [this]
    · have : x < 2 ^ i := Nat.lt_of_lt_of_le hx (Nat.pow_le_pow_right (by omega) (by omega))
      rw [Nat.testBit_lt_two_pow this]; simp
  · simp [hik]

/-- `from_bitcount n` is the mask with `32 - min n 32` host bits -/
theorem fromBitcount_eq (n : Nat) : fromBitcount n = 2 ^ 32 - 2 ^ (32 - min n 32) := by
  unfold fromBitcount
  by_cases h : n > 32
  · have : min n 32 = 32 := by omega
    simp [h, this]
  · have hm : min n 32 = n := by omega
    simp only [h, if_false, hm]
    by_cases h0 : n = 0
    · subst h0; simp
    · by_cases h32 : n = 32
      · subst h32; simp
      · have e0 : (n == 0) = false := by simp [h0]
        have e32 : (n == 32) = false := by simp [h32]
        simp only [e0, e32, Nat.shiftLeft_eq, Nat.one_mul]
        have hp : 2 ^ n * 2 ^ (32 - n) = 2 ^ 32 := by rw [← Nat.pow_add]; congr 1; omega
        rw [Nat.sub_mul, hp]; simp

theorem fromBitcount_32 : fromBitcount 32 = 2 ^ 32 - 2 ^ 0 := by decide

/-- `Ipv4Net::new` always yields a well-formed net -/
theorem Net.new_WF (ip k : Nat) (hk : k ≤ 32) (hip : ip < 2 ^ 32) :
    (Net.new ip (2 ^ 32 - 2 ^ k)).WF k ∧ (Net.new ip (2 ^ 32 - 2 ^ k)).id = ip / 2 ^ k * 2 ^ k := by
  have hid := and_mask ip k hk hip
  refine ⟨⟨hk, rfl, ?_, ?_⟩, hid⟩
  · show (ip &&& (2 ^ 32 - 2 ^ k)) % 2 ^ k = 0
    rw [hid]; exact Nat.mul_mod_left _ _
  · show (ip &&& (2 ^ 32 - 2 ^ k)) < 2 ^ 32
    rw [hid]
    have := Nat.div_mul_le_self ip (2 ^ k)
    omega

theorem Net.new1_WF (ip : Nat) (hip : ip < 2 ^ 32) : (Net.new1 ip).WF 0 := by
  refine ⟨by omega, ?_, ?_, hip⟩
  · show fromBitcount 32 = _
    exact fromBitcount_32
  · exact Nat.mod_one _

/-- an aligned `u32` plus its host mask does not overflow -/
theorem aligned_top {id k : Nat} (hk : k ≤ 32) (hal : id % 2 ^ k = 0) (hid : id < 2 ^ 32) :
    id + (2 ^ k - 1) ≤ U32MAX := by
  have hp := pow_pos' k
  have h32 : (2 : Nat) ^ 32 = 2 ^ k * 2 ^ (32 - k) := by rw [← Nat.pow_add]; congr 1; omega
  have hd : id = 2 ^ k * (id / 2 ^ k) := by
    have := Nat.div_add_mod id (2 ^ k); omega
  have hq : id / 2 ^ k < 2 ^ (32 - k) := by
    apply Nat.div_lt_of_lt_mul; rw [← h32]; exact hid
  have : 2 ^ k * (id / 2 ^ k + 1) ≤ 2 ^ k * 2 ^ (32 - k) := Nat.mul_le_mul_left _ hq
  rw [Nat.mul_add, ← hd, ← h32] at this
  unfold U32MAX; omega

/-- `broadcast` of a well-formed net: no panic, `id + 2^k - 1` -/
theorem Net.broadcast_WF {n : Net} {k : Nat} (h : n.WF k) :
    n.broadcast = .ok (n.id + (2 ^ k - 1)) ∧ n.id + (2 ^ k - 1) ≤ U32MAX := by
  obtain ⟨hk, hm, hal, hid⟩ := h
  have htop := aligned_top hk hal hid
  have hp := pow_pos' k
  have hle := pow_le_2_32 hk
  have hnot : U32MAX - n.mask = 2 ^ k - 1 := by rw [hm]; unfold U32MAX; omega
  refine ⟨?_, htop⟩
  unfold Net.broadcast
  rw [hnot, if_neg (by omega)]

theorem Net.toRange_WF {n : Net} {k : Nat} (h : n.WF k) :
    n.toRange = .ok (n.id, n.id + (2 ^ k - 1)) := by
  unfold Net.toRange; rw [(Net.broadcast_WF h).1]

/-! ### `add` -/

theorem add_one (x : Nat) : add x 1 = if x < U32MAX then some (x + 1) else none := by
  show (if x + 1 ≤ U32MAX then some (x + 1) else none) = _
  by_cases h : x < U32MAX
  · rw [if_pos h, if_pos (by omega)]
  · rw [if_neg h, if_neg (by omega)]

theorem add_neg_one (x : Nat) : add x (-1) = if 0 < x then some (x - 1) else none := by
  show (if 0 + 1 ≤ x then some (x - (0 + 1)) else none) = _
  by_cases h : 0 < x
  · rw [if_pos h, if_pos (by omega)]
  · rw [if_neg h, if_neg (by omega)]

/-! ### the sorted list as a set -/

theorem mem_insert (r x : Range) (l : List Range) : x ∈ insert r l ↔ x = r ∨ x ∈ l := by
  induction l with
  | nil => simp [insert]
  | cons y ys ih =>
    unfold insert
    split
    · simp
    · split
      · rename_i h; have : r = y := by simpa using h
        subst this; simp
      · simp [ih]; constructor <;> (intro h; rcases h with h | h | h <;> simp [h])

theorem mem_remove (r x : Range) (l : List Range) : x ∈ remove r l ↔ x ∈ l ∧ x ≠ r := by
  simp [remove]

theorem Range.lt_trans {a b c : Range} (h1 : Range.lt a b = true) (h2 : Range.lt b c = true) :
    Range.lt a c = true := by
  simp [Range.lt] at *; omega

theorem Range.lt_total {a b : Range} (h1 : Range.lt a b = false) (h2 : (a == b) = false) :
    Range.lt b a = true := by
  have hne : a ≠ b := by simpa using h2
  have : ¬ (a.1 = b.1 ∧ a.2 = b.2) := fun h => hne (Prod.ext h.1 h.2)
  simp [Range.lt] at *; omega

theorem sorted_insert (r : Range) (l : List Range) (h : Sorted l) : Sorted (insert r l) := by
  induction l with
  | nil => simp [insert, Sorted]
  | cons y ys ih =>
    unfold Sorted at *
    rw [List.pairwise_cons] at h
    unfold insert
    split
    · rename_i hlt
      rw [List.pairwise_cons]
      refine ⟨?_, List.pairwise_cons.2 h⟩
      intro z hz
      rcases List.mem_cons.1 hz with rfl | hz
      · exact hlt
      · exact Range.lt_trans hlt (h.1 z hz)
    · split
      · exact List.pairwise_cons.2 h
      · rename_i hlt hne
        rw [List.pairwise_cons]
        refine ⟨?_, ih h.2⟩
        intro z hz
        rcases (mem_insert r z ys).1 hz with rfl | hz
        · exact Range.lt_total (by simpa using hlt) (by simpa using hne)
        · exact h.1 z hz

theorem sorted_filter (p : Range → Bool) (l : List Range) (h : Sorted l) : Sorted (l.filter p) :=
  List.Pairwise.filter p h

theorem sorted_remove (r : Range) (l : List Range) (h : Sorted l) : Sorted (remove r l) :=
  sorted_filter _ l h

theorem bounded_insert {r : Range} {l : List Range} (h : Bounded l)
    (hr : r.1 ≤ U32MAX ∧ r.2 ≤ U32MAX) : Bounded (insert r l) := by
  intro x hx
  rcases (mem_insert r x l).1 hx with rfl | hx
  · exact hr
  · exact h x hx

theorem bounded_filter (p : Range → Bool) {l : List Range} (h : Bounded l) : Bounded (l.filter p) :=
  fun x hx => h x (List.mem_filter.1 hx).1

theorem avail_insert (r : Range) (g : Gen) (a : Nat) : avail (insert r g) a ↔ inR r a ∨ avail g a := by
  unfold avail
  constructor
  · rintro ⟨x, hx, hin⟩
    rcases (mem_insert r x g).1 hx with rfl | hx
    · exact .inl hin
    · exact .inr ⟨x, hx, hin⟩
  · rintro (h | ⟨x, hx, hin⟩)
    · exact ⟨r, (mem_insert r r g).2 (.inl rfl), h⟩
    · exact ⟨x, (mem_insert r x g).2 (.inr hx), hin⟩

/-! ### `block_range` -/

/-- what one overlapping free range leaves behind when `range` is cut out of it -/
def pieces (range av : Range) : List Range :=
  (if range.1 > 0 ∧ av.1 ≤ range.1 - 1 then [(av.1, range.1 - 1)] else []) ++
  (if range.2 < U32MAX ∧ range.2 + 1 ≤ av.2 then [(range.2 + 1, av.2)] else [])

/-- the loop body without its (dead) panic branches -/
def splitPure (range : Range) (s : Gen) (av : Range) : Gen :=
  let s0 := remove av s
  let s1 := if range.1 > 0 ∧ av.1 ≤ range.1 - 1 then insert (av.1, range.1 - 1) s0 else s0
  if range.2 < U32MAX ∧ range.2 + 1 ≤ av.2 then insert (range.2 + 1, av.2) s1 else s1

/-- the two `expect("overflow should be handled")` never fire -/
theorem splitStep_eq (range : Range) (s : Gen) (av : Range) :
    splitStep range s av = .ok (splitPure range s av) := by
  unfold splitStep splitPure
  simp only [add_one, add_neg_one, isEmpty]
  by_cases h1 : range.1 > 0
  · have h1' : 0 < range.1 := h1
    by_cases h2 : range.2 < U32MAX
    · by_cases h3 : av.1 ≤ range.1 - 1 <;> by_cases h4 : range.2 + 1 ≤ av.2 <;>
        simp [h1, h1', h2, h3, h4] <;> omega
    · by_cases h3 : av.1 ≤ range.1 - 1 <;> simp [h1, h1', h2, h3] <;> omega
  · by_cases h2 : range.2 < U32MAX
    · by_cases h4 : range.2 + 1 ≤ av.2 <;> simp [h1, h2, h4] <;> omega
    · simp [h1, h2]

theorem mem_splitPure (range : Range) (s : Gen) (av x : Range) :
    x ∈ splitPure range s av ↔ (x ∈ s ∧ x ≠ av) ∨ x ∈ pieces range av := by
  unfold splitPure pieces
  simp only []
  split <;> split <;>
    simp only [mem_insert, mem_remove, List.mem_append, List.mem_singleton,
      List.not_mem_nil, or_false, false_or, List.append_nil, List.nil_append] <;>
    grind

theorem pieces_not_overlap {range av x : Range} (h : x ∈ pieces range av) : overlaps x range = false := by
  unfold pieces at h
  rcases List.mem_append.1 h with h | h
  · split at h
    · rw [List.mem_singleton] at h; subst h; simp [overlaps]; omega
    · cases h
  · split at h
    · rw [List.mem_singleton] at h; subst h; simp [overlaps]; omega
    · cases h

theorem sorted_splitPure (range : Range) (s : Gen) (av : Range) (h : Sorted s) :
    Sorted (splitPure range s av) := by
  unfold splitPure
  have h0 := sorted_remove av s h
  split <;> split <;> first | exact h0 | (apply sorted_insert; first | exact h0 | (apply sorted_insert; exact h0))

theorem bounded_splitPure {range : Range} {s : Gen} {av : Range} (h : Bounded s)
    (hr : range.1 ≤ U32MAX ∧ range.2 ≤ U32MAX) (hav : av.1 ≤ U32MAX ∧ av.2 ≤ U32MAX) :
    Bounded (splitPure range s av) := by
  intro x hx
  rcases (mem_splitPure range s av x).1 hx with hx | hx
  · exact h x hx.1
  · unfold pieces at hx
    rcases List.mem_append.1 hx with hx | hx
    · split at hx
      · rw [List.mem_singleton] at hx; subst hx; simp; omega
      · cases hx
    · split at hx
      · rw [List.mem_singleton] at hx; subst hx; simp; omega
      · cases hx

theorem foldSplit_ok (range : Range) (hr : range.1 ≤ U32MAX ∧ range.2 ≤ U32MAX) :
    ∀ (L : List Range) (s : Gen), (∀ av ∈ L, overlaps av range = true) →
    ∃ s', foldSplit range s L = .ok s' ∧
      (∀ x, x ∈ s' ↔ (x ∈ s ∧ x ∉ L) ∨ (∃ av ∈ L, x ∈ pieces range av)) ∧
      (Sorted s → Sorted s') ∧
      (Bounded s → (∀ av ∈ L, av.1 ≤ U32MAX ∧ av.2 ≤ U32MAX) → Bounded s') := by
  intro L
  induction L with
  | nil => intro s _; exact ⟨s, rfl, by simp, id, fun h _ => h⟩
  | cons av rest ih =>
    intro s hov
    unfold foldSplit
    rw [splitStep_eq range s av]
    obtain ⟨s', he, hm, hs, hb⟩ := ih (splitPure range s av) (fun a ha => hov a (List.mem_cons_of_mem _ ha))
    refine ⟨s', he, ?_, fun h => hs (sorted_splitPure range s av h), ?_⟩
    · intro x
      rw [hm x, mem_splitPure]
      constructor
      · rintro (⟨(⟨hxs, hne⟩ | hp), hnr⟩ | ⟨a, ha, hp⟩)
        · exact .inl ⟨hxs, by simp [hne, hnr]⟩
        · exact .inr ⟨av, List.mem_cons_self, hp⟩
        · exact .inr ⟨a, List.mem_cons_of_mem _ ha, hp⟩
      · rintro (⟨hxs, hnl⟩ | ⟨a, ha, hp⟩)
        · simp only [List.mem_cons, not_or] at hnl
          exact .inl ⟨.inl ⟨hxs, hnl.1⟩, hnl.2⟩
        · rcases List.mem_cons.1 ha with rfl | ha
          · refine .inl ⟨.inr hp, ?_⟩
            intro hxr
            have := hov x (List.mem_cons_of_mem _ hxr)
            rw [pieces_not_overlap hp] at this; cases this
          · exact .inr ⟨a, ha, hp⟩
    · intro hbs hbl
      exact hb (bounded_splitPure hbs hr (hbl av List.mem_cons_self))
        (fun a ha => hbl a (List.mem_cons_of_mem _ ha))

/-- `block_range` never panics; exact membership of the resulting set -/
theorem blockRange_ok (g : Gen) (range : Range) (hr : range.1 ≤ U32MAX ∧ range.2 ≤ U32MAX) :
    ∃ g', blockRange g range = .ok g' ∧
      (∀ x, x ∈ g' ↔ (x ∈ g ∧ contains range x = false ∧ overlaps x range = false) ∨
                      (∃ av ∈ g, contains range av = false ∧ overlaps av range = true ∧ x ∈ pieces range av)) ∧
      (Sorted g → Sorted g') ∧ (Bounded g → Bounded g') := by
  unfold blockRange
  obtain ⟨g', he, hm, hs, hb⟩ := foldSplit_ok range hr
    ((g.filter (fun av => !contains range av)).filter (fun av => overlaps av range))
    (g.filter (fun av => !contains range av))
    (fun av hav => (List.mem_filter.1 hav).2)
  refine ⟨g', he, ?_, fun h => hs (sorted_filter _ _ h), fun h => hb (bounded_filter _ h) ?_⟩
  · intro x
    rw [hm x]
    simp only [List.mem_filter, Bool.not_eq_true', not_and, Bool.not_eq_true]
    constructor
    · rintro (⟨⟨hxg, hc⟩, hno⟩ | ⟨av, ⟨⟨hag, hc⟩, ho⟩, hp⟩)
      · exact .inl ⟨hxg, hc, hno ⟨hxg, hc⟩⟩
      · exact .inr ⟨av, hag, hc, ho, hp⟩
    · rintro (⟨hxg, hc, hno⟩ | ⟨av, hag, hc, ho, hp⟩)
      · exact .inl ⟨⟨hxg, hc⟩, fun _ => hno⟩
      · exact .inr ⟨av, ⟨⟨hag, hc⟩, ho⟩, hp⟩
  · intro av hav
    exact h av (List.mem_filter.1 (List.mem_filter.1 hav).1).1

theorem inR_pieces {range av : Range} {a : Nat} (hav2 : av.2 ≤ U32MAX)
    (ho : overlaps av range = true) :
    (∃ x ∈ pieces range av, inR x a) ↔ inR av a ∧ ¬ inR range a := by
  simp only [overlaps, Bool.and_eq_true, decide_eq_true_eq] at ho
  unfold pieces inR
  constructor
  · rintro ⟨x, hx, hin⟩
    rcases List.mem_append.1 hx with hx | hx
    · split at hx
      · rw [List.mem_singleton] at hx; subst hx; simp at hin ⊢; omega
      · cases hx
    · split at hx
      · rw [List.mem_singleton] at hx; subst hx; simp at hin ⊢; omega
      · cases hx
  · rintro ⟨hin, hnot⟩
    by_cases hl : a < range.1
    · refine ⟨(av.1, range.1 - 1), List.mem_append.2 (.inl ?_), by simp; omega⟩
      rw [if_pos (by omega)]; simp
    · have hgt : range.2 < a := by omega
      refine ⟨(range.2 + 1, av.2), List.mem_append.2 (.inr ?_), by simp; omega⟩
      rw [if_pos (by omega)]; simp

/-- abstraction of `block_range`: exactly the addresses of `range` disappear -/
theorem avail_blockRange {g g' : Gen} {range : Range} (hr : range.1 ≤ U32MAX ∧ range.2 ≤ U32MAX)
    (hb : Bounded g) (he : blockRange g range = .ok g') (a : Nat) :
    avail g' a ↔ avail g a ∧ ¬ inR range a := by
  obtain ⟨g'', he', hm, _, _⟩ := blockRange_ok g range hr
  rw [he] at he'; cases he'
  unfold avail
  constructor
  · rintro ⟨x, hx, hin⟩
    rcases (hm x).1 hx with ⟨hxg, _, hno⟩ | ⟨av, hag, _, hov, hp⟩
    · refine ⟨⟨x, hxg, hin⟩, ?_⟩
      intro hra
      unfold inR at *; simp [overlaps] at hno; omega
    · have := (inR_pieces (a := a) (hb av hag).2 hov).1 ⟨x, hp, hin⟩
      exact ⟨⟨av, hag, this.1⟩, this.2⟩
  · rintro ⟨⟨r, hrg, hin⟩, hnot⟩
    by_cases hc : contains range r = true
    · exfalso; apply hnot; unfold inR at *; simp [contains] at hc; omega
    · by_cases ho : overlaps r range = true
      · obtain ⟨x, hx, hxin⟩ := (inR_pieces (a := a) (hb r hrg).2 ho).2 ⟨hin, hnot⟩
        exact ⟨x, (hm x).2 (.inr ⟨r, hrg, by simpa using hc, ho, hx⟩), hxin⟩
      · exact ⟨r, (hm r).2 (.inl ⟨hrg, by simpa using hc, by simpa using ho⟩), hin⟩

theorem bounded_nil : Bounded [] := fun _ h => by cases h

/-- in a pairwise-related list, an element is related to everything left after erasing it -/
theorem pairwise_erase_rel {α : Type} [BEq α] [LawfulBEq α] {R : α → α → Prop} (hsym : ∀ a b, R a b → R b a) :
    ∀ {l : List α} {x : α}, l.Pairwise R → x ∈ l → ∀ y ∈ l.erase x, R x y := by
  intro l
  induction l with
  | nil => intro x _ hx; cases hx
  | cons z zs ih =>
    intro x hp hx y hy
    rw [List.pairwise_cons] at hp
    rw [List.erase_cons] at hy
    by_cases hzx : z = x
    · subst hzx; simp at hy; exact hp.1 y hy
    · have hx' : x ∈ zs := by
        rcases List.mem_cons.1 hx with h | h
        · exact absurd h.symm hzx
        · exact h
      have hb : (z == x) = false := beq_false_of_ne hzx
      rw [hb] at hy
      simp only [Bool.false_eq_true, if_false] at hy
      rcases List.mem_cons.1 hy with rfl | hy
      · exact hsym _ _ (hp.1 x hx')
      · exact ih hp.2 hx' y hy

end Elvis.IpGen
