import ElvisVerif.Generated.Consts
-- GENERATED from /repo sources by tools/extract.py on every check; do not edit
namespace Elvis.Gen
/-- Socket::recv compares a dequeued message with the space left (`bytes - buf.len()`), not with `bytes` -/
def recvComparesWithRemaining : Bool := true
/-- Socket::send hands the write to the session inside a spawned task -/
def socketSendSpawns : Bool := false
/-- TcpSession::send enqueues the Outgoing instruction inside a spawned task -/
def tcpSessionSendSpawns : Bool := false
/-- TcpSession::receive enqueues the Incoming instruction inside a spawned task -/
def tcpSessionReceiveSpawns : Bool := false
/-- capacity of the per-session instruction queue (`none` = unbounded_channel) -/
def instructionQueueCapacity : Option Nat := none
/-- capacity of the mpsc channel between a SocketSession and its Socket -/
def socketChannelCapacity : Nat := 255
/-- accept(): the stored messages are replayed inside get_socket_session, under the sessions write lock -/
def acceptReplayUnderLock : Bool := true
/-- SocketAPI::demux runs SocketSession::receive while holding the sessions read lock -/
def demuxReceivesUnderReadLock : Bool := true
/-- SocketAPI::demux: exact 4-tuple, else listen binding exact-then-wildcard, store + backlog try_send before insert -/
def demuxLookupShape : Bool := true
end Elvis.Gen
