import ElvisVerif.Lemmas.TcpHsSys
import ElvisVerif.Props.C03Release
/-!
# C01 / C03 — from `open` to everything delivered to both TCBs released, under the fair loss-free schedule

For ALL initial sequence numbers, MTUs (> `SPACE_FOR_HEADERS`) and ALL data `da` the active side's application
writes right after `open` (H31: `|da| + 2 < 2^31`): the three-way handshake, the transfer and the close are
evaluated symbolically.  `hsStart ia ib ma mb da` (`Lemmas/TcpHsSys.lean`) is the system after `open A ia ma`,
`listen B ib mb`, `write A da`; an exchange phase (`phase`, `Lemmas/TcpConvPhase.lean`) = `emit A`, `emit B`, delivery of
everything just emitted to its addressee in emission order, `read A`, `read B`.
-/
namespace Elvis.Tcp
open Tcb Elvis.Tcp.Fin

/-! ## exchange phases do not touch the submitted logs -/

theorem deliverRange_submitted (n : Nat) : ∀ (s s' : Sys) (x : SideId) (lo : Nat), deliverRange s x lo n = .ok s' →
    ∀ y, (s'.side y).submitted = (s.side y).submitted := by
  induction n with
  | zero => intro s s' x lo e y; simp only [deliverRange, Except.ok.injEq] at e; rw [← e]
  | succ k ih =>
    intro s s' x lo e y
    unfold deliverRange at e
    split at e
    · cases e
    · rename_i s1 r1 h1
      rw [ih s1 s' x (lo + 1) e y]
      exact C01.step_sub_eq (fun _ _ h => by cases h) h1 y

theorem phase_submitted (s s' : Sys) (e : phase s = .ok s') (y : SideId) :
    (s'.side y).submitted = (s.side y).submitted := by
  unfold phase at e
  split at e
  · cases e
  · rename_i s1 r1 h1
    split at e
    · cases e
    · rename_i s2 r2 h2
      split at e
      · cases e
      · rename_i s3 h3
        split at e
        · cases e
        · rename_i s4 h4
          split at e
          · cases e
          · rename_i s5 r5 h5
            split at e
            · cases e
            · rename_i s6 r6 h6
              cases e
              rw [C01.step_sub_eq (fun _ _ h => by cases h) h6 y, C01.step_sub_eq (fun _ _ h => by cases h) h5 y,
                deliverRange_submitted _ _ _ _ _ h4 y, deliverRange_submitted _ _ _ _ _ h3 y,
                C01.step_sub_eq (fun _ _ h => by cases h) h2 y, C01.step_sub_eq (fun _ _ h => by cases h) h1 y]

theorem phases_submitted (k : Nat) : ∀ (s s' : Sys), phases k s = .ok s' → ∀ y, (s'.side y).submitted = (s.side y).submitted := by
  induction k with
  | zero => intro s s' e y; simp only [phases, Except.ok.injEq] at e; rw [← e]
  | succ k ih =>
    intro s s' e y
    unfold phases at e
    split at e
    · cases e
    · rename_i s1 h1
      rw [ih s1 s' e y, phase_submitted s s1 h1 y]

/-- the system after `open A`, `listen B` -/
def hsSys0 (ia ib : Seq) (ma mb : U16) : Sys :=
  { a := { tcb := some (openT SideId.A.port SideId.B.port ia ma) }, b := { listen := some (ib, mb) } }

theorem hsSys0_run (ia ib : Seq) (ma mb : U16) :
    Sys.run {} [.open .A ia ma, if false then .open .B ib mb else .listen .B ib mb] = .ok (hsSys0 ia ib ma mb, [.ok, .ok]) := by
  simp only [Sys.run, Sys.step, Op.side, SideId.peer, open_eq]
  rfl

theorem hsStart_step (ia ib : Seq) (ma mb : U16) (da : List UInt8) :
    (hsSys0 ia ib ma mb).step (.write .A da) = .ok (hsStart ia ib ma mb da, .ok) := by
  simp only [Sys.step, Op.side]
  rfl

/-- **C01 convergence from `open`** (`_partial`: the network is loss-free and fair from the start; active /
    passive open).  For all ISNs `ia`, `ib`, all MTUs above `SPACE_FOR_HEADERS`, all data `da` with
    `|da| + 2 < 2^31` and `n ≥ ⌈(|da| − min |da| 65535) / 65535⌉`: from the state after `open A`, `listen B`,
    `write A da`, `3 + (2n + 1)` exchange phases — three for the handshake (SYN; SYN-ACK; ACK together with the
    first window of data), `2n + 1` for the rest (`c01_converges_partial`) — end in a `Done` state: B's
    application has received exactly `da`, all queues and unsent texts are empty, both sides are silent
    for ever (`c01_silence_when_done`). -/
theorem c01_converges_from_open_partial (ia ib : Seq) (ma mb : U16) (da : List UInt8)
    (hmA : SPACE_FOR_HEADERS < ma.toNat) (hmB : SPACE_FOR_HEADERS < mb.toNat) (h31 : da.length + 2 < 2147483648)
    (n : Nat) (hn : da.length - min da.length 65535 ≤ 65535 * n) :
    ∃ s' ta' tb', phases (3 + (2 * n + 1)) (hsStart ia ib ma mb da) = .ok s' ∧
      PlainRun (hsSys0 ia ib ma mb) s' ∧ Done s' ta' tb' ∧
      s'.b.delivered = da ∧ s'.a.delivered = [] ∧ s'.a.submitted = da ∧ s'.b.submitted = [] := by
  obtain ⟨s3, ta, tb, ph3, r3, st3, hta, htb, sa3, sb3, _⟩ := handshake_steady ia ib ma mb da hmA hmB
  have r03 : PlainRun (hsSys0 ia ib ma mb) s3 :=
    (PlainRun.step (op := .write .A da) (.refl _) trivial (hsStart_step ia ib ma mb da)).trans r3
  have hroom : RoomH s3 := by
    refine ⟨?_, ?_⟩
    · show (s3.side .A).submitted.length + 2 < _
      rw [sa3]; exact h31
    · show (s3.side .B).submitted.length + 2 < _
      rw [sb3]; simp
  have hg := good_of_reach ia ib ma mb false (hsSys0 ia ib ma mb) s3 _ (by omega) (by omega)
    (hsSys0_run ia ib ma mb) r03 hroom
  obtain ⟨s', ta', tb', hp, hr, hg', hd⟩ := phases_done n s3 ta tb hg st3
    (by rw [hta, List.length_drop]; exact hn) (by rw [htb]; simp)
  obtain ⟨d1, d2⟩ := done_stream hg' ta' tb' hd
  have hsa : s'.a.submitted = da := by
    rw [← sa3]; exact phases_submitted (2 * n + 1) s3 s' hp .A
  have hsb : s'.b.submitted = [] := by
    rw [← sb3]; exact phases_submitted (2 * n + 1) s3 s' hp .B
  refine ⟨s', ta', tb', ?_, r03.trans hr, hd, by rw [d1, hsa], by rw [d2, hsb], hsa, hsb⟩
  rw [phases_add, ph3]
  exact hp

/-- **From `open` to release**: `c01_converges_from_open_partial` followed by a simultaneous close
    (`c03_release_simultaneous_partial`): the whole life of a connection under the fair loss-free schedule, for
    all ISNs, MTUs and data — handshake, transfer, close, TIME-WAIT — ends with both TCBs deleted and
    exactly `da` handed to B's application. -/
theorem c03_open_to_release_partial (ia ib : Seq) (ma mb : U16) (da : List UInt8)
    (hmA : SPACE_FOR_HEADERS < ma.toNat) (hmB : SPACE_FOR_HEADERS < mb.toNat) (h31 : da.length + 2 < 2147483648)
    (n : Nat) (hn : da.length - min da.length 65535 ≤ 65535 * n) :
    ∃ s' s'', phases (3 + (2 * n + 1)) (hsStart ia ib ma mb da) = .ok s' ∧ releaseRound s' = .ok s'' ∧
      s''.a.tcb = none ∧ s''.b.tcb = none ∧ s''.b.delivered = da ∧ s''.a.delivered = [] := by
  obtain ⟨s', ta', tb', hp, hr, hd, d1, d2, sa, sb⟩ := c01_converges_from_open_partial ia ib ma mb da hmA hmB h31 n hn
  have hroom : RoomH s' := by
    refine ⟨?_, ?_⟩
    · show s'.a.submitted.length + 2 < _
      rw [sa]; exact h31
    · show s'.b.submitted.length + 2 < _
      rw [sb]; simp
  obtain ⟨s'', e, _, na, nb, e1, e2, sa', sb', _⟩ := c03_release_simultaneous_partial ia ib ma mb false
    (hsSys0 ia ib ma mb) s' _ (by omega) (by omega) (hsSys0_run ia ib ma mb) hr hroom ta' tb' hd
  exact ⟨s', s'', hp, e, na, nb, by rw [e1, sa', sa], by rw [e2, sb', sb]⟩

/-! ## non-vacuity: the statement evaluated -/

/-- 70 000 bytes (more than one window): `n = 1`, six phases; then the close -/
example : ∃ s' s'', phases 6 (hsStart 1000 5000 1500 1500 (List.replicate 70000 7)) = .ok s' ∧
    releaseRound s' = .ok s'' ∧ s''.a.tcb = none ∧ s''.b.tcb = none ∧
    s''.b.delivered = List.replicate 70000 7 ∧ s''.a.delivered = [] :=
  c03_open_to_release_partial 1000 5000 1500 1500 (List.replicate 70000 7) (by decide) (by decide)
    (by rw [List.length_replicate]; omega) 1 (by rw [List.length_replicate]; omega)

end Elvis.Tcp
