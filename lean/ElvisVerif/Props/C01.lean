import ElvisVerif.Model.TcpSys
import ElvisVerif.Lemmas.TcbRtx
/-!
# C01 — TCP delivers a reliable, ordered, exactly-once byte stream

State of this file (builder `tcb`): the closed two-endpoint system is **total** —
`c01_closed_system_no_panic`: no interleaving of opens, writes, reads, timer ticks, emissions,
deliveries of any segment ever emitted (loss, duplication, reordering, delay), closes, aborts and
raw injections makes any TCB operation panic.  (This was false before the repair of F-C01-1:
`corpus/C01/sched/f-c01-1.ops`.)  The stream theorems of DESIGN.md section 8 (`c01_safety`,
`c01_exactly_once`, `c01_converges`) are not proved yet; the prefix and convergence clauses are
checked by the native oracles of the `sched` run on every check.
-/
namespace Elvis.Tcp
open Tcb

/-- a TCB of the closed system: well-formed, idle heap in SYN-SENT, every queued segment fits an
    IPv4 datagram -/
def TcbOk (t : Tcb) : Prop := Wf t ∧ HeapIdle t ∧ RtxBound t

def SideOk (sd : Side) : Prop :=
  (∀ t, sd.tcb = some t → TcbOk t) ∧ (∀ iss mtu, sd.listen = some (iss, mtu) → SPACE_FOR_HEADERS ≤ mtu.toNat)

/-- invariant of the system: both sides fine, every segment in the history deliverable -/
structure SysWf (sys : Sys) : Prop where
  a : SideOk sys.a
  b : SideOk sys.b
  hist : ∀ seg ∈ sys.history, seg.text.length ≤ MAX_PAYLOAD

/-- MTUs leave room for the headers (the property quantifies over MTU ≥ 100); injected segments
    fit an IPv4 datagram -/
def Op.Valid : Op → Prop
  | .open _ _ mtu => SPACE_FOR_HEADERS ≤ mtu.toNat
  | .listen _ _ mtu => SPACE_FOR_HEADERS ≤ mtu.toNat
  | .inject _ seg => seg.text.length ≤ MAX_PAYLOAD
  | _ => True

theorem SysWf.side {sys : Sys} (h : SysWf sys) (x : SideId) : SideOk (sys.side x) := by
  cases x
  · exact h.a
  · exact h.b

theorem SysWf.setSide {sys : Sys} (h : SysWf sys) (x : SideId) (sd : Side) (hs : SideOk sd) :
    SysWf (sys.setSide x sd) := by
  cases x
  · exact ⟨hs, h.b, h.hist⟩
  · exact ⟨h.a, hs, h.hist⟩

theorem SysWf.record {sys : Sys} (h : SysWf sys) (segs : List Segment)
    (hs : ∀ seg ∈ segs, seg.text.length ≤ MAX_PAYLOAD) : SysWf (sys.record segs) := by
  refine ⟨h.a, h.b, ?_⟩
  intro seg hm
  simp only [Sys.record, List.mem_append, List.mem_reverse] at hm
  rcases hm with hm | hm
  · exact hs seg hm
  · exact h.hist seg hm

theorem sideOk_tcb {sd : Side} (h : SideOk sd) (t : Tcb) (ht : TcbOk t) : SideOk { sd with tcb := some t } :=
  ⟨fun t' e => by simp only [Option.some.injEq] at e; subst e; exact ht, h.2⟩

theorem sideOk_none {sd : Side} (_h : SideOk sd) : SideOk { sd with tcb := none, listen := none } :=
  ⟨fun _ e => by simp at e, fun _ _ e => by simp at e⟩

/-- a segment arriving at a side never panics and keeps the invariant -/
theorem arrive_ok (sys : Sys) (h : SysWf sys) (x : SideId) (seg : Segment)
    (hp : seg.text.length ≤ MAX_PAYLOAD) : ∃ sys' r, sys.arrive x seg = .ok (sys', r) ∧ SysWf sys' := by
  have hsd := h.side x
  unfold Sys.arrive
  dsimp only
  cases htcb : (sys.side x).tcb with
  | some tcb =>
    obtain ⟨wf, idle, rb⟩ := hsd.1 tcb htcb
    obtain ⟨t1, r1, e1, wf1, idle1⟩ := segmentArrives_spec tcb seg wf idle hp
    have rb1 := rb.step (segmentArrives_rtx tcb seg wf hp _ _ e1)
    simp only [e1]
    cases r1 with
    | Ok => exact ⟨_, _, rfl, h.setSide x _ (sideOk_tcb hsd t1 ⟨wf1, idle1 rfl, rb1⟩)⟩
    | Close => exact ⟨_, _, rfl, h.setSide x _ (sideOk_none hsd)⟩
  | none =>
    simp only
    cases hl : (sys.side x).listen with
    | some p =>
      obtain ⟨iss, mtu⟩ := p
      have hm := hsd.2 iss mtu hl
      obtain ⟨r, e, hr⟩ := listen_spec seg iss mtu hm hp
      simp only [e]
      cases r with
      | none => exact ⟨_, _, rfl, h⟩
      | some lr =>
        cases lr with
        | Tcb t =>
          obtain ⟨wf, idle⟩ := hr t rfl
          refine ⟨_, _, rfl, h.setSide x _ ⟨fun t' e' => ?_, fun i m e' => ?_⟩⟩
          · simp only [Option.some.injEq] at e'
            subst e'
            exact ⟨wf, idle, listen_rtxBound seg iss mtu t e⟩
          · simp only [Option.some.injEq, Prod.mk.injEq] at e'
            rw [← e'.2]; exact hm
        | Response hd =>
          exact ⟨_, _, rfl, h.record _ (fun s hs => by simp at hs; subst hs; exact Nat.zero_le _)⟩
    | none =>
      simp only
      cases segmentArrivesClosed seg.hdr (BitVec.ofNat 32 seg.text.length) with
      | none => exact ⟨_, _, rfl, h⟩
      | some hd => exact ⟨_, _, rfl, h.record _ (fun s hs => by simp at hs; subst hs; exact Nat.zero_le _)⟩

theorem nth_mem (sys : Sys) (i : Nat) (seg : Segment) (e : sys.nth i = some seg) : seg ∈ sys.history := by
  unfold Sys.nth at e
  split at e
  · exact List.mem_of_getElem? e
  · simp at e

/-- **one step of the closed system never panics** and keeps the invariant -/
theorem c01_step_total (sys : Sys) (h : SysWf sys) (op : Op) (hv : op.Valid) :
    ∃ sys' r, sys.step op = .ok (sys', r) ∧ SysWf sys' := by
  have hsd := h.side op.side
  -- ops on an existing TCB
  have onTcb : ∀ tcb, (sys.side op.side).tcb = some tcb → TcbOk tcb := hsd.1
  cases op with
  | «open» x iss mtu =>
    obtain ⟨t, e, wf, idle⟩ := open_spec x.port x.peer.port iss mtu hv
    simp only [Sys.step, Op.side, e]
    exact ⟨_, _, rfl, h.setSide x _ (sideOk_tcb hsd t ⟨wf, idle, open_rtxBound _ _ _ _ t e⟩)⟩
  | listen x iss mtu =>
    simp only [Sys.step, Op.side]
    refine ⟨_, _, rfl, h.setSide x _ ⟨hsd.1, fun i m e => ?_⟩⟩
    simp only [Option.some.injEq, Prod.mk.injEq] at e
    rw [← e.2]; exact hv
  | deliver x i =>
    simp only [Sys.step, Op.side]
    cases hn : sys.nth i with
    | none => exact ⟨_, _, rfl, h⟩
    | some seg => exact arrive_ok sys h x seg (h.hist seg (nth_mem sys i seg hn))
  | inject x seg =>
    simp only [Sys.step, Op.side]
    exact arrive_ok sys h x seg hv
  | drop x =>
    simp only [Sys.step, Op.side]
    exact ⟨_, _, rfl, h.setSide x _ (sideOk_none hsd)⟩
  | write x bytes =>
    simp only [Sys.step, Op.side]
    cases ht : (sys.side x).tcb with
    | none => exact ⟨_, _, rfl, h⟩
    | some tcb =>
      obtain ⟨wf, idle, rb⟩ := onTcb tcb ht
      have ss := send_same tcb bytes
      refine ⟨_, _, rfl, h.setSide x _ ⟨fun t' e => ?_, hsd.2⟩⟩
      simp only [Option.some.injEq] at e
      subst e
      exact ⟨wf.of_rx (ss.1.rx (by rw [ss.2]; exact id)),
        fun hs => by rw [ss.1.incoming]; exact idle (by rw [← ss.2]; exact hs), rb.step (send_rtx tcb bytes)⟩
  | read x =>
    simp only [Sys.step, Op.side]
    cases ht : (sys.side x).tcb with
    | none => exact ⟨_, _, rfl, h⟩
    | some tcb =>
      obtain ⟨wf, idle, rb⟩ := onTcb tcb ht
      have rr := receive_rx tcb
      refine ⟨_, _, rfl, h.setSide x _ ⟨fun t' e => ?_, hsd.2⟩⟩
      simp only [Option.some.injEq] at e
      subst e
      exact ⟨wf.of_rx rr.1, fun hs => by rw [rr.1.heap]; exact idle (by rw [← rr.2]; exact hs),
        rb.step (receive_rtx tcb)⟩
  | tick x ms =>
    simp only [Sys.step, Op.side]
    cases ht : (sys.side x).tcb with
    | none => exact ⟨_, _, rfl, h⟩
    | some tcb =>
      obtain ⟨wf, idle, rb⟩ := onTcb tcb ht
      obtain ⟨t1, r1, e1, same1, st1⟩ := advanceTime_spec tcb ms
      simp only [e1]
      cases r1 with
      | Ignore =>
        refine ⟨_, _, rfl, h.setSide x _ (sideOk_tcb hsd t1 ⟨wf.of_rx (same1.rx (by rw [st1]; exact id)),
          fun hs => by rw [same1.incoming]; exact idle (by rw [← st1]; exact hs),
          rb.step (advanceTime_rtx tcb ms _ _ e1)⟩)⟩
      | CloseConnection => exact ⟨_, _, rfl, h.setSide x _ (sideOk_none hsd)⟩
  | emit x =>
    simp only [Sys.step, Op.side]
    cases ht : (sys.side x).tcb with
    | none => exact ⟨_, _, rfl, h⟩
    | some tcb =>
      obtain ⟨wf, idle, rb⟩ := onTcb tcb ht
      obtain ⟨t1, out, e1, same1, st1⟩ := segments_spec tcb wf
      obtain ⟨rb1, hout⟩ := segments_rtx tcb rb t1 out e1
      simp only [e1]
      refine ⟨_, _, rfl, (h.setSide x _ (sideOk_tcb hsd t1 ⟨wf.of_rx (same1.rx (by rw [st1]; exact id)),
        fun hs => by rw [same1.incoming]; exact idle (by rw [← st1]; exact hs), rb1⟩)).record out hout⟩
  | close x =>
    simp only [Sys.step, Op.side]
    cases ht : (sys.side x).tcb with
    | none => exact ⟨_, _, rfl, h⟩
    | some tcb =>
      obtain ⟨wf, idle, rb⟩ := onTcb tcb ht
      obtain ⟨t1, r1, e1, same1, st1⟩ := close_spec tcb
      simp only [e1]
      exact ⟨_, _, rfl, h.setSide x _ (sideOk_tcb hsd t1 ⟨wf.of_rx (same1.rx st1),
        fun hs => by rw [same1.incoming]; exact idle (st1 hs), rb.step (close_rtx tcb _ _ e1)⟩)⟩
  | abort x =>
    simp only [Sys.step, Op.side]
    cases ht : (sys.side x).tcb with
    | none => exact ⟨_, _, rfl, h⟩
    | some tcb =>
      obtain ⟨wf, idle, rb⟩ := onTcb tcb ht
      obtain ⟨t1, e1, same1, st1⟩ := abort_spec tcb
      simp only [e1]
      exact ⟨_, _, rfl, h.setSide x _ (sideOk_tcb hsd t1 ⟨wf.of_rx (same1.rx (by rw [st1]; exact id)),
        fun hs => by rw [same1.incoming]; exact idle (by rw [← st1]; exact hs), rb.step (abort_rtx tcb _ e1)⟩)⟩

/-- **The closed two-endpoint system never panics**: from the empty system, every finite sequence
    of valid ops runs to completion (T1 `c01_closed_system_no_panic` of DESIGN.md section 8). -/
theorem c01_closed_system_no_panic (ops : List Op) (hv : ∀ op ∈ ops, op.Valid) :
    ∃ r, Sys.run {} ops = .ok r := by
  have init : SysWf {} := ⟨⟨fun _ e => by simp at e, fun _ _ e => by simp at e⟩,
    ⟨fun _ e => by simp at e, fun _ _ e => by simp at e⟩, fun _ e => by simp at e⟩
  suffices ∀ (sys : Sys), SysWf sys → ∀ ops : List Op, (∀ op ∈ ops, op.Valid) → ∃ r, sys.run ops = .ok r from
    this {} init ops hv
  intro sys hs ops
  induction ops generalizing sys with
  | nil => intro _; exact ⟨_, rfl⟩
  | cons op ops ih =>
    intro hv
    obtain ⟨sys', r, e, hs'⟩ := c01_step_total sys hs op (hv op (by simp))
    obtain ⟨r', e'⟩ := ih sys' hs' (fun o ho => hv o (by simp [ho]))
    unfold Sys.run
    rw [e]
    simp only [e']
    exact ⟨_, rfl⟩

/-- the bytes returned by the last op of a run when it was a `read` -/
def runLastRead (r : Except String (Sys × List Res)) : Option (List UInt8) :=
  match r with
  | .ok (_, rs) => match rs.getLast? with
    | some (.read b) => some b
    | _ => none
  | .error _ => none

/-- non-vacuity: the F-C01-1 schedule (data from SYN-RECEIVED overtakes the SYN-ACK) is a valid op
    list; it used to panic, now the stream arrives intact -/
example : runLastRead (Sys.run {} [.open .A 1000 1500, .listen .B 5000 1500, .emit .A, .deliver .B 0,
    .write .B [1, 2, 3], .emit .B, .deliver .A 2, .deliver .A 1, .tick .B 150, .emit .B, .deliver .A 4,
    .read .A]) = some [1, 2, 3] := by decide

end Elvis.Tcp
