import ElvisVerif.Lemmas.NdlGram2
import ElvisVerif.Lemmas.NdlReject
/-!
# NDL: whole-file rejection

"The file contains an offending line" is declared on the line structure of `Lemmas/NdlGram2.lean`:
`InFile off s l` is a path from the top of the text `s` to an offending line — through blocks that
read as blocks, into a `[Networks]` or `[Machines]` block, through entries that read as entries,
into a network / machine / section, through lines that read as lines — ending in a line for which
the offence `off` holds in the context of that place (expected depth, types allowed there, whether
it is the first child of its parent).  Nothing is assumed about what follows the offending line.

`inFile_rejects`: for every offence that is `Fatal` (every loop of the builder, meeting such a
line, reports an error) a file that contains it is answered with a reported error.
The four offences of C19 — wrong depth, a line the lexer rejects (unknown type tag, duplicate
argument, …), a known type where it does not belong, a machine lacking a section — are `Fatal`.
Duplicate network ids depend on what was seen before and get their own path predicate `DupFile`.
-/
namespace Elvis.Ndl
open Elvis.Gen.Ndl

/-- a reported error (`Err(String)`), as opposed to a value, a panic or the model's fuel marker -/
def IsErr {α : Type} (x : R α) : Prop := ∃ k n, x = .error (.err k n)

theorem IsErr.intro {α : Type} (k : ErrKind) (n : Nat) : IsErr (.error (.err k n) : R α) := ⟨k, n, rfl⟩

theorem IsErr.not_ok {α : Type} {x : R α} (h : IsErr x) (a : α) : x ≠ .ok a := by
  obtain ⟨k, n, rfl⟩ := h; intro h; cases h

/-! ### contexts and offences -/

/-- where a line is expected: at which depth, which types may be declared there, and whether the
    line would be the first child of its parent (the code checks that one differently) -/
structure Ctx where
  depth : Nat
  allowed : List DecType
  first : Bool

abbrev Off := Ctx → Text → Nat → Prop

def topKinds : List DecType := [.template, .networks, .machines]
def secKinds : List DecType := [.networks, .protocols, .applications]

/-- an offence every loop of the builder answers with a reported error -/
structure Fatal (off : Off) : Prop where
  core : ∀ {s l}, off ⟨0, topKinds, false⟩ s l → ∀ fuel nets ms, IsErr (coreLoop (fuel + 1) s l nets ms)
  nets : ∀ {s l}, off ⟨1, [.network], false⟩ s l → ∀ fuel seen, IsErr (networksLoop 1 (fuel + 1) s l seen)
  machs : ∀ {s l}, off ⟨1, [.machine], false⟩ s l → ∀ fuel, IsErr (machinesLoop 1 (fuel + 1) s l)
  mach : ∀ {s l}, off ⟨2, secKinds, false⟩ s l → ∀ fuel a, (∀ k ∈ a.req, IsSec k) →
    IsErr (machineLoop 2 (fuel + 1) s l a)
  leaf : ∀ {exp d s l}, off ⟨d, [exp], false⟩ s l → 1 < d → ∀ fuel, IsErr (leafLoop exp d (fuel + 1) s l)
  leafFirst : ∀ {exp d s l}, off ⟨d, [exp], true⟩ s l → 1 < d → ∀ first, IsErr (leafList exp first d s l)

/-! ### paths to an offending line -/

/-- inside a leaf list (the `[IP]` lines of a network, the entries of a machine section) -/
inductive InLeaves (off : Off) (exp : DecType) (d : Nat) : Bool → Text → Nat → Prop
  | here {b s l} : off ⟨d, [exp], b⟩ s l → InLeaves off exp d b s l
  | later {b ps s l tail l'} : LineAt d exp ps s l tail l' → d ≤ countTabs tail →
      InLeaves off exp d false tail l' → InLeaves off exp d b s l

/-- inside the body of a `[Networks]` block -/
inductive InNets (off : Off) : Text → Nat → Prop
  | here {s l} : off ⟨1, [.network], false⟩ s l → InNets off s l
  | inside {ps s l tail l'} : LineAt 1 .network ps s l tail l' → InLeaves off .ip 2 true tail l' → InNets off s l
  | later {ps ips s l rest l'} : NetBodyAt ps ips s l rest l' → InNets off rest l' → InNets off s l

/-- inside the body of a `[Machine]` -/
inductive InMach (off : Off) : Text → Nat → Prop
  | here {s l} : off ⟨2, secKinds, false⟩ s l → InMach off s l
  | inside {k ps s l tail l'} : IsSec k → LineAt 2 k ps s l tail l' →
      InLeaves off (secLeaf k) 3 true tail l' → InMach off s l
  | later {k ps ls s l tail l1 rest l'} : IsSec k → LineAt 2 k ps s l tail l1 →
      LeavesAt (secLeaf k) 3 ls tail l1 rest l' → InMach off rest l' → InMach off s l

/-- inside the body of a `[Machines]` block -/
inductive InMachs (off : Off) : Text → Nat → Prop
  | here {s l} : off ⟨1, [.machine], false⟩ s l → InMachs off s l
  | inside {ps s l tail l'} : LineAt 1 .machine ps s l tail l' → InMach off tail l' → InMachs off s l
  | later {ps secs s l tail l1 rest l'} : LineAt 1 .machine ps s l tail l1 → SecsAt secs tail l1 rest l' →
      InMachs off rest l' → InMachs off s l

/-- anywhere in the file -/
inductive InFile (off : Off) : Text → Nat → Prop
  | here {s l} : off ⟨0, topKinds, false⟩ s l → InFile off s l
  | inNets {ps s l tail l'} : LineAt 0 .networks ps s l tail l' → InNets off tail l' → InFile off s l
  | inMachs {ps s l tail l'} : LineAt 0 .machines ps s l tail l' → InMachs off tail l' → InFile off s l
  | later {b s l rest l'} : BlockAt b s l rest l' → InFile off rest l' → InFile off s l

/-! ### every path ends in a reported error -/

theorem reqDrop_eq_erase (req : List DecType) (k : DecType) : reqDrop req k = req.erase k := by
  rw [List.erase_eq_eraseIdx, reqDrop]
  cases List.idxOf? k req <;> rfl

theorem requiredSections_isSec : ∀ k ∈ requiredSections, IsSec k := by
  rw [requiredSections_eq]
  intro k hk
  simp only [List.mem_cons, List.not_mem_nil, or_false] at hk
  exact hk

theorem mergeNets_err : ∀ (ns acc : List (Text × Network)) (e : Fail), mergeNets acc ns = .error e →
    e = .err .dupId 0
  | [], acc, e, h => by simp [mergeNets] at h
  | (id, n) :: ns, acc, e, h => by
    unfold mergeNets at h
    split at h
    · cases h; rfl
    · exact mergeNets_err ns _ e h

theorem stepBlock_err {nets : List (Text × Network)} {ms : List Machine} {b : Block} {e : Fail}
    (h : stepBlock nets ms b = .error e) : e = .err .dupId 0 := by
  cases b with
  | template => cases h
  | machs m => cases h
  | nets ns =>
    simp only [stepBlock] at h
    cases h1 : mergeNets [] ns with
    | error e1 => rw [h1] at h; cases h; exact mergeNets_err _ _ _ h1
    | ok r =>
      rw [h1] at h
      simp only [] at h
      cases h2 : mergeNets nets ns with
      | error e2 => rw [h2] at h; cases h; exact mergeNets_err _ _ _ h2
      | ok r2 => rw [h2] at h; cases h


section
variable {off : Off} (hf : Fatal off)
include hf

theorem inLeaves_loop {exp : DecType} {d : Nat} (hd : 1 < d) {b s l} (h : InLeaves off exp d b s l) :
    b = false → ∀ fuel, s.length < fuel → IsErr (leafLoop exp d fuel s l) := by
  induction h with
  | here h =>
    intro hb fuel hfu
    subst hb
    obtain ⟨f, rfl⟩ : ∃ f, fuel = f + 1 := ⟨fuel - 1, by omega⟩
    exact hf.leaf h hd f
  | @later b ps s l tail l' h1 hc _ ih =>
    intro _ fuel hfu
    obtain ⟨f, rfl⟩ : ∃ f, fuel = f + 1 := ⟨fuel - 1, by omega⟩
    have hl := h1.length
    rw [leafLoop_line h1]
    have h1' : ¬ countTabs tail < d := by omega
    simp only [ne_eq, not_true_eq_false, if_false, h1']
    split
    · exact IsErr.intro _ _
    · obtain ⟨k, n, hx⟩ := ih rfl f (by omega)
      rw [hx]; exact IsErr.intro _ _

theorem inLeaves_list {exp : DecType} {d : Nat} (hd : 1 < d) {s l} (h : InLeaves off exp d true s l)
    (first : ErrKind) : IsErr (leafList exp first d s l) := by
  cases h with
  | here h => exact hf.leafFirst h hd first
  | later h1 hc h3 =>
    unfold leafList
    simp only [h1.1, ne_eq, not_true_eq_false, if_false]
    exact inLeaves_loop hf hd (InLeaves.later (b := false) h1 hc h3) rfl _ (Nat.lt_succ_self _)

theorem inNets_rejects {s l} (h : InNets off s l) :
    ∀ fuel seen, s.length < fuel → IsErr (networksLoop 1 fuel s l seen) := by
  induction h with
  | here h =>
    intro fuel seen hfu
    obtain ⟨f, rfl⟩ : ∃ f, fuel = f + 1 := ⟨fuel - 1, by omega⟩
    exact hf.nets h f seen
  | inside h1 h2 =>
    intro fuel seen hfu
    obtain ⟨f, rfl⟩ : ∃ f, fuel = f + 1 := ⟨fuel - 1, by omega⟩
    obtain ⟨k, n, hx⟩ := inLeaves_list hf (by omega) h2 .expectedTabs
    rw [networksLoop_line h1]
    simp only [if_true, networkParser, hx]
    exact IsErr.intro _ _
  | @later ps ips s l rest l' hb _ ih =>
    intro fuel seen hfu
    obtain ⟨f, rfl⟩ : ∃ f, fuel = f + 1 := ⟨fuel - 1, by omega⟩
    have hl := hb.length
    obtain ⟨tail, l1, h1, h2⟩ := networkParser_of hb
    rw [networksLoop_line h1, h2]
    simp only [if_true]
    split
    · exact IsErr.intro _ _
    · split
      · exact IsErr.intro _ _
      · exact ih f _ (by omega)

theorem inMach_rejects {s l} (h : InMach off s l) :
    ∀ fuel a, (∀ k ∈ a.req, IsSec k) → s.length < fuel → IsErr (machineLoop 2 fuel s l a) := by
  induction h with
  | here h =>
    intro fuel a ha hfu
    obtain ⟨f, rfl⟩ : ∃ f, fuel = f + 1 := ⟨fuel - 1, by omega⟩
    exact hf.mach h f a ha
  | inside hk h1 h2 =>
    intro fuel a ha hfu
    obtain ⟨f, rfl⟩ : ∃ f, fuel = f + 1 := ⟨fuel - 1, by omega⟩
    obtain ⟨k', n, hx⟩ := inLeaves_list hf (by omega) h2 .formatting
    rw [machineLoop_line h1]
    split
    · simp only [hx]; exact IsErr.intro _ _
    · exact IsErr.intro _ _
  | @later k ps ls s l tail l1 rest l' hk h1 h2 _ ih =>
    intro fuel a ha hfu
    obtain ⟨f, rfl⟩ : ∃ f, fuel = f + 1 := ⟨fuel - 1, by omega⟩
    have := h1.length
    have := h2.length
    rw [machineLoop_line h1, leafList_of (by omega) h2]
    split
    · refine ih f _ ?_ (by omega)
      intro x hx
      have hx' : x ∈ a.req.erase k := by rw [← reqDrop_eq_erase]; exact hx
      exact ha x (List.mem_of_mem_erase hx')
    · exact IsErr.intro _ _

theorem inMachs_rejects {s l} (h : InMachs off s l) :
    ∀ fuel, s.length < fuel → IsErr (machinesLoop 1 fuel s l) := by
  induction h with
  | here h =>
    intro fuel hfu
    obtain ⟨f, rfl⟩ : ∃ f, fuel = f + 1 := ⟨fuel - 1, by omega⟩
    exact hf.machs h f
  | @inside ps s l tail l' h1 h2 =>
    intro fuel hfu
    obtain ⟨f, rfl⟩ : ∃ f, fuel = f + 1 := ⟨fuel - 1, by omega⟩
    obtain ⟨k, n, hx⟩ := inMach_rejects hf h2 (tail.length + 1) ⟨requiredSections, [], [], []⟩
      requiredSections_isSec (Nat.lt_succ_self _)
    rw [machinesLoop_line h1]
    simp only [if_true, machineParser, hx]
    exact IsErr.intro _ _
  | @later ps secs s l tail l1 rest l' h1 h2 _ ih =>
    intro fuel hfu
    obtain ⟨f, rfl⟩ : ∃ f, fuel = f + 1 := ⟨fuel - 1, by omega⟩
    have := h1.length
    have := h2.length
    rw [machinesLoop_line h1, machineParser_of h2]
    simp only [if_true]
    cases runSecs ⟨requiredSections, [], [], []⟩ secs with
    | none => exact IsErr.intro _ _
    | some a =>
      simp only []
      by_cases hreq : a.req ≠ []
      · rw [if_pos hreq]; exact IsErr.intro _ _
      · obtain ⟨k, n, hx⟩ := ih f (by omega)
        rw [if_neg hreq]; simp only [hx]; exact IsErr.intro _ _

theorem inFile_rejects {s l} (h : InFile off s l) :
    ∀ fuel nets ms, s.length < fuel → IsErr (coreLoop fuel s l nets ms) := by
  induction h with
  | here h =>
    intro fuel nets ms hfu
    obtain ⟨f, rfl⟩ : ∃ f, fuel = f + 1 := ⟨fuel - 1, by omega⟩
    exact hf.core h f nets ms
  | @inNets ps s l tail l' h1 h2 =>
    intro fuel nets ms hfu
    obtain ⟨f, rfl⟩ : ∃ f, fuel = f + 1 := ⟨fuel - 1, by omega⟩
    obtain ⟨k, n, hx⟩ := inNets_rejects hf h2 (tail.length + 1) [] (Nat.lt_succ_self _)
    rw [coreLoop_line h1]
    simp only [networksParser, hx]
    exact IsErr.intro _ _
  | @inMachs ps s l tail l' h1 h2 =>
    intro fuel nets ms hfu
    obtain ⟨f, rfl⟩ : ∃ f, fuel = f + 1 := ⟨fuel - 1, by omega⟩
    obtain ⟨k, n, hx⟩ := inMachs_rejects hf h2 (tail.length + 1) (Nat.lt_succ_self _)
    rw [coreLoop_line h1]
    simp only [machinesParser, hx]
    exact IsErr.intro _ _
  | @later b s l rest l' hb _ ih =>
    intro fuel nets ms hfu
    obtain ⟨f, rfl⟩ : ∃ f, fuel = f + 1 := ⟨fuel - 1, by omega⟩
    have := hb.length
    rw [coreLoop_block hb]
    cases hs : stepBlock nets ms b with
    | error e => rw [stepBlock_err hs]; exact IsErr.intro _ _
    | ok p => exact ih f _ _ (by omega)

/-- a text whose line structure contains a fatal offence is answered with a reported error -/
theorem build_rejects {s : Text} (h : InFile off s 1) : IsErr (build s) :=
  inFile_rejects hf h _ _ _ (Nat.lt_succ_self _)

end

/-! ### the offences -/

/-- wrong nesting depth: deeper than the block allows; for the first child of a block: any depth
    other than one level below its parent (this includes "no child at all") -/
def depthOff : Off := fun c s _ => if c.first then countTabs s ≠ c.depth else c.depth < countTabs s

/-- a line at the right depth that the lexer answers with error kind `k` -/
def lexOff (k : ErrKind) : Off := fun c s l =>
  s ≠ [] ∧ countTabs s = c.depth ∧ generalParser (s.drop c.depth) l = .error (.err k l)

/-- a well-formed line at the right depth whose type may not be declared there -/
def typeOff : Off := fun c s l =>
  ∃ dt ps tail l', LineAt c.depth dt ps s l tail l' ∧ c.allowed.contains dt = false

/-- a `[Machine]` whose body (well-formed sections, each read to its end) lacks a section kind -/
def lacksOff : Off := fun c s l =>
  c.depth = 1 ∧ c.allowed = [.machine] ∧ ∃ ps tail l1 secs rest l', LineAt 1 .machine ps s l tail l1 ∧
    SecsAt secs tail l1 rest l' ∧ ∃ k, IsSec k ∧ k ∉ secs.map (·.1)

theorem countTabs_pos_ne_nil {s : Text} {d : Nat} (h : d < countTabs s) : s ≠ [] := by
  intro hs; subst hs; simp [countTabs] at h

theorem drop_tab_of_lt : ∀ (d : Nat) (s : Text), d < countTabs s → ∃ r, s.drop d = '\t' :: r
  | _, [], h => by simp [countTabs] at h
  | 0, c :: r, h => by
    by_cases hc : c = '\t'
    · exact ⟨r, by simp [hc]⟩
    · simp [countTabs, hc] at h
  | d + 1, c :: r, h => by
    by_cases hc : c = '\t'
    · have : d < countTabs r := by simp [countTabs, hc] at h ⊢; omega
      simpa using drop_tab_of_lt d r this
    · simp [countTabs, hc] at h

theorem generalParser_tab (r : Text) (l : Nat) : generalParser ('\t' :: r) l = .error (.err .section l) := by
  simp [generalParser, sectionP]

theorem fatal_depth : Fatal depthOff where
  core := by
    intro s l h fuel nets ms
    have h : 0 < countTabs s := h
    obtain ⟨r, hr⟩ := drop_tab_of_lt 0 s h
    simp only [List.drop_zero] at hr
    subst hr
    rw [coreLoop]
    simp only [generalParser_tab]
    exact IsErr.intro _ _
  nets := by
    intro s l h fuel seen
    have h : 1 < countTabs s := h
    rw [networksLoop]
    have : ¬ countTabs s < 1 := by omega
    simp only [countTabs_pos_ne_nil h, if_false, this, gt_iff_lt, h, if_true]
    exact IsErr.intro _ _
  machs := by
    intro s l h fuel
    have h : 1 < countTabs s := h
    rw [machinesLoop]
    have : ¬ countTabs s < 1 := by omega
    simp only [countTabs_pos_ne_nil h, if_false, this, gt_iff_lt, h, if_true]
    exact IsErr.intro _ _
  mach := by
    intro s l h fuel a _
    have h : 2 < countTabs s := h
    rw [machineLoop]
    have : ¬ countTabs s < 2 := by omega
    simp only [countTabs_pos_ne_nil h, if_false, this, gt_iff_lt, h, if_true]
    exact IsErr.intro _ _
  leaf := by
    intro exp d s l h _ fuel
    have h : d < countTabs s := h
    obtain ⟨r, hr⟩ := drop_tab_of_lt d s h
    rw [leafLoop]
    simp only [countTabs_pos_ne_nil h, if_false, byteDrop_tabs s d (by omega), hr, generalParser_tab]
    exact IsErr.intro _ _
  leafFirst := by
    intro exp d s l h _ first
    have h : countTabs s ≠ d := h
    simp only [leafList, h, ne_eq, not_false_eq_true, if_true]
    exact IsErr.intro _ _

theorem fatal_lex (k : ErrKind) : Fatal (lexOff k) where
  core := by
    intro s l h fuel nets ms
    obtain ⟨h0, _, h2⟩ := h
    simp only [List.drop_zero] at h2
    rw [coreLoop]
    simp only [h0, if_false, h2]
    exact IsErr.intro _ _
  nets := by
    intro s l h fuel seen
    obtain ⟨h0, h1, h2⟩ := h
    simp only at h1 h2
    rw [networksLoop]
    simp only [h0, if_false, h1, Nat.lt_irrefl, gt_iff_lt, byteDrop_tabs s 1 (by omega), h2]
    exact IsErr.intro _ _
  machs := by
    intro s l h fuel
    obtain ⟨h0, h1, h2⟩ := h
    simp only at h1 h2
    rw [machinesLoop]
    simp only [h0, if_false, h1, Nat.lt_irrefl, gt_iff_lt, byteDrop_tabs s 1 (by omega), h2]
    exact IsErr.intro _ _
  mach := by
    intro s l h fuel a _
    obtain ⟨h0, h1, h2⟩ := h
    simp only at h1 h2
    rw [machineLoop]
    simp only [h0, if_false, h1, Nat.lt_irrefl, gt_iff_lt, byteDrop_tabs s 2 (by omega), h2]
    exact IsErr.intro _ _
  leaf := by
    intro exp d s l h _ fuel
    obtain ⟨h0, h1, h2⟩ := h
    simp only at h1 h2
    rw [leafLoop]
    simp only [h0, if_false, byteDrop_tabs s d (by omega), h2]
    exact IsErr.intro _ _
  leafFirst := by
    intro exp d s l h _ first
    obtain ⟨h0, h1, h2⟩ := h
    simp only at h1 h2
    unfold leafList
    simp only [h1, ne_eq, not_true_eq_false, if_false]
    rw [leafLoop]
    simp only [h0, if_false, byteDrop_tabs s d (by omega), h2]
    exact IsErr.intro _ _

theorem fatal_type : Fatal typeOff where
  core := by
    intro s l h fuel nets ms
    obtain ⟨dt, ps, tail, l', h1, h2⟩ := h
    rw [coreLoop_line h1]
    cases dt <;> first | exact IsErr.intro _ _ | (simp [topKinds] at h2)
  nets := by
    intro s l h fuel seen
    obtain ⟨dt, ps, tail, l', h1, h2⟩ := h
    have hne : dt ≠ .network := by intro he; subst he; simp at h2
    rw [networksLoop_line h1]
    simp only [hne, if_false]
    exact IsErr.intro _ _
  machs := by
    intro s l h fuel
    obtain ⟨dt, ps, tail, l', h1, h2⟩ := h
    have hne : dt ≠ .machine := by intro he; subst he; simp at h2
    rw [machinesLoop_line h1]
    simp only [hne, if_false]
    exact IsErr.intro _ _
  mach := by
    intro s l h fuel a _
    obtain ⟨dt, ps, tail, l', h1, h2⟩ := h
    have hns : ¬ IsSec dt := by
      intro hs
      rcases hs with rfl | rfl | rfl <;> simp [secKinds] at h2
    rw [machineLoop_line h1]
    simp only [hns, and_false, if_false]
    exact IsErr.intro _ _
  leaf := by
    intro exp d s l h _ fuel
    obtain ⟨dt, ps, tail, l', h1, h2⟩ := h
    have hne : dt ≠ exp := by intro he; subst he; simp at h2
    rw [leafLoop_line h1]
    simp only [ne_eq, hne, not_false_eq_true, if_true]
    exact IsErr.intro _ _
  leafFirst := by
    intro exp d s l h _ first
    obtain ⟨dt, ps, tail, l', h1, h2⟩ := h
    have hne : dt ≠ exp := by intro he; subst he; simp at h2
    unfold leafList
    simp only [h1.1, ne_eq, not_true_eq_false, if_false]
    rw [leafLoop_line h1]
    simp only [ne_eq, hne, not_false_eq_true, if_true]
    exact IsErr.intro _ _

theorem runSecs_keeps : ∀ (secs : List (DecType × List Leaf)) (a a' : MAcc), runSecs a secs = some a' →
    ∀ k ∈ a.req, k ∉ secs.map (·.1) → k ∈ a'.req
  | [], a, a', h, k, hk, _ => by simp [runSecs] at h; subst h; exact hk
  | (k', ls) :: r, a, a', h, k, hk, hn => by
    simp only [runSecs] at h
    split at h
    · simp only [List.map_cons, List.mem_cons, not_or] at hn
      refine runSecs_keeps r _ a' h k ?_ hn.2
      simp only [reqDrop_eq_erase]
      exact (List.mem_erase_of_ne hn.1).2 hk
    · cases h

theorem fatal_lacks : Fatal lacksOff where
  core := by intro s l h; exact absurd h.1 (by decide)
  nets := by intro s l h; exact absurd h.2.1 (by decide)
  mach := by intro s l h; exact absurd h.1 (by decide)
  leaf := by intro exp d s l h hd; have := h.1; simp only at this; omega
  leafFirst := by intro exp d s l h hd; have := h.1; simp only at this; omega
  machs := by
    intro s l h fuel
    obtain ⟨_, _, ps, tail, l1, secs, rest, l', h1, h2, k, hk, hn⟩ := h
    rw [machinesLoop_line h1, machineParser_of h2]
    simp only [if_true]
    cases hr : runSecs ⟨requiredSections, [], [], []⟩ secs with
    | none => exact IsErr.intro _ _
    | some a =>
      have hmem : k ∈ a.req := runSecs_keeps secs _ a hr k (by
        rw [requiredSections_eq]
        rcases hk with rfl | rfl | rfl <;> simp) hn
      have hne : a.req ≠ [] := by intro he; rw [he] at hmem; simp at hmem
      simp only [hne, ne_eq, not_false_eq_true, if_true]
      exact IsErr.intro _ _

/-! ### duplicate network ids -/

theorem networksLoop_network {id n s l rest l'} (h : NetworkAt id n s l rest l') (fuel : Nat)
    (seen : List (Text × Network)) :
    networksLoop 1 (fuel + 1) s l seen =
      if seen.any (fun e => e.1 == id) then .error (.err .dupId 0)
      else networksLoop 1 fuel rest l' (seen ++ [(id, n)]) := by
  obtain ⟨hdt, hid, hb⟩ := h
  obtain ⟨tail, l2, h1, h2⟩ := networkParser_of hb
  have he : (⟨DecType.network, n.options, n.ip⟩ : Network) = n := by
    cases n; simp at hdt; subst hdt; rfl
  rw [networksLoop_line h1, h2]
  simp only [if_true, he, hid]

theorem any_id_iff (seen : List (Text × Network)) (id : Text) :
    seen.any (fun e => e.1 == id) = true ↔ id ∈ seen.map (·.1) := by
  simp only [List.any_eq_true, beq_iff_eq, List.mem_map]

/-- inside the body of a `[Networks]` block, after entries with the ids `ids`: entries that read
    as entries, then one whose id was already used in this block -/
inductive DupInNets : List Text → Text → Nat → Prop
  | here {ids id n s l rest l'} : NetworkAt id n s l rest l' → id ∈ ids → DupInNets ids s l
  | later {ids id n s l rest l'} : NetworkAt id n s l rest l' → DupInNets (ids ++ [id]) rest l' →
      DupInNets ids s l

theorem dupInNets_rejects {ids s l} (h : DupInNets ids s l) :
    ∀ fuel seen, seen.map (·.1) = ids → s.length < fuel → IsErr (networksLoop 1 fuel s l seen) := by
  induction h with
  | here h hi =>
    intro fuel seen hs hfu
    obtain ⟨f, rfl⟩ : ∃ f, fuel = f + 1 := ⟨fuel - 1, by omega⟩
    rw [networksLoop_network h]
    subst hs
    simp only [(any_id_iff seen _).2 hi, if_true]
    exact IsErr.intro _ _
  | @later ids id n s l rest l' h _ ih =>
    intro fuel seen hs hfu
    obtain ⟨f, rfl⟩ : ∃ f, fuel = f + 1 := ⟨fuel - 1, by omega⟩
    have := h.2.2.length
    rw [networksLoop_network h]
    split
    · exact IsErr.intro _ _
    · exact ih f _ (by simp [hs]) (by omega)

def Block.ids : Block → List Text
  | .nets ns => ns.map (·.1)
  | _ => []

/-- the file has two networks with the same id: blocks that read as blocks (their ids are
    collected in `ids`), then a `[Networks]` block that either repeats an id within itself or
    reads to its end and holds an id of an earlier block -/
inductive DupFile : List Text → Text → Nat → Prop
  | sameBlock {ids ps s l tail l'} : LineAt 0 .networks ps s l tail l' → DupInNets [] tail l' →
      DupFile ids s l
  | otherBlock {ids ps s l tail l1 ns rest l'} : LineAt 0 .networks ps s l tail l1 →
      NetsAt ns tail l1 rest l' → (∃ id, id ∈ ns.map (·.1) ∧ id ∈ ids) → DupFile ids s l
  | later {ids b s l rest l'} : BlockAt b s l rest l' → DupFile (ids ++ b.ids) rest l' → DupFile ids s l

theorem stepBlock_ids {nets nets' : List (Text × Network)} {ms ms' : List Machine} {b : Block}
    (h : stepBlock nets ms b = .ok (nets', ms')) : nets'.map (·.1) = nets.map (·.1) ++ b.ids := by
  cases b with
  | template => cases h; simp [Block.ids]
  | machs m => cases h; simp [Block.ids]
  | nets ns =>
    simp only [stepBlock] at h
    cases h1 : mergeNets [] ns with
    | error e1 => rw [h1] at h; cases h
    | ok r =>
      rw [h1] at h
      simp only [] at h
      cases h2 : mergeNets nets ns with
      | error e2 => rw [h2] at h; cases h
      | ok r2 =>
        rw [h2] at h
        cases h
        rw [mergeNets_ok ns nets _ h2]
        simp [Block.ids]

theorem dupFile_rejects {ids s l} (h : DupFile ids s l) :
    ∀ fuel nets ms, nets.map (·.1) = ids → s.length < fuel → IsErr (coreLoop fuel s l nets ms) := by
  induction h with
  | @sameBlock ids ps s l tail l' h1 h2 =>
    intro fuel nets ms _ hfu
    obtain ⟨f, rfl⟩ : ∃ f, fuel = f + 1 := ⟨fuel - 1, by omega⟩
    obtain ⟨k, n, hx⟩ := dupInNets_rejects h2 (tail.length + 1) [] rfl (Nat.lt_succ_self _)
    rw [coreLoop_line h1]
    simp only [networksParser, hx]
    exact IsErr.intro _ _
  | @otherBlock ids ps s l tail l1 ns rest l' h1 h2 h3 =>
    intro fuel nets ms hs hfu
    obtain ⟨f, rfl⟩ : ∃ f, fuel = f + 1 := ⟨fuel - 1, by omega⟩
    obtain ⟨id, hin, hid⟩ := h3
    rw [coreLoop_line h1]
    simp only [networksParser_of h2]
    cases hm : mergeNets [] ns with
    | error e => rw [mergeNets_err _ _ _ hm]; exact IsErr.intro _ _
    | ok r =>
      have := mergeNets_ok ns [] r hm
      simp only [List.nil_append] at this
      subst this
      simp only [mergeNets_dup r nets id (by rw [hs]; exact hid) hin]
      exact IsErr.intro _ _
  | @later ids b s l rest l' hb _ ih =>
    intro fuel nets ms hs hfu
    obtain ⟨f, rfl⟩ : ∃ f, fuel = f + 1 := ⟨fuel - 1, by omega⟩
    have := hb.length
    rw [coreLoop_block hb]
    cases hst : stepBlock nets ms b with
    | error e => rw [stepBlock_err hst]; exact IsErr.intro _ _
    | ok p =>
      obtain ⟨nets', ms'⟩ := p
      exact ih f nets' ms' (by rw [stepBlock_ids hst, hs]) (by omega)

theorem build_rejects_dup {s : Text} (h : DupFile [] s 1) : IsErr (build s) :=
  dupFile_rejects h _ [] [] rfl (Nat.lt_succ_self _)

end Elvis.Ndl
