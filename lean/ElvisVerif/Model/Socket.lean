import ElvisVerif.Generated.SocketCert
/-
Model of the socket layer (sim/elvis-core/src/protocols/socket_api.rs, socket_api/socket.rs,
socket_api/socket_session.rs, tcp/tcp_session.rs (hand-off only), udp.rs, udp/udp_session.rs).

 (i)   `recvWith` / `recvMsg`      — the loop of `Socket::recv` and `Socket::recv_msg`
 (ii)  `Session.receive` / `Session.receiveStored` — `SocketSession` with its bounded mpsc channel
       (capacity `Gen.socketChannelCapacity`) and the unbounded pre-accept store
 (iii) `Api.demux` / `Api.notify` / `Api.acceptActivate` / `Api.acceptReplay` — the session table
       (exact 4-tuple, else listen binding exact-then-wildcard) and the backlog channel
 (iv)  `Hand.step` — hand-off of a write from `Socket::send` through `SocketSession::send` to
       `TcpSession::send` and the per-session instruction queue, as a transition system; whether a
       hop is a spawned task or a synchronous call is a parameter, instantiated from the source
       (`Gen.socketSendSpawns`, `Gen.tcpSessionSendSpawns`)
 (v)   `udpSend` / `udpDemux` — `UdpSession::send`, `Udp::demux`
 (vi)  `E2E` — composition: writes → hand-off → (TCB as a reliable in-order byte pipe: ASSUMPTION
       C01) → `SocketAPI::demux` → channel → `recv`

Assumed tokio semantics (exercised by the correspondence runs, not proved): an mpsc channel is FIFO;
`try_send` fails exactly when `len = capacity` (or the receiver is gone); tasks created with
`tokio::spawn` run in an order chosen by the scheduler (every order is possible); a `send().await`
on a full bounded channel is served FIFO among waiters.
No imports besides the generated constants: linked into the native driver.
-/
namespace Elvis.Sock

abbrev Bytes := List UInt8
abbrev Msg := Bytes

/-! ## (i) Socket::recv / recv_msg -/

structure RecvOut where
  /-- the `Vec<u8>` returned -/
  out : Bytes
  /-- `self.stored_message` afterwards -/
  stored : Option Msg
  /-- what is left in `message_receiver` -/
  queue : List Msg
  /-- the call is parked in `message_receiver.recv().await` (nothing consumed, nothing returned) -/
  blocked : Bool
deriving Repr, DecidableEq

/-- what a dequeued message is compared with and cut at: `bytes` in the original code,
`bytes - buf.len()` after the fix of F-C02-1 -/
def recvLimit (usesRemaining : Bool) (n bufLen : Nat) : Nat :=
  if usesRemaining then n - bufLen else n

/-- `while buf.len() < bytes { … }` -/
def recvLoop (rem : Bool) (n : Nat) (blocking : Bool) (buf : Bytes) (stored : Option Msg) :
    List Msg → RecvOut
  | [] => ⟨buf, stored, [], decide (buf.length < n) && buf.isEmpty && blocking⟩
  | m :: q =>
    if buf.length < n then
      let lim := recvLimit rem n buf.length
      if m.length ≤ lim then recvLoop rem n blocking (buf ++ m) stored q
      else recvLoop rem n blocking (buf ++ m.take lim) (some (m.drop lim)) q
    else ⟨buf, stored, m :: q, false⟩

/-- `Socket::recv(bytes)` on a socket whose stored remainder is `stored` and whose channel holds
`queue` (oldest first) -/
def recvWith (rem : Bool) (stored : Option Msg) (queue : List Msg) (n : Nat) (blocking : Bool) : RecvOut :=
  match stored with
  | some m =>
    if m.length ≤ n then recvLoop rem n blocking m none queue
    else recvLoop rem n blocking (m.take n) (some (m.drop n)) queue
  | none => recvLoop rem n blocking [] none queue

/-- the code as it is now -/
def recv (stored : Option Msg) (queue : List Msg) (n : Nat) (blocking : Bool) : RecvOut :=
  recvWith Gen.recvComparesWithRemaining stored queue n blocking

inductive RecvMsgOut
  | msg (m : Msg) (stored : Option Msg) (queue : List Msg)
  | blocked
  | error
deriving Repr, DecidableEq

/-- `Socket::recv_msg` -/
def recvMsg (stored : Option Msg) (queue : List Msg) (blocking : Bool) : RecvMsgOut :=
  match stored with
  | some m => .msg m none queue
  | none =>
    match queue with
    | m :: q => .msg m none q
    | [] => if blocking then .blocked else .error

/-- the bytes a socket still owes its reader -/
def pending (stored : Option Msg) (queue : List Msg) : Bytes := stored.getD [] ++ queue.flatten

/-! ## (ii) SocketSession -/

structure Session where
  /-- `upstream = Some(sender)` -/
  active : Bool := false
  /-- the `Receiver` half (the socket) was dropped -/
  rxClosed : Bool := false
  /-- contents of the mpsc channel, oldest first -/
  chan : List Msg := []
  /-- `stored_messages` (unbounded `VecDeque`) -/
  pre : List Msg := []
deriving Repr, DecidableEq

inductive RxResult
  | queued | stored | full | closed
deriving Repr, DecidableEq

/-- `SocketSession::receive` (`try_send` on a channel of capacity `cap`) -/
def Session.receive (cap : Nat) (s : Session) (m : Msg) : Session × RxResult :=
  if s.active then
    if s.rxClosed then (s, .closed)
    else if s.chan.length < cap then ({ s with chan := s.chan ++ [m] }, .queued)
    else (s, .full)
  else ({ s with pre := s.pre ++ [m] }, .stored)

/-- `while !queue.is_empty() { try_send(queue.pop_front()) … }`: returns channel, remaining store,
success; a failed `try_send` loses the popped message and stops -/
def replayLoop (cap : Nat) (chan : List Msg) : List Msg → List Msg × List Msg × Bool
  | [] => (chan, [], true)
  | m :: rest => if chan.length < cap then replayLoop cap (chan ++ [m]) rest else (chan, rest, false)

/-- `SocketSession::receive_stored_messages` -/
def Session.receiveStored (cap : Nat) (s : Session) : Session × Bool :=
  if s.active then
    let r := replayLoop cap s.chan s.pre
    ({ s with chan := r.1, pre := r.2.1 }, r.2.2)
  else (s, false)

/-! ## (iii) SocketAPI: session table, listen bindings, backlog -/

structure Endpoint where
  addr : Nat
  port : Nat
deriving Repr, DecidableEq

structure Endpoints where
  loc : Endpoint
  rem : Endpoint
deriving Repr, DecidableEq

structure Binding where
  ep : Endpoint
  /-- `mpsc::channel(backlog)` -/
  cap : Nat
  pending : List Endpoint
deriving Repr, DecidableEq

structure Api where
  /-- `socket_sessions` (keys unique) -/
  sessions : List (Endpoints × Session) := []
  /-- `listen_bindings` (keys unique) -/
  bindings : List Binding := []
deriving Repr, DecidableEq

def Api.session? (a : Api) (id : Endpoints) : Option Session :=
  (a.sessions.find? (·.1 == id)).map (·.2)

def Api.setSession (a : Api) (id : Endpoints) (s : Session) : Api :=
  if a.sessions.any (·.1 == id) then
    { a with sessions := a.sessions.map fun e => if e.1 == id then (id, s) else e }
  else { a with sessions := a.sessions ++ [(id, s)] }

def Api.removeSession (a : Api) (id : Endpoints) : Api :=
  { a with sessions := a.sessions.filter (fun e => !(e.1 == id)) }

/-- `Ipv4Address::CURRENT_NETWORK` = 0.0.0.0 -/
def anyAddr : Nat := 0

/-- listen binding for a local endpoint: exact, else `0.0.0.0:port` -/
def Api.binding? (a : Api) (loc : Endpoint) : Option Binding :=
  match a.bindings.find? (·.ep == loc) with
  | some b => some b
  | none => a.bindings.find? (·.ep == ⟨anyAddr, loc.port⟩)

def Api.setBinding (a : Api) (b : Binding) : Api :=
  { a with bindings := a.bindings.map fun x => if x.ep == b.ep then b else x }

inductive DemuxResult
  | delivered (r : RxResult)
  | newSession
  | missingSession
  | backlogFull
deriving Repr, DecidableEq

/-- `SocketAPI::demux` for session identifier `id` -/
def Api.demux (cap : Nat) (a : Api) (id : Endpoints) (m : Msg) : Api × DemuxResult :=
  match a.session? id with
  | some s =>
    let r := s.receive cap m
    (a.setSession id r.1, .delivered r.2)
  | none =>
    match a.binding? id.loc with
    | none => (a, .missingSession)
    | some b =>
      if b.pending.length < b.cap then
        ((a.setBinding { b with pending := b.pending ++ [id.rem] }).setSession id { pre := [m] }, .newSession)
      else (a, .backlogFull)

/-- `SocketAPI::notify(NewConnection)`: the session is inserted even when the backlog is full -/
def Api.notify (a : Api) (id : Endpoints) : Api :=
  match a.session? id with
  | some _ => a
  | none =>
    match a.binding? id.loc with
    | none => a
    | some b =>
      if b.pending.length < b.cap then
        (a.setBinding { b with pending := b.pending ++ [id.rem] }).setSession id {}
      else a.setSession id {}

/-- `SocketAPI::listen` -/
def Api.listen (a : Api) (ep : Endpoint) (backlog : Nat) : Option Api :=
  if a.bindings.any (·.ep == ep) then none
  else some { a with bindings := a.bindings ++ [⟨ep, backlog, []⟩] }

/-- first half of `Socket::accept`: take the oldest pending connection of the binding `listenEp`
and (`get_socket_session`) re-key its session to `(localAddr:port, remote)` with a fresh, active
channel.  `none`: no pending connection (the call waits) or no session (AcceptError). -/
def Api.acceptActivate (a : Api) (listenEp : Endpoint) (localAddr : Nat) : Option (Api × Endpoints) :=
  match a.bindings.find? (·.ep == listenEp) with
  | none => none
  | some b =>
    match b.pending with
    | [] => none
    | r :: rest =>
      let id : Endpoints := ⟨⟨localAddr, listenEp.port⟩, r⟩
      let a1 := a.setBinding { b with pending := rest }
      match a1.session? id with
      | none => none
      | some s => some ((a1.removeSession id).setSession id { s with active := true, rxClosed := false, chan := [] }, id)

/-- second half: `receive_stored_messages` of that session; `false` = the `unwrap()` in `accept`
panics (more stored messages than the channel holds) -/
def Api.acceptReplay (cap : Nat) (a : Api) (id : Endpoints) : Api × Bool :=
  match a.session? id with
  | none => (a, false)
  | some s =>
    let r := s.receiveStored cap
    (a.setSession id r.1, r.2)

/-- the socket reads `k` messages' worth: the channel of session `id` is replaced -/
def Api.setChan (a : Api) (id : Endpoints) (q : List Msg) : Api :=
  match a.session? id with
  | none => a
  | some s => a.setSession id { s with chan := q }

/-! ### accept versus concurrent arrivals, for one session -/

inductive AStep
  /-- `SocketAPI::demux` of a message for this session (TCP session task) -/
  | arrive (m : Msg)
  /-- activation of the channel (`get_socket_session`) -/
  | activate
  /-- `receive_stored_messages` -/
  | replay
  /-- second half of a `SocketSession::receive` that read `upstream = None` BEFORE the activation
  and pushes onto `stored_messages` only now (possible only when `receive` is not excluded by a
  lock from the steps of `accept`) -/
  | storeLate (m : Msg)
deriving Repr, DecidableEq

def Session.astep (cap : Nat) (s : Session) : AStep → Session
  | .arrive m => (s.receive cap m).1
  | .activate => { s with active := true, rxClosed := false, chan := [] }
  | .replay => (s.receiveStored cap).1
  | .storeLate m => { s with pre := s.pre ++ [m] }

def Session.arun (cap : Nat) (s : Session) (l : List AStep) : Session := l.foldl (Session.astep cap) s

/-- the steps of `accept()` as other threads can interleave with them: one indivisible block when
the replay runs under the sessions write lock, two separate steps otherwise -/
def acceptSteps (underLock : Bool) (between : List Msg) : List AStep :=
  if underLock then [.activate, .replay] ++ between.map .arrive
  else [.activate] ++ between.map .arrive ++ [.replay]

/-! ## (iv) hand-off of writes to the TCB -/

inductive Instr
  | out (w : Nat)   -- `Instruction::Outgoing` of write number w
  | inc (j : Nat)   -- `Instruction::Incoming` of segment number j
deriving Repr, DecidableEq

structure Hand where
  /-- writes issued by the application so far (`Socket::send` calls), in program order 0,1,2,… -/
  issued : Nat := 0
  /-- spawned `Socket::send` tasks that have not run yet -/
  tasksA : List Nat := []
  /-- spawned `TcpSession::send` / `receive` tasks that have not been polled yet -/
  tasksB : List Instr := []
  /-- tasks parked in `send().await` on the full instruction queue (served FIFO) -/
  waiters : List Instr := []
  /-- the instruction queue -/
  chan : List Instr := []
  /-- what reached the TCB (`tcb.send` / `tcb.segment_arrives`), in order -/
  tcb : List Instr := []
deriving Repr, DecidableEq

inductive HStep
  /-- the application calls `Socket::send` for its next write -/
  | write
  /-- the scheduler runs the k-th not yet run `Socket::send` task -/
  | runA (k : Nat)
  /-- the scheduler polls the k-th not yet polled enqueue task -/
  | runB (k : Nat)
  /-- `Tcp::demux` hands segment j to `TcpSession::receive` -/
  | segment (j : Nat)
  /-- the TCP session task takes one instruction -/
  | tcbTask
deriving Repr, DecidableEq

structure Discipline where
  socketSendSpawns : Bool
  tcpSendSpawns : Bool
  tcpRecvSpawns : Bool
  /-- capacity of the instruction queue (`none`: unbounded) -/
  cap : Option Nat
deriving Repr, DecidableEq

/-- the code as it is now -/
def codeDiscipline : Discipline :=
  ⟨Gen.socketSendSpawns, Gen.tcpSessionSendSpawns, Gen.tcpSessionReceiveSpawns, Gen.instructionQueueCapacity⟩

def hasRoom (cap : Option Nat) (len : Nat) : Bool :=
  match cap with
  | none => true
  | some c => len < c

/-- `send.send(instr)`: enqueue, or park behind the earlier waiters -/
def Hand.enqueue (d : Discipline) (h : Hand) (i : Instr) : Hand :=
  if h.waiters.isEmpty && hasRoom d.cap h.chan.length then { h with chan := h.chan ++ [i] }
  else { h with waiters := h.waiters ++ [i] }

/-- `TcpSession::send` / `TcpSession::receive` -/
def Hand.sessionEnqueue (d : Discipline) (h : Hand) (spawns : Bool) (i : Instr) : Hand :=
  if spawns then { h with tasksB := h.tasksB ++ [i] } else h.enqueue d i

def Hand.step (d : Discipline) (h : Hand) : HStep → Hand
  | .write =>
    let h1 := { h with issued := h.issued + 1 }
    if d.socketSendSpawns then { h1 with tasksA := h1.tasksA ++ [h.issued] }
    else h1.sessionEnqueue d d.tcpSendSpawns (.out h.issued)
  | .runA k =>
    match h.tasksA[k]? with
    | none => h
    | some w => ({ h with tasksA := h.tasksA.eraseIdx k }).sessionEnqueue d d.tcpSendSpawns (.out w)
  | .runB k =>
    match h.tasksB[k]? with
    | none => h
    | some i => ({ h with tasksB := h.tasksB.eraseIdx k }).enqueue d i
  | .segment j => h.sessionEnqueue d d.tcpRecvSpawns (.inc j)
  | .tcbTask =>
    match h.chan with
    | [] => h
    | i :: rest =>
      match h.waiters with
      | [] => { h with chan := rest, tcb := h.tcb ++ [i] }
      | w :: ws => { h with chan := rest ++ [w], waiters := ws, tcb := h.tcb ++ [i] }

def Hand.run (d : Discipline) (h : Hand) (l : List HStep) : Hand := l.foldl (Hand.step d) h

def outsOf : List Instr → List Nat
  | [] => []
  | .out w :: r => w :: outsOf r
  | .inc _ :: r => outsOf r

/-- the write numbers in the order `tcb.send` saw them -/
def Hand.tcbWrites (h : Hand) : List Nat := outsOf h.tcb

/-! ## (v) UDP: UdpSession::send, Udp::demux, delivery to a connected socket -/

/-- an IPv4 datagram carrying UDP as the IP layer hands it over: ASSUMPTION (C10/C11) IPv4
delivers the bytes given to it intact or not at all, with the addresses it was sent with -/
structure IpDgram where
  src : Nat
  dst : Nat
  bytes : Bytes
deriving Repr, DecidableEq

def be16 (v : Nat) : Bytes := [UInt8.ofNat (v / 256), UInt8.ofNat (v % 256)]
def rd16 (a b : UInt8) : Nat := a.toNat * 256 + b.toNat

/-- `build_udp_header` without the checksum value (field kept, content irrelevant to demux) -/
def udpHeader (sport dport len cks : Nat) : Bytes := be16 sport ++ be16 dport ++ be16 len ++ be16 cks

/-- `UdpSession::send` of a session with endpoints `id` (local = sender): `none` = OverlyLongPayload -/
def udpSend (id : Endpoints) (payload : Bytes) (cks : Nat) : Option IpDgram :=
  if payload.length + Gen.udpHeaderOctets < 65536 then
    some ⟨id.loc.addr, id.rem.addr, udpHeader id.loc.port id.rem.port (payload.length + Gen.udpHeaderOctets) cks ++ payload⟩
  else none

/-- `Udp::demux`: parse the header (length must match), strip it, build the endpoints from the
IPv4 and UDP headers (local = destination) -/
def udpDemux (d : IpDgram) : Option (Endpoints × Bytes) :=
  match d.bytes with
  | s1 :: s2 :: d1 :: d2 :: l1 :: l2 :: _ :: _ :: payload =>
    if rd16 l1 l2 = d.bytes.length then
      some (⟨⟨d.dst, rd16 d1 d2⟩, ⟨d.src, rd16 s1 s2⟩⟩, payload)
    else none
  | _ => none

/-- a datagram handed up by IPv4 on a machine: `Udp::demux` then `SocketAPI::demux` -/
def Api.udpArrive (cap : Nat) (a : Api) (d : IpDgram) : Api :=
  match udpDemux d with
  | none => a
  | some (id, p) => (a.demux cap id p).1

/-! ## (vi) end to end, one direction of one stream -/

structure E2E where
  /-- bytes of every `Socket::send` issued, in program order -/
  writes : List Bytes := []
  hand : Hand := {}
  /-- number of bytes the receiving TCB has released through `tcb.receive()` -/
  delivered : Nat := 0
  /-- the receiving socket's session -/
  sess : Session := {}
  stored : Option Msg := none
  /-- everything `recv` returned so far -/
  read : Bytes := []
  /-- a `try_send` failed (message dropped) -/
  overrun : Bool := false
deriving Repr

/-- the bytes handed to `Tcb::send` at the sender, in the order the TCB saw the writes -/
def E2E.submitted (e : E2E) : Bytes := (e.hand.tcbWrites.map fun w => e.writes.getD w []).flatten

inductive EStep
  | write (b : Bytes)
  | hand (s : HStep)
  /-- the receiving TCB releases the next `k` bytes as one message to `SocketAPI::demux`
  (ASSUMPTION C01: always the next bytes of what the sending TCB was given, in order) -/
  | chunk (k : Nat)
  /-- `accept()` as one atomic step -/
  | accept
  | recv (n : Nat)
deriving Repr

def E2E.step (d : Discipline) (cap : Nat) (rem : Bool) (e : E2E) : EStep → E2E
  | .write b => { e with writes := e.writes ++ [b], hand := e.hand.step d .write }
  | .hand .write => e
  | .hand s => { e with hand := e.hand.step d s }
  | .chunk k =>
    let c := (e.submitted.drop e.delivered).take k
    if c.isEmpty then e else
    let r := e.sess.receive cap c
    { e with delivered := e.delivered + c.length, sess := r.1,
             overrun := e.overrun || (r.2 == .full) || (r.2 == .closed) }
  | .accept =>
    if e.sess.active then e else
    let s1 : Session := { e.sess with active := true, rxClosed := false, chan := [] }
    let r := s1.receiveStored cap
    { e with sess := r.1, overrun := e.overrun || !r.2 }
  | .recv n =>
    if !e.sess.active then e else
    let r := recvWith rem e.stored e.sess.chan n false
    { e with stored := r.stored, sess := { e.sess with chan := r.queue }, read := e.read ++ r.out }

def E2E.run (d : Discipline) (cap : Nat) (rem : Bool) (e : E2E) (l : List EStep) : E2E :=
  l.foldl (E2E.step d cap rem) e

/-- bytes still inside the receiving socket layer -/
def E2E.inSocket (e : E2E) : Bytes := pending e.stored e.sess.chan ++ e.sess.pre.flatten

/-! ## payload pattern shared with the harness (keeps op lines short) -/

/-- byte at stream offset `o` of client `c` -/
def patByte (c o : Nat) : UInt8 := UInt8.ofNat ((o * 131 + (o / 256) * 29 + (o / 65536) * 7 + c * 53 + 11) % 256)

def patRange (c off len : Nat) : Bytes := (List.range len).map fun i => patByte c (off + i)

/-- order-sensitive digest used to print long byte strings (FNV-1a, 32 bit) -/
def digest (b : Bytes) : Nat := b.foldl (fun h x => ((h ^^^ x.toNat) * 16777619) % 4294967296) 2166136261

end Elvis.Sock
