//! C18: correspondence + oracle runs (sub-commands `c18` / `c18-*`).
use hcommon::*;

pub fn run(args: &Args) {
    eprintln!("hcore: {} not implemented yet", args.prop);
    std::process::exit(2);
}
