import ElvisVerif.Lemmas.C01Inv
/-!
# C01 — what each block of `process_segment` does to the stream invariant

`seqCheck`, `ackBlock`, `rstBlock`, `synBlock` outside SYN-SENT and `finBlock` without FIN are
frame steps (`Fr`): they touch `SND.UNA`, the windows, timers, the state SYN-RECEIVED →
ESTABLISHED, drop acknowledged queue entries and queue ACK / RST headers — nothing the invariant
reads.  `synBlock` in SYN-SENT establishes the receive facts with `q = 0` from a valid SYN.
`textBlock` preserves them by the acceptance arithmetic (`Lemmas/C01Seq.lean`).
-/
namespace Elvis.Tcp.C01
open Elvis.ModCmp Elvis.Tcp.Tcb

/-- a frame step that only rewrites fields the invariant does not read -/
macro "fr_fields" : tactic =>
  `(tactic| exact ⟨rfl, rfl, rfl, rfl, rfl, rfl, Or.inl rfl, fun _ h => h, fun _ h => Or.inl h⟩)

/-! ## block 1 -/

theorem seqCheck_fr {t t' : Tcb} {seg : Hdr} {tl : Seq} {r : Option ProcessSegmentResult}
    (e : seqCheck t seg tl = .ok (t', r)) : Fr t t' := by
  unfold seqCheck at e
  split at e
  · cases e; exact Fr.refl _
  · split at e
    · cases e
    · cases e; exact Fr.refl _
    · rw [enqueueThen_eq] at e; cases e; exact Fr.enqAck _

/-- block 1 falls through without touching the TCB -/
theorem seqCheck_none {t t' : Tcb} {seg : Hdr} {tl : Seq}
    (e : seqCheck t seg tl = .ok (t', none)) : t' = t := by
  unfold seqCheck at e
  split at e
  · cases e; rfl
  · split at e
    · cases e
    · cases e; rfl
    · rw [enqueueThen_eq] at e; cases e

/-! ## block 2 -/

theorem removeAcked_fr (t : Tcb) (una : Seq) : Fr t (t.removeAckedFromRetransmission una) := by
  unfold removeAckedFromRetransmission
  exact ⟨rfl, rfl, rfl, rfl, rfl, rfl, Or.inl rfl, fun g hg => mem_map_filter _ _ _ g hg, fun _ h => Or.inl h⟩

theorem aep_fr {t t' : Tcb} {seg : Hdr} {r : ProcessSegmentResult}
    (e : t.ackEstablishedProcessing seg = .ok (t', r)) : Fr t t' := by
  unfold ackEstablishedProcessing at e
  split at e
  · cases e; exact Fr.refl _
  · split at e
    · rw [enqueue_eq] at e; cases e; exact Fr.enqAck _
    · simp only [Except.ok.injEq, Prod.mk.injEq] at e
      obtain ⟨rfl, _⟩ := e
      have f1 : Fr t { t with snd.una := seg.ack } := by fr_fields
      have f2 := removeAcked_fr { t with snd.una := seg.ack } seg.ack
      split
      · refine (f1.trans f2).trans ?_
        fr_fields
      · exact f1.trans f2

/-- the tail `if r = Success then (s, none) else (s, some r)` of most ACK arms -/
theorem afterAck_fr {t0 t' : Tcb} {seg : Hdr} {r : Option ProcessSegmentResult}
    (e : afterAckEstablished (t0.ackEstablishedProcessing seg)
      (fun s r => if r = .Success then .ok (s, none) else .ok (s, some r)) = .ok (t', r)) : Fr t0 t' := by
  unfold afterAckEstablished at e
  split at e
  · cases e
  · rename_i s1 r1 h1
    have f := aep_fr h1
    dsimp only at e
    split at e <;> (cases e; exact f)

theorem ackBlock_fr {t t' : Tcb} {seg : Hdr} {r : Option ProcessSegmentResult} (h3 : Ok3 t.state)
    (e : ackBlock t seg = .ok (t', r)) : Fr t t' := by
  unfold ackBlock at e
  split at e
  · cases e; exact Fr.refl _
  · split at e
    · -- SYN-SENT
      split at e
      · split at e
        · cases e; exact Fr.refl _
        · rw [enqueueThen_eq] at e; cases e; exact Fr.enq _ _ (rstForAck_plain _ _)
      · split at e
        · split at e
          · cases e
            have f1 : Fr t { t with snd.una := seg.ack } := by fr_fields
            exact f1.trans (removeAcked_fr _ _)
          · cases e; exact Fr.refl _
        · rw [enqueueThen_eq] at e; cases e; exact Fr.enq _ _ (rstForAck_plain _ _)
    · -- SYN-RECEIVED
      rename_i hst
      split at e
      · dsimp only at e
        have f1 : Fr t { t with state := .Established, snd.wnd := seg.wnd, snd.wl1 := seg.seq, snd.wl2 := seg.ack } :=
          ⟨rfl, rfl, rfl, rfl, rfl, rfl, Or.inr ⟨hst, rfl⟩, fun _ h => h, fun _ h => Or.inl h⟩
        exact f1.trans (afterAck_fr e)
      · rw [enqueueThen_eq] at e; cases e; exact Fr.enq _ _ (rstForAck_plain _ _)
    · -- ESTABLISHED
      exact afterAck_fr e
    all_goals (rename_i hst; rw [hst] at h3; exact h3.elim)

/-! ## block 3 -/

theorem rstBlock_eq {t t' : Tcb} {seg : Hdr} {r : Option ProcessSegmentResult}
    (e : rstBlock t seg = .ok (t', r)) : t' = t := by
  obtain ⟨r0, h⟩ := rstBlock_spec t seg
  rw [h] at e
  cases e
  rfl

/-! ## block 4 -/

theorem synBlock_fr {t t' : Tcb} {seg : Hdr} {r : Option ProcessSegmentResult} (hns : t.state ≠ .SynSent)
    (e : synBlock t seg = .ok (t', r)) : Fr t t' := by
  unfold synBlock at e
  split at e
  · first
      | (cases e; exact Fr.refl _)
      | (split at e <;> (cases e; exact Fr.refl _))
  · split at e
    · rename_i hst; exact absurd hst hns
    · rw [enqueueThen_eq] at e; cases e; exact Fr.enqAck _

/-- queueing a valid SYN of ours (the SYN-ACK of a simultaneous open) keeps the invariant -/
theorem TInv.enqSyn {port : U16} {issX issY : Seq} {subX subY delX : List UInt8} {t : Tcb}
    (h : TInv port issX issY subX subY delX t) (hd : Hdr) (hsyn : hd.ctl.syn = true) (hfin : hd.ctl.fin = false)
    (hseq : hd.seq = issX) (hp : hd.srcPort = port) :
    TInv port issX issY subX subY delX (t.enqueueBuilt hd) := by
  unfold enqueueBuilt
  rw [if_pos (by simp [hsyn])]
  refine ⟨h.lp, h.st, h.iss, h.out, fun g hg => ?_, h.one, h.heap, h.rcv0, h.rcv1, h.irs⟩
  simp only [List.map_append, List.map_cons, List.map_nil, List.mem_append, List.mem_singleton] at hg
  rcases hg with hg | rfl
  · exact h.rtx g hg
  · exact ⟨⟨hfin, fun _ => ⟨hseq, rfl⟩, fun hne => absurd rfl hne⟩, hp⟩

/-- block 4 in SYN-SENT: a valid SYN establishes the receive facts with `q = 0`; without SYN the
    segment is dropped -/
theorem synBlock_synSent {port : U16} {issX issY : Seq} {subX subY delX : List UInt8} {t t' : Tcb} {seg : Hdr}
    {text : List UInt8} {r : Option ProcessSegmentResult}
    (h : TInv port issX issY subX subY delX t) (hs : t.state = .SynSent)
    (hv : Valid issY subY ⟨seg, text⟩) (e : synBlock t seg = .ok (t', r)) :
    TInv port issX issY subX subY delX t' ∧ (r = none → t'.state ≠ .SynSent ∧ text = []) := by
  obtain ⟨hdel, hin⟩ := h.rcv0 hs
  unfold synBlock at e
  split at e
  · first
      | (cases e; exact ⟨h, fun h0 => by simp at h0⟩)
      | (rw [if_pos hs] at e; cases e; exact ⟨h, fun h0 => by simp at h0⟩)
  · rename_i hsyn
    have hsyn' : seg.ctl.syn = true := by simpa using hsyn
    obtain ⟨hseq, htext⟩ := hv.syn hsyn'
    simp only at hseq htext
    -- the TCB after the SYN was taken in, in state `st`
    have base : ∀ (st : State) (w2 : Seq), Ok3 st → st ≠ .SynSent →
        TInv port issX issY subX subY delX
          { t with rcv.irs := seg.seq, rcv.nxt := seg.seq + 1, snd.wnd := seg.wnd, snd.wl1 := seg.seq,
                   snd.wl2 := w2, state := st } := by
      intro st w2 h3 hne
      refine ⟨h.lp, h3, h.iss, h.out, h.rtx, h.one, h.heap, fun h0 => absurd h0 hne, fun _ => ⟨?_, ?_⟩, fun _ => hseq⟩
      · show seg.seq + 1 = _
        rw [hdel, hin, hseq]
        simp
      · show delX ++ t.incoming.text <+: subY
        rw [hdel, hin]
        exact List.nil_prefix
    split at e
    · dsimp only at e
      split at e
      · rw [enqueueThen_eq] at e
        cases e
        refine ⟨(base .Established _ trivial (by simp)).of_fr (Fr.enqAck _), fun _ => ⟨?_, htext⟩⟩
        rw [state_enqueueBuilt]; simp
      · rw [enqueueThen_eq] at e
        cases e
        refine ⟨(base .SynReceived _ trivial (by simp)).enqSyn _ rfl rfl ?_ ?_, fun h0 => by simp at h0⟩
        · exact h.iss
        · exact h.lp
    all_goals (rename_i hst _; exact absurd hs (by first | exact hst | simp_all))

/-! ## block 5 -/

theorem textBlock_inv {port : U16} {issX issY : Seq} {subX subY delX : List UInt8} {t t' : Tcb} {seg : Hdr}
    {text : List UInt8} {r : Option ProcessSegmentResult}
    (h : TInv port issX issY subX subY delX t) (hns : t.state ≠ .SynSent)
    (hv : Valid issY subY ⟨seg, text⟩) (h31 : subY.length < 2147483648)
    (hgate : text ≠ [] → modGt seg.seq t.rcv.nxt = false)
    (e : textBlock t seg text (BitVec.ofNat 32 text.length) = .ok (t', r)) :
    TInv port issX issY subX subY delX t' := by
  unfold textBlock at e
  split at e
  · cases e; exact h
  · rename_i hne
    have hne' : text ≠ [] := by intro h0; simp [h0] at hne
    obtain ⟨p, hseq, hlen, htext⟩ := hv.txt hne'
    simp only at hseq hlen htext
    have hsyn : seg.ctl.syn = false := by
      cases hs : seg.ctl.syn
      · rfl
      · exact absurd (hv.syn hs).2 hne'
    obtain ⟨hnxt, hpre⟩ := h.rcv1 hns
    generalize hq : delX.length + t.incoming.text.length = q at hnxt
    have hqle : q ≤ subY.length := by
      have := hpre.length_le
      rw [List.length_append] at this; omega
    have hg := hgate hne'
    rw [hseq, hnxt] at hg
    have hpq : p ≤ q := gate_le (issY + 1) p q (by omega) (by omega) hg
    split at e
    all_goals first
      | (cases e; exact h)
      | skip
    all_goals (split at e; first | cases e | skip)
    all_goals (rw [hsyn, sub_zero_ofNat] at e; dsimp only at e)
    all_goals (
      generalize hA : (if t.rcv.nxt - seg.seq ≤ BitVec.ofNat 32 text.length then t.rcv.nxt - seg.seq
          else BitVec.ofNat 32 text.length) = a at e
      have htl : (BitVec.ofNat 32 text.length).toNat = text.length := ofNat_toNat_lt _ (by omega)
      have ha : a.toNat = min (q - p) text.length := by
        rw [← hA, min_toNat, htl, hnxt, hseq, dist_toNat _ _ _ hpq (by omega)]
      rw [htl] at e
      generalize hacc : min (text.length - a.toNat) (t.rcv.wnd.toNat - t.incoming.text.length % 4294967296) = acc at e
      have hacc' : acc ≤ text.length - min (q - p) text.length := by rw [← hacc, ha]; exact Nat.min_le_left _ _
      split at e
      · cases e
      split at e
      · cases e
      split at e
      · cases e
      split at e
      · cases e
      rw [enqueueThen_eq] at e
      simp only [Except.ok.injEq, Prod.mk.injEq] at e
      obtain ⟨rfl, _⟩ := e
      refine TInv.of_fr ?_ (Fr.enqAck _)
      have hslice := slice_accept subY p q text.length acc hpq hacc'
      rw [← htext, ← ha] at hslice
      refine ⟨h.lp, h.st, h.iss, h.out, h.rtx, h.one, h.heap, fun hs => absurd hs hns, fun _ => ⟨?_, ?_⟩, h.irs⟩
      · show t.rcv.nxt + BitVec.ofNat 32 acc = _
        rw [hnxt, add_ofNat_assoc]
        congr 2
        show q + acc = delX.length + (t.incoming.text ++ List.take acc (List.drop a.toNat text)).length
        rw [hslice, List.length_append, length_drop_take subY q acc (by omega)]
        omega
      · show delX ++ (t.incoming.text ++ List.take acc (List.drop a.toNat text)) <+: subY
        rw [hslice, ← List.append_assoc]
        have := prefix_extend (delX ++ t.incoming.text) subY acc hpre
        rw [List.length_append, hq] at this
        exact this)

/-! ## block 6 -/

theorem finBlock_eq {t t' : Tcb} {seg : Hdr} {tl : Seq} {r : Option ProcessSegmentResult}
    (hf : seg.ctl.fin = false) (e : finBlock t seg tl = .ok (t', r)) : t' = t := by
  unfold finBlock at e
  rw [if_pos (by simp [hf])] at e
  cases e
  rfl

end Elvis.Tcp.C01
