-- GENERATED from /repo sources by tools/extract.py on every check; do not edit
namespace Elvis.Gen
/-- reassembly/segment.rs `TLB` (timer lower bound, seconds) -/
def TLB : Nat := 15
end Elvis.Gen
