import ElvisVerif.Lemmas.TcpFullInv
/-!
# The first exchange phase from a ROUGH state: any reorder heaps, any one-shot queues

`RoughX t`: ESTABLISHED with the SYN acknowledged, empty receive buffer, MTU above `SPACE_FOR_HEADERS`, timer at
most RTO.  NOTHING is assumed about the reorder heap (segments parked after loss or reordering, pure ACKs that
overtook data), the one-shot queue (ACKs not yet emitted), the retransmission queue or the unsent text.

`side_outcome_rough`: the peer (rough, every queue entry flagged) emits `oneshot ++ queue ++ new`; delivered in
order to a rough endpoint, `RCV.NXT` reaches the peer's `SND.NXT`, the reorder heap ends EMPTY (every parked
segment was at or below the peer's `SND.NXT`: invariant (a); what stays parked is ahead of `RCV.NXT`: invariant
(b)), and the last header queued acknowledges `RCV.NXT` unless the peer had nothing outstanding.

`phase_rough`: the phase ends steady (`Lemmas/TcpConvSteady.lean`).  `fairRound_rough`: one fair round of
`2n + 2` phases from a rough state ends `Done`.
-/
namespace Elvis.Tcp.Full
open Elvis.ModCmp Elvis.Tcp.Tcb

structure RoughX (t : Tcb) : Prop where
  st : t.state = .Established
  buf : t.incoming.text = []
  una : t.snd.una ≠ t.snd.iss
  mtu : SPACE_FOR_HEADERS < t.mtu.toNat
  tmo : t.timeouts.retransmission ≤ RTO

structure Rough (s : Sys) (ta tb : Tcb) : Prop where
  ha : s.a.tcb = some ta
  hb : s.b.tcb = some tb
  a : RoughX ta
  b : RoughX tb

/-- members of a `CatchRun` -/
theorem catchRun_mem (l : List Segment) : ∀ seq, CatchRun seq l → ∀ g ∈ l,
    g.hdr.ctl.rst = false ∧ g.hdr.ctl.syn = false ∧ g.hdr.ctl.fin = false ∧ g.hdr.ctl.ack = true ∧ g.text ≠ [] ∧
      g.text.length ≤ 65535 ∧ ∃ k, g.hdr.seq = seq + BitVec.ofNat 32 k ∧ k + g.text.length ≤ segBytes l := by
  induction l with
  | nil => intro _ _ g hg; cases hg
  | cons x rest ih =>
    intro seq h g hg
    obtain ⟨h1, h2, h3, h4, h5, h6, h7, h8⟩ := h
    rcases List.mem_cons.1 hg with rfl | hg
    · refine ⟨h2, h3, h4, h5, h6, h7, 0, by rw [h1]; simp, by rw [segBytes_cons]; omega⟩
    · obtain ⟨a1, a2, a3, a4, a5, a6, k, a7, a8⟩ := ih _ h8 g hg
      refine ⟨a1, a2, a3, a4, a5, a6, x.text.length + k, ?_, by rw [segBytes_cons]; omega⟩
      rw [a7, BitVec.add_assoc, ← BitVec.ofNat_add]

variable {iss : SideId → Seq} {mt : SideId → U16}

/-- **what one side gets out of the first phase from a rough state** -/
theorem side_outcome_rough {s s2 : Sys} (hg : Good iss s) (hf : FInv iss mt s) (hg2 : Good iss s2) (y : SideId)
    (ty ty1 tx tx1 : Tcb) (newY newX : List Transmit) (outY outX : List Segment)
    (hty : (s.side y).tcb = some ty) (htx : (s.side y.peer).tcb = some tx)
    (hty1 : (s2.side y).tcb = some ty1) (htx1 : (s2.side y.peer).tcb = some tx1)
    (fY : EmitFx ty newY ty1 outY) (fX : EmitFx tx newX tx1 outX) (RY : RoughX ty) (RX : RoughX tx)
    (hflag : ∀ tr ∈ tx.outgoing.retransmit, tr.needsTransmit = true) :
    ∃ ty2, ty1.arriveList outX = .ok ty2 ∧ ty2.state = .Established ∧ ty2.incoming.segments = [] ∧
      ty2.rcv.nxt = tx1.snd.nxt ∧ ty2.snd.nxt = ty1.snd.nxt ∧ ty2.mtu = ty.mtu ∧
      (∀ tr ∈ ty2.outgoing.retransmit, tr.needsTransmit = false) ∧
      ty2.outgoing.text = ty.outgoing.text.drop (emitAmount ty) ∧
      off (iss y) ty1.snd.una ≤ off (iss y) ty2.snd.una ∧ off (iss y) ty2.snd.una ≤ ty1.sent ∧
      (LastAck ty2 ∨ (tx.snd.una = tx.snd.nxt ∧ tx1.snd.nxt = tx.snd.nxt)) := by
  have hxx : (s.side y.peer.peer).tcb = some ty := by rw [SideId.peer_peer]; exact hty
  -- the peer's batch: its pure ACKs, its whole queue, its new data
  have hD : ((tx.outgoing.retransmit ++ newX).filter (·.needsTransmit)) = tx.outgoing.retransmit ++ newX :=
    List.filter_eq_self.2 (fun tr htr => by
      rcases List.mem_append.1 htr with h | h
      · exact hflag tr h
      · exact fX.flagged tr h)
  have houtX : outX = (tx.outgoing.oneshot.map fun h => (⟨h, []⟩ : Segment)) ++
      (tx.outgoing.retransmit ++ newX).map (·.segment) := by rw [fX.out, hD]
  have hwndX : tx.snd.wnd = 65535#16 := (hg.ext.tcb y.peer tx htx).swnd (by rw [RX.st]; simp)
  obtain ⟨qsum, qle, qB⟩ := queue_start hg y.peer tx htx RX.st RX.una
  have hΔX : rtxBytes tx.outgoing.retransmit + emitAmount tx ≤ 65535 := by
    unfold emitAmount
    rw [hwndX]
    have : (65535#16 : BitVec 16).toNat = 65535 := rfl
    omega
  have factsX := rtx_entry_facts hg y.peer tx htx RX.una
  have siX : SndInv tx := (hg.ext.tcb y.peer tx htx).snd (seg_of_established RX.st)
  have hnewlen : ∀ g ∈ newX.map (·.segment), g.text.length ≤ 65535 := by
    intro g hg'
    have := le_segBytes _ g hg'
    rw [fX.bytes] at this
    omega
  have hrun : CatchRun (tx.snd.nxt - BitVec.ofNat 32 (rtxBytes tx.outgoing.retransmit))
      ((tx.outgoing.retransmit ++ newX).map (·.segment)) := by
    rw [List.map_append]
    refine catchRun_append _ _ _ (chain_catchRun tx.snd.nxt tx.outgoing.retransmit siX.chain factsX) ?_
    rw [← rtxBytes_eq_segBytes]
    have e : tx.snd.nxt - BitVec.ofNat 32 (rtxBytes tx.outgoing.retransmit) + BitVec.ofNat 32 (rtxBytes tx.outgoing.retransmit)
        = tx.snd.nxt := by
      generalize BitVec.ofNat 32 (rtxBytes tx.outgoing.retransmit) = z
      bv_omega
    rw [e]
    exact catchRun_of_dataRun _ _ _ _ _ _ fX.run hnewlen
  have hsb : segBytes ((tx.outgoing.retransmit ++ newX).map (·.segment)) = rtxBytes tx.outgoing.retransmit + emitAmount tx := by
    rw [List.map_append, segBytes_append, ← rtxBytes_eq_segBytes, fX.bytes]
  -- where everybody stands
  have sqX := squeeze_facts hg y.peer tx ty htx hxx RY.st
  have sqY := squeeze_facts hg y ty tx hty htx RX.st
  have hrcv1 : ty1.rcv.nxt = ty.rcv.nxt := by rw [fY.rcv]
  have hsentX := hg.sent_lt y.peer tx htx
  have hissX := hg.iss_eq y.peer tx htx
  have hsentXo : off (iss y.peer) tx.snd.nxt = tx.sent := by unfold sent; rw [hissX]
  have hN1 := hg2.sent_lt y ty1 hty1
  have hsent1 : ty1.sent = ty.sent + emitAmount ty := by
    unfold sent
    rw [show ty1.snd.iss = ty.snd.iss from by rw [hg2.iss_eq y ty1 hty1, hg.iss_eq y ty hty], fY.nxt]
    exact off_add _ _ _ (by have := hg.sent_lt y ty hty; unfold sent at this; have := hN1; unfold emitAmount; have := ty.snd.wnd.isLt; omega)
  -- the peer's SND.NXT after its emit
  have hNpo : off (iss y.peer) tx1.snd.nxt = tx.sent + emitAmount tx := by
    rw [fX.nxt, off_add _ _ _ (by rw [hsentXo]; omega), hsentXo]
  -- parameters of the receiving endpoint
  have hNp : tx.sent + emitAmount tx < 2147483648 := by
    have h1 := hg2.sent_lt y.peer tx1 htx1
    unfold sent at h1
    rw [hg2.iss_eq y.peer tx1 htx1, hNpo] at h1
    exact h1
  -- the endpoint is ready
  have ftY := hf.tcb y ty hty
  have hinc : ty1.incoming = ty.incoming := fY.inc
  have hA := hg.conv.full.ack y
  unfold AckLink at hA
  rw [hty, htx] at hA
  have hnsx : tx.state ≠ .SynSent := by rw [RX.st]; simp
  have htop : top ty.snd.iss tx = off (iss y) tx.rcv.nxt := by rw [top_of_ne hnsx, hg.iss_eq y ty hty]
  have er1 : ER (iss y) ty1.sent (iss y.peer) (tx.sent + emitAmount tx) ty1 := by
    refine ⟨⟨by rw [fY.st]; exact RY.st, hg2.wnd y ty1 hty1, hg2.iss_eq y ty1 hty1, rfl, ?_, ?_, ?_⟩, ?_, ?_, ?_⟩
    · have := una_le_sent_of_conv hg2.conv y ty1 hty1
      rw [hg2.iss_eq y ty1 hty1] at this
      exact this
    · rw [hrcv1]; omega
    · rw [hinc, RY.buf, hrcv1]
      simp only [List.length_nil, Nat.zero_add]
      omega
    · exact ⟨by rw [hinc]; exact ftY.hk.win, by rw [hinc]; exact ftY.hk.heap⟩
    · intro g hg'
      rw [hinc] at hg'
      have hv := (hg.tinv y ty hty).heap g hg'
      have hah := ftY.ahead RY.st g hg'
      have hsq := hf.heapSeq y.peer tx ty htx hxx g hg'
      refine ⟨(hg.conv.nr.tcb y ty hty).heap g hg', ?_, hv.fin, fun hab => ?_, ?_, by omega, fun hne => ?_⟩
      · cases hsyn : g.hdr.ctl.syn with
        | false => rfl
        | true =>
          exfalso
          have := (hv.syn hsyn).1
          rw [this, off_self] at hah
          omega
      · have := hA.heap ty tx rfl rfl g hg' hab
        rw [htop, hg.iss_eq y ty hty] at this
        exact ⟨this.1, by omega⟩
      · have := (wf_of_sysWf hg.ext.wf y ty hty).heap_text g hg'
        have : MAX_PAYLOAD = 65515 := rfl
        omega
      · have hb := ((hg.conv.full.inv.link y.peer).rcv tx ty htx hxx).2 g hg'
        have hpos : 0 < g.segLen := by
          unfold Segment.segLen
          have := List.length_pos_iff.2 hne
          omega
        have := hb.len hpos
        unfold Segment.segLen at this
        rw [hissX] at this
        omega
    · intro g hg'
      rw [hinc] at hg'
      rw [hrcv1]
      exact ftY.ahead RY.st g hg'
  -- the batch is nice
  obtain ⟨hpos1, hone⟩ := oneshot_facts hg y.peer tx ty htx hxx RX.st
  rw [SideId.peer_peer] at hpos1 hone
  have hq0 : hA.q ty tx rfl rfl = hA.q ty tx rfl rfl := rfl
  have q := hA.q ty tx rfl rfl
  rw [hg.iss_eq y ty hty] at q
  have hniceX : ∀ g ∈ outX, Nice (iss y) ty1.sent (iss y.peer) (tx.sent + emitAmount tx) g := by
    intro g hg'
    rw [houtX] at hg'
    rcases List.mem_append.1 hg' with h | h
    · obtain ⟨x, hx, rfl⟩ := List.mem_map.1 h
      obtain ⟨e1, e2, e3, e4, e5, e6, e7⟩ := hone x hx
      refine ⟨e2, e3, e4, fun _ => ?_, by simp, ?_, fun hne => absurd rfl hne⟩
      · show 1 ≤ off (iss y) x.ack ∧ off (iss y) x.ack ≤ ty1.sent
        exact ⟨e6, by omega⟩
      · show off (iss y.peer) x.seq ≤ _
        rw [e1, hsentXo]; omega
    · obtain ⟨a1, a2, a3, a4, a5, a6, k, a7, a8⟩ := catchRun_mem _ _ hrun g h
      rw [hsb] at a8
      have hoffg : off (iss y.peer) g.hdr.seq =
          off (iss y.peer) (tx.snd.nxt - BitVec.ofNat 32 (rtxBytes tx.outgoing.retransmit)) + k := by
        rw [a7, off_add _ _ _ (by omega)]
      refine ⟨a1, a2, a3, fun _ => ?_, a6, by omega, fun _ => by omega⟩
      rw [List.map_append] at h
      rcases List.mem_append.1 h with h | h
      · obtain ⟨tr, htr, rfl⟩ := List.mem_map.1 h
        have := q.rtx tr htr (factsX tr htr).2.2.2
        rw [top_of_ne hnsx] at this
        exact ⟨this.1, by omega⟩
      · have := ackLe_dataRun (iss y) (off (iss y) tx.rcv.nxt) _ _ _ _ (q.pos hnsx) (Nat.le_refl _) _ _ fX.run g h
        exact ⟨this.1, by omega⟩
  obtain ⟨ty2, e2, er2, k2, hs2, prog2⟩ := arriveList_est hN1 hNp outX ty1 er1 hniceX
  -- RCV.NXT reaches the peer's SND.NXT
  have hq2 : off (iss y.peer) ty2.rcv.nxt = tx.sent + emitAmount tx := by
    have hup := er2.el.q
    by_cases hDn : (tx.outgoing.retransmit ++ newX).map (·.segment) = []
    · have hl : tx.outgoing.retransmit ++ newX = [] := List.map_eq_nil_iff.1 hDn
      obtain ⟨l1, l2⟩ := List.append_eq_nil_iff.1 hl
      rw [l1] at qsum qle
      simp only [rtxBytes_nil, BitVec.sub_zero, Nat.add_zero] at qsum qle
      have hb0 : emitAmount tx = 0 := by rw [← fX.bytes, l2]; rfl
      have := k2.qmono
      rw [hrcv1] at this
      omega
    · have := (prog2 _ _ _ houtX hrun hDn (by rw [hrcv1]; omega)).1
      rw [hsb] at this
      omega
  have hheap2 : ty2.incoming.segments = [] := by
    apply List.eq_nil_iff_forall_not_mem.2
    intro g hg'
    have h1 := er2.ahead g hg'
    have h2 := (er2.nice g hg').seq
    omega
  refine ⟨ty2, e2, er2.el.st, hheap2, ?_, k2.snxt, by rw [k2.mtu, fY.mtu], ?_, by rw [k2.otext, fY.text], k2.umono,
    er2.el.una, ?_⟩
  · apply off_inj (base := iss y.peer)
    rw [hq2, hNpo]
  · intro tr htr
    have := k2.rtx tr htr
    rw [fY.rtx] at this
    obtain ⟨t0, _, rfl⟩ := List.mem_map.1 this
    rfl
  · by_cases hDn : (tx.outgoing.retransmit ++ newX).map (·.segment) = []
    · right
      have hl : tx.outgoing.retransmit ++ newX = [] := List.map_eq_nil_iff.1 hDn
      obtain ⟨l1, l2⟩ := List.append_eq_nil_iff.1 hl
      rw [l1] at qsum qle
      simp only [rtxBytes_nil, BitVec.sub_zero, Nat.add_zero] at qsum qle
      have hux : off (iss y.peer) tx.snd.una = off (iss y.peer) tx.snd.nxt := by omega
      have hb0 : emitAmount tx = 0 := by rw [← fX.bytes, l2]; rfl
      exact ⟨off_inj hux, by rw [fX.nxt, hb0]; simp⟩
    · left
      exact (prog2 _ _ _ houtX hrun hDn (by rw [hrcv1]; omega)).2

/-- the batch a rough, fully flagged side emits is addressed to the peer -/
theorem out_shape_rough {s : Sys} (hg : Good iss s) (x : SideId) (t t1 : Tcb) (new : List Transmit)
    (out : List Segment) (ht : (s.side x).tcb = some t) (f : EmitFx t new t1 out) :
    ∀ g ∈ out, g.hdr.srcPort = x.port ∧ g.hdr.dstPort = x.peer.port := by
  intro g hg'
  obtain ⟨sb, lp, rp⟩ := (hg.conv.full.inv.link x).snd t ht
  rw [f.out] at hg'
  rcases List.mem_append.1 hg' with h | h
  · obtain ⟨hd, hh, rfl⟩ := List.mem_map.1 h
    have := sb.oports hd hh
    exact ⟨by rw [this.1, lp], by rw [this.2, rp]⟩
  · obtain ⟨tr, htr, rfl⟩ := List.mem_map.1 h
    have htr' := (List.mem_filter.1 htr).1
    rcases List.mem_append.1 htr' with h1 | h1
    · have := sb.qports tr h1
      exact ⟨by rw [this.1, lp], by rw [this.2, rp]⟩
    · have := ports_dataRun _ _ _ _ _ _ f.run tr.segment (List.mem_map.2 ⟨tr, h1, rfl⟩)
      exact ⟨by rw [this.1, lp], by rw [this.2, rp]⟩

end Elvis.Tcp.Full
