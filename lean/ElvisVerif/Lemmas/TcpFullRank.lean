import ElvisVerif.Lemmas.TcpFullTotal
/-!
# The handshake only moves forward

`stRank`: SYN-SENT < SYN-RECEIVED < ESTABLISHED.  `rk s x`: 0 while side `x` has no TCB, else the rank of its state.
`rk_mono_step`, `rk_mono_run`: along plain runs (within H31) the rank of a side never decreases: a TCB is never
deleted, SYN-SENT is never re-entered, ESTABLISHED is never left.
-/
namespace Elvis.Tcp.Full
open Elvis.ModCmp Elvis.Tcp.Tcb

def stRank : State → Nat
  | .SynSent => 1
  | .SynReceived => 2
  | .Established => 3
  | _ => 0

def rk (s : Sys) (x : SideId) : Nat :=
  match (s.side x).tcb with
  | none => 0
  | some t => stRank t.state

theorem rk_some {s : Sys} {x : SideId} {t : Tcb} (h : (s.side x).tcb = some t) : rk s x = stRank t.state := by
  unfold rk; rw [h]

theorem rk_none {s : Sys} {x : SideId} (h : (s.side x).tcb = none) : rk s x = 0 := by
  unfold rk; rw [h]

theorem rk_congr {s s1 : Sys} {x : SideId} (h : s1.side x = s.side x) : rk s1 x = rk s x := by
  unfold rk; rw [h]

theorem stRank_ok3 {st : State} (h : C01.Ok3 st) : 1 ≤ stRank st := by
  rcases h.cases with h | h | h <;> rw [h] <;> decide

variable {iss : SideId → Seq}

theorem rk_pos {s : Sys} (hg : Good iss s) {x : SideId} {t : Tcb} (h : (s.side x).tcb = some t) : 1 ≤ rk s x := by
  rw [rk_some h]; exact stRank_ok3 (hg.tinv x t h).st

/-- the state of a TCB after a segment arrived is not lower in rank -/
theorem arrive_rank {s : Sys} (hg : Good iss s) (x : SideId) (t t' : Tcb) (σ : Segment) (ht : (s.side x).tcb = some t)
    (hmem : σ ∈ s.history) (hsrc : σ.hdr.srcPort = x.peer.port) (e : t.segmentArrives σ = .ok (t', .Ok))
    (h3 : C01.Ok3 t'.state) : stRank t.state ≤ stRank t'.state := by
  have hval : C01.Valid (iss x.peer) (s.side x.peer).submitted σ := hg.conv.c01.hist σ hmem x.peer hsrc
  have hσr := hg.conv.nr.hist σ hmem
  have ti := hg.tinv x t ht
  have nt := hg.conv.nr.tcb x t ht
  rcases ti.st.cases with hs | hs | hs
  · rw [hs]; exact stRank_ok3 h3
  · rw [hs]
    have hb := (segmentArrives_s t σ t' .Ok e).back (by rw [hs]; simp)
    rcases h3.cases with h | h | h
    · exact absurd h hb
    · rw [h]; decide
    · rw [h]; decide
  · have := est_stays t σ t' e hs (fun g hg' => by
      rcases List.mem_cons.1 hg' with rfl | h
      · exact ⟨hσr, hval.fin⟩
      · exact ⟨nt.heap g h, (ti.heap g h).fin⟩)
    rw [hs, this]; decide

/-- one plain step never lowers the rank of a side -/
theorem rk_mono_step (s : Sys) (hg : Good iss s) (op : Op) (hp : Op.Plain s op) (s' : Sys) (r : Res)
    (e : s.step op = .ok (s', r)) (hg' : Good iss s') (y : SideId) : rk s y ≤ rk s' y := by
  -- a local call: the state is kept
  have loc : ∀ (x : SideId) (t t' : Tcb) (sd' : Side) (new : List Segment), (s.side x).tcb = some t → sd'.tcb = some t' →
      t'.state = t.state → rk s y ≤ rk ((s.setSide x sd').record new) y := by
    intro x t t' sd' new ht hsd hst
    by_cases hyx : y = x
    · subst hyx
      have h1 : (((s.setSide y sd').record new).side y).tcb = some t' := by
        rw [side_record, side_setSide_same]; exact hsd
      rw [rk_some ht, rk_some h1, hst]
      exact Nat.le_refl _
    · have h1 : ((s.setSide x sd').record new).side y = s.side y := by
        rw [side_record, side_setSide_if, if_neg hyx]
      rw [rk_congr h1]
      exact Nat.le_refl _
  have loc0 : ∀ (x : SideId) (t t' : Tcb) (sd' : Side), (s.side x).tcb = some t → sd'.tcb = some t' →
      t'.state = t.state → rk s y ≤ rk (s.setSide x sd') y := by
    intro x t t' sd' ht hsd hst
    have := loc x t t' sd' [] ht hsd hst
    rw [record_nil] at this
    exact this
  cases op with
  | «open» x i mtu => exact hp.elim
  | listen x i mtu => exact hp.elim
  | inject x seg => exact hp.elim
  | abort x => exact hp.elim
  | drop x => exact hp.elim
  | close x => exact hp.elim
  | write x bytes =>
    simp only [Sys.step, Op.side] at e
    split at e
    · simp only [Except.ok.injEq, Prod.mk.injEq] at e
      rw [← e.1]; exact Nat.le_refl _
    · rename_i tcb htcb
      simp only [Except.ok.injEq, Prod.mk.injEq] at e
      rw [← e.1]
      exact loc0 x tcb (tcb.send bytes) _ htcb rfl (send_keep tcb bytes).state
  | read x =>
    simp only [Sys.step, Op.side] at e
    split at e
    · simp only [Except.ok.injEq, Prod.mk.injEq] at e
      rw [← e.1]; exact Nat.le_refl _
    · rename_i tcb htcb
      simp only [Except.ok.injEq, Prod.mk.injEq] at e
      rw [← e.1]
      exact loc0 x tcb tcb.receive.1 _ htcb rfl (receive_keep tcb).state
  | tick x ms =>
    simp only [Sys.step, Op.side] at e
    split at e
    · simp only [Except.ok.injEq, Prod.mk.injEq] at e
      rw [← e.1]; exact Nat.le_refl _
    · rename_i tcb htcb
      split at e
      · simp at e
      · rename_i tcb' h1
        simp only [Except.ok.injEq, Prod.mk.injEq] at e
        rw [← e.1]
        obtain ⟨t2, r2, e2, _, hst⟩ := advanceTime_spec tcb ms
        rw [h1] at e2
        cases e2
        exact loc0 x tcb tcb' _ htcb rfl hst
      · rename_i tcb' h1
        exfalso
        simp only [Except.ok.injEq, Prod.mk.injEq] at e
        have ha := hg'.conv.nr.alive x
        rw [← e.1, side_setSide_same] at ha
        simp at ha
  | emit x =>
    simp only [Sys.step, Op.side] at e
    split at e
    · simp only [Except.ok.injEq, Prod.mk.injEq] at e
      rw [← e.1]; exact Nat.le_refl _
    · rename_i tcb htcb
      split at e
      · simp at e
      · rename_i tcb' segs h1
        simp only [Except.ok.injEq, Prod.mk.injEq] at e
        rw [← e.1]
        exact loc x tcb tcb' _ segs htcb rfl (segments_keep tcb tcb' segs h1).state
  | deliver x i =>
    simp only [Sys.step, Op.side] at e
    split at e
    · simp only [Except.ok.injEq, Prod.mk.injEq] at e
      rw [← e.1]; exact Nat.le_refl _
    · rename_i σ hn
      obtain ⟨hsrc, hdst⟩ := hp σ hn
      have hmem : σ ∈ s.history := nth_mem s i σ hn
      unfold Sys.arrive at e
      dsimp only at e
      split at e
      · rename_i tcb htcb
        split at e
        · simp at e
        · rename_i tcb' h1
          simp only [Except.ok.injEq, Prod.mk.injEq] at e
          have hs'x : (s'.side x).tcb = some tcb' := by rw [← e.1, side_setSide_same]
          have h3 := (hg'.tinv x tcb' hs'x).st
          have hr := arrive_rank hg x tcb tcb' σ htcb hmem hsrc h1 h3
          by_cases hyx : y = x
          · subst hyx
            rw [rk_some htcb, rk_some hs'x]
            exact hr
          · have h1 : s'.side y = s.side y := by rw [← e.1, side_setSide_if, if_neg hyx]
            rw [rk_congr h1]
            exact Nat.le_refl _
        · rename_i h1
          exfalso
          simp only [Except.ok.injEq, Prod.mk.injEq] at e
          have ha := hg'.conv.nr.alive x
          rw [← e.1, side_setSide_same] at ha
          simp at ha
      · rename_i htcb
        split at e
        · split at e
          · simp at e
          · simp only [Except.ok.injEq, Prod.mk.injEq] at e
            rw [← e.1]; exact Nat.le_refl _
          · simp only [Except.ok.injEq, Prod.mk.injEq] at e
            by_cases hyx : y = x
            · subst hyx
              rw [rk_none htcb]
              exact Nat.zero_le _
            · have h1 : s'.side y = s.side y := by rw [← e.1, side_setSide_if, if_neg hyx]
              rw [rk_congr h1]
              exact Nat.le_refl _
          · simp only [Except.ok.injEq, Prod.mk.injEq] at e
            have h1 : s'.side y = s.side y := by rw [← e.1, side_record]
            rw [rk_congr h1]
            exact Nat.le_refl _
        · rename_i hlis
          exfalso
          rcases hg.conv.nr.alive x with ha | ha
          · rw [htcb] at ha; cases ha
          · rw [hlis] at ha; cases ha

theorem rk_mono_run {s s' : Sys} (hg : Good iss s) (r : PlainRun s s') (hb : RoomH s') (y : SideId) : rk s y ≤ rk s' y := by
  induction r with
  | refl => exact Nat.le_refl _
  | step r1 hp e ih =>
    have hb1 := RoomH.of_run (.step (.refl _) hp e) hb
    have g1 := good_of_run hg r1 hb1
    have g2 := good_of_run hg (.step r1 hp e) hb
    exact Nat.le_trans (ih hb1) (rk_mono_step _ g1 _ hp _ _ e g2 y)

end Elvis.Tcp.Full
