import ElvisVerif.Model.TcpSys
/-!
# C17 — A TCP endpoint withstands arbitrary segments from its peer address

State of this file: the model follows the CURRENT code, which falsifies the property.  Each
`…_counterexample` is a concrete op sequence of the two-endpoint system (the same op lines
replay on the real code through `harness-core c17 --replay`).
-/
namespace Elvis.Tcp

/-- handshake: A opens (ISS 1000), B listens (ISS 5000), SYN / SYN-ACK delivered: A ESTABLISHED -/
def handshakeOps : List Op :=
  [.open .A 1000 1500, .listen .B 5000 1500, .emit .A, .deliver .B 0, .emit .B, .deliver .A 1]

def isPanic {α : Type} (r : Except String α) (msg : String) : Bool :=
  match r with
  | .error e => e == msg
  | .ok _ => false

/-- the bytes returned by the last op when it was a `read` -/
def lastRead (r : Except String (Sys × List Res)) : Option (List UInt8) :=
  match r with
  | .ok (_, rs) => match rs.getLast? with
    | some (.read b) => some b
    | _ => none
  | .error _ => none

/-- the segments returned by the last op when it was an `emit` -/
def lastEmit (r : Except String (Sys × List Res)) : Option (List Segment) :=
  match r with
  | .ok (_, rs) => match rs.getLast? with
    | some (.emitted _ segs) => some segs
    | _ => none
  | .error _ => none

/-- F-C17-1 (fixed): the peer acknowledges one byte of a three-byte segment and shrinks its
    window to 2; `segments()` used to compute `2 - 3` and panic, now it sends nothing new -/
theorem c17_regression_window_shrink :
    lastEmit (Sys.run {} (handshakeOps ++
      [.write .A [1, 2, 3], .emit .A, .inject .A (forge .A 16 5001 1002 2 []), .write .A [4, 5], .emit .A]))
      = some [] := by decide

/-- F-C17-2 (fixed): a segment accepted only because its FIN lies in the window
    (`seq = RCV.NXT-2`, one byte, FIN) used to compute `text_len - already_received = 1 - 2`
    and panic; now it contributes no text -/
theorem c17_regression_fin_in_window :
    lastRead (Sys.run {} (handshakeOps ++ [.inject .A (forge .A 17 4999 1001 65535 [7]), .read .A]))
      = some [] := by decide

/-- F-C17-3 (fixed): a SYN-ACK with text in SYN-SENT: the text starts at `SEG.SEQ + 1`; the code
    used to skip two bytes (or panic on a single byte), now every byte reaches the application -/
theorem c17_regression_syn_text :
    lastRead (Sys.run {} [.open .A 1000 1500, .inject .A (forge .A 18 5000 1001 65535 [7]), .read .A])
      = some [7] ∧
    lastRead (Sys.run {} [.open .A 1000 1500, .inject .A (forge .A 18 5000 1001 65535 [7, 8, 9]), .read .A])
      = some [7, 8, 9] := by decide

/-- the TCB of side A after the ops -/
def tcbA (r : Except String (Sys × List Res)) : Option Tcb :=
  match r with
  | .ok (s, _) => s.a.tcb
  | .error _ => none

/-- F-C01-1 (fixed): in SYN-SENT a segment without SYN that carries text used to be checked
    against the uninitialised `RCV.NXT = 0` (the `assert!` failed, or for sequence numbers near
    0 the bytes were handed to the application); now it is dropped: the TCB after the segment
    is the TCB before it -/
theorem c17_regression_synsent_text :
    tcbA (Sys.run {} [.open .A 1000 1500, .inject .A (forge .A 16 70000 1001 65535 [7])])
      = tcbA (Sys.run {} [.open .A 1000 1500]) ∧
    tcbA (Sys.run {} [.open .A 1000 1500, .inject .A (forge .A 16 0 1001 65535 [7, 8, 9])])
      = tcbA (Sys.run {} [.open .A 1000 1500]) := by decide

/-- the reorder queue of side A after the ops -/
def heapA (r : Except String (Sys × List Res)) : Option (List Segment) :=
  match r with
  | .ok (s, _) => s.a.tcb.map (·.incoming.segments)
  | .error _ => none

/-- F-C17-4 (fixed): a segment 100000 beyond `RCV.NXT` (window 65535) used to be parked on the
    reorder queue and consumed when the window reached it; now it is acknowledged and dropped -/
theorem c17_regression_parked :
    heapA (Sys.run {} (handshakeOps ++ [.inject .A (forge .A 16 105001 1001 65535 [7, 8, 9])]))
      = some [] := by decide

/-- the state of side A after the ops -/
def stateA (r : Except String (Sys × List Res)) : Option State := (tcbA r).map (·.state)

/-- F-C17-5 (fixed): CLOSING used to skip the sequence check, so an RST with a sequence number
    2^31 away from `RCV.NXT` deleted the TCB; now the connection stays in CLOSING -/
theorem c17_regression_closing :
    stateA (Sys.run {} (handshakeOps ++ [.emit .A, .deliver .B 2, .close .A, .close .B, .emit .B,
      .deliver .A 3, .inject .A (forge .A 4 2147488650 0 0 [])])) = some .Closing := by decide

end Elvis.Tcp
