import ElvisVerif.Model.Demux
import ElvisVerif.Generated.Consts
/-!
# C04 — Datagrams reach exactly the listener bound to their address and port

All statements are about `Elvis.Demux.demux` / `udpListen` / `run` of `Model/Demux.lean`, for
ARBITRARY binding tables, frames and operation sequences (no enumeration).  The model is tied to
the sources by the constants below (extracted on every check) and by the differential runs.
-/
namespace Elvis.Demux

/-- the literal constants the model uses are the ones the sources contain now -/
theorem c04_consts :
    anyAddr = Elvis.Gen.ipv4CurrentNetwork ∧ protoUdp = Elvis.Gen.ipv4ProtoUdp ∧
    udpStrip = Elvis.Gen.udpDemuxStrip ∧ ipWordOctets = Elvis.Gen.ipv4DemuxStripFactor ∧
    Elvis.Gen.udpDemuxStrip = Elvis.Gen.udpHeaderOctets ∧ protoNumber Elvis.Gen.ipv4ProtoUdp = protoUdp := by
  decide

/-! ## helper lemmas (local) -/

theorem lookup_mem {κ ν : Type} [DecidableEq κ] (k : κ) (v : ν) (l : List (κ × ν))
    (h : lookup k l = some v) : (k, v) ∈ l := by
  induction l with
  | nil => simp [lookup] at h
  | cons x xs ih =>
    obtain ⟨k', v'⟩ := x
    unfold lookup at h
    by_cases hk : k' = k
    · simp [hk] at h; subst h; subst hk; simp
    · simp [hk] at h; exact List.mem_cons_of_mem _ (ih h)

theorem lookup_cons_self {κ ν : Type} [DecidableEq κ] (k : κ) (v : ν) (l : List (κ × ν)) :
    lookup k ((k, v) :: l) = some v := by simp [lookup]

theorem lookup_cons_ne {κ ν : Type} [DecidableEq κ] (k k' : κ) (v : ν) (l : List (κ × ν)) (h : k' ≠ k) :
    lookup k ((k', v) :: l) = lookup k l := by simp [lookup, h]

/-- A frame is the UDP datagram `src → dst` carrying `payload`: it names IPv4, both decoders
accept it, it is not a fragment, and stripping the two headers leaves `payload`. -/
def IsDatagram (f : Frame) (src dst : Endpoint) (payload : List UInt8) : Prop :=
  f.target = pidIpv4 ∧ ∃ ih : IpHdr, f.ip = some ih ∧ ih.src = src.addr ∧ ih.dst = dst.addr ∧
    protoNumber ih.proto = protoUdp ∧ ih.lastFragment = true ∧ ih.fragOffset = 0 ∧
    f.udp = some ⟨src.port, dst.port⟩ ∧
    (f.bytes.drop (ih.ihl * ipWordOctets)).drop udpStrip = payload

/-- Invariant of a machine whose UDP bindings were all made through `Udp::listen`. -/
structure Machine.WF (m : Machine) : Prop where
  hasIp : pidIpv4 ∈ m.protocols
  hasUdp : pidUdp ∈ m.protocols
  appsPresent : ∀ e app, lookup e m.udp = some app → app ∈ m.protocols
  covered : ∀ e app, lookup e m.udp = some app → lookup (e.addr, protoUdp) m.ip = some pidUdp
  udpOnly : ∀ a u, lookup (a, protoUdp) m.ip = some u → u = pidUdp

theorem init_WF (ps : List Pid) (h0 : pidIpv4 ∈ ps) (h1 : pidUdp ∈ ps) : (Machine.init ps).WF :=
  ⟨h0, h1, by intro e a h; simp [Machine.init, lookup] at h, by intro e a h; simp [Machine.init, lookup] at h,
   by intro a u h; simp [Machine.init, lookup] at h⟩

/-- `Udp::listen` by an application present on the machine keeps the invariant, and succeeds
exactly when the endpoint was free. -/
theorem c04_listen_invariant (m : Machine) (up : Pid) (e : Endpoint) (hm : m.WF) (hup : up ∈ m.protocols) :
    (udpListen m up e).1.WF ∧
    ((udpListen m up e).2 = .ok () ↔ lookup e m.udp = none) := by
  unfold udpListen
  cases hl : lookup e m.udp with
  | some a => simp; exact hm
  | none =>
    simp only [hm.hasIp, if_true]
    unfold ipv4Listen
    cases hi : lookup (e.addr, protoUdp) m.ip with
    | some u =>
      have hu := hm.udpOnly _ _ hi
      subst hu
      simp only [if_true]
      refine ⟨⟨hm.hasIp, hm.hasUdp, ?_, ?_, hm.udpOnly⟩, by simp⟩
      · intro e' a' h'
        by_cases he : e = e'
        · subst he; rw [lookup_cons_self] at h'; cases h'; exact hup
        · rw [lookup_cons_ne _ _ _ _ he] at h'; exact hm.appsPresent _ _ h'
      · intro e' a' h'
        by_cases he : e = e'
        · subst he; exact hi
        · rw [lookup_cons_ne _ _ _ _ he] at h'; exact hm.covered _ _ h'
    | none =>
      refine ⟨⟨hm.hasIp, hm.hasUdp, ?_, ?_, ?_⟩, by simp⟩
      · intro e' a' h'
        by_cases he : e = e'
        · subst he; rw [lookup_cons_self] at h'; cases h'; exact hup
        · rw [lookup_cons_ne _ _ _ _ he] at h'; exact hm.appsPresent _ _ h'
      · intro e' a' h'
        show lookup (e'.addr, protoUdp) (((e.addr, protoUdp), pidUdp) :: m.ip) = some pidUdp
        by_cases ha : e.addr = e'.addr
        · rw [ha, lookup_cons_self]
        · have hne : (e.addr, protoUdp) ≠ (e'.addr, protoUdp) := by
            intro h; exact ha (Prod.mk.inj h).1
          rw [lookup_cons_ne _ _ _ _ hne]
          by_cases he : e = e'
          · exact absurd (by rw [he]) ha
          · rw [lookup_cons_ne _ _ _ _ he] at h'; exact hm.covered _ _ h'
      · intro a u h'
        have h'' : lookup (a, protoUdp) (((e.addr, protoUdp), pidUdp) :: m.ip) = some u := h'
        by_cases ha : e.addr = a
        · rw [ha, lookup_cons_self] at h''; cases h''; rfl
        · have hne : (e.addr, protoUdp) ≠ (a, protoUdp) := by
            intro h; exact ha (Prod.mk.inj h).1
          rw [lookup_cons_ne _ _ _ _ hne] at h''; exact hm.udpOnly _ _ h''

/-- every machine state reached from an initial machine by any sequence of `listen`s of
applications that exist on it satisfies the invariant -/
theorem c04_reachable_WF (ps : List Pid) (h0 : pidIpv4 ∈ ps) (h1 : pidUdp ∈ ps)
    (ls : List (Pid × Endpoint)) (hls : ∀ x ∈ ls, x.1 ∈ ps) :
    (ls.foldl (fun m x => (udpListen m x.1 x.2).1) (Machine.init ps)).WF ∧
    (ls.foldl (fun m x => (udpListen m x.1 x.2).1) (Machine.init ps)).protocols = ps := by
  suffices H : ∀ (m : Machine), m.WF → m.protocols = ps →
      (ls.foldl (fun m x => (udpListen m x.1 x.2).1) m).WF ∧
      (ls.foldl (fun m x => (udpListen m x.1 x.2).1) m).protocols = ps from
    H _ (init_WF ps h0 h1) rfl
  induction ls with
  | nil => intro m hm hp; exact ⟨hm, hp⟩
  | cons x xs ih =>
    intro m hm hp
    simp only [List.foldl_cons]
    have hx : x.1 ∈ m.protocols := by rw [hp]; exact hls x (by simp)
    refine ih (fun y hy => hls y (List.mem_cons_of_mem _ hy)) _ (c04_listen_invariant m x.1 x.2 hm hx).1 ?_
    rw [← hp]
    unfold udpListen
    cases lookup x.2 m.udp <;> simp only []
    split
    · unfold ipv4Listen
      cases lookup (x.2.addr, protoUdp) (({ m with udp := (x.2, x.1) :: m.udp } : Machine).ip) with
      | none => rfl
      | some u => by_cases hu : u = pidUdp <;> simp [hu]
    · rfl

/-! ## What a delivery implies — for ANY machine state and ANY frame -/

/-- Whatever the tables and the frame: if an application receives something, both decoders
accepted the frame, the endpoints are the ones in the headers, the payload is the frame minus
the two headers, and the application holds the exact binding `(dst, port)` — or nobody holds it
and the application holds the wildcard binding `(0.0.0.0, port)`. -/
theorem udpDemux_ok_inv (m : Machine) (ih : IpHdr) (uh : UdpHdr) (body : List UInt8) (slot : Nat) (d : Delivered)
    (h : udpDemux m ih (some uh) body slot = .ok d) :
    d.loc = ⟨ih.dst, uh.dst⟩ ∧ d.rem = ⟨ih.src, uh.src⟩ ∧ d.slot = slot ∧ d.payload = body.drop udpStrip ∧
      (lookup d.loc m.udp = some d.app ∨
        (lookup d.loc m.udp = none ∧ lookup (⟨anyAddr, uh.dst⟩ : Endpoint) m.udp = some d.app)) := by
  unfold udpDemux at h
  simp only [] at h
  split at h
  · rename_i app h1
    unfold udpSessionReceive at h
    split at h
    · cases h; exact ⟨rfl, rfl, rfl, rfl, Or.inl h1⟩
    · cases h
  · rename_i h1
    split at h
    · rename_i app h2
      unfold udpSessionReceive at h
      split at h
      · cases h; exact ⟨rfl, rfl, rfl, rfl, Or.inr ⟨h1, h2⟩⟩
      · cases h
    · cases h

theorem demux_ok_inv (m : Machine) (f : Frame) (d : Delivered) (h : demux m f = .ok d) :
    ∃ ih uh, f.ip = some ih ∧ f.udp = some uh ∧
      d.loc = ⟨ih.dst, uh.dst⟩ ∧ d.rem = ⟨ih.src, uh.src⟩ ∧ d.slot = f.slot ∧
      d.payload = (f.bytes.drop (ih.ihl * ipWordOctets)).drop udpStrip ∧
      (lookup d.loc m.udp = some d.app ∨
        (lookup d.loc m.udp = none ∧ lookup (⟨anyAddr, uh.dst⟩ : Endpoint) m.udp = some d.app)) := by
  unfold demux at h
  split at h
  · split at h
    · unfold ipv4Demux at h
      cases hip : f.ip with
      | none => simp [hip] at h
      | some ih =>
        simp only [hip] at h
        split at h
        · cases h
        · split at h
          · split at h
            · split at h
              · cases hu : f.udp with
                | none => rw [hu] at h; simp [udpDemux] at h
                | some uh =>
                  rw [hu] at h
                  exact ⟨ih, uh, rfl, rfl, udpDemux_ok_inv m ih uh _ _ d h⟩
              · cases h
            · cases h
          · cases h
    · cases h
  · cases h

/-- **c04_isolation.** The application that receives a datagram for `(A, P)` is bound to `(A, P)`
or to `(0.0.0.0, P)` — never to another port, never to another specific address.
No hypothesis on the tables. -/
theorem c04_isolation (m : Machine) (f : Frame) (src dst : Endpoint) (payload : List UInt8)
    (d : Delivered) (hf : IsDatagram f src dst payload) (h : demux m f = .ok d) :
    ∃ e : Endpoint, lookup e m.udp = some d.app ∧ e.port = dst.port ∧ (e.addr = dst.addr ∨ e.addr = anyAddr) := by
  obtain ⟨ih, uh, hip, hu, hloc, _, _, _, hb⟩ := demux_ok_inv m f d h
  obtain ⟨_, ih', hip', _, hdst, _, _, _, hu', _⟩ := hf
  rw [hip] at hip'; cases hip'
  rw [hu] at hu'; cases hu'
  rcases hb with hb | ⟨_, hb⟩
  · exact ⟨d.loc, hb, by rw [hloc], Or.inl (by rw [hloc]; exact hdst)⟩
  · exact ⟨⟨anyAddr, dst.port⟩, hb, rfl, Or.inr rfl⟩

/-- An application all of whose bindings are on other ports or on other specific addresses never
receives the datagram. -/
theorem c04_isolation_never (m : Machine) (f : Frame) (src dst : Endpoint) (payload : List UInt8) (app : Pid)
    (hf : IsDatagram f src dst payload)
    (happ : ∀ e : Endpoint, lookup e m.udp = some app → e.port ≠ dst.port ∨ (e.addr ≠ dst.addr ∧ e.addr ≠ anyAddr)) :
    ∀ d, demux m f = .ok d → d.app ≠ app := by
  intro d h hd
  obtain ⟨e, he, hp, ha⟩ := c04_isolation m f src dst payload d hf h
  rw [hd] at he
  rcases happ e he with h1 | ⟨h1, h2⟩
  · exact h1 hp
  · rcases ha with ha | ha
    · exact h1 ha
    · exact h2 ha

/-! ## What happens to a datagram — for any well-formed machine -/

theorem ipv4_reaches_udp (m : Machine) (hm : m.WF) (A : Addr) (P : Port)
    (hb : (∃ a, lookup (⟨A, P⟩ : Endpoint) m.udp = some a) ∨ (∃ a, lookup (⟨anyAddr, P⟩ : Endpoint) m.udp = some a)) :
    ipv4Upstream m A protoUdp = some pidUdp := by
  unfold ipv4Upstream
  cases h : lookup (A, protoUdp) m.ip with
  | some u => simp only []; rw [hm.udpOnly _ _ h]
  | none =>
    simp only []
    rcases hb with ⟨a, ha⟩ | ⟨a, ha⟩
    · have := hm.covered _ _ ha; simp only [] at this; rw [h] at this; cases this
    · exact hm.covered _ _ ha

/-- The complete behaviour of the stack on a datagram, as a function of the UDP binding table
alone: exact binding, else wildcard binding, else dropped. -/
theorem demux_datagram (m : Machine) (hm : m.WF) (f : Frame) (src dst : Endpoint) (payload : List UInt8)
    (hf : IsDatagram f src dst payload) :
    match lookup dst m.udp with
    | some app => demux m f = .ok ⟨app, payload, dst, src, f.slot⟩
    | none =>
      match lookup (⟨anyAddr, dst.port⟩ : Endpoint) m.udp with
      | some app => demux m f = .ok ⟨app, payload, dst, src, f.slot⟩
      | none => demux m f = .error .ipMissingSession ∨ demux m f = .error .udpMissingSession := by
  obtain ⟨ht, ih, hip, hsrc, hdst, hpn, hlast, hoff, hu, hpay⟩ := hf
  have hdstE : (⟨ih.dst, dst.port⟩ : Endpoint) = dst := by cases dst; simp_all
  have hsrcE : (⟨ih.src, src.port⟩ : Endpoint) = src := by cases src; simp_all
  have hdm : demux m f = ipv4Demux m f := by
    unfold demux; rw [ht]; simp [hm.hasIp]
  -- the UDP stage, once reached
  have hudp : udpDemux m ih f.udp (f.bytes.drop (ih.ihl * ipWordOctets)) f.slot =
      (match lookup dst m.udp with
        | some app => .ok ⟨app, payload, dst, src, f.slot⟩
        | none => match lookup (⟨anyAddr, dst.port⟩ : Endpoint) m.udp with
          | some app => .ok ⟨app, payload, dst, src, f.slot⟩
          | none => .error .udpMissingSession) := by
    unfold udpDemux
    rw [hu]
    simp only [hdstE, hsrcE, hpay]
    cases h1 : lookup dst m.udp with
    | some app => simp only [udpSessionReceive, hm.appsPresent _ _ h1, if_true]
    | none =>
      simp only []
      cases h2 : lookup (⟨anyAddr, dst.port⟩ : Endpoint) m.udp with
      | some app => simp only [udpSessionReceive, hm.appsPresent _ _ h2, if_true]
      | none => rfl
  cases h1 : lookup dst m.udp with
  | some app =>
    simp only []
    have hr := ipv4_reaches_udp m hm dst.addr dst.port (Or.inl ⟨app, by cases dst; exact h1⟩)
    rw [hdm]; unfold ipv4Demux
    simp only [hip, hpn, hdst, hlast, hoff, hm.hasUdp, hudp, h1]
    rw [hr]; simp
  | none =>
    simp only []
    cases h2 : lookup (⟨anyAddr, dst.port⟩ : Endpoint) m.udp with
    | some app =>
      simp only []
      have hr := ipv4_reaches_udp m hm dst.addr dst.port (Or.inr ⟨app, h2⟩)
      rw [hdm]; unfold ipv4Demux
      simp only [hip, hpn, hdst, hlast, hoff, hm.hasUdp, hudp, h1, h2]
      rw [hr]; simp
    | none =>
      simp only []
      rw [hdm]; unfold ipv4Demux
      simp only [hip, hpn, hdst]
      cases hr : ipv4Upstream m dst.addr protoUdp with
      | none => left; simp
      | some u =>
        have hu' : u = pidUdp := by
          unfold ipv4Upstream at hr
          cases h3 : lookup (dst.addr, protoUdp) m.ip with
          | some u' => rw [h3] at hr; simp only [] at hr; cases hr; exact hm.udpOnly _ _ h3
          | none => rw [h3] at hr; simp only [] at hr; exact hm.udpOnly _ _ hr
        subst hu'
        right
        simp only [hlast, hoff, hm.hasUdp, hudp, h1, h2]
        simp

/-- **c04_exact_wins.** An exact binding `(A, P)` gets the datagram — whether or not a wildcard
binding for `P` exists as well. -/
theorem c04_exact_wins (m : Machine) (hm : m.WF) (f : Frame) (src dst : Endpoint) (payload : List UInt8) (app : Pid)
    (hf : IsDatagram f src dst payload) (hb : lookup dst m.udp = some app) :
    demux m f = .ok ⟨app, payload, dst, src, f.slot⟩ := by
  have := demux_datagram m hm f src dst payload hf
  rw [hb] at this; exact this

/-- **c04_wildcard_fallback.** With no exact binding, the holder of `(0.0.0.0, P)` gets it. -/
theorem c04_wildcard_fallback (m : Machine) (hm : m.WF) (f : Frame) (src dst : Endpoint) (payload : List UInt8) (app : Pid)
    (hf : IsDatagram f src dst payload) (hn : lookup dst m.udp = none)
    (hb : lookup (⟨anyAddr, dst.port⟩ : Endpoint) m.udp = some app) :
    demux m f = .ok ⟨app, payload, dst, src, f.slot⟩ := by
  have := demux_datagram m hm f src dst payload hf
  rw [hn] at this; simp only [] at this; rw [hb] at this; exact this

/-- **c04_payload_and_source.** What the application sees is the payload the sender wrapped
(`UdpSession::send` puts `udpHeaderOctets` bytes, `Ipv4Session::send` puts `ihl*4` bytes in
front — sizes from the extracted constants), the true source endpoint and the destination
endpoint of the datagram. -/
theorem c04_payload_and_source (m : Machine) (f : Frame) (ih : IpHdr) (uh : UdpHdr)
    (ipHeader udpHeader payload : List UInt8) (d : Delivered)
    (hip : f.ip = some ih) (hu : f.udp = some uh)
    (hbytes : f.bytes = encap ipHeader udpHeader payload)
    (hl1 : ipHeader.length = ih.ihl * Elvis.Gen.ipv4DemuxStripFactor)
    (hl2 : udpHeader.length = Elvis.Gen.udpHeaderOctets)
    (h : demux m f = .ok d) :
    d.payload = payload ∧ d.rem = ⟨ih.src, uh.src⟩ ∧ d.loc = ⟨ih.dst, uh.dst⟩ := by
  obtain ⟨ih', uh', hip', hu', hloc, hrem, _, hpay, _⟩ := demux_ok_inv m f d h
  rw [hip] at hip'; cases hip'
  rw [hu] at hu'; cases hu'
  refine ⟨?_, hrem, hloc⟩
  rw [hpay, hbytes, encap]
  have e1 : ih.ihl * ipWordOctets = ipHeader.length := by rw [hl1]; rfl
  have e2 : udpStrip = udpHeader.length := by rw [hl2]; rfl
  rw [e1, List.drop_left, e2, List.drop_left]

/-- **c04_rebind_refused.** A `listen` on an endpoint that is already bound on the machine is
refused — for any upstream, including the current holder — and changes nothing. -/
theorem c04_rebind_refused (m : Machine) (up holder : Pid) (e : Endpoint) (h : lookup e m.udp = some holder) :
    udpListen m up e = (m, .error .existing) := by
  unfold udpListen; rw [h]

/-- after a successful `listen` the endpoint is bound to the caller (so any further attempt is
refused by `c04_rebind_refused`) -/
theorem c04_bound_after_listen (m : Machine) (up : Pid) (e : Endpoint) (h : (udpListen m up e).2 = .ok ()) :
    lookup e (udpListen m up e).1.udp = some up := by
  unfold udpListen at h ⊢
  cases hl : lookup e m.udp with
  | some a => rw [hl] at h; simp at h
  | none =>
    rw [hl] at h; simp only [] at h ⊢
    split
    · rename_i hin
      simp only [hin, if_true] at h
      unfold ipv4Listen at h ⊢
      cases hi : lookup (e.addr, protoUdp) (({ m with udp := (e, up) :: m.udp } : Machine).ip) with
      | none => simp only []; exact lookup_cons_self _ _ _
      | some u =>
        simp only [hi] at h ⊢
        by_cases hu : u = pidUdp
        · simp only [hu, if_true]; exact lookup_cons_self _ _ _
        · simp [hu] at h
    · rename_i hin; simp [hin] at h

theorem c04_second_listen_refused (m : Machine) (up up' : Pid) (e : Endpoint) (h : (udpListen m up e).2 = .ok ()) :
    udpListen (udpListen m up e).1 up' e = ((udpListen m up e).1, .error .existing) :=
  c04_rebind_refused _ up' up e (c04_bound_after_listen m up e h)

/-- **c04_unbound_dropped.** A datagram for which neither `(A, P)` nor `(0.0.0.0, P)` is bound is
dropped with an error … -/
theorem c04_unbound_dropped (m : Machine) (hm : m.WF) (f : Frame) (src dst : Endpoint) (payload : List UInt8)
    (hf : IsDatagram f src dst payload) (h1 : lookup dst m.udp = none)
    (h2 : lookup (⟨anyAddr, dst.port⟩ : Endpoint) m.udp = none) :
    demux m f = .error .ipMissingSession ∨ demux m f = .error .udpMissingSession := by
  have := demux_datagram m hm f src dst payload hf
  rw [h1] at this; simp only [] at this; rw [h2] at this; exact this

theorem run_append (w : World) (a b : List Op) :
    run w (a ++ b) = ((run (run w a).1 b).1, (run w a).2 ++ (run (run w a).1 b).2) := by
  induction a generalizing w with
  | nil => simp [run]
  | cons x xs ih => simp only [List.cons_append, run, ih]

/-- … **without disturbing anything else**: no arrival (bound or not, well-formed or not)
changes any table of any machine, so every later operation answers exactly as if the frame had
never arrived. -/
theorem c04_arrival_state_unchanged (w : World) (i : Nat) (f : Frame) : (step w (.arrive i f)).1 = w := by
  simp only [step]; split <;> rfl

theorem c04_unbound_dropped_frame_condition (w : World) (before after : List Op) (i : Nat) (f : Frame) :
    (run w (before ++ [.arrive i f] ++ after)).1 = (run w (before ++ after)).1 ∧
    (run (run w (before ++ [.arrive i f])).1 after).2 = (run (run w before).1 after).2 := by
  have h1 : (run w (before ++ [.arrive i f])).1 = (run w before).1 := by
    rw [run_append]; simp only [run]; exact c04_arrival_state_unchanged _ i f
  constructor
  · simp only [List.append_assoc, run_append, List.singleton_append, run, c04_arrival_state_unchanged]
  · rw [h1]

/-- **c04_order_independent.** Demultiplexing is a function of (tables, frame): a sequence of
arrivals leaves the world as it was and produces, for each arrival, the same result in whatever
order they come; permuting the arrivals permutes the deliveries. -/
def arrivals (l : List (Nat × Frame)) : List Op := l.map fun x => .arrive x.1 x.2

def arrivalOut (w : World) (x : Nat × Frame) : Out :=
  match w[x.1]? with
  | none => .noMachine
  | some m => .arrived (demux m x.2)

theorem run_arrivals (w : World) (l : List (Nat × Frame)) : run w (arrivals l) = (w, l.map (arrivalOut w)) := by
  induction l with
  | nil => rfl
  | cons x xs ih =>
    simp only [arrivals, List.map_cons, run] at ih ⊢
    have hs : step w (.arrive x.1 x.2) = (w, arrivalOut w x) := by
      simp only [step, arrivalOut]; cases h : w[x.1]? <;> simp
    rw [hs]; simp only []; rw [ih]

theorem c04_order_independent (w : World) (l₁ l₂ : List (Nat × Frame)) (h : List.Perm l₁ l₂) :
    (run w (arrivals l₁)).1 = w ∧ (run w (arrivals l₂)).1 = w ∧
    List.Perm (run w (arrivals l₁)).2 (run w (arrivals l₂)).2 := by
  rw [run_arrivals, run_arrivals]
  exact ⟨rfl, rfl, h.map _⟩

/-! ## Non-vacuity: a concrete machine and frames satisfying the hypotheses -/

def exMachine : Machine :=
  ((udpListen ((udpListen (Machine.init [0, 1, 10, 11]) 10 ⟨0x0a000001, 5000⟩).1) 11 ⟨0, 5000⟩).1)

def exFrame (dst : Addr) (port : Port) : Frame :=
  { target := pidIpv4, slot := 0,
    ip := some ⟨5, 17, 0x0a000002, dst, true, 0⟩, udp := some ⟨40000, port⟩,
    bytes := List.replicate 28 0 ++ [104, 105] }

example : exMachine.WF := by
  have h := c04_reachable_WF [0, 1, 10, 11] (by decide) (by decide)
    [(10, ⟨0x0a000001, 5000⟩), (11, ⟨0, 5000⟩)] (by decide)
  exact h.1
example : IsDatagram (exFrame 0x0a000001 5000) ⟨0x0a000002, 40000⟩ ⟨0x0a000001, 5000⟩ [104, 105] :=
  ⟨rfl, _, rfl, rfl, rfl, by decide, rfl, rfl, rfl, by decide⟩
/-- exact beats wildcard; another address falls back to the wildcard; another port is dropped -/
example : demux exMachine (exFrame 0x0a000001 5000) = .ok ⟨10, [104, 105], ⟨0x0a000001, 5000⟩, ⟨0x0a000002, 40000⟩, 0⟩ := by rfl
example : demux exMachine (exFrame 0x0a000009 5000) = .ok ⟨11, [104, 105], ⟨0x0a000009, 5000⟩, ⟨0x0a000002, 40000⟩, 0⟩ := by rfl
example : demux exMachine (exFrame 0x0a000001 5001) = .error .udpMissingSession := by rfl
example : (udpListen exMachine 11 ⟨0x0a000001, 5000⟩).2 = .error .existing := by rfl

end Elvis.Demux
