import Driver.Common
/-! Line-protocol handlers for C11 (sub-commands `c11` / `c11-*`). -/
namespace Driver.C11

def dispatch (_sub : String) (_i _o : IO.FS.Stream) : Option (IO Unit) := none

end Driver.C11
