#!/usr/bin/env python3
"""Regenerate DESIGN.md section 10.4 (seeded-change results) from seeded/*/meta.json."""
import json, glob, os, re
ROOT = os.path.join(os.path.dirname(os.path.abspath(__file__)), "..")
rows = []
stats = {"caught": 0, "strengthened": 0, "tie": 0}
for mf in sorted(glob.glob(os.path.join(ROOT, "seeded", "*", "meta.json"))):
    sid = os.path.basename(os.path.dirname(mf)); m = json.load(open(mf))
    c = m["confirmed_by_integrator"]; r = c["result"]; first = c.get("first_result")
    if first is None and r.startswith("VIOLATION with"):
        verdict = "caught, concrete replay"; stats["caught"] += 1
    elif r.startswith("not caught by") or r.startswith("recorded as caught by"):
        verdict = r[:300]; stats["other"] = stats.get("other", 0) + 1
    elif first is not None and first == r:
        miss = "missed" if first.startswith("MISSED") else "only `no-failing-input-found`"
        verdict = f"{miss} so far — {first[:260]}"; stats["tie"] += 1
    elif first is not None:
        how = re.sub(r"^caught after strengthening \((.*?)\):.*$", r"\1", r, flags=re.S)
        miss = "missed" if first.startswith("MISSED") else "only `no-failing-input-found`"
        verdict = f"first round: {miss}; now caught with a concrete replay after strengthening — {how[:260]}"; stats["strengthened"] += 1
    else:
        verdict = r[:200]; stats["tie"] += 1
    what = m["what"].replace("|", "/").replace("\n", " ")
    rows.append(f"| {sid} | {what[:170]}{'…' if len(what) > 170 else ''} | {verdict} |")
text = f"""### 10.4 Seeded code changes (written by fresh sub-agents that saw only the property text)

For every property three (for some, six) independent changes to `/repo` were requested from
sub-agents that were given nothing but the property text and a scratch worktree: each change
breaks the property, compiles, passes the 156 existing tests, needs something specific to
manifest, and comes with a demonstration test (`seeded/<id>/{{patch.diff, demo.rs, meta.json}}`).
Each was confirmed in a scratch worktree (`tools/confirm_seed.sh`: demo passes without the patch,
fails with it, suite passes with it) and then tried against the quick check
(`tools/try_seed.sh <property> <patch>`: apply to `/repo`, `./check`, restore).

Totals: {len(rows)} seeded changes; {stats['caught']} caught at once with a concrete replay;
{stats['strengthened']} missed or reported only as a broken tie in the first round and caught with a
concrete replay after the harness was strengthened (the strengthening is generic — new scenario
families / generators / oracles, listed per row — and was re-validated with further mutations of
the same flavour by the builder who wrote it); {stats['tie']} not (yet) caught with a concrete input; {stats.get('other', 0)} caught concretely only by the check of the property that anchors the changed file (see the rows).

| seed | change | result |
|---|---|---|
""" + "\n".join(rows) + "\n"
p = os.path.join(ROOT, "DESIGN.md")
s = open(p).read()
marker = "### 10.4 Seeded code changes"
tail = ""
if marker in s:
    rest = s[s.index(marker):]
    nxt = rest.find("\n### 10.5")
    tail = rest[nxt:] if nxt >= 0 else ""
    s = s[:s.index(marker)]
open(p, "w").write(s.rstrip("\n") + "\n\n" + text + tail)
print(len(rows), stats)
