import ElvisVerif.Model.Codec.Ipv4
import ElvisVerif.Lemmas.Codec
import ElvisVerif.Lemmas.Checksum
/-!
Helper lemmas for the IPv4 codec (C08, C14a, C18): what `from_bytes` accepting says about the
input (`fromBytes_ok_inv`), and `matchesField` facts.
-/
namespace Elvis.Codec

/-- big-endian 16-bit value of two bytes -/
abbrev W (a b : UInt8) : Nat := a.toNat * 256 + b.toNat
/-- big-endian 32-bit value of four bytes -/
abbrev W4 (a b c d : UInt8) : Nat :=
  a.toNat * 16777216 + b.toNat * 65536 + c.toNat * 256 + d.toNat

theorem W_lt (a b : UInt8) : W a b < 65536 := by
  have := a.toNat_lt; have := b.toNat_lt; simp only [W]; omega
theorem W4_lt (a b c d : UInt8) : W4 a b c d < 4294967296 := by
  have := a.toNat_lt; have := b.toNat_lt; have := c.toNat_lt; have := d.toNat_lt
  simp only [W4]; omega

end Elvis.Codec

namespace Elvis.Ck

theorem matchesField_asU16 (ck : Bool) (acc : Nat) : matchesField ck acc (asU16 ck acc) = true := by
  simp [matchesField]

/-- unless the field is the second representation of zero (`0x0000` with the feature on), an
    accepted field is exactly `as_u16()` -/
theorem matchesField_eq {ck : Bool} {acc e : Nat} (h : matchesField ck acc e = true)
    (hz : ck = false ∨ e ≠ 0) : asU16 ck acc = e := by
  unfold matchesField at h
  simp only [Bool.or_eq_true, beq_iff_eq, Bool.and_eq_true] at h
  rcases h with h | ⟨⟨h1, _⟩, h3⟩
  · exact h
  · rcases hz with hz | hz
    · simp [hz] at h1
    · exact absurd h3 hz

theorem matchesField_off (acc e : Nat) : matchesField false acc e = true ↔ e = 0 := by
  simp only [matchesField, asU16, Bool.false_eq_true, if_false, Bool.false_and, Bool.or_false,
    beq_iff_eq]
  exact eq_comm

end Elvis.Ck

namespace Elvis.Codec.Ipv4
open Elvis.Ck Elvis.Codec

/-- accumulator of `from_bytes` over the 18 checksummed header bytes, in code order -/
def accBytes (ck : Bool)
    (b0 b1 b2 b3 b4 b5 b6 b7 b8 b9 b12 b13 b14 b15 b16 b17 b18 b19 : UInt8) : Nat :=
  addWord32 ck (addWord32 ck (addU8 ck (add16 ck (add16 ck (add16 ck
    (addU8 ck 0 b0.toNat b1.toNat) (W b2 b3)) (W b4 b5)) (W b6 b7)) b8.toNat b9.toNat)
    (W4 b12 b13 b14 b15)) (W4 b16 b17 b18 b19)

/-- `from_bytes` returns a header only for inputs of at least 20 bytes that pass every check;
    the header is then this function of the first 20 bytes -/
theorem fromBytes_ok_inv {ck : Bool} {bs : List UInt8} {hd : Header}
    (h : fromBytes ck bs = .ok hd) :
    ∃ b0 b1 b2 b3 b4 b5 b6 b7 b8 b9 b10 b11 b12 b13 b14 b15 b16 b17 b18 b19 rest,
      bs = b0 :: b1 :: b2 :: b3 :: b4 :: b5 :: b6 :: b7 :: b8 :: b9 :: b10 :: b11 :: b12 :: b13 ::
        b14 :: b15 :: b16 :: b17 :: b18 :: b19 :: rest ∧
      b0.toNat = 69 ∧ b1.toNat % 4 = 0 ∧ 20 ≤ W b2 b3 ∧ W b6 b7 / 8192 < 4 ∧
      matchesField ck (accBytes ck b0 b1 b2 b3 b4 b5 b6 b7 b8 b9 b12 b13 b14 b15 b16 b17 b18 b19)
        (W b10 b11) = true ∧
      hd = { ihl := 5, tos := b1.toNat, totalLength := W b2 b3, identification := W b4 b5,
             fragmentOffset := W b6 b7 % 8192, flags := W b6 b7 / 8192, ttl := b8.toNat,
             protocol := b9.toNat, checksum := W b10 b11, source := W4 b12 b13 b14 b15,
             destination := W4 b16 b17 b18 b19 } := by
  rcases bs with _ | ⟨b0, _ | ⟨b1, _ | ⟨b2, _ | ⟨b3, _ | ⟨b4, _ | ⟨b5, _ | ⟨b6, _ | ⟨b7, _ | ⟨b8,
    _ | ⟨b9, _ | ⟨b10, _ | ⟨b11, _ | ⟨b12, _ | ⟨b13, _ | ⟨b14, _ | ⟨b15, _ | ⟨b16, _ | ⟨b17,
    _ | ⟨b18, _ | ⟨b19, rest⟩⟩⟩⟩⟩⟩⟩⟩⟩⟩⟩⟩⟩⟩⟩⟩⟩⟩⟩⟩
  all_goals (simp only [fromBytes, hts, nextU8, nextU16, nextU32] at h)
  all_goals (try (simp at h; done))
  all_goals (repeat' (split at h <;> try (simp at h; done)))
  refine ⟨b0, b1, b2, b3, b4, b5, b6, b7, b8, b9, b10, b11, b12, b13, b14, b15, b16, b17, b18,
    b19, rest, rfl, ?_⟩
  rename_i c1 c2 c3 c4 c5 c6
  have := b6.toNat_lt; have := b7.toNat_lt
  simp only [Except.ok.injEq] at h
  simp only [W, W4, accBytes]
  refine ⟨by omega, by omega, by omega, by omega, ?_, ?_⟩
  · simpa using c6
  · rw [← h]; congr 1; omega

/-- a 20-byte prefix of a list that starts with 20 known bytes is those bytes -/
theorem hdr_eq_of_append {hdr rest : List UInt8} {b0 b1 b2 b3 b4 b5 b6 b7 b8 b9 b10 b11 b12 b13 b14
    b15 b16 b17 b18 b19 : UInt8} {rest' : List UInt8} (hl : hdr.length = 20)
    (h : hdr ++ rest = b0 :: b1 :: b2 :: b3 :: b4 :: b5 :: b6 :: b7 :: b8 :: b9 :: b10 :: b11 :: b12 ::
      b13 :: b14 :: b15 :: b16 :: b17 :: b18 :: b19 :: rest') :
    hdr = [b0, b1, b2, b3, b4, b5, b6, b7, b8, b9, b10, b11, b12, b13, b14, b15, b16, b17, b18, b19] := by
  have : hdr ++ rest = [b0, b1, b2, b3, b4, b5, b6, b7, b8, b9, b10, b11, b12, b13, b14, b15, b16,
      b17, b18, b19] ++ rest' := by simpa using h
  exact (List.append_inj this (by simp [hl])).1

/-- `from_bytes` on at least 20 bytes, in closed form -/
theorem fromBytes_cons20 (ck : Bool)
    (b0 b1 b2 b3 b4 b5 b6 b7 b8 b9 b10 b11 b12 b13 b14 b15 b16 b17 b18 b19 : UInt8)
    (rest : List UInt8) :
    fromBytes ck (b0 :: b1 :: b2 :: b3 :: b4 :: b5 :: b6 :: b7 :: b8 :: b9 :: b10 :: b11 :: b12 ::
        b13 :: b14 :: b15 :: b16 :: b17 :: b18 :: b19 :: rest) =
      if b0.toNat / 16 ≠ 4 then .error (.err .incorrectIpv4Version)
      else if b0.toNat % 16 ≠ 5 then .error (.err .invalidHeaderLength)
      else if b1.toNat % 4 ≠ 0 then .error (.err .usedReservedTos)
      else if W b2 b3 < b0.toNat % 16 * 4 then .error (.err .invalidTotalLength)
      else if W b6 b7 / 8192 / 4 % 2 ≠ 0 then .error (.err .usedReservedFlag)
      else if ¬ matchesField ck
          (accBytes ck b0 b1 b2 b3 b4 b5 b6 b7 b8 b9 b12 b13 b14 b15 b16 b17 b18 b19) (W b10 b11) then
        .error (.err (.checksum (W b10 b11)
          (asU16 ck (accBytes ck b0 b1 b2 b3 b4 b5 b6 b7 b8 b9 b12 b13 b14 b15 b16 b17 b18 b19))))
      else .ok { ihl := b0.toNat % 16, tos := b1.toNat, totalLength := W b2 b3,
                 identification := W b4 b5, fragmentOffset := W b6 b7 % 8192,
                 flags := W b6 b7 / 8192, ttl := b8.toNat, protocol := b9.toNat,
                 checksum := W b10 b11, source := W4 b12 b13 b14 b15,
                 destination := W4 b16 b17 b18 b19 } := by
  simp only [fromBytes, nextU8, nextU16, nextU32]
  rfl

end Elvis.Codec.Ipv4
