/-!
# Model of `tcp/tcb/modular_cmp.rs` — comparisons in the circular TCP sequence space

`u32` values are `BitVec 32`; `wrapping_add` / `wrapping_sub` are `+` / `-`.
Hand-written and readable; `Lemmas/ModCmp.lean` proves every definition here equal to the
mechanical translation of the Rust source in `Generated/ModCmpKernels.lean`, so an edit of
`modular_cmp.rs` breaks a proof obligation.
No imports: this file is linked into the native driver.
-/
namespace Elvis.ModCmp

/-- `enum ModCmp { Lt, Leq }` -/
inductive Cmp
  | Lt
  | Leq
  deriving DecidableEq, Repr, Inhabited

/-- `ModCmp::offset` -/
def Cmp.offset : Cmp → BitVec 32
  | .Lt => 0
  | .Leq => 1

/-- `mod_lt(a, b)`: `a.wrapping_sub(b) > (1 << 31)` -/
def modLt (a b : BitVec 32) : Bool := decide (a - b > 2147483648#32)

/-- `mod_leq(a, b)`: `a == b || mod_lt(a, b)` -/
def modLeq (a b : BitVec 32) : Bool := a == b || modLt a b

/-- `mod_gt(a, b)`: `mod_lt(b, a)` -/
def modGt (a b : BitVec 32) : Bool := modLt b a

/-- `mod_geq(a, b)`: `a == b || mod_gt(a, b)` -/
def modGeq (a b : BitVec 32) : Bool := a == b || modGt a b

/-- the `j || k || l` expression of `mod_bounded`: `b` strictly between `a` and `c` going
    around the circle from `a` -/
def cyc (a b c : BitVec 32) : Bool :=
  (decide (a < b) && decide (b < c) && decide (a < c)) ||
  (decide (a < b) && decide (b > c) && decide (a > c)) ||
  (decide (a > b) && decide (b < c) && decide (a > c))

/-- `mod_bounded(a, ab_cmp, b, bc_cmp, c)` -/
def modBounded (a : BitVec 32) (ab : Cmp) (b : BitVec 32) (bc : Cmp) (c : BitVec 32) : Bool :=
  cyc (a - ab.offset) b (c + bc.offset)

end Elvis.ModCmp
