import ElvisVerif.Lemmas.C01Sys
import ElvisVerif.Lemmas.TcbClose
/-!
# The stream invariant with `close()`: one TCB (`TInvF`) and its frame relation (`FrF`)

C01's stream invariant (`Lemmas/C01Inv.lean`) is about connections nobody closes: no segment has the
FIN bit and every TCB is in SYN-SENT / SYN-RECEIVED / ESTABLISHED.  This file generalises it to all
eleven states:

* `finSent t` — the endpoint has numbered its FIN: it is in FIN-WAIT-2 / TIME-WAIT, or in FIN-WAIT-1 /
  CLOSING / LAST-ACK with no text left to segmentize (`fin_pending` false);
* `finRcvd st` — the state shows that the peer's FIN has been received: CLOSE-WAIT, LAST-ACK, CLOSING,
  TIME-WAIT;
* `ValidF iss sub fin g` — what a segment emitted by the endpoint with ISS `iss`, submitted bytes `sub`
  and "FIN numbered" flag `fin` looks like: as `C01.Valid`, and a FIN only when `fin`, without text and
  SYN, at `seq = iss + 1 + |sub|` — behind every submitted byte;
* `TInvF` — C01's `TInv` with `SND.NXT = iss + 1 + |segmentized| + [finSent]`,
  `RCV.NXT = iss_peer + 1 + |delivered ++ buffered| + [finRcvd]` and the new fact `eof`: **when the state
  shows FIN received, `delivered ++ buffered` is everything the peer submitted**.
-/
namespace Elvis.Tcp.Fin
open Elvis.ModCmp Elvis.Tcp.Tcb Elvis.Tcp.C01

/-- the FIN has been numbered (formed by `close` or `segments`) -/
def finSent (t : Tcb) : Bool :=
  match t.state with
  | .FinWait1 | .Closing | .LastAck => t.outgoing.text.isEmpty
  | .FinWait2 | .TimeWait => true
  | _ => false

/-- the state shows that the peer's FIN has been received -/
def finRcvd : State → Bool
  | .CloseWait | .LastAck | .Closing | .TimeWait => true
  | _ => false

theorem finSent_of_ok3 {t : Tcb} (h : Ok3 t.state) : finSent t = false := by
  unfold finSent
  rcases h.cases with hs | hs | hs <;> rw [hs]

theorem finRcvd_of_ok3 {st : State} (h : Ok3 st) : finRcvd st = false := by
  rcases h.cases with hs | hs | hs <;> rw [hs] <;> rfl

theorem finSent_accepts {t : Tcb} (h : sendAccepts t.state = true) : finSent t = false := by
  unfold finSent
  cases hs : t.state <;> rw [hs] at h <;> first | rfl | cases h

/-- in the three closing states that may still hold text, `finSent` is the negation of `fin_pending` -/
theorem finSent_eq_not_pending {t : Tcb} (h : t.state = .FinWait1 ∨ t.state = .Closing ∨ t.state = .LastAck) :
    finSent t = !t.finPending := by
  unfold finSent Tcb.finPending
  rcases h with hs | hs | hs <;> rw [hs] <;> simp

/-- `fin_pending` implies the FIN has not been numbered -/
theorem finSent_of_pending {t : Tcb} (h : t.finPending = true) : finSent t = false := by
  unfold Tcb.finPending at h
  unfold finSent
  cases hs : t.state <;> rw [hs] at h <;> simp at h ⊢
  all_goals exact h

theorem finSent_congr {t t' : Tcb} (hs : t'.state = t.state) (ht : t'.outgoing.text = t.outgoing.text) :
    finSent t' = finSent t := by
  unfold finSent; rw [hs, ht]

theorem finSent_enqueueBuilt (t : Tcb) (h : Hdr) : finSent (t.enqueueBuilt h) = finSent t :=
  finSent_congr (enqueueBuilt_frame t h).2.2.2.2.1 (enqueueBuilt_frame t h).2.2.2.2.2.2.1

/-- `V_X` with FIN -/
structure ValidF (iss : Seq) (sub : List UInt8) (fin : Bool) (g : Segment) : Prop where
  fin : g.hdr.ctl.fin = true →
    fin = true ∧ g.hdr.ctl.syn = false ∧ g.text = [] ∧ g.hdr.seq = iss + 1 + BitVec.ofNat 32 sub.length
  syn : g.hdr.ctl.syn = true → g.hdr.seq = iss ∧ g.text = []
  txt : g.text ≠ [] → ∃ p, g.hdr.seq = iss + 1 + BitVec.ofNat 32 p ∧ p + g.text.length ≤ sub.length ∧
    g.text = (sub.drop p).take g.text.length

section
variable {iss : Seq} {sub : List UInt8} {g : Segment}

/-- while the FIN is not numbered the submitted bytes may grow -/
theorem ValidF.mono (h : ValidF iss sub false g) (more : List UInt8) : ValidF iss (sub ++ more) false g := by
  refine ⟨(fun hf => by cases (h.fin hf).1), h.syn, fun hne => ?_⟩
  obtain ⟨p, hs, hl, ht⟩ := h.txt hne
  refine ⟨p, hs, by rw [List.length_append]; omega, ?_⟩
  rw [List.drop_append_of_le_length (by omega), List.take_append_of_le_length (by rw [List.length_drop]; omega)]
  exact ht

theorem ValidF.flag_le {f f' : Bool} (h : ValidF iss sub f g) (hf : f = true → f' = true) : ValidF iss sub f' g :=
  ⟨fun hfin => ⟨hf (h.fin hfin).1, (h.fin hfin).2⟩, h.syn, h.txt⟩

theorem ValidF.flag {f : Bool} (h : ValidF iss sub f g) : ValidF iss sub true g := h.flag_le (fun _ => rfl)

theorem ValidF.plain {f : Bool} (h : Hdr) (hs : h.ctl.syn = false) (hf : h.ctl.fin = false) :
    ValidF iss sub f ⟨h, []⟩ :=
  ⟨fun h' => by simp [hf] at h', fun h' => by simp [hs] at h', fun h' => absurd rfl h'⟩

theorem ValidF.of_valid {f : Bool} (h : Valid iss sub g) : ValidF iss sub f g :=
  ⟨(fun hf => by rw [h.fin] at hf; cases hf), h.syn, h.txt⟩

end

/-- the invariant of endpoint X's TCB (peer Y; `fx` = X has numbered its FIN, `finY` = Y has) -/
structure TInvG (port : U16) (issX issY : Seq) (subX subY delX : List UInt8) (fx finY : Bool) (t : Tcb) : Prop where
  lp : t.localPort = port
  iss : t.snd.iss = issX
  out : ∃ pre, subX = pre ++ t.outgoing.text ∧
    t.snd.nxt = issX + 1 + BitVec.ofNat 32 (pre.length + fx.toNat)
  rtx : ∀ g ∈ t.outgoing.retransmit.map (·.segment), ValidF issX subX fx g ∧ g.hdr.srcPort = port
  one : ∀ h ∈ t.outgoing.oneshot, h.ctl.syn = false ∧ h.ctl.fin = false ∧ h.srcPort = port
  heap : ∀ g ∈ t.incoming.segments, ValidF issY subY finY g
  rcv0 : t.state = .SynSent → delX = [] ∧ t.incoming.text = []
  rcv1 : t.state ≠ .SynSent →
    t.rcv.nxt = issY + 1 + BitVec.ofNat 32 (delX.length + t.incoming.text.length + (finRcvd t.state).toNat) ∧
    (delX ++ t.incoming.text) <+: subY
  /-- **FIN after data, receiver side** -/
  eof : finRcvd t.state = true → delX ++ t.incoming.text = subY ∧ finY = true
  irs : t.state ≠ .SynSent → t.rcv.irs = issY

/-- the invariant proper: the flag is what the TCB shows -/
abbrev TInvF (port : U16) (issX issY : Seq) (subX subY delX : List UInt8) (finY : Bool) (t : Tcb) : Prop :=
  TInvG port issX issY subX subY delX (finSent t) finY t

/-- the frame relation: nothing the invariant reads changed, except that queue entries disappeared,
    harmless headers were appended to the one-shot queue, and the state moved without changing
    `finSent`, `finRcvd` or "is SYN-SENT" -/
structure FrF (t t' : Tcb) : Prop where
  lp : t'.localPort = t.localPort
  iss : t'.snd.iss = t.snd.iss
  nxt : t'.snd.nxt = t.snd.nxt
  otext : t'.outgoing.text = t.outgoing.text
  rcv : t'.rcv = t.rcv
  inc : t'.incoming = t.incoming
  ss : t'.state = .SynSent ↔ t.state = .SynSent
  fs : finSent t' = finSent t
  fr : finRcvd t'.state = finRcvd t.state
  rtx : ∀ g ∈ t'.outgoing.retransmit.map (·.segment), g ∈ t.outgoing.retransmit.map (·.segment)
  one : ∀ h ∈ t'.outgoing.oneshot, h ∈ t.outgoing.oneshot ∨
    (h.ctl.syn = false ∧ h.ctl.fin = false ∧ h.srcPort = t.localPort)

theorem FrF.refl (t : Tcb) : FrF t t :=
  ⟨rfl, rfl, rfl, rfl, rfl, rfl, Iff.rfl, rfl, rfl, fun _ h => h, fun _ h => Or.inl h⟩

theorem FrF.trans {a b c : Tcb} (h1 : FrF a b) (h2 : FrF b c) : FrF a c := by
  refine ⟨h2.lp.trans h1.lp, h2.iss.trans h1.iss, h2.nxt.trans h1.nxt, h2.otext.trans h1.otext,
    h2.rcv.trans h1.rcv, h2.inc.trans h1.inc, h2.ss.trans h1.ss, h2.fs.trans h1.fs, h2.fr.trans h1.fr,
    fun g hg => h1.rtx g (h2.rtx g hg), fun h hh => ?_⟩
  rcases h2.one h hh with hb | ⟨x, y, z⟩
  · exact h1.one h hb
  · exact Or.inr ⟨x, y, z.trans h1.lp⟩

/-- a step that keeps the state and everything else the invariant reads, but for the fields given -/
theorem FrF.of_same {t t' : Tcb} (lp : t'.localPort = t.localPort) (iss : t'.snd.iss = t.snd.iss)
    (nxt : t'.snd.nxt = t.snd.nxt) (otext : t'.outgoing.text = t.outgoing.text) (rcv : t'.rcv = t.rcv)
    (inc : t'.incoming = t.incoming) (st : t'.state = t.state)
    (rtx : ∀ g ∈ t'.outgoing.retransmit.map (·.segment), g ∈ t.outgoing.retransmit.map (·.segment))
    (one : ∀ h ∈ t'.outgoing.oneshot, h ∈ t.outgoing.oneshot ∨
      (h.ctl.syn = false ∧ h.ctl.fin = false ∧ h.srcPort = t.localPort)) : FrF t t' :=
  ⟨lp, iss, nxt, otext, rcv, inc, by rw [st], by unfold finSent; rw [st, otext], by rw [st], rtx, one⟩

section
variable {port : U16} {issX issY : Seq} {subX subY delX : List UInt8} {finY : Bool}

theorem TInvG.of_fr {fx : Bool} {t t' : Tcb} (h : TInvG port issX issY subX subY delX fx finY t) (f : FrF t t') :
    TInvG port issX issY subX subY delX fx finY t' := by
  refine ⟨f.lp.trans h.lp, f.iss.trans h.iss, ?_, fun g hg => h.rtx g (f.rtx g hg), fun x hx => ?_,
    by rw [f.inc]; exact h.heap, fun hs => ?_, fun hs => ?_, fun hr => ?_, fun hs => ?_⟩
  · rw [f.otext, f.nxt]; exact h.out
  · rcases f.one x hx with hx | ⟨a, b, c⟩
    · exact h.one x hx
    · exact ⟨a, b, c.trans h.lp⟩
  · rw [f.inc]; exact h.rcv0 (f.ss.1 hs)
  · rw [f.inc, f.rcv, f.fr]; exact h.rcv1 (fun e => hs (f.ss.2 e))
  · rw [f.inc]; exact h.eof (by rw [← f.fr]; exact hr)
  · rw [f.rcv]; exact h.irs (fun e => hs (f.ss.2 e))

theorem TInvF.of_fr {t t' : Tcb} (h : TInvF port issX issY subX subY delX finY t) (f : FrF t t') :
    TInvF port issX issY subX subY delX finY t' := by
  show TInvG port issX issY subX subY delX (finSent t') finY t'
  rw [f.fs]
  exact TInvG.of_fr h f

theorem TInvF.of_g {fx : Bool} {t : Tcb} (h : TInvG port issX issY subX subY delX fx finY t) (hfx : finSent t = fx) :
    TInvF port issX issY subX subY delX finY t := by
  show TInvG port issX issY subX subY delX (finSent t) finY t
  rw [hfx]; exact h

/-- while the peer has not numbered its FIN its submitted bytes may grow -/
theorem TInvG.mono_peer {fx : Bool} {t : Tcb} (h : TInvG port issX issY subX subY delX fx false t) (more : List UInt8) :
    TInvG port issX issY subX (subY ++ more) delX fx false t :=
  ⟨h.lp, h.iss, h.out, h.rtx, h.one, fun g hg => (h.heap g hg).mono more, h.rcv0,
    fun hs => ⟨(h.rcv1 hs).1, (h.rcv1 hs).2.trans (List.prefix_append _ _)⟩,
    (fun hr => by cases (h.eof hr).2), h.irs⟩

/-- the peer numbers its FIN -/
theorem TInvG.flag_peer {fx : Bool} {t : Tcb} {f f' : Bool} (h : TInvG port issX issY subX subY delX fx f t)
    (hf : f = true → f' = true) : TInvG port issX issY subX subY delX fx f' t :=
  ⟨h.lp, h.iss, h.out, h.rtx, h.one, fun g hg => (h.heap g hg).flag_le hf, h.rcv0, h.rcv1,
    fun hr => ⟨(h.eof hr).1, hf (h.eof hr).2⟩, h.irs⟩

/-- C01's invariant is the special case "nobody has closed" -/
theorem TInvF.of_tinv {t : Tcb} (h : TInv port issX issY subX subY delX t) :
    TInvF port issX issY subX subY delX finY t := by
  have fs := finSent_of_ok3 h.st
  have fr := finRcvd_of_ok3 h.st
  show TInvG port issX issY subX subY delX (finSent t) finY t
  rw [fs]
  refine ⟨h.lp, h.iss, h.out, fun g hg => ⟨ValidF.of_valid (h.rtx g hg).1, (h.rtx g hg).2⟩, h.one,
    fun g hg => ValidF.of_valid (h.heap g hg), h.rcv0, fun hs => ?_, (fun hr => by rw [fr] at hr; cases hr), h.irs⟩
  rw [fr]; exact h.rcv1 hs

theorem TInvG.buffered_prefix {fx : Bool} {t : Tcb} (h : TInvG port issX issY subX subY delX fx finY t) :
    delX ++ t.incoming.text <+: subY := by
  by_cases hs : t.state = .SynSent
  · obtain ⟨a, b⟩ := h.rcv0 hs
    rw [a, b]; exact List.nil_prefix
  · exact (h.rcv1 hs).2

theorem TInvG.delivered_prefix {fx : Bool} {t : Tcb} (h : TInvG port issX issY subX subY delX fx finY t) :
    delX <+: subY :=
  (List.prefix_append _ _).trans h.buffered_prefix

end

/-! ## headers -/

/-- queueing a header without SYN and FIN that carries our port is a frame step -/
theorem FrF.enq (t : Tcb) (h : Hdr) (hp : h.ctl.syn = false ∧ h.ctl.fin = false ∧ h.srcPort = t.localPort) :
    FrF t (t.enqueueBuilt h) := by
  unfold enqueueBuilt
  rw [if_neg (by simp [hp.1, hp.2.1])]
  refine FrF.of_same rfl rfl rfl rfl rfl rfl rfl (fun _ h => h) (fun x hx => ?_)
  simp only [List.mem_append, List.mem_singleton] at hx
  rcases hx with hx | rfl
  · exact Or.inl hx
  · exact Or.inr hp

theorem FrF.enqAck (t : Tcb) : FrF t (t.enqueueBuilt t.ackHdr.built) := FrF.enq t _ (ackHdr_plain t)

end Elvis.Tcp.Fin
