import ElvisVerif.Lemmas.TcbArrive
import ElvisVerif.Model.TcpSys
/-!
# The closed two-endpoint system: RCV.NXT of one side never passes SND.NXT of the other

Invariant `Inv` over `Sys.step` for a single incarnation without forged segments (`Op.Clean`):
for each side `x` with TCB `t` — `SndBelow t`; every history element sent from `x`'s port lies
below `t`'s SND.NXT; when the peer has a TCB `u`, `u`'s RCV.NXT and everything in `u`'s reorder
heap lie below it too.  Before the passive side's TCB exists nothing it has sent occupies
sequence space and the active side is still in SYN-SENT (`fresh`).
-/
namespace Elvis.Tcp
open Tcb

/-! ## bookkeeping about `Sys` -/

theorem SideId.peer_peer (x : SideId) : x.peer.peer = x := by cases x <;> rfl
theorem SideId.peer_ne (x : SideId) : x.peer ≠ x := by cases x <;> simp [SideId.peer]
theorem SideId.port_ne (x : SideId) : x.peer.port ≠ x.port := by cases x <;> decide

private theorem side_setSide_same (s : Sys) (x : SideId) (v : Side) : (s.setSide x v).side x = v := by
  cases x <;> rfl
theorem side_setSide_peer (s : Sys) (x : SideId) (v : Side) : (s.setSide x v).side x.peer = s.side x.peer := by
  cases x <;> rfl
theorem history_setSide (s : Sys) (x : SideId) (v : Side) : (s.setSide x v).history = s.history := by
  cases x <;> rfl
private theorem side_record (s : Sys) (segs : List Segment) (y : SideId) : (s.record segs).side y = s.side y := by
  cases y <;> rfl
theorem mem_history_record (s : Sys) (segs : List Segment) (σ : Segment) :
    σ ∈ (s.record segs).history ↔ σ ∈ segs ∨ σ ∈ s.history := by
  unfold Sys.record; simp

private theorem nth_mem (s : Sys) (i : Nat) (σ : Segment) (h : s.nth i = some σ) : σ ∈ s.history := by
  unfold Sys.nth at h
  split at h
  · exact List.mem_of_getElem? h
  · simp at h

/-- every other side is the peer -/
theorem side_cases (x y : SideId) : y = x ∨ y = x.peer := by cases x <;> cases y <;> simp [SideId.peer]

/-! ## the invariant -/

/-- `x` as sender, its peer as receiver -/
structure Link (sys : Sys) (x : SideId) : Prop where
  snd : ∀ t, (sys.side x).tcb = some t → SndBelow t ∧ t.localPort = x.port ∧ t.remotePort = x.peer.port
  hist : ∀ t, (sys.side x).tcb = some t → ∀ σ ∈ sys.history, σ.hdr.srcPort = x.port →
    SegBelow t.snd.iss t.sent σ
  rcv : ∀ t u, (sys.side x).tcb = some t → (sys.side x.peer).tcb = some u →
    RcvBelow t.snd.iss t.sent u ∧ ∀ σ ∈ u.incoming.segments, SegBelow t.snd.iss t.sent σ
  fresh : (sys.side x).tcb = none → (sys.side x).listen.isSome = true →
    (∀ σ ∈ sys.history, σ.hdr.srcPort = x.port → σ.segLen = 0 ∧ σ.hdr.ctl.syn = false) ∧
    (∀ u, (sys.side x.peer).tcb = some u → u.state = .SynSent ∧
      ∀ σ ∈ u.incoming.segments, σ.segLen = 0 ∧ σ.hdr.ctl.syn = false)

structure Inv (sys : Sys) : Prop where
  link : ∀ x, Link sys x
  ports : ∀ σ ∈ sys.history, (σ.hdr.srcPort = SideId.A.port ∧ σ.hdr.dstPort = SideId.B.port) ∨
    (σ.hdr.srcPort = SideId.B.port ∧ σ.hdr.dstPort = SideId.A.port)
  /-- only the passive side B ever listens -/
  noListenA : sys.a.listen = none

/-- fewer than 2^31 sequence numbers used and queued, on both sides -/
def RoomOk (sys : Sys) : Prop := ∀ x t, (sys.side x).tcb = some t → Room t

/-- a segment without sequence space and without SYN lies below anything -/
theorem segBelow_of_empty (base : Seq) (N : Nat) (σ : Segment) (h : σ.segLen = 0 ∧ σ.hdr.ctl.syn = false) :
    SegBelow base N σ :=
  ⟨fun hs => by rw [h.2] at hs; simp at hs, fun hl => by rw [h.1] at hl; simp at hl⟩

/-! ## a local update of one side's TCB, possibly emitting segments -/

/-- what a local operation (`send`, `receive`, `advance_time`, `segments`, `close`) on `t` leaves
    alone -/
structure Frame (t t' : Tcb) : Prop where
  lp : t'.localPort = t.localPort
  rp : t'.remotePort = t.remotePort
  iss : t'.snd.iss = t.snd.iss
  synsent : t'.state = .SynSent ↔ t.state = .SynSent
  rcv : t'.rcv = t.rcv
  heap : t'.incoming.segments = t.incoming.segments

theorem inv_update (sys : Sys) (hi : Inv sys) (z : SideId) (t t' : Tcb) (sd' : Side) (new : List Segment)
    (ht : (sys.side z).tcb = some t) (hsd : sd'.tcb = some t') (hl : sd'.listen = (sys.side z).listen)
    (fr : Frame t t') (hmono : t.sent ≤ t'.sent) (hb : SndBelow t')
    (hnew : ∀ σ ∈ new, σ.hdr.srcPort = z.port ∧ σ.hdr.dstPort = z.peer.port ∧ SegBelow t.snd.iss t'.sent σ) :
    Inv ((sys.setSide z sd').record new) := by
  have hside : ∀ y, ((sys.setSide z sd').record new).side y = if y = z then sd' else sys.side y := by
    intro y
    rw [side_record]
    rcases side_cases z y with rfl | rfl
    · rw [side_setSide_same]; simp
    · rw [side_setSide_peer, if_neg (SideId.peer_ne _)]
  have hhist : ∀ σ, σ ∈ ((sys.setSide z sd').record new).history ↔ σ ∈ new ∨ σ ∈ sys.history := by
    intro σ; rw [mem_history_record, history_setSide]
  refine ⟨fun x => ?_, ?_, ?_⟩
  · have L := hi.link x
    rcases side_cases z x with rfl | rfl
    · -- x = z: the updated side as sender
      refine ⟨?_, ?_, ?_, ?_⟩
      · intro u hu
        rw [hside, if_pos rfl, hsd] at hu
        cases hu
        obtain ⟨_, p1, p2⟩ := L.snd t ht
        exact ⟨hb, by rw [fr.lp, p1], by rw [fr.rp, p2]⟩
      · intro u hu σ hσ hsrc
        rw [hside, if_pos rfl, hsd] at hu
        cases hu
        rw [fr.iss]
        rcases (hhist σ).1 hσ with h | h
        · exact (hnew σ h).2.2
        · exact (L.hist t ht σ h hsrc).mono hmono
      · intro u w hu hw
        rw [hside, if_pos rfl, hsd] at hu
        cases hu
        rw [hside, if_neg (SideId.peer_ne _)] at hw
        obtain ⟨r1, r2⟩ := L.rcv t w ht hw
        rw [fr.iss]
        exact ⟨fun hne => Nat.le_trans (r1 hne) hmono, fun σ hσ => (r2 σ hσ).mono hmono⟩
      · intro hu
        rw [hside, if_pos rfl, hsd] at hu
        simp at hu
    · -- x = z.peer: the other side as sender, the updated side as receiver
      have hxz : z.peer ≠ z := SideId.peer_ne z
      refine ⟨?_, ?_, ?_, ?_⟩
      · intro u hu
        rw [hside, if_neg hxz] at hu
        exact L.snd u hu
      · intro u hu σ hσ hsrc
        rw [hside, if_neg hxz] at hu
        rcases (hhist σ).1 hσ with h | h
        · exact absurd ((hnew σ h).1.symm.trans hsrc) (by
            intro hp; exact SideId.port_ne z hp.symm)
        · exact L.hist u hu σ h hsrc
      · intro u w hu hw
        rw [hside, if_neg hxz] at hu
        rw [SideId.peer_peer, hside, if_pos rfl, hsd] at hw
        cases hw
        have := L.rcv u t hu (by rw [SideId.peer_peer]; exact ht)
        refine ⟨fun hne => ?_, fun σ hσ => this.2 σ (by rw [fr.heap] at hσ; exact hσ)⟩
        rw [fr.rcv]
        exact this.1 (fun hx => hne (fr.synsent.2 hx))
      · intro hu hlis
        rw [hside, if_neg hxz] at hu hlis
        obtain ⟨f1, f2⟩ := L.fresh hu hlis
        refine ⟨fun σ hσ hsrc => ?_, fun w hw => ?_⟩
        · rcases (hhist σ).1 hσ with h | h
          · exact absurd ((hnew σ h).1.symm.trans hsrc) (by
              intro hp; exact SideId.port_ne z hp.symm)
          · exact f1 σ h hsrc
        · rw [SideId.peer_peer, hside, if_pos rfl, hsd] at hw
          cases hw
          have := f2 t (by rw [SideId.peer_peer]; exact ht)
          exact ⟨fr.synsent.2 this.1, fun σ hσ => this.2 σ (by rw [fr.heap] at hσ; exact hσ)⟩
  · intro σ hσ
    rcases (hhist σ).1 hσ with h | h
    · obtain ⟨h1, h2, _⟩ := hnew σ h
      cases z
      · exact Or.inl ⟨h1, h2⟩
      · exact Or.inr ⟨h1, h2⟩
    · exact hi.ports σ h
  · have := hside .A
    have ha : ((sys.setSide z sd').record new).a = ((sys.setSide z sd').record new).side .A := rfl
    rw [ha, this]
    split
    · rename_i hz; rw [hl, ← hz]; exact hi.noListenA
    · exact hi.noListenA

/-! ## deletion of a TCB -/

theorem inv_delete (sys : Sys) (hi : Inv sys) (z : SideId) (sd' : Side) (hsd : sd'.tcb = none)
    (hl : sd'.listen = none) : Inv (sys.setSide z sd') := by
  have hside : ∀ y, (sys.setSide z sd').side y = if y = z then sd' else sys.side y := by
    intro y
    rcases side_cases z y with rfl | rfl
    · rw [side_setSide_same]; simp
    · rw [side_setSide_peer, if_neg (SideId.peer_ne _)]
  refine ⟨fun x => ?_, by rw [history_setSide]; exact hi.ports, ?_⟩
  · have L := hi.link x
    rcases side_cases z x with rfl | rfl
    · refine ⟨?_, ?_, ?_, ?_⟩
      · intro u hu; rw [hside, if_pos rfl, hsd] at hu; simp at hu
      · intro u hu; rw [hside, if_pos rfl, hsd] at hu; simp at hu
      · intro u w hu; rw [hside, if_pos rfl, hsd] at hu; simp at hu
      · intro _ hlis; rw [hside, if_pos rfl, hl] at hlis; simp at hlis
    · have hxz : z.peer ≠ z := SideId.peer_ne z
      refine ⟨?_, ?_, ?_, ?_⟩
      · intro u hu; rw [hside, if_neg hxz] at hu; exact L.snd u hu
      · intro u hu σ hσ hsrc
        rw [hside, if_neg hxz] at hu
        rw [history_setSide] at hσ
        exact L.hist u hu σ hσ hsrc
      · intro u w _ hw
        rw [SideId.peer_peer, hside, if_pos rfl, hsd] at hw; simp at hw
      · intro hu hlis
        rw [hside, if_neg hxz] at hu hlis
        obtain ⟨f1, _⟩ := L.fresh hu hlis
        refine ⟨fun σ hσ hsrc => f1 σ (by rw [history_setSide] at hσ; exact hσ) hsrc, fun w hw => ?_⟩
        rw [SideId.peer_peer, hside, if_pos rfl, hsd] at hw; simp at hw
  · have ha : (sys.setSide z sd').a = (sys.setSide z sd').side .A := rfl
    rw [ha, hside]
    split
    · exact hl
    · exact hi.noListenA

/-! ## a side without TCB answers (RST) or stays silent -/

theorem inv_respond (sys : Sys) (hi : Inv sys) (z : SideId) (hz : (sys.side z).tcb = none) (new : List Segment)
    (hnew : ∀ σ ∈ new, σ.hdr.srcPort = z.port ∧ σ.hdr.dstPort = z.peer.port ∧ σ.segLen = 0 ∧
      σ.hdr.ctl.syn = false) : Inv (sys.record new) := by
  have hhist : ∀ σ, σ ∈ (sys.record new).history ↔ σ ∈ new ∨ σ ∈ sys.history := mem_history_record sys new
  refine ⟨fun x => ?_, ?_, hi.noListenA⟩
  · have L := hi.link x
    refine ⟨?_, ?_, ?_, ?_⟩
    · intro u hu; rw [side_record] at hu; exact L.snd u hu
    · intro u hu σ hσ hsrc
      rw [side_record] at hu
      rcases (hhist σ).1 hσ with h | h
      · exact segBelow_of_empty _ _ _ (hnew σ h).2.2
      · exact L.hist u hu σ h hsrc
    · intro u w hu hw
      rw [side_record] at hu hw
      exact L.rcv u w hu hw
    · intro hu hlis
      rw [side_record] at hu hlis
      obtain ⟨f1, f2⟩ := L.fresh hu hlis
      refine ⟨fun σ hσ hsrc => ?_, fun w hw => f2 w (by rw [side_record] at hw; exact hw)⟩
      rcases (hhist σ).1 hσ with h | h
      · exact (hnew σ h).2.2
      · exact f1 σ h hsrc
  · intro σ hσ
    rcases (hhist σ).1 hσ with h | h
    · obtain ⟨h1, h2, _⟩ := hnew σ h
      cases z
      · exact Or.inl ⟨h1, h2⟩
      · exact Or.inr ⟨h1, h2⟩
    · exact hi.ports σ h

/-! ## a segment arrives at a side that has a TCB -/

theorem inv_arrive_tcb (sys : Sys) (hi : Inv sys) (hroom : RoomOk sys) (z : SideId) (u u' : Tcb) (σ : Segment)
    (hu : (sys.side z).tcb = some u) (hσ : σ ∈ sys.history) (hsrc : σ.hdr.srcPort = z.peer.port)
    (e : u.segmentArrives σ = .ok (u', .Ok)) (sd' : Side) (hsd : sd'.tcb = some u')
    (hl : sd'.listen = (sys.side z).listen) : Inv (sys.setSide z sd') := by
  have hside : ∀ y, (sys.setSide z sd').side y = if y = z then sd' else sys.side y := by
    intro y
    rcases side_cases z y with rfl | rfl
    · rw [side_setSide_same]; simp
    · rw [side_setSide_peer, if_neg (SideId.peer_ne _)]
  have k := segmentArrives_snd u σ u' .Ok e
  have hsent : u'.sent = u.sent := sent_congr k.iss k.nxt
  refine ⟨fun x => ?_, by rw [history_setSide]; exact hi.ports, ?_⟩
  · have L := hi.link x
    rcases side_cases z x with rfl | rfl
    · -- the receiving side as sender: nothing it has sent changes
      refine ⟨?_, ?_, ?_, ?_⟩
      · intro t ht
        rw [hside, if_pos rfl, hsd] at ht
        cases ht
        obtain ⟨b, p1, p2⟩ := L.snd u hu
        exact ⟨k.below b, by rw [k.lp, p1], by rw [k.rp, p2]⟩
      · intro t ht τ hτ hs
        rw [hside, if_pos rfl, hsd] at ht
        cases ht
        rw [history_setSide] at hτ
        rw [k.iss, hsent]
        exact L.hist u hu τ hτ hs
      · intro t w ht hw
        rw [hside, if_pos rfl, hsd] at ht
        cases ht
        rw [hside, if_neg (SideId.peer_ne _)] at hw
        rw [k.iss, hsent]
        exact L.rcv u w hu hw
      · intro ht
        rw [hside, if_pos rfl, hsd] at ht
        simp at ht
    · -- the peer as sender, the receiving side as receiver
      have hxz : z.peer ≠ z := SideId.peer_ne z
      refine ⟨?_, ?_, ?_, ?_⟩
      · intro t ht; rw [hside, if_neg hxz] at ht; exact L.snd t ht
      · intro t ht τ hτ hs
        rw [hside, if_neg hxz] at ht
        rw [history_setSide] at hτ
        exact L.hist t ht τ hτ hs
      · intro t w ht hw
        rw [hside, if_neg hxz] at ht
        rw [SideId.peer_peer, hside, if_pos rfl, hsd] at hw
        cases hw
        obtain ⟨r1, r2⟩ := L.rcv t u ht (by rw [SideId.peer_peer]; exact hu)
        have hN : t.sent < 2147483648 := by
          have := hroom z.peer t ht
          unfold Room at this; omega
        obtain ⟨st, hh'⟩ := segmentArrives_rcv u σ u' e t.snd.iss t.sent hN r1 (L.hist t ht σ hσ hsrc) r2
        exact ⟨st.below, hh'⟩
      · intro ht hlis
        rw [hside, if_neg hxz] at ht hlis
        obtain ⟨f1, f2⟩ := L.fresh ht hlis
        refine ⟨fun τ hτ hs => f1 τ (by rw [history_setSide] at hτ; exact hτ) hs, fun w hw => ?_⟩
        rw [SideId.peer_peer, hside, if_pos rfl, hsd] at hw
        cases hw
        obtain ⟨g1, g2⟩ := f2 u (by rw [SideId.peer_peer]; exact hu)
        have hσ0 := f1 σ hσ hsrc
        refine ⟨segmentArrives_synsent_stays u σ u' e g1 hσ0.2 (fun x hx => (g2 x hx).2), fun x hx => ?_⟩
        rcases List.mem_cons.1 (segmentArrives_heap_sub u σ u' .Ok e x hx) with rfl | h
        · exact hσ0
        · exact g2 x h
  · have ha : (sys.setSide z sd').a = (sys.setSide z sd').side .A := rfl
    rw [ha, hside]
    split
    · rename_i hz; rw [hl, ← hz]; exact hi.noListenA
    · exact hi.noListenA

/-! ## the passive side creates its TCB -/

theorem inv_create (sys : Sys) (hi : Inv sys) (z : SideId) (iss : Seq) (mtu : U16) (σ : Segment) (tcb : Tcb)
    (hz : (sys.side z).tcb = none) (hlis : (sys.side z).listen = some (iss, mtu))
    (hσ : σ ∈ sys.history) (hsrc : σ.hdr.srcPort = z.peer.port) (hdst : σ.hdr.dstPort = z.port)
    (e : segmentArrivesListen σ iss mtu = .ok (some (.Tcb tcb))) (sd' : Side) (hsd : sd'.tcb = some tcb)
    (hl : sd'.listen = (sys.side z).listen) : Inv (sys.setSide z sd') := by
  have hside : ∀ y, (sys.setSide z sd').side y = if y = z then sd' else sys.side y := by
    intro y
    rcases side_cases z y with rfl | rfl
    · rw [side_setSide_same]; simp
    · rw [side_setSide_peer, if_neg (SideId.peer_ne _)]
  obtain ⟨cb, ciss, csent, clp, crp, cst, cnxt, csyn, σ', cheap, cseq, csyn', clen⟩ := listen_create σ iss mtu tcb e
  have hzB : z = .B := by
    cases z with
    | A =>
      have : sys.a.listen = some (iss, mtu) := hlis
      rw [hi.noListenA] at this; simp at this
    | B => rfl
  have Lz := hi.link z
  obtain ⟨f1, f2⟩ := Lz.fresh hz (by rw [hlis]; rfl)
  refine ⟨fun x => ?_, by rw [history_setSide]; exact hi.ports, ?_⟩
  · rcases side_cases z x with rfl | rfl
    · refine ⟨?_, ?_, ?_, ?_⟩
      · intro t ht
        rw [hside, if_pos rfl, hsd] at ht
        cases ht
        exact ⟨cb, by rw [clp, hdst], by rw [crp, hsrc]⟩
      · intro t ht τ hτ hs
        rw [hside, if_pos rfl, hsd] at ht
        cases ht
        rw [history_setSide] at hτ
        exact segBelow_of_empty _ _ _ (f1 τ hτ hs)
      · intro t w ht hw
        rw [hside, if_pos rfl, hsd] at ht
        cases ht
        rw [hside, if_neg (SideId.peer_ne _)] at hw
        obtain ⟨g1, g2⟩ := f2 w hw
        exact ⟨fun hne => absurd g1 hne, fun x hx => segBelow_of_empty _ _ _ (g2 x hx)⟩
      · intro ht
        rw [hside, if_pos rfl, hsd] at ht
        simp at ht
    · have hxz : z.peer ≠ z := SideId.peer_ne z
      have L := hi.link z.peer
      refine ⟨?_, ?_, ?_, ?_⟩
      · intro t ht; rw [hside, if_neg hxz] at ht; exact L.snd t ht
      · intro t ht τ hτ hs
        rw [hside, if_neg hxz] at ht
        rw [history_setSide] at hτ
        exact L.hist t ht τ hτ hs
      · intro t w ht hw
        rw [hside, if_neg hxz] at ht
        rw [SideId.peer_peer, hside, if_pos rfl, hsd] at hw
        cases hw
        have hv := L.hist t ht σ hσ hsrc
        have hbase := hv.syn csyn
        have hpos : 0 < σ.segLen := by unfold Segment.segLen; rw [csyn]; simp only [Bool.toNat_true]; omega
        have hlen := hv.len hpos
        have o0 : off t.snd.iss σ.hdr.seq = 0 := by rw [hbase]; exact off_self _
        rw [o0] at hlen
        refine ⟨fun _ => ?_, fun x hx => ?_⟩
        · rw [cnxt, hbase, off_add_one _ _ (by rw [off_self]; omega), off_self]
          omega
        · rw [cheap] at hx
          simp only [List.mem_singleton] at hx
          subst hx
          refine ⟨fun h => by rw [csyn'] at h; simp at h, fun _ => ?_⟩
          rw [cseq, o0]
          omega
      · intro ht hlis'
        rw [hside, if_neg hxz] at ht hlis'
        -- the peer of B is A, which never listens
        subst hzB
        have : sys.a.listen.isSome = true := hlis'
        rw [hi.noListenA] at this; simp at this
  · have ha : (sys.setSide z sd').a = (sys.setSide z sd').side .A := rfl
    rw [ha, hside, hzB]
    rw [if_neg (by decide)]
    exact hi.noListenA

/-! ## local operations -/

theorem sndBelow_of_frame {t t' : Tcb} (h : SndBelow t) (h1 : t'.snd.iss = t.snd.iss) (h2 : t'.snd.nxt = t.snd.nxt)
    (h3 : ∀ x ∈ t'.outgoing.retransmit, ∃ y ∈ t.outgoing.retransmit, y.segment = x.segment)
    (h4 : t'.outgoing.oneshot = t.outgoing.oneshot) (h5 : t'.localPort = t.localPort)
    (h6 : t'.remotePort = t.remotePort) : SndBelow t' := by
  have hs : t'.sent = t.sent := sent_congr h1 h2
  refine ⟨by rw [hs]; exact h.pos, fun x hx => ?_, fun x hx => h.plain x (by rw [h4] at hx; exact hx),
    fun x hx => ?_, fun x hx => by rw [h5, h6]; exact h.oports x (by rw [h4] at hx; exact hx)⟩
  · obtain ⟨y, hy, hxy⟩ := h3 x hx
    rw [hs, h1, ← hxy]; exact h.queue y hy
  · obtain ⟨y, hy, hxy⟩ := h3 x hx
    rw [h5, h6, ← hxy]; exact h.qports y hy

theorem send_local (t : Tcb) (m : List UInt8) :
    Frame t (t.send m) ∧ (t.send m).sent = t.sent ∧ (SndBelow t → SndBelow (t.send m)) := by
  unfold send
  split <;> exact ⟨⟨rfl, rfl, rfl, Iff.rfl, rfl, rfl⟩, rfl,
    fun h => sndBelow_of_frame h rfl rfl (fun x hx => ⟨x, hx, rfl⟩) rfl rfl rfl⟩

theorem receive_local (t : Tcb) :
    Frame t t.receive.1 ∧ t.receive.1.sent = t.sent ∧ (SndBelow t → SndBelow t.receive.1) := by
  unfold receive
  split <;> exact ⟨⟨rfl, rfl, rfl, Iff.rfl, rfl, rfl⟩, rfl,
    fun h => sndBelow_of_frame h rfl rfl (fun x hx => ⟨x, hx, rfl⟩) rfl rfl rfl⟩

theorem advanceTime_local (t : Tcb) (dt : Nat) (t' : Tcb) (e : t.advanceTime dt = .ok (t', .Ignore)) :
    Frame t t' ∧ t'.sent = t.sent ∧ (SndBelow t → SndBelow t') := by
  unfold advanceTime at e
  cases h1 : t.advanceRetransmission dt with
  | error err => rw [h1] at e; simp at e
  | ok t1 =>
    rw [h1] at e
    dsimp only at e
    have k1 : Frame t t1 ∧ t1.sent = t.sent ∧ (SndBelow t → SndBelow t1) := by
      unfold advanceRetransmission at h1
      split at h1
      · cases h1
        refine ⟨⟨rfl, rfl, rfl, Iff.rfl, rfl, rfl⟩, rfl, fun h => sndBelow_of_frame h rfl rfl (fun x hx => ?_) rfl rfl rfl⟩
        obtain ⟨y, hy, rfl⟩ := List.mem_map.1 hx
        exact ⟨y, hy, rfl⟩
      · cases h1
        exact ⟨⟨rfl, rfl, rfl, Iff.rfl, rfl, rfl⟩, rfl,
          fun h => sndBelow_of_frame h rfl rfl (fun x hx => ⟨x, hx, rfl⟩) rfl rfl rfl⟩
    have lift : ∀ t2 : Tcb, t2.localPort = t1.localPort → t2.remotePort = t1.remotePort → t2.snd = t1.snd →
        t2.state = t1.state → t2.rcv = t1.rcv → t2.incoming = t1.incoming → t2.outgoing = t1.outgoing →
        Frame t t2 ∧ t2.sent = t.sent ∧ (SndBelow t → SndBelow t2) := by
      intro t2 a b c d f g o
      obtain ⟨fr, hs, hb⟩ := k1
      refine ⟨⟨a.trans fr.lp, b.trans fr.rp, by rw [c]; exact fr.iss, by rw [d]; exact fr.synsent,
        f.trans fr.rcv, by rw [g]; exact fr.heap⟩, by unfold sent at hs ⊢; rw [c]; exact hs, fun h => ?_⟩
      exact sndBelow_of_frame (hb h) (by rw [c]) (by rw [c]) (fun x hx => ⟨x, by rw [o] at hx; exact hx, rfl⟩)
        (by rw [o]) a b
    split at e
    · split at e
      · simp at e
      · simp only [Except.ok.injEq, Prod.mk.injEq, and_true] at e
        subst e
        exact lift _ rfl rfl rfl rfl rfl rfl rfl
    · simp only [Except.ok.injEq, Prod.mk.injEq, and_true] at e
      subst e
      exact k1

theorem segmentize_rx (maxSeg fuel : Nat) (s : Tcb) (q : Nat) (s' : Tcb)
    (e : segmentize maxSeg fuel s q = .ok s') : s'.rcv = s.rcv ∧ s'.incoming = s.incoming := by
  induction fuel generalizing s q with
  | zero => unfold segmentize at e; cases e; exact ⟨rfl, rfl⟩
  | succ n ih =>
    unfold segmentize at e
    dsimp only at e
    split at e
    · cases e; exact ⟨rfl, rfl⟩
    · split at e
      · simp at e
      · have := ih _ _ e
        exact ⟨this.1, this.2⟩

theorem queueFin_rx (s s' : Tcb) (e : s.queueFin = .ok s') : s'.rcv = s.rcv ∧ s'.incoming = s.incoming := by
  unfold queueFin at e
  split at e
  · rw [enqueue_eq] at e
    dsimp only at e
    cases e
    exact ⟨by simp only [(enqueueBuilt_frame _ _).2.1], by simp only [(enqueueBuilt_frame _ _).2.2.2.1]⟩
  · cases e; exact ⟨rfl, rfl⟩

theorem segments_rx (s s' : Tcb) (out : List Segment) (e : s.segments = .ok (s', out)) :
    s'.rcv = s.rcv ∧ s'.incoming = s.incoming := by
  unfold segments at e
  dsimp only at e
  cases h1 : segmentizeIfOpen { s with outgoing.oneshot := [] } with
  | error err => rw [h1] at e; simp at e
  | ok s1 =>
    rw [h1] at e
    dsimp only at e
    have k1 : s1.rcv = s.rcv ∧ s1.incoming = s.incoming := by
      unfold segmentizeIfOpen at h1
      split at h1
      all_goals first
        | (cases h1; exact ⟨rfl, rfl⟩)
        | (split at h1
           · simp at h1
           · have := segmentize_rx _ _ _ _ _ h1
             exact this)
    cases h2 : finIfPending s.finPending s1 with
    | error err => rw [h2] at e; simp at e
    | ok s2 =>
      rw [h2] at e
      dsimp only at e
      have k2 : s2.rcv = s1.rcv ∧ s2.incoming = s1.incoming := by
        unfold finIfPending at h2
        split at h2
        · exact queueFin_rx _ _ h2
        · cases h2; exact ⟨rfl, rfl⟩
      simp only [Except.ok.injEq, Prod.mk.injEq] at e
      obtain ⟨hs', _⟩ := e
      rw [← hs']
      split <;> exact ⟨k2.1.trans k1.1, k2.2.trans k1.2⟩

theorem close_synsent (s s' : Tcb) (r : CloseResult) (e : s.close = .ok (s', r)) :
    s'.state = .SynSent ↔ s.state = .SynSent := by
  obtain ⟨s1, r1, e1, _, st1⟩ := close_spec s
  rw [e1] at e
  cases e
  refine ⟨st1, fun h => ?_⟩
  unfold close at e1
  rw [h] at e1
  cases e1
  exact h

/-! ## one step of the system -/

/-- ops of a single incarnation without forged segments: deliveries hand a history element to
    the side it is addressed to (as `Tcp::demux` routes by the endpoint pair) -/
def Op.Clean (sys : Sys) : Op → Prop
  | .deliver x i => ∀ σ, sys.nth i = some σ → σ.hdr.srcPort = x.peer.port ∧ σ.hdr.dstPort = x.port
  | .write .. => True
  | .read _ => True
  | .tick .. => True
  | .emit _ => True
  | .close _ => True
  | _ => False

theorem hdr_build_some {h hd : Hdr} {n : Nat} (hb : h.build n = some hd) : hd = h.built := by
  unfold Hdr.build at hb
  split at hb
  · simp at hb
  · simp only [Option.some.injEq] at hb
    exact hb.symm

theorem record_nil (s : Sys) : s.record [] = s := by
  cases s; simp [Sys.record]

/-- `inv_update` without emission -/
theorem inv_update0 (sys : Sys) (hi : Inv sys) (z : SideId) (t t' : Tcb) (sd' : Side)
    (ht : (sys.side z).tcb = some t) (hsd : sd'.tcb = some t') (hl : sd'.listen = (sys.side z).listen)
    (fr : Frame t t') (hmono : t.sent ≤ t'.sent) (hb : SndBelow t') : Inv (sys.setSide z sd') := by
  have := inv_update sys hi z t t' sd' [] ht hsd hl fr hmono hb (fun σ h => by simp at h)
  rw [record_nil] at this
  exact this

theorem inv_arrive (sys : Sys) (hi : Inv sys) (hroom : RoomOk sys) (x : SideId) (σ : Segment)
    (hσ : σ ∈ sys.history) (hsrc : σ.hdr.srcPort = x.peer.port) (hdst : σ.hdr.dstPort = x.port)
    (sys' : Sys) (r : Res) (e : sys.arrive x σ = .ok (sys', r)) : Inv sys' := by
  unfold Sys.arrive at e
  dsimp only at e
  split at e
  · rename_i tcb htcb
    split at e
    · simp at e
    · rename_i tcb' h1
      simp only [Except.ok.injEq, Prod.mk.injEq] at e
      rw [← e.1]
      exact inv_arrive_tcb sys hi hroom x tcb tcb' σ htcb hσ hsrc h1 _ rfl rfl
    · simp only [Except.ok.injEq, Prod.mk.injEq] at e
      rw [← e.1]
      exact inv_delete sys hi x _ rfl rfl
  · rename_i htcb
    split at e
    · rename_i iss mtu hlis
      split at e
      · simp at e
      · simp only [Except.ok.injEq, Prod.mk.injEq] at e
        rw [← e.1]; exact hi
      · rename_i tcb h1
        simp only [Except.ok.injEq, Prod.mk.injEq] at e
        rw [← e.1]
        exact inv_create sys hi x iss mtu σ tcb htcb hlis hσ hsrc hdst h1 _ rfl rfl
      · rename_i h h1
        simp only [Except.ok.injEq, Prod.mk.injEq] at e
        rw [← e.1]
        refine inv_respond sys hi x htcb _ (fun τ hτ => ?_)
        simp only [List.mem_singleton] at hτ
        subst hτ
        -- the reply of LISTEN to an ACK-bearing segment: RST at SEG.ACK, ports swapped
        unfold segmentArrivesListen at h1
        dsimp only at h1
        split at h1
        · simp at h1
        · split at h1
          · simp only [Except.ok.injEq] at h1
            cases hb : (Hdr.builder σ.hdr.dstPort σ.hdr.srcPort σ.hdr.ack).withRst.build 0 with
            | none => rw [hb] at h1; simp at h1
            | some h' =>
              rw [hb] at h1
              simp only [Option.map_some, Option.some.injEq, ListenResult.Response.injEq] at h1
              subst h1
              have := hdr_build_some hb
              subst this
              exact ⟨hdst, hsrc, rfl, rfl⟩
          · split at h1
            · rw [Tcb.enqueue_eq] at h1
              simp at h1
            · simp at h1
    · rename_i hlis
      split at e
      · simp only [Except.ok.injEq, Prod.mk.injEq] at e
        rw [← e.1]; exact hi
      · rename_i h h1
        simp only [Except.ok.injEq, Prod.mk.injEq] at e
        rw [← e.1]
        refine inv_respond sys hi x htcb _ (fun τ hτ => ?_)
        simp only [List.mem_singleton] at hτ
        subst hτ
        unfold segmentArrivesClosed at h1
        split at h1
        · simp at h1
        · split at h1
          · have := hdr_build_some h1
            subst this
            exact ⟨hdst, hsrc, rfl, rfl⟩
          · have := hdr_build_some h1
            subst this
            exact ⟨hdst, hsrc, rfl, rfl⟩

/-- **one step keeps the invariant** -/
theorem inv_step (sys : Sys) (hi : Inv sys) (hroom : RoomOk sys) (op : Op) (hc : Op.Clean sys op)
    (sys' : Sys) (r : Res) (e : sys.step op = .ok (sys', r)) : Inv sys' := by
  cases op with
  | «open» x iss mtu => exact absurd hc (by simp [Op.Clean])
  | listen x iss mtu => exact absurd hc (by simp [Op.Clean])
  | inject x seg => exact absurd hc (by simp [Op.Clean])
  | abort x => exact absurd hc (by simp [Op.Clean])
  | drop x => exact absurd hc (by simp [Op.Clean])
  | deliver x i =>
    simp only [Sys.step] at e
    split at e
    · simp only [Except.ok.injEq, Prod.mk.injEq] at e
      rw [← e.1]; exact hi
    · rename_i σ hn
      obtain ⟨h1, h2⟩ := hc σ hn
      exact inv_arrive sys hi hroom x σ (nth_mem sys i σ hn) h1 h2 sys' r e
  | write x bytes =>
    simp only [Sys.step, Op.side] at e
    split at e
    · simp only [Except.ok.injEq, Prod.mk.injEq] at e
      rw [← e.1]; exact hi
    · rename_i tcb htcb
      simp only [Except.ok.injEq, Prod.mk.injEq] at e
      rw [← e.1]
      obtain ⟨fr, hs, hb⟩ := send_local tcb bytes
      exact inv_update0 sys hi x tcb (tcb.send bytes) _ htcb rfl rfl fr (by rw [hs]; exact Nat.le_refl _)
        (hb ((hi.link x).snd tcb htcb).1)
  | read x =>
    simp only [Sys.step, Op.side] at e
    split at e
    · simp only [Except.ok.injEq, Prod.mk.injEq] at e
      rw [← e.1]; exact hi
    · rename_i tcb htcb
      simp only [Except.ok.injEq, Prod.mk.injEq] at e
      rw [← e.1]
      obtain ⟨fr, hs, hb⟩ := receive_local tcb
      exact inv_update0 sys hi x tcb tcb.receive.1 _ htcb rfl rfl fr (by rw [hs]; exact Nat.le_refl _)
        (hb ((hi.link x).snd tcb htcb).1)
  | tick x ms =>
    simp only [Sys.step, Op.side] at e
    split at e
    · simp only [Except.ok.injEq, Prod.mk.injEq] at e
      rw [← e.1]; exact hi
    · rename_i tcb htcb
      split at e
      · simp at e
      · rename_i tcb' h1
        simp only [Except.ok.injEq, Prod.mk.injEq] at e
        rw [← e.1]
        obtain ⟨fr, hs, hb⟩ := advanceTime_local tcb ms tcb' h1
        exact inv_update0 sys hi x tcb tcb' _ htcb rfl rfl fr (by rw [hs]; exact Nat.le_refl _)
          (hb ((hi.link x).snd tcb htcb).1)
      · simp only [Except.ok.injEq, Prod.mk.injEq] at e
        rw [← e.1]
        exact inv_delete sys hi x _ rfl rfl
  | emit x =>
    simp only [Sys.step, Op.side] at e
    split at e
    · simp only [Except.ok.injEq, Prod.mk.injEq] at e
      rw [← e.1]; exact hi
    · rename_i tcb htcb
      split at e
      · simp at e
      · rename_i tcb' segs h1
        simp only [Except.ok.injEq, Prod.mk.injEq] at e
        rw [← e.1]
        obtain ⟨b0, p1, p2⟩ := (hi.link x).snd tcb htcb
        obtain ⟨i1, m1, b1, o1, _, lp1, rp1⟩ := segments_snd tcb tcb' segs h1 b0 (hroom x tcb htcb)
        have rx := segments_rx tcb tcb' segs h1
        have kp := segments_keep tcb tcb' segs h1
        exact inv_update sys hi x tcb tcb' _ segs htcb rfl rfl
          ⟨lp1, rp1, i1, by rw [kp.state], rx.1, by rw [rx.2]⟩ m1 b1
          (fun σ hσ => ⟨by rw [(o1 σ hσ).2.1, p1], by rw [(o1 σ hσ).2.2, p2], (o1 σ hσ).1⟩)
  | close x =>
    simp only [Sys.step, Op.side] at e
    split at e
    · simp only [Except.ok.injEq, Prod.mk.injEq] at e
      rw [← e.1]; exact hi
    · rename_i tcb htcb
      split at e
      · simp at e
      · rename_i tcb' r' h1
        simp only [Except.ok.injEq, Prod.mk.injEq] at e
        rw [← e.1]
        obtain ⟨b0, p1, p2⟩ := (hi.link x).snd tcb htcb
        have g := close_snd tcb tcb' r' h1
        obtain ⟨s1, r1, e1, same1, _⟩ := close_spec tcb
        rw [e1] at h1
        cases h1
        exact inv_update0 sys hi x tcb tcb' _ htcb rfl rfl
          ⟨g.lp, g.rp, g.iss, close_synsent tcb tcb' r' e1, same1.rcv, by rw [same1.incoming]⟩
          (g.mono (hroom x tcb htcb)) (g.below b0 (hroom x tcb htcb))

/-! ## runs -/

/-- a run of clean ops; before every step both endpoints have room below 2^31 sequence numbers -/
inductive CleanRun : Sys → Sys → Prop
  | refl (s : Sys) : CleanRun s s
  | step {s s1 s2 : Sys} {op : Op} {r : Res} : CleanRun s s1 → RoomOk s1 → Op.Clean s1 op →
      s1.step op = .ok (s2, r) → CleanRun s s2

theorem inv_run {s s' : Sys} (h : Inv s) (r : CleanRun s s') : Inv s' := by
  induction r with
  | refl => exact h
  | step _ hroom hc e ih => exact inv_step _ ih hroom _ hc _ _ e

theorem CleanRun.head {s s1 s2 : Sys} {op : Op} {r : Res} (hroom : RoomOk s) (hc : Op.Clean s op)
    (e : s.step op = .ok (s1, r)) (h : CleanRun s1 s2) : CleanRun s s2 := by
  induction h with
  | refl => exact .step (.refl _) hroom hc e
  | step _ hr hcl he ih => exact .step ih hr hcl he

/-! ### an executable checker for clean runs (for concrete examples) -/

def roomB (sys : Sys) : Bool :=
  [SideId.A, SideId.B].all fun x =>
    match (sys.side x).tcb with
    | none => true
    | some t => decide (t.sent + t.outgoing.text.length + 1 < 2147483648)

def cleanB (sys : Sys) : Op → Bool
  | .deliver x i =>
    match sys.nth i with
    | none => true
    | some σ => σ.hdr.srcPort == x.peer.port && σ.hdr.dstPort == x.port
  | .write .. => true
  | .read _ => true
  | .tick .. => true
  | .emit _ => true
  | .close _ => true
  | _ => false

def cleanRunB : Sys → List Op → Option Sys
  | s, [] => some s
  | s, op :: ops =>
    if roomB s && cleanB s op then
      match s.step op with
      | .ok (s', _) => cleanRunB s' ops
      | .error _ => none
    else none

theorem roomB_sound (sys : Sys) (h : roomB sys = true) : RoomOk sys := by
  intro x t ht
  unfold roomB at h
  simp only [List.all_cons, List.all_nil, Bool.and_true, Bool.and_eq_true] at h
  unfold Room
  cases x with
  | A => have := h.1; rw [ht] at this; simpa using this
  | B => have := h.2; rw [ht] at this; simpa using this

theorem cleanB_sound (sys : Sys) (op : Op) (h : cleanB sys op = true) : Op.Clean sys op := by
  cases op <;> simp only [cleanB, Op.Clean] at h ⊢ <;> try trivial
  · intro σ hσ
    rw [hσ] at h
    simpa using h
  all_goals exact absurd h (by simp)

theorem cleanRunB_sound (s s' : Sys) (ops : List Op) (h : cleanRunB s ops = some s') : CleanRun s s' := by
  induction ops generalizing s with
  | nil => simp only [cleanRunB, Option.some.injEq] at h; subst h; exact .refl _
  | cons op ops ih =>
    unfold cleanRunB at h
    split at h
    · rename_i hc
      simp only [Bool.and_eq_true] at hc
      split at h
      · rename_i s1 r e
        exact CleanRun.head (roomB_sound s hc.1) (cleanB_sound s op hc.2) e (ih s1 h)
      · simp at h
    · simp at h

/-! ## the two ways the closed system starts -/

theorem inv_empty_link (sys : Sys) (x : SideId) (hx : (sys.side x).tcb = none)
    (hl : (sys.side x).listen = none) : Link sys x :=
  ⟨fun t ht => by rw [hx] at ht; simp at ht, fun t ht => by rw [hx] at ht; simp at ht,
   fun t u ht => by rw [hx] at ht; simp at ht, fun _ h => by rw [hl] at h; simp at h⟩

/-- active open by A, passive open (listen binding) by B -/
theorem inv_init_active_passive (ia ib : Seq) (ma mb : U16) (sys : Sys) (rs : List Res)
    (e : Sys.run {} [.open .A ia ma, .listen .B ib mb] = .ok (sys, rs)) : Inv sys := by
  simp only [Sys.run, Sys.step, Op.side] at e
  cases h1 : Tcb.open SideId.A.port SideId.A.peer.port ia ma with
  | error err => rw [h1] at e; simp at e
  | ok t =>
    rw [h1] at e
    simp only [Except.ok.injEq, Prod.mk.injEq] at e
    obtain ⟨b, _, _, lp, rp, st, hp⟩ := open_snd _ _ _ _ _ h1
    rw [← e.1]
    refine ⟨fun x => ?_, fun σ h => by simp [Sys.setSide] at h, rfl⟩
    cases x with
    | A =>
      refine ⟨fun u hu => ?_, fun u _ σ h => by simp [Sys.setSide] at h, fun u w _ hw => ?_, fun h => ?_⟩
      · simp [Sys.setSide, Sys.side] at hu; subst hu; exact ⟨b, lp, rp⟩
      · simp [Sys.setSide, Sys.side, SideId.peer] at hw
      · simp [Sys.setSide, Sys.side] at h
    | B =>
      refine ⟨fun u hu => by simp [Sys.setSide, Sys.side] at hu, fun u hu => by simp [Sys.setSide, Sys.side] at hu,
        fun u w hu => by simp [Sys.setSide, Sys.side] at hu, fun _ _ => ⟨fun σ h => by simp [Sys.setSide] at h, fun u hu => ?_⟩⟩
      simp [Sys.setSide, Sys.side, SideId.peer] at hu
      subst hu
      exact ⟨st, fun σ hσ => by rw [hp] at hσ; simp at hσ⟩

/-- simultaneous open: both sides open actively -/
theorem inv_init_simultaneous (ia ib : Seq) (ma mb : U16) (sys : Sys) (rs : List Res)
    (e : Sys.run {} [.open .A ia ma, .open .B ib mb] = .ok (sys, rs)) : Inv sys := by
  simp only [Sys.run, Sys.step, Op.side] at e
  cases h1 : Tcb.open SideId.A.port SideId.A.peer.port ia ma with
  | error err => rw [h1] at e; simp at e
  | ok ta =>
    rw [h1] at e
    dsimp only at e
    cases h2 : Tcb.open SideId.B.port SideId.B.peer.port ib mb with
    | error err => rw [h2] at e; simp at e
    | ok tb =>
      rw [h2] at e
      simp only [Except.ok.injEq, Prod.mk.injEq] at e
      obtain ⟨ba, _, _, lpa, rpa, sta, hpa⟩ := open_snd _ _ _ _ _ h1
      obtain ⟨bb, _, _, lpb, rpb, stb, hpb⟩ := open_snd _ _ _ _ _ h2
      rw [← e.1]
      refine ⟨fun x => ?_, fun σ h => by simp [Sys.setSide] at h, rfl⟩
      cases x with
      | A =>
        refine ⟨fun u hu => ?_, fun u _ σ h => by simp [Sys.setSide] at h, fun u w hu hw => ?_, fun h => ?_⟩
        · simp [Sys.setSide, Sys.side] at hu; subst hu; exact ⟨ba, lpa, rpa⟩
        · simp [Sys.setSide, Sys.side, SideId.peer] at hw
          subst hw
          exact ⟨fun hne => absurd stb hne, fun σ hσ => by rw [hpb] at hσ; simp at hσ⟩
        · simp [Sys.setSide, Sys.side] at h
      | B =>
        refine ⟨fun u hu => ?_, fun u _ σ h => by simp [Sys.setSide] at h, fun u w hu hw => ?_, fun h => ?_⟩
        · simp [Sys.setSide, Sys.side] at hu; subst hu; exact ⟨bb, lpb, rpb⟩
        · simp [Sys.setSide, Sys.side, SideId.peer] at hw
          subst hw
          exact ⟨fun hne => absurd sta hne, fun σ hσ => by rw [hpa] at hσ; simp at hσ⟩
        · simp [Sys.setSide, Sys.side] at h

/-- **what the invariant says about two synchronised endpoints** -/
theorem inv_rcv_le_snd (sys : Sys) (hi : Inv sys) (hroom : RoomOk sys) (x : SideId) (t u : Tcb)
    (ht : (sys.side x).tcb = some t) (hu : (sys.side x.peer).tcb = some u) (hs : u.state ≠ .SynSent) :
    off t.snd.iss u.rcv.nxt ≤ off t.snd.iss t.snd.nxt ∧ off t.snd.iss t.snd.nxt < 2147483648 ∧
      ModCmp.modGt u.rcv.nxt t.snd.nxt = false := by
  have h1 := ((hi.link x).rcv t u ht hu).1 hs
  have h2 : t.sent < 2147483648 := by
    have := hroom x t ht
    unfold Room at this; omega
  refine ⟨h1, h2, ?_⟩
  cases hm : ModCmp.modGt u.rcv.nxt t.snd.nxt with
  | false => rfl
  | true =>
    have := (modGt_iff_off t.snd.iss u.rcv.nxt t.snd.nxt (by unfold sent at h1 h2; omega) h2).1 hm
    unfold sent at h1
    omega

end Elvis.Tcp
