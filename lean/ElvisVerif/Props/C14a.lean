import ElvisVerif.Model.Codec.Ipv4
import ElvisVerif.Model.Codec.Udp
import ElvisVerif.Model.Codec.Tcp
/-!
# C14 (decoder totality, IPv4 / UDP / TCP) — no byte string makes a decoder panic

`Res.isPanic r = false` says `r` is a value or a *reported* error.  The models carry every
panic site of the dev profile as `Fail.panic`; the three `from_bytes` functions contain none
(all their arithmetic is shifts, masks and comparisons), so totality is proved by running
through every branch.  For every byte string, every `packet_len` and every address pair, with
the `compute_checksum` feature on or off.
The panic sites next to the decoders are covered too: `Ipv4Header::serialize` on a decoded
header (`c08_ipv4_reserialize_no_panic`, Props/C08.lean), `TcpHeader::bytes` on a decoded header
(`c08_tcp_header_bytes`), the `TypeOfService` accessors (`c08_ipv4_tos_accessors_total`).
-/
namespace Elvis.Codec

theorem c14_ipv4_total (ck : Bool) (bs : List UInt8) : (Ipv4.fromBytes ck bs).isPanic = false := by
  simp only [Ipv4.fromBytes, Ipv4.hts]
  repeat' split
  all_goals rfl

theorem c14_udp_total (ck : Bool) (bs : List UInt8) (packetLen src dst : Nat) :
    (Udp.fromBytes ck bs packetLen src dst).isPanic = false := by
  simp only [Udp.fromBytes, Udp.hts]
  repeat' split
  all_goals rfl

theorem c14_tcp_total (ck : Bool) (bs : List UInt8) (packetLen src dst : Nat) :
    (Tcp.fromBytes ck bs packetLen src dst).isPanic = false := by
  simp only [Tcp.fromBytes, Tcp.hts]
  repeat' split
  all_goals rfl

/-- the statement in the wording of the property: the outcome is never a panic, whatever the
    site name -/
theorem c14_ipv4_udp_tcp_never_panic (ck : Bool) (bs : List UInt8) (packetLen src dst : Nat)
    (site : String) :
    Ipv4.fromBytes ck bs ≠ .error (.panic site) ∧
    Udp.fromBytes ck bs packetLen src dst ≠ .error (.panic site) ∧
    Tcp.fromBytes ck bs packetLen src dst ≠ .error (.panic site) := by
  refine ⟨?_, ?_, ?_⟩
  · intro h; have := c14_ipv4_total ck bs; rw [h] at this; cases this
  · intro h; have := c14_udp_total ck bs packetLen src dst; rw [h] at this; cases this
  · intro h; have := c14_tcp_total ck bs packetLen src dst; rw [h] at this; cases this

/-- non-vacuity: the models do have panic outcomes elsewhere (`serialize` on a header the
    decoder would never return) -/
example : (Ipv4.serialize false
    { ihl := 5, tos := 0, totalLength := 19, identification := 0,
      fragmentOffset := 0, flags := 0, ttl := 1, protocol := 6, checksum := 0, source := 1,
      destination := 2 }).isPanic = true := by decide

end Elvis.Codec
