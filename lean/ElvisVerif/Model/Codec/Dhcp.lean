import ElvisVerif.Model.Codec.BytesExtB
import ElvisVerif.Generated.CodecB
/-
Model of `elvis_core::protocols::dhcp::dhcp_parsing`
(sim/elvis-core/src/protocols/dhcp/dhcp_parsing.rs): `MessageType::try_from`,
`DhcpMessage::from_bytes`, `DhcpMessage::to_message`, `DhcpMessage::default`; and of the two
`demux` functions that decode a datagram from the network: `DhcpClient::demux`
(dhcp/dhcp_client.rs) and `DhcpServer::demux` (sim/elvis/src/applications/dhcp_server.rs).

`fromBytes`, `clientDemux`, `serverDemux` follow the CURRENT code (after the `fix:` commits for
F-C14-1 / F-C14-3).  `fromBytesV0`, `clientDemuxV0`, `serverDemuxV0` are the code as it was
before those commits and exist only for the counterexample theorems of `Props/C14b.lean`.
Strings are modelled by their UTF-8 bytes (`String::from_utf8` / `as_bytes`).
Core-only imports (linked into the native driver) + the generated constants.
-/
namespace Elvis.CodecB.Dhcp
open Elvis.CodecB

/-- the string terminator `b'\0'`: the literal as extracted from the source on every check -/
def term : UInt8 := Elvis.Gen.CodecB.dhcpTerm

/-- `enum MessageType { Discover = 1, Offer, Request, Decline, Ack, Nack, Release }` -/
inductive MessageType
  | discover | offer | request | decline | ack | nack | release
deriving Repr, DecidableEq

/-- `msg_type as u8` -/
def MessageType.toNat : MessageType → Nat
  | .discover => 1 | .offer => 2 | .request => 3 | .decline => 4
  | .ack => 5 | .nack => 6 | .release => 7

structure DhcpMessage where
  op : Nat
  htype : Nat
  hlen : Nat
  hops : Nat
  transactionId : Nat
  seconds : Nat
  flags : Nat
  clientIp : Nat
  yourIp : Nat
  serverIp : Nat
  routerIp : Nat
  clientHardwareAddress : Nat
  serverName : Bytes
  bootFile : Bytes
  msgType : MessageType
deriving Repr, DecidableEq

/-- `MessageType::try_from(u8)` (current code: one `match`, `_ => Err(InvalidDhcpType)`) -/
def msgTypeTryFrom (t : Nat) : Except DecErr MessageType :=
  if t = 1 then .ok .discover else if t = 2 then .ok .offer else if t = 3 then .ok .request
  else if t = 4 then .ok .decline else if t = 5 then .ok .ack else if t = 6 then .ok .nack
  else if t = 7 then .ok .release else .error .invalidDhcpType

/-- `String::from_utf8(v).map_err(|_| ParseError::InvalidString)?` -/
def stringFromUtf8 (v : Bytes) : Except DecErr Bytes :=
  if utf8Valid v then .ok v else .error .invalidString

/-- `DhcpMessage::from_bytes`, in code order (current code) -/
def fromBytes (bs : Bytes) : Except DecErr (DhcpMessage × Bytes) := do
  let (op, bs) ← orShort (nextU8 bs)
  let (htype, bs) ← orShort (nextU8 bs)
  let (hlen, bs) ← orShort (nextU8 bs)
  let (hops, bs) ← orShort (nextU8 bs)
  let (transactionId, bs) ← orShort (nextU32 bs)
  let (seconds, bs) ← orShort (nextU16 bs)
  let (flags, bs) ← orShort (nextU8 bs)
  let (clientIp, bs) ← orShort (nextIpv4 bs)
  let (yourIp, bs) ← orShort (nextIpv4 bs)
  let (serverIp, bs) ← orShort (nextIpv4 bs)
  let (routerIp, bs) ← orShort (nextIpv4 bs)
  let (clientHardwareAddress, bs) ← orShort (nextU16 bs)
  let (t, bs) ← orShort (nextU8 bs)
  let msgType ← msgTypeTryFrom t
  let (serverName, bs) ← orShort (readUntil term bs)
  let serverName ← stringFromUtf8 serverName
  let (bootFile, bs) ← orShort (readUntil term bs)
  let bootFile ← stringFromUtf8 bootFile
  pure ({ op, htype, hlen, hops, transactionId, seconds, flags, clientIp, yourIp, serverIp,
          routerIp, clientHardwareAddress, serverName, bootFile, msgType }, bs)

/-- `DhcpMessage::to_message` (always `Ok`) -/
def toMessage (m : DhcpMessage) : Bytes :=
  putU8 m.op ++ putU8 m.htype ++ putU8 m.hlen ++ putU8 m.hops ++ putU32 m.transactionId
    ++ putU16 m.seconds ++ putU8 m.flags ++ putU32 m.clientIp ++ putU32 m.yourIp
    ++ putU32 m.serverIp ++ putU32 m.routerIp ++ putU16 m.clientHardwareAddress
    ++ putU8 m.msgType.toNat ++ m.serverName ++ [term] ++ m.bootFile ++ [term]

/-- `DhcpMessage::default()` ("Null", "BootFile", Discover, op/htype/hlen/hops = 50) -/
def default : DhcpMessage :=
  { op := 50, htype := 50, hlen := 50, hops := 50, transactionId := 0, seconds := 0, flags := 0,
    clientIp := 0, yourIp := 0, serverIp := 0, routerIp := 0, clientHardwareAddress := 0,
    serverName := [0x4e, 0x75, 0x6c, 0x6c],
    bootFile := [0x42, 0x6f, 0x6f, 0x74, 0x46, 0x69, 0x6c, 0x65],
    msgType := .discover }

/-- what a `demux` call did -/
inductive DemuxOut
  | errHeader                 -- `Err(DemuxError::Header)`: datagram dropped, nothing else happened
  | errOther                  -- `Err(DemuxError::Other)`: a message type this side ignores
  | sent (reply : Bytes)      -- `caller.send(reply)`, `Ok(())`
  | assigned (ip : Nat)       -- client: `*ip_address = Some(your_ip)`, `Ok(())`
  | released (ip : Nat)       -- server: `return_ip(your_ip)`, `Ok(())`
deriving Repr, DecidableEq

/-- `DhcpClient::demux` (current code: `from_bytes(..).map_err(|_| DemuxError::Header)?`) -/
def clientDemux (bs : Bytes) : Except DecErr DemuxOut :=
  match fromBytes bs with
  | .error (.panic s) => .error (.panic s)
  | .error _ => .ok .errHeader
  | .ok (m, _) =>
    match m.msgType with
    | .offer => .ok (.sent (toMessage { default with yourIp := m.yourIp, msgType := .request, op := 2 }))
    | .ack => .ok (.assigned m.yourIp)
    | _ => .ok .errOther

/-- `DhcpServer::demux`; `fetch` is what `ip_generator.fetch_ip()` returns for this call
    (`None` = pool exhausted: `unwrap()` panics — an acknowledged TODO of the code that a
    *well-formed* Discover reaches; not a malformed-input site). -/
def serverDemux (fetch : Option Nat) (bs : Bytes) : Except DecErr DemuxOut :=
  match fromBytes bs with
  | .error (.panic s) => .error (.panic s)
  | .error _ => .ok .errHeader
  | .ok (m, _) =>
    match m.msgType with
    | .discover =>
      match fetch with
      | none => .error (.panic "panic:unwrap:dhcp_server_fetch_ip")
      | some ip => .ok (.sent (toMessage { default with yourIp := ip, op := 2, msgType := .offer }))
    | .request => .ok (.sent (toMessage { default with op := 2, yourIp := m.yourIp, msgType := .ack }))
    | .release => .ok (.released m.yourIp)
    | _ => .ok .errOther

/-! ### The code before the fixes (for the counterexample theorems only) -/

/-- `MessageType::try_from` as it was: `if msg_type > 7 { Err } else { Ok(match … 1..=7 …,
    _ => unreachable!()) }`, and its caller `.unwrap()`ed the result. -/
def msgTypeTryFromV0 (t : Nat) : Except DecErr MessageType :=
  if t > 7 then .error (.panic "panic:unwrap:dhcp_msg_type")
  else if t = 1 then .ok .discover else if t = 2 then .ok .offer else if t = 3 then .ok .request
  else if t = 4 then .ok .decline else if t = 5 then .ok .ack else if t = 6 then .ok .nack
  else if t = 7 then .ok .release else .error (.panic "panic:unreachable:dhcp_msg_type")

/-- `String::from_utf8(v).unwrap()` -/
def stringFromUtf8V0 (site : String) (v : Bytes) : Except DecErr Bytes :=
  if utf8Valid v then .ok v else .error (.panic site)

def fromBytesV0 (bs : Bytes) : Except DecErr (DhcpMessage × Bytes) := do
  let (op, bs) ← orShort (nextU8 bs)
  let (htype, bs) ← orShort (nextU8 bs)
  let (hlen, bs) ← orShort (nextU8 bs)
  let (hops, bs) ← orShort (nextU8 bs)
  let (transactionId, bs) ← orShort (nextU32 bs)
  let (seconds, bs) ← orShort (nextU16 bs)
  let (flags, bs) ← orShort (nextU8 bs)
  let (clientIp, bs) ← orShort (nextIpv4 bs)
  let (yourIp, bs) ← orShort (nextIpv4 bs)
  let (serverIp, bs) ← orShort (nextIpv4 bs)
  let (routerIp, bs) ← orShort (nextIpv4 bs)
  let (clientHardwareAddress, bs) ← orShort (nextU16 bs)
  let (t, bs) ← orShort (nextU8 bs)
  let msgType ← msgTypeTryFromV0 t
  let (serverName, bs) ← orShort (readUntil term bs)
  let serverName ← stringFromUtf8V0 "panic:unwrap:dhcp_server_name" serverName
  let (bootFile, bs) ← orShort (readUntil term bs)
  let bootFile ← stringFromUtf8V0 "panic:unwrap:dhcp_boot_file" bootFile
  pure ({ op, htype, hlen, hops, transactionId, seconds, flags, clientIp, yourIp, serverIp,
          routerIp, clientHardwareAddress, serverName, bootFile, msgType }, bs)

/-- `DhcpClient::demux` as it was: `DhcpMessage::from_bytes(message.iter()).unwrap()` -/
def clientDemuxV0 (bs : Bytes) : Except DecErr DemuxOut :=
  match fromBytesV0 bs with
  | .error (.panic s) => .error (.panic s)
  | .error _ => .error (.panic "panic:unwrap:dhcp_client_demux")
  | .ok (m, _) =>
    match m.msgType with
    | .offer => .ok (.sent (toMessage { default with yourIp := m.yourIp, msgType := .request, op := 2 }))
    | .ack => .ok (.assigned m.yourIp)
    | _ => .ok .errOther

/-- `DhcpServer::demux` as it was -/
def serverDemuxV0 (fetch : Option Nat) (bs : Bytes) : Except DecErr DemuxOut :=
  match fromBytesV0 bs with
  | .error (.panic s) => .error (.panic s)
  | .error _ => .error (.panic "panic:unwrap:dhcp_server_demux")
  | .ok (m, _) =>
    match m.msgType with
    | .discover =>
      match fetch with
      | none => .error (.panic "panic:unwrap:dhcp_server_fetch_ip")
      | some ip => .ok (.sent (toMessage { default with yourIp := ip, op := 2, msgType := .offer }))
    | .request => .ok (.sent (toMessage { default with op := 2, yourIp := m.yourIp, msgType := .ack }))
    | .release => .ok (.released m.yourIp)
    | _ => .ok .errOther

end Elvis.CodecB.Dhcp
