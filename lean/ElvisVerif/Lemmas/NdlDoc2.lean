import ElvisVerif.Lemmas.NdlReject2
import ElvisVerif.Lemmas.NdlNorm2
/-!
# NDL: every way of writing a description

A `Doc` is a description as it is laid out in a file: any number of `[Template]`, `[Networks]`
and `[Machines]` blocks in any order, each machine with its sections in the order they are
written, every line with its own spelling of the type tag (any letter case) and its own number of
blank lines after it; the headers of blocks and sections may carry arguments (the code ignores
them).  `renderDoc` writes it in one of the three layouts; `Doc.sim` is what it means.

`build_renderDoc`: the tree builder reads the tab layout of a well-formed `Doc` back to `Doc.sim`.
-/
namespace Elvis.Ndl
open Elvis.Gen.Ndl

/-! ### type tags in any letter case -/

/-- equal up to ASCII letter case -/
def SameCase (a b : Text) : Prop := a.map Char.toLower = b.map Char.toLower

theorem SameCase.length {a b : Text} (h : SameCase a b) : a.length = b.length := by
  have := congrArg List.length h
  simpa using this

theorem keyword_case : ∀ (t i i' : Text), SameCase i i' →
    (keyword t i = none ∧ keyword t i' = none) ∨
    ∃ r r', keyword t i = some r ∧ keyword t i' = some r' ∧ SameCase r r'
  | [], i, i', h => .inr ⟨i, i', rfl, rfl, h⟩
  | _ :: _, [], [], _ => by simp [keyword]
  | _ :: _, [], _ :: _, h => by simp [SameCase] at h
  | _ :: _, _ :: _, [], h => by simp [SameCase] at h
  | k :: ks, c :: cs, c' :: cs', h => by
    simp only [SameCase, List.map_cons, List.cons.injEq] at h
    simp only [keyword, h.1]
    by_cases hc : c'.toLower = k.toLower
    · simp only [hc, if_true]
      exact keyword_case ks cs cs' h.2
    · simp only [hc, if_false]
      exact .inl ⟨trivial, trivial⟩

theorem keyword_suffix : ∀ (t i r : Text), keyword t i = some r → ∃ p, i = p ++ r
  | [], i, r, h => by simp [keyword] at h; exact ⟨[], by simp [h]⟩
  | _ :: _, [], r, h => by simp [keyword] at h
  | k :: ks, c :: cs, r, h => by
    simp only [keyword] at h
    split at h
    · obtain ⟨p, hp⟩ := keyword_suffix ks cs r h
      exact ⟨c :: p, by simp [hp]⟩
    · cases h

theorem getTypeWith_case (table : List (Text × Text)) : ∀ (ts : List Text) (i i' : Text) (line : Nat)
    (r' : Text) (d : DecType), SameCase i i' →
    getTypeWith "keyword" table ts i' line = .ok (r', d) →
    ∃ r, getTypeWith "keyword" table ts i line = .ok (r, d) ∧ SameCase r r' ∧ ∃ p, i = p ++ r
  | [], i, i', line, r', d, _, h => by simp [getTypeWith] at h
  | t :: ts, i, i', line, r', d, hc, h => by
    unfold getTypeWith matchTag at h ⊢
    simp only [if_true] at h ⊢
    rcases keyword_case t i i' hc with ⟨h1, h2⟩ | ⟨r, r2, h1, h2, h3⟩
    · rw [h2] at h
      rw [h1]
      exact getTypeWith_case table ts i i' line r' d hc h
    · rw [h2] at h
      rw [h1]
      simp only [] at h ⊢
      cases hd : decTypeFromWith table t with
      | error e => rw [hd] at h; cases h
      | ok d' =>
        rw [hd] at h
        simp only [Except.ok.injEq, Prod.mk.injEq] at h ⊢
        obtain ⟨rfl, rfl⟩ := h
        exact ⟨r, ⟨rfl, rfl⟩, h3, keyword_suffix t i r h1⟩

/-- a tag spelled in any letter case is read as the type it spells -/
theorem getType_spelled (dt : DecType) (tag : Text) (htag : SameCase tag dt.name) (ps : Params) (line : Nat) :
    getType (tag ++ renderArgs ps) line = .ok (renderArgs ps, dt) := by
  have h0 := getType_render dt ps line
  unfold getType at h0 ⊢
  rw [tagMatcher_keyword] at h0 ⊢
  have hc : SameCase (tag ++ renderArgs ps) (dt.name ++ renderArgs ps) := by
    unfold SameCase at htag ⊢
    rw [List.map_append, List.map_append, htag]
  obtain ⟨r, h1, h2, p, h3⟩ := getTypeWith_case decTypeTable tagAlt _ _ line _ dt hc h0
  have hl := h2.length
  have hlen : tag.length = p.length := by
    have := congrArg List.length h3
    simp only [List.length_append] at this
    omega
  have := (List.append_inj h3 hlen).2
  rw [h1, ← this]

theorem tag_not_mem (dt : DecType) (tag : Text) (htag : SameCase tag dt.name) (c : Char)
    (hc : c.toLower ∉ dt.name.map Char.toLower) : c ∉ tag := by
  intro hm
  apply hc
  rw [← htag]
  exact List.mem_map_of_mem hm

theorem tag_no_bracket (dt : DecType) (tag : Text) (htag : SameCase tag dt.name) : ∀ c ∈ tag, c ≠ ']' := by
  intro c hc he
  subst he
  exact tag_not_mem dt tag htag ']' (by cases dt <;> decide) hc

theorem tag_no_space_cr (dt : DecType) (tag : Text) (htag : SameCase tag dt.name) :
    ' ' ∉ tag ∧ '\r' ∉ tag :=
  ⟨tag_not_mem dt tag htag ' ' (by cases dt <;> decide), tag_not_mem dt tag htag '\r' (by cases dt <;> decide)⟩

/-- text that does not begin with a newline -/
def NoNl (t : Text) : Prop := ∀ r, t ≠ '\n' :: r

/-- `general_parser` on a line written with any spelling of its tag -/
theorem generalParser_spelled (dt : DecType) (tag : Text) (htag : SameCase tag dt.name) (ps : Params)
    (hps : LineOk ps) (n : Nat) (rest : Text) (hrest : NoNl rest) (line : Nat) (hb : line + n ≤ i32Max) :
    generalParser (('[' :: (tag ++ (renderArgs ps ++ [']']))) ++ (List.replicate n '\n' ++ rest)) line =
      .ok ⟨dt, ps, rest, line + n⟩ := by
  have hnb : ∀ d ∈ tag ++ renderArgs ps, d ≠ ']' := by
    intro d hd
    rcases List.mem_append.1 hd with hd | hd
    · exact tag_no_bracket dt tag htag d hd
    · exact renderArgs_no_bracket ps hps.1 d hd
  have hsec : sectionP (('[' :: (tag ++ (renderArgs ps ++ [']']))) ++ (List.replicate n '\n' ++ rest)) =
      some (tag ++ renderArgs ps, List.replicate n '\n' ++ rest) := by
    have := takeUntil_append ']' (tag ++ renderArgs ps) (List.replicate n '\n' ++ rest) hnb
    simp only [List.cons_append, List.append_assoc, sectionP] at this ⊢
    simp [this]
  unfold generalParser
  rw [hsec]
  simp only [getType_spelled dt tag htag]
  have ha : arguments (renderArgs ps) = ([], ps) := arguments_render ps _ hps.1 (Nat.le_refl _)
  have hi : insertAll ps [] = some ps := by
    have := insertAll_nodup ps [] hps.2 (by intro kv _; simp [Params.has])
    simpa using this
  have hc := countNl_replicate n rest hrest
  have hd : byteDrop n (List.replicate n '\n' ++ rest) = some rest := by
    have := byteDrop_nl (List.replicate n '\n' ++ rest)
    rw [hc] at this
    simpa using this
  have hno : ¬ (line + n > i32Max) := by omega
  simp [ha, hi, hc, hd, hno]

/-! ### written lines in the tab layout -/

/-- a written line the lexer reads back: the tag spells its type, the arguments are in the
    grammar's classes -/
def RLine.Ok (x : RLine) : Prop := SameCase x.deco.tag x.dt.name ∧ LineOk x.ps

/-- number of line ends a list of written lines contributes to the line counter -/
def lc (ls : List RLine) : Nat := (ls.map fun x => x.deco.blank + 1).sum

theorem lc_cons (x : RLine) (ls : List RLine) : lc (x :: ls) = x.deco.blank + 1 + lc ls := by simp [lc]
theorem lc_append (a b : List RLine) : lc (a ++ b) = lc a + lc b := by simp [lc]
theorem lc_nil : lc [] = 0 := rfl

theorem rline_tabs (x : RLine) (tail : Text) :
    x.text .tabs ++ tail = List.replicate x.depth '\t' ++
      (('[' :: (x.deco.tag ++ (renderArgs x.ps ++ [']']))) ++ (List.replicate (x.deco.blank + 1) '\n' ++ tail)) := by
  simp [RLine.text, indent, eols_tabs]

theorem countTabs_rline (x : RLine) (tail : Text) : countTabs (x.text .tabs ++ tail) = x.depth := by
  rw [rline_tabs]
  apply countTabs_replicate
  intro r h
  simp at h

theorem rline_noNl (x : RLine) (tail : Text) : NoNl (x.text .tabs ++ tail) := by
  intro r h
  rw [rline_tabs] at h
  cases hd : x.depth with
  | zero => rw [hd] at h; simp at h
  | succ n => rw [hd] at h; simp [List.replicate_succ] at h

theorem rlText_noNl (ls : List RLine) (rest : Text) (h : NoNl rest) : NoNl (rlText .tabs ls ++ rest) := by
  cases ls with
  | nil => simpa [rlText] using h
  | cons x ls => rw [rlText_cons, List.append_assoc]; exact rline_noNl x _

theorem countTabs_rlText_cons (x : RLine) (ls : List RLine) (rest : Text) :
    countTabs (rlText .tabs (x :: ls) ++ rest) = x.depth := by
  rw [rlText_cons, List.append_assoc]; exact countTabs_rline x _

theorem lineAt_rline (x : RLine) (hx : x.Ok) (tail : Text) (htail : NoNl tail) (l : Nat)
    (hb : l + (x.deco.blank + 1) ≤ i32Max) :
    LineAt x.depth x.dt x.ps (x.text .tabs ++ tail) l tail (l + (x.deco.blank + 1)) := by
  refine ⟨countTabs_rline x tail, ?_⟩
  rw [rline_tabs]
  have : (List.replicate x.depth '\t' ++ (('[' :: (x.deco.tag ++ (renderArgs x.ps ++ [']']))) ++
      (List.replicate (x.deco.blank + 1) '\n' ++ tail))).drop x.depth =
      ('[' :: (x.deco.tag ++ (renderArgs x.ps ++ [']']))) ++ (List.replicate (x.deco.blank + 1) '\n' ++ tail) := by
    rw [List.drop_left' (by simp)]
  rw [this]
  exact generalParser_spelled x.dt x.deco.tag hx.1 x.ps hx.2 _ tail htail l hb

/-! ### descriptions as they are laid out -/

/-- what is free about a written line: the spelling of its tag, its blank lines, its arguments -/
structure DLine where
  deco : Deco
  ps : Params
deriving DecidableEq, Repr

structure DNet where
  hd : DLine
  ips : List DLine
deriving DecidableEq, Repr

/-- a section of a machine: `kind` is `Networks`, `Protocols` or `Applications` -/
structure DSec where
  kind : DecType
  hd : DLine
  leaves : List DLine
deriving DecidableEq, Repr

structure DMach where
  hd : DLine
  secs : List DSec
deriving DecidableEq, Repr

inductive DBlock
  | template (hd : DLine)
  | nets (hd : DLine) (ns : List DNet)
  | machs (hd : DLine) (ms : List DMach)
deriving DecidableEq, Repr

abbrev Doc := List DBlock

def DLine.rl (d : Nat) (dt : DecType) (x : DLine) : RLine := ⟨d, dt, x.deco, x.ps⟩
def DLine.leaf (exp : DecType) (x : DLine) : Leaf := ⟨exp, x.ps⟩

def DNet.lines (n : DNet) : List RLine := n.hd.rl 1 .network :: n.ips.map (DLine.rl 2 .ip)
def DSec.lines (s : DSec) : List RLine := s.hd.rl 2 s.kind :: s.leaves.map (DLine.rl 3 (secLeaf s.kind))
def DMach.lines (m : DMach) : List RLine := m.hd.rl 1 .machine :: m.secs.flatMap DSec.lines
def DBlock.lines : DBlock → List RLine
  | .template hd => [hd.rl 0 .template]
  | .nets hd ns => hd.rl 0 .networks :: ns.flatMap DNet.lines
  | .machs hd ms => hd.rl 0 .machines :: ms.flatMap DMach.lines
def Doc.lines (doc : Doc) : List RLine := doc.flatMap DBlock.lines

/-- the file -/
def renderDoc (lay : Layout) (doc : Doc) : Text := rlText lay doc.lines

/-- the entries of a section kind, in the order written -/
def secLeaves (k : DecType) (secs : List (DecType × List Leaf)) : List Leaf :=
  (secs.filter (·.1 == k)).flatMap (·.2)

def DNet.net (n : DNet) : Text × Network :=
  ((n.hd.ps.get? ['i', 'd']).getD [], ⟨.network, n.hd.ps, n.ips.map (DLine.leaf .ip)⟩)
def DSec.sec (s : DSec) : DecType × List Leaf := (s.kind, s.leaves.map (DLine.leaf (secLeaf s.kind)))
def DMach.machine (m : DMach) : Machine :=
  ⟨.machine, m.hd.ps, secLeaves .networks (m.secs.map DSec.sec), secLeaves .protocols (m.secs.map DSec.sec),
    secLeaves .applications (m.secs.map DSec.sec)⟩
def DBlock.block : DBlock → Block
  | .template _ => .template
  | .nets _ ns => .nets (ns.map DNet.net)
  | .machs _ ms => .machs (ms.map DMach.machine)
def DBlock.nets' : DBlock → List (Text × Network)
  | .nets _ ns => ns.map DNet.net
  | _ => []
def DBlock.machs' : DBlock → List Machine
  | .machs _ ms => ms.map DMach.machine
  | _ => []

/-- what the file means: all networks of all `[Networks]` blocks, all machines of all
    `[Machines]` blocks, in the order written -/
def Doc.sim (doc : Doc) : Sim := ⟨doc.flatMap DBlock.nets', doc.flatMap DBlock.machs'⟩

def DNet.Shape (n : DNet) : Prop := (∃ id, n.hd.ps.get? ['i', 'd'] = some id) ∧ n.ips ≠ []
def DSec.Shape (s : DSec) : Prop := IsSec s.kind ∧ s.leaves ≠ []
def DMach.Shape (m : DMach) : Prop := (∀ s ∈ m.secs, s.Shape) ∧ (m.secs.map (·.kind)).Perm secKinds
def DBlock.Shape : DBlock → Prop
  | .template _ => True
  | .nets _ ns => ∀ n ∈ ns, n.Shape
  | .machs _ ms => ∀ m ∈ ms, m.Shape

/-- a well-formed written description: every line can be read back (tag spells the type, keys and
    values in the grammar's classes, keys of a line distinct), every network has an `id` and an
    `[IP]`, every machine its three non-empty sections in some order, network ids distinct over
    the whole file, fewer than 2^31 − 1 line ends -/
def Doc.Ok (doc : Doc) : Prop :=
  (∀ x ∈ doc.lines, x.Ok) ∧ (∀ b ∈ doc, b.Shape) ∧ (doc.sim.networks.map (·.1)).Nodup ∧
    1 + lc doc.lines ≤ i32Max

/-! ### the tab layout has the declared structure -/

theorem leavesAt_render (exp : DecType) (d : Nat) : ∀ (xs : List DLine) (rest : Text) (l : Nat),
    xs ≠ [] → (∀ x ∈ xs.map (DLine.rl d exp), x.Ok) → countTabs rest < d → NoNl rest →
    l + lc (xs.map (DLine.rl d exp)) ≤ i32Max →
    LeavesAt exp d (xs.map (DLine.leaf exp)) (rlText .tabs (xs.map (DLine.rl d exp)) ++ rest) l rest
      (l + lc (xs.map (DLine.rl d exp)))
  | [], _, _, h, _, _, _, _ => absurd rfl h
  | [x], rest, l, _, hok, hr, hn, hb => by
    simp only [List.map_cons, List.map_nil, lc_cons, lc_nil, Nat.add_zero, rlText_cons] at hb ⊢
    have h1 := lineAt_rline (x.rl d exp) (hok _ (by simp)) rest hn l hb
    have h2 := LeavesAt.last h1 hr
    simp only [rlText, List.flatMap_nil, List.append_nil]
    exact h2
  | x :: y :: xs, rest, l, _, hok, hr, hn, hb => by
    have ih := leavesAt_render exp d (y :: xs) rest (l + ((x.rl d exp).deco.blank + 1)) (by simp)
      (fun z hz => hok z (by simp only [List.map_cons, List.mem_cons] at hz ⊢; exact .inr hz)) hr hn
      (by simp only [List.map_cons, lc_cons] at hb ⊢; omega)
    have h1 := lineAt_rline (x.rl d exp) (hok _ (by simp)) (rlText .tabs ((y :: xs).map (DLine.rl d exp)) ++ rest)
      (rlText_noNl _ _ hn) l (by simp only [List.map_cons, lc_cons] at hb ⊢; omega)
    have := LeavesAt.cons h1 ih
    simp only [List.map_cons, rlText_cons, List.append_assoc, lc_cons] at this ⊢
    rw [show l + ((x.rl d exp).deco.blank + 1 + ((y.rl d exp).deco.blank + 1 + lc (xs.map (DLine.rl d exp)))) =
      l + ((x.rl d exp).deco.blank + 1) + ((y.rl d exp).deco.blank + 1 + lc (xs.map (DLine.rl d exp))) by omega]
    exact this

theorem countTabs_flat {α : Type} (f : α → List RLine) (d : Nat)
    (hf : ∀ a, ∃ x r, f a = x :: r ∧ x.depth = d) (l : List α) (rest : Text) (hr : countTabs rest ≤ d) :
    countTabs (rlText .tabs (l.flatMap f) ++ rest) ≤ d := by
  cases l with
  | nil => simpa [rlText] using hr
  | cons a l =>
    obtain ⟨x, r, hx, hd⟩ := hf a
    simp only [List.flatMap_cons, hx, List.cons_append]
    rw [countTabs_rlText_cons, hd]
    exact Nat.le_refl _

theorem netAt_render (n : DNet) (hs : n.Shape) (hok : ∀ x ∈ n.lines, x.Ok) (rest : Text) (l : Nat)
    (hr : countTabs rest < 2) (hn : NoNl rest) (hb : l + lc n.lines ≤ i32Max) :
    NetworkAt n.net.1 n.net.2 (rlText .tabs n.lines ++ rest) l rest (l + lc n.lines) := by
  obtain ⟨⟨id, hid⟩, hne⟩ := hs
  refine ⟨rfl, by simp [DNet.net, hid], ?_⟩
  unfold DNet.lines at hok hb ⊢
  rw [lc_cons] at hb ⊢
  have h2 := leavesAt_render .ip 2 n.ips rest (l + ((n.hd.rl 1 .network).deco.blank + 1)) hne
    (fun x hx => hok x (List.mem_cons_of_mem _ hx)) hr hn (by omega)
  have h1 := lineAt_rline (n.hd.rl 1 .network) (hok _ List.mem_cons_self)
    (rlText .tabs (n.ips.map (DLine.rl 2 .ip)) ++ rest) (rlText_noNl _ _ hn) l (by omega)
  refine ⟨rlText .tabs (n.ips.map (DLine.rl 2 .ip)) ++ rest, l + ((n.hd.rl 1 .network).deco.blank + 1), ?_, ?_⟩
  · rw [rlText_cons, List.append_assoc]; exact h1
  · rw [show l + ((n.hd.rl 1 .network).deco.blank + 1 + lc (n.ips.map (DLine.rl 2 .ip))) =
      l + ((n.hd.rl 1 .network).deco.blank + 1) + lc (n.ips.map (DLine.rl 2 .ip)) by omega]
    exact h2

theorem netsAt_render : ∀ (ns : List DNet) (rest : Text) (l : Nat), (∀ n ∈ ns, n.Shape) →
    (∀ x ∈ ns.flatMap DNet.lines, x.Ok) → countTabs rest < 1 → NoNl rest →
    l + lc (ns.flatMap DNet.lines) ≤ i32Max →
    NetsAt (ns.map DNet.net) (rlText .tabs (ns.flatMap DNet.lines) ++ rest) l rest
      (l + lc (ns.flatMap DNet.lines))
  | [], rest, l, _, _, hr, _, _ => by simpa [rlText, lc] using NetsAt.nil (l := l) hr
  | n :: ns, rest, l, hs, hok, hr, hn, hb => by
    simp only [List.flatMap_cons, lc_append, rlText_append, List.append_assoc, List.map_cons] at hb hok ⊢
    have ih := netsAt_render ns rest (l + lc n.lines) (fun m hm => hs m (List.mem_cons_of_mem _ hm))
      (fun x hx => hok x (List.mem_append_right _ hx)) hr hn (by omega)
    have hct : countTabs (rlText .tabs (ns.flatMap DNet.lines) ++ rest) < 2 := by
      have := countTabs_flat DNet.lines 1 (fun a => ⟨_, _, rfl, rfl⟩) ns rest (by omega)
      omega
    have h1 := netAt_render n (hs n List.mem_cons_self) (fun x hx => hok x (List.mem_append_left _ hx))
      (rlText .tabs (ns.flatMap DNet.lines) ++ rest) l hct (rlText_noNl _ _ hn) (by omega)
    rw [show l + (lc n.lines + lc (ns.flatMap DNet.lines)) = l + lc n.lines + lc (ns.flatMap DNet.lines) by omega]
    exact NetsAt.cons h1 ih

theorem secsAt_render : ∀ (secs : List DSec) (rest : Text) (l : Nat), (∀ s ∈ secs, s.Shape) →
    (∀ x ∈ secs.flatMap DSec.lines, x.Ok) → countTabs rest < 2 → NoNl rest →
    l + lc (secs.flatMap DSec.lines) ≤ i32Max →
    SecsAt (secs.map DSec.sec) (rlText .tabs (secs.flatMap DSec.lines) ++ rest) l rest
      (l + lc (secs.flatMap DSec.lines))
  | [], rest, l, _, _, hr, _, _ => by simpa [rlText, lc] using SecsAt.nil (l := l) hr
  | s :: secs, rest, l, hs, hok, hr, hn, hb => by
    simp only [List.flatMap_cons, lc_append, rlText_append, List.append_assoc, List.map_cons] at hb hok ⊢
    have ih := secsAt_render secs rest (l + lc s.lines) (fun m hm => hs m (List.mem_cons_of_mem _ hm))
      (fun x hx => hok x (List.mem_append_right _ hx)) hr hn (by omega)
    have hct : countTabs (rlText .tabs (secs.flatMap DSec.lines) ++ rest) < 3 := by
      have := countTabs_flat DSec.lines 2 (fun a => ⟨_, _, rfl, rfl⟩) secs rest (by omega)
      omega
    obtain ⟨hk, hne⟩ := hs s List.mem_cons_self
    have hl : s.lines = s.hd.rl 2 s.kind :: s.leaves.map (DLine.rl 3 (secLeaf s.kind)) := rfl
    have hoks : ∀ x ∈ s.hd.rl 2 s.kind :: s.leaves.map (DLine.rl 3 (secLeaf s.kind)), x.Ok :=
      fun x hx => hok x (List.mem_append_left _ (by rw [hl]; exact hx))
    rw [hl, lc_cons] at hb ih
    rw [hl, lc_cons]
    have h2 := leavesAt_render (secLeaf s.kind) 3 s.leaves (rlText .tabs (secs.flatMap DSec.lines) ++ rest)
      (l + ((s.hd.rl 2 s.kind).deco.blank + 1)) hne
      (fun x hx => hoks x (List.mem_cons_of_mem _ hx)) hct (rlText_noNl _ _ hn) (by omega)
    have h1 := lineAt_rline (s.hd.rl 2 s.kind) (hoks _ List.mem_cons_self)
      (rlText .tabs (s.leaves.map (DLine.rl 3 (secLeaf s.kind))) ++ (rlText .tabs (secs.flatMap DSec.lines) ++ rest))
      (rlText_noNl _ _ (rlText_noNl _ _ hn)) l (by omega)
    have := SecsAt.cons hk h1 h2 (by
      rw [show l + ((s.hd.rl 2 s.kind).deco.blank + 1) + lc (s.leaves.map (DLine.rl 3 (secLeaf s.kind))) =
        l + ((s.hd.rl 2 s.kind).deco.blank + 1 + lc (s.leaves.map (DLine.rl 3 (secLeaf s.kind)))) by omega]
      exact ih)
    rw [rlText_cons, List.append_assoc]
    rw [show l + ((s.hd.rl 2 s.kind).deco.blank + 1 + lc (s.leaves.map (DLine.rl 3 (secLeaf s.kind))) +
        lc (secs.flatMap DSec.lines)) =
      l + ((s.hd.rl 2 s.kind).deco.blank + 1 + lc (s.leaves.map (DLine.rl 3 (secLeaf s.kind)))) +
        lc (secs.flatMap DSec.lines) by omega]
    exact this

/-- the three sections once each, in any of the six orders: each kind's entries are filed under it -/
theorem runSecs_perm (secs : List (DecType × List Leaf)) (h : (secs.map (·.1)).Perm secKinds) :
    runSecs ⟨requiredSections, [], [], []⟩ secs =
      some ⟨[], secLeaves .networks secs, secLeaves .protocols secs, secLeaves .applications secs⟩ := by
  have hl := h.length_eq
  simp only [List.length_map, secKinds, List.length_cons, List.length_nil] at hl
  match secs, hl with
  | [(k1, a), (k2, b), (k3, c)], _ =>
    have m1 : k1 ∈ secKinds := h.mem_iff.1 (by simp)
    have m2 : k2 ∈ secKinds := h.mem_iff.1 (by simp)
    have m3 : k3 ∈ secKinds := h.mem_iff.1 (by simp)
    simp only [secKinds, List.mem_cons, List.not_mem_nil, or_false] at m1 m2 m3
    simp only [List.map_cons, List.map_nil] at h
    rcases m1 with rfl | rfl | rfl <;> rcases m2 with rfl | rfl | rfl <;> rcases m3 with rfl | rfl | rfl <;>
      first
      | exact absurd h (by decide)
      | simp [runSecs, requiredSections_eq, reqDrop, MAcc.add, List.idxOf?, List.findIdx?, List.findIdx?.go,
          secLeaves]

theorem machineAt_render (m : DMach) (hs : m.Shape) (hok : ∀ x ∈ m.lines, x.Ok) (rest : Text) (l : Nat)
    (hr : countTabs rest < 2) (hn : NoNl rest) (hb : l + lc m.lines ≤ i32Max) :
    MachineAt m.machine (rlText .tabs m.lines ++ rest) l rest (l + lc m.lines) := by
  refine ⟨rfl, m.secs.map DSec.sec, ?_⟩
  unfold DMach.lines at hok hb ⊢
  rw [lc_cons] at hb ⊢
  have h2 := secsAt_render m.secs rest (l + ((m.hd.rl 1 .machine).deco.blank + 1)) hs.1
    (fun x hx => hok x (List.mem_cons_of_mem _ hx)) hr hn (by omega)
  have h1 := lineAt_rline (m.hd.rl 1 .machine) (hok _ List.mem_cons_self)
    (rlText .tabs (m.secs.flatMap DSec.lines) ++ rest) (rlText_noNl _ _ hn) l (by omega)
  refine ⟨rlText .tabs (m.secs.flatMap DSec.lines) ++ rest, l + ((m.hd.rl 1 .machine).deco.blank + 1), ?_, ?_, ?_⟩
  · rw [rlText_cons, List.append_assoc]; exact h1
  · rw [show l + ((m.hd.rl 1 .machine).deco.blank + 1 + lc (m.secs.flatMap DSec.lines)) =
      l + ((m.hd.rl 1 .machine).deco.blank + 1) + lc (m.secs.flatMap DSec.lines) by omega]
    exact h2
  · have hp : ((m.secs.map DSec.sec).map (·.1)).Perm secKinds := by
      have : (m.secs.map DSec.sec).map (·.1) = m.secs.map (·.kind) := by
        simp [List.map_map, Function.comp_def, DSec.sec]
      rw [this]; exact hs.2
    exact runSecs_perm _ hp

theorem machsAt_render : ∀ (ms : List DMach) (rest : Text) (l : Nat), (∀ m ∈ ms, m.Shape) →
    (∀ x ∈ ms.flatMap DMach.lines, x.Ok) → countTabs rest < 1 → NoNl rest →
    l + lc (ms.flatMap DMach.lines) ≤ i32Max →
    MachsAt (ms.map DMach.machine) (rlText .tabs (ms.flatMap DMach.lines) ++ rest) l rest
      (l + lc (ms.flatMap DMach.lines))
  | [], rest, l, _, _, hr, _, _ => by simpa [rlText, lc] using MachsAt.nil (l := l) hr
  | m :: ms, rest, l, hs, hok, hr, hn, hb => by
    simp only [List.flatMap_cons, lc_append, rlText_append, List.append_assoc, List.map_cons] at hb hok ⊢
    have ih := machsAt_render ms rest (l + lc m.lines) (fun x hx => hs x (List.mem_cons_of_mem _ hx))
      (fun x hx => hok x (List.mem_append_right _ hx)) hr hn (by omega)
    have hct : countTabs (rlText .tabs (ms.flatMap DMach.lines) ++ rest) < 2 := by
      have := countTabs_flat DMach.lines 1 (fun a => ⟨_, _, rfl, rfl⟩) ms rest (by omega)
      omega
    have h1 := machineAt_render m (hs m List.mem_cons_self) (fun x hx => hok x (List.mem_append_left _ hx))
      (rlText .tabs (ms.flatMap DMach.lines) ++ rest) l hct (rlText_noNl _ _ hn) (by omega)
    rw [show l + (lc m.lines + lc (ms.flatMap DMach.lines)) = l + lc m.lines + lc (ms.flatMap DMach.lines) by omega]
    exact MachsAt.cons h1 ih

theorem blockAt_render (b : DBlock) (hs : b.Shape) (hok : ∀ x ∈ b.lines, x.Ok) (rest : Text) (l : Nat)
    (hr : countTabs rest < 1) (hn : NoNl rest) (hb : l + lc b.lines ≤ i32Max) :
    BlockAt b.block (rlText .tabs b.lines ++ rest) l rest (l + lc b.lines) := by
  cases b with
  | template hd =>
    simp only [DBlock.lines, lc_cons, lc_nil, Nat.add_zero, rlText_cons] at hok hb ⊢
    have h1 := lineAt_rline (hd.rl 0 .template) (hok _ (by simp)) rest hn l hb
    refine ⟨(hd.rl 0 .template).ps, ?_⟩
    simp only [rlText, List.flatMap_nil, List.append_nil]
    exact h1
  | nets hd ns =>
    simp only [DBlock.lines, lc_cons, rlText_cons, List.append_assoc] at hok hb ⊢
    have h2 := netsAt_render ns rest (l + ((hd.rl 0 .networks).deco.blank + 1)) hs
      (fun x hx => hok x (List.mem_cons_of_mem _ hx)) hr hn (by omega)
    have h1 := lineAt_rline (hd.rl 0 .networks) (hok _ List.mem_cons_self)
      (rlText .tabs (ns.flatMap DNet.lines) ++ rest) (rlText_noNl _ _ hn) l (by omega)
    refine ⟨_, _, _, h1, ?_⟩
    rw [show l + ((hd.rl 0 .networks).deco.blank + 1 + lc (ns.flatMap DNet.lines)) =
      l + ((hd.rl 0 .networks).deco.blank + 1) + lc (ns.flatMap DNet.lines) by omega]
    exact h2
  | machs hd ms =>
    simp only [DBlock.lines, lc_cons, rlText_cons, List.append_assoc] at hok hb ⊢
    have h2 := machsAt_render ms rest (l + ((hd.rl 0 .machines).deco.blank + 1)) hs
      (fun x hx => hok x (List.mem_cons_of_mem _ hx)) hr hn (by omega)
    have h1 := lineAt_rline (hd.rl 0 .machines) (hok _ List.mem_cons_self)
      (rlText .tabs (ms.flatMap DMach.lines) ++ rest) (rlText_noNl _ _ hn) l (by omega)
    refine ⟨_, _, _, h1, ?_⟩
    rw [show l + ((hd.rl 0 .machines).deco.blank + 1 + lc (ms.flatMap DMach.lines)) =
      l + ((hd.rl 0 .machines).deco.blank + 1) + lc (ms.flatMap DMach.lines) by omega]
    exact h2

theorem block_lines_head (b : DBlock) : ∃ x r, b.lines = x :: r ∧ x.depth = 0 := by
  cases b <;> exact ⟨_, _, rfl, rfl⟩

theorem docAt_render : ∀ (doc : Doc) (rest : Text) (l : Nat), (∀ b ∈ doc, b.Shape) → (∀ x ∈ doc.lines, x.Ok) →
    countTabs rest < 1 → NoNl rest → l + lc doc.lines ≤ i32Max →
    DocAt (doc.map DBlock.block) (rlText .tabs doc.lines ++ rest) l rest (l + lc doc.lines)
  | [], rest, l, _, _, _, _, _ => by simpa [Doc.lines, rlText, lc] using DocAt.nil (s := rest) (l := l)
  | b :: doc, rest, l, hs, hok, hr, hn, hb => by
    simp only [Doc.lines, List.flatMap_cons, lc_append, rlText_append, List.append_assoc, List.map_cons] at hb hok ⊢
    have ih := docAt_render doc rest (l + lc b.lines) (fun x hx => hs x (List.mem_cons_of_mem _ hx))
      (fun x hx => hok x (List.mem_append_right _ hx)) hr hn (by unfold Doc.lines; omega)
    have hct : countTabs (rlText .tabs (doc.flatMap DBlock.lines) ++ rest) < 1 := by
      have := countTabs_flat DBlock.lines 0 block_lines_head doc rest (by omega)
      omega
    have h1 := blockAt_render b (hs b List.mem_cons_self) (fun x hx => hok x (List.mem_append_left _ hx))
      (rlText .tabs (doc.flatMap DBlock.lines) ++ rest) l hct (rlText_noNl _ _ hn) (by omega)
    rw [show l + (lc b.lines + lc (doc.flatMap DBlock.lines)) = l + lc b.lines + lc (doc.flatMap DBlock.lines) by omega]
    exact DocAt.cons h1 ih

/-! ### what the blocks add up to -/

theorem any_false_of_not_mem (acc : List (Text × Network)) (id : Text) (h : id ∉ acc.map (·.1)) :
    acc.any (fun x => x.1 == id) = false := by
  cases hc : acc.any (fun x => x.1 == id) with
  | false => rfl
  | true => exact absurd ((any_id_iff' acc id).1 hc) h
where
  any_id_iff' (seen : List (Text × Network)) (id : Text) :
      seen.any (fun e => e.1 == id) = true ↔ id ∈ seen.map (·.1) := by
    simp only [List.any_eq_true, beq_iff_eq, List.mem_map]

theorem block_nets (b : DBlock) : (match b.block with | .nets ns => ns | _ => []) = b.nets' := by
  cases b <;> rfl

theorem runDoc_ok : ∀ (doc : Doc) (nets : List (Text × Network)) (ms : List Machine),
    ((nets ++ doc.flatMap DBlock.nets').map (·.1)).Nodup →
    runDoc nets ms (doc.map DBlock.block) =
      .ok (nets ++ doc.flatMap DBlock.nets', ms ++ doc.flatMap DBlock.machs')
  | [], nets, ms, _ => by simp [runDoc]
  | b :: doc, nets, ms, hnd => by
    simp only [List.map_cons, runDoc, List.flatMap_cons]
    cases b with
    | template hd =>
      simp only [DBlock.block, stepBlock, DBlock.nets', DBlock.machs', List.nil_append]
      exact runDoc_ok doc nets ms (by simpa [DBlock.nets'] using hnd)
    | machs hd m =>
      simp only [DBlock.block, stepBlock, DBlock.nets', DBlock.machs', List.nil_append]
      rw [runDoc_ok doc nets _ (by simpa [DBlock.nets'] using hnd)]
      simp
    | nets hd ns =>
      simp only [DBlock.block, stepBlock, DBlock.nets', DBlock.machs', List.nil_append]
      simp only [List.flatMap_cons, DBlock.nets', List.map_append, List.nodup_append] at hnd
      have hns : ((ns.map DNet.net).map (·.1)).Nodup := hnd.2.1.1
      have hfresh : ∀ e ∈ ns.map DNet.net, nets.any (fun x => x.1 == e.1) = false := by
        intro e he
        apply any_false_of_not_mem
        intro hm
        exact hnd.2.2 _ hm _ (List.mem_append_left _ (List.mem_map_of_mem he)) rfl
      rw [mergeNets_nil_left _ [] hns (by simp), mergeNets_nil_left _ nets hns hfresh]
      simp only []
      rw [runDoc_ok doc _ ms (by
        simp only [List.map_append, List.nodup_append]
        refine ⟨⟨hnd.1, hns, ?_⟩, hnd.2.1.2.1, ?_⟩
        · intro a ha b hb; exact hnd.2.2 a ha b (List.mem_append_left _ hb)
        · intro a ha b hb
          rcases List.mem_append.1 ha with ha | ha
          · exact hnd.2.2 a ha b (List.mem_append_right _ hb)
          · exact hnd.2.1.2.2 a ha b hb)]
      simp

/-- the tree builder reads the tab layout of a well-formed written description back to its
    meaning -/
theorem build_renderDoc (doc : Doc) (h : doc.Ok) : build (renderDoc .tabs doc) = .ok doc.sim := by
  obtain ⟨hok, hs, hnd, hb⟩ := h
  have hd := docAt_render doc [] 1 hs hok (by simp [countTabs]) (by intro r h; cases h) hb
  simp only [List.append_nil] at hd
  unfold renderDoc
  rw [build_of hd, runDoc_ok doc [] [] (by simpa [Doc.sim] using hnd)]
  simp [Doc.sim]

/-! ### the file-level rewriting acts on every line of the layout -/

def DLine.norm (x : DLine) : DLine := ⟨x.deco, normParams x.ps⟩
def DNet.norm (n : DNet) : DNet := ⟨n.hd.norm, n.ips.map DLine.norm⟩
def DSec.norm (s : DSec) : DSec := ⟨s.kind, s.hd.norm, s.leaves.map DLine.norm⟩
def DMach.norm (m : DMach) : DMach := ⟨m.hd.norm, m.secs.map DSec.norm⟩
def DBlock.norm : DBlock → DBlock
  | .template hd => .template hd.norm
  | .nets hd ns => .nets hd.norm (ns.map DNet.norm)
  | .machs hd ms => .machs hd.norm (ms.map DMach.norm)

/-- the written description with every key and value normalised (`\r` dropped, four spaces → tab) -/
def normDoc (doc : Doc) : Doc := doc.map DBlock.norm

theorem rl_norm (d : Nat) (dt : DecType) (x : DLine) : x.norm.rl d dt = (x.rl d dt).norm := rfl

theorem map_rl_norm (d : Nat) (dt : DecType) (xs : List DLine) :
    (xs.map DLine.norm).map (DLine.rl d dt) = (xs.map (DLine.rl d dt)).map RLine.norm := by
  simp [List.map_map, Function.comp_def, rl_norm]

theorem DNet.norm_lines (n : DNet) : n.norm.lines = n.lines.map RLine.norm := by
  simp [DNet.lines, DNet.norm, rl_norm]

theorem DSec.norm_lines (s : DSec) : s.norm.lines = s.lines.map RLine.norm := by
  simp [DSec.lines, DSec.norm, rl_norm]

theorem flatMap_norm {α : Type} (f : α → List RLine) (g : α → α) (hg : ∀ a, f (g a) = (f a).map RLine.norm)
    (l : List α) : (l.map g).flatMap f = (l.flatMap f).map RLine.norm := by
  induction l with
  | nil => rfl
  | cons a l ih => simp [hg, ih]

theorem DMach.norm_lines (m : DMach) : m.norm.lines = m.lines.map RLine.norm := by
  simp [DMach.lines, DMach.norm, rl_norm, flatMap_norm DSec.lines DSec.norm DSec.norm_lines]

theorem DBlock.norm_lines (b : DBlock) : b.norm.lines = b.lines.map RLine.norm := by
  cases b with
  | template hd => simp [DBlock.lines, DBlock.norm, rl_norm]
  | nets hd ns => simp [DBlock.lines, DBlock.norm, rl_norm, flatMap_norm DNet.lines DNet.norm DNet.norm_lines]
  | machs hd ms => simp [DBlock.lines, DBlock.norm, rl_norm, flatMap_norm DMach.lines DMach.norm DMach.norm_lines]

theorem normDoc_lines (doc : Doc) : (normDoc doc).lines = doc.lines.map RLine.norm :=
  flatMap_norm DBlock.lines DBlock.norm DBlock.norm_lines doc

theorem fourSpFrom_head : ∀ (r : Text) (j : Nat), 0 < j → j ≤ 3 →
    ∃ c t, fourSpFrom j r = c :: t ∧ (c = ' ' ∨ c = '\t')
  | [], j, h0, _ => by
    obtain ⟨i, rfl⟩ : ∃ i, j = i + 1 := ⟨j - 1, by omega⟩
    exact ⟨' ', List.replicate i ' ', by simp [fourSpFrom, List.replicate_succ], .inl rfl⟩
  | c :: r, j, h0, h3 => by
    unfold fourSpFrom
    split
    · split
      · exact ⟨'\t', _, rfl, .inr rfl⟩
      · exact fourSpFrom_head r (j + 1) (by omega) (by omega)
    · obtain ⟨i, rfl⟩ : ∃ i, j = i + 1 := ⟨j - 1, by omega⟩
      exact ⟨' ', List.replicate i ' ' ++ c :: fourSpFrom 0 r, by simp [List.replicate_succ], .inl rfl⟩

/-- keys that are still keys after the rewriting did not begin with a space -/
theorem keysStart_of_lineOk (ps : Params) (h : LineOk (normParams ps)) : KeysStart ps := by
  intro kv hkv r hr
  have hm : (normalise kv.1, normalise kv.2) ∈ normParams ps := List.mem_map.2 ⟨kv, hkv, rfl⟩
  have hk := (h.1 _ hm).1.2
  obtain ⟨c, t, hct, hc⟩ := fourSpFrom_head r 1 (by omega) (by omega)
  have hn : normalise kv.1 = c :: t := by
    unfold normalise fourSp
    rw [hr]
    simpa [fourSpFrom] using hct
  have := hk c t hn
  rcases hc with rfl | rfl <;> simp [isSep] at this

/-- `core_parser` from the file's text on, for every written form of a description, in every
    layout: the description with all keys and values normalised -/
theorem parse_renderDoc (doc : Doc) (lay : Layout) (h : (normDoc doc).Ok) :
    parse (renderDoc lay doc) = .ok (normDoc doc).sim := by
  have hcond : ∀ x ∈ doc.lines, (' ' ∉ x.deco.tag ∧ '\r' ∉ x.deco.tag) ∧ KeysStart x.ps := by
    intro x hx
    have hxn : x.norm ∈ (normDoc doc).lines := by
      rw [normDoc_lines]; exact List.mem_map_of_mem hx
    have hok := h.1 _ hxn
    exact ⟨tag_no_space_cr x.dt x.deco.tag hok.1, keysStart_of_lineOk x.ps hok.2⟩
  unfold parse renderDoc
  rw [normalise_rlText lay doc.lines hcond, ← normDoc_lines]
  exact build_renderDoc _ h

/-! ### the canonical rendering is one of the written forms -/

def plainLine (dt : DecType) (ps : Params) : DLine := ⟨⟨dt.name, 0⟩, ps⟩

def canonLeaves (dt : DecType) (ls : List Leaf) : List DLine := ls.map fun l => plainLine dt l.options

def canonNet (e : Text × Network) : DNet := ⟨plainLine .network e.2.options, canonLeaves .ip e.2.ip⟩

def canonMach (m : Machine) : DMach :=
  ⟨plainLine .machine m.options,
    [⟨.networks, plainLine .networks [], canonLeaves .network m.networks⟩,
     ⟨.protocols, plainLine .protocols [], canonLeaves .protocol m.protocols⟩,
     ⟨.applications, plainLine .applications [], canonLeaves .application m.applications⟩]⟩

/-- one `[Networks]` block, one `[Machines]` block, sections in the order Networks, Protocols,
    Applications, tags as the variants are spelled, no blank lines: what `render` writes -/
def canon (s : Sim) : Doc :=
  [.nets (plainLine .networks []) (s.networks.map canonNet),
   .machs (plainLine .machines []) (s.machines.map canonMach)]

theorem canonLeaves_lines (d : Nat) (dt : DecType) (ls : List Leaf) (h : ∀ l ∈ ls, l.dectype = dt) :
    (canonLeaves dt ls).map (DLine.rl d dt) = (leafLines d ls).map RLine.plain := by
  induction ls with
  | nil => rfl
  | cons l ls ih =>
    have hl := h l List.mem_cons_self
    simp only [canonLeaves, leafLines, List.map_cons, List.map_map] at ih ⊢
    rw [ih (fun x hx => h x (List.mem_cons_of_mem _ hx))]
    simp [DLine.rl, plainLine, RLine.plain, hl]

theorem canon_lines (s : Sim) (hs : SimOk s) : (canon s).lines = s.lineList.map RLine.plain := by
  obtain ⟨hn, _, hm, _⟩ := hs
  have h1 : ∀ nets : List (Text × Network), (∀ e ∈ nets, NetworkOk e.1 e.2) →
      (nets.map canonNet).flatMap DNet.lines = (nets.flatMap fun e => e.2.lineList).map RLine.plain := by
    intro nets
    induction nets with
    | nil => intro _; rfl
    | cons e nets ih =>
      intro hok
      obtain ⟨_, _, _, _, hips⟩ := hok e List.mem_cons_self
      simp only [List.map_cons, List.flatMap_cons, List.map_append, ih (fun x hx => hok x (List.mem_cons_of_mem _ hx))]
      congr 1
      simp only [DNet.lines, canonNet, Network.lineList, List.map_cons,
        canonLeaves_lines 2 .ip e.2.ip (fun l hl => (hips l hl).1)]
      rfl
  have h2 : ∀ ms : List Machine, (∀ m ∈ ms, MachineOk m) →
      (ms.map canonMach).flatMap DMach.lines = (ms.flatMap (·.lineList)).map RLine.plain := by
    intro ms
    induction ms with
    | nil => intro _; rfl
    | cons m ms ih =>
      intro hok
      obtain ⟨_, _, _, ha, _, hb, _, hc⟩ := hok m List.mem_cons_self
      simp only [List.map_cons, List.flatMap_cons, List.map_append, ih (fun x hx => hok x (List.mem_cons_of_mem _ hx))]
      congr 1
      simp only [DMach.lines, canonMach, Machine.lineList, List.map_cons, List.map_append, List.flatMap_cons,
        List.flatMap_nil, List.append_nil, DSec.lines, secLeaf,
        canonLeaves_lines 3 .network m.networks (fun l hl => (ha l hl).1),
        canonLeaves_lines 3 .protocol m.protocols (fun l hl => (hb l hl).1),
        canonLeaves_lines 3 .application m.applications (fun l hl => (hc l hl).1)]
      simp [DLine.rl, plainLine, RLine.plain]
  simp only [canon, Doc.lines, List.flatMap_cons, List.flatMap_nil, List.append_nil, DBlock.lines,
    Sim.lineList, List.map_cons, List.map_append, h1 s.networks hn, h2 s.machines hm, List.cons_append]
  rfl

theorem renderDoc_canon (lay : Layout) (s : Sim) (hs : SimOk s) : renderDoc lay (canon s) = render lay s := by
  rw [render_lines, linesText_eq_rlText, renderDoc, canon_lines s hs]

end Elvis.Ndl
