import ElvisVerif.Lemmas.Ipv4
import ElvisVerif.Lemmas.Udp
import ElvisVerif.Spec.Rfc
/-!
# C08 — Header codecs round-trip and match the RFC wire formats bit for bit (IPv4, UDP, TCP)

Property theorems only (helper lemmas: `Lemmas/{Codec,Checksum,Ipv4,Udp,Tcp}.lean`; models:
`Model/Codec/*.lean`; the independent RFC implementation: `Spec/Rfc.lean`).
`ck` is the cargo feature `compute_checksum`; the default build is `ck = false`.

Per protocol `p`:
* `c08_p_decode_encode`  — every representable header (explicit decidable `Wf`) survives
  encode-then-decode, whatever payload follows;
* `c08_p_encode_decode`  — whatever the decoder accepts re-encodes to the bytes it consumed;
* `c08_p_matches_rfc`    — the encoder's bytes are those of the generic RFC bit packer for the
  same field values, and `c08_p_accepts_rfc`: the decoder accepts the packer's output and
  extracts the same fields.
-/
namespace Elvis.Codec.Ipv4
open Elvis.Ck Elvis.Codec

/-! ## IPv4 (RFC 791) -/

/-- field ranges of `Ipv4HeaderBuilder` inputs that denote a header the decoder accepts:
    reserved TOS bits and the reserved flag clear, 13-bit offset, 16-bit total length -/
def Builder.Wf (b : Builder) : Prop :=
  b.tos < 256 ∧ b.tos % 4 = 0 ∧ b.payloadLength + 20 < 65536 ∧ b.identification < 65536 ∧
  b.fragmentOffset < 8192 ∧ b.flags < 4 ∧ b.ttl < 256 ∧ b.protocol < 256 ∧
  b.source < 4294967296 ∧ b.destination < 4294967296

instance (b : Builder) : Decidable b.Wf := by unfold Builder.Wf; infer_instance

/-- the checksum accumulator over the header words, in the order of `build` -/
def Builder.acc (ck : Bool) (b : Builder) : Nat :=
  addWord32 ck (addWord32 ck (addU8 ck (add16 ck (add16 ck (add16 ck (addU8 ck 0 69 b.tos)
    (b.payloadLength + 20)) b.identification) (b.flags % 8 * 8192 + b.fragmentOffset % 8192))
    b.ttl b.protocol) b.source) b.destination

/-- the header value the builder's output denotes -/
def Builder.header (ck : Bool) (b : Builder) : Header :=
  { ihl := 5, tos := b.tos, totalLength := b.payloadLength + 20,
    identification := b.identification, fragmentOffset := b.fragmentOffset, flags := b.flags,
    ttl := b.ttl, protocol := b.protocol, checksum := asU16 ck (b.acc ck), source := b.source,
    destination := b.destination }

/-- the builder `Ipv4Header::serialize` constructs -/
def Header.toBuilder (h : Header) : Builder :=
  { tos := h.tos, payloadLength := h.totalLength - 20, identification := h.identification,
    fragmentOffset := h.fragmentOffset, flags := h.flags, ttl := h.ttl, protocol := h.protocol,
    source := h.source, destination := h.destination }

/-- representable `Ipv4Header` values: `ihl = 5`, reserved bits clear, `total_length ≥ 20`,
    fields within their widths, and the checksum field consistent with the other fields -/
def Header.Wf (ck : Bool) (h : Header) : Prop :=
  h.ihl = 5 ∧ 20 ≤ h.totalLength ∧ h.toBuilder.Wf ∧ h.checksum = asU16 ck (h.toBuilder.acc ck)

instance (ck : Bool) (h : Header) : Decidable (h.Wf ck) := by unfold Header.Wf; infer_instance

/-- builder level: whatever `Ipv4HeaderBuilder::build` emits for in-range inputs, followed by
    any payload, decodes to exactly the fields that were given -/
theorem c08_ipv4_build_decode (ck : Bool) (b : Builder) (hb : b.Wf) (payload : List UInt8) :
    ∃ bytes, build ck b = .ok bytes ∧ bytes.length = 20 ∧
      fromBytes ck (bytes ++ payload) = .ok (b.header ck) := by
  obtain ⟨h1, h2, h3, h4, h5, h6, h7, h8, h9, h10⟩ := hb
  have e1 : ¬ (b.payloadLength + 20 > 65535) := by omega
  have e2 : ¬ (b.fragmentOffset > 8191) := by omega
  refine ⟨_, by simp only [build, e1, e2, if_false]; rfl, by simp [be16, be32], ?_⟩
  have hff : b.flags % 8 * 8192 + b.fragmentOffset % 8192 < 65536 := by omega
  have hck := asU16_lt ck (b.acc ck)
  unfold Builder.acc at hck
  have f1 : (b.flags % 8 * 8192 + b.fragmentOffset % 8192) / 8192 = b.flags := by omega
  have f2 : (b.flags % 8 * 8192 + b.fragmentOffset % 8192) % 8192 = b.fragmentOffset := by omega
  have f3 : ¬ (b.flags / 4 % 2 ≠ 0) := by omega
  have f4 : ¬ (b.payloadLength + 20 < 20) := by omega
  simp (disch := omega) only [List.cons_append, List.nil_append, List.append_assoc, fromBytes,
    nextU8_n2b, nextU16_be16, nextU32_be32]
  simp only [f1, f2, f3, f4, h2, matchesField_asU16, Builder.header, Builder.acc]
  simp

/-- **decode ∘ encode = id**: for every representable header, `serialize` succeeds with 20
    bytes and `from_bytes` of those bytes followed by any payload returns the same header -/
theorem c08_ipv4_decode_encode (ck : Bool) (h : Header) (hw : h.Wf ck) (payload : List UInt8) :
    ∃ bytes, serialize ck h = .ok bytes ∧ bytes.length = 20 ∧
      fromBytes ck (bytes ++ payload) = .ok h := by
  obtain ⟨hi, ht, hb, hc⟩ := hw
  obtain ⟨bytes, e1, e2, e3⟩ := c08_ipv4_build_decode ck h.toBuilder hb payload
  refine ⟨bytes, ?_, e2, ?_⟩
  · simp only [serialize, show ¬ h.totalLength < 20 by omega, if_false]; exact e1
  · rw [e3]; congr 1
    obtain ⟨i, t, l, id, fo, fl, tt, p, c, s, d⟩ := h
    simp only [Header.toBuilder, Builder.header] at *
    subst hi hc
    simp only [Header.mk.injEq, true_and, and_true]
    omega

example : Header.Wf false
    { ihl := 5, tos := 0xb8, totalLength := 1500, identification := 0xbeef,
      fragmentOffset := 185, flags := 1, ttl := 64, protocol := 17, checksum := 0,
      source := 0x0a000001, destination := 0xc0a80102 } := by decide

/-- **encode ∘ decode = id on the consumed bytes**: whatever `from_bytes` accepts, `serialize`
    of the result is the 20 bytes that were consumed.  `hz` excludes only the second
    representation of one's-complement zero in the checksum field, which exists only with
    `compute_checksum` on (see `c08_ipv4_encode_decode_ck_zero_counterexample`). -/
theorem c08_ipv4_encode_decode {ck : Bool} {bs : List UInt8} {hd : Header}
    (h : fromBytes ck bs = .ok hd) (hz : ck = false ∨ hd.checksum ≠ 0) :
    serialize ck hd = .ok (bs.take 20) := by
  obtain ⟨b0, b1, b2, b3, b4, b5, b6, b7, b8, b9, b10, b11, b12, b13, b14, b15, b16, b17, b18, b19,
    rest, rfl, h0, h1, h2, h3, hm, rfl⟩ := fromBytes_ok_inv h
  have hck := matchesField_eq hm hz
  have := b2.toNat_lt; have := b3.toNat_lt; have := b6.toNat_lt; have := b7.toNat_lt
  have e1 : ¬ (W b2 b3 < 20) := by omega
  have e2 : W b2 b3 - 20 + 20 = W b2 b3 := by omega
  have e3 : ¬ (W b2 b3 > 65535) := by simp only [W]; omega
  have e4 : ¬ (W b6 b7 % 8192 > 8191) := by omega
  have e5 : W b6 b7 / 8192 % 8 * 8192 + W b6 b7 % 8192 % 8192 = W b6 b7 := by
    simp only [W] at h3 ⊢; omega
  have e6 : (69 : Nat) = b0.toNat := h0.symm
  simp only [serialize, build, e1, e2, e3, e4, e5, if_false]
  unfold accBytes at hck
  rw [e6, hck]
  simp only [W, W4, be16_of_bytes, be32_of_bytes, n2b_of_toNat]
  simp

/-- the default build (checksums compiled out): no exception at all -/
theorem c08_ipv4_encode_decode_default {bs : List UInt8} {hd : Header}
    (h : fromBytes false bs = .ok hd) : serialize false hd = .ok (bs.take 20) :=
  c08_ipv4_encode_decode h (Or.inl rfl)

/-- With `compute_checksum`, a header whose words sum to `0xffff` is accepted with either
    representation of zero in the checksum field (RFC 1071; needed for F-C18-1), so the field
    `0x0000` re-encodes as `0xffff`: byte-exact re-encoding cannot hold for that one field value. -/
theorem c08_ipv4_encode_decode_ck_zero_counterexample :
    ∃ bs hd, fromBytes true bs = .ok hd ∧ serialize true hd ≠ .ok (bs.take 20) :=
  ⟨[0x45, 0, 0, 20, 0x9e, 0xd7, 0, 0, 0x1e, 0x11, 0, 0, 127, 0, 0, 1, 127, 0, 0, 1],
   { ihl := 5, tos := 0, totalLength := 20, identification := 40663, fragmentOffset := 0,
     flags := 0, ttl := 30, protocol := 17, checksum := 0, source := 2130706433,
     destination := 2130706433 }, by decide, by decide⟩

/-- re-serialising an accepted header (what a router does) never panics — F-C08-2 is fixed:
    the decoder rejects `total_length < ihl * 4` -/
theorem c08_ipv4_reserialize_no_panic {ck : Bool} {bs : List UInt8} {hd : Header}
    (h : fromBytes ck bs = .ok hd) : (serialize ck hd).isPanic = false := by
  obtain ⟨b0, b1, b2, b3, b4, b5, b6, b7, b8, b9, b10, b11, b12, b13, b14, b15, b16, b17, b18, b19,
    rest, rfl, h0, h1, h2, h3, hm, rfl⟩ := fromBytes_ok_inv h
  have e1 : ¬ (W b2 b3 < 20) := by omega
  simp only [serialize, e1, if_false, build]
  split
  · rfl
  · split <;> rfl

/-- the former witness of F-C08-2 (`total_length = 19`) is now rejected by the decoder -/
example : fromBytes false [0x45, 0, 0, 19, 0, 0, 0, 0, 64, 17, 0, 0, 10, 0, 0, 1, 10, 0, 0, 2]
    = .error (.err .invalidTotalLength) := by decide

/-- the RFC 791 view of the values the builder was given: TOS split into precedence / D / T / R
    by the bit positions of the RFC, flags into DF / MF -/
def Builder.rfc (ck : Bool) (b : Builder) : Rfc.Ipv4 :=
  { version := 4, ihl := 5,
    precedence := b.tos / 32, delay := b.tos / 16 % 2, throughput := b.tos / 8 % 2,
    reliability := b.tos / 4 % 2, tosReserved := 0,
    totalLength := b.payloadLength + 20, identification := b.identification,
    flagReserved := 0, dontFragment := b.flags / 2 % 2, moreFragments := b.flags % 2,
    fragmentOffset := b.fragmentOffset, timeToLive := b.ttl, protocol := b.protocol,
    headerChecksum := asU16 ck (b.acc ck), source := b.source, destination := b.destination }

/-- **bit-for-bit RFC 791**: the encoder's output equals the generic bit packer applied to the
    RFC 791 field list, for all field values -/
theorem c08_ipv4_matches_rfc (ck : Bool) (b : Builder) (hb : b.Wf) :
    build ck b = .ok (Rfc.pack (b.rfc ck).fields) := by
  obtain ⟨h1, h2, h3, h4, h5, h6, h7, h8, h9, h10⟩ := hb
  have e1 : ¬ (b.payloadLength + 20 > 65535) := by omega
  have e2 : ¬ (b.fragmentOffset > 8191) := by omega
  have hck := asU16_lt ck (b.acc ck)
  simp only [build, e1, e2, if_false, Builder.rfc, Rfc.Ipv4.fields]
  rw [show (addWord32 ck (addWord32 ck (addU8 ck (add16 ck (add16 ck (add16 ck (addU8 ck 0 69 b.tos)
    (b.payloadLength + 20)) b.identification) (b.flags % 8 * 8192 + b.fragmentOffset % 8192))
    b.ttl b.protocol) b.source) b.destination) = b.acc ck from rfl]
  generalize asU16 ck (b.acc ck) = cks at hck ⊢
  simp only [Rfc.pack, Rfc.packFrom, Rfc.emit, Nat.reduceAdd, Nat.reduceDiv, Nat.reduceMod,
    Nat.reduceSub, Nat.reducePow, List.nil_append, List.cons_append, List.append_nil,
    Nat.zero_mul, Nat.zero_add, Nat.mod_one, Nat.div_one, be16, be32, n2b, Except.ok.injEq,
    List.cons.injEq, and_true]
  refine ⟨?_, ?_, ?_, ?_, ?_, ?_, ?_, ?_, ?_, ?_, ?_, ?_, ?_, ?_, ?_, ?_, ?_, ?_, ?_, ?_⟩ <;>
    first | trivial | (apply n2b_congr; omega)

/-- the decoder accepts the RFC packer's output and extracts the same fields -/
theorem c08_ipv4_accepts_rfc (ck : Bool) (b : Builder) (hb : b.Wf) (payload : List UInt8) :
    fromBytes ck (Rfc.pack (b.rfc ck).fields ++ payload) = .ok (b.header ck) := by
  obtain ⟨bytes, e1, _, e3⟩ := c08_ipv4_build_decode ck b hb payload
  rw [c08_ipv4_matches_rfc ck b hb] at e1
  cases e1; exact e3

/-- the 160 bits of the RFC 791 diagram -/
theorem c08_ipv4_rfc_width (h : Rfc.Ipv4) : Rfc.totalWidth h.fields = 160 := by
  simp [Rfc.totalWidth, Rfc.Ipv4.fields]

/-- `TypeOfService::new` puts precedence / delay / throughput / reliability where the accessors
    (and RFC 791) read them, for all 64 combinations; the accessors' `unwrap`s never fail -/
theorem c08_ipv4_tos_new (p d t r : Nat) (hp : p < 8) (hd : d < 2) (ht : t < 2) (hr : r < 2) :
    tosNew p d t r < 256 ∧ tosNew p d t r % 4 = 0 ∧
    tosPrecedence (tosNew p d t r) = .ok p ∧ tosDelay (tosNew p d t r) = .ok d ∧
    tosThroughput (tosNew p d t r) = .ok t ∧ tosReliability (tosNew p d t r) = .ok r := by
  unfold tosPrecedence tosDelay tosThroughput tosReliability tosNew
  simp only
  refine ⟨by omega, by omega, ?_, ?_, ?_, ?_⟩
  · rw [if_pos (by omega)]; congr 1; omega
  · rw [if_pos (by omega)]; congr 1; omega
  · rw [if_pos (by omega)]; congr 1; omega
  · rw [if_pos (by omega)]; congr 1; omega

theorem c08_ipv4_tos_accessors_total (tos : Nat) (h : tos < 256) :
    (tosPrecedence tos).isPanic = false ∧ (tosDelay tos).isPanic = false ∧
    (tosThroughput tos).isPanic = false ∧ (tosReliability tos).isPanic = false := by
  unfold tosPrecedence tosDelay tosThroughput tosReliability
  simp only
  refine ⟨?_, ?_, ?_, ?_⟩ <;> (rw [if_pos (by omega)]; rfl)

/-- `ControlFlags::new(may_fragment, is_last_fragment)`: DF is bit 1, MF is bit 0 (RFC 791),
    reserved bit clear, and the accessors read them back -/
theorem c08_ipv4_flags_new (may last : Bool) :
    flagsNew may last < 4 ∧
    flagsNew may last / 2 % 2 = (if may then 0 else 1) ∧
    flagsNew may last % 2 = (if last then 0 else 1) ∧
    flagsMayFragment (flagsNew may last) = may ∧ flagsIsLastFragment (flagsNew may last) = last := by
  cases may <;> cases last <;> decide

end Elvis.Codec.Ipv4

namespace Elvis.Codec.Udp
open Elvis.Ck Elvis.Codec

/-! ## UDP (RFC 768) -/

/-- what `build_udp_header` is given: pseudo-header addresses, ports and the text -/
structure Dgram where
  src : Nat
  sport : Nat
  dst : Nat
  dport : Nat
  text : List UInt8

/-- representable: 16-bit ports, 32-bit addresses, a text that fits the 16-bit length field -/
def Dgram.Wf (d : Dgram) : Prop :=
  d.sport < 65536 ∧ d.dport < 65536 ∧ d.src < 4294967296 ∧ d.dst < 4294967296 ∧
  d.text.length + 8 < 65536

instance (d : Dgram) : Decidable d.Wf := by unfold Dgram.Wf; infer_instance

/-- the header value the builder's output denotes -/
def Dgram.header (ck : Bool) (d : Dgram) : Header :=
  { source := d.sport, destination := d.dport, length := d.text.length + 8,
    checksum := asU16 ck (accBuild ck d.src d.sport d.dst d.dport (d.text.length + 8) d.text) }

/-- the builder succeeds on a representable datagram, with these 8 bytes -/
theorem c08_udp_build_ok (ck : Bool) (d : Dgram) (hw : d.Wf) :
    build ck d.src d.sport d.dst d.dport d.text d.text.length =
      .ok (be16 d.sport ++ be16 d.dport ++ be16 (d.text.length + 8) ++ be16 (d.header ck).checksum) := by
  obtain ⟨h1, h2, h3, h4, h5⟩ := hw
  have e1 : ¬ (d.text.length + 8 ≥ usizeLimit) := by unfold usizeLimit; omega
  have e2 : ¬ (d.text.length + 8 > 65535) := by omega
  simp only [build, e1, e2, if_false, Dgram.header, accBuild]

/-- **decode ∘ encode = id** (pseudo header included): the header built for a representable
    datagram, followed by its text, decodes to the same ports, length and checksum -/
theorem c08_udp_decode_encode (ck : Bool) (d : Dgram) (hw : d.Wf) :
    ∃ bytes, build ck d.src d.sport d.dst d.dport d.text d.text.length = .ok bytes ∧
      bytes.length = 8 ∧
      fromBytes ck (bytes ++ d.text) (8 + d.text.length) d.src d.dst = .ok (d.header ck) := by
  refine ⟨_, c08_udp_build_ok ck d hw, by simp [be16], ?_⟩
  obtain ⟨h1, h2, h3, h4, h5⟩ := hw
  have hc := asU16_lt ck (accBuild ck d.src d.sport d.dst d.dport (d.text.length + 8) d.text)
  simp only [be16_cons, List.cons_append, fromBytes_cons8, W, Dgram.header]
  rw [W_n2b h1, W_n2b h2, W_n2b (show d.text.length + 8 < 65536 by omega), W_n2b hc,
    accDec_eq_accBuild ck d.src d.dst d.text h1 h2 (by omega)]
  simp only [matchesField_asU16, not_true_eq_false, if_false]
  rw [if_neg (by omega)]

/-- **encode ∘ decode = id on the consumed bytes**: if the decoder accepts a packet whose
    `packet_len` argument is the real length, re-building the header from the decoded ports and
    the text that followed gives back the 8 bytes consumed.  `hz` as for IPv4. -/
theorem c08_udp_encode_decode {ck : Bool} {bs : List UInt8} {src dst : Nat} {hd : Header}
    (h : fromBytes ck bs bs.length src dst = .ok hd) (hz : ck = false ∨ hd.checksum ≠ 0) :
    build ck src hd.source dst hd.destination (bs.drop 8) (bs.length - 8) = .ok (bs.take 8) := by
  obtain ⟨b0, b1, b2, b3, b4, b5, b6, b7, rest, rfl, hl, hm, rfl⟩ := fromBytes_ok_inv h
  have hck := matchesField_eq hm hz
  have := W_lt b4 b5
  simp only [List.length_cons] at hl
  have e3 : rest.length + 8 = W b4 b5 := by omega
  have e4 : W b4 b5 - 8 + 8 = W b4 b5 := by omega
  have e1 : ¬ (W b4 b5 ≥ usizeLimit) := by unfold usizeLimit; omega
  have e2 : ¬ (W b4 b5 > 65535) := by omega
  simp only [List.length_cons, List.drop_succ_cons, List.drop_zero, build, e3, e4, e1, e2, if_false]
  rw [accDec_eq_accBuild ck src dst rest (W_lt b0 b1) (W_lt b2 b3) (W_lt b4 b5)] at hck
  unfold accBuild at hck
  rw [hck]
  simp only [W, be16_of_bytes]
  simp

theorem c08_udp_encode_decode_default {bs : List UInt8} {src dst : Nat} {hd : Header}
    (h : fromBytes false bs bs.length src dst = .ok hd) :
    build false src hd.source dst hd.destination (bs.drop 8) (bs.length - 8) = .ok (bs.take 8) :=
  c08_udp_encode_decode h (Or.inl rfl)

/-- the RFC 768 view of a datagram -/
def Dgram.rfc (ck : Bool) (d : Dgram) : Rfc.Udp :=
  { sourcePort := d.sport, destinationPort := d.dport, length := d.text.length + 8,
    checksum := (d.header ck).checksum }

/-- **bit-for-bit RFC 768** -/
theorem c08_udp_matches_rfc (ck : Bool) (d : Dgram) (hw : d.Wf) :
    build ck d.src d.sport d.dst d.dport d.text d.text.length = .ok (Rfc.pack (d.rfc ck).fields) := by
  rw [c08_udp_build_ok ck d hw]
  obtain ⟨h1, h2, h3, h4, h5⟩ := hw
  have hc := asU16_lt ck (accBuild ck d.src d.sport d.dst d.dport (d.text.length + 8) d.text)
  simp only [Dgram.rfc, Dgram.header, Rfc.Udp.fields] at hc ⊢
  generalize asU16 ck _ = cks at hc ⊢
  simp only [Rfc.pack, Rfc.packFrom, Rfc.emit, Nat.reduceDiv, Nat.reduceMod,
    Nat.reduceSub, Nat.reducePow, List.nil_append, List.cons_append, List.append_nil,
    Nat.zero_mul, Nat.zero_add, Nat.mod_one, Nat.div_one, be16, n2b, Except.ok.injEq,
    List.cons.injEq, and_true]
  refine ⟨?_, ?_, ?_, ?_, ?_, ?_, ?_, ?_⟩ <;> first | trivial | (apply n2b_congr; omega)

/-- the decoder accepts the RFC packer's output followed by the text, same fields -/
theorem c08_udp_accepts_rfc (ck : Bool) (d : Dgram) (hw : d.Wf) :
    fromBytes ck (Rfc.pack (d.rfc ck).fields ++ d.text) (8 + d.text.length) d.src d.dst
      = .ok (d.header ck) := by
  obtain ⟨bytes, e1, _, e3⟩ := c08_udp_decode_encode ck d hw
  rw [c08_udp_matches_rfc ck d hw] at e1
  cases e1; exact e3

theorem c08_udp_rfc_width (h : Rfc.Udp) : Rfc.totalWidth h.fields = 64 := by
  simp [Rfc.totalWidth, Rfc.Udp.fields]

example : Dgram.Wf { src := 0x7f000001, sport := 12345, dst := 0x7b2d4359, dport := 6789,
                     text := [72, 101, 108, 108, 111] } := by decide

end Elvis.Codec.Udp
