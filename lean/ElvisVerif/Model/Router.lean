import ElvisVerif.Generated.RouterCert
import ElvisVerif.Generated.Arp
/-
Model of static routing through `ArpRouter` (sim/elvis/src/applications/arp_router.rs) together
with the pieces of the stack a routed datagram touches: `Ipv4::demux` (listen bindings incl. the
wildcard binding, whole-datagram test of the reassembler), `Ipv4Header::serialize`, the host send
path (`Ipv4::open_for_sending` / `Arp::resolve` with `SubnetInfo`: off-subnet -> default gateway),
`Udp::demux` to a recording application, `PciSession::send_pci` (MTU) and `Network::send`
(unicast to the tap that owns the MAC).

Two layers, both executable:

* ABSTRACT (`State`, `Choice`, `step`, `run`): a packet is a token (`Pkt.tok` is a ghost field),
  a hop is one `ArpRouter::demux` call.  The state is the multiset of IPv4 frames in flight plus
  the forwards that wait for their ARP resolution (`Pending` = the task spawned by
  `ArpRouter::demux` / the host's `open_for_sending`).  ALL nondeterminism is a `Choice`: which
  frame is delivered next, and how each ARP resolution ends (`resolved j mac` with ANY mac, or
  `unresolved j`).  The theorems of Props/C16.lean quantify over all choice lists, hence over all
  arrival orders of ARP and data frames and over every behaviour of ARP itself.
* CONCRETE (`CState`, `CChoice`, `cstep`): adds the ARP machinery as coded in protocols/arp.rs
  (per-machine table keyed by IP only, learn-from-every-packet, reply when the target is a local
  IP, retry budget, failed entries) so that the driver can reproduce the exact frames of a run.
  `cstep` is built from the abstract step functions; `Props/C16.lean` proves it refines `step`.

Longest-prefix lookup is modelled as "the most specific containing entry" (C09 is about the real
`IpTable`).  Header checksums are not part of the token (they are recomputed by `serialize`).
Every checked arithmetic / unwrap / index of the forwarding path is a panic site (`.error`).
-/
namespace Elvis.Router

abbrev Addr := Nat
abbrev Mac := Nat
abbrev NetId := Nat
abbrev Slot := Nat

/-- the fields of `Ipv4Header` that travel (ihl is always 5; the checksum is recomputed) -/
structure Hdr where
  tos : Nat
  totalLength : Nat
  ident : Nat
  fragOffset : Nat
  /-- control-flag bits as parsed: bit 0 = more fragments, bit 1 = don't fragment -/
  flags : Nat
  ttl : Nat
  proto : Nat
  src : Addr
  dst : Addr
deriving DecidableEq, Repr

/-- a datagram: `tok` (ghost) names the send it descends from; `payload` = bytes after the header -/
structure Pkt where
  tok : Nat
  hdr : Hdr
  payload : List UInt8
deriving DecidableEq, Repr

def Pkt.withTtl (p : Pkt) (t : Nat) : Pkt := { p with hdr := { p.hdr with ttl := t } }

/-! ### routing table (`IpTable<(Option<Ipv4Address>, PciSlot)>`) -/

structure RouteEntry where
  net : Addr
  len : Nat
  gw : Option Addr
  slot : Slot
deriving DecidableEq, Repr

def prefixOf (a : Addr) (len : Nat) : Nat := a / 2 ^ (32 - len)

def RouteEntry.contains (e : RouteEntry) (a : Addr) : Bool := prefixOf a e.len == prefixOf e.net e.len

/-- among containing entries the longer mask wins; two containing entries of equal length have
    the same key in the `BTreeMap`, where the later `add` replaced the earlier one -/
def better (best : Option RouteEntry) (e : RouteEntry) : Option RouteEntry :=
  match best with
  | none => some e
  | some b => if b.len ≤ e.len then some e else some b

/-- `IpTable::get_recipient` over the list of `add`s that built the table: the most specific
    entry that contains the address -/
def lookup (t : List RouteEntry) (a : Addr) : Option RouteEntry :=
  t.foldl (fun best e => if e.contains a then better best e else best) none

/-! ### machines -/

/-- upstream protocol of an `Ipv4` listen binding -/
inductive Up
  | router   -- ArpRouter
  | udp      -- Udp (with a recording application above it)
deriving DecidableEq, Repr

structure Bind where
  addr : Addr
  pn : Nat
  up : Up
deriving DecidableEq, Repr

structure Node where
  /-- Pci sessions: (network, MAC) per slot -/
  slots : List (NetId × Mac)
  /-- `Ipv4.listen_bindings` -/
  binds : List Bind
  /-- `Udp.listen_bindings` of the recording application: (address, port) -/
  udpPorts : List (Addr × Nat)
  /-- `Arp.local_ips[ip] = Some(SubnetInfo { mask, default_gateway })`: (ip, mask length, gateway) -/
  subnet : Option (Addr × Nat × Addr)
  /-- `ArpRouter.local_ips` (per slot); for a host: its own address at slot 0 -/
  localIps : List Addr
  /-- `ArpRouter.ip_table` -/
  table : List RouteEntry
  /-- keys of `Arp.local_ips`: the addresses this machine answers ARP requests for -/
  arpIps : List Addr
deriving DecidableEq, Repr

structure Topo where
  nodes : List Node
  /-- MTU per network -/
  mtus : List Nat
deriving Repr

def Topo.mtu (t : Topo) (net : NetId) : Nat := (t.mtus[net]?).getD 65535

/-- `ProtocolNumber::from(u8)` -/
def protoClass (p : Nat) : Nat :=
  if p = 6 ∨ p = 17 ∨ p = 253 ∨ p = 254 ∨ p = 255 then p else 0

/-- `Ipv4::demux`: exact binding first, then the 0.0.0.0 binding -/
def findBind (bs : List Bind) (a : Addr) (pn : Nat) : Option Up :=
  match bs.find? (fun b => b.addr == a && b.pn == pn) with
  | some b => some b.up
  | none => (bs.find? (fun b => b.addr == 0 && b.pn == pn)).map (·.up)

/-- `Arp::resolve`: with `SubnetInfo` for the local address, an off-subnet remote is replaced by
    the default gateway -/
def arpTarget (nd : Node) (loc remote : Addr) : Addr :=
  match nd.subnet with
  | some (ip, len, gw) =>
    if ip = loc then (if prefixOf loc len = prefixOf remote len then remote else gw) else remote
  | none => remote

/-- a forward waiting for its ARP resolution: the task spawned by `ArpRouter::demux`
    (`viaRouter`) or a host's `open_for_sending` + `send` -/
structure Pending where
  node : Nat
  slot : Slot
  loc : Addr
  nextHop : Addr
  viaRouter : Bool
  pkt : Pkt
deriving DecidableEq, Repr

structure Frame where
  net : NetId
  smac : Mac
  dmac : Mac
  pkt : Pkt
deriving DecidableEq, Repr

/-- `ArpRouter::demux` up to the `tokio::spawn`: `.error` = panic, `.ok none` = returned without
    forwarding, `.ok (some p)` = the spawned task -/
def routerDemux (n : Nat) (nd : Node) (pkt : Pkt) : Except String (Option Pending) :=
  match Elvis.Gen.routerTtlKernel pkt.hdr.ttl with
  | .error e => .error e
  | .ok none => .ok none
  | .ok (some ttl) =>
    -- `ipv4_header.serialize()`: `self.total_length - BASE_OCTETS`, then the builder
    if pkt.hdr.totalLength < Elvis.Gen.ipv4BaseOctets then .error "panic:sub:Ipv4Header::serialize:total_length"
    else if pkt.hdr.fragOffset > Elvis.Gen.ipv4FragmentOffsetMask then .ok none
    else
      match lookup nd.table pkt.hdr.dst with
      | none => .ok none
      | some e =>
        let gw := e.gw.getD pkt.hdr.dst
        match nd.localIps[e.slot]? with
        | none => .error "panic:index:ArpRouter::demux:local_ips"
        | some loc =>
          .ok (some { node := n, slot := e.slot, loc := loc, nextHop := arpTarget nd loc gw,
                      viaRouter := true, pkt := pkt.withTtl ttl })

/-- reassembler: a datagram with MF = 0 and offset 0 is complete; anything else is buffered in a
    per-demux session and never completes -/
def isWhole (h : Hdr) : Bool := h.flags % 2 == 0 && h.fragOffset == 0

/-- what one tap delivery of an IPv4 frame leads to -/
inductive Demuxed
  | dropped
  | app (port : Nat) (data : List UInt8)
  | routed (p : Option Pending)
deriving DecidableEq, Repr

/-- `Udp::demux` (well-formed UDP header assumed): exact (address, port) binding, then (0.0.0.0, port) -/
def udpDemux (nd : Node) (pkt : Pkt) : Demuxed :=
  match pkt.payload with
  | _ :: _ :: d1 :: d0 :: _ :: _ :: _ :: _ :: data =>
    let port := d1.toNat * 256 + d0.toNat
    if nd.udpPorts.contains (pkt.hdr.dst, port) || nd.udpPorts.contains (0, port) then .app port data
    else .dropped
  | _ => .dropped

/-- `Ipv4::demux` after a successful header parse, + `Ipv4Session::receive` -/
def ipv4DemuxParsed (n : Nat) (nd : Node) (pkt : Pkt) : Except String Demuxed :=
  match findBind nd.binds pkt.hdr.dst (protoClass pkt.hdr.proto) with
  | none => .ok .dropped
  | some up =>
    if isWhole pkt.hdr then
      match up with
      | .udp => .ok (udpDemux nd pkt)
      | .router =>
        match routerDemux n nd pkt with
        | .error e => .error e
        | .ok r => .ok (.routed r)
    else .ok .dropped

/-- `Ipv4Header::from_bytes` refuses a total length below the header length (if the source has
    that test: extracted per run) -/
def headerRejected (h : Hdr) : Bool :=
  Elvis.Gen.ipv4DecoderRejectsShortTotalLength && decide (h.totalLength < Elvis.Gen.ipv4BaseOctets)

/-- `Ipv4::demux`: header parse, binding, reassembler, upstream -/
def ipv4Demux (n : Nat) (nd : Node) (pkt : Pkt) : Except String Demuxed :=
  if headerRejected pkt.hdr then .ok .dropped else ipv4DemuxParsed n nd pkt

def frameLen (p : Pkt) : Nat := 20 + p.payload.length

/-- the resolved half of the spawned task: `Pci::open(slot)` then `send_pci(message, Some(mac))`.
    `ArpRouter` `expect`s the send to succeed; a host application sees the `Mtu` error. -/
def emit (topo : Topo) (p : Pending) (mac : Mac) : Except String (Option Frame) :=
  match topo.nodes[p.node]? with
  | none => .ok none
  | some nd =>
    match nd.slots[p.slot]? with
    | none => .error "panic:unwrap:Pci::open"
    | some (net, smac) =>
      if topo.mtu net < frameLen p.pkt then
        (if p.viaRouter then .error "panic:expect:ArpRouter::demux:send_pci" else .ok none)
      else .ok (some { net := net, smac := smac, dmac := mac, pkt := p.pkt })

/-- host send path: `Ipv4::open_for_sending` (slot 0 of the host's table) + `Arp::resolve` target -/
def hostSend (h : Nat) (nd : Node) (pkt : Pkt) : Option Pending :=
  match nd.localIps[0]? with
  | none => none
  | some loc => some { node := h, slot := 0, loc := loc, nextHop := arpTarget nd loc pkt.hdr.dst,
                       viaRouter := false, pkt := pkt }

def slotOf (nd : Node) (net : NetId) (mac : Mac) : Option Slot :=
  nd.slots.findIdx? (fun s => s.1 == net && s.2 == mac)

def tapOwnerFrom (i : Nat) : List Node → NetId → Mac → Option (Nat × Node × Slot)
  | [], _, _ => none
  | nd :: rest, net, mac =>
    match slotOf nd net mac with
    | some σ => some (i, nd, σ)
    | none => tapOwnerFrom (i + 1) rest net mac

/-- `Network::send`, unicast: the tap registered under the MAC on that network -/
def tapOwner (topo : Topo) (net : NetId) (mac : Mac) : Option (Nat × Node × Slot) :=
  tapOwnerFrom 0 topo.nodes net mac

/-! ### abstract transition system -/

inductive Ev
  /-- one `ArpRouter::demux` call on this datagram (as received) -/
  | hop (node : Nat) (pkt : Pkt)
  /-- a frame handed to a network -/
  | wire (f : Frame)
  /-- `demux` of a recording application -/
  | app (node : Nat) (pkt : Pkt) (port : Nat) (data : List UInt8)
deriving Repr

structure State where
  flight : List Frame
  pend : List Pending
  log : List Ev
deriving Repr

def State.empty : State := { flight := [], pend := [], log := [] }

inductive Choice
  /-- the i-th frame in flight reaches the tap it is addressed to -/
  | deliver (i : Nat)
  /-- the ARP resolution of the j-th pending forward ends with this MAC -/
  | resolved (j : Nat) (mac : Mac)
  /-- the ARP resolution of the j-th pending forward fails (retry budget exhausted / failed entry) -/
  | unresolved (j : Nat)
  /-- the application of machine `h` hands a datagram to its stack -/
  | send (h : Nat) (pkt : Pkt)
  /-- a crafted frame is put on a network -/
  | inject (f : Frame)
deriving Repr

def Choice.isInput : Choice → Bool
  | .send _ _ => true
  | .inject _ => true
  | _ => false

/-- delivery of the i-th frame: (remaining frames, spawned forwards, events) -/
def deliverCore (topo : Topo) (flight : List Frame) (i : Nat) :
    Except String (List Frame × List Pending × List Ev) :=
  match flight[i]? with
  | none => .ok (flight, [], [])
  | some f =>
    let fl := flight.eraseIdx i
    match tapOwner topo f.net f.dmac with
    | none => .ok (fl, [], [])      -- "Trying to deliver to an invalid MAC address"
    | some (n, nd, _) =>
      match ipv4Demux n nd f.pkt with
      | .error e => .error e
      | .ok .dropped => .ok (fl, [], [])
      | .ok (.app port data) => .ok (fl, [], [.app n f.pkt port data])
      | .ok (.routed none) => .ok (fl, [], [.hop n f.pkt])
      | .ok (.routed (some p)) => .ok (fl, [p], [.hop n f.pkt])

/-- the resolved forward leaves as at most one frame -/
def resolveCore (topo : Topo) (p : Pending) (mac : Mac) : Except String (List Frame × List Ev) :=
  match emit topo p mac with
  | .error e => .error e
  | .ok none => .ok ([], [])
  | .ok (some f) => .ok ([f], [.wire f])

def sendCore (topo : Topo) (h : Nat) (pkt : Pkt) : List Pending :=
  match topo.nodes[h]? with
  | none => []
  | some nd =>
    match hostSend h nd pkt with
    | none => []
    | some p => [p]

def step (topo : Topo) (s : State) : Choice → Except String State
  | .deliver i =>
    match deliverCore topo s.flight i with
    | .error e => .error e
    | .ok (fl, ps, evs) => .ok { flight := fl, pend := s.pend ++ ps, log := s.log ++ evs }
  | .resolved j mac =>
    match s.pend[j]? with
    | none => .ok s
    | some p =>
      match resolveCore topo p mac with
      | .error e => .error e
      | .ok (fs, evs) => .ok { flight := s.flight ++ fs, pend := s.pend.eraseIdx j, log := s.log ++ evs }
  | .unresolved j => .ok { s with pend := s.pend.eraseIdx j }
  | .send h pkt => .ok { s with pend := s.pend ++ sendCore topo h pkt }
  | .inject f => .ok { s with flight := s.flight ++ [f], log := s.log ++ [.wire f] }

def run (topo : Topo) : State → List Choice → Except String State
  | s, [] => .ok s
  | s, c :: cs =>
    match step topo s c with
    | .error e => .error e
    | .ok s' => run topo s' cs

/-! ### concrete layer: ARP as coded -/

structure ArpFrame where
  net : NetId
  smac : Mac
  /-- `none` = broadcast -/
  dmac : Option Mac
  isReq : Bool
  sip : Addr
  sha : Mac
  tip : Addr
  tha : Mac
deriving DecidableEq, Repr

/-- `ArpTable`: `some mac` = `Ok(mac)`, `none` = `Err(NoResponseError)` -/
abbrev Cache := List (Addr × Option Mac)

def Cache.get (c : Cache) (ip : Addr) : Option (Option Mac) := (c.find? (fun e => e.1 == ip)).map (·.2)
def Cache.set (c : Cache) (ip : Addr) (v : Option Mac) : Cache := (ip, v) :: c.filter (fun e => e.1 != ip)

/-- what the table tells `Arp::resolve` (first look-up, and every wake-up of `get_mac`): an `Ok`
    entry is an answer; an `Err` entry left by an earlier resolution that gave up is one only if
    the source still treats it so (`Gen.Arp.cachedFailureIsAnswer`, extracted per run; `false`
    since fix 80c9d3df: resolve asks again, and a waiter is not failed by another resolver's
    time-out) -/
def Cache.answer (c : Cache) (ip : Addr) : Option (Option Mac) :=
  match c.get ip with
  | some (some mac) => some (some mac)
  | some none => if Elvis.Gen.Arp.cachedFailureIsAnswer then some none else none
  | none => none

/-- resolve task of a pending forward: remaining ARP requests, and whether it already ran once -/
structure Task where
  p : Pending
  tries : Nat
  started : Bool
deriving Repr

structure CState where
  flight : List Frame
  tasks : List Task
  log : List Ev
  caches : List Cache
  arpFlight : List ArpFrame
  arpLog : List ArpFrame
deriving Repr

def CState.init (topo : Topo) : CState :=
  { flight := [], tasks := [], log := [], caches := topo.nodes.map (fun _ => []), arpFlight := [], arpLog := [] }

def CState.abs (s : CState) : State := { flight := s.flight, pend := s.tasks.map (·.p), log := s.log }

inductive CChoice
  | deliver (i : Nat)
  /-- the resolve task of pending j is polled: table answer / retry timer / give-up -/
  | task (j : Nat)
  /-- the a-th ARP frame in flight is delivered (a broadcast reaches every tap of its network) -/
  | arp (a : Nat)
  | send (h : Nat) (pkt : Pkt)
  | inject (f : Frame)
deriving Repr

def newTask (p : Pending) : Task := { p := p, tries := Elvis.Gen.arpResendTries, started := false }

def setCache (cs : List Cache) (n : Nat) (ip : Addr) (v : Option Mac) : List Cache :=
  match cs[n]? with
  | none => cs
  | some c => cs.set n (c.set ip v)

/-- taps of a network in machine/slot order: (machine, node, mac) -/
def tapsOnFrom (i : Nat) : List Node → NetId → List (Nat × Node × Mac)
  | [], _ => []
  | nd :: rest, net =>
    ((nd.slots.filter (fun s => s.1 == net)).map (fun s => (i, nd, s.2))) ++ tapsOnFrom (i + 1) rest net

def tapsOn (topo : Topo) (net : NetId) : List (Nat × Node × Mac) := tapsOnFrom 0 topo.nodes net

/-- `Arp::demux` on one tap: learn the sender, answer a request for a local address -/
def arpReceive (fr : ArpFrame) (acc : List Cache × List ArpFrame) (tap : Nat × Node × Mac) : List Cache × List ArpFrame :=
  let (n, nd, mac) := tap
  let caches := setCache acc.1 n fr.sip (some fr.sha)
  if fr.isReq && nd.arpIps.contains fr.tip then
    (caches, acc.2 ++ [{ net := fr.net, smac := mac, dmac := some fr.sha, isReq := false,
                         sip := fr.tip, sha := mac, tip := fr.sip, tha := fr.sha }])
  else (caches, acc.2)

def cstep (topo : Topo) (s : CState) : CChoice → Except String CState
  | .deliver i =>
    match deliverCore topo s.flight i with
    | .error e => .error e
    | .ok (fl, ps, evs) => .ok { s with flight := fl, tasks := s.tasks ++ ps.map newTask, log := s.log ++ evs }
  | .send h pkt => .ok { s with tasks := s.tasks ++ (sendCore topo h pkt).map newTask }
  | .inject f => .ok { s with flight := s.flight ++ [f], log := s.log ++ [.wire f] }
  | .task j =>
    match s.tasks[j]? with
    | none => .ok s
    | some t =>
      match ((s.caches[t.p.node]?).getD []).answer t.p.nextHop with
      | some (some mac) =>
        match resolveCore topo t.p mac with
        | .error e => .error e
        | .ok (fs, evs) => .ok { s with flight := s.flight ++ fs, tasks := s.tasks.eraseIdx j, log := s.log ++ evs }
      | some none => .ok { s with tasks := s.tasks.eraseIdx j }
      | none =>
        if t.tries = 0 then
          .ok { s with tasks := s.tasks.eraseIdx j, caches := setCache s.caches t.p.node t.p.nextHop none }
        else
          match (topo.nodes[t.p.node]?).bind (fun nd => nd.slots[t.p.slot]?) with
          | none => .error "panic:unwrap:Pci::open"
          | some (net, smac) =>
            let rq : ArpFrame := { net := net, smac := smac, dmac := none, isReq := true,
                                   sip := t.p.loc, sha := smac, tip := t.p.nextHop, tha := 0 }
            .ok { s with tasks := s.tasks.set j { t with tries := t.tries - 1, started := true },
                         arpFlight := s.arpFlight ++ [rq], arpLog := s.arpLog ++ [rq] }
  | .arp a =>
    match s.arpFlight[a]? with
    | none => .ok s
    | some fr =>
      let rest := s.arpFlight.eraseIdx a
      let taps := match fr.dmac with
        | none => tapsOn topo fr.net
        | some m => ((tapsOn topo fr.net).filter (fun (t : Nat × Node × Mac) => t.2.2 == m)).take 1
      let r := taps.foldl (arpReceive fr) (s.caches, [])
      .ok { s with arpFlight := rest ++ r.2, arpLog := s.arpLog ++ r.2, caches := r.1 }

/-! ### loss of ARP frames (the fault schedules of the differential runs)

A network may lose a frame.  For ARP frames this is what makes a resolution run out of its retry
budget although the owner of the address exists (it answers too late, or its answers get lost),
after which a later resolution must succeed again.  Loss is not a `CChoice`: a lost frame was sent
(it stays in `arpLog`) and simply reaches nobody, i.e. `dropArp`; `Props/C16.lean` shows that such
a step is invisible to the abstract system and does not add weight, so every bound proved for
`cstep` runs also holds for runs interleaved with losses. -/

/-- which ARP frames a fault schedule takes off the networks while it is active: every ARP frame
    SENT by machine `node` (its requests and its replies), or (`inbound`) every ARP request FOR
    one of that machine's own addresses -/
structure ArpLoss where
  node : Nat
  inbound : Bool
deriving DecidableEq, Repr

def ArpLoss.hits (topo : Topo) (l : ArpLoss) (fr : ArpFrame) : Bool :=
  if l.inbound then
    fr.isReq && ((topo.nodes[l.node]?).map (fun nd => nd.localIps.contains fr.tip)).getD false
  else
    match tapOwner topo fr.net fr.smac with
    | some (n, _, _) => n == l.node
    | none => false

/-- the network loses the a-th ARP frame in flight -/
def dropArp (s : CState) (a : Nat) : CState := { s with arpFlight := s.arpFlight.eraseIdx a }

/-- canonical schedule of the driver: runnable resolve tasks first (fresh ones, or those whose
    target now has an answering table entry), then ARP frames, then data frames (oldest first), and only when
    nothing else can move a retry timer.  Returns `none` when the system is quiescent. -/
def nextChoice (s : CState) : Option CChoice :=
  let runnable := s.tasks.findIdx? (fun t =>
    !t.started || (((s.caches[t.p.node]?).getD []).answer t.p.nextHop).isSome)
  match runnable with
  | some j => some (.task j)
  | none =>
    if !s.arpFlight.isEmpty then some (.arp 0)
    else if !s.flight.isEmpty then some (.deliver 0)
    else if !s.tasks.isEmpty then some (.task 0)
    else none

def runFifo (topo : Topo) : Nat → CState → Except String CState
  | 0, s => .ok s
  | fuel + 1, s =>
    match nextChoice s with
    | none => .ok s
    | some c =>
      match cstep topo s c with
      | .error e => .error e
      | .ok s' => runFifo topo fuel s'

end Elvis.Router
