//! hfull: correspondence + oracle runs; sub-command `cXX` or `cXX-<variant>` selects the module.
mod props;
mod scaffold;
use hcommon::{install_panic_hook, parse_args};

fn main() {
    install_panic_hook();
    let args = parse_args();
    let key = args.prop.split('-').next().unwrap_or("").to_string();
    match key.as_str() {
        "scaffold" => scaffold::demo(),
        "c02" => props::c02::run(&args),
        "c04" => props::c04::run(&args),
        "c05" => props::c05::run(&args),
        "c06" => props::c06::run(&args),
        "c13" => props::c13::run(&args),
        "c14" => props::c14::run(&args),
        "c17" => props::c14s::run(&args),
        "c15" => props::c15::run(&args),
        "c16" => props::c16::run(&args),
        "c19" => props::c19::run(&args),
        "c20" => props::c20::run(&args),
        p => {
            eprintln!("hfull: unknown property {}", p);
            std::process::exit(2);
        }
    }
}
