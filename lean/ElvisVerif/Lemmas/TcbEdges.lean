import ElvisVerif.Lemmas.TcbInv
import ElvisVerif.Spec.Rfc9293
/-!
# Every block of `process_segment` moves along edges of the RFC 9293 state diagram

For C03.  One lemma per block, guards symbolic, case split on the (at most nine) states only:
the state after the block is the state before it or one `rfcCause` edge away for the event
"a segment with these control bits"; a result that makes the caller delete the TCB is an edge
to `none` for that event.  Alongside, the invariant `TwInv` (the TIME-WAIT timer runs only in
TIME-WAIT), which is what makes `advance_time` delete a TCB only along TIME-WAIT → CLOSED.
-/
namespace Elvis.Tcp
open Elvis.Rfc9293
namespace Tcb

/-- the event an arriving segment stands for: its four control bits -/
def evOf (c : Ctl) : Event := .segment c.ack c.rst c.syn c.fin

/-- `b` is `a`, or one edge caused by `ev` away -/
def Step (ev : Event) (a b : State) : Prop := rfcStepBy ev (some a) (some b) = true

theorem Step.refl (ev : Event) (a : State) : Step ev a a := by
  unfold Step rfcStepBy; simp

theorem Step.of_eq {ev : Event} {a b : State} (h : b = a) : Step ev a b := by
  subst h; exact Step.refl _ _

/-- the 2·MSL timer is armed only in TIME-WAIT -/
def TwInv (s : Tcb) : Prop := s.timeouts.timeWait.isSome = true → s.state = .TimeWait

/-- a result that makes the caller delete the TCB is an edge to "no TCB" for `ev` -/
def Del (ev : Event) (s' : Tcb) (r : Option ProcessSegmentResult) : Prop :=
  ∀ x, r = some x → x.shouldDeleteTcb = true → rfcCause ev (some s'.state) none = true

/-- connection state and TIME-WAIT timer unchanged -/
structure Keep (s s' : Tcb) : Prop where
  state : s'.state = s.state
  tw : s'.timeouts.timeWait = s.timeouts.timeWait

theorem Keep.refl (s : Tcb) : Keep s s := ⟨rfl, rfl⟩
theorem Keep.trans {a b c : Tcb} (h1 : Keep a b) (h2 : Keep b c) : Keep a c :=
  ⟨h2.state.trans h1.state, h2.tw.trans h1.tw⟩

theorem Keep.step {s s' : Tcb} (h : Keep s s') (ev : Event) : Step ev s.state s'.state :=
  Step.of_eq h.state

theorem Keep.twInv {s s' : Tcb} (h : Keep s s') (ht : TwInv s) : TwInv s' := by
  unfold TwInv at *
  rw [h.tw, h.state]; exact ht

theorem keep_enqueueBuilt (s : Tcb) (h : Hdr) : Keep s (s.enqueueBuilt h) :=
  ⟨state_enqueueBuilt s h, by rw [(enqueueBuilt_frame s h).2.2.2.2.2.1]⟩

/-- outside TIME-WAIT the timer is off; it stays off when a block does not touch it, whatever
    the new state -/
theorem twInv_of_not_tw {s s' : Tcb} (ht : TwInv s) (hne : s.state ≠ .TimeWait)
    (htw : s'.timeouts.timeWait = s.timeouts.timeWait) : TwInv s' := by
  intro h
  rw [htw] at h
  exact absurd (ht h) hne

/-- in TIME-WAIT the invariant holds whatever the timer -/
theorem twInv_of_tw {s' : Tcb} (h : s'.state = .TimeWait) : TwInv s' := fun _ => h

theorem del_none (ev : Event) (s : Tcb) : Del ev s none := by
  intro x h; simp at h

theorem del_of_not (ev : Event) (s : Tcb) (x : ProcessSegmentResult) (h : x.shouldDeleteTcb = false) :
    Del ev s (some x) := by
  intro y hy hd
  simp only [Option.some.injEq] at hy
  subst hy
  rw [h] at hd
  exact absurd hd (by simp)

theorem nd_none : ∀ x, (none : Option ProcessSegmentResult) = some x → x.shouldDeleteTcb = false :=
  fun x h => by simp at h

theorem nd_some {r1 : ProcessSegmentResult} (hr : r1.shouldDeleteTcb = false) :
    ∀ x, some r1 = some x → x.shouldDeleteTcb = false := fun x h => by
  simp only [Option.some.injEq] at h; rw [← h]; exact hr

/-! ## block 1 -/

theorem seqCheck_edges (s : Tcb) (seg : Hdr) (tl : Seq) (s' : Tcb) (r : Option ProcessSegmentResult)
    (e : seqCheck s seg tl = .ok (s', r)) :
    Keep s s' ∧ (∀ x, r = some x → x.shouldDeleteTcb = false) := by
  unfold seqCheck at e
  split at e
  · cases e; exact ⟨Keep.refl _, fun x h => by simp at h⟩
  · split at e
    · simp at e
    · cases e; exact ⟨Keep.refl _, fun x h => by simp at h⟩
    · rw [enqueueThen_eq] at e
      cases e
      exact ⟨keep_enqueueBuilt _ _, fun x h => by simp at h; subst h; rfl⟩

/-! ## block 2 -/

theorem ackEstablished_keep (s : Tcb) (seg : Hdr) :
    ∃ s' r, s.ackEstablishedProcessing seg = .ok (s', r) ∧ Keep s s' ∧ r.shouldDeleteTcb = false := by
  unfold ackEstablishedProcessing
  split
  · exact ⟨_, _, rfl, Keep.refl _, rfl⟩
  · split
    · rw [enqueue_eq]
      exact ⟨_, _, rfl, keep_enqueueBuilt _ _, rfl⟩
    · dsimp only
      unfold removeAckedFromRetransmission
      split <;> exact ⟨_, _, rfl, ⟨rfl, rfl⟩, rfl⟩

/-- reasoning principle for `afterAckEstablished` -/
theorem afterAck_keep (t : Tcb) (seg : Hdr) (k : Tcb → ProcessSegmentResult → B) (P : B → Prop)
    (h : ∀ s1 r1, Keep t s1 → r1.shouldDeleteTcb = false → P (k s1 r1)) :
    P (afterAckEstablished (t.ackEstablishedProcessing seg) k) := by
  obtain ⟨s1, r1, h1, hk, hr⟩ := ackEstablished_keep t seg
  unfold afterAckEstablished
  rw [h1]
  exact h s1 r1 hk hr

/-- what every block establishes: the result, a step for `ev`, deletion along an edge, `TwInv` -/
structure Outcome (ev : Event) (s s' : Tcb) (r : Option ProcessSegmentResult) : Prop where
  step : Step ev s.state s'.state
  del : Del ev s' r
  tw : TwInv s → TwInv s'

theorem Outcome.of_keep {ev : Event} {s s' : Tcb} {r : Option ProcessSegmentResult} (h : Keep s s')
    (hr : ∀ x, r = some x → x.shouldDeleteTcb = false) : Outcome ev s s' r :=
  ⟨h.step ev, fun x hx hd => by rw [hr x hx] at hd; exact absurd hd (by simp), h.twInv⟩

/-- the continuation `if r = Success then (s, none) else (s, some r)` after ACK processing -/
theorem outcome_ret {ev : Event} {s s1 : Tcb} {r1 : ProcessSegmentResult} (h : Keep s s1)
    (hr : r1.shouldDeleteTcb = false) :
    ∃ s' r, (if r1 = .Success then (.ok (s1, none) : B) else .ok (s1, some r1)) = .ok (s', r) ∧
      Outcome ev s s' r ∧ s'.state = s.state := by
  split
  · exact ⟨_, _, rfl, Outcome.of_keep h nd_none, h.state⟩
  · exact ⟨_, _, rfl, Outcome.of_keep h (nd_some hr), h.state⟩

theorem ackBlock_edges (s : Tcb) (seg : Hdr) :
    ∃ s' r, ackBlock s seg = .ok (s', r) ∧ Outcome (evOf seg.ctl) s s' r := by
  unfold ackBlock
  split
  · exact ⟨_, _, rfl, Outcome.of_keep (Keep.refl _) nd_none⟩
  · rename_i hack
    have hack' : seg.ctl.ack = true := by simpa using hack
    split
    · -- SYN-SENT: never moves here
      split
      · split
        · exact ⟨_, _, rfl, Outcome.of_keep (Keep.refl _) (fun x hx => by simp at hx; subst hx; rfl)⟩
        · simp only [enqueueThen_eq]
          exact ⟨_, _, rfl, Outcome.of_keep (keep_enqueueBuilt _ _) (fun x hx => by simp at hx; subst hx; rfl)⟩
      · split
        · split
          · refine ⟨_, _, rfl, Outcome.of_keep ?_ nd_none⟩
            unfold removeAckedFromRetransmission
            exact ⟨rfl, rfl⟩
          · exact ⟨_, _, rfl, Outcome.of_keep (Keep.refl _) nd_none⟩
        · simp only [enqueueThen_eq]
          exact ⟨_, _, rfl, Outcome.of_keep (keep_enqueueBuilt _ _) (fun x hx => by simp at hx; subst hx; rfl)⟩
    · -- SYN-RECEIVED → ESTABLISHED on an acceptable ACK
      rename_i hst
      split
      · dsimp only
        refine afterAck_keep _ seg _
          (fun x => ∃ s' r, x = .ok (s', r) ∧ Outcome (evOf seg.ctl) s s' r) ?_
        intro s1 r1 hk hr
        have hs1 : s1.state = .Established := hk.state
        have ho : ∀ r, (∀ x, r = some x → x.shouldDeleteTcb = false) → Outcome (evOf seg.ctl) s s1 r := by
          intro r hr'
          refine ⟨?_, fun x hx hd => by rw [hr' x hx] at hd; exact absurd hd (by simp), fun ht => ?_⟩
          · rw [hst, hs1]
            simp [Step, rfcStepBy, rfcCause, evOf, hack']
          · exact twInv_of_not_tw ht (by rw [hst]; simp) hk.tw
        split
        · exact ⟨_, _, rfl, ho _ nd_none⟩
        · exact ⟨_, _, rfl, ho _ (nd_some hr)⟩
      · simp only [enqueueThen_eq]
        exact ⟨_, _, rfl, Outcome.of_keep (keep_enqueueBuilt _ _) nd_none⟩
    iterate 3
      · -- ESTABLISHED | FIN-WAIT-2 | CLOSE-WAIT
        refine afterAck_keep _ seg _
          (fun x => ∃ s' r, x = .ok (s', r) ∧ Outcome (evOf seg.ctl) s s' r) ?_
        intro s1 r1 hk hr
        obtain ⟨s', r, e, o, _⟩ := outcome_ret (ev := evOf seg.ctl) hk hr
        exact ⟨s', r, e, o⟩
    · -- FIN-WAIT-1 → FIN-WAIT-2 when our FIN is acknowledged
      rename_i hst
      refine afterAck_keep _ seg _
        (fun x => ∃ s' r, x = .ok (s', r) ∧ Outcome (evOf seg.ctl) s s' r) ?_
      intro s1 r1 hk hr
      dsimp only
      have ho : ∀ (s2 : Tcb) r, (s2.state = .FinWait2 ∨ s2.state = s1.state) →
          s2.timeouts.timeWait = s1.timeouts.timeWait →
          (∀ x, r = some x → x.shouldDeleteTcb = false) → Outcome (evOf seg.ctl) s s2 r := by
        intro s2 r h2 htw hr'
        refine ⟨?_, fun x hx hd => by rw [hr' x hx] at hd; exact absurd hd (by simp), fun ht => ?_⟩
        · rcases h2 with h2 | h2
          · rw [hst, h2]; simp [Step, rfcStepBy, rfcCause, evOf, hack']
          · exact Step.of_eq (h2.trans hk.state)
        · exact twInv_of_not_tw ht (by rw [hst]; simp) (htw.trans hk.tw)
      split <;> split <;> first
        | exact ⟨_, _, rfl, ho _ _ (Or.inl rfl) rfl nd_none⟩
        | exact ⟨_, _, rfl, ho _ _ (Or.inr rfl) rfl nd_none⟩
        | exact ⟨_, _, rfl, ho _ _ (Or.inl rfl) rfl (nd_some hr)⟩
        | exact ⟨_, _, rfl, ho _ _ (Or.inr rfl) rfl (nd_some hr)⟩
    · -- CLOSING → TIME-WAIT when our FIN is acknowledged
      rename_i hst
      refine afterAck_keep _ seg _
        (fun x => ∃ s' r, x = .ok (s', r) ∧ Outcome (evOf seg.ctl) s s' r) ?_
      intro s1 r1 hk hr
      dsimp only
      have ho1 : ∀ (s2 : Tcb) r, s2.state = .TimeWait →
          (∀ x, r = some x → x.shouldDeleteTcb = false) → Outcome (evOf seg.ctl) s s2 r := by
        intro s2 r h2 hr'
        refine ⟨?_, fun x hx hd => by rw [hr' x hx] at hd; exact absurd hd (by simp), fun _ => twInv_of_tw h2⟩
        rw [hst, h2]; simp [Step, rfcStepBy, rfcCause, evOf, hack']
      split <;> split <;> first
        | exact ⟨_, _, rfl, ho1 _ _ rfl nd_none⟩
        | exact ⟨_, _, rfl, ho1 _ _ rfl (nd_some hr)⟩
        | exact ⟨_, _, rfl, Outcome.of_keep hk nd_none⟩
        | exact ⟨_, _, rfl, Outcome.of_keep hk (nd_some hr)⟩
    · -- LAST-ACK: released when our FIN is acknowledged
      rename_i hst
      refine afterAck_keep _ seg _
        (fun x => ∃ s' r, x = .ok (s', r) ∧ Outcome (evOf seg.ctl) s s' r) ?_
      intro s1 r1 hk hr
      split
      · refine ⟨_, _, rfl, hk.step _, ?_, hk.twInv⟩
        intro x hx _
        rw [hk.state, hst]
        simp [rfcCause, evOf, hack']
      · obtain ⟨s', r, e, o, _⟩ := outcome_ret (ev := evOf seg.ctl) hk hr
        exact ⟨s', r, e, o⟩
    · -- TIME-WAIT
      exact ⟨_, _, rfl, Outcome.of_keep (Keep.refl _) nd_none⟩

/-- block 2 enters or leaves SYN-SENT never (from `ackBlock_spec`) -/
theorem ackBlock_synsent (s : Tcb) (seg : Hdr) (s' : Tcb) (r : Option ProcessSegmentResult)
    (e : ackBlock s seg = .ok (s', r)) : s'.state = .SynSent ↔ s.state = .SynSent := by
  obtain ⟨s1, r1, e1, _, h⟩ := ackBlock_spec s seg
  rw [e1] at e
  cases e
  exact h

/-! ## block 3 -/

theorem rstBlock_edges (s : Tcb) (seg : Hdr) :
    ∃ r, rstBlock s seg = .ok (s, r) ∧ Del (evOf seg.ctl) s r ∧ (r = none → seg.ctl.rst = false) := by
  unfold rstBlock
  split
  · rename_i h
    exact ⟨_, rfl, del_none _ _, fun _ => by simpa using h⟩
  · rename_i hrst
    have hrst' : seg.ctl.rst = true := by simpa using hrst
    have dl : ∀ x, s.state ≠ .SynSent → s.state ≠ .LastAck → Del (evOf seg.ctl) s (some x) := by
      intro x h1 h2 y _ _
      cases hs : s.state <;> simp_all [rfcCause, evOf]
    split
    · rename_i hst
      split
      · exact ⟨_, rfl, del_of_not _ _ _ rfl, fun h => by simp at h⟩
      · rename_i hack
        have hack' : seg.ctl.ack = true := by simpa using hack
        have : ∀ x, Del (evOf seg.ctl) s (some x) := by
          intro x y _ _
          rw [hst]; simp [rfcCause, evOf, hack', hrst']
        split <;> exact ⟨_, rfl, this _, fun h => by simp at h⟩
    · rename_i hst
      split <;> exact ⟨_, rfl, dl _ (by rw [hst]; simp) (by rw [hst]; simp), fun h => by simp at h⟩
    iterate 4
      · rename_i hst
        exact ⟨_, rfl, dl _ (by rw [hst]; simp) (by rw [hst]; simp), fun h => by simp at h⟩
    · rename_i hst
      exact ⟨_, rfl, dl _ (by rw [hst]; simp) (by rw [hst]; simp), fun h => by simp at h⟩
    · rename_i hst
      refine ⟨_, rfl, ?_, fun h => by simp at h⟩
      intro y _ _
      rw [hst]; simp [rfcCause, evOf, hrst']
    · rename_i hst
      exact ⟨_, rfl, dl _ (by rw [hst]; simp) (by rw [hst]; simp), fun h => by simp at h⟩

/-! ## block 4 -/

theorem synBlock_edges (s : Tcb) (seg : Hdr) (hrst : seg.ctl.rst = false) :
    ∃ s' r, synBlock s seg = .ok (s', r) ∧ Outcome (evOf seg.ctl) s s' r ∧
      (s.state ≠ .SynSent → s'.state = s.state) := by
  unfold synBlock
  split
  · split
    · exact ⟨_, _, rfl, Outcome.of_keep (Keep.refl _) (fun x hx => by simp at hx; subst hx; rfl), fun _ => rfl⟩
    · exact ⟨_, _, rfl, Outcome.of_keep (Keep.refl _) nd_none, fun _ => rfl⟩
  · rename_i hsyn
    have hsyn' : seg.ctl.syn = true := by simpa using hsyn
    split
    · rename_i hst
      dsimp only
      split
      · simp only [enqueueThen_eq]
        refine ⟨_, _, rfl, ⟨?_, del_none _ _, fun ht => ?_⟩, fun h => absurd hst h⟩
        · rw [hst, state_enqueueBuilt]
          simp [Step, rfcStepBy, rfcCause, evOf, hsyn', hrst]
        · refine twInv_of_not_tw ht (by rw [hst]; simp) ?_
          rw [(enqueueBuilt_frame _ _).2.2.2.2.2.1]
      · simp only [enqueueThen_eq]
        refine ⟨_, _, rfl, ⟨?_, del_of_not _ _ _ rfl, fun ht => ?_⟩, fun h => absurd hst h⟩
        · rw [hst, state_enqueueBuilt]
          simp [Step, rfcStepBy, rfcCause, evOf, hsyn', hrst]
        · refine twInv_of_not_tw ht (by rw [hst]; simp) ?_
          rw [(enqueueBuilt_frame _ _).2.2.2.2.2.1]
    · simp only [enqueueThen_eq]
      exact ⟨_, _, rfl, Outcome.of_keep (keep_enqueueBuilt _ _) (fun x hx => by simp at hx; subst hx; rfl),
        fun _ => state_enqueueBuilt _ _⟩

/-! ## block 5 -/

theorem textBlock_edges (s : Tcb) (seg : Hdr) (text : List UInt8) (tl : Seq) (s' : Tcb)
    (r : Option ProcessSegmentResult) (e : textBlock s seg text tl = .ok (s', r)) :
    Keep s s' ∧ r = none := by
  unfold textBlock at e
  split at e
  · cases e; exact ⟨Keep.refl _, rfl⟩
  · split at e
    all_goals first
      | (cases e; exact ⟨Keep.refl _, rfl⟩)
      | (dsimp only at e
         repeat' (split at e)
         all_goals first
           | (simp at e; done)
           | (rw [enqueueThen_eq] at e
              cases e
              exact ⟨⟨by rw [state_enqueueBuilt], by rw [(enqueueBuilt_frame _ _).2.2.2.2.2.1]⟩, rfl⟩))

/-! ## block 6 -/

theorem finBlock_edges (s : Tcb) (seg : Hdr) (tl : Seq) :
    ∃ s', finBlock s seg tl = .ok (s', none) ∧ Outcome (evOf seg.ctl) s s' none := by
  unfold finBlock
  split
  · exact ⟨_, rfl, Outcome.of_keep (Keep.refl _) nd_none⟩
  · rename_i hfin
    have hfin' : seg.ctl.fin = true := by simpa using hfin
    dsimp only
    have key : ∃ s1, (if s.state ≠ .SynSent then
          if (decide (s.rcv.nxt = seg.seq + tl) || decide (s.rcv.nxt = seg.seq + tl + 1)) = true then
            ({ s with rcv.nxt := seg.seq + tl + 1 } : Tcb).enqueue
              ({ s with rcv.nxt := seg.seq + tl + 1 } : Tcb).ackHdr
          else Except.ok s
        else Except.ok s) = .ok s1 ∧ Keep s s1 := by
      split
      · split
        · rw [enqueue_eq]
          exact ⟨_, rfl, ⟨by rw [state_enqueueBuilt], by rw [(enqueueBuilt_frame _ _).2.2.2.2.2.1]⟩⟩
        · exact ⟨_, rfl, Keep.refl _⟩
      · exact ⟨_, rfl, Keep.refl _⟩
    obtain ⟨s1, h1, hk⟩ := key
    rw [h1]
    dsimp only
    -- a move out of a state other than TIME-WAIT that leaves the timer alone, or into TIME-WAIT
    have mv : ∀ (s2 : Tcb) (a b : State), s1.state = a → s2.state = b →
        rfcCause (evOf seg.ctl) (some a) (some b) = true →
        (b = .TimeWait ∨ (a ≠ .TimeWait ∧ s2.timeouts.timeWait = s1.timeouts.timeWait)) →
        Outcome (evOf seg.ctl) s s2 none := by
      intro s2 a b ha hb hc htw
      refine ⟨?_, del_none _ _, fun ht => ?_⟩
      · rw [hb, ← hk.state, ha]
        unfold Step rfcStepBy
        rw [hc]; simp
      · rcases htw with h | ⟨h, h'⟩
        · exact twInv_of_tw (hb.trans h)
        · exact twInv_of_not_tw ht (by rw [← hk.state, ha]; exact h) (h'.trans hk.tw)
    split
    · rename_i hs
      exact ⟨_, rfl, mv _ _ _ hs rfl (by simp [rfcCause, evOf, hfin']) (Or.inr ⟨by simp, rfl⟩)⟩
    · rename_i hs
      exact ⟨_, rfl, mv _ _ _ hs rfl (by simp [rfcCause, evOf, hfin']) (Or.inr ⟨by simp, rfl⟩)⟩
    · rename_i hs
      split
      · exact ⟨_, rfl, mv _ _ _ hs rfl (by simp [rfcCause, evOf, hfin']) (Or.inl rfl)⟩
      · exact ⟨_, rfl, mv _ _ _ hs rfl (by simp [rfcCause, evOf, hfin']) (Or.inr ⟨by simp, rfl⟩)⟩
    · rename_i hs
      exact ⟨_, rfl, mv _ _ _ hs rfl (by simp [rfcCause, evOf, hfin']) (Or.inl rfl)⟩
    · rename_i hs
      refine ⟨_, rfl, ?_, del_none _ _, fun _ => twInv_of_tw hs⟩
      exact Step.of_eq (hk.state ▸ rfl)
    · exact ⟨_, rfl, Outcome.of_keep hk nd_none⟩

end Tcb
end Elvis.Tcp
