import ElvisVerif.Lemmas.TcpHsFwd
import ElvisVerif.Lemmas.TcpRelChain2
import ElvisVerif.Lemmas.TcpConvSteady
/-!
# The two endpoints of an active / passive open, step by step

All TCBs of the first two exchange phases are explicit terms of the parameters (ports, ISNs, MTUs, the
text A's application wrote while in SYN-SENT): `hsA0 … hsA3` (A: SYN-SENT → ESTABLISHED), `hsB1 … hsB4`
(B: created by LISTEN in SYN-RECEIVED → ESTABLISHED).
-/
namespace Elvis.Tcp
open Elvis.ModCmp
namespace Tcb

theorem bounded_self_false (a c : Seq) : modBounded a .Lt a .Leq c = false := by
  unfold modBounded cyc
  simp [Cmp.offset]

theorem modGt_succ_self (a : Seq) : modGt (a + 1) a = true := by
  unfold modGt modLt
  have : a - (a + 1) = 4294967295#32 := by bv_omega
  rw [this]
  decide

theorem succ_sub (a : Seq) : (a + 1 - a).toNat = 1 := by
  have : a + 1 - a = 1 := by bv_omega
  rw [this]; rfl

section
variable (lp rp : U16) (ia ib : Seq) (ma mb : U16) (da : List UInt8)

/-- A's SYN -/
def synSeg : Segment := ⟨synHdr lp rp ia, []⟩
/-- A after `open` and `send da` in SYN-SENT -/
def hsA0 : Tcb := ({ openT lp rp ia ma with outgoing.text := da } : Tcb)
def hsA1 : Tcb := emitT (hsA0 lp rp ia ma da)
def hsA2 : Tcb := emitT (hsA1 lp rp ia ma da)
/-- B, created by the LISTEN handler -/
def hsB1 : Tcb := listenT (synSeg lp rp ia) ib mb
def hsB2 : Tcb := emitT (hsB1 lp rp ia ib mb)
def hsB3 : Tcb := emitT (hsB2 lp rp ia ib mb)
/-- B's SYN-ACK -/
def synAckSeg : Segment := ⟨lsnSynAck (synSeg lp rp ia) ib, []⟩
/-- A after the SYN-ACK: ESTABLISHED -/
def hsA3 : Tcb := synAckT (hsA2 lp rp ia ma da) (synAckSeg lp rp ia ib)
/-- A's ACK of the SYN-ACK -/
def hsAckSeg : Segment := ⟨(synAckT0 (hsA2 lp rp ia ma da) (synAckSeg lp rp ia ib)).ackHdr.built, []⟩
/-- B after A's ACK: ESTABLISHED -/
def hsB4 : Tcb := estT (hsB3 lp rp ia ib mb) (hsAckSeg lp rp ia ib ma da)

theorem hsA_emit1 (hm : ¬ ma.toNat < SPACE_FOR_HEADERS) :
    (hsA0 lp rp ia ma da).segments = .ok (hsA1 lp rp ia ma da, [synSeg lp rp ia]) ∧
    (hsA1 lp rp ia ma da).receive = (hsA1 lp rp ia ma da, []) ∧
    (hsA1 lp rp ia ma da).segments = .ok (hsA2 lp rp ia ma da, []) ∧
    (hsA2 lp rp ia ma da).receive = (hsA2 lp rp ia ma da, []) := by
  refine ⟨?_, receive_empty _ rfl, ?_, receive_empty _ rfl⟩
  · exact segments_synsent_eq (hsA0 lp rp ia ma da) rfl rfl hm
  · have := segments_synsent_eq (hsA1 lp rp ia ma da) rfl rfl hm
    rw [show emitOut (hsA1 lp rp ia ma da) = [] from emitOut_emitT _] at this
    exact this

theorem hsB_create (hm : ¬ mb.toNat < SPACE_FOR_HEADERS) :
    segmentArrivesListen (synSeg lp rp ia) ib mb = .ok (some (.Tcb (hsB1 lp rp ia ib mb))) ∧
    (hsB1 lp rp ia ib mb).receive = (hsB1 lp rp ia ib mb, []) ∧
    (hsB1 lp rp ia ib mb).segments = .ok (hsB2 lp rp ia ib mb, [synAckSeg lp rp ia ib]) ∧
    (hsB2 lp rp ia ib mb).receive = (hsB2 lp rp ia ib mb, []) ∧
    (hsB2 lp rp ia ib mb).segments = .ok (hsB3 lp rp ia ib mb, []) ∧
    (hsB3 lp rp ia ib mb).receive = (hsB3 lp rp ia ib mb, []) := by
  refine ⟨listen_eq _ ib mb rfl rfl rfl, receive_empty _ rfl, ?_, receive_empty _ rfl, ?_, receive_empty _ rfl⟩
  · exact segments_notext_eq (hsB1 lp rp ia ib mb) rfl hm
  · have := segments_notext_eq (hsB2 lp rp ia ib mb) rfl hm
    rw [show emitOut (hsB2 lp rp ia ib mb) = [] from emitOut_emitT _] at this
    exact this

theorem hsA_synack :
    (hsA2 lp rp ia ma da).arriveList [synAckSeg lp rp ia ib] = .ok (hsA3 lp rp ia ib ma da) ∧
    (hsA3 lp rp ia ib ma da).receive = (hsA3 lp rp ia ib ma da, []) := by
  have e := arrive_synack_synsent (hsA2 lp rp ia ma da) (synAckSeg lp rp ia ib) rfl rfl rfl rfl rfl rfl rfl
    (bounded_self_false _ _) (ack_of_nxt ia (ia + 1) (by rw [succ_sub]; omega) (by rw [succ_sub]; omega)).2
    (modGt_succ_self ia)
  exact ⟨by simp only [arriveList, e]; rfl, receive_empty _ rfl⟩

theorem modLt_self (a : Seq) : modLt a a = false := by
  unfold modLt
  simp

theorem hsA3_rtx : (hsA3 lp rp ia ib ma da).outgoing.retransmit = [] := by
  have h : ((hsA2 lp rp ia ma da).outgoing.retransmit.filter fun t =>
      modLt (synAckSeg lp rp ia ib).hdr.ack (t.segment.hdr.seq + BitVec.ofNat 32 t.segment.segLen)) = [] := by
    apply List.filter_eq_nil_iff.2
    intro tr htr
    have htr' : tr ∈ [({ segment := synSeg lp rp ia, needsTransmit := false } : Transmit)] := htr
    simp only [List.mem_singleton] at htr'
    subst htr'
    show ¬ modLt (ia + 1) (ia + BitVec.ofNat 32 1) = true
    have : ia + BitVec.ofNat 32 1 = ia + 1 := rfl
    rw [this, modLt_self]; simp
  exact h

theorem hsB4_rtx : (hsB4 lp rp ia ib ma mb da).outgoing.retransmit = [] := by
  have h : ((hsB3 lp rp ia ib mb).outgoing.retransmit.filter fun t =>
      modLt (hsAckSeg lp rp ia ib ma da).hdr.ack (t.segment.hdr.seq + BitVec.ofNat 32 t.segment.segLen)) = [] := by
    apply List.filter_eq_nil_iff.2
    intro tr htr
    have htr' : tr ∈ [({ segment := synAckSeg lp rp ia ib, needsTransmit := false } : Transmit)] := htr
    simp only [List.mem_singleton] at htr'
    subst htr'
    show ¬ modLt (ib + 1) (ib + BitVec.ofNat 32 1) = true
    have : ib + BitVec.ofNat 32 1 = ib + 1 := rfl
    rw [this, modLt_self]; simp
  exact h

theorem hsB_ack :
    (hsB3 lp rp ia ib mb).segmentArrives (hsAckSeg lp rp ia ib ma da) = .ok (hsB4 lp rp ia ib ma mb da, .Ok) := by
  have k := ack_of_nxt ib (ib + 1) (by rw [succ_sub]; omega) (by rw [succ_sub]; omega)
  exact arrive_ack_synrcvd (hsB3 lp rp ia ib mb) (parkedSyn (synSeg lp rp ia)) (hsAckSeg lp rp ia ib ma da) rfl rfl rfl
    rfl rfl rfl rfl rfl rfl rfl rfl rfl rfl rfl rfl k.1 k.2

/-- **the third exchange phase**: A emits its ACK and the first window of data; B takes the ACK
    (ESTABLISHED) and then the data, in order -/
theorem hs_phase3 (hmA : SPACE_FOR_HEADERS < ma.toNat) :
    ∃ new tA4 outA tB5, (hsA3 lp rp ia ib ma da).segments = .ok (tA4, outA) ∧
      EmitFx (hsA3 lp rp ia ib ma da) new tA4 outA ∧
      outA = hsAckSeg lp rp ia ib ma da :: new.map (·.segment) ∧
      (hsB3 lp rp ia ib mb).arriveList outA = .ok tB5 ∧
      BatchFx ib (hsB4 lp rp ia ib ma mb da) (new.map (·.segment)) tB5 := by
  obtain ⟨new, tA4, outA, eA, fx⟩ := segments_fwd (hsA3 lp rp ia ib ma da) trivial hmA
  have hout : outA = hsAckSeg lp rp ia ib ma da :: new.map (·.segment) := by
    rw [fx.out, hsA3_rtx, List.nil_append, List.filter_eq_self.2 fx.flagged]
    rfl
  have hwA : (hsA3 lp rp ia ib ma da).snd.wnd = 65535#16 := rfl
  have hΔ : emitAmount (hsA3 lp rp ia ib ma da) ≤ 65535 := by
    unfold emitAmount
    rw [hwA]
    have : (65535#16 : BitVec 16).toNat = 65535 := rfl
    omega
  have o1 : off ib (ib + 1) = 1 := by
    have := off_add ib ib 1 (by rw [off_self]; omega)
    rw [off_self] at this
    exact this
  obtain ⟨tB5, eB, bf⟩ := arriveList_fwd ib 1 1 (by omega) (Nat.le_refl _) (new.map (·.segment))
    (hsB4 lp rp ia ib ma mb da) rfl rfl rfl rfl o1 (by show off ib (ib + 1) ≤ 1; omega)
    (inRun_of_dataRun _ _ _ _ _ _ fx.run)
    (ackLe_dataRun ib 1 _ _ _ _ (by show 1 ≤ off ib (ib + 1); omega) (by show off ib (ib + 1) ≤ 1; omega) _ _ fx.run)
    (by
      show ([] : List UInt8).length + _ ≤ 65535
      rw [fx.bytes]; simp only [List.length_nil]; omega)
    (by rw [hsB4_rtx]; intro tr htr; cases htr)
  refine ⟨new, tA4, outA, tB5, eA, fx, hout, ?_, bf⟩
  rw [hout]
  simp only [arriveList, hsB_ack]
  exact eB

end
end Tcb
end Elvis.Tcp
