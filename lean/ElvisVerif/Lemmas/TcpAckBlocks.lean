import ElvisVerif.Lemmas.TcbSnd
import ElvisVerif.Lemmas.TcbArrive
/-!
# What a block of `process_segment` may put on the queues, and what it may do to SND.UNA

One structural pass over the six blocks (no arithmetic).  `QStep P A s s'`:

* every header on `s'`'s one-shot queue was there before or satisfies `P`;
* every entry of `s'`'s retransmission queue carries a segment that was there before or a header
  that satisfies `P`;
* `SND.UNA` is unchanged or satisfies `A`.

Instantiated with `NewHdr s'` (the header is no RST and, if it carries ACK, acknowledges exactly
`RCV.NXT` as it is after the block, outside SYN-SENT) — the only other header a block forms is the
RST for an unacceptable ACK in SYN-SENT / SYN-RECEIVED (`¬ GoodAck`).
-/
namespace Elvis.Tcp
open Elvis.ModCmp
namespace Tcb

structure QStep (P : Hdr → Prop) (A : Seq → Prop) (s s' : Tcb) : Prop where
  one : ∀ h ∈ s'.outgoing.oneshot, h ∈ s.outgoing.oneshot ∨ P h
  rtx : ∀ tr ∈ s'.outgoing.retransmit,
    (∃ t0 ∈ s.outgoing.retransmit, t0.segment = tr.segment) ∨ P tr.segment.hdr
  una : s'.snd.una = s.snd.una ∨ A s'.snd.una

theorem QStep.refl {P : Hdr → Prop} {A : Seq → Prop} (s : Tcb) : QStep P A s s :=
  ⟨fun _ h => Or.inl h, fun tr h => Or.inl ⟨tr, h, rfl⟩, Or.inl rfl⟩

theorem QStep.trans {P : Hdr → Prop} {A : Seq → Prop} {a b c : Tcb} (h1 : QStep P A a b) (h2 : QStep P A b c) :
    QStep P A a c := by
  refine ⟨fun h hh => ?_, fun tr hh => ?_, ?_⟩
  · rcases h2.one h hh with e | e
    · exact h1.one h e
    · exact Or.inr e
  · rcases h2.rtx tr hh with ⟨t0, e, es⟩ | e
    · rcases h1.rtx t0 e with ⟨t1, e1, es1⟩ | e1
      · exact Or.inl ⟨t1, e1, es1.trans es⟩
      · exact Or.inr (es ▸ e1)
    · exact Or.inr e
  · rcases h2.una with e | e
    · rcases h1.una with e1 | e1
      · exact Or.inl (e.trans e1)
      · exact Or.inr (e ▸ e1)
    · exact Or.inr e

theorem QStep.mono {P P' : Hdr → Prop} {A A' : Seq → Prop} {s s' : Tcb} (h : QStep P A s s')
    (hp : ∀ x, P x → P' x) (ha : ∀ x, A x → A' x) : QStep P' A' s s' :=
  ⟨fun x hx => (h.one x hx).imp id (hp x), fun tr hx => (h.rtx tr hx).imp id (hp _), h.una.imp id (ha _)⟩

/-- the fields `QStep` reads are literally the same -/
theorem QStep.of_eq {P : Hdr → Prop} {A : Seq → Prop} {s s' : Tcb}
    (h1 : s'.outgoing.oneshot = s.outgoing.oneshot) (h2 : s'.outgoing.retransmit = s.outgoing.retransmit)
    (h3 : s'.snd.una = s.snd.una) : QStep P A s s' :=
  ⟨fun _ h => Or.inl (h1 ▸ h), fun tr h => Or.inl ⟨tr, h2 ▸ h, rfl⟩, Or.inl h3⟩

theorem QStep.of_eq_left {P : Hdr → Prop} {A : Seq → Prop} {s t u : Tcb}
    (h1 : t.outgoing.oneshot = s.outgoing.oneshot) (h2 : t.outgoing.retransmit = s.outgoing.retransmit)
    (h3 : t.snd.una = s.snd.una) (h : QStep P A t u) : QStep P A s u :=
  (QStep.of_eq h1 h2 h3).trans h

theorem qstep_enqueue {P : Hdr → Prop} {A : Seq → Prop} (s : Tcb) (hd : Hdr) (hp : P hd) :
    QStep P A s (s.enqueueBuilt hd) := by
  unfold enqueueBuilt
  split
  · refine ⟨fun _ h => Or.inl h, fun tr h => ?_, Or.inl rfl⟩
    simp only [List.mem_append, List.mem_singleton] at h
    rcases h with h | rfl
    · exact Or.inl ⟨tr, h, rfl⟩
    · exact Or.inr hp
  · refine ⟨fun x h => ?_, fun tr h => Or.inl ⟨tr, h, rfl⟩, Or.inl rfl⟩
    simp only [List.mem_append, List.mem_singleton] at h
    rcases h with h | rfl
    · exact Or.inl h
    · exact Or.inr hp

theorem qstep_removeAcked {P : Hdr → Prop} {A : Seq → Prop} (s : Tcb) (a : Seq) :
    QStep P A s (s.removeAckedFromRetransmission a) :=
  ⟨fun _ h => Or.inl h, fun tr h => Or.inl ⟨tr, (List.mem_filter.1 h).1, rfl⟩, Or.inl rfl⟩

/-- a header formed by a block: no RST; if it carries ACK it acknowledges `RCV.NXT` as it is
    after the block, and the TCB is not in SYN-SENT -/
def NewHdr (s' : Tcb) (h : Hdr) : Prop :=
  h.ctl.rst = false ∧ h.wnd = s'.rcv.wnd ∧ (h.ctl.ack = true → h.ack = s'.rcv.nxt ∧ s'.state ≠ .SynSent) ∧
    (h.ctl.ack = true ∨ h.ctl.syn = true)

theorem newHdr_ackHdr (s s' : Tcb) (hr : s'.rcv = s.rcv) (hs : s'.state ≠ .SynSent) :
    NewHdr s' s.ackHdr.built := ⟨rfl, by rw [hr]; rfl, fun _ => ⟨by rw [hr]; rfl, hs⟩, Or.inl rfl⟩

/-- the ACK field is acceptable where an unacceptable one provokes a RST -/
def GoodAck (s : Tcb) (seg : Hdr) : Prop :=
  seg.ctl.ack = true →
  (s.state = .SynSent → modBounded s.snd.nxt .Lt seg.ack .Leq s.snd.iss = false ∧
    modBounded s.snd.una .Lt seg.ack .Leq s.snd.nxt = true) ∧
  (s.state = .SynReceived → modBounded s.snd.una .Lt seg.ack .Leq s.snd.nxt = true)

/-- what block 2 may queue: a pure ACK at RCV.NXT, or (unacceptable ACK) a RST without ACK bit -/
def AckBlockHdr (s s' : Tcb) (seg : Hdr) (h : Hdr) : Prop :=
  NewHdr s' h ∨ (h.ctl.ack = false ∧ ¬ GoodAck s seg)

/-! ## block 1 -/

theorem seqCheck_q {A : Seq → Prop} (s : Tcb) (seg : Hdr) (tl : Seq) (s' : Tcb)
    (r : Option ProcessSegmentResult) (e : seqCheck s seg tl = .ok (s', r)) : QStep (NewHdr s') A s s' := by
  unfold seqCheck at e
  split at e
  · cases e; exact QStep.refl _
  · rename_i hst
    split at e
    · simp at e
    · cases e; exact QStep.refl _
    · rw [enqueueThen_eq] at e
      cases e
      refine qstep_enqueue _ _ (newHdr_ackHdr _ _ (by rw [(enqueueBuilt_frame _ _).2.1]) ?_)
      rw [state_enqueueBuilt]
      intro h; exact hst h

/-! ## block 2 -/

theorem ackEstablished_q {A : Seq → Prop} (s : Tcb) (seg : Hdr) (hst : s.state ≠ .SynSent) (ha : A seg.ack) :
    ∃ s' r, s.ackEstablishedProcessing seg = .ok (s', r) ∧ QStep (NewHdr s') A s s' ∧ s'.state = s.state ∧
      s'.rcv = s.rcv := by
  unfold ackEstablishedProcessing
  split
  · exact ⟨_, _, rfl, QStep.refl _, rfl, rfl⟩
  · split
    · rw [enqueue_eq]
      refine ⟨_, _, rfl, qstep_enqueue _ _ (newHdr_ackHdr _ _ (by rw [(enqueueBuilt_frame _ _).2.1]) ?_),
        state_enqueueBuilt _ _, (enqueueBuilt_frame _ _).2.1⟩
      rw [state_enqueueBuilt]; exact hst
    · dsimp only
      have base : QStep (NewHdr s) A s (({ s with snd.una := seg.ack } : Tcb).removeAckedFromRetransmission seg.ack) :=
        ⟨fun _ h => Or.inl h, fun tr h => Or.inl ⟨tr, (List.mem_filter.1 h).1, rfl⟩, Or.inr ha⟩
      split
      · refine ⟨_, _, rfl, ?_, rfl, rfl⟩
        exact ⟨base.one, base.rtx, Or.inr ha⟩
      · exact ⟨_, _, rfl, base, rfl, rfl⟩

theorem afterAck_q {A : Seq → Prop} (t : Tcb) (seg : Hdr) (hst : t.state ≠ .SynSent) (ha : A seg.ack)
    (k : Tcb → ProcessSegmentResult → B) (Q : B → Prop)
    (h : ∀ s1 r1, QStep (NewHdr s1) A t s1 → s1.state = t.state → s1.rcv = t.rcv → Q (k s1 r1)) :
    Q (afterAckEstablished (t.ackEstablishedProcessing seg) k) := by
  obtain ⟨s1, r1, h1, q1, st1, rc1⟩ := ackEstablished_q (A := A) t seg hst ha
  unfold afterAckEstablished
  rw [h1]
  exact h s1 r1 q1 st1 rc1

/-- `NewHdr` only reads RCV.NXT and whether the state is SYN-SENT -/
theorem NewHdr.congr {a b : Tcb} {h : Hdr} (hn : NewHdr a h) (hr : b.rcv = a.rcv)
    (hs : a.state ≠ .SynSent → b.state ≠ .SynSent) : NewHdr b h :=
  ⟨hn.1, by rw [hr]; exact hn.2.1, fun ha => ⟨by rw [hr]; exact (hn.2.2.1 ha).1, hs (hn.2.2.1 ha).2⟩, hn.2.2.2⟩

theorem QStep.newHdr_congr {A : Seq → Prop} {s a b : Tcb} (h : QStep (NewHdr a) A s a)
    (hr : b.rcv = a.rcv) (hs : a.state ≠ .SynSent → b.state ≠ .SynSent)
    (h1 : b.outgoing.oneshot = a.outgoing.oneshot) (h2 : b.outgoing.retransmit = a.outgoing.retransmit)
    (h3 : b.snd.una = a.snd.una) : QStep (NewHdr b) A s b :=
  (h.mono (fun _ hx => hx.congr hr hs) (fun _ hx => hx)).trans (QStep.of_eq h1 h2 h3)

/-- **block 2**: besides pure ACKs at RCV.NXT the block forms only the RST for an unacceptable
    ACK in SYN-SENT / SYN-RECEIVED; SND.UNA moves only to the segment's ACK field -/
theorem ackBlock_q {A : Seq → Prop} (s : Tcb) (seg : Hdr) (ha : seg.ctl.ack = true → A seg.ack) :
    ∃ s' r, ackBlock s seg = .ok (s', r) ∧ QStep (AckBlockHdr s s' seg) A s s' ∧
      s'.rcv = s.rcv ∧ (s'.state = .SynSent ↔ s.state = .SynSent) := by
  unfold ackBlock
  split
  · exact ⟨_, _, rfl, QStep.refl _, rfl, Iff.rfl⟩
  · rename_i hack
    have hack' : seg.ctl.ack = true := by simpa using hack
    have ha' := ha hack'
    -- the states that run `ack_established_processing` and then only change the state
    have est : ∀ (t : Tcb) (k : Tcb → ProcessSegmentResult → B), t.state ≠ .SynSent →
        t.outgoing.oneshot = s.outgoing.oneshot → t.outgoing.retransmit = s.outgoing.retransmit →
        t.snd.una = s.snd.una → t.rcv = s.rcv → s.state ≠ .SynSent →
        (∀ s1 r1, ∃ s2 r2, k s1 r1 = .ok (s2, r2) ∧ s2.outgoing = s1.outgoing ∧ s2.snd = s1.snd ∧ s2.rcv = s1.rcv ∧
          (s1.state ≠ .SynSent → s2.state ≠ .SynSent)) →
        ∃ s' r, afterAckEstablished (t.ackEstablishedProcessing seg) k = .ok (s', r) ∧
          QStep (AckBlockHdr s s' seg) A s s' ∧ s'.rcv = s.rcv ∧
          (s'.state = .SynSent ↔ s.state = .SynSent) := by
      intro t k hst h1 h2 h3 h4 hss hk
      refine afterAck_q (A := A) t seg hst ha' k
        (fun x => ∃ s' r, x = .ok (s', r) ∧ QStep (AckBlockHdr s s' seg) A s s' ∧ s'.rcv = s.rcv ∧
          (s'.state = .SynSent ↔ s.state = .SynSent)) ?_
      intro s1 r1 q1 st1 rc1
      obtain ⟨s2, r2, e2, o2, sn2, rv2, ns2⟩ := hk s1 r1
      have n1 : s1.state ≠ .SynSent := by rw [st1]; exact hst
      refine ⟨s2, r2, e2, ?_, by rw [rv2, rc1, h4], ⟨fun h => absurd h (ns2 n1), fun h => absurd h hss⟩⟩
      have q2 : QStep (NewHdr s2) A t s2 :=
        q1.newHdr_congr (by rw [rv2]) (fun _ => ns2 n1) (by rw [o2]) (by rw [o2]) (by rw [sn2])
      exact (QStep.of_eq_left h1 h2 h3 q2).mono (fun _ hx => Or.inl hx) (fun _ hx => hx)
    split
    · -- SYN-SENT
      rename_i hst
      split
      · rename_i hb1
        split
        · exact ⟨_, _, rfl, QStep.refl _, rfl, Iff.rfl⟩
        · simp only [enqueueThen_eq]
          refine ⟨_, _, rfl, qstep_enqueue _ _ (Or.inr ⟨rfl, fun g => ?_⟩), (enqueueBuilt_frame _ _).2.1,
            by rw [state_enqueueBuilt]⟩
          have := ((g hack').1 hst).1
          rw [hb1] at this; cases this
      · split
        · split
          · refine ⟨_, _, rfl, ?_, rfl, Iff.rfl⟩
            exact ⟨fun _ h => Or.inl h, fun tr h => Or.inl ⟨tr, (List.mem_filter.1 h).1, rfl⟩, Or.inr ha'⟩
          · exact ⟨_, _, rfl, QStep.refl _, rfl, Iff.rfl⟩
        · rename_i hb2
          simp only [enqueueThen_eq]
          refine ⟨_, _, rfl, qstep_enqueue _ _ (Or.inr ⟨rfl, fun g => ?_⟩), (enqueueBuilt_frame _ _).2.1,
            by rw [state_enqueueBuilt]⟩
          exact hb2 ((g hack').1 hst).2
    · -- SYN-RECEIVED
      rename_i hst
      split
      · dsimp only
        refine est _ _ (by simp) rfl rfl rfl rfl (by rw [hst]; simp) (fun s1 r1 => ?_)
        split <;> exact ⟨_, _, rfl, rfl, rfl, rfl, id⟩
      · rename_i hb
        simp only [enqueueThen_eq]
        refine ⟨_, _, rfl, qstep_enqueue _ _ (Or.inr ⟨rfl, fun g => ?_⟩), (enqueueBuilt_frame _ _).2.1,
          by rw [state_enqueueBuilt]⟩
        exact hb ((g hack').2 hst)
    iterate 3
      · rename_i hst
        refine est s _ (by rw [hst]; simp) rfl rfl rfl rfl (by rw [hst]; simp) (fun s1 r1 => ?_)
        split <;> exact ⟨_, _, rfl, rfl, rfl, rfl, id⟩
    iterate 2
      · rename_i hst
        refine est s _ (by rw [hst]; simp) rfl rfl rfl rfl (by rw [hst]; simp) (fun s1 r1 => ?_)
        dsimp only
        split <;> split <;> refine ⟨_, _, rfl, rfl, rfl, rfl, fun _ => ?_⟩ <;> first | assumption | simp
    · rename_i hst
      refine est s _ (by rw [hst]; simp) rfl rfl rfl rfl (by rw [hst]; simp) (fun s1 r1 => ?_)
      split
      · exact ⟨_, _, rfl, rfl, rfl, rfl, id⟩
      · split <;> exact ⟨_, _, rfl, rfl, rfl, rfl, id⟩
    · exact ⟨_, _, rfl, QStep.refl _, rfl, Iff.rfl⟩

/-- a state that differs from `s` in fields `QStep` does not read, then a freshly formed header -/
theorem qstep_then_enqueue {A : Seq → Prop} {s t : Tcb} (hd : Hdr) (h1 : t.outgoing.oneshot = s.outgoing.oneshot)
    (h2 : t.outgoing.retransmit = s.outgoing.retransmit) (h3 : t.snd.una = s.snd.una)
    (hn : NewHdr (t.enqueueBuilt hd) hd) : QStep (NewHdr (t.enqueueBuilt hd)) A s (t.enqueueBuilt hd) :=
  QStep.of_eq_left h1 h2 h3 (qstep_enqueue _ _ hn)

/-! ## block 4 -/

theorem synBlock_q {A : Seq → Prop} (s : Tcb) (seg : Hdr) (s' : Tcb) (r : Option ProcessSegmentResult)
    (e : synBlock s seg = .ok (s', r)) : QStep (NewHdr s') A s s' := by
  unfold synBlock at e
  split at e
  · split at e <;> (cases e; exact QStep.refl _)
  · split at e
    · dsimp only at e
      split at e
      · rw [enqueueThen_eq] at e
        cases e
        refine qstep_then_enqueue _ rfl rfl rfl ⟨rfl, ?_, fun _ => ⟨?_, ?_⟩, Or.inl rfl⟩
        · rw [(enqueueBuilt_frame _ _).2.1]; rfl
        · rw [(enqueueBuilt_frame _ _).2.1]; rfl
        · rw [state_enqueueBuilt]; simp
      · rw [enqueueThen_eq] at e
        cases e
        refine qstep_then_enqueue _ rfl rfl rfl ⟨rfl, ?_, fun _ => ⟨?_, ?_⟩, Or.inl rfl⟩
        · rw [(enqueueBuilt_frame _ _).2.1]; rfl
        · rw [(enqueueBuilt_frame _ _).2.1]; rfl
        · rw [state_enqueueBuilt]; simp
    · rename_i hst
      rw [enqueueThen_eq] at e
      cases e
      refine qstep_enqueue _ _ (newHdr_ackHdr _ _ (by rw [(enqueueBuilt_frame _ _).2.1]) ?_)
      rw [state_enqueueBuilt]
      intro h; exact hst h

/-! ## block 5 -/

theorem textBlock_q {A : Seq → Prop} (s : Tcb) (seg : Hdr) (text : List UInt8) (tl : Seq) (s' : Tcb)
    (r : Option ProcessSegmentResult) (e : textBlock s seg text tl = .ok (s', r)) (hst : s.state ≠ .SynSent) :
    QStep (NewHdr s') A s s' := by
  unfold textBlock at e
  split at e
  · cases e; exact QStep.refl _
  · split at e
    all_goals first
      | (cases e; exact QStep.refl _)
      | (dsimp only at e
         repeat' (split at e)
         all_goals first
           | (simp at e; done)
           | (rw [enqueueThen_eq] at e
              cases e
              refine qstep_then_enqueue _ rfl rfl rfl ⟨rfl, ?_, fun _ => ⟨?_, ?_⟩, Or.inl rfl⟩
              · rw [(enqueueBuilt_frame _ _).2.1]; rfl
              · rw [(enqueueBuilt_frame _ _).2.1]; rfl
              · rw [state_enqueueBuilt]; exact hst))

/-! ## block 6 -/

theorem finBlock_q {A : Seq → Prop} (s : Tcb) (seg : Hdr) (tl : Seq) (s' : Tcb) (r : Option ProcessSegmentResult)
    (e : finBlock s seg tl = .ok (s', r)) : QStep (NewHdr s') A s s' := by
  unfold finBlock at e
  split at e
  · cases e; exact QStep.refl _
  · dsimp only at e
    have key : ∀ s1, (if s.state ≠ .SynSent then
          if (decide (s.rcv.nxt = seg.seq + tl) || decide (s.rcv.nxt = seg.seq + tl + 1)) = true then
            ({ s with rcv.nxt := seg.seq + tl + 1 } : Tcb).enqueue
              ({ s with rcv.nxt := seg.seq + tl + 1 } : Tcb).ackHdr
          else Except.ok s
        else Except.ok s) = .ok s1 → QStep (NewHdr s1) A s s1 ∧ (s.state ≠ .SynSent ↔ s1.state ≠ .SynSent) := by
      intro s1 h1
      split at h1
      · rename_i hst
        split at h1
        · rw [enqueue_eq] at h1
          cases h1
          refine ⟨qstep_then_enqueue _ rfl rfl rfl ⟨rfl, ?_, fun _ => ⟨?_, ?_⟩, Or.inl rfl⟩, ?_⟩
          · rw [(enqueueBuilt_frame _ _).2.1]; rfl
          · rw [(enqueueBuilt_frame _ _).2.1]; rfl
          · rw [state_enqueueBuilt]; exact hst
          · rw [state_enqueueBuilt]
        · cases h1; exact ⟨QStep.refl _, Iff.rfl⟩
      · cases h1; exact ⟨QStep.refl _, Iff.rfl⟩
    split at e
    · simp at e
    · rename_i s1 h1
      obtain ⟨k, kst⟩ := key s1 h1
      have lift : ∀ s2 : Tcb, s2.rcv = s1.rcv → s2.outgoing = s1.outgoing → s2.snd = s1.snd →
          (s1.state ≠ .SynSent → s2.state ≠ .SynSent) → QStep (NewHdr s2) A s s2 := by
        intro s2 a b c d
        exact k.newHdr_congr (by rw [a]) d (by rw [b]) (by rw [b]) (by rw [c])
      split at e
      all_goals first
        | (cases e; exact k)
        | (cases e; exact lift _ rfl rfl rfl (fun hx => by first | exact hx | simp))
        | (split at e <;> (cases e; exact lift _ rfl rfl rfl (fun hx => by first | exact hx | simp)))

end Tcb
end Elvis.Tcp
