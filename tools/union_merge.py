#!/usr/bin/env python3
"""Resolve git conflict markers in a file by keeping both sides (ours first, then theirs)."""
import sys, re
for p in sys.argv[1:]:
    out = []
    state = 0
    for l in open(p).read().split("\n"):
        if l.startswith("<<<<<<< "): state = 1; continue
        if l.startswith("=======") and state == 1: state = 2; continue
        if l.startswith(">>>>>>> ") and state == 2: state = 0; continue
        out.append(l)
    open(p, "w").write("\n".join(out))
