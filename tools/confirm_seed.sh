#!/bin/bash
# usage: tools/confirm_seed.sh <seed-dir> <crate: elvis-core|elvis>
# Confirms in a scratch worktree: compiles, crate lib tests pass with the patch, demo fails with it, demo passes without.
D=$(realpath $1); CR=$2; N=$(basename $D)
W=/tmp/seedconf/$N
mkdir -p /tmp/seedconf; git -C /repo worktree add -q --detach $W HEAD || exit 2
export CARGO_TARGET_DIR=/tmp/seedconf/target CARGO_NET_OFFLINE=true
cd $W
[ -f $D/demo-cargo.diff ] && git apply $D/demo-cargo.diff
mkdir -p sim/$CR/tests; cp $D/demo.rs sim/$CR/tests/seed_demo.rs
R=""
(cd sim && timeout 1800 cargo test -p $CR --offline --test seed_demo >/tmp/seedconf/$N.without.log 2>&1) && R="$R demo-passes-without=yes" || R="$R demo-passes-without=NO"
git apply $D/patch.diff || R="$R APPLY-FAILED"
(cd sim && timeout 1800 cargo test -p $CR --offline --test seed_demo >/tmp/seedconf/$N.with.log 2>&1) && R="$R demo-fails-with=NO" || R="$R demo-fails-with=yes"
rm -f sim/$CR/tests/seed_demo.rs; (cd sim && timeout 3000 cargo nextest run --workspace --offline --no-fail-fast -j 4 --retries 3 >/tmp/seedconf/$N.lib.log 2>&1) && R="$R suite-passes-with=yes" || R="$R suite-passes-with=NO"
echo "$N:$R"
cd /; git -C /repo worktree remove --force $W
