import ElvisVerif.Lemmas.TcpConvPhase
/-!
# One exchange phase from a steady state

`Steady s`: both endpoints ESTABLISHED, reorder heaps and receive buffers empty, everything sent has
been received (`RCV.NXT_peer = SND.NXT`), nothing on a retransmission queue is flagged for
transmission, and for each side: everything is acknowledged, or the peer's last queued header is a
pure ACK for its `RCV.NXT` (`lastack`).

`phase_steady`: from a steady state satisfying the invariants (`Good`), `phase` succeeds, is a run of
plain ops, ends in a steady state, and per side: the unsent text shrinks by
`Δ = min |unsent| (65535 − queued bytes)`, `SND.UNA` reaches the old `SND.NXT`, and at most `Δ` bytes
stay queued.
-/
namespace Elvis.Tcp
open Tcb Elvis.ModCmp

/-! ## helpers -/

theorem inRun_acks (r : Seq) (hs : List Hdr) (rest : List Segment)
    (h : ∀ x ∈ hs, x.seq = r ∧ x.ctl.rst = false ∧ x.ctl.syn = false ∧ x.ctl.fin = false ∧ x.ctl.ack = true)
    (hr : InRun r rest) : InRun r ((hs.map fun x => (⟨x, []⟩ : Segment)) ++ rest) := by
  induction hs with
  | nil => exact hr
  | cons x xs ih =>
    obtain ⟨a, b, c, d, e⟩ := h x List.mem_cons_self
    simp only [List.map_cons, List.cons_append, InRun]
    refine ⟨a, b, c, d, e, ?_⟩
    simp only [List.length_nil, BitVec.add_zero]
    exact ih (fun y hy => h y (List.mem_cons_of_mem _ hy))

theorem inRun_of_dataRun (lp rp : U16) (ack : Seq) (wnd : U16) (l : List Segment) :
    ∀ seq, DataRun lp rp ack wnd seq l → InRun seq l := by
  induction l with
  | nil => intro _ _; trivial
  | cons g rest ih =>
    intro seq h
    obtain ⟨h1, _, h3⟩ := h
    refine ⟨by rw [h1]; rfl, by rw [h1]; rfl, by rw [h1]; rfl, by rw [h1]; rfl, by rw [h1]; rfl, ih _ h3⟩

theorem segBytes_append (a b : List Segment) : segBytes (a ++ b) = segBytes a + segBytes b := by
  simp [segBytes]

theorem segBytes_acks (hs : List Hdr) : segBytes (hs.map fun x => (⟨x, []⟩ : Segment)) = 0 := by
  induction hs with
  | nil => rfl
  | cons x xs ih => simp [ih]

/-- with the old entries unflagged and the new ones flagged, `segments()` hands out exactly the new ones -/
theorem filter_flag_new (old new : List Transmit) (ho : ∀ tr ∈ old, tr.needsTransmit = false)
    (hn : ∀ tr ∈ new, tr.needsTransmit = true) : (old ++ new).filter (·.needsTransmit) = new := by
  rw [List.filter_append]
  have h1 : old.filter (·.needsTransmit) = [] := List.filter_eq_nil_iff.2 (fun tr htr => by rw [ho tr htr]; simp)
  have h2 : new.filter (·.needsTransmit) = new := List.filter_eq_self.2 hn
  rw [h1, h2]; rfl

theorem ackLe_dataRun (iss : Seq) (R : Nat) (lp rp : U16) (ack : Seq) (wnd : U16) (h1 : 1 ≤ off iss ack)
    (h2 : off iss ack ≤ R) (l : List Segment) :
    ∀ seq, DataRun lp rp ack wnd seq l → ∀ g ∈ l, 1 ≤ off iss g.hdr.ack ∧ off iss g.hdr.ack ≤ R := by
  induction l with
  | nil => intro _ _ g hg; cases hg
  | cons x rest ih =>
    intro seq h g hg
    rcases List.mem_cons.1 hg with rfl | hg
    · rw [h.1]; exact ⟨h1, h2⟩
    · exact ih _ h.2.2 g hg

theorem ports_dataRun (lp rp : U16) (ack : Seq) (wnd : U16) (l : List Segment) :
    ∀ seq, DataRun lp rp ack wnd seq l → ∀ g ∈ l, g.hdr.srcPort = lp ∧ g.hdr.dstPort = rp := by
  induction l with
  | nil => intro _ _ g hg; cases hg
  | cons x rest ih =>
    intro seq h g hg
    rcases List.mem_cons.1 hg with rfl | hg
    · rw [h.1]; exact ⟨rfl, rfl⟩
    · exact ih _ h.2.2 g hg

/-- the entries of a data run starting at `seq` (at or beyond `una`) end beyond `una` -/
theorem keep_dataRun (iss una : Seq) (N : Nat) (hN : N < 2147483648) (lp rp : U16) (ack : Seq) (wnd : U16)
    (l : List Transmit) :
    ∀ seq, DataRun lp rp ack wnd seq (l.map (·.segment)) → off iss una ≤ off iss seq →
      off iss seq + segBytes (l.map (·.segment)) ≤ N → ∀ tr ∈ l, keepFor una tr = true := by
  induction l with
  | nil => intro _ _ _ _ tr htr; cases htr
  | cons x rest ih =>
    intro seq h hu hb tr htr
    simp only [List.map_cons, DataRun, segBytes_cons] at h hb
    obtain ⟨h1, h2, h3⟩ := h
    have hpos : 0 < x.segment.text.length := List.length_pos_iff.2 h2
    have hsl : x.segment.segLen = x.segment.text.length := by
      unfold Segment.segLen; rw [h1]; simp [dataHdr, Hdr.built, Hdr.withAck, Hdr.withWnd, Hdr.builder]
    have hseq : x.segment.hdr.seq = seq := by rw [h1]; rfl
    have ho : off iss (seq + BitVec.ofNat 32 x.segment.text.length) = off iss seq + x.segment.text.length :=
      off_add _ _ _ (by omega)
    rcases List.mem_cons.1 htr with rfl | htr
    · unfold keepFor
      rw [hsl, hseq]
      exact (modLt_iff_off iss una _ (by omega) (by rw [ho]; omega)).2 (by rw [ho]; omega)
    · exact ih _ h3 (by rw [ho]; omega) (by rw [ho]; omega) tr htr

theorem rtxBytes_filter_le (l : List Transmit) (p : Transmit → Bool) : rtxBytes (l.filter p) ≤ rtxBytes l := by
  induction l with
  | nil => simp
  | cons x xs ih =>
    rw [List.filter_cons]
    split
    · simp only [rtxBytes_cons]; omega
    · simp only [rtxBytes_cons]; omega

/-! ## steady states -/

structure Good (iss : SideId → Seq) (s : Sys) : Prop where
  conv : Conv iss s
  ext : Ext s
  room : RoomH s

/-- side `x` (TCB `t`, peer's TCB `u`) is steady -/
structure SteadyX (t u : Tcb) : Prop where
  st : t.state = .Established
  heap : t.incoming.segments = []
  buf : t.incoming.text = []
  sync : u.rcv.nxt = t.snd.nxt
  unflag : ∀ tr ∈ t.outgoing.retransmit, tr.needsTransmit = false
  lastack : t.snd.una = t.snd.nxt ∨ ∃ h, u.outgoing.oneshot.getLast? = some h ∧ h.ack = u.rcv.nxt
  mtu : SPACE_FOR_HEADERS < t.mtu.toNat

structure Steady (s : Sys) (ta tb : Tcb) : Prop where
  ha : s.a.tcb = some ta
  hb : s.b.tcb = some tb
  a : SteadyX ta tb
  b : SteadyX tb ta

/-- `s.step (.emit x)` when `x` has a TCB -/
theorem sys_emit (s : Sys) (x : SideId) (t t' : Tcb) (out : List Segment) (ht : (s.side x).tcb = some t)
    (e : t.segments = .ok (t', out)) :
    s.step (.emit x) = .ok ((s.setSide x { s.side x with tcb := some t' }).record out, .emitted s.historyLen out) := by
  simp only [Sys.step, Op.side, ht, e]

theorem sys_read (s : Sys) (x : SideId) (t : Tcb) (ht : (s.side x).tcb = some t) :
    s.step (.read x) = .ok (s.setSide x ⟨some (t.receive).1, (s.side x).listen, (s.side x).submitted,
      (s.side x).delivered ++ (t.receive).2⟩, Res.read (t.receive).2) := by
  simp only [Sys.step, Op.side, ht]

theorem receive_established (t : Tcb) (h : t.state = .Established) :
    t.receive = ({ t with incoming.text := [] }, t.incoming.text) := by
  unfold receive; rw [h]

/-! ## the facts about the state after one op, without the state itself -/

/-- after `emit x` -/
theorem emit_facts (s : Sys) (x : SideId) (t t' : Tcb) (out : List Segment) (ht : (s.side x).tcb = some t)
    (e : t.segments = .ok (t', out)) :
    ∃ s1 r, s.step (.emit x) = .ok (s1, r) ∧ (s1.side x).tcb = some t' ∧ s1.side x.peer = s.side x.peer ∧
      (s1.side x).submitted = (s.side x).submitted ∧ (s1.side x).delivered = (s.side x).delivered ∧
      s1.historyLen = s.historyLen + out.length ∧
      (∀ j (hj : j < out.length), s1.nth (s.historyLen + j) = some out[j]) ∧
      (∀ i, i < s.historyLen → s1.nth i = s.nth i) := by
  refine ⟨_, _, sys_emit s x t t' out ht e, ?_, ?_, ?_, ?_, ?_, ?_, ?_⟩
  · rw [Elvis.Tcp.side_record, side_setSide_same]
  · rw [Elvis.Tcp.side_record, side_setSide_peer]
  · rw [Elvis.Tcp.side_record, side_setSide_same]
  · rw [Elvis.Tcp.side_record, side_setSide_same]
  · rw [historyLen_record, historyLen_setSide]
  · intro j hj
    have := nth_record_new (s.setSide x { s.side x with tcb := some t' }) out j hj
    rw [historyLen_setSide] at this
    exact this
  · intro i hi
    rw [nth_record_old (s.setSide x { s.side x with tcb := some t' }) out i (by rw [historyLen_setSide]; exact hi),
      nth_setSide]

/-- after delivering the batch `gs` (history elements `lo …`) to `x` -/
theorem batch_facts (s : Sys) (x : SideId) (lo : Nat) (gs : List Segment) (t t' : Tcb) (ht : (s.side x).tcb = some t)
    (hn : ∀ j (hj : j < gs.length), s.nth (lo + j) = some gs[j]) (e : t.arriveList gs = .ok t')
    (ha : ∀ g ∈ gs, g.hdr.srcPort = x.peer.port ∧ g.hdr.dstPort = x.port) :
    ∃ s1, deliverRange s x lo gs.length = .ok s1 ∧ PlainRun s s1 ∧ (s1.side x).tcb = some t' ∧
      s1.side x.peer = s.side x.peer ∧ (s1.side x).submitted = (s.side x).submitted ∧
      (s1.side x).delivered = (s.side x).delivered ∧ s1.historyLen = s.historyLen ∧ (∀ i, s1.nth i = s.nth i) := by
  obtain ⟨h1, h2⟩ := deliverRange_arriveList gs s x lo t t' ht hn e ha
  refine ⟨_, h1, h2, ?_, ?_, ?_, ?_, ?_, ?_⟩
  · rw [side_setSide_same]
  · rw [side_setSide_peer]
  · rw [side_setSide_same]
  · rw [side_setSide_same]
  · rw [historyLen_setSide]
  · intro i; rw [nth_setSide]

/-- after `read x` in ESTABLISHED -/
theorem read_facts (s : Sys) (x : SideId) (t : Tcb) (ht : (s.side x).tcb = some t) (hst : t.state = .Established) :
    ∃ s1 r, s.step (.read x) = .ok (s1, r) ∧ (s1.side x).tcb = some { t with incoming.text := [] } ∧
      s1.side x.peer = s.side x.peer ∧ (s1.side x).submitted = (s.side x).submitted ∧
      s1.historyLen = s.historyLen := by
  refine ⟨_, _, sys_read s x t ht, ?_, ?_, ?_, ?_⟩
  · rw [side_setSide_same, receive_established t hst]
  · rw [side_setSide_peer]
  · rw [side_setSide_same]
  · rw [historyLen_setSide]

end Elvis.Tcp
