//! C12: TCP behaviour is independent of absolute sequence numbers (mod 2^32).
//!
//! `c12` (grid): the five circular comparison primitives of `tcb/modular_cmp.rs`, called on the
//! REAL code, on the grid a ∈ {0, 1, 2^31−1, 2^31, 2^31+1, 2^32−1, rnd} × d ∈ {0, 1, 2, 2^31−2,
//! 2^31−1, 2^31, 2^31+1, 2^32−1, rnd} (× e from the same set for the third argument of
//! `mod_bounded`, × both `ModCmp` arguments).  One op per line (`lt a b`, `leq a b`, `gt a b`,
//! `geq a b`, `bnd a c1 b c2 c`), answer `1`/`0`; the Lean driver evaluates the kernels extracted
//! from the same source file on the same lines.  Native oracle (written from the property, in
//! 64-bit offset arithmetic, independent of the code): agreement with the mathematical circular
//! order for all pairs less than 2^31 apart, mutual consistency (strict / non-strict /
//! flipped / bounded-between) for ALL pairs, invariance under a common shift.
//!
//! `c12-run`: every two-endpoint schedule of C01 (`schedule_case`) is executed on the real `Tcb`
//! with the ISN pair the generator drew, then the same op lines are executed again with another
//! ISN pair (uniform; dense within ±70000 of 0 and of 2^31; and placed so that the sequence
//! space wraps in the middle of the handshake or of the transfer).  Oracle: the two traces,
//! normalised by the ISNs, are identical: results, flags / lengths / payload hashes / window /
//! SEQ−ISS / ACK−IRS of every emitted segment, bytes delivered, connection state, and the
//! relative positions of SND.UNA, SND.NXT, RCV.NXT and of everything queued.  The first run is
//! also compared with the Lean model (same answers as C01).
use super::c01::*;
use elvis_core::protocols::tcp::verif::verif_modcmp::{mod_bounded, mod_geq, mod_gt, mod_leq, mod_lt, ModCmp};
use elvis_core::protocols::tcp::verif::{State, TcpHeader, VerifTcbSnapshot};
use hcommon::*;

const RULE_GRID: &str = "mod_lt/mod_leq/mod_gt/mod_geq on (a, a+d) and (a+d, a), mod_bounded on (a, c1, a+d, c2, a+e) for both ModCmp values, a in {0,1,2^31-1,2^31,2^31+1,2^32-1,rnd}, d,e in {0,1,2,2^31-2,2^31-1,2^31,2^31+1,2^32-1,rnd}; evaluated on the real functions, by the extracted kernels in Lean, and against the circular-order specification; every case is non-trivial (fresh random a, d, e, shift); distinct = hash of its op lines";
const RULE_RUN: &str = "two real Tcbs under the C01 schedules (active/passive or simultaneous open, loss, duplication, reordering, timers, writes before and after ESTABLISHED), executed twice with different ISN pairs (uniform / within 70000 of 0 and 2^31 / wrapping mid-handshake or mid-transfer); the ISN-normalised traces must be identical; first execution also diffed against the Lean model; non-trivial if application data was delivered; distinct = hash of the op lines";

const P31: u64 = 1 << 31;
const P32: u64 = 1 << 32;

// ---------------------------------------------------------------------------------------------
// grid
// ---------------------------------------------------------------------------------------------
fn cmp_name(c: ModCmp) -> &'static str {
    match c {
        ModCmp::Lt => "lt",
        ModCmp::Leq => "leq",
    }
}
fn parse_cmp(s: &str) -> Option<ModCmp> {
    match s {
        "lt" => Some(ModCmp::Lt),
        "leq" => Some(ModCmp::Leq),
        _ => None,
    }
}
fn bit(b: bool) -> &'static str {
    if b {
        "1"
    } else {
        "0"
    }
}

/// class of a distance for the identity of a finding: the exact value for the grid points,
/// `other` for random ones
fn dclass(d: u32) -> String {
    let d = d as u64;
    if d <= 2 || (d + 2 >= P31 && d <= P31 + 1) || d == P32 - 1 {
        format!("{}", d)
    } else if d < P31 {
        "other<2^31".into()
    } else {
        "other>2^31".into()
    }
}

/// evaluate one grid line on the real code; `None` = malformed line
fn eval_line(w: &[&str]) -> Option<Result<bool, PanicInfo>> {
    let n = |s: &str| s.parse::<u64>().ok().filter(|v| *v < P32).map(|v| v as u32);
    Some(match w {
        ["lt", a, b] => {
            let (a, b) = (n(a)?, n(b)?);
            catch(|| mod_lt(a, b))
        }
        ["leq", a, b] => {
            let (a, b) = (n(a)?, n(b)?);
            catch(|| mod_leq(a, b))
        }
        ["gt", a, b] => {
            let (a, b) = (n(a)?, n(b)?);
            catch(|| mod_gt(a, b))
        }
        ["geq", a, b] => {
            let (a, b) = (n(a)?, n(b)?);
            catch(|| mod_geq(a, b))
        }
        ["bnd", a, c1, b, c2, c] => {
            let (a, b, c, c1, c2) = (n(a)?, n(b)?, n(c)?, parse_cmp(c1)?, parse_cmp(c2)?);
            catch(|| mod_bounded(a, c1, b, c2, c))
        }
        _ => return None,
    })
}

/// the property, for one line: `Some(expected)` where the circular order prescribes the answer
/// (the two numbers compared are less than 2^31 apart / the interval is shorter than 2^31)
fn spec_line(w: &[&str]) -> Option<bool> {
    let n = |s: &str| s.parse::<u64>().ok();
    match w {
        [f @ ("lt" | "leq" | "gt" | "geq"), a, b] => {
            let (a, b) = (n(a)?, n(b)?);
            let fwd = (b + P32 - a) % P32; // b is `fwd` ahead of a
            let bwd = (a + P32 - b) % P32; // a is `bwd` ahead of b
            if fwd < P31 {
                // a ≤ b in the circular order, a < b iff fwd > 0
                Some(match *f {
                    "lt" => fwd > 0,
                    "leq" => true,
                    "gt" => false,
                    _ => fwd == 0,
                })
            } else if bwd < P31 {
                // b < a
                Some(match *f {
                    "lt" | "leq" => false,
                    _ => true,
                })
            } else {
                None // exactly 2^31 apart: no order prescribed
            }
        }
        ["bnd", a, c1, b, c2, c] => {
            let (a, b, c) = (n(a)?, n(b)?, n(c)?);
            let x = (b + P32 - a) % P32;
            let y = (c + P32 - a) % P32;
            if y >= P31 {
                return None;
            }
            let lo = if *c1 == "leq" { 0 } else { 1 };
            let hi = if *c2 == "leq" { y + 1 } else { y }; // exclusive
            Some(lo <= x && x < hi)
        }
        _ => None,
    }
}

struct GridExec;
impl GridExec {
    /// run one line on the real code, print it, check it against the specification
    fn apply(line: &str, out: &mut Out) -> Option<bool> {
        let w: Vec<&str> = line.split_whitespace().collect();
        match eval_line(&w) {
            None => {
                out.line(line, "bad-op");
                None
            }
            Some(Err(p)) => {
                out.line(line, "err panic");
                let text = source_line_text(&p.file, p.line);
                out.fail(&format!("`{}` panicked: {} (`{}`)", line, p.msg, text), &format!("panic modular_cmp {}", text));
                None
            }
            Some(Ok(r)) => {
                out.line(line, bit(r));
                out.count(&format!("fn.{}.{}", w[0], bit(r)));
                if let Some(exp) = spec_line(&w) {
                    out.count("spec.checked");
                    if exp != r {
                        let (fname, d) = if w[0] == "bnd" {
                            let (a, b, c) = (w[1].parse::<u64>().unwrap(), w[3].parse::<u64>().unwrap(), w[5].parse::<u64>().unwrap());
                            (
                                format!("mod_bounded {} {}", w[2], w[4]),
                                format!("d={} e={}", dclass(((b + P32 - a) % P32) as u32), dclass(((c + P32 - a) % P32) as u32)),
                            )
                        } else {
                            let (a, b) = (w[1].parse::<u64>().unwrap(), w[2].parse::<u64>().unwrap());
                            let fwd = (b + P32 - a) % P32;
                            let d = if fwd < P31 { fwd } else { (a + P32 - b) % P32 };
                            (format!("mod_{}", w[0]), format!("d={}", dclass(d as u32)))
                        };
                        out.fail(
                            &format!("`{}` = {} but the circular order says {} (numbers less than 2^31 apart)", line, r, exp),
                            &format!("input {} {}", fname, d),
                        );
                    }
                }
                Some(r)
            }
        }
    }
}

fn grid_values(rng: &mut Rng) -> (Vec<u32>, Vec<u32>) {
    let p31 = P31 as u32;
    let a = vec![0, 1, p31 - 1, p31, p31 + 1, u32::MAX, rng.next() as u32];
    let rnd_d = match rng.below(3) {
        0 => rng.below(P31) as u32,
        1 => (P31 + rng.below(P31)) as u32,
        _ => rng.below(70000) as u32,
    };
    let d = vec![0, 1, 2, p31 - 2, p31 - 1, p31, p31 + 1, u32::MAX, rnd_d];
    (a, d)
}

fn grid_case(rng: &mut Rng, out: &mut Out) {
    let (avals, dvals) = grid_values(rng);
    let (_, evals) = grid_values(rng);
    let k = rng.next() as u32;
    let get = |r: Option<bool>| r.unwrap_or(false);
    for &a in &avals {
        for &d in &dvals {
            let b = a.wrapping_add(d);
            let mut res = std::collections::BTreeMap::new();
            for f in ["lt", "leq", "gt", "geq"] {
                for (x, y, dir) in [(a, b, "f"), (b, a, "b")] {
                    let r = GridExec::apply(&format!("{} {} {}", f, x, y), out);
                    res.insert((f, dir), get(r));
                }
            }
            // mutual consistency, for ALL pairs (also 2^31 or more apart)
            for (x, y, dir, rev) in [(a, b, "f", "b"), (b, a, "b", "f")] {
                let mut bad = vec![];
                if res[&("leq", dir)] != (res[&("lt", dir)] || x == y) {
                    bad.push(("mod_leq", "mod_leq(a,b) != (mod_lt(a,b) || a == b)"));
                }
                if res[&("geq", dir)] != (res[&("gt", dir)] || x == y) {
                    bad.push(("mod_geq", "mod_geq(a,b) != (mod_gt(a,b) || a == b)"));
                }
                if res[&("gt", dir)] != res[&("lt", rev)] {
                    bad.push(("mod_gt", "mod_gt(a,b) != mod_lt(b,a)"));
                }
                if res[&("geq", dir)] != res[&("leq", rev)] {
                    bad.push(("mod_geq", "mod_geq(a,b) != mod_leq(b,a)"));
                }
                out.count("consistency.checked");
                let dist = y.wrapping_sub(x);
                for (f, what) in bad {
                    out.fail(
                        &format!("a={} b={} (b-a={}): {}", x, y, dist, what),
                        &format!("inconsistent {} d={}", f, dclass(dist.min(x.wrapping_sub(y)))),
                    );
                }
            }
            // shift invariance (native): f(a+k, b+k) = f(a, b)
            let (ak, bk) = (a.wrapping_add(k), b.wrapping_add(k));
            for (name, f) in [("mod_lt", mod_lt as fn(u32, u32) -> bool), ("mod_leq", mod_leq), ("mod_gt", mod_gt), ("mod_geq", mod_geq)] {
                out.count("shift.checked");
                if f(ak, bk) != f(a, b) || f(bk, ak) != f(b, a) {
                    out.fail(&format!("{}({},{}) differs from the same pair shifted by {}", name, a, b, k), &format!("shift {} d={}", name, dclass(d)));
                }
            }
            for &e in &evals {
                let c = a.wrapping_add(e);
                for c1 in [ModCmp::Lt, ModCmp::Leq] {
                    for c2 in [ModCmp::Lt, ModCmp::Leq] {
                        let r = GridExec::apply(&format!("bnd {} {} {} {} {}", a, cmp_name(c1), b, cmp_name(c2), c), out);
                        out.count("shift.checked");
                        if let Some(r) = r {
                            if mod_bounded(ak, c1, bk, c2, c.wrapping_add(k)) != r {
                                out.fail(
                                    &format!("mod_bounded({},{:?},{},{:?},{}) differs from the same triple shifted by {}", a, c1, b, c2, c, k),
                                    &format!("shift mod_bounded d={} e={}", dclass(d), dclass(e)),
                                );
                            }
                        }
                    }
                }
            }
        }
    }
}

fn run_grid(args: &Args) {
    let mut out = Out::new(&args.out);
    out.max_failures = 40;
    if let Some(p) = &args.replay {
        out.begin_case(0);
        out.mark_nontrivial();
        for l in read_ops(p) {
            if l.starts_with("case ") {
                continue;
            }
            GridExec::apply(&l, &mut out);
        }
        out.end_case();
        out.finish(RULE_GRID);
        return;
    }
    let mut rng = Rng::new(args.seed);
    for c in 0..args.cases {
        let mut r = rng.fork();
        out.begin_case(c);
        out.mark_nontrivial();
        grid_case(&mut r, &mut out);
        out.end_case();
    }
    out.finish(RULE_GRID);
}

// ---------------------------------------------------------------------------------------------
// runs: same schedule, two ISN pairs
// ---------------------------------------------------------------------------------------------
fn rel(v: u32, base: u32) -> u32 {
    v.wrapping_sub(base)
}

/// a header emitted by the side whose ISS is `iss` towards the peer whose ISS is `irs`.
/// The one absolute field the RFC mandates is kept absolute: the RST|ACK that answers a segment
/// without ACK outside a connection carries SEQ = 0 (RFC 9293 3.10.7.1) — `segment_arrives_closed`
/// is the only place that builds a header with both RST and ACK.
fn norm_hdr(h: &TcpHeader, iss: u32, irs: u32) -> String {
    let seq = if h.ctl.rst() && h.ctl.ack() { format!("abs{}", h.seq) } else { format!("{}", rel(h.seq, iss)) };
    let ack = if h.ctl.ack() { format!("{}", rel(h.ack, irs)) } else { format!("abs{}", h.ack) };
    format!("{}.{}.f{}.w{}.u{}.o{}", seq, ack, u8::from(h.ctl), h.wnd, h.urg, h.data_offset)
}

fn norm_snapshot(s: &VerifTcbSnapshot, iss: u32, irs: u32) -> String {
    let synsent = s.state == State::SynSent;
    // RCV.*, SND.WL1 and SND.WL2 are unset (absolute 0) until the peer's SYN arrives
    let r = |v: u32| if synsent { format!("abs{}", v) } else { format!("{}", rel(v, irs)) };
    // SND.WL2 lives in the local space from then on (F-C12-2 repaired: ISS after a SYN without ACK)
    let wl2 = if synsent { format!("abs{}", s.snd.4) } else { format!("{}", rel(s.snd.4, iss)) };
    let rtx: Vec<String> = s.retransmit.iter().map(|(h, t, n)| format!("{}/{}/{}", norm_hdr(h, iss, irs), full(t), *n as u8)).collect();
    let one: Vec<String> = s.oneshot.iter().map(|h| norm_hdr(h, iss, irs)).collect();
    // parked segments came from the peer: their SEQ lives in the peer's space, their ACK in ours
    let heap: Vec<String> = s.incoming_segments.iter().map(|(h, t)| format!("{}/{}", norm_hdr(h, irs, iss), full(t))).collect();
    format!(
        "st={} L={} mtu={} una={} nxt={} wnd={} wl1={} wl2={} iss={} irs={} rnxt={} rwnd={} ot={} rtx=[{}] one=[{}] heap=[{}] it={} rto={} tw={:?}",
        state_str(s.state),
        s.initiation_listen as u8,
        s.mtu,
        rel(s.snd.0, iss),
        rel(s.snd.1, iss),
        s.snd.2,
        r(s.snd.3),
        wl2,
        rel(s.snd.5, iss),
        r(s.rcv.0),
        r(s.rcv.1),
        s.rcv.2,
        full(&s.outgoing_text),
        rtx.join(","),
        one.join(","),
        heap.join(","),
        full(&s.incoming_text),
        s.retransmission_timeout.as_millis(),
        s.time_wait.map(|d| d.as_millis())
    )
}

fn isn_of_line(line: &str) -> Option<(SideId, u32)> {
    let w: Vec<&str> = line.split_whitespace().collect();
    match w.as_slice() {
        ["open", x, iss, _] | ["listen", x, iss, _] => Some((if *x == "A" { SideId::A } else { SideId::B }, iss.parse::<u64>().ok()? as u32)),
        _ => None,
    }
}

/// execute `ops` on a fresh pair of real TCBs; `alt` replaces the ISNs of the `open`/`listen`
/// lines; returns one normalised record per op line
fn trace(ops: &[String], alt: Option<(u32, u32)>, scratch: &mut Out) -> Vec<(String, String, String)> {
    let mut ex = Exec::new(Oracles { prefix: false, c17: false });
    let mut isn = [0u32, 0u32];
    let mut recs = vec![];
    // how far each side's space moves (a side that never opens or listens does not move unless
    // the alternative pair says so: its "ISN" counts as 0)
    let mut orig = [0u32, 0u32];
    let mut seen = [false, false];
    for l in ops {
        if let Some((x, v)) = isn_of_line(l) {
            if !seen[x as usize] {
                seen[x as usize] = true;
                orig[x as usize] = v;
            }
        }
    }
    let delta = match alt {
        Some((a, b)) => [a.wrapping_sub(orig[0]), b.wrapping_sub(orig[1])],
        None => [0, 0],
    };
    isn = match alt {
        Some((a, b)) => [a, b],
        None => orig,
    };
    for l in ops {
        if l.starts_with("case ") || l.starts_with("alt ") {
            continue;
        }
        let mut line = l.clone();
        {
            // a forged segment addressed to x: SEQ lives in the peer's space, ACK (if the bit is
            // set) in x's
            let w: Vec<&str> = l.split_whitespace().collect();
            if w.len() >= 6 && (w[0] == "inject" || w[0] == "injecthex") {
                let x = if w[1] == "A" { SideId::A } else { SideId::B };
                if let (Ok(ctl), Ok(seq), Ok(ack)) = (w[2].parse::<u64>(), w[3].parse::<u64>(), w[4].parse::<u64>()) {
                    let seq2 = (seq as u32).wrapping_add(delta[x.peer() as usize]);
                    let ack2 = if ctl & 16 != 0 { (ack as u32).wrapping_add(delta[x as usize]) } else { ack as u32 };
                    let mut v: Vec<String> = w.iter().map(|s| s.to_string()).collect();
                    v[3] = seq2.to_string();
                    v[4] = ack2.to_string();
                    line = v.join(" ");
                }
            }
        }
        if let Some((x, v)) = isn_of_line(l) {
            let v2 = match alt {
                Some((a, b)) => {
                    if x == SideId::A {
                        a
                    } else {
                        b
                    }
                }
                None => v,
            };
            isn[x as usize] = v2;
            let w: Vec<&str> = l.split_whitespace().collect();
            line = format!("{} {} {} {}", w[0], w[1], v2, w[3]);
        }
        ex.apply(&line, scratch);
        let x = match l.split_whitespace().nth(1) {
            Some("B") => SideId::B,
            _ => SideId::A,
        };
        let (iss, irs) = (isn[x as usize], isn[x.peer() as usize]);
        // result: first word(s); emitted segments are printed from the history, normalised
        let w: Vec<&str> = ex.last.split_whitespace().collect();
        let res = match w.first().copied() {
            Some("emit") => format!("emit {}", w.get(1).unwrap_or(&"")),
            Some("response") => format!("response {}", w.get(1).unwrap_or(&"")),
            _ => ex.last.clone(),
        };
        let segs: Vec<String> = ex.last_emitted.iter().map(|i| format!("{}/{}", norm_hdr(&ex.history[*i].0, iss, irs), full(&ex.history[*i].1))).collect();
        let dump = match (ex.snap_ref(x), ex.side(x).listen) {
            (Some(s), _) => norm_snapshot(s, iss, irs),
            (None, Some((i, m))) => format!("listen({},{})", rel(i, iss), m),
            (None, None) => "none".into(),
        };
        recs.push((res, segs.join(" "), dump));
    }
    recs
}

fn pick_alt(rng: &mut Rng, span: u64) -> u32 {
    let near = |c: u64, rng: &mut Rng| ((c + P32 + rng.below(140001) - 70000) % P32) as u32;
    match rng.below(6) {
        0 => rng.next() as u32,
        1 => near(0, rng),
        2 => near(P31, rng),
        // the space wraps (resp. crosses 2^31) in the middle of the handshake / of the transfer
        3 => ((P32 - rng.below(span + 3)) % P32) as u32,
        4 => ((P31 + P32 - rng.below(span + 3)) % P32) as u32,
        _ => u32::MAX - rng.below(2) as u32,
    }
}

/// compare the two executions; on a difference report an oracle failure
fn compare(ops: &[String], alt: (u32, u32), scratch: &mut Out, out: &mut Out, probe: Option<&str>) {
    let t1 = trace(ops, None, scratch);
    let t2 = trace(ops, Some(alt), scratch);
    let lines: Vec<&String> = ops.iter().filter(|l| !l.starts_with("case ") && !l.starts_with("alt ")).collect();
    out.count_n("run.ops_compared", t1.len() as u64);
    for (i, (r1, r2)) in t1.iter().zip(t2.iter()).enumerate() {
        if r1 != r2 {
            let (kind, a, b) = if r1.0 != r2.0 {
                ("result", &r1.0, &r2.0)
            } else if r1.1 != r2.1 {
                ("segments", &r1.1, &r2.1)
            } else {
                ("state", &r1.2, &r2.2)
            };
            let op = lines[i].split_whitespace().next().unwrap_or("");
            let orig: Vec<String> = ops.iter().filter_map(|l| isn_of_line(l)).map(|(x, v)| format!("{}={}", x.name(), v)).collect();
            fail(
                out,
                &format!(
                    "the same schedule behaves differently under ISNs [{}] and [A={} B={}]: op #{} `{}` {} differ: `{}` vs `{}`",
                    orig.join(" "),
                    alt.0,
                    alt.1,
                    i,
                    lines[i],
                    kind,
                    a.chars().take(700).collect::<String>(),
                    b.chars().take(700).collect::<String>()
                ),
                &match probe {
                    Some(p) => format!("isn-dependent {}", p),
                    None => format!("isn-dependent {} of {}", kind, op),
                },
            );
            return;
        }
    }
    out.count("run.identical");
}

/// scripted witnesses of the places where `tcb.rs` held an ABSOLUTE number (notes/C12.md).
/// F-C12-2 (repaired; these are regression probes now): `SND.WL2` was copied from the ACK field of
/// a SYN without ACK bit (0 from an Elvis peer) and stayed so when the connection left
/// SYN-RECEIVED through `close()` or a FIN; the window-update test
/// `SND.WL1 == SEG.SEQ && SND.WL2 <= SEG.ACK` then compared real ACK numbers with it.
fn probes(first_case: u64, scratch: &mut Out, out: &mut Out) {
    let scripts: [(&str, (u32, u32), &[&str]); 2] = [
        (
            "wl2 close-in-syn-received",
            ((P31 + 100) as u32, 0),
            &["open A 100 1500", "inject A 2 5000 0 65535 0 0", "close A", "inject A 18 5000 101 1234 0 0"],
        ),
        (
            "wl2 fin-in-syn-received",
            ((P31 + 100) as u32, 0),
            &["open A 100 1500", "inject A 2 5000 0 65535 0 0", "inject A 1 5001 0 65535 0 0", "inject A 18 5000 101 1234 0 0"],
        ),
    ];
    for (k, (name, alt, lines)) in scripts.iter().enumerate() {
        let mut ex = Exec::new(Oracles { prefix: false, c17: false });
        out.begin_case(first_case + k as u64);
        for l in lines.iter() {
            ex.apply(l, out);
        }
        out.line(&format!("alt {} {}", alt.0, alt.1), "alt");
        out.count("run.probes");
        let ops = out.current_ops();
        compare(&ops, *alt, scratch, out, Some(name));
        out.end_case();
    }
}

fn run_runs(args: &Args) {
    let mut out = Out::new(&args.out);
    out.max_failures = 40;
    let mut scratch = Out::new(&args.out.join("scratch"));
    let steps: u64 = args.extra.get("steps").and_then(|s| s.parse().ok()).unwrap_or(200);
    let closes = args.extra.get("closes").map(|s| s == "1").unwrap_or(false);
    if let Some(p) = &args.replay {
        let ops = read_ops(p);
        let mut ex = Exec::new(Oracles { prefix: false, c17: false });
        out.begin_case(0);
        out.mark_nontrivial();
        let mut alts = vec![];
        for l in &ops {
            if l.starts_with("case ") {
                continue;
            }
            if let Some(rest) = l.strip_prefix("alt ") {
                let v: Vec<u32> = rest.split_whitespace().filter_map(|s| s.parse::<u64>().ok()).map(|v| v as u32).collect();
                if v.len() == 2 {
                    alts.push((v[0], v[1]));
                }
                out.line(l, "alt");
                continue;
            }
            ex.apply(l, &mut out);
        }
        if alts.is_empty() {
            alts.push((u32::MAX, (P31 - 1) as u32));
        }
        let probe = ops.iter().find_map(|l| l.strip_prefix("# probe ").map(|s| s.to_string()));
        for a in alts {
            compare(&ops, a, &mut scratch, &mut out, probe.as_deref());
        }
        out.end_case();
        out.finish(RULE_RUN);
        return;
    }
    let mut rng = Rng::new(args.seed);
    for c in 0..args.cases {
        let mut r = rng.fork();
        let mut ex = Exec::new(Oracles { prefix: true, c17: true });
        out.begin_case(c);
        schedule_case(&mut ex, &mut r, &mut out, &SchedCfg { steps, closes });
        if !ex.a.delivered.is_empty() || !ex.b.delivered.is_empty() {
            out.mark_nontrivial();
        }
        let span = [ex.a.submitted.len() as u64, ex.b.submitted.len() as u64];
        let ops = out.current_ops();
        for _ in 0..2 {
            let alt = (pick_alt(&mut r, span[0]), pick_alt(&mut r, span[1]));
            let line = format!("alt {} {}", alt.0, alt.1);
            out.line(&line, "alt");
            out.count("run.pairs");
            for (k, v) in [alt.0, alt.1].iter().enumerate() {
                let end = *v as u64 + span[k] + 2;
                if end >= P32 {
                    out.count("run.wraps_2^32_during_connection");
                } else if (*v as u64) < P31 && end >= P31 {
                    out.count("run.crosses_2^31_during_connection");
                }
            }
            compare(&ops, alt, &mut scratch, &mut out, None);
        }
        out.end_case();
    }
    probes(args.cases, &mut scratch, &mut out);
    out.finish(RULE_RUN);
}

pub fn run(args: &Args) {
    match args.prop.as_str() {
        "c12" => run_grid(args),
        _ => run_runs(args),
    }
}
