//! C14: correspondence + oracle runs (sub-commands `c14-*` of hfull).
//!
//!   * `c14-dhcps` (builder codec-b): the malformed DHCP stream of hcore's `c14-dhcp`, fed to the
//!     real `DhcpServer::demux` (which lives in the `elvis` crate, hence in this binary).
//!     Op lines: `sdemux <fetch> <hex> <pool>`; `pool` = the single address the server's generator
//!     holds (`-` = exhausted), `fetch` = what `fetch_ip()` yields for that pool (for the model).
use hcommon::*;

// the generators / classification of the hcore side are shared by inclusion (elvis-core + hcommon only)
#[path = "../../../hcore/src/props/c14.rs"]
#[allow(dead_code)]
mod core_c14;

pub fn run(args: &Args) {
    match args.prop.as_str() {
        "c14-dhcps" | "c14-dhcps-v0" => dhcps::run(args),
        _ => {
            eprintln!("hfull: {} not implemented yet", args.prop);
            std::process::exit(2);
        }
    }
}

mod dhcps {
    use super::core_c14::codec_b::{classify, dec_dhcp, fail, flush_failures, ip, ipn, malformed_case, biased, Decoded, Proto, Recorder};
    use elvis::applications::DhcpServer;
    use elvis::ip_generator::{IpGenerator, IpRange};
    use elvis_core::protocol::DemuxError;
    use elvis_core::{Control, Machine, Message, Protocol};
    use hcommon::*;
    use std::sync::Arc;

    fn pool_of(tok: &str) -> Option<IpGenerator> {
        if tok == "-" {
            Some(IpGenerator::none())
        } else {
            let n: u32 = tok.parse().ok()?;
            Some(IpGenerator::new(IpRange::new(ip(n), ip(n))))
        }
    }

    fn apply(line: &str, out: &mut Out) {
        let w: Vec<&str> = line.split_whitespace().collect();
        let ans = (|| -> Option<String> {
            let ["sdemux", fetch, h, pool] = w.as_slice() else { return None };
            let bs = unhex(h);
            let gen = pool_of(pool)?;
            // the op line must state what this pool yields (it is the model's input)
            let yields = gen.clone().fetch_ip().map(|a| ipn(a).to_string()).unwrap_or("-".into());
            if yields != *fetch {
                return None;
            }
            let server = DhcpServer::new(ip(0x7b7b7b7b), IpRange::new(ip(1), ip(1)));
            *server.ip_generator.write().unwrap() = gen;
            let before = format!("{:?}", server.ip_generator.read().unwrap());
            let decoded = dec_dhcp(&bs);
            let rec = Arc::new(Recorder::default());
            let r = catch(|| server.demux(Message::new(bs.clone()), rec.clone(), Control::new(), Machine::new().arc()));
            let sends: Vec<Vec<u8>> = rec.0.lock().map(|v| v.clone()).unwrap_or_default();
            let after = server.ip_generator.read().map(|g| format!("{:?}", g)).unwrap_or_else(|_| "poisoned".into());
            Some(match r {
                Err(p) => {
                    let (site, ident) = classify(&p);
                    out.count(&format!("sdemux.{}", site));
                    // a well-formed Discover on an exhausted pool is the code's acknowledged TODO (C15), not malformed input
                    if site != "panic:unwrap:dhcp_server_fetch_ip" {
                        fail(out, &format!("DhcpServer::demux panicked ({}) on datagram {}", site, hex(&bs)), &ident);
                    }
                    site
                }
                Ok(res) => {
                    let accepted = matches!(decoded, Decoded::Ok { .. });
                    if !accepted && (res.is_ok() || !sends.is_empty() || before != after) {
                        fail(
                            out,
                            &format!("DhcpServer::demux did not drop an undecodable datagram {} (result {:?}, {} sends, pool changed: {})", hex(&bs), res, sends.len(), before != after),
                            "demux-not-dropped dhcp-server",
                        );
                    }
                    let ans = match (res, sends.len(), &decoded) {
                        (Err(DemuxError::Header), 0, _) if before == after => "err-header".to_string(),
                        (Err(DemuxError::Other), 0, _) if before == after => "err-other".to_string(),
                        (Ok(()), 1, _) => format!("sent {}", hex(&sends[0])),
                        (Ok(()), 0, Decoded::Ok { v, .. }) => format!("released {}", v.yip),
                        (r, n, _) => format!("other {:?} {}", r, n),
                    };
                    out.count(&format!("sdemux.{}", ans.split(' ').next().unwrap_or("")));
                    ans
                }
            })
        })();
        match ans {
            Some(a) => out.line(line, &a),
            None => out.line(line, "bad-op"),
        }
        flush_failures(out);
    }

    pub fn run(args: &Args) {
        let mut out = Out::new(&args.out);
        out.max_failures = 40;
        let rule = "the malformed DHCP stream (valid packet, every truncation, every message type code, non-UTF-8 strings, field mutations, random bytes) fed to DhcpServer::demux with a one-address or an exhausted pool; oracles: no panic (except the documented exhausted-pool unwrap on a well-formed Discover), an undecodable datagram is dropped: Err, nothing sent, pool unchanged; a case is non-trivial if it saw a reply, a release and a drop; distinct = hash of the op lines";
        if let Some(rp) = &args.replay {
            out.begin_case(0);
            out.mark_nontrivial();
            for l in read_ops(rp) {
                if !l.starts_with("case ") {
                    apply(&l, &mut out);
                }
            }
            out.end_case();
            out.finish(rule);
            return;
        }
        let mut rng = Rng::new(args.seed ^ 0x5d5d_0000);
        for c in 0..args.cases {
            let mut r = rng.fork();
            out.begin_case(c);
            // case 0 of the hcore stream is the 9000-line UTF-8 table sweep; take a slice of it
            let mut ops = malformed_case(Proto::Dhcp, c, &mut r);
            if c == 0 {
                ops = ops.into_iter().step_by(7).collect();
            }
            let (mut sent, mut dropped, mut released) = (0, 0, 0);
            for op in ops {
                let Some(h) = op.split_whitespace().nth(1) else { continue };
                let pool = if r.chance(1, 8) { "-".to_string() } else { (biased(&mut r, 32) as u32).to_string() };
                let fetch = pool_of(&pool).and_then(|mut g| g.fetch_ip()).map(|a| ipn(a).to_string()).unwrap_or("-".into());
                let line = format!("sdemux {} {} {}", fetch, h, pool);
                let before = (out.hist.get("sdemux.sent").copied().unwrap_or(0), out.hist.get("sdemux.err-header").copied().unwrap_or(0), out.hist.get("sdemux.released").copied().unwrap_or(0));
                apply(&line, &mut out);
                sent += out.hist.get("sdemux.sent").copied().unwrap_or(0) - before.0;
                dropped += out.hist.get("sdemux.err-header").copied().unwrap_or(0) - before.1;
                released += out.hist.get("sdemux.released").copied().unwrap_or(0) - before.2;
            }
            if (sent > 0 && dropped > 0 && released > 0) || c == 0 {
                out.mark_nontrivial();
            }
            out.end_case();
        }
        out.finish(rule);
    }
}
