import ElvisVerif.Generated.ModCmpKernels
import Driver.C01
/-! Line-protocol handlers for C12.

* `c12` — the comparison grid: `lt a b`, `leq a b`, `gt a b`, `geq a b`, `bnd a c1 b c2 c`
  (`c1`, `c2` ∈ `lt`/`leq`), answered `1`/`0` by the kernels EXTRACTED from `modular_cmp.rs`
  (`Generated/ModCmpKernels.lean`), the definitions the theorems of `Props/C12.lean` are about.
* `c12-run*` — the two-endpoint TCP system of `Driver/C01.lean` (same ops, same answers); the
  `alt issA issB` lines (the second ISN pair the harness executes the schedule with) are echoed. -/
namespace Driver.C12
open Elvis.Gen.ModCmp

def u32? (s : String) : Option (BitVec 32) := do
  let n ← s.toNat?
  if n < 4294967296 then some (BitVec.ofNat 32 n) else none

def cmp? : String → Option Cmp
  | "lt" => some .Lt
  | "leq" => some .Leq
  | _ => none

def bit (b : Bool) : String := if b then "1" else "0"

def gridStep (st : Unit) (ws : List String) : Unit × String :=
  let r : Option String :=
    match ws with
    | ["case", id] => some s!"case {id}"
    | ["lt", a, b] => do pure (bit (mod_lt (← u32? a) (← u32? b)))
    | ["leq", a, b] => do pure (bit (mod_leq (← u32? a) (← u32? b)))
    | ["gt", a, b] => do pure (bit (mod_gt (← u32? a) (← u32? b)))
    | ["geq", a, b] => do pure (bit (mod_geq (← u32? a) (← u32? b)))
    | ["bnd", a, c1, b, c2, c] => do
      pure (bit (mod_bounded (← u32? a) (← cmp? c1) (← u32? b) (← cmp? c2) (← u32? c)))
    | _ => none
  (st, r.getD "bad-op")

def runStep (st : Driver.C01.St) (ws : List String) : Driver.C01.St × String :=
  match ws with
  | "alt" :: _ => (st, "alt")
  | _ => Driver.C01.step st ws

def dispatch (sub : String) (i o : IO.FS.Stream) : Option (IO Unit) :=
  if sub == "c12" then some (Driver.loop i o gridStep ())
  else if sub.startsWith "c12-" then some (Driver.loop i o runStep {})
  else none

end Driver.C12
