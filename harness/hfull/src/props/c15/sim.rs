//! Real simulations: one DHCP server, N clients started together.
use elvis::{applications::dhcp_server::DhcpServer, ip_generator::IpRange};
use elvis_core::{
    new_machine_arc,
    protocols::{
        dhcp::dhcp_client::DhcpClient,
        ipv4::{Ipv4, Ipv4Address, Recipient},
        udp::Udp,
        Arp, Pci,
    },
    run_internet_with_timeout, IpTable, Network,
};
use hcommon::*;
use std::time::Duration;

/// one simulation; returns (status, per-client address)
pub fn one_sim(n: usize, pool: (u32, u32), workers: usize) -> (String, Vec<Option<u32>>) {
    let rt = if workers == 0 {
        tokio::runtime::Builder::new_current_thread().enable_all().start_paused(true).build().unwrap()
    } else {
        tokio::runtime::Builder::new_multi_thread().worker_threads(workers).enable_all().build().unwrap()
    };
    rt.block_on(async move {
        let network = Network::basic();
        let server_ip = Ipv4Address::new([123, 123, 123, 123]);
        let ip_table: IpTable<Recipient> = [("0.0.0.0/0", Recipient::new(0, None))].into_iter().collect();
        let mut machines = vec![new_machine_arc![
            Udp::new(),
            Ipv4::new(ip_table.clone()),
            Pci::new([network.clone()]),
            Arp::new(),
            DhcpServer::new(server_ip, IpRange::new(pool.0.into(), pool.1.into())),
        ]];
        for _ in 0..n {
            machines.push(new_machine_arc![
                Udp::new(),
                Ipv4::new(ip_table.clone()),
                Pci::new([network.clone()]),
                Arp::new(),
                DhcpClient::new(server_ip),
            ]);
        }
        let status = run_internet_with_timeout(&machines, Duration::from_secs(2)).await;
        let ips = machines
            .iter()
            .skip(1)
            .map(|m| m.protocol::<DhcpClient>().unwrap().ip_address.read().unwrap().map(|a| a.to_u32()))
            .collect();
        (format!("{:?}", status), ips)
    })
}

pub fn child(args: &Args) {
    let n: usize = args.extra.get("n").and_then(|s| s.parse().ok()).unwrap_or(2);
    let a: u32 = args.extra.get("a").and_then(|s| s.parse().ok()).unwrap_or(1);
    let b: u32 = args.extra.get("b").and_then(|s| s.parse().ok()).unwrap_or(255);
    let w: usize = args.extra.get("workers").and_then(|s| s.parse().ok()).unwrap_or(0);
    let (st, ips) = one_sim(n, (a, b), w);
    println!("{} {:?}", st, ips);
}

pub fn run(_args: &Args) {
    unimplemented!()
}
