import Driver.C01
import Driver.C02
import Driver.C03
import Driver.C04
import Driver.C05
import Driver.C06
import Driver.C07
import Driver.C08
import Driver.C09
import Driver.C10
import Driver.C11
import Driver.C12
import Driver.C13
import Driver.C14
import Driver.C15
import Driver.C16
import Driver.C17
import Driver.C18
import Driver.C19
import Driver.C20
open Driver

def handlers : List (String → IO.FS.Stream → IO.FS.Stream → Option (IO Unit)) :=
  [C01.dispatch, C02.dispatch, C03.dispatch, C04.dispatch, C05.dispatch, C06.dispatch, C07.dispatch, C08.dispatch, C09.dispatch, C10.dispatch, C11.dispatch, C12.dispatch, C13.dispatch, C14.dispatch, C15.dispatch, C16.dispatch, C17.dispatch, C18.dispatch, C19.dispatch, C20.dispatch]

def main (args : List String) : IO UInt32 := do
  let stdin ← IO.getStdin
  let stdout ← IO.getStdout
  match args with
  | [sub] =>
    for h in handlers do
      if let some act := h sub stdin stdout then
        act
        return 0
    IO.eprintln s!"elvis_model: unknown sub-command {sub}"
    return 2
  | _ => IO.eprintln "usage: elvis_model <sub-command>"; return 2
