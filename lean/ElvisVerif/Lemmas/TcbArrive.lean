import ElvisVerif.Lemmas.TcbSnd
/-!
# Small facts about `segment_arrives` and LISTEN needed by the two-endpoint invariant
-/
namespace Elvis.Tcp
open Elvis.Rfc9293
namespace Tcb

/-- what stays parked was parked before or is the arriving segment -/
theorem drain_heap_sub (fuel : Nat) (s s' : Tcb) (r : SegmentArrivesResult) (e : drain fuel s = .ok (s', r)) :
    ∀ x ∈ s'.incoming.segments, x ∈ s.incoming.segments := by
  induction fuel generalizing s with
  | zero => unfold drain at e; cases e; exact fun _ h => h
  | succ n ih =>
    unfold drain at e
    split at e
    · cases e; exact fun _ h => h
    · rename_i top hpeek
      split at e
      · cases e; exact fun _ h => h
      · obtain ⟨rest, hpop⟩ := LHeap.pop_of_peek (le := segLe) hpeek
        rw [hpop] at e
        dsimp only at e
        have hmem := LHeap.mem_of_mem_pop hpop
        cases hp : processSegment { s with incoming.segments := rest } top with
        | error err => rw [hp] at e; simp at e
        | ok p1 =>
          obtain ⟨s1, r1⟩ := p1
          rw [hp] at e
          dsimp only at e
          have heap1 : s1.incoming.segments = rest := processSegment_heap _ _ _ _ hp
          split at e
          · cases e
            intro x hx; rw [heap1] at hx; exact hmem.2 x hx
          · intro x hx
            have := ih s1 e x hx
            rw [heap1] at this
            exact hmem.2 x this

theorem segmentArrives_heap_sub (s : Tcb) (segment : Segment) (s' : Tcb) (r : SegmentArrivesResult)
    (e : s.segmentArrives segment = .ok (s', r)) :
    ∀ x ∈ s'.incoming.segments, x ∈ segment :: s.incoming.segments := by
  unfold segmentArrives at e
  dsimp only at e
  split at e
  · simp at e
  · rw [enqueue_eq] at e
    cases e
    intro x hx
    rw [(enqueueBuilt_frame _ _).2.2.2.1] at hx
    exact List.mem_cons_of_mem _ hx
  · intro x hx
    have := drain_heap_sub _ _ _ _ e x hx
    rcases LHeap.mem_push.1 this with rfl | h
    · exact List.mem_cons_self
    · exact List.mem_cons_of_mem _ h

/-- no edge leaves SYN-SENT for another state without the SYN bit -/
theorem synsent_needs_syn (ev : Event) (b : State)
    (h : rfcCause ev (some .SynSent) (some b) = true) :
    ∃ a r f, ev = .segment a r true f := by
  cases ev with
  | segment a r sy f =>
    cases b <;> simp [rfcCause] at h
    all_goals exact ⟨a, r, f, by simp [h.1]⟩
  | _ => cases b <;> simp [rfcCause] at h

/-- a path whose events are all segments without the SYN bit stays in SYN-SENT (or ends in
    CLOSED) -/
theorem path_synsent {S : Event → Prop} {a b : Option State} (p : Path S a b)
    (hS : ∀ ev, S ev → ∃ x r f, ev = .segment x r false f) (ha : a = some .SynSent) :
    b = some .SynSent ∨ b = none := by
  induction p with
  | refl => exact Or.inl ha
  | @tail b' c' ev _ hs hc ih =>
    obtain ⟨x, r, f, rfl⟩ := hS ev hs
    rcases ih with h | h
    · subst h
      cases c' with
      | none => exact Or.inr rfl
      | some c'' =>
        obtain ⟨x', r', f', hev⟩ := synsent_needs_syn _ c'' hc
        simp at hev
    · subst h
      cases c' with
      | none => exact Or.inr rfl
      | some c'' => cases c'' <;> simp [rfcCause] at hc

/-- in SYN-SENT segments without SYN (and without sequence space) leave the endpoint in
    SYN-SENT; what stays parked was parked or is the arriving segment -/
theorem segmentArrives_synsent_stays (s : Tcb) (segment : Segment) (s' : Tcb)
    (e : s.segmentArrives segment = .ok (s', .Ok)) (hst : s.state = .SynSent)
    (hσ : segment.hdr.ctl.syn = false) (hh : ∀ x ∈ s.incoming.segments, x.hdr.ctl.syn = false) :
    s'.state = .SynSent := by
  obtain ⟨p, _⟩ := segmentArrives_path s segment s' .Ok e
  have := path_synsent p (fun ev ⟨x, hx, hev⟩ => by
    have hsyn : x.hdr.ctl.syn = false := by
      rcases List.mem_cons.1 hx with rfl | hx
      · exact hσ
      · exact hh x hx
    exact ⟨x.hdr.ctl.ack, x.hdr.ctl.rst, x.hdr.ctl.fin, by rw [hev]; simp [evOf, hsyn]⟩) (by rw [hst])
  rcases this with h | h
  · simpa [endState] using h
  · simp [endState] at h

/-- a TCB created in LISTEN: SYN-RECEIVED, only our SYN numbered, `RCV.NXT` just past the SYN that
    created it, that SYN parked with its SYN and ACK bits cleared -/
theorem listen_create (segment : Segment) (iss : Seq) (mtu : U16) (tcb : Tcb)
    (e : segmentArrivesListen segment iss mtu = .ok (some (.Tcb tcb))) :
    SndBelow tcb ∧ tcb.snd.iss = iss ∧ tcb.sent = 1 ∧ tcb.localPort = segment.hdr.dstPort ∧
      tcb.remotePort = segment.hdr.srcPort ∧ tcb.state = .SynReceived ∧
      tcb.rcv.nxt = segment.hdr.seq + 1 ∧ segment.hdr.ctl.syn = true ∧
      ∃ σ', tcb.incoming.segments = [σ'] ∧ σ'.hdr.seq = segment.hdr.seq ∧ σ'.hdr.ctl.syn = false ∧
        σ'.segLen + 1 = segment.segLen := by
  unfold segmentArrivesListen at e
  dsimp only at e
  split at e
  · simp at e
  · split at e
    · cases hb : (Hdr.builder segment.hdr.dstPort segment.hdr.srcPort segment.hdr.ack).withRst.build 0 <;>
        simp [hb] at e
    · split at e
      · rename_i hsyn
        rw [enqueue_eq] at e
        dsimp only at e
        generalize hq : Tcb.enqueueBuilt _ _ = q at e
        have fb : SndBelow q ∧ q.snd.iss = iss ∧ q.sent = 1 := by
          rw [← hq]
          refine sndBelow_fresh _ _ iss ?_ ?_ ?_ ?_ ?_ ?_ ?_ ?_ ?_ <;> rfl
        have fr : q.localPort = segment.hdr.dstPort ∧ q.remotePort = segment.hdr.srcPort ∧
            q.state = .SynReceived ∧ q.rcv.nxt = segment.hdr.seq + 1 ∧ q.incoming.segments = [] := by
          rw [← hq]
          exact ⟨(enqueueBuilt_frame _ _).2.2.2.2.2.2.2.2.1, (enqueueBuilt_frame _ _).2.2.2.2.2.2.2.2.2,
            (enqueueBuilt_frame _ _).2.2.2.2.1, by rw [(enqueueBuilt_frame _ _).2.1],
            by rw [(enqueueBuilt_frame _ _).2.2.2.1]⟩
        simp only [Except.ok.injEq, Option.some.injEq, ListenResult.Tcb.injEq] at e
        subst e
        refine ⟨⟨fb.1.pos, fb.1.queue, fb.1.plain, fb.1.qports, fb.1.oports⟩, fb.2.1, fb.2.2, fr.1, fr.2.1, fr.2.2.1, fr.2.2.2.1, hsyn, ?_⟩
        refine ⟨⟨{ segment.hdr with ctl := { segment.hdr.ctl with syn := false, ack := false } }, segment.text⟩,
          ?_, rfl, rfl, ?_⟩
        · show LHeap.push segLe q.incoming.segments _ = _
          rw [fr.2.2.2.2]
          rfl
        · simp only [Segment.segLen, hsyn]
          simp
          omega
      · simp at e

end Tcb
end Elvis.Tcp
