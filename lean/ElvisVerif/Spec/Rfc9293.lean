import ElvisVerif.Model.Tcb
/-!
# RFC 9293 — the connection state machine, written from the RFC (NOT from the code)

`none` stands for "no TCB": the fictional CLOSED state and LISTEN (Elvis keeps no TCB for
either; a passive open is a listen binding of `Tcp`).

* `rfcEdges from to` — the edge relation of Figure 5 (section 3.3.2) extended with the edges the
  *text* of sections 3.10.4 (CLOSE), 3.10.5 (ABORT), 3.10.7 (SEGMENT ARRIVES) and 3.10.8
  (timeouts) prescribes but the figure omits ("The diagram is only a summary").
* `rfcCause ev from to` — the same edges, each labelled with the event classes that may cause
  it: a user call, the TIME-WAIT timeout, or an arriving segment *with the control bits the RFC
  requires for that edge* (for instance ESTABLISHED → CLOSE-WAIT only on a segment with FIN,
  LAST-ACK → CLOSED only on RST or ACK).  "No change" is not an edge: every statement that uses
  these relations allows staying in place separately.

Only `State` is taken from the model (the nine states of section 3.3.2 other than CLOSED and
LISTEN).  Core only: the table is printed by the native driver (`Driver/C03.lean`) so that the
harness can check its Rust copy against it on every run.
-/
namespace Elvis.Rfc9293
open Elvis.Tcp (State)

/-- The edges of RFC 9293 Figure 5 plus the edges prescribed by the text. -/
def rfcEdges : Option State → Option State → Bool
  -- Figure 5: CLOSED --active OPEN / snd SYN--> SYN-SENT; LISTEN --SEND / snd SYN--> SYN-SENT
  | none, some .SynSent => true
  -- Figure 5: LISTEN --rcv SYN / snd SYN,ACK--> SYN-RECEIVED (3.10.7.2, third)
  | none, some .SynReceived => true
  -- Figure 5: SYN-SENT --rcv SYN / snd SYN,ACK--> SYN-RECEIVED (simultaneous open; 3.10.7.3 fourth)
  | some .SynSent, some .SynReceived => true
  -- Figure 5: SYN-SENT --rcv SYN,ACK / snd ACK--> ESTABLISHED (3.10.7.3 fourth)
  | some .SynSent, some .Established => true
  -- Figure 5: SYN-RECEIVED --rcv ACK of SYN--> ESTABLISHED (3.10.7.4 fifth)
  | some .SynReceived, some .Established => true
  -- Figure 5: SYN-RECEIVED --CLOSE / snd FIN--> FIN-WAIT-1 (3.10.4)
  | some .SynReceived, some .FinWait1 => true
  -- text only, 3.10.7.4 eighth (FIN bit): "SYN-RECEIVED STATE, ESTABLISHED STATE: enter the
  -- CLOSE-WAIT state"
  | some .SynReceived, some .CloseWait => true
  -- Figure 5: ESTABLISHED --CLOSE / snd FIN--> FIN-WAIT-1
  | some .Established, some .FinWait1 => true
  -- Figure 5: ESTABLISHED --rcv FIN / snd ACK--> CLOSE-WAIT
  | some .Established, some .CloseWait => true
  -- Figure 5: FIN-WAIT-1 --rcv ACK of FIN--> FIN-WAIT-2
  | some .FinWait1, some .FinWait2 => true
  -- Figure 5: FIN-WAIT-1 --rcv FIN / snd ACK--> CLOSING
  | some .FinWait1, some .Closing => true
  -- text only, 3.10.7.4 eighth: "FIN-WAIT-1 STATE: If our FIN has been ACKed (perhaps in this
  -- segment), then enter TIME-WAIT, start the time-wait timer, turn off the other timers"
  | some .FinWait1, some .TimeWait => true
  -- Figure 5: FIN-WAIT-2 --rcv FIN / snd ACK--> TIME-WAIT
  | some .FinWait2, some .TimeWait => true
  -- Figure 5: CLOSE-WAIT --CLOSE / snd FIN--> LAST-ACK
  | some .CloseWait, some .LastAck => true
  -- Figure 5: CLOSING --rcv ACK of FIN--> TIME-WAIT
  | some .Closing, some .TimeWait => true
  -- deletion of the TCB (→ CLOSED, or back to LISTEN for a passive open)
  -- SYN-SENT: RST with an acceptable ACK (3.10.7.3 second), CLOSE (3.10.4), ABORT (3.10.5)
  | some .SynSent, none => true
  -- SYN-RECEIVED: RST — passive open: "return to the LISTEN state"; active open: "connection
  -- refused", CLOSED (3.10.7.4 second; Figure 5 note 1); ABORT
  | some .SynReceived, none => true
  -- ESTABLISHED, FIN-WAIT-1, FIN-WAIT-2, CLOSE-WAIT: RST → "connection reset", CLOSED; ABORT
  | some .Established, none => true
  | some .FinWait1, none => true
  | some .FinWait2, none => true
  | some .CloseWait, none => true
  -- CLOSING, LAST-ACK, TIME-WAIT: RST → CLOSED, delete the TCB; ABORT
  | some .Closing, none => true
  -- Figure 5: LAST-ACK --rcv ACK of FIN--> CLOSED
  | some .LastAck, none => true
  -- Figure 5: TIME-WAIT --Timeout=2MSL / delete TCB--> CLOSED
  | some .TimeWait, none => true
  | _, _ => false

/-- an event a TCP endpoint reacts to (3.10): user calls, the time-wait timeout, an arriving
    segment characterised by the four control bits the state machine looks at -/
inductive Event
  | userOpen
  | userClose
  | userAbort
  | timeWaitTimeout
  | segment (ack rst syn fin : Bool)
  deriving DecidableEq, Repr

/-- The labelled edge relation: may `ev` move an endpoint from `from` to `to`? -/
def rfcCause : Event → Option State → Option State → Bool
  -- 3.10.1 OPEN (active)
  | .userOpen, none, some .SynSent => true
  -- 3.10.4 CLOSE
  | .userClose, some .SynSent, none => true
  | .userClose, some .SynReceived, some .FinWait1 => true
  | .userClose, some .Established, some .FinWait1 => true
  | .userClose, some .CloseWait, some .LastAck => true
  -- 3.10.5 ABORT: every state → CLOSED
  | .userAbort, some _, none => true
  -- 3.10.8 TIME-WAIT TIMEOUT
  | .timeWaitTimeout, some .TimeWait, none => true
  -- 3.10.7.2 LISTEN: first RST → ignore, second ACK → reset, third SYN → SYN-RECEIVED
  | .segment ack rst syn _, none, some .SynReceived => syn && !rst && !ack
  -- 3.10.7.3 SYN-SENT: second, RST: "If the ACK was acceptable … enter CLOSED state, delete TCB …
  -- Otherwise (no ACK), drop the segment and return"
  | .segment ack rst _ _, some .SynSent, none => rst && ack
  -- fourth, SYN: "If SND.UNA > ISS (our SYN has been ACKed), change the connection state to
  -- ESTABLISHED … Otherwise, enter SYN-RECEIVED".  The RFC's condition is on SND.UNA, not on the
  -- ACK bit of this segment, so the label only asks for the SYN (and no RST: the second step
  -- returns before the fourth)
  | .segment _ rst syn _, some .SynSent, some .Established => syn && !rst
  | .segment _ rst syn _, some .SynSent, some .SynReceived => syn && !rst
  -- 3.10.7.4 second, RST: every state → CLOSED (or back to LISTEN)
  | .segment _ rst _ _, some .SynReceived, none => rst
  | .segment _ rst _ _, some .Established, none => rst
  | .segment _ rst _ _, some .FinWait1, none => rst
  | .segment _ rst _ _, some .FinWait2, none => rst
  | .segment _ rst _ _, some .CloseWait, none => rst
  | .segment _ rst _ _, some .Closing, none => rst
  | .segment _ rst _ _, some .TimeWait, none => rst
  -- … and fifth, ACK, LAST-ACK: "If our FIN is now acknowledged, delete the TCB, enter the
  -- CLOSED state, and return"
  | .segment ack rst _ _, some .LastAck, none => rst || ack
  -- fifth, ACK: SYN-RECEIVED → ESTABLISHED; FIN-WAIT-1 → FIN-WAIT-2; CLOSING → TIME-WAIT
  | .segment ack _ _ _, some .SynReceived, some .Established => ack
  | .segment ack _ _ _, some .FinWait1, some .FinWait2 => ack
  | .segment ack _ _ _, some .Closing, some .TimeWait => ack
  -- eighth, FIN
  | .segment _ _ _ fin, some .SynReceived, some .CloseWait => fin
  | .segment _ _ _ fin, some .Established, some .CloseWait => fin
  | .segment _ _ _ fin, some .FinWait1, some .Closing => fin
  | .segment _ _ _ fin, some .FinWait1, some .TimeWait => fin
  | .segment _ _ _ fin, some .FinWait2, some .TimeWait => fin
  | _, _, _ => false

/-- zero or one edge -/
def rfcStep (a b : Option State) : Bool := a == b || rfcEdges a b

/-- zero or one edge caused by `ev` -/
def rfcStepBy (ev : Event) (a b : Option State) : Bool := a == b || rfcCause ev a b

/-- all ten "states" (for tables and `decide`) -/
def allStates : List (Option State) :=
  [none, some .SynSent, some .SynReceived, some .Established, some .FinWait1, some .FinWait2,
   some .CloseWait, some .Closing, some .LastAck, some .TimeWait]

/-- a path of edges (reflexive-transitive closure of `rfcEdges`), as a predicate on the list of
    states visited -/
def isPath : List (Option State) → Bool
  | a :: b :: rest => rfcStep a b && isPath (b :: rest)
  | _ => true

/-- one round of closure: everything reachable from `cur` by at most one edge caused by one of
    `evs` -/
def reachRound (evs : List Event) (cur : List (Option State)) : List (Option State) :=
  allStates.filter fun t => cur.contains t || cur.any fun s => evs.any fun ev => rfcCause ev s t

/-- `b` is reachable from `a` by a path of edges each caused by one of the events `evs`
    (ten rounds close a relation on ten states) -/
def rfcReach (evs : List Event) (a b : Option State) : Bool :=
  ((List.range 10).foldl (fun cur _ => reachRound evs cur) [a]).contains b

/-- the synchronised states (3.3.2: ESTABLISHED and everything after it) -/
def synchronised : State → Bool
  | .SynSent | .SynReceived => false
  | _ => true

end Elvis.Rfc9293
