import Driver.Common
/-! Line-protocol handlers for C05 (sub-commands `c05` / `c05-*`). -/
namespace Driver.C05

def dispatch (_sub : String) (_i _o : IO.FS.Stream) : Option (IO Unit) := none

end Driver.C05
