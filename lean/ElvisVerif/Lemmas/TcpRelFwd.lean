import ElvisVerif.Lemmas.TcpConvFwd
import ElvisVerif.Lemmas.TcpFinLocal
/-!
# Forward evaluation of the closing handshake (simultaneous close)

Exact effect of the calls of a simultaneous close on TCBs whose network is quiet:

* `close_fwd` — `close()` in ESTABLISHED with nothing left to segmentize: FIN-WAIT-1, the FIN is numbered
  `SND.NXT` and queued;
* `segments_notext_fwd` — `segments()` with nothing to segmentize: the one-shot headers, then every
  flagged queue entry;
* `arrive_fin_fw1` — the peer's FIN (not acknowledging ours) at `RCV.NXT` in FIN-WAIT-1: CLOSING, `RCV.NXT`
  steps over it, an ACK is queued;
* `arrive_ack_closing` — the ACK of our FIN in CLOSING: TIME-WAIT, the 2·MSL timer is armed;
* `receive_closing`, `receive_timeWait` — `receive()` returns nothing there.
-/
namespace Elvis.Tcp
open Elvis.ModCmp
namespace Tcb
open Elvis.Tcp.Fin

theorem close_fwd (t : Tcb) (hst : t.state = .Established) (ht : t.outgoing.text = []) :
    t.close = .ok (({ t with state := .FinWait1, snd.nxt := t.snd.nxt + 1, outgoing.retransmit := t.outgoing.retransmit ++ [Transmit.new ⟨({ t with state := .FinWait1 } : Tcb).finHdr.built, []⟩] } : Tcb), .Ok) := by
  unfold close
  rw [hst]
  dsimp only
  rw [(Elvis.Tcp.Fin.queueFin_eq ({ t with state := .FinWait1 } : Tcb)).2 ht]

/-- what `segments()` returns when nothing is left to segmentize -/
def emitOut (t : Tcb) : List Segment :=
  (t.outgoing.oneshot.map fun h => (⟨h, []⟩ : Segment)) ++
    ((t.outgoing.retransmit.filter (·.needsTransmit)).map (·.segment))

theorem segments_notext_fwd (t : Tcb) (ht : t.outgoing.text = []) (hm : ¬ t.mtu.toNat < SPACE_FOR_HEADERS) :
    ∃ t', t.segments = .ok (t', emitOut t) ∧ t'.state = t.state ∧ t'.snd = t.snd ∧ t'.rcv = t.rcv ∧
      t'.incoming = t.incoming ∧ t'.outgoing.text = [] ∧ t'.outgoing.oneshot = [] ∧
      t'.outgoing.retransmit = t.outgoing.retransmit.map (fun x => { x with needsTransmit := false }) ∧
      t'.mtu = t.mtu ∧ t'.localPort = t.localPort ∧ t'.remotePort = t.remotePort ∧
      t'.timeouts.timeWait = t.timeouts.timeWait := by
  have hs1 : segmentizeIfOpen ({ t with outgoing.oneshot := [] } : Tcb) = .ok ({ t with outgoing.oneshot := [] } : Tcb) := by
    unfold segmentizeIfOpen
    split
    all_goals first
      | rfl
      | (rw [if_neg hm]; exact segmentize_nil _ _ _ _ ht)
  have hp : t.finPending = false := by
    rw [finPending_eq, ht]; simp
  unfold segments
  dsimp only
  rw [hs1]
  dsimp only
  rw [hp]
  unfold finIfPending
  rw [if_neg Bool.false_ne_true]
  dsimp only
  refine ⟨_, rfl, ?_, ?_, ?_, ?_, ?_, ?_, ?_, ?_, ?_, ?_, ?_⟩
  all_goals (split <;> first | rfl | exact ht)

/-- the pure ACK an endpoint queues after `RCV.NXT` stepped over a FIN -/
def finAckHdr (t : Tcb) : Hdr := (({ t with rcv.nxt := t.rcv.nxt + 1 } : Tcb).ackHdr).built

theorem inWindow_nxt (t : Tcb) (hw : t.rcv.wnd = 65535#16) : t.isInRcvWindow t.rcv.nxt = true := by
  have h16 : (65535#16 : BitVec 16).toNat = 65535 := rfl
  rw [isInRcvWindow_iff, hw, h16]
  left
  have : t.rcv.nxt - t.rcv.nxt = 0 := by bv_omega
  rw [this]; decide

theorem aep_old (t : Tcb) (seg : Hdr) (h : modLeq seg.ack t.snd.una = true) :
    t.ackEstablishedProcessing seg = .ok (t, .Success) := by
  unfold ackEstablishedProcessing
  rw [if_pos h]

/-- the peer's FIN at `RCV.NXT` in FIN-WAIT-1, our FIN unacknowledged: CLOSING -/
theorem arrive_fin_fw1 (t : Tcb) (g : Segment) (hst : t.state = .FinWait1) (hw : t.rcv.wnd = 65535#16)
    (hheap : t.incoming.segments = []) (hna : (t.snd.nxt == t.snd.una) = false)
    (hrst : g.hdr.ctl.rst = false) (hsyn : g.hdr.ctl.syn = false) (hfin : g.hdr.ctl.fin = true)
    (hack : g.hdr.ctl.ack = true) (htext : g.text = []) (hseq : g.hdr.seq = t.rcv.nxt)
    (hold : modLeq g.hdr.ack t.snd.una = true) :
    t.segmentArrives g = .ok (({ t with state := .Closing, rcv.nxt := t.rcv.nxt + 1, outgoing.oneshot := t.outgoing.oneshot ++ [t.finAckHdr] } : Tcb), .Ok) := by
  have hw0 : ¬ t.rcv.wnd = 0 := by rw [hw]; decide
  have hns : t.state ≠ .SynSent := by rw [hst]; simp
  have hok : t.isSeqOk (BitVec.ofNat 32 g.text.length) g.hdr.seq g.hdr.ctl.syn g.hdr.ctl.fin = .ok true := by
    unfold isSeqOk
    rw [htext, hsyn, hfin, hseq]
    simp only [List.length_nil, BitVec.toNat_ofNat, Nat.zero_mod, Bool.toNat_false, Bool.toNat_true, Nat.add_zero,
      Nat.zero_add]
    rw [if_neg (by omega), if_neg (by omega), if_neg hw0, inWindow_nxt t hw]
    rfl
  have hnfa : t.isFinAcked = false := by
    unfold isFinAcked
    rw [hna]; simp
  have c1 : seqCheck t g.hdr (BitVec.ofNat 32 g.text.length) = .ok (t, none) := C01.seqCheck_pass hns hok
  have c2 : ackBlock t g.hdr = .ok (t, none) := by
    unfold ackBlock
    rw [if_neg (by simp [hack]), hst]
    dsimp only
    unfold afterAckEstablished
    rw [aep_old t g.hdr hold]
    dsimp only
    rw [hnfa]
    simp
  have c3 : rstBlock t g.hdr = .ok (t, none) := by
    unfold rstBlock
    rw [if_pos (by simp [hrst])]
  have c4 : synBlock t g.hdr = .ok (t, none) := by
    unfold synBlock
    rw [if_pos (by simp [hsyn]), if_neg hns]
  have c5 : textBlock t g.hdr g.text (BitVec.ofNat 32 g.text.length) = .ok (t, none) := by
    unfold textBlock
    rw [if_pos (by rw [htext]; rfl)]
  have hz : g.hdr.seq + BitVec.ofNat 32 g.text.length + 1 = t.rcv.nxt + 1 := by
    rw [htext, hseq]; simp
  have c6 : finBlock t g.hdr (BitVec.ofNat 32 g.text.length) =
      .ok (({ t with state := .Closing, rcv.nxt := t.rcv.nxt + 1, outgoing.oneshot := t.outgoing.oneshot ++ [t.finAckHdr] } : Tcb), none) := by
    rw [finBlock_fin_eq t g.hdr _ hfin hns (Or.inl (by rw [htext, hseq]; simp)), enqueueBuilt_ack, hz]
    unfold Elvis.Tcp.Fin.finState
    dsimp only
    rw [hst]
    dsimp only
    have hfa' : ∀ u : Tcb, u.snd = t.snd → u.isFinAcked = false := by
      intro u hu
      unfold isFinAcked
      rw [hu, hna]; simp
    rw [if_neg (by unfold isFinAcked; simp [hna])]
    rfl
  have hps : t.processSegment g = .ok (({ t with state := .Closing, rcv.nxt := t.rcv.nxt + 1, outgoing.oneshot := t.outgoing.oneshot ++ [t.finAckHdr] } : Tcb), .Success) := by
    unfold processSegment
    dsimp only
    rw [c1, andThen_none, c2, andThen_none, c3, andThen_none, c4, andThen_none, c5, andThen_none, c6]
  exact arrive_single t g hns hheap hok (by rw [hseq]; exact C01.modGt_self _) _ _ hps rfl

/-- the ACK of our FIN at `RCV.NXT` in CLOSING: TIME-WAIT with the 2·MSL timer armed -/
theorem arrive_ack_closing (t : Tcb) (g : Segment) (hst : t.state = .Closing) (hw : t.rcv.wnd = 65535#16)
    (hheap : t.incoming.segments = []) (ht : t.outgoing.text = [])
    (hrst : g.hdr.ctl.rst = false) (hsyn : g.hdr.ctl.syn = false) (hfin : g.hdr.ctl.fin = false)
    (hack : g.hdr.ctl.ack = true) (htext : g.text = []) (hseq : g.hdr.seq = t.rcv.nxt)
    (hnew : modLeq g.hdr.ack t.snd.una = false)
    (hb : modBounded t.snd.una .Lt g.hdr.ack .Leq t.snd.nxt = true) (hall : g.hdr.ack = t.snd.nxt) :
    ∃ t', t.segmentArrives g = .ok (t', .Ok) ∧ t'.state = .TimeWait ∧ t'.timeouts.timeWait = some TIME_WAIT := by
  have hw0 : ¬ t.rcv.wnd = 0 := by rw [hw]; decide
  have hns : t.state ≠ .SynSent := by rw [hst]; simp
  have hok : t.isSeqOk (BitVec.ofNat 32 g.text.length) g.hdr.seq g.hdr.ctl.syn g.hdr.ctl.fin = .ok true := by
    unfold isSeqOk
    rw [htext, hsyn, hfin, hseq]
    simp only [List.length_nil, BitVec.toNat_ofNat, Nat.zero_mod, Bool.toNat_false, Nat.add_zero]
    rw [if_neg (by omega), if_pos trivial, if_neg hw0, inWindow_nxt t hw]
  obtain ⟨t1, e1, fx⟩ := ackEst_fwd t g.hdr (Or.inr hb)
  have hfa : t1.isFinAcked = true := by
    unfold isFinAcked
    rw [finPending_eq, fx.otext, ht, fx.nxt, fx.una, hnew]
    simp [hall]
  have c1 : seqCheck t g.hdr (BitVec.ofNat 32 g.text.length) = .ok (t, none) := C01.seqCheck_pass hns hok
  have c2 : ackBlock t g.hdr =
      .ok (({ t1 with state := .TimeWait, timeouts.timeWait := some TIME_WAIT } : Tcb), none) := by
    unfold ackBlock
    rw [if_neg (by simp [hack]), hst]
    dsimp only
    unfold afterAckEstablished
    rw [e1]
    dsimp only
    rw [if_pos hfa]
    simp
  have c3 : ∀ u : Tcb, rstBlock u g.hdr = .ok (u, none) := by
    intro u
    unfold rstBlock
    rw [if_pos (by simp [hrst])]
  have c4 : ∀ u : Tcb, u.state = .TimeWait → synBlock u g.hdr = .ok (u, none) := by
    intro u hu
    unfold synBlock
    rw [if_pos (by simp [hsyn]), if_neg (by rw [hu]; simp)]
  have c5 : ∀ u : Tcb, textBlock u g.hdr g.text (BitVec.ofNat 32 g.text.length) = .ok (u, none) := by
    intro u
    unfold textBlock
    rw [if_pos (by rw [htext]; rfl)]
  have c6 : ∀ u : Tcb, finBlock u g.hdr (BitVec.ofNat 32 g.text.length) = .ok (u, none) := by
    intro u
    unfold finBlock
    rw [if_pos (by simp [hfin])]
  have hps : t.processSegment g =
      .ok (({ t1 with state := .TimeWait, timeouts.timeWait := some TIME_WAIT } : Tcb), .Success) := by
    unfold processSegment
    dsimp only
    rw [c1, andThen_none, c2, andThen_none, c3, andThen_none, c4 _ rfl, andThen_none, c5, andThen_none, c6]
  exact ⟨_, arrive_single t g hns hheap hok (by rw [hseq]; exact C01.modGt_self _) _ _ hps rfl, rfl, rfl⟩

theorem receive_quiet (t : Tcb) (h : t.state = .Closing ∨ t.state = .TimeWait ∨ t.state = .LastAck) :
    t.receive = (t, []) := by
  unfold receive
  rcases h with h | h | h <;> rw [h]

end Tcb
end Elvis.Tcp
