import ElvisVerif.Lemmas.NdlWhole2
/-!
# NDL: a written description followed by anything, in any layout

The file-level rewriting restarts at every line end, so it acts on a written description and on
what follows it separately: `normalise (renderDoc lay doc ++ rest) =
renderDoc .tabs (normDoc doc) ++ normalise rest`.  This is what lets the whole-file rejection
theorems speak about files written with spaces or CRLF.
-/
namespace Elvis.Ndl

theorem normalise_rlText_append (lay : Layout) : ∀ (ls : List RLine),
    (∀ x ∈ ls, (' ' ∉ x.deco.tag ∧ '\r' ∉ x.deco.tag) ∧ KeysStart x.ps) → ∀ more : Text,
    fourSpFrom 0 (dropCR (rlText lay ls) ++ more) = rlText .tabs (ls.map RLine.norm) ++ fourSpFrom 0 more
  | [], _, more => by simp [rlText, dropCR]
  | x :: ls, h, more => by
    have ih := normalise_rlText_append lay ls (fun y hy => h y (List.mem_cons_of_mem _ hy)) more
    have hx := h x List.mem_cons_self
    rw [rlText_cons, dropCR_append, List.append_assoc, normalise_rline lay x hx.1 hx.2, ih]
    simp [rlText]

theorem doc_lines_cond (doc : Doc) (h : (normDoc doc).Ok) :
    ∀ x ∈ doc.lines, (' ' ∉ x.deco.tag ∧ '\r' ∉ x.deco.tag) ∧ KeysStart x.ps := by
  intro x hx
  have hxn : x.norm ∈ (normDoc doc).lines := by
    rw [normDoc_lines]; exact List.mem_map_of_mem hx
  have hok := h.1 _ hxn
  exact ⟨tag_no_space_cr x.dt x.deco.tag hok.1, keysStart_of_lineOk x.ps hok.2⟩

theorem normalise_renderDoc_append (lay : Layout) (doc : Doc) (h : (normDoc doc).Ok) (rest : Text) :
    normalise (renderDoc lay doc ++ rest) = renderDoc .tabs (normDoc doc) ++ normalise rest := by
  unfold normalise fourSp renderDoc
  rw [dropCR_append, normalise_rlText_append lay doc.lines (doc_lines_cond doc h), normDoc_lines]

theorem lc_norm (ls : List RLine) : lc (ls.map RLine.norm) = lc ls := by
  simp [lc, List.map_map, Function.comp_def, RLine.norm]

end Elvis.Ndl
