//! Wire formats for the `c14-stack` / `c17-demux` runs, written from the RFCs (791, 768, 9293,
//! 826, 1071) and NOT from the decoders under test: byte packers with every field overridable,
//! and the reference classifier that decides what a conforming receiver has to do with a frame.
#![allow(dead_code)]

/// `false` when the stack under test was built without `compute_checksum`: its encoders then
/// write 0 into every checksum field and its decoders accept nothing else (probed at start-up by
/// `c14s::init_checksum_mode`), so the frames of this run carry 0 there as well.
pub static CHECKSUMS: std::sync::atomic::AtomicBool = std::sync::atomic::AtomicBool::new(true);
fn checksums() -> bool {
    CHECKSUMS.load(std::sync::atomic::Ordering::SeqCst)
}
/// the value a checksum field must hold given the RFC 1071 sum over `parts` (field zeroed)
fn field(parts: &[&[u8]]) -> u16 {
    if checksums() {
        csum16(parts)
    } else {
        0
    }
}
/// `parts` include the transmitted checksum field
fn verifies(parts: &[&[u8]], transmitted: u16) -> bool {
    if checksums() {
        csum16(parts) == 0
    } else {
        transmitted == 0
    }
}

pub const FIN: u8 = 1;
pub const SYN: u8 = 2;
pub const RST: u8 = 4;
pub const PSH: u8 = 8;
pub const ACK: u8 = 16;
pub const URG: u8 = 32;

/// RFC 1071: one's complement of the one's complement sum of the 16-bit words (odd tail padded)
pub fn csum16(parts: &[&[u8]]) -> u16 {
    let mut sum: u32 = 0;
    for p in parts {
        let mut i = 0;
        while i + 1 < p.len() {
            sum += u16::from_be_bytes([p[i], p[i + 1]]) as u32;
            i += 2;
        }
        if i < p.len() {
            sum += (p[i] as u32) << 8;
        }
    }
    while sum >> 16 != 0 {
        sum = (sum & 0xffff) + (sum >> 16);
    }
    !(sum as u16)
}

#[derive(Clone, Debug)]
pub struct IpF {
    pub ver: u8,
    pub ihl: u8,
    pub tos: u8,
    /// `None` = 4*ihl + payload length
    pub tl: Option<u16>,
    pub id: u16,
    /// flags (3 bits) and fragment offset (13 bits)
    pub ffo: u16,
    pub ttl: u8,
    pub proto: u8,
    /// `None` = correct header checksum
    pub ck: Option<u16>,
    pub src: u32,
    pub dst: u32,
    /// option octets placed after the 20 fixed ones (independent of `ihl`)
    pub opts: Vec<u8>,
}
impl IpF {
    pub fn new(src: u32, dst: u32, proto: u8) -> IpF {
        IpF { ver: 4, ihl: 5, tos: 0, tl: None, id: 0, ffo: 0, ttl: 30, proto, ck: None, src, dst, opts: vec![] }
    }
}
pub fn ip_pack(f: &IpF, payload: &[u8]) -> Vec<u8> {
    let hdr_len = 20 + f.opts.len();
    let tl = f.tl.unwrap_or((hdr_len + payload.len()).min(65535) as u16);
    let mut h = vec![(f.ver << 4) | (f.ihl & 15), f.tos];
    h.extend_from_slice(&tl.to_be_bytes());
    h.extend_from_slice(&f.id.to_be_bytes());
    h.extend_from_slice(&f.ffo.to_be_bytes());
    h.push(f.ttl);
    h.push(f.proto);
    h.extend_from_slice(&[0, 0]);
    h.extend_from_slice(&f.src.to_be_bytes());
    h.extend_from_slice(&f.dst.to_be_bytes());
    h.extend_from_slice(&f.opts);
    let ck = f.ck.unwrap_or_else(|| field(&[&h]));
    h[10..12].copy_from_slice(&ck.to_be_bytes());
    h.extend_from_slice(payload);
    h
}

fn pseudo(src: u32, dst: u32, proto: u8, len: usize) -> Vec<u8> {
    let mut p = vec![];
    p.extend_from_slice(&src.to_be_bytes());
    p.extend_from_slice(&dst.to_be_bytes());
    p.push(0);
    p.push(proto);
    p.extend_from_slice(&(len as u16).to_be_bytes());
    p
}

/// UDP datagram; `len_field = None` = 8 + payload length
pub fn udp_pack(src: u32, dst: u32, sp: u16, dp: u16, len_field: Option<u16>, payload: &[u8]) -> Vec<u8> {
    let len = len_field.unwrap_or((8 + payload.len()).min(65535) as u16);
    let mut d = vec![];
    d.extend_from_slice(&sp.to_be_bytes());
    d.extend_from_slice(&dp.to_be_bytes());
    d.extend_from_slice(&len.to_be_bytes());
    d.extend_from_slice(&[0, 0]);
    d.extend_from_slice(payload);
    let mut ck = field(&[&pseudo(src, dst, 17, len as usize), &d]);
    if ck == 0 && checksums() {
        ck = 0xffff;
    }
    d[6..8].copy_from_slice(&ck.to_be_bytes());
    d
}

#[derive(Clone, Debug)]
pub struct TcpF {
    pub sp: u16,
    pub dp: u16,
    pub seq: u32,
    pub ack: u32,
    pub doff: u8,
    pub flags: u8,
    pub wnd: u16,
    pub urg: u16,
    /// option octets placed after the 20 fixed ones (independent of `doff`)
    pub opts: Vec<u8>,
}
pub fn tcp_pack(src: u32, dst: u32, f: &TcpF, payload: &[u8]) -> Vec<u8> {
    let mut d = vec![];
    d.extend_from_slice(&f.sp.to_be_bytes());
    d.extend_from_slice(&f.dp.to_be_bytes());
    d.extend_from_slice(&f.seq.to_be_bytes());
    d.extend_from_slice(&f.ack.to_be_bytes());
    d.push(f.doff << 4);
    d.push(f.flags & 0x3f);
    d.extend_from_slice(&f.wnd.to_be_bytes());
    d.extend_from_slice(&[0, 0]);
    d.extend_from_slice(&f.urg.to_be_bytes());
    d.extend_from_slice(&f.opts);
    d.extend_from_slice(payload);
    let ck = field(&[&pseudo(src, dst, 6, d.len()), &d]);
    d[16..18].copy_from_slice(&ck.to_be_bytes());
    d
}
/// recompute the TCP checksum of an already packed (possibly cut) segment
pub fn tcp_fix_checksum(src: u32, dst: u32, d: &mut [u8]) {
    if d.len() >= 18 {
        d[16] = 0;
        d[17] = 0;
        let ck = field(&[&pseudo(src, dst, 6, d.len()), d]);
        d[16..18].copy_from_slice(&ck.to_be_bytes());
    }
}

#[allow(clippy::too_many_arguments)]
pub fn arp_pack(htype: u16, ptype: u16, hlen: u8, plen: u8, oper: u16, smac: u64, sip: u32, tmac: u64, tip: u32) -> Vec<u8> {
    let mut d = vec![];
    d.extend_from_slice(&htype.to_be_bytes());
    d.extend_from_slice(&ptype.to_be_bytes());
    d.push(hlen);
    d.push(plen);
    d.extend_from_slice(&oper.to_be_bytes());
    d.extend_from_slice(&smac.to_be_bytes()[2..8]);
    d.extend_from_slice(&sip.to_be_bytes());
    d.extend_from_slice(&tmac.to_be_bytes()[2..8]);
    d.extend_from_slice(&tip.to_be_bytes());
    d
}

// ------------------------------------------------------------------------------------------
// reference classifier
// ------------------------------------------------------------------------------------------

#[derive(Clone, Debug, PartialEq)]
pub struct TcpSeg {
    pub src: (u32, u16),
    pub dst: (u32, u16),
    pub seq: u32,
    pub ack: u32,
    pub flags: u8,
    pub wnd: u16,
    pub payload: Vec<u8>,
}
impl TcpSeg {
    /// sequence numbers the segment occupies (SEG.LEN of RFC 9293)
    pub fn seg_len(&self) -> u32 {
        self.payload.len() as u32 + (self.flags & SYN != 0) as u32 + (self.flags & FIN != 0) as u32
    }
}

/// What a conforming receiver has to do with a frame, decided from the RFC formats alone.
#[derive(Clone, Debug, PartialEq)]
pub enum Verdict {
    /// the headers do not decode at `layer`: the frame must be dropped there
    Reject { layer: &'static str, why: &'static str },
    /// legal or tolerable on the wire, but this stack documents that it does not support it, or
    /// the RFCs leave the treatment open: no expectation beyond "no crash"
    Lenient { why: &'static str },
    /// well-formed UDP datagram
    Udp { src: (u32, u16), dst: (u32, u16), payload: Vec<u8> },
    /// a UDP datagram that is consistent in itself (UDP length = the UDP octets that count, see
    /// `reference_ip`) inside a frame whose octet count differs from the IPv4 total length: link
    /// padding behind the datagram (RFC 791: the datagram ends at the total length; a receiver that
    /// is not told the frame length may fail to trim it) or an IPv4 datagram cut short of its total
    /// length behind a complete, self-consistent UDP datagram.  A receiver may drop it; IF it
    /// delivers, then exactly this payload, exactly once, to the datagram's own listener.
    UdpMay { src: (u32, u16), dst: (u32, u16), payload: Vec<u8>, why: &'static str },
    /// well-formed TCP segment
    Tcp(TcpSeg),
    /// well-formed ARP packet
    Arp { oper: u16 },
}

/// `link` = the protocol the frame names at the link layer: "ipv4", "arp", "udp", "tcp", other
pub fn reference(link: &str, b: &[u8]) -> Verdict {
    match link {
        "ipv4" => reference_ip(b),
        "arp" => {
            if b.len() < 28 {
                return Verdict::Reject { layer: "arp", why: "arp-short" };
            }
            let oper = u16::from_be_bytes([b[6], b[7]]);
            if oper != 1 && oper != 2 {
                return Verdict::Reject { layer: "arp", why: "arp-operation" };
            }
            // RFC 826 makes the hardware/protocol length checks optional
            if b[4] != 6 || b[5] != 4 || b[0..2] != [0, 1] || b[2..4] != [8, 0] {
                return Verdict::Lenient { why: "arp-types-or-lengths" };
            }
            Verdict::Arp { oper }
        }
        // a transport datagram handed over without an IP header cannot be attributed to any
        // address pair: there is nothing a transport layer may do with it but drop it
        "udp" | "tcp" => Verdict::Reject { layer: "link", why: "transport-without-ip" },
        _ => Verdict::Reject { layer: "link", why: "unknown-link-protocol" },
    }
}

fn reference_ip(b: &[u8]) -> Verdict {
    if b.len() < 20 {
        return Verdict::Reject { layer: "ipv4", why: "ip-short" };
    }
    if b[0] >> 4 != 4 {
        return Verdict::Reject { layer: "ipv4", why: "ip-version" };
    }
    let ihl = (b[0] & 15) as usize;
    if ihl < 5 {
        return Verdict::Reject { layer: "ipv4", why: "ip-ihl-small" };
    }
    let tl = u16::from_be_bytes([b[2], b[3]]) as usize;
    if tl < ihl * 4 {
        return Verdict::Reject { layer: "ipv4", why: "ip-total-length-small" };
    }
    if ihl > 5 {
        if b.len() < ihl * 4 {
            return Verdict::Reject { layer: "ipv4", why: "ip-options-truncated" };
        }
        return Verdict::Lenient { why: "ip-options" };
    }
    if b[1] & 3 != 0 {
        return Verdict::Lenient { why: "ip-tos-reserved" };
    }
    let ffo = u16::from_be_bytes([b[6], b[7]]);
    if ffo & 0x8000 != 0 {
        return Verdict::Lenient { why: "ip-flag-reserved" };
    }
    if !verifies(&[&b[..20]], u16::from_be_bytes([b[10], b[11]])) {
        return Verdict::Lenient { why: "ip-checksum" };
    }
    if ffo & 0x2000 != 0 || ffo & 0x1fff != 0 {
        // one fragment alone never is a whole datagram
        return Verdict::Reject { layer: "ipv4", why: "ip-lone-fragment" };
    }
    // The frame and the IPv4 total length disagree.  RFC 791: the datagram is `total length` octets
    // long, whatever the link delivered behind it is padding; a frame SHORTER than the total length
    // carries a datagram cut short in transit.  What the receiver owes is decided below from the
    // transport octets that count (for TCP, which has no length field of its own, the frame stays
    // in the tolerated class: no expectation beyond "no crash").
    let frame_vs_tl: &'static str = if tl > b.len() {
        "ip-total-length-beyond-frame"
    } else if tl < b.len() {
        "ip-padding"
    } else {
        ""
    };
    if !frame_vs_tl.is_empty() && b[9] != 17 {
        return Verdict::Lenient { why: frame_vs_tl };
    }
    let src = u32::from_be_bytes([b[12], b[13], b[14], b[15]]);
    let dst = u32::from_be_bytes([b[16], b[17], b[18], b[19]]);
    // the transport octets that count: what arrived behind the IPv4 header, cut at the total length
    // when the frame is longer (padding is not part of the datagram)
    let rest = &b[20..tl.min(b.len())];
    match b[9] {
        17 => {
            // RFC 768: Length = octets of this user datagram including header and data.  A length
            // field that is not the number of UDP octets that arrived (after trimming link padding)
            // describes a datagram that was cut short, or that claims octets beyond its IPv4
            // datagram: either way it does not decode and must be dropped at the UDP layer.
            if rest.len() < 8 {
                // (fewer than 8 octets of the IPv4 payload are there although the frame goes on: the UDP
                // header itself lies beyond the end of the datagram)
                return Verdict::Reject { layer: "udp", why: if frame_vs_tl == "ip-padding" { "udp-short-of-ip-payload" } else { "udp-short" } };
            }
            let len = u16::from_be_bytes([rest[4], rest[5]]) as usize;
            if len < 8 {
                return Verdict::Reject { layer: "udp", why: "udp-length-small" };
            }
            if len != rest.len() {
                return Verdict::Reject {
                    layer: "udp",
                    why: match frame_vs_tl {
                        "ip-total-length-beyond-frame" => "udp-length-vs-octets-arrived-cut",
                        "ip-padding" => "udp-length-vs-ip-payload-padded",
                        _ => "udp-length-mismatch",
                    },
                };
            }
            let ck = u16::from_be_bytes([rest[6], rest[7]]);
            if ck != 0 && !verifies(&[&pseudo(src, dst, 17, len), rest], ck) {
                return Verdict::Lenient { why: "udp-checksum" };
            }
            let (s, d, payload) = ((src, u16::from_be_bytes([rest[0], rest[1]])), (dst, u16::from_be_bytes([rest[2], rest[3]])), rest[8..].to_vec());
            if frame_vs_tl.is_empty() {
                Verdict::Udp { src: s, dst: d, payload }
            } else {
                Verdict::UdpMay { src: s, dst: d, payload, why: frame_vs_tl }
            }
        }
        6 => {
            if rest.len() < 20 {
                return Verdict::Reject { layer: "tcp", why: "tcp-short" };
            }
            let doff = (rest[12] >> 4) as usize;
            if doff < 5 {
                return Verdict::Reject { layer: "tcp", why: "tcp-data-offset-small" };
            }
            if doff * 4 > rest.len() {
                return Verdict::Reject { layer: "tcp", why: "tcp-data-offset-beyond-segment" };
            }
            if doff > 5 {
                return Verdict::Lenient { why: "tcp-options" };
            }
            if !verifies(&[&pseudo(src, dst, 6, rest.len()), rest], u16::from_be_bytes([rest[16], rest[17]])) {
                return Verdict::Lenient { why: "tcp-checksum" };
            }
            Verdict::Tcp(TcpSeg {
                src: (src, u16::from_be_bytes([rest[0], rest[1]])),
                dst: (dst, u16::from_be_bytes([rest[2], rest[3]])),
                seq: u32::from_be_bytes([rest[4], rest[5], rest[6], rest[7]]),
                ack: u32::from_be_bytes([rest[8], rest[9], rest[10], rest[11]]),
                flags: rest[13] & 0x3f,
                wnd: u16::from_be_bytes([rest[14], rest[15]]),
                payload: rest[20..].to_vec(),
            })
        }
        _ => Verdict::Reject { layer: "ipv4", why: "ip-protocol-unknown" },
    }
}

/// RFC 9293 3.10.7.4, first check, with the left edge widened by one (`RCV.NXT-1`, the keep-alive
/// rule the C17 specification already assumes): `Some(true)` = a conforming receiver must treat
/// the segment as unacceptable in this state, `None` = the state has no receive window yet.
pub fn rfc_unacceptable(state: &str, rcv_nxt: u32, rcv_wnd: u16, seg: &TcpSeg) -> Option<bool> {
    match state {
        // 3.10.7.3: neither SYN nor RST -> drop the segment
        "SynSent" => Some(seg.flags & (SYN | RST) == 0),
        "Listen" | "Closed" => None,
        _ => {
            let inside = |u: u32| u < rcv_wnd as u32 || u == u32::MAX;
            let first = seg.seq.wrapping_sub(rcv_nxt);
            let last = first.wrapping_add(seg.seg_len().max(1) - 1);
            Some(!(inside(first) || inside(last)))
        }
    }
}
