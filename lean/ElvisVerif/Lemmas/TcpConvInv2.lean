import ElvisVerif.Lemmas.TcpConvInv
import ElvisVerif.Lemmas.TcpConvWnd
/-!
# The closed system nobody closes: the facts convergence needs on top of `Conv`

`Ext s` (for states satisfying `Conv`):
* `SysWf` (no call panics; buffers and payloads bounded),
* `SndOk` of C17 for both TCBs (the retransmission queue is a contiguous chain ending at `SND.NXT`
  that covers `[SND.UNA, SND.NXT)`, at most 65535 bytes),
* `KeepOk` (`Lemmas/TcpConvLive.lean`: only unacknowledged segments are queued),
* every header ever formed advertises the window 65535, so `SND.WND = 65535` outside SYN-SENT,
* every header on a one-shot queue is a pure ACK numbered `SND.NXT`.

`ext_step`: kept by every plain op.
-/
namespace Elvis.Tcp
open Tcb

/-! ## extra facts about the local calls -/

structure XStep (t t' : Tcb) : Prop where
  pres : SndPres t t'
  keep : KeepOk t → KeepOk t'
  swnd : t'.snd.wnd = t.snd.wnd
  one : t'.outgoing.oneshot = [] ∨ (t'.outgoing.oneshot = t.outgoing.oneshot ∧ t'.snd.nxt = t.snd.nxt)

theorem send_x (t : Tcb) (m : List UInt8) : XStep t (t.send m) := by
  refine ⟨send_pres t m, ?_, ?_, ?_⟩
  all_goals (unfold send; split)
  all_goals first
    | exact fun h => h.of_eq rfl rfl
    | rfl
    | exact Or.inr ⟨rfl, rfl⟩

theorem receive_x (t : Tcb) : XStep t t.receive.1 := by
  refine ⟨receive_pres t, ?_, ?_, ?_⟩
  all_goals (unfold receive; split)
  all_goals first
    | exact fun h => h.of_eq rfl rfl
    | rfl
    | exact Or.inr ⟨rfl, rfl⟩

theorem advanceTime_x (t : Tcb) (dt : Nat) (t' : Tcb) (r : AdvanceTimeResult) (e : t.advanceTime dt = .ok (t', r)) :
    XStep t t' := by
  refine ⟨advanceTime_pres t dt t' r e, ?_, ?_, ?_⟩
  all_goals
    unfold advanceTime at e
    cases h1 : t.advanceRetransmission dt with
    | error err => rw [h1] at e; simp at e
    | ok t1 =>
      rw [h1] at e
      dsimp only at e
      unfold advanceRetransmission at h1
      split at h1
      · cases h1
        split at e
        · split at e
          · cases e
            first
              | exact fun h => keepOk_flags h rfl true rfl
              | rfl
              | exact Or.inr ⟨rfl, rfl⟩
          · cases e
            first
              | exact fun h => keepOk_flags h rfl true rfl
              | rfl
              | exact Or.inr ⟨rfl, rfl⟩
        · cases e
          first
            | exact fun h => keepOk_flags h rfl true rfl
            | rfl
            | exact Or.inr ⟨rfl, rfl⟩
      · cases h1
        split at e
        · split at e
          · cases e
            first
              | exact fun h => h.of_eq rfl rfl
              | rfl
              | exact Or.inr ⟨rfl, rfl⟩
          · cases e
            first
              | exact fun h => h.of_eq rfl rfl
              | rfl
              | exact Or.inr ⟨rfl, rfl⟩
        · cases e
          first
            | exact fun h => h.of_eq rfl rfl
            | rfl
            | exact Or.inr ⟨rfl, rfl⟩

theorem segmentize_wnd (m fuel : Nat) (s : Tcb) (q : Nat) (u : Tcb) (e : segmentize m fuel s q = .ok u) :
    u.snd.wnd = s.snd.wnd := by
  induction fuel generalizing s q with
  | zero => cases e; rfl
  | succ n ih =>
    rw [segmentize_succ] at e
    split at e
    · cases e; rfl
    · split at e
      · cases e
      · have := ih _ _ e
        exact this

theorem segmentize_oneshot (m fuel : Nat) (s : Tcb) (q : Nat) (u : Tcb) (e : segmentize m fuel s q = .ok u) :
    u.outgoing.oneshot = s.outgoing.oneshot := by
  induction fuel generalizing s q with
  | zero => cases e; rfl
  | succ n ih =>
    rw [segmentize_succ] at e
    split at e
    · cases e; rfl
    · split at e
      · cases e
      · have := ih _ _ e
        exact this

theorem segments_x (t t' : Tcb) (out : List Segment) (e : t.segments = .ok (t', out)) (hok : SndOk t)
    (hst : C01.Ok3 t.state) (hu : off t.snd.iss t.snd.una ≤ t.sent) (hr : Room t) : XStep t t' := by
  have key : ∃ v b, segmentizeIfOpen (clearOneshot t) = .ok v ∧ t' = markSent v b := by
    have e' := e
    rw [segments_eq] at e'
    cases hv : segmentizeIfOpen (clearOneshot t) with
    | error err => rw [hv] at e'; cases e'
    | ok v =>
      rw [hv] at e'
      dsimp only at e'
      have hfp : t.finPending = false := by
        unfold finPending
        rcases hst.cases with hs | hs | hs <;> rw [hs] <;> rfl
      rw [hfp] at e'
      unfold finIfPending at e'
      simp only [Bool.false_eq_true, if_false] at e'
      cases e'
      exact ⟨v, _, rfl, rfl⟩
  obtain ⟨v, b, hv, rfl⟩ := key
  have hw : v.snd.wnd = (clearOneshot t).snd.wnd ∧ v.outgoing.oneshot = (clearOneshot t).outgoing.oneshot := by
    unfold segmentizeIfOpen at hv
    split at hv
    all_goals first
      | (split at hv
         · cases hv
         · exact ⟨segmentize_wnd _ _ _ _ _ hv, segmentize_oneshot _ _ _ _ _ hv⟩)
      | (cases hv; exact ⟨rfl, rfl⟩)
  refine ⟨(segments_window t hok _ out e).1, fun h => segments_live t _ out e hst h hu hr, ?_, Or.inl ?_⟩
  · unfold markSent; split <;> exact hw.1
  · unfold markSent; split <;> exact hw.2

/-! ## the extra invariant -/

structure ExtTcb (t : Tcb) : Prop where
  snd : SndOk t
  keep : KeepOk t
  onew : ∀ h ∈ t.outgoing.oneshot, h.wnd = 65535#16
  rtxw : ∀ tr ∈ t.outgoing.retransmit, tr.segment.hdr.wnd = 65535#16
  heapw : ∀ σ ∈ t.incoming.segments, σ.hdr.wnd = 65535#16
  swnd : t.state ≠ .SynSent → t.snd.wnd = 65535#16
  one : ∀ h ∈ t.outgoing.oneshot, h.seq = t.snd.nxt ∧ h.ctl.ack = true ∧ h.ctl.syn = false ∧ h.ctl.fin = false
  rtxa : ∀ tr ∈ t.outgoing.retransmit, tr.segment.hdr.ctl.ack = true ∨ tr.segment.hdr.ctl.syn = true

structure Ext (s : Sys) : Prop where
  wf : SysWf s
  hist : ∀ σ ∈ s.history, σ.hdr.wnd = 65535#16
  tcb : ∀ x t, (s.side x).tcb = some t → ExtTcb t

/-- a local call -/
theorem ExtTcb.local {t t' : Tcb} (h : ExtTcb t) (l : LStep t t') (x : XStep t t') (hw : t'.rcv.wnd = 65535#16) :
    ExtTcb t' := by
  refine ⟨h.snd.step x.pres, x.keep h.keep, fun y hy => ?_, fun tr hy => ?_, by rw [l.heap]; exact h.heapw,
    fun hs => by rw [x.swnd]; exact h.swnd (fun e => hs (l.synsent.2 e)), fun y hy => ?_, fun tr hy => ?_⟩
  · rcases l.q.one y hy with e | e
    · exact h.onew y e
    · rw [e.2.1, hw]
  · rcases l.q.rtx tr hy with ⟨t0, e, es⟩ | e
    · rw [← es]; exact h.rtxw t0 e
    · rw [e.2.1, hw]
  · rcases x.one with e | ⟨e1, e2⟩
    · rw [e] at hy; cases hy
    · rw [e1] at hy; rw [e2]; exact h.one y hy
  · rcases l.q.rtx tr hy with ⟨t0, e, es⟩ | e
    · rw [← es]; exact h.rtxa t0 e
    · exact e.2.2.2

/-- a segment (advertising 65535) has been processed -/
theorem ExtTcb.arrive {u u' : Tcb} {σ : Segment} (h : ExtTcb u) (e : u.segmentArrives σ = .ok (u', .Ok))
    (hwf : Wf u) (hp : σ.text.length ≤ MAX_PAYLOAD) (hE : Early u) (hσ : σ.hdr.wnd = 65535#16)
    (hw : u'.rcv.wnd = 65535#16) (hn : ∀ y ∈ u'.outgoing.oneshot, y.ctl.rst = false) : ExtTcb u' := by
  have ss := segmentArrives_s u σ u' .Ok e
  have hsub := segmentArrives_heap_sub u σ u' .Ok e
  have hW : ∀ w, (∃ τ ∈ σ :: u.incoming.segments, w = τ.hdr.wnd) → w = 65535#16 := by
    intro w ⟨τ, hτ, hwτ⟩
    rw [hwτ]
    rcases List.mem_cons.1 hτ with rfl | hτ
    · exact hσ
    · exact h.heapw τ hτ
  refine ⟨h.snd.step (segmentArrives_pres u σ hwf hp u' .Ok e), (segmentArrives_live u σ u' .Ok e hE h.keep).1,
    fun y hy => ?_, fun tr hy => ?_, fun τ hτ => ?_, fun hs => ?_, fun y hy => ?_, fun tr hy => ?_⟩
  rotate_right
  · rcases ss.rtx tr hy with ⟨t0, e1, es⟩ | e1
    · rw [← es]; exact h.rtxa t0 e1
    · exact e1.2
  · rcases ss.one y hy with e1 | e1
    · exact h.onew y e1
    · rw [e1.1, hw]
  · rcases ss.rtx tr hy with ⟨t0, e1, es⟩ | e1
    · rw [← es]; exact h.rtxw t0 e1
    · rw [e1.1, hw]
  · rcases List.mem_cons.1 (hsub τ hτ) with rfl | e1
    · exact hσ
    · exact h.heapw τ e1
  · by_cases hu : u.state = .SynSent
    · exact hW _ (ss.wnd1 hu hs)
    · rcases ss.wnd with e1 | e1
      · rw [e1]; exact h.swnd hu
      · exact hW _ e1
  · rcases ss.one y hy with e1 | e1
    · rw [ss.nxt]; exact h.one y e1
    · rcases e1.2 with e2 | e2
      · rw [hn y hy] at e2; cases e2
      · exact e2

/-- the TCB LISTEN creates from a SYN advertising 65535 -/
theorem extTcb_listen (σ : Segment) (iss : Seq) (mtu : U16) (tcb : Tcb)
    (e : segmentArrivesListen σ iss mtu = .ok (some (.Tcb tcb))) (hσ : σ.hdr.wnd = 65535#16) : ExtTcb tcb := by
  have hsnd := listen_sndOk σ iss mtu tcb e
  unfold segmentArrivesListen at e
  dsimp only at e
  split at e
  · simp at e
  · split at e
    · cases hb : (Hdr.builder σ.hdr.dstPort σ.hdr.srcPort σ.hdr.ack).withRst.build 0 <;>
        simp [hb] at e
    · split at e
      · rw [enqueue_eq] at e
        dsimp only at e
        generalize hq : Tcb.enqueueBuilt _ _ = q at e
        have f2 : q.outgoing.oneshot = [] ∧ q.snd.una = iss ∧ q.snd.wnd = σ.hdr.wnd ∧
            ∀ tr ∈ q.outgoing.retransmit, tr.segment.hdr.wnd = 65535#16 ∧ 0 < tr.segment.segLen ∧
              tr.segment.hdr.seq + BitVec.ofNat 32 tr.segment.segLen = iss + 1 ∧ tr.segment.hdr.ctl.ack = true := by
          rw [← hq]
          refine ⟨?_, by simp only [(enqueueBuilt_frame _ _).2.2.1], by simp only [(enqueueBuilt_frame _ _).2.2.1], ?_⟩
          · unfold enqueueBuilt
            rw [if_pos (by rfl)]
          · unfold enqueueBuilt
            rw [if_pos (by rfl)]
            intro tr htr
            simp only [List.nil_append, List.mem_singleton] at htr
            subst htr
            exact ⟨rfl, by simp [Transmit.new, Segment.segLen, Hdr.built, Hdr.withSyn, Hdr.withAck, Hdr.withWnd,
              headerBuilder, Hdr.builder], rfl, rfl⟩
        have f3 : q.incoming.segments = [] := by
          rw [← hq, (enqueueBuilt_frame _ _).2.2.2.1]
        simp only [Except.ok.injEq, Option.some.injEq, ListenResult.Tcb.injEq] at e
        subst e
        refine ⟨hsnd, fun tr htr => ?_, fun y hy => (by rw [f2.1] at hy; cases hy), fun tr htr => (f2.2.2.2 tr htr).1,
          fun τ hτ => ?_, fun _ => (by show q.snd.wnd = _; rw [f2.2.2.1]; exact hσ),
          fun y hy => (by rw [f2.1] at hy; cases hy), fun tr htr => Or.inl (f2.2.2.2 tr htr).2.2.2⟩
        · obtain ⟨_, a, b, _⟩ := f2.2.2.2 tr htr
          refine ⟨a, ?_⟩
          unfold keepFor
          show ModCmp.modLt q.snd.una _ = true
          rw [b, f2.2.1]
          exact modGt_succ iss
        · have h' : τ ∈ LHeap.push segLe q.incoming.segments
              ⟨{ σ.hdr with ctl := { σ.hdr.ctl with syn := false, ack := false } }, σ.text⟩ := hτ
          rw [f3] at h'
          have hp : LHeap.push segLe []
              (⟨{ σ.hdr with ctl := { σ.hdr.ctl with syn := false, ack := false } }, σ.text⟩ : Segment) =
              [⟨{ σ.hdr with ctl := { σ.hdr.ctl with syn := false, ack := false } }, σ.text⟩] := rfl
          rw [hp] at h'
          simp only [List.mem_singleton] at h'
          subst h'
          exact hσ
      · simp at e

/-- the TCB `open` creates -/
theorem extTcb_open (lp rp : U16) (iss : Seq) (mtu : U16) (t : Tcb) (e : Tcb.open lp rp iss mtu = .ok t) :
    ExtTcb t := by
  have hsnd := open_sndOk lp rp iss mtu t e
  obtain ⟨_, _, _, _, _, hst, _⟩ := open_snd lp rp iss mtu t e
  unfold Tcb.open at e
  dsimp only at e
  rw [enqueue_eq] at e
  cases e
  refine ⟨hsnd, fun tr htr => ?_, fun y hy => ?_, fun tr htr => ?_, fun τ hτ => ?_, fun hs => absurd hst hs,
    fun y hy => ?_, fun tr htr => ?_⟩
  rotate_right
  · unfold enqueueBuilt at htr
    rw [if_pos (by rfl)] at htr
    simp only [List.nil_append, List.mem_singleton] at htr
    subst htr
    exact Or.inr rfl
  · unfold enqueueBuilt at htr
    rw [if_pos (by rfl)] at htr
    simp only [List.nil_append, List.mem_singleton] at htr
    subst htr
    refine ⟨by simp [Transmit.new, Segment.segLen, Hdr.built, Hdr.withSyn, Hdr.withWnd, headerBuilder, Hdr.builder], ?_⟩
    unfold keepFor
    rw [(enqueueBuilt_frame _ _).2.2.1]
    exact modGt_succ iss
  · unfold enqueueBuilt at hy
    rw [if_pos (by rfl)] at hy
    cases hy
  · unfold enqueueBuilt at htr
    rw [if_pos (by rfl)] at htr
    simp only [List.nil_append, List.mem_singleton] at htr
    subst htr
    rfl
  · rw [(enqueueBuilt_frame _ _).2.2.2.1] at hτ
    cases hτ
  · unfold enqueueBuilt at hy
    rw [if_pos (by rfl)] at hy
    cases hy

/-! ## what `Conv` says about one TCB -/

theorem early_of_conv {iss : SideId → Seq} {s : Sys} (h : Conv iss s) (x : SideId) (t : Tcb)
    (ht : (s.side x).tcb = some t) : Early t := by
  have hf := (h.full.fresh x t ht).fresh
  refine ⟨fun hs => ⟨(hf hs).2.1, Or.inl (hf hs).1⟩, fun hs => ?_⟩
  have hA := h.full.ack x
  unfold AckLink at hA
  rw [ht] at hA
  cases hu : (s.side x.peer).tcb with
  | some u => rw [hu] at hA; exact hA.rcvd t u rfl rfl hs
  | none =>
    -- the peer only listens: `t` is still in SYN-SENT
    exfalso
    rcases h.nr.alive x.peer with ha | ha
    · rw [hu] at ha; cases ha
    · have := ((h.full.inv.link x.peer).fresh hu ha).2 t (by rw [SideId.peer_peer]; exact ht)
      rw [this.1] at hs; cases hs

theorem una_le_sent_of_conv {iss : SideId → Seq} {s : Sys} (h : Conv iss s) (x : SideId) (t : Tcb)
    (ht : (s.side x).tcb = some t) : off t.snd.iss t.snd.una ≤ t.sent := by
  have hA := h.full.ack x
  unfold AckLink at hA
  rw [ht] at hA
  cases hu : (s.side x.peer).tcb with
  | some u =>
    rw [hu] at hA
    exact Nat.le_trans (hA.una t u rfl rfl) (top_le ((h.full.inv.link x).rcv t u ht hu).1)
  | none =>
    rcases h.nr.alive x.peer with ha | ha
    · rw [hu] at ha; cases ha
    · rw [hu, ha] at hA
      rw [(hA.fresh t rfl rfl rfl).2.una, off_self]
      exact Nat.zero_le _

theorem wf_of_sysWf {s : Sys} (h : SysWf s) (x : SideId) (t : Tcb) (ht : (s.side x).tcb = some t) : Wf t :=
  ((h.side x).1 t ht).1

/-! ## one plain step keeps `Ext` -/

theorem Ext.setSide {s : Sys} (h : Ext s) (hw : SysWf (s.setSide x sd)) (ht : ∀ t, sd.tcb = some t → ExtTcb t) :
    Ext (s.setSide x sd) := by
  refine ⟨hw, by rw [history_setSide]; exact h.hist, fun y u hu => ?_⟩
  rw [side_setSide_if] at hu
  split at hu
  · exact ht u hu
  · exact h.tcb y u hu

theorem ext_step {iss : SideId → Seq} (s : Sys) (hc : Conv iss s) (hx : Ext s) (hb : RoomH s) (op : Op)
    (hp : Op.Plain s op) (s' : Sys) (r : Res) (e : s.step op = .ok (s', r)) : Ext s' := by
  have hc' := conv_step s hc hb op hp s' r e
  have hroom := room_of_inv hc.c01 hb
  have hwf' : SysWf s' := by
    obtain ⟨s1, r1, e1, w1⟩ := c01_step_total s hx.wf op (by cases op <;> first | trivial | exact hp.elim)
    rw [e] at e1
    cases e1
    exact w1
  have hrw : ∀ y t, (s'.side y).tcb = some t → t.rcv.wnd = 65535#16 :=
    fun y t ht => (wf_of_sysWf hwf' y t ht).rcv_wnd
  cases op with
  | «open» x i mtu => exact hp.elim
  | listen x i mtu => exact hp.elim
  | inject x seg => exact hp.elim
  | abort x => exact hp.elim
  | drop x => exact hp.elim
  | close x => exact hp.elim
  | write x bytes =>
    simp only [Sys.step, Op.side] at e
    split at e
    · simp only [Except.ok.injEq, Prod.mk.injEq] at e
      rw [← e.1]; exact hx
    · rename_i tcb htcb
      simp only [Except.ok.injEq, Prod.mk.injEq] at e
      have e1 := e.1
      subst e1
      refine hx.setSide hwf' (fun t ht => ?_)
      cases ht
      exact (hx.tcb x tcb htcb).local (send_l tcb bytes) (send_x tcb bytes) (hrw x _ (by rw [side_setSide_same]))
  | read x =>
    simp only [Sys.step, Op.side] at e
    split at e
    · simp only [Except.ok.injEq, Prod.mk.injEq] at e
      rw [← e.1]; exact hx
    · rename_i tcb htcb
      simp only [Except.ok.injEq, Prod.mk.injEq] at e
      have e1 := e.1
      subst e1
      refine hx.setSide hwf' (fun t ht => ?_)
      cases ht
      exact (hx.tcb x tcb htcb).local (receive_l tcb) (receive_x tcb) (hrw x _ (by rw [side_setSide_same]))
  | tick x ms =>
    simp only [Sys.step, Op.side] at e
    split at e
    · simp only [Except.ok.injEq, Prod.mk.injEq] at e
      rw [← e.1]; exact hx
    · rename_i tcb htcb
      split at e
      · simp at e
      · rename_i tcb' h1
        simp only [Except.ok.injEq, Prod.mk.injEq] at e
        have e1 := e.1
        subst e1
        refine hx.setSide hwf' (fun t ht => ?_)
        cases ht
        exact (hx.tcb x tcb htcb).local (advanceTime_l tcb ms tcb' h1) (advanceTime_x tcb ms tcb' _ h1)
          (hrw x _ (by rw [side_setSide_same]))
      · rename_i tcb' h1
        simp only [Except.ok.injEq, Prod.mk.injEq] at e
        have e1 := e.1
        subst e1
        exact hx.setSide hwf' (fun t ht => by cases ht)
  | emit x =>
    simp only [Sys.step, Op.side] at e
    split at e
    · simp only [Except.ok.injEq, Prod.mk.injEq] at e
      rw [← e.1]; exact hx
    · rename_i tcb htcb
      split at e
      · simp at e
      · rename_i tcb' segs h1
        simp only [Except.ok.injEq, Prod.mk.injEq] at e
        have e1 := e.1
        subst e1
        have xt := hx.tcb x tcb htcb
        obtain ⟨l, hnew⟩ := segments_l tcb tcb' segs h1 (hc.full.fresh x tcb htcb).fresh
        have hrw' : tcb'.rcv.wnd = 65535#16 := hrw x tcb' (by rw [Elvis.Tcp.side_record, side_setSide_same])
        have xt' : ExtTcb tcb' := xt.local l (segments_x tcb tcb' segs h1 xt.snd ((hc.c01.side x).tcb tcb htcb).st
          (una_le_sent_of_conv hc x tcb htcb) (hroom x tcb htcb)) hrw'
        refine ⟨hwf', fun σ hσ => ?_, fun y u hu => ?_⟩
        · rw [mem_history_record, history_setSide] at hσ
          rcases hσ with hn | ho
          · rcases hnew σ hn with e2 | ⟨tr, e2, es⟩
            · exact xt.onew _ e2
            · rw [← es]; exact xt'.rtxw tr e2
          · exact hx.hist σ ho
        · rw [Elvis.Tcp.side_record, side_setSide_if] at hu
          split at hu
          · cases hu; exact xt'
          · exact hx.tcb y u hu
  | deliver x i =>
    simp only [Sys.step, Op.side] at e
    split at e
    · simp only [Except.ok.injEq, Prod.mk.injEq] at e
      rw [← e.1]; exact hx
    · rename_i σ hn
      have hmem : σ ∈ s.history := nth_mem s i σ hn
      have hσw := hx.hist σ hmem
      unfold Sys.arrive at e
      dsimp only at e
      split at e
      · rename_i tcb htcb
        split at e
        · simp at e
        · rename_i tcb' h1
          simp only [Except.ok.injEq, Prod.mk.injEq] at e
          have e1 := e.1
          subst e1
          refine hx.setSide hwf' (fun t ht => ?_)
          cases ht
          have hs' : ((s.setSide x { s.side x with tcb := some tcb' }).side x).tcb = some tcb' := by
            rw [side_setSide_same]
          exact (hx.tcb x tcb htcb).arrive h1 (wf_of_sysWf hx.wf x tcb htcb) (hx.wf.hist σ hmem)
            (early_of_conv hc x tcb htcb) hσw (hrw x tcb' hs') (hc'.nr.tcb x tcb' hs').one
        · simp only [Except.ok.injEq, Prod.mk.injEq] at e
          have e1 := e.1
          subst e1
          exact hx.setSide hwf' (fun t ht => by cases ht)
      · rename_i htcb
        split at e
        · rename_i issl mtu hlis
          split at e
          · simp at e
          · simp only [Except.ok.injEq, Prod.mk.injEq] at e
            rw [← e.1]; exact hx
          · rename_i tcb h1
            simp only [Except.ok.injEq, Prod.mk.injEq] at e
            have e1 := e.1
            subst e1
            refine hx.setSide hwf' (fun t ht => ?_)
            cases ht
            exact extTcb_listen σ issl mtu tcb h1 hσw
          · rename_i hd h1
            simp only [Except.ok.injEq, Prod.mk.injEq] at e
            have e1 := e.1
            subst e1
            -- a LISTEN reply would be a RST in the new history
            exfalso
            have := hc'.nr.hist ⟨hd, []⟩ (by rw [mem_history_record]; left; exact List.mem_singleton.2 rfl)
            unfold segmentArrivesListen at h1
            dsimp only at h1
            split at h1
            · simp at h1
            · split at h1
              · simp only [Except.ok.injEq] at h1
                cases hbd : (Hdr.builder σ.hdr.dstPort σ.hdr.srcPort σ.hdr.ack).withRst.build 0 with
                | none => rw [hbd] at h1; simp at h1
                | some h' =>
                  rw [hbd] at h1
                  simp only [Option.map_some, Option.some.injEq, ListenResult.Response.injEq] at h1
                  subst h1
                  have hb' := hdr_build_some hbd
                  subst hb'
                  cases this
              · split at h1
                · rw [Tcb.enqueue_eq] at h1
                  simp at h1
                · simp at h1
        · rename_i hlis
          exfalso
          rcases hc.nr.alive x with ha | ha
          · rw [htcb] at ha; cases ha
          · rw [hlis] at ha; cases ha

theorem ext_run {iss : SideId → Seq} {s s' : Sys} (hc : Conv iss s) (hx : Ext s) (r : PlainRun s s') (hb : RoomH s') :
    Conv iss s' ∧ Ext s' := by
  induction r with
  | refl => exact ⟨hc, hx⟩
  | step _ hp e ih =>
    have hb1 := RoomH.of_run (.step (.refl _) hp e) hb
    obtain ⟨c1, x1⟩ := ih hb1
    exact ⟨conv_step _ c1 hb1 _ hp _ _ e, ext_step _ c1 x1 hb1 _ hp _ _ e⟩

/-- `open A`, then `listen B` or `open B`, with MTUs that leave room for the headers -/
theorem ext_init (ia ib : Seq) (ma mb : U16) (simultaneous : Bool) (sys : Sys) (rs : List Res)
    (hma : SPACE_FOR_HEADERS ≤ ma.toNat) (hmb : SPACE_FOR_HEADERS ≤ mb.toNat)
    (e : Sys.run {} [.open .A ia ma, if simultaneous then .open .B ib mb else .listen .B ib mb] = .ok (sys, rs)) :
    Ext sys := by
  have init : SysWf {} := ⟨⟨fun _ e => by simp at e, fun _ _ e => by simp at e⟩,
    ⟨fun _ e => by simp at e, fun _ _ e => by simp at e⟩, fun _ e => by simp at e⟩
  simp only [Sys.run] at e
  cases h1 : Sys.step {} (.open .A ia ma) with
  | error err => rw [h1] at e; simp at e
  | ok p1 =>
    obtain ⟨s1, r1⟩ := p1
    rw [h1] at e
    dsimp only at e
    obtain ⟨s1', r1', e1', w1⟩ := c01_step_total {} init (.open .A ia ma) hma
    rw [h1] at e1'
    cases e1'
    cases h2 : s1.step (if simultaneous then .open .B ib mb else .listen .B ib mb) with
    | error err => rw [h2] at e; simp at e
    | ok p2 =>
      obtain ⟨s2, r2⟩ := p2
      rw [h2] at e
      simp only [Except.ok.injEq, Prod.mk.injEq] at e
      obtain ⟨s2', r2', e2', w2⟩ := c01_step_total s1 w1 (if simultaneous then .open .B ib mb else .listen .B ib mb)
        (by cases simultaneous <;> exact hmb)
      rw [h2] at e2'
      cases e2'
      rw [← e.1]
      -- the history is empty, the TCBs are those `open` makes
      simp only [Sys.step, Op.side] at h1
      cases ho : Tcb.open SideId.A.port SideId.A.peer.port ia ma with
      | error err => rw [ho] at h1; cases h1
      | ok ta =>
        rw [ho] at h1
        cases h1
        have xa := extTcb_open _ _ _ _ ta ho
        cases simultaneous with
        | false =>
          simp only [Bool.false_eq_true, if_false, Sys.step, Op.side] at h2
          cases h2
          refine ⟨w2, fun σ hσ => (by cases hσ), fun y u hu => ?_⟩
          cases y with
          | A => cases hu; exact xa
          | B => cases hu
        | true =>
          simp only [if_true, Sys.step, Op.side] at h2
          cases hb : Tcb.open SideId.B.port SideId.B.peer.port ib mb with
          | error err => rw [hb] at h2; cases h2
          | ok tb =>
            rw [hb] at h2
            cases h2
            refine ⟨w2, fun σ hσ => (by cases hσ), fun y u hu => ?_⟩
            cases y with
            | A => cases hu; exact xa
            | B => cases hu; exact extTcb_open _ _ _ _ tb hb

end Elvis.Tcp
