//! C03: TCP connections open, synchronise and close as RFC 9293 prescribes.
//!
//! Uses the two-endpoint engine of `c01.rs` (same op lines; the model driver `c03*` answers the
//! same lines plus the transition log ` | tr from>to ok`).
//!
//! Sub-commands:
//!  * `c03` (run `sched`): random two-endpoint schedules with `close` by either/both sides in
//!    any state, with data queued or in flight, loss / duplication / reordering, occasionally an
//!    old duplicate SYN of an earlier incarnation or an `abort`; then the fair close phase.
//!  * `c03-enum`: small-scope exhaustive enumeration (stateless DFS) of all orders of
//!    SYN / SYN-ACK / ACK / FIN delivery and of the two `close` calls, with a bounded number of
//!    drops and duplicates, in four variants (active/passive or simultaneous open, with or
//!    without data queued before the handshake); every schedule ends in the fair close phase.
//!    Every k-th schedule is printed for the model comparison, all are checked by the oracles.
//!  * `c03-edges`: the Rust copy of the RFC 9293 edge table below, dumped entry by entry and
//!    compared with the Lean table (`Spec/Rfc9293.lean`) by the driver.
//!
//! Native oracles (independent of the model, evaluated on the real code):
//!  * every observed state change of every call is a path of RFC 9293 edges for the events the
//!    call stands for (`rfc_cause`), staying in place is always allowed;
//!  * IRS never changes outside SYN-SENT (old duplicate SYNs are harmless);
//!  * both sides synchronised: SND.UNA_B <= RCV.NXT_A <= SND.NXT_B (both directions), and
//!    RCV.NXT_A = SND.NXT_B once the fair phase is quiet;
//!  * data-before-EOF: when an endpoint first shows "FIN received" (CLOSE-WAIT, LAST-ACK,
//!    CLOSING, TIME-WAIT) it holds (delivered + buffered) exactly the bytes the peer submitted;
//!  * release: once both sides closed and delivery is fair, both TCBs are deleted by the final
//!    ACK or within 2*MSL + RTO of virtual time after the exchange quiesces, TIME-WAIT is
//!    silent meanwhile, nobody is reset by a live TCB.
use super::c01::*;
use elvis_core::protocols::tcp::verif::*;
use hcommon::*;

// ---------------------------------------------------------------------------------------------
// RFC 9293 edge table — hand copy of lean/ElvisVerif/Spec/Rfc9293.lean, checked against the Lean
// table entry by entry on every run (`c03-edges`) and on every transition that occurs
// ---------------------------------------------------------------------------------------------
pub type St = Option<State>;

pub const ALL_STATES: [St; 10] = [
    None,
    Some(State::SynSent),
    Some(State::SynReceived),
    Some(State::Established),
    Some(State::FinWait1),
    Some(State::FinWait2),
    Some(State::CloseWait),
    Some(State::Closing),
    Some(State::LastAck),
    Some(State::TimeWait),
];

#[derive(Clone, Copy, PartialEq, Eq, Debug)]
pub enum Ev {
    Open,
    Close,
    Abort,
    Timeout,
    Seg { ack: bool, rst: bool, syn: bool, fin: bool },
}

pub fn st_name(s: St) -> &'static str {
    match s {
        None => "-",
        Some(s) => state_str(s),
    }
}

pub fn rfc_edges(a: St, b: St) -> bool {
    use State::*;
    match (a, b) {
        (None, Some(SynSent)) | (None, Some(SynReceived)) => true,
        (Some(SynSent), Some(SynReceived)) | (Some(SynSent), Some(Established)) => true,
        (Some(SynReceived), Some(Established)) | (Some(SynReceived), Some(FinWait1)) | (Some(SynReceived), Some(CloseWait)) => true,
        (Some(Established), Some(FinWait1)) | (Some(Established), Some(CloseWait)) => true,
        (Some(FinWait1), Some(FinWait2)) | (Some(FinWait1), Some(Closing)) | (Some(FinWait1), Some(TimeWait)) => true,
        (Some(FinWait2), Some(TimeWait)) => true,
        (Some(CloseWait), Some(LastAck)) => true,
        (Some(Closing), Some(TimeWait)) => true,
        (Some(_), None) => true,
        _ => false,
    }
}

pub fn rfc_cause(ev: Ev, a: St, b: St) -> bool {
    use State::*;
    match (ev, a, b) {
        (Ev::Open, None, Some(SynSent)) => true,
        (Ev::Close, Some(SynSent), None) => true,
        (Ev::Close, Some(SynReceived), Some(FinWait1)) => true,
        (Ev::Close, Some(Established), Some(FinWait1)) => true,
        (Ev::Close, Some(CloseWait), Some(LastAck)) => true,
        (Ev::Abort, Some(_), None) => true,
        (Ev::Timeout, Some(TimeWait), None) => true,
        (Ev::Seg { ack, rst, syn, .. }, None, Some(SynReceived)) => syn && !rst && !ack,
        (Ev::Seg { ack, rst, .. }, Some(SynSent), None) => rst && ack,
        (Ev::Seg { rst, syn, .. }, Some(SynSent), Some(Established)) => syn && !rst,
        (Ev::Seg { rst, syn, .. }, Some(SynSent), Some(SynReceived)) => syn && !rst,
        (Ev::Seg { ack, rst, .. }, Some(LastAck), None) => rst || ack,
        (Ev::Seg { rst, .. }, Some(_), None) => rst,
        (Ev::Seg { ack, .. }, Some(SynReceived), Some(Established)) => ack,
        (Ev::Seg { ack, .. }, Some(FinWait1), Some(FinWait2)) => ack,
        (Ev::Seg { ack, .. }, Some(Closing), Some(TimeWait)) => ack,
        (Ev::Seg { fin, .. }, Some(SynReceived), Some(CloseWait)) => fin,
        (Ev::Seg { fin, .. }, Some(Established), Some(CloseWait)) => fin,
        (Ev::Seg { fin, .. }, Some(FinWait1), Some(Closing)) => fin,
        (Ev::Seg { fin, .. }, Some(FinWait1), Some(TimeWait)) => fin,
        (Ev::Seg { fin, .. }, Some(FinWait2), Some(TimeWait)) => fin,
        _ => false,
    }
}

/// `b` reachable from `a` by edges each caused by one of `evs` (staying in place included)
pub fn rfc_reach(evs: &[Ev], a: St, b: St) -> bool {
    let mut cur = vec![a];
    for _ in 0..10 {
        let mut next = vec![];
        for t in ALL_STATES {
            if cur.contains(&t) || cur.iter().any(|s| evs.iter().any(|e| rfc_cause(*e, *s, t))) {
                next.push(t);
            }
        }
        cur = next;
    }
    cur.contains(&b)
}

fn ev_of(h: &TcpHeader) -> Ev {
    Ev::Seg { ack: h.ctl.ack(), rst: h.ctl.rst(), syn: h.ctl.syn(), fin: h.ctl.fin() }
}

/// the transition log entry of one op (must equal `Driver/C03.lean` character for character)
pub fn transition(w: &[&str], before: Option<&VerifTcbSnapshot>, after: Option<&VerifTcbSnapshot>, arriving: Option<&TcpHeader>) -> (String, bool) {
    if w[0] == "drop" {
        return (" | tr - - 1".into(), true);
    }
    let from = before.map(|s| s.state);
    let to = after.map(|s| s.state);
    let evs: Vec<Ev> = match w[0] {
        "open" => vec![Ev::Open],
        "close" => vec![Ev::Close],
        "abort" => vec![Ev::Abort],
        "tick" => vec![Ev::Timeout],
        "deliver" | "inject" | "injecthex" => {
            let mut v = vec![];
            if let Some(h) = arriving {
                v.push(ev_of(h));
                if let Some(b) = before {
                    for (h, _) in &b.incoming_segments {
                        v.push(ev_of(h));
                    }
                }
            }
            v
        }
        _ => vec![],
    };
    let ok = rfc_reach(&evs, from, to);
    (format!(" | tr {}>{} {}", st_name(from), st_name(to), ok as u8), ok)
}

// ---------------------------------------------------------------------------------------------
// per-op oracles
// ---------------------------------------------------------------------------------------------
#[derive(Default)]
pub struct C03State {
    /// `close` answered `ok` on this side
    pub closed: [bool; 2],
    /// per history index: produced by the LISTEN / CLOSED handlers (no TCB), not by a TCB
    pub no_tcb_origin: Vec<bool>,
    /// the side was released by a segment carrying RST
    pub reset_release: [bool; 2],
    /// a live TCB emitted a RST
    pub live_rst: bool,
    /// the side has shown "FIN received"
    pub fin_seen: [bool; 2],
    /// bytes received and still unread by the application when the TCB was deleted
    pub unread_at_release: [usize; 2],
}

/// bytes of the peer's stream this side holds: read by the application, buffered, or buffered
/// when its TCB was deleted
fn holds(ex: &Exec, x: SideId) -> usize {
    ex.side(x).delivered.len() + ex.snap_ref(x).map_or(ex.c03.as_ref().unwrap().unread_at_release[x as usize], |s| s.incoming_text.len())
}

fn fin_received(s: State) -> bool {
    matches!(s, State::CloseWait | State::LastAck | State::Closing | State::TimeWait)
}
fn synchronised(s: State) -> bool {
    !matches!(s, State::SynSent | State::SynReceived)
}
fn le31(a: u32, b: u32) -> bool {
    b.wrapping_sub(a) < (1u32 << 31)
}

pub fn after_op(ex: &mut Exec, x: SideId, w: &[&str], before: Option<VerifTcbSnapshot>, arriving: Option<TcpHeader>, tr_ok: bool, out: &mut Out) {
    let after = ex.snap(x);
    let emitted = ex.last_emitted.clone();
    let hist_len = ex.history.len();
    let from = before.as_ref().map(|s| s.state);
    let to = after.as_ref().map(|s| s.state);
    let clean = !ex.tainted && !ex.a.aborted && !ex.b.aborted;
    {
        let st = ex.c03.as_mut().unwrap();
        st.no_tcb_origin.resize(hist_len, false);
        for i in &emitted {
            st.no_tcb_origin[*i] = w[0] != "emit";
        }
        if w[0] == "close" && ex.last == "ok" {
            st.closed[x as usize] = true;
        }
    }
    if w[0] == "emit" {
        for i in &emitted {
            if ex.history[*i].0.ctl.rst() {
                ex.c03.as_mut().unwrap().live_rst = true;
                if clean {
                    fail(out, &format!("{} (state {}) emitted a RST in a closed system without forged segments: {}", x.name(), st_name(from), hdr_str(&ex.history[*i].0)), &format!("reset-by-live-tcb in {}", st_name(from)));
                }
            }
        }
    }
    // ---- every transition is a path of RFC 9293 edges for the events of this op ----
    if !tr_ok {
        let flags = arriving.map(|h| format!(" ctl={}", u8::from(h.ctl))).unwrap_or_default();
        fail(
            out,
            &format!("`{}`{} moved {} from {} to {}: not a path of RFC 9293 edges for that event", w.join(" "), flags, x.name(), st_name(from), st_name(to)),
            &format!("transition {}>{} on {}", st_name(from), st_name(to), w[0]),
        );
    }
    if from != to {
        out.count(&format!("tr.{}>{}", st_name(from), st_name(to)));
    }
    if let (Some(b), None) = (&before, &after) {
        ex.c03.as_mut().unwrap().unread_at_release[x as usize] = b.incoming_text.len();
    }
    // ---- released by a RST ----
    if before.is_some() && after.is_none() && arriving.map_or(false, |h| h.ctl.rst()) {
        ex.c03.as_mut().unwrap().reset_release[x as usize] = true;
        let origin = match (w[0], w.get(2).and_then(|i| i.parse::<usize>().ok())) {
            ("deliver", Some(i)) => if ex.c03.as_ref().unwrap().no_tcb_origin.get(i).copied().unwrap_or(false) { "closed_or_listen" } else { "live_tcb" },
            _ => "forged",
        };
        out.count(&format!("released_by_rst.from_{}.in_{}", origin, st_name(from)));
    }
    // ---- IRS never changes outside SYN-SENT ----
    if let (Some(b), Some(a)) = (&before, &after) {
        if b.state != State::SynSent && w[0] != "open" && a.rcv.0 != b.rcv.0 {
            fail(out, &format!("`{}` changed IRS from {} to {} in state {}", w.join(" "), b.rcv.0, a.rcv.0, state_str(b.state)), &format!("irs-changed in {}", state_str(b.state)));
        }
    }
    // ---- data before EOF ----
    if let Some(a) = &after {
        if fin_received(a.state) && !ex.c03.as_ref().unwrap().fin_seen[x as usize] {
            ex.c03.as_mut().unwrap().fin_seen[x as usize] = true;
            if clean {
                let mut got = ex.side(x).delivered.clone();
                got.extend_from_slice(&a.incoming_text);
                let sent = &ex.side(x.peer()).submitted;
                if &got != sent {
                    fail(
                        out,
                        &format!(
                            "{} shows FIN received (state {}) but holds {} of the {} bytes {} submitted before closing",
                            x.name(), state_str(a.state), got.len(), sent.len(), x.peer().name()
                        ),
                        "eof-before-data",
                    );
                }
            }
        }
    }
    // ---- both synchronised: SND.UNA_q <= RCV.NXT_p <= SND.NXT_q ----
    if clean {
        if let (Some(sa), Some(sb)) = (ex.snap_ref(SideId::A), ex.snap_ref(SideId::B)) {
            if synchronised(sa.state) && synchronised(sb.state) {
                let mut bad: Option<(String, &'static str)> = None;
                for (p, q, pn, qn) in [(sa, sb, "A", "B"), (sb, sa, "B", "A")] {
                    if !le31(q.snd.0, p.rcv.1) {
                        bad = Some((format!("SND.UNA_{}={} is ahead of RCV.NXT_{}={}", qn, q.snd.0, pn, p.rcv.1), "synchronised snd.una>rcv.nxt"));
                    }
                    if !le31(p.rcv.1, q.snd.1) {
                        bad = Some((format!("RCV.NXT_{}={} is ahead of SND.NXT_{}={}", pn, p.rcv.1, qn, q.snd.1), "synchronised rcv.nxt>snd.nxt"));
                    }
                }
                if let Some((what, ident)) = bad {
                    fail(out, &format!("after `{}` ({} / {}): {}", w.join(" "), state_str(sa.state), state_str(sb.state), what), ident);
                }
            }
        }
    }
}

// ---------------------------------------------------------------------------------------------
// the fair close phase and the release oracle
// ---------------------------------------------------------------------------------------------
/// (2*MSL, RTO) in ms, as extracted from the source by tools/extract.py on this run
fn timer_consts() -> (u64, u64) {
    let text = std::fs::read_to_string("lean/ElvisVerif/Generated/TcbConsts.lean").unwrap_or_default();
    let get = |name: &str| -> Option<u64> {
        let key = format!("def {} : Nat := ", name);
        let i = text.find(&key)?;
        text[i + key.len()..].lines().next()?.trim().parse().ok()
    };
    let msl = get("mslMs").unwrap_or(1000);
    let rto = get("rtoMs").unwrap_or(100);
    (2 * msl, rto)
}

pub struct Net {
    pub pending: Vec<(SideId, usize)>,
}

fn emit_both(ex: &mut Exec, net: &mut Net, out: &mut Out) -> usize {
    let mut n = 0;
    for x in [SideId::A, SideId::B] {
        if ex.side(x).tcb.is_some() && !ex.dead {
            ex.apply(&format!("emit {}", x.name()), out);
            for i in ex.last_emitted.clone() {
                net.pending.push((x.peer(), i));
                n += 1;
            }
        }
    }
    n
}

fn deliver(ex: &mut Exec, net: &mut Net, to: SideId, i: usize, out: &mut Out) {
    ex.apply(&format!("deliver {} {}", to.name(), i), out);
    // responses of LISTEN/CLOSED go back to the sender
    for j in ex.last_emitted.clone() {
        net.pending.push((to.peer(), j));
    }
}

fn describe(ex: &Exec, x: SideId) -> String {
    match ex.snap_ref(x) {
        Some(s) => format!("{} rtx={} unsent={} heap={} tw={:?}", state_str(s.state), s.retransmit.len(), s.outgoing_text.len(), s.incoming_segments.len(), s.time_wait.map(|d| d.as_millis())),
        None => if ex.side(x).released { "released".into() } else { "no TCB".into() },
    }
}

/// deliver everything FIFO until nothing is in flight; false = it never stops
fn quiesce(ex: &mut Exec, net: &mut Net, out: &mut Out) -> bool {
    let mut guard = 0;
    loop {
        emit_both(ex, net, out);
        if ex.dead {
            return true;
        }
        if net.pending.is_empty() {
            return true;
        }
        for (to, i) in std::mem::take(&mut net.pending) {
            deliver(ex, net, to, i, out);
            if ex.dead {
                return true;
            }
        }
        for x in [SideId::A, SideId::B] {
            if ex.snap_ref(x).map_or(false, |s| !s.incoming_text.is_empty()) {
                ex.apply(&format!("read {}", x.name()), out);
            }
        }
        guard += 1;
        if guard > 40 {
            return false;
        }
    }
}

/// The fair phase of C03.  `both`: both applications close now (if they have not yet).
/// Fair delivery until the exchange is quiet and every side is released or in TIME-WAIT (both
/// closed) / nothing is outstanding (otherwise); then 2*MSL + RTO of virtual time must release
/// every TIME-WAIT side, in silence.
pub fn fair_close_phase(ex: &mut Exec, net: &mut Net, out: &mut Out, both: bool) {
    out.line(&format!("!fair {}", both as u8), "bad-op");
    let (time_wait, rto) = timer_consts();
    let tick = rto + 50;
    if ex.dead {
        return;
    }
    let sides = [SideId::A, SideId::B];
    if both {
        for x in sides {
            if ex.side(x).tcb.is_some() && !ex.c03.as_ref().unwrap().closed[x as usize] {
                // an application closes only an open connection: wait for SYN-SENT to resolve
                if ex.snap_ref(x).map_or(false, |s| s.state == State::SynSent) {
                    continue;
                }
                ex.apply(&format!("close {}", x.name()), out);
            }
        }
    }
    let check = |ex: &Exec| !ex.tainted && !ex.a.aborted && !ex.b.aborted && !ex.c03.as_ref().unwrap().reset_release.iter().any(|b| *b);
    let mut rounds = 0;
    loop {
        if !quiesce(ex, net, out) {
            if check(ex) {
                fail(out, &format!("fair delivery never quiesces (segments keep being exchanged): A: {}; B: {}", describe(ex, SideId::A), describe(ex, SideId::B)), "no-quiescence");
            }
            return;
        }
        if ex.dead {
            return;
        }
        if both {
            // close the sides that were still in SYN-SENT when the phase began
            for x in sides {
                if ex.side(x).tcb.is_some() && !ex.c03.as_ref().unwrap().closed[x as usize] && ex.snap_ref(x).map_or(false, |s| s.state != State::SynSent) {
                    ex.apply(&format!("close {}", x.name()), out);
                }
            }
        }
        let closed_both = sides.iter().all(|x| ex.c03.as_ref().unwrap().closed[*x as usize] || ex.side(*x).tcb.is_none());
        let data_ok = holds(ex, SideId::B) >= ex.a.submitted.len() && holds(ex, SideId::A) >= ex.b.submitted.len();
        let settled = sides.iter().all(|x| match ex.snap_ref(*x) {
            None => true,
            Some(s) => {
                let idle = s.retransmit.is_empty() && s.outgoing_text.is_empty();
                if closed_both { s.state == State::TimeWait && idle } else { idle }
            }
        });
        if settled && (data_ok || !check(ex)) && net.pending.is_empty() {
            out.count(&format!("settled_after_rtos.{}", rounds.min(9)));
            break;
        }
        if check(ex) && !data_ok && ex.a.tcb.is_none() && ex.b.tcb.is_none() && ex.a.released && ex.b.released {
            fail(
                out,
                &format!(
                    "both TCBs were released but data is missing: A submitted {} B holds {}; B submitted {} A holds {}",
                    ex.a.submitted.len(), holds(ex, SideId::B), ex.b.submitted.len(), holds(ex, SideId::A)
                ),
                "released-before-data-delivered",
            );
            return;
        }
        rounds += 1;
        if rounds > 60 {
            if check(ex) {
                let ident = if closed_both { "no-release" } else { "no-convergence" };
                fail(
                    out,
                    &format!(
                        "after 60 loss-free RTO rounds{}: A submitted {} B holds {}; B submitted {} A holds {}; A: {}; B: {}",
                        if closed_both { " with both sides closed" } else { "" },
                        ex.a.submitted.len(), holds(ex, SideId::B), ex.b.submitted.len(), holds(ex, SideId::A), describe(ex, SideId::A), describe(ex, SideId::B)
                    ),
                    ident,
                );
            }
            return;
        }
        for x in sides {
            if ex.side(x).tcb.is_some() {
                ex.apply(&format!("tick {} {}", x.name(), tick), out);
            }
        }
    }
    // quiet: each side's next expected sequence number equals what the peer has sent
    if check(ex) {
        if let (Some(sa), Some(sb)) = (ex.snap_ref(SideId::A), ex.snap_ref(SideId::B)) {
            if synchronised(sa.state) && synchronised(sb.state) && (sa.rcv.1 != sb.snd.1 || sb.rcv.1 != sa.snd.1) {
                fail(out, &format!("quiet and synchronised, but RCV.NXT_A={} SND.NXT_B={} RCV.NXT_B={} SND.NXT_A={}", sa.rcv.1, sb.snd.1, sb.rcv.1, sa.snd.1), "synchronised rcv.nxt!=snd.nxt when quiet");
            }
        }
    }
    // the wait: 2*MSL + RTO of virtual time, in silence
    let mut elapsed = 0;
    while elapsed < time_wait + rto {
        let step = tick.min(time_wait + rto - elapsed);
        elapsed += step;
        for x in sides {
            if ex.side(x).tcb.is_some() {
                ex.apply(&format!("tick {} {}", x.name(), step), out);
            }
        }
        let n = emit_both(ex, net, out);
        if ex.dead {
            return;
        }
        if n > 0 {
            if check(ex) {
                fail(out, &format!("a settled endpoint transmits again after {} ms of quiet: A: {}; B: {}", elapsed, describe(ex, SideId::A), describe(ex, SideId::B)), "not-silent");
            }
            if !quiesce(ex, net, out) {
                if check(ex) {
                    fail(out, "fair delivery never quiesces (segments keep being exchanged)", "no-quiescence");
                }
                return;
            }
        }
    }
    let closed_both = sides.iter().all(|x| ex.c03.as_ref().unwrap().closed[*x as usize] || ex.side(*x).tcb.is_none());
    if closed_both && check(ex) {
        for x in sides {
            if let Some(s) = ex.snap_ref(x) {
                fail(
                    out,
                    &format!("both sides closed and delivery was fair, but {} still holds its TCB ({}) {} ms after the exchange went quiet (2*MSL + RTO = {} ms)", x.name(), describe(ex, x), elapsed, time_wait + rto),
                    &format!("not-released in {}", state_str(s.state)),
                );
            }
        }
        out.count("released_both");
    }
}

// ---------------------------------------------------------------------------------------------
// generator 1: random schedules with closes
// ---------------------------------------------------------------------------------------------
fn pick_write(rng: &mut Rng) -> usize {
    match rng.below(16) {
        0..=3 => 1,
        4..=7 => rng.below(50) as usize,
        8..=11 => rng.below(3000) as usize,
        12..=13 => rng.below(40000) as usize,
        _ => rng.below(9000) as usize,
    }
}

pub fn sched_case(ex: &mut Exec, rng: &mut Rng, out: &mut Out, steps: u64) {
    let mtu_a = pick_mtu(rng);
    let mtu_b = if rng.chance(1, 4) { pick_mtu(rng) } else { mtu_a };
    let (iss_a, iss_b) = (pick_isn(rng), pick_isn(rng));
    let simultaneous = rng.chance(1, 4);
    let eager = rng.chance(1, 2);
    let old_syn = rng.chance(1, 6);
    let aborts = rng.chance(1, 12);
    // how eagerly the applications close: early (handshake / data in flight), late, never before
    // the fair phase
    let close_rate = *rng.pick(&[2u64, 6, 20, 1000]);
    let mss = (mtu_a.min(mtu_b) - 50) as u64;
    let budget: u64 = (60 * mss).min(200_000);
    out.count(if simultaneous { "open.simultaneous" } else { "open.active_passive" });
    ex.apply(&format!("open A {} {}", iss_a, mtu_a), out);
    if simultaneous {
        ex.apply(&format!("open B {} {}", iss_b, mtu_b), out);
    } else {
        ex.apply(&format!("listen B {} {}", iss_b, mtu_b), out);
    }
    let mut net = Net { pending: vec![] };
    let mut seed = rng.next() % 1_000_000;
    let mut written: u64 = 0;
    // directed prelude (1/4 of the cases): a close while more than a window of data is queued, so
    // that the FIN has to wait for text that the peer's window does not admit yet —
    // in FIN-WAIT-1 / CLOSING (the closing side is the writer) or in LAST-ACK (the peer closed first)
    let prelude = rng.below(8);
    if prelude < 2 && !old_syn && !aborts {
        out.count(if prelude == 0 { "prelude.finwait1_pending" } else { "prelude.lastack_pending" });
        for _ in 0..4 {
            quiesce(ex, &mut net, out);
        }
        let w = if prelude == 0 { SideId::A } else { SideId::B };
        let n = rng.range(66000, 100000);
        written += n;
        seed += 1;
        ex.apply(&format!("write {} {} {}", w.name(), n, seed), out);
        ex.apply(&format!("emit {}", w.name()), out);
        for i in ex.last_emitted.clone() {
            net.pending.push((w.peer(), i));
        }
        if prelude == 1 {
            // the reader closes first and its FIN overtakes nothing: B goes to CLOSE-WAIT
            ex.apply("close A", out);
            ex.apply("emit A", out);
            for i in ex.last_emitted.clone() {
                deliver(ex, &mut net, SideId::B, i, out);
            }
        }
        ex.apply(&format!("close {}", w.name()), out);
        if rng.chance(1, 2) && prelude == 0 {
            ex.apply("close B", out);
        }
    }
    for _ in 0..steps {
        if ex.dead {
            return;
        }
        for x in [SideId::A, SideId::B] {
            if ex.side(x).tcb.is_some() && rng.chance(3, 4) {
                ex.apply(&format!("emit {}", x.name()), out);
                for i in ex.last_emitted.clone() {
                    net.pending.push((x.peer(), i));
                }
                if ex.dead {
                    return;
                }
            }
        }
        match rng.below(19) {
            0..=6 => {
                if !net.pending.is_empty() {
                    let k = rng.below(net.pending.len() as u64) as usize;
                    let k = if rng.chance(2, 3) { 0 } else { k };
                    let (to, i) = if rng.chance(1, 6) {
                        out.count("net.dup");
                        out.line(&format!("!dup {} {}", net.pending[k].0.name(), net.pending[k].1), "bad-op");
                        net.pending[k]
                    } else {
                        net.pending.remove(k)
                    };
                    deliver(ex, &mut net, to, i, out);
                    // the passive side keeps listening after a reset of a half-open connection
                    if !simultaneous && ex.b.tcb.is_none() && ex.b.listen.is_none() && ex.a.tcb.is_some() && !ex.b.released_after_sync() {
                        ex.apply(&format!("listen B {} {}", iss_b, mtu_b), out);
                    }
                }
            }
            7 => {
                if !net.pending.is_empty() {
                    let k = rng.below(net.pending.len() as u64) as usize;
                    let (to, i) = net.pending.remove(k);
                    out.line(&format!("!lose {} {}", to.name(), i), "bad-op");
                    out.count("net.drop");
                }
            }
            8 | 9 => {
                let d = if rng.chance(1, 3) { 150 } else { 5 };
                for x in [SideId::A, SideId::B] {
                    if ex.side(x).tcb.is_some() {
                        ex.apply(&format!("tick {} {}", x.name(), d), out);
                    }
                }
            }
            10 | 11 => {
                if rng.chance(1, close_rate) || (close_rate < 1000 && rng.chance(1, 12)) {
                    let x = if rng.chance(1, 2) { SideId::A } else { SideId::B };
                    if let Some(s) = ex.snap(x) {
                        out.count(&format!("close.in.{}", state_str(s.state)));
                        if !s.outgoing_text.is_empty() {
                            out.count("close.with_unsegmentized_text");
                        }
                        if s.retransmit.iter().any(|t| !t.1.is_empty()) {
                            out.count("close.with_data_in_flight");
                        }
                        ex.apply(&format!("close {}", x.name()), out);
                    }
                }
            }
            12..=14 => {
                let x = if rng.chance(1, 2) { SideId::A } else { SideId::B };
                if let Some(s) = ex.snap(x) {
                    // also after close: `send` must refuse
                    if written < budget {
                        let n = pick_write(rng).min((budget - written) as usize);
                        seed += 1;
                        if matches!(s.state, State::SynSent | State::SynReceived | State::Established) {
                            written += n as u64;
                        } else {
                            out.count("write.after_close");
                        }
                        ex.apply(&format!("write {} {} {}", x.name(), n, seed), out);
                    }
                }
            }
            15 if old_syn && rng.chance(1, 8) => {
                // an old duplicate SYN of an earlier incarnation of the peer: other ISN, no ACK
                let x = if rng.chance(1, 3) { SideId::A } else { SideId::B };
                let isn = pick_isn(rng);
                out.count("old_syn");
                ex.apply(&format!("inject {} 2 {} 0 {} 0 0", x.name(), isn, rng.below(65536)), out);
                for j in ex.last_emitted.clone() {
                    net.pending.push((x.peer(), j));
                }
            }
            17 if old_syn && rng.chance(1, 4) => {
                // an old duplicate RST (no ACK) of an earlier incarnation
                let x = if rng.chance(1, 2) { SideId::A } else { SideId::B };
                if let Some(s) = ex.snap(x) {
                    out.count(&format!("old_rst.in.{}", state_str(s.state)));
                    let seq = if rng.chance(1, 2) { s.rcv.1 } else { pick_isn(rng) };
                    ex.apply(&format!("inject {} 4 {} 0 0 0 0", x.name(), seq), out);
                }
            }
            16 if aborts && rng.chance(1, 10) => {
                let x = if rng.chance(1, 2) { SideId::A } else { SideId::B };
                if ex.side(x).tcb.is_some() {
                    ex.apply(&format!("abort {}", x.name()), out);
                    ex.apply(&format!("emit {}", x.name()), out);
                    for i in ex.last_emitted.clone() {
                        net.pending.push((x.peer(), i));
                    }
                    ex.apply(&format!("drop {}", x.name()), out);
                }
            }
            _ => {
                if eager || rng.chance(1, 4) {
                    for x in [SideId::A, SideId::B] {
                        if ex.side(x).tcb.is_some() {
                            ex.apply(&format!("read {}", x.name()), out);
                        }
                    }
                }
            }
        }
    }
    if ex.dead {
        return;
    }
    let both = rng.chance(4, 5);
    fair_close_phase(ex, &mut net, out, both);
}

trait SideExt {
    fn released_after_sync(&self) -> bool;
}
impl SideExt for Side {
    /// the side once delivered or accepted data / was released otherwise than from a half-open
    /// state: do not re-listen (a new incarnation is not part of these schedules)
    fn released_after_sync(&self) -> bool {
        self.released && (!self.delivered.is_empty() || !self.submitted.is_empty())
    }
}

const RULE_SCHED: &str = "two real Tcbs (active/passive or simultaneous open, MTU 100..65535, ISNs uniform and dense near 0/2^31/2^32), random interleaving of writes (also after close), reads, 5/150 ms ticks, deliver-any/duplicate/drop, close by either/both sides in any state with data queued or in flight, in 1/6 of the cases old duplicate SYNs with a foreign ISN, in 1/12 an abort; then the fair close phase (both applications close in 4/5 of the cases; deliver all until quiet, advance one RTO, repeat; then 2*MSL+RTO of quiet time); every op's result, the full TCB snapshot and the transition log are compared with the Lean model; non-trivial = at least one close call succeeded; distinct = hash of the op lines";
const RULE_ENUM: &str = "action space: deliver any in-flight segment, drop it, deliver it without consuming it (duplicate), close A, close B; after every action both sides emit; when nothing is in flight the applications close, then RTO ticks fire. Exhaustive part (stateless DFS over ALL schedules, no data: SYN / SYN-ACK / ACK / FIN and their ACKs): active/passive open with <= drops / <= dups, simultaneous open with <= sim_drops / <= sim_dups. Sampled part: the same action space with <= 2 drops, <= 2 dups and random choices, in four variants (active/passive | simultaneous) x (no data | 3 bytes queued before the handshake and 2 the other way). Each schedule ends with the fair close phase and all oracles; every k-th schedule is printed and compared with the Lean model";
const RULE_EDGES: &str = "every entry of the RFC 9293 edge table (10x10 unlabelled, 20 events x 10x10 labelled) of the harness' Rust copy, answered by the Lean table of Spec/Rfc9293.lean through the driver";

// ---------------------------------------------------------------------------------------------
// generator 2: small-scope exhaustive enumeration
// ---------------------------------------------------------------------------------------------
#[derive(Clone, Copy, Debug)]
enum Act {
    Deliver(usize),
    Drop(usize),
    Dup(usize),
    Close(SideId),
}

struct EnumCfg {
    simultaneous: bool,
    data: bool,
    max_drops: u32,
    max_dups: u32,
    max_ticks: u32,
}

/// run one schedule following `path` (then always choice 0); returns (choice, alternatives) per
/// decision point
fn enum_schedule(cfg: &EnumCfg, path: &[usize], mut random: Option<&mut Rng>, out: &mut Out) -> Vec<(usize, usize)> {
    let mut ex = Exec::new(Oracles { prefix: true, c17: true });
    ex.c03 = Some(C03State::default());
    let mut net = Net { pending: vec![] };
    let mut taken = vec![];
    ex.apply("open A 4294967290 1500", out);
    if cfg.simultaneous {
        ex.apply("open B 2147483640 1500", out);
    } else {
        ex.apply("listen B 2147483640 1500", out);
    }
    if cfg.data {
        ex.apply("write A 3 7", out);
    }
    let (mut drops, mut dups, mut ticks) = (0, 0, 0);
    let mut wrote_b = false;
    emit_both(&mut ex, &mut net, out);
    for _depth in 0..60 {
        if ex.dead {
            break;
        }
        if cfg.data && !wrote_b && ex.snap_ref(SideId::B).map_or(false, |s| matches!(s.state, State::SynReceived | State::Established)) {
            wrote_b = true;
            ex.apply("write B 2 9", out);
            emit_both(&mut ex, &mut net, out);
        }
        // distinct in-flight entries
        let mut inflight: Vec<usize> = vec![];
        for k in 0..net.pending.len() {
            if !net.pending[..k].contains(&net.pending[k]) {
                inflight.push(k);
            }
        }
        let mut acts: Vec<Act> = inflight.iter().map(|k| Act::Deliver(*k)).collect();
        for x in [SideId::A, SideId::B] {
            let closed = ex.c03.as_ref().unwrap().closed[x as usize];
            if !closed && ex.snap_ref(x).map_or(false, |s| s.state != State::SynSent) {
                acts.push(Act::Close(x));
            }
        }
        if drops < cfg.max_drops {
            acts.extend(inflight.iter().map(|k| Act::Drop(*k)));
        }
        if dups < cfg.max_dups {
            acts.extend(inflight.iter().map(|k| Act::Dup(*k)));
        }
        if acts.is_empty() {
            // nothing in flight, both closed (or unable to): let the retransmission timer fire
            let live = ex.a.tcb.is_some() || ex.b.tcb.is_some();
            let outstanding = [SideId::A, SideId::B].iter().any(|x| ex.snap_ref(*x).map_or(false, |s| !s.retransmit.is_empty()));
            if live && outstanding && ticks < cfg.max_ticks {
                ticks += 1;
                for x in [SideId::A, SideId::B] {
                    if ex.side(x).tcb.is_some() {
                        ex.apply(&format!("tick {} 150", x.name()), out);
                    }
                }
                emit_both(&mut ex, &mut net, out);
                continue;
            }
            break;
        }
        let c = match random.as_mut() {
            Some(r) => r.below(acts.len() as u64) as usize,
            None => if taken.len() < path.len() { path[taken.len()] } else { 0 },
        };
        let c = c.min(acts.len() - 1);
        taken.push((c, acts.len()));
        match acts[c] {
            Act::Deliver(k) => {
                let (to, i) = net.pending.remove(k);
                deliver(&mut ex, &mut net, to, i, out);
            }
            Act::Drop(k) => {
                drops += 1;
                let (to, i) = net.pending.remove(k);
                out.line(&format!("!lose {} {}", to.name(), i), "bad-op");
            }
            Act::Dup(k) => {
                dups += 1;
                let (to, i) = net.pending[k];
                out.line(&format!("!dup {} {}", to.name(), i), "bad-op");
                deliver(&mut ex, &mut net, to, i, out);
            }
            Act::Close(x) => {
                ex.apply(&format!("close {}", x.name()), out);
            }
        }
        emit_both(&mut ex, &mut net, out);
    }
    if !ex.dead {
        fair_close_phase(&mut ex, &mut net, out, true);
    }
    if ex.c03.as_ref().unwrap().closed.iter().any(|b| *b) {
        out.mark_nontrivial();
    }
    for x in [SideId::A, SideId::B] {
        out.count(&format!("final.{}", describe_short(&ex, x)));
    }
    taken
}

fn describe_short(ex: &Exec, x: SideId) -> String {
    match ex.snap_ref(x) {
        Some(s) => state_str(s.state).to_string(),
        None => if ex.side(x).released { "released".into() } else { "none".into() },
    }
}

fn run_enum(args: &Args, out: &mut Out) {
    let get = |k: &str, d: u64| -> u64 { args.extra.get(k).and_then(|s| s.parse().ok()).unwrap_or(d) };
    // exhaustive part: the handshake and the two closes without data (SYN / SYN-ACK / ACK / FIN and
    // their ACKs only); active/passive with `drops`/`dups`, simultaneous open with `sim_drops`/`sim_dups`
    let (drops, dups) = (get("drops", 1) as u32, get("dups", 1) as u32);
    let (sim_drops, sim_dups) = (get("sim_drops", 0) as u32, get("sim_dups", 0) as u32);
    let sim = get("sim", 1) == 1;
    let ticks = get("ticks", 2) as u32;
    let limit = get("limit", 2_000_000);
    let print_every = get("print_every", 50);
    // sampled part: the same action space with data queued on both sides, random choices
    let samples = get("samples", 500);
    let mut total: u64 = 0;
    let mut null = Out::null();
    null.max_failures = 40;
    let mut exhaustive = vec![(false, drops, dups)];
    if sim {
        exhaustive.push((true, sim_drops, sim_dups));
    }
    for (vi, (simultaneous, d, u)) in exhaustive.into_iter().enumerate() {
        let cfg = EnumCfg { simultaneous, data: false, max_drops: d, max_dups: u, max_ticks: ticks };
        let mut path: Vec<usize> = vec![];
        let mut n: u64 = 0;
        loop {
            let printed = n % print_every == 0;
            let o: &mut Out = if printed { &mut *out } else { &mut null };
            o.begin_case(total);
            let taken = enum_schedule(&cfg, &path, None, o);
            o.end_case();
            n += 1;
            total += 1;
            // next path in DFS order
            let mut k = taken.len();
            let mut next = None;
            while k > 0 {
                k -= 1;
                if taken[k].0 + 1 < taken[k].1 {
                    let mut p: Vec<usize> = taken[..k].iter().map(|t| t.0).collect();
                    p.push(taken[k].0 + 1);
                    next = Some(p);
                    break;
                }
            }
            match next {
                Some(p) if n < limit => path = p,
                Some(_) => {
                    out.notes.push(format!("exhaustive variant {} (simultaneous={}): enumeration stopped at the limit of {} schedules (NOT exhaustive)", vi, simultaneous, limit));
                    break;
                }
                None => {
                    out.notes.push(format!("exhaustive variant {} (simultaneous={}, no data): ALL {} schedules with <= {} drops, <= {} duplicates, <= {} RTO expirations enumerated", vi, simultaneous, n, d, u, ticks));
                    break;
                }
            }
        }
        out.count_n(&format!("enum.exhaustive{}.schedules", vi), n);
    }
    let mut rng = Rng::new(args.seed ^ 0xe03);
    for (vi, (simultaneous, data)) in [(false, false), (true, false), (false, true), (true, true)].into_iter().enumerate() {
        let cfg = EnumCfg { simultaneous, data, max_drops: 2, max_dups: 2, max_ticks: ticks };
        for n in 0..samples {
            let printed = n % print_every.max(1) == 0;
            let o: &mut Out = if printed { &mut *out } else { &mut null };
            o.begin_case(total);
            let mut r = rng.fork();
            enum_schedule(&cfg, &[], Some(&mut r), o);
            o.end_case();
            total += 1;
        }
        out.count_n(&format!("enum.sampled{}.schedules", vi), samples);
    }
    // move what the unprinted schedules found into the main record
    out.evaluations += null.evaluations;
    for (k, v) in std::mem::take(&mut null.hist) {
        out.count_n(&k, v);
    }
    for f in std::mem::take(&mut null.failures) {
        if out.failures.len() < out.max_failures {
            out.failures.push(f);
        }
    }
}

// ---------------------------------------------------------------------------------------------
// the table dump
// ---------------------------------------------------------------------------------------------
fn run_edges(out: &mut Out) {
    out.begin_case(0);
    out.mark_nontrivial();
    for a in ALL_STATES {
        for b in ALL_STATES {
            out.line(&format!("edge {} {}", st_name(a), st_name(b)), if rfc_edges(a, b) { "1" } else { "0" });
        }
    }
    let mut evs: Vec<(String, Ev)> = vec![("open".into(), Ev::Open), ("close".into(), Ev::Close), ("abort".into(), Ev::Abort), ("timeout".into(), Ev::Timeout)];
    for n in 0..16u8 {
        evs.push((format!("seg{}", n), Ev::Seg { ack: n & 8 != 0, rst: n & 4 != 0, syn: n & 2 != 0, fin: n & 1 != 0 }));
    }
    let mut edges = 0;
    for (name, ev) in &evs {
        for a in ALL_STATES {
            for b in ALL_STATES {
                let r = rfc_cause(*ev, a, b);
                edges += r as u64;
                // every labelled edge is an edge of the figure
                if r && !rfc_edges(a, b) {
                    out.fail(&format!("labelled edge {} {}>{} is not in rfc_edges", name, st_name(a), st_name(b)), "table-inconsistent");
                }
                out.line(&format!("cause {} {} {}", name, st_name(a), st_name(b)), if r { "1" } else { "0" });
            }
        }
    }
    out.count_n("labelled_edges", edges);
    out.end_case();
}

// ---------------------------------------------------------------------------------------------
// replay: op lines up to the `!fair` directive, then the fair close phase
// ---------------------------------------------------------------------------------------------
fn replay_c03(args: &Args, out: &mut Out) {
    let mut ex = Exec::new(Oracles { prefix: true, c17: true });
    ex.c03 = Some(C03State::default());
    let mut net = Net { pending: vec![] };
    out.begin_case(0);
    out.mark_nontrivial();
    // in-flight multiset: +1 per emission and `!dup`, -1 per delivery and `!lose`
    let mut minus: std::collections::HashMap<(u8, usize), i64> = Default::default();
    let side_of = |s: &str| if s == "A" { SideId::A } else { SideId::B };
    for l in read_ops(args.replay.as_ref().unwrap()) {
        if l.starts_with("case ") {
            continue;
        }
        let w: Vec<&str> = l.split_whitespace().collect();
        if let Some(rest) = l.strip_prefix("!fair") {
            for (i, (h, _)) in ex.history.iter().enumerate() {
                let to = if h.dst_port == A_PORT { SideId::A } else { SideId::B };
                if 1 - minus.get(&(to as u8, i)).copied().unwrap_or(0) > 0 {
                    net.pending.push((to, i));
                }
            }
            fair_close_phase(&mut ex, &mut net, out, rest.trim() == "1");
            break;
        }
        if w.len() == 3 && (w[0] == "!lose" || w[0] == "!dup" || w[0] == "deliver") {
            if let Ok(i) = w[2].parse::<usize>() {
                *minus.entry((side_of(w[1]) as u8, i)).or_insert(0) += if w[0] == "!dup" { -1 } else { 1 };
            }
        }
        if l.starts_with('!') {
            out.line(&l, "bad-op");
            continue;
        }
        ex.apply(&l, out);
    }
    out.end_case();
}

pub fn run(args: &Args) {
    let mut out = Out::new(&args.out);
    out.max_failures = 60;
    if args.prop.ends_with("edges") {
        run_edges(&mut out);
        return out.finish(RULE_EDGES);
    }
    let is_enum = args.prop.ends_with("enum");
    if args.replay.is_some() {
        replay_c03(args, &mut out);
        return out.finish(if is_enum { RULE_ENUM } else { RULE_SCHED });
    }
    if is_enum {
        run_enum(args, &mut out);
        return out.finish(RULE_ENUM);
    }
    let steps: u64 = args.extra.get("steps").and_then(|s| s.parse().ok()).unwrap_or(200);
    let mut rng = Rng::new(args.seed ^ 0x0c03);
    for c in 0..args.cases {
        let mut r = rng.fork();
        let mut ex = Exec::new(Oracles { prefix: true, c17: true });
        ex.c03 = Some(C03State::default());
        out.begin_case(c);
        sched_case(&mut ex, &mut r, &mut out, steps);
        if ex.c03.as_ref().unwrap().closed.iter().any(|b| *b) {
            out.mark_nontrivial();
        }
        for x in [SideId::A, SideId::B] {
            out.count(&format!("final.{}", describe_short(&ex, x)));
        }
        out.count_n("bytes.submitted", (ex.a.submitted.len() + ex.b.submitted.len()) as u64);
        out.end_case();
    }
    out.finish(RULE_SCHED);
}
