import ElvisVerif.Lemmas.TcpAckDrain
/-!
# The local calls (`send`, `receive`, `advance_time`, `segments`, `close`) and the ACK numbers

`LStep s s'`: what a local call does to the things the acknowledgment invariant reads — every
header newly queued is no RST and acknowledges exactly `RCV.NXT` (outside SYN-SENT); `SND.UNA`,
`RCV.*`, the reorder heap and ISS are untouched; the state is kept or moves between synchronised
states (`close`).  Plus what LISTEN creates (`listen_create_ack`) and what `open` creates.
-/
namespace Elvis.Tcp
open Elvis.ModCmp
namespace Tcb

structure LStep (s s' : Tcb) : Prop where
  q : QStep (NewHdr s') (fun _ => False) s s'
  rcv : s'.rcv = s.rcv
  heap : s'.incoming.segments = s.incoming.segments
  st : s'.state = s.state ∨ (s.state ≠ .SynSent ∧ s'.state ≠ .SynSent ∧ s'.state ≠ .SynReceived)
  iss : s'.snd.iss = s.snd.iss

theorem LStep.una {s s' : Tcb} (h : LStep s s') : s'.snd.una = s.snd.una := by
  rcases h.q.una with e | e
  · exact e
  · exact e.elim

theorem LStep.synsent {s s' : Tcb} (h : LStep s s') : s'.state = .SynSent ↔ s.state = .SynSent := by
  rcases h.st with e | ⟨a, b, _⟩
  · rw [e]
  · exact ⟨fun x => absurd x b, fun x => absurd x a⟩

theorem LStep.rcvd {s s' : Tcb} (h : LStep s s') (hs : s'.state = .SynReceived) : s.state = .SynReceived := by
  rcases h.st with e | ⟨_, _, c⟩
  · rw [← e]; exact hs
  · exact absurd hs c

theorem LStep.top {s s' : Tcb} (h : LStep s s') (base : Seq) : top base s' = top base s := by
  unfold Tcb.top
  rw [h.rcv]
  by_cases hs : s.state = .SynSent
  · rw [if_pos hs, if_pos (h.synsent.2 hs)]
  · rw [if_neg hs, if_neg (fun x => hs (h.synsent.1 x))]

/-- same queues (up to the retransmission flags), same everything the invariant reads -/
theorem LStep.of_flags {s s' : Tcb} (h1 : s'.outgoing.oneshot = s.outgoing.oneshot)
    (h2 : ∀ tr ∈ s'.outgoing.retransmit, ∃ t0 ∈ s.outgoing.retransmit, t0.segment = tr.segment)
    (h3 : s'.snd = s.snd) (h4 : s'.rcv = s.rcv) (h5 : s'.incoming.segments = s.incoming.segments)
    (h6 : s'.state = s.state) : LStep s s' :=
  ⟨⟨fun _ h => Or.inl (h1 ▸ h), fun tr h => Or.inl (h2 tr h), Or.inl (by rw [h3])⟩, h4, h5, Or.inl h6, by rw [h3]⟩

theorem LStep.trans {a b c : Tcb} (h1 : LStep a b) (h2 : LStep b c) : LStep a c := by
  refine ⟨?_, h2.rcv.trans h1.rcv, h2.heap.trans h1.heap, ?_, h2.iss.trans h1.iss⟩
  · refine (h1.q.mono (fun _ hx => hx.congr (by rw [h2.rcv]) (fun hb hc => hb (h2.synsent.1 hc))) (fun _ hx => hx)).trans h2.q
  · rcases h2.st with e2 | ⟨a2, b2, c2⟩
    · rcases h1.st with e1 | ⟨a1, b1, c1⟩
      · exact Or.inl (e2.trans e1)
      · exact Or.inr ⟨a1, by rw [e2]; exact b1, by rw [e2]; exact c1⟩
    · exact Or.inr ⟨fun hx => a2 (h1.synsent.2 hx), b2, c2⟩

theorem send_l (s : Tcb) (m : List UInt8) : LStep s (s.send m) := by
  unfold send
  split <;> exact LStep.of_flags rfl (fun tr h => ⟨tr, h, rfl⟩) rfl rfl rfl rfl

theorem receive_l (s : Tcb) : LStep s s.receive.1 := by
  unfold receive
  split <;> exact LStep.of_flags rfl (fun tr h => ⟨tr, h, rfl⟩) rfl rfl rfl rfl

theorem advanceTime_l (s : Tcb) (dt : Nat) (s' : Tcb) (e : s.advanceTime dt = .ok (s', .Ignore)) : LStep s s' := by
  unfold advanceTime at e
  cases h1 : s.advanceRetransmission dt with
  | error err => rw [h1] at e; simp at e
  | ok s1 =>
    rw [h1] at e
    dsimp only at e
    have k1 : LStep s s1 := by
      unfold advanceRetransmission at h1
      split at h1
      · cases h1
        refine LStep.of_flags rfl (fun tr h => ?_) rfl rfl rfl rfl
        obtain ⟨y, hy, rfl⟩ := List.mem_map.1 h
        exact ⟨y, hy, rfl⟩
      · cases h1
        exact LStep.of_flags rfl (fun tr h => ⟨tr, h, rfl⟩) rfl rfl rfl rfl
    split at e
    · split at e
      · simp at e
      · simp only [Except.ok.injEq, Prod.mk.injEq, and_true] at e
        subst e
        exact k1.trans (LStep.of_flags rfl (fun tr h => ⟨tr, h, rfl⟩) rfl rfl rfl rfl)
    · simp only [Except.ok.injEq, Prod.mk.injEq, and_true] at e
      subst e
      exact k1

/-! ## `segments()` -/

theorem segmentize_l {A : Seq → Prop} (m fuel : Nat) (s : Tcb) (q : Nat) (u : Tcb)
    (hw : s.state = .SynSent → s.snd.wnd = 0) (e : segmentize m fuel s q = .ok u) :
    QStep (NewHdr u) A s u ∧ u.rcv = s.rcv ∧ u.state = s.state ∧ u.incoming = s.incoming ∧ u.snd.iss = s.snd.iss ∧
      u.outgoing.oneshot = s.outgoing.oneshot := by
  induction fuel generalizing s q with
  | zero => cases e; exact ⟨QStep.refl _, rfl, rfl, rfl, rfl, rfl⟩
  | succ n ih =>
    rw [segmentize_succ] at e
    split at e
    · cases e; exact ⟨QStep.refl _, rfl, rfl, rfl, rfl, rfl⟩
    · rename_i hb
      split at e
      · cases e
      · rename_i header hbuild
        have hst : s.state ≠ .SynSent := by
          intro hs
          rw [hw hs] at hb
          simp at hb
        have hh : header = s.ackHdr.built := by
          unfold Hdr.build at hbuild
          split at hbuild
          · simp at hbuild
          · simp only [Option.some.injEq] at hbuild
            exact hbuild.symm
        have hw' : ∀ tx rs, (pushSeg s header tx rs).state = .SynSent → (pushSeg s header tx rs).snd.wnd = 0 :=
          fun _ _ hs => absurd hs hst
        obtain ⟨q1, r1, st1, in1, is1, os1⟩ := ih _ _ (hw' _ _) e
        refine ⟨?_, r1, st1, in1, is1, os1⟩
        refine QStep.trans ?_ q1
        refine ⟨fun _ h => Or.inl h, fun tr h => ?_, Or.inl rfl⟩
        have h' : tr ∈ s.outgoing.retransmit ++ [Transmit.new ⟨header, s.outgoing.text.take
            (min (min m (s.snd.wnd.toNat - q)) s.outgoing.text.length)⟩] := h
        simp only [List.mem_append, List.mem_singleton] at h'
        rcases h' with h | rfl
        · exact Or.inl ⟨tr, h, rfl⟩
        · right
          rw [hh]
          exact newHdr_ackHdr _ _ (by rw [r1]; rfl) (by rw [st1]; exact hst)

theorem queueFin_l {A : Seq → Prop} (s u : Tcb) (hst : s.state ≠ .SynSent) (e : s.queueFin = .ok u) :
    QStep (NewHdr u) A s u ∧ u.rcv = s.rcv ∧ u.state = s.state ∧ u.incoming = s.incoming ∧ u.snd.iss = s.snd.iss := by
  rw [queueFin_eq] at e
  split at e
  · cases e
    unfold bumpNxt
    refine ⟨?_, (enqueueBuilt_frame _ _).2.1, state_enqueueBuilt _ _, (enqueueBuilt_frame _ _).2.2.2.1,
      by simp only [(enqueueBuilt_frame _ _).2.2.1]⟩
    have hn : NewHdr (s.enqueueBuilt s.finHdr.built) s.finHdr.built :=
      ⟨rfl, by rw [(enqueueBuilt_frame _ _).2.1]; rfl,
        fun _ => ⟨by rw [(enqueueBuilt_frame _ _).2.1]; rfl, by rw [state_enqueueBuilt]; exact hst⟩, Or.inl rfl⟩
    have q0 : QStep (NewHdr (s.enqueueBuilt s.finHdr.built)) A s (s.enqueueBuilt s.finHdr.built) :=
      qstep_enqueue _ _ hn
    exact q0.newHdr_congr rfl id rfl rfl rfl
  · cases e; exact ⟨QStep.refl _, rfl, rfl, rfl, rfl⟩

/-- **`segments()`**: a local step; everything handed to the network was on the one-shot queue or
    is on the retransmission queue afterwards -/
theorem segments_l (s s' : Tcb) (out : List Segment) (e : s.segments = .ok (s', out)) (hF : SynSentFresh s) :
    LStep s s' ∧ ∀ σ ∈ out, σ.hdr ∈ s.outgoing.oneshot ∨ ∃ tr ∈ s'.outgoing.retransmit, tr.segment = σ := by
  rw [segments_eq] at e
  cases hv : segmentizeIfOpen (clearOneshot s) with
  | error err => rw [hv] at e; cases e
  | ok v =>
    rw [hv] at e
    dsimp only at e
    have hw : (clearOneshot s).state = .SynSent → (clearOneshot s).snd.wnd = 0 := fun hs => (hF hs).2.2
    have k1 : QStep (NewHdr v) (fun _ => False) (clearOneshot s) v ∧ v.rcv = s.rcv ∧ v.state = s.state ∧
        v.incoming = s.incoming ∧ v.snd.iss = s.snd.iss ∧ v.outgoing.oneshot = [] := by
      unfold segmentizeIfOpen at hv
      split at hv
      all_goals first
        | (cases hv; exact ⟨QStep.refl _, rfl, rfl, rfl, rfl, rfl⟩)
        | (split at hv
           · cases hv
           · exact segmentize_l _ _ _ _ _ hw hv)
    obtain ⟨q1, r1, st1, in1, is1, os1⟩ := k1
    cases hf : finIfPending s.finPending v with
    | error err => rw [hf] at e; cases e
    | ok v2 =>
      rw [hf] at e
      have k2 : QStep (NewHdr v2) (fun _ => False) v v2 ∧ v2.rcv = v.rcv ∧ v2.state = v.state ∧ v2.incoming = v.incoming ∧
          v2.snd.iss = v.snd.iss := by
        unfold finIfPending at hf
        split at hf
        · rename_i hp
          have hst : v.state ≠ .SynSent := by
            rw [st1]
            intro hs
            unfold finPending at hp
            rw [hs] at hp
            simp at hp
          exact queueFin_l _ _ hst hf
        · cases hf; exact ⟨QStep.refl _, rfl, rfl, rfl, rfl⟩
      obtain ⟨q2, r2, st2, in2, is2⟩ := k2
      simp only [Except.ok.injEq, Prod.mk.injEq] at e
      obtain ⟨hs', hout⟩ := e
      have hm : ∀ b, (markSent v2 b).rcv = v2.rcv ∧ (markSent v2 b).state = v2.state ∧ (markSent v2 b).incoming = v2.incoming ∧
          (markSent v2 b).snd = v2.snd ∧ (markSent v2 b).outgoing.oneshot = v2.outgoing.oneshot ∧
          (markSent v2 b).outgoing.retransmit = v2.outgoing.retransmit.map fun t => { t with needsTransmit := false } := by
        intro b; unfold markSent; cases b <;> exact ⟨rfl, rfl, rfl, rfl, rfl, rfl⟩
      obtain ⟨m1, m2, m3, m4, m5, m6⟩ := hm ((s.outgoing.oneshot.map fun h => (⟨h, []⟩ : Segment)) ++
                  (v2.outgoing.retransmit.filter (·.needsTransmit)).map (·.segment)).isEmpty
      rw [hs'] at m1 m2 m3 m4 m5 m6
      -- the queue steps, from `s` to `s'`
      have q02 : QStep (NewHdr v2) (fun _ => False) (clearOneshot s) v2 :=
        (q1.mono (fun _ hx => hx.congr (by rw [r2]) (by rw [st2]; exact id)) (fun _ hx => hx)).trans q2
      have qs : QStep (NewHdr s') (fun _ => False) s s' := by
        refine ⟨fun h hh => ?_, fun tr hh => ?_, ?_⟩
        · rw [m5] at hh
          rcases q02.one h hh with hx | hx
          · simp [clearOneshot] at hx
          · exact Or.inr (hx.congr (by rw [m1]) (by rw [m2]; exact id))
        · rw [m6] at hh
          obtain ⟨t0, ht0, rfl⟩ := List.mem_map.1 hh
          rcases q02.rtx t0 ht0 with ⟨t1, ht1, es⟩ | hx
          · exact Or.inl ⟨t1, ht1, es⟩
          · exact Or.inr (hx.congr (by rw [m1]) (by rw [m2]; exact id))
        · rcases q02.una with hx | hx
          · left; rw [m4]; exact hx
          · exact hx.elim
      refine ⟨⟨qs, by rw [m1, r2, r1], by rw [m3, in2, in1], Or.inl (by rw [m2, st2, st1]), by rw [m4, is2, is1]⟩, ?_⟩
      intro σ hσ
      rw [← hout] at hσ
      rcases List.mem_append.1 hσ with h | h
      · obtain ⟨hd, hhd, rfl⟩ := List.mem_map.1 h
        exact Or.inl hhd
      · obtain ⟨t, ht, rfl⟩ := List.mem_map.1 h
        right
        refine ⟨{ t with needsTransmit := false }, ?_, rfl⟩
        rw [m6]
        exact List.mem_map.2 ⟨t, (List.mem_filter.1 ht).1, rfl⟩

/-! ## `close()` -/

theorem close_l (s s' : Tcb) (r : CloseResult) (e : s.close = .ok (s', r)) : LStep s s' := by
  have lift : ∀ (t t' : Tcb), t.queueFin = .ok t' → t.outgoing = s.outgoing → t.snd = s.snd → t.rcv = s.rcv →
      t.incoming = s.incoming → s.state ≠ .SynSent → t.state ≠ .SynSent → t.state ≠ .SynReceived → LStep s t' := by
    intro t t' hq h1 h2 h3 h4 h5 h6 h7
    obtain ⟨q1, r1, st1, in1, is1⟩ := queueFin_l (A := fun _ => False) t t' h6 hq
    exact ⟨QStep.of_eq_left (by rw [h1]) (by rw [h1]) (by rw [h2]) q1, r1.trans h3, by rw [in1, h4],
      Or.inr ⟨h5, by rw [st1]; exact h6, by rw [st1]; exact h7⟩, by rw [is1, h2]⟩
  unfold close at e
  split at e
  all_goals first
    | (cases e; exact LStep.of_flags rfl (fun tr h => ⟨tr, h, rfl⟩) rfl rfl rfl rfl)
    | (rename_i hst
       split at e
       · simp at e
       · rename_i t h1
         cases e
         exact lift _ _ h1 rfl rfl rfl rfl (by rw [hst]; simp) (by simp) (by simp))

/-! ## what LISTEN and `open` create -/

/-- the TCB LISTEN creates from a SYN: SYN-RECEIVED, nothing acknowledged, one SYN,ACK queued that
    acknowledges the SYN, the SYN parked without SYN and ACK bits -/
theorem listen_create_ack (segment : Segment) (iss : Seq) (mtu : U16) (tcb : Tcb)
    (e : segmentArrivesListen segment iss mtu = .ok (some (.Tcb tcb))) :
    tcb.snd.una = iss ∧ tcb.outgoing.oneshot = [] ∧
      (∀ tr ∈ tcb.outgoing.retransmit, tr.segment.hdr.ack = segment.hdr.seq + 1 ∧ tr.segment.hdr.ctl.rst = false) ∧
      (∀ σ ∈ tcb.incoming.segments, σ.hdr.ctl.ack = false ∧ σ.hdr.ctl.rst = segment.hdr.ctl.rst) := by
  unfold segmentArrivesListen at e
  dsimp only at e
  split at e
  · simp at e
  · split at e
    · cases hb : (Hdr.builder segment.hdr.dstPort segment.hdr.srcPort segment.hdr.ack).withRst.build 0 <;>
        simp [hb] at e
    · split at e
      · rw [enqueue_eq] at e
        dsimp only at e
        generalize hq : Tcb.enqueueBuilt _ _ = q at e
        have f1 : q.snd.una = iss := by
          rw [← hq]; simp only [(enqueueBuilt_frame _ _).2.2.1]
        have f2 : q.outgoing.oneshot = [] ∧
            ∀ tr ∈ q.outgoing.retransmit, tr.segment.hdr.ack = segment.hdr.seq + 1 ∧ tr.segment.hdr.ctl.rst = false := by
          rw [← hq]
          unfold enqueueBuilt
          rw [if_pos (by rfl)]
          refine ⟨rfl, fun tr htr => ?_⟩
          simp only [List.nil_append, List.mem_singleton] at htr
          subst htr
          exact ⟨rfl, rfl⟩
        have f3 : q.incoming.segments = [] := by
          rw [← hq, (enqueueBuilt_frame _ _).2.2.2.1]
        simp only [Except.ok.injEq, Option.some.injEq, ListenResult.Tcb.injEq] at e
        subst e
        refine ⟨f1, f2.1, f2.2, ?_⟩
        intro σ hσ
        have h' : σ ∈ LHeap.push segLe q.incoming.segments
            ⟨{ segment.hdr with ctl := { segment.hdr.ctl with syn := false, ack := false } }, segment.text⟩ := hσ
        rw [f3] at h'
        have hp : LHeap.push segLe []
            (⟨{ segment.hdr with ctl := { segment.hdr.ctl with syn := false, ack := false } }, segment.text⟩ : Segment) =
            [⟨{ segment.hdr with ctl := { segment.hdr.ctl with syn := false, ack := false } }, segment.text⟩] := rfl
        rw [hp] at h'
        simp only [List.mem_singleton] at h'
        subst h'
        exact ⟨rfl, rfl⟩
      · simp at e

/-- the TCB `open` creates: SYN-SENT, nothing acknowledged, one SYN without ACK queued -/
theorem open_ack (lp rp : U16) (iss : Seq) (mtu : U16) (s : Tcb) (e : Tcb.open lp rp iss mtu = .ok s) :
    s.snd.una = iss ∧ s.outgoing.oneshot = [] ∧
      (∀ tr ∈ s.outgoing.retransmit, tr.segment.hdr.ctl.ack = false ∧ tr.segment.hdr.ctl.rst = false) ∧
      s.incoming.segments = [] ∧ SynSentFresh s := by
  unfold Tcb.open at e
  dsimp only at e
  rw [enqueue_eq] at e
  cases e
  refine ⟨?_, ?_, ?_, ?_, ?_⟩
  · simp only [(enqueueBuilt_frame _ _).2.2.1]
  · unfold enqueueBuilt
    rw [if_pos (by rfl)]
  · intro tr htr
    unfold enqueueBuilt at htr
    rw [if_pos (by rfl)] at htr
    simp only [List.nil_append, List.mem_singleton] at htr
    subst htr
    exact ⟨rfl, rfl⟩
  · simp only [(enqueueBuilt_frame _ _).2.2.2.1]
  · intro _
    refine ⟨?_, ?_, ?_⟩ <;> simp only [(enqueueBuilt_frame _ _).2.2.1]

end Tcb
end Elvis.Tcp
