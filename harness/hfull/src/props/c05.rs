//! C05: correspondence + oracle runs (sub-commands `c05` / `c05-*`).
use hcommon::*;

pub fn run(args: &Args) {
    eprintln!("hfull: {} not implemented yet", args.prop);
    std::process::exit(2);
}
