import ElvisVerif.Lemmas.TcpFullPhase
/-!
# One fair round from a rough state ends `Done`

`phase_rough`: from a rough state (`Lemmas/TcpFullPhase.lean`) with every queue entry flagged the exchange phase
succeeds and ends steady.  `tick_rough`: a tick of `RTO + 1` flags every queue entry.  `fairRound_rough`: one fair
round of `2n + 2` phases from a rough state ends `Done` when at most `65535 · n` bytes are unsent on either side.
-/
namespace Elvis.Tcp.Full
open Elvis.ModCmp Elvis.Tcp.Tcb

variable {iss : SideId → Seq} {mt : SideId → U16}

theorem RoughX.of_flagged {t t1 : Tcb} (C : RoughX t) (f : Flagged t t1) :
    RoughX t1 ∧ ∀ tr ∈ t1.outgoing.retransmit, tr.needsTransmit = true := by
  refine ⟨⟨by rw [f.st]; exact C.st, by rw [f.inc]; exact C.buf, by rw [f.snd]; exact C.una,
    by rw [f.mtu]; exact C.mtu, by rw [f.tmo]; exact Nat.le_refl _⟩, ?_⟩
  intro tr htr
  rw [f.rtx] at htr
  obtain ⟨x, _, rfl⟩ := List.mem_map.1 htr
  rfl

theorem good_of_run {s s' : Sys} (hg : Good iss s) (r : PlainRun s s') (hroom : RoomH s') : Good iss s' :=
  ⟨(ext_run hg.conv hg.ext r hroom).1, (ext_run hg.conv hg.ext r hroom).2, hroom⟩

/-- **the first exchange phase from a rough state** (after both retransmission timers expired) -/
theorem phase_rough (s : Sys) (hg : Good iss s) (hf : FInv iss mt s) (ta tb : Tcb) (hc : Rough s ta tb)
    (hfa : ∀ tr ∈ ta.outgoing.retransmit, tr.needsTransmit = true)
    (hfb : ∀ tr ∈ tb.outgoing.retransmit, tr.needsTransmit = true) :
    ∃ s' ta' tb', phase s = .ok s' ∧ PlainRun s s' ∧ Good iss s' ∧ Steady s' ta' tb' ∧
      ta'.outgoing.text = ta.outgoing.text.drop (emitAmount ta) ∧
      tb'.outgoing.text = tb.outgoing.text.drop (emitAmount tb) := by
  have hsa : (s.side .A).tcb = some ta := hc.ha
  have hsb : (s.side .B).tcb = some tb := hc.hb
  -- both sides emit
  obtain ⟨newA, ta1, outA, eA, fA⟩ := segments_fwd ta (by rw [hc.a.st]; trivial) hc.a.mtu
  obtain ⟨s1, r1, st1, h1a, h1p, h1sub, _, h1len, h1new, h1old⟩ := emit_facts s .A ta ta1 outA hsa eA
  have h1b : (s1.side .B).tcb = some tb := by
    have : s1.side .B = s.side .B := h1p
    rw [this]; exact hsb
  obtain ⟨newB, tb1, outB, eB, fB⟩ := segments_fwd tb (by rw [hc.b.st]; trivial) hc.b.mtu
  obtain ⟨s2, r2, st2, h2b, h2p, h2sub, _, h2len, h2new, h2old⟩ := emit_facts s1 .B tb tb1 outB h1b eB
  have h2pa : s2.side .A = s1.side .A := h2p
  have h2a : (s2.side .A).tcb = some ta1 := by rw [h2pa]; exact h1a
  have r02 : PlainRun s s2 :=
    (PlainRun.step (op := .emit .A) (.refl _) trivial st1).trans (.step (op := .emit .B) (.refl _) trivial st2)
  have hsubA2 : (s2.side .A).submitted = (s.side .A).submitted := by rw [h2pa]; exact h1sub
  have hsubB2 : (s2.side .B).submitted = (s.side .B).submitted := by
    rw [h2sub]
    have : s1.side .B = s.side .B := h1p
    rw [this]
  have hroom2 : RoomH s2 := by
    have a := hg.room.1
    have b := hg.room.2
    exact ⟨by show (s2.side .A).submitted.length + 2 < _; rw [hsubA2]; exact a,
      by show (s2.side .B).submitted.length + 2 < _; rw [hsubB2]; exact b⟩
  have hg2 : Good iss s2 := good_of_run hg r02 hroom2
  have haA := out_shape_rough hg .A ta ta1 newA outA hsa fA
  have haB := out_shape_rough hg .B tb tb1 newB outB hsb fB
  -- each side takes the other's batch
  obtain ⟨tb2, eb2, b_st, b_heap, b_rcv, b_nxt, b_mtu, b_unf, b_text, b_lo, b_hi, b_last⟩ :=
    side_outcome_rough hg hf hg2 .B tb tb1 ta ta1 newB newA outB outA hsb hsa h2b h2a fB fA hc.b hc.a hfa
  obtain ⟨ta2, ea2, a_st, a_heap, a_rcv, a_nxt, a_mtu, a_unf, a_text, a_lo, a_hi, a_last⟩ :=
    side_outcome_rough hg hf hg2 .A ta ta1 tb tb1 newA newB outA outB hsa hsb h2a h2b fA fB hc.a hc.b hfb
  -- deliveries to B
  have hnA : ∀ j (hj : j < outA.length), s2.nth (s.historyLen + j) = some outA[j] := by
    intro j hj
    rw [h2old _ (by rw [h1len]; omega)]
    exact h1new j hj
  obtain ⟨s3, d3, r23, h3b, h3p, h3sub, _, h3len, h3nth⟩ :=
    batch_facts s2 .B s.historyLen outA tb1 tb2 h2b hnA eb2 (fun g hg' => haA g hg')
  have h3pa : s3.side .A = s2.side .A := h3p
  have h3a : (s3.side .A).tcb = some ta1 := by rw [h3pa]; exact h2a
  -- deliveries to A
  have hnB : ∀ j (hj : j < outB.length), s3.nth (s1.historyLen + j) = some outB[j] := by
    intro j hj
    rw [h3nth]
    exact h2new j hj
  obtain ⟨s4, d4, r34, h4a, h4p, h4sub, _, h4len, h4nth⟩ :=
    batch_facts s3 .A s1.historyLen outB ta1 ta2 h3a hnB ea2 (fun g hg' => haB g hg')
  have h4pb : s4.side .B = s3.side .B := h4p
  have h4b : (s4.side .B).tcb = some tb2 := by rw [h4pb]; exact h3b
  -- both applications read
  obtain ⟨s5, r5, st5, h5a, h5p, h5sub, _⟩ := read_facts s4 .A ta2 h4a a_st
  have h5pb : s5.side .B = s4.side .B := h5p
  have h5b : (s5.side .B).tcb = some tb2 := by rw [h5pb]; exact h4b
  obtain ⟨s6, r6, st6, h6b, h6p, h6sub, _⟩ := read_facts s5 .B tb2 h5b b_st
  have h6pa : s6.side .A = s5.side .A := h6p
  have h6a : (s6.side .A).tcb = some { ta2 with incoming.text := [] } := by rw [h6pa]; exact h5a
  -- the phase, as computed
  have hph : phase s = .ok s6 := by
    unfold phase
    rw [st1]
    dsimp only
    rw [st2]
    dsimp only
    have l1 : s1.historyLen - s.historyLen = outA.length := by omega
    have l2 : s2.historyLen - s1.historyLen = outB.length := by omega
    rw [l1, d3]
    dsimp only
    rw [l2, d4]
    dsimp only
    rw [st5]
    dsimp only
    rw [st6]
  have r06 : PlainRun s s6 :=
    (((r02.trans r23).trans r34).trans (.step (op := .read .A) (.refl _) trivial st5)).trans
      (.step (op := .read .B) (.refl _) trivial st6)
  have hroom6 : RoomH s6 := by
    have a := hg.room.1
    have b := hg.room.2
    have eA6 : (s6.side .A).submitted = (s.side .A).submitted := by
      rw [h6pa, h5sub, h4sub, h3pa, hsubA2]
    have eB6 : (s6.side .B).submitted = (s.side .B).submitted := by
      rw [h6sub, h5pb, h4pb, h3sub, hsubB2]
    exact ⟨by show (s6.side .A).submitted.length + 2 < _; rw [eA6]; exact a,
      by show (s6.side .B).submitted.length + 2 < _; rw [eB6]; exact b⟩
  have hg6 : Good iss s6 := good_of_run hg r06 hroom6
  -- when a side had nothing outstanding its SND.UNA already equals SND.NXT
  have lastack : ∀ (y : SideId) (t t1 t2 : Tcb) (new : List Transmit) (out : List Segment),
      (s2.side y).tcb = some t1 → EmitFx t new t1 out → t2.snd.nxt = t1.snd.nxt →
      off (iss y) t1.snd.una ≤ off (iss y) t2.snd.una → off (iss y) t2.snd.una ≤ t1.sent →
      (t.snd.una = t.snd.nxt ∧ t1.snd.nxt = t.snd.nxt) → t2.snd.una = t2.snd.nxt := by
    intro y t t1 t2 new out h1 f hn lo hi ⟨e1, e2⟩
    apply off_inj (base := iss y)
    rw [hn]
    have : t1.sent = off (iss y) t1.snd.nxt := by unfold sent; rw [hg2.iss_eq y t1 h1]
    rw [f.una, e1, ← e2] at lo
    omega
  refine ⟨s6, { ta2 with incoming.text := [] }, { tb2 with incoming.text := [] }, hph, r06, hg6,
    ⟨h6a, h6b, ?_, ?_⟩, a_text, b_text⟩
  · -- A is steady
    refine ⟨a_st, a_heap, rfl, ?_, a_unf, ?_, by show SPACE_FOR_HEADERS < ta2.mtu.toNat; rw [a_mtu]; exact hc.a.mtu⟩
    · show tb2.rcv.nxt = ta2.snd.nxt
      rw [b_rcv, a_nxt]
    · show ta2.snd.una = ta2.snd.nxt ∨ ∃ h, tb2.outgoing.oneshot.getLast? = some h ∧ h.ack = tb2.rcv.nxt
      rcases b_last with h0 | h0
      · exact Or.inr h0
      · exact Or.inl (lastack .A ta ta1 ta2 newA outA h2a fA a_nxt a_lo a_hi h0)
  · -- B is steady
    refine ⟨b_st, b_heap, rfl, ?_, b_unf, ?_, by show SPACE_FOR_HEADERS < tb2.mtu.toNat; rw [b_mtu]; exact hc.b.mtu⟩
    · show ta2.rcv.nxt = tb2.snd.nxt
      rw [a_rcv, b_nxt]
    · show tb2.snd.una = tb2.snd.nxt ∨ ∃ h, ta2.outgoing.oneshot.getLast? = some h ∧ h.ack = ta2.rcv.nxt
      rcases a_last with h0 | h0
      · exact Or.inr h0
      · exact Or.inl (lastack .B tb tb1 tb2 newB outB h2b fB b_nxt b_lo b_hi h0)

/-- a tick of RTO + 1 in a rough state: every queue entry is flagged, nothing else but the timer changes -/
theorem tick_rough (s : Sys) (hg : Good iss s) (x : SideId) (t : Tcb) (ht : (s.side x).tcb = some t) (C : RoughX t) :
    ∃ s1 r t1, s.step (.tick x (RTO + 1)) = .ok (s1, r) ∧ PlainRun s s1 ∧ Good iss s1 ∧
      (s1.side x).tcb = some t1 ∧ s1.side x.peer = s.side x.peer ∧ Flagged t t1 := by
  have tw : t.timeouts.timeWait = none := by
    have := (hg.conv.nr.tcb x t ht).tw
    cases h : t.timeouts.timeWait with
    | none => rfl
    | some v =>
      have := this (by rw [h]; rfl)
      rw [C.st] at this; cases this
  obtain ⟨t1, e1, k1⟩ := advanceTime_expire t (RTO + 1) (by have := C.tmo; omega) tw
  have e : s.step (.tick x (RTO + 1)) = .ok (s.setSide x { s.side x with tcb := some t1 }, .tick .Ignore) := by
    simp only [Sys.step, Op.side, ht, e1]
  have r01 : PlainRun s (s.setSide x { s.side x with tcb := some t1 }) := .step (op := .tick x (RTO + 1)) (.refl _) trivial e
  have hroom : RoomH (s.setSide x { s.side x with tcb := some t1 }) := by
    have a := hg.room.1
    have b := hg.room.2
    cases x
    · exact ⟨a, b⟩
    · exact ⟨a, b⟩
  exact ⟨_, _, t1, e, r01, good_of_run hg r01 hroom, by rw [side_setSide_same], by rw [side_setSide_peer], k1⟩

/-- **from a rough state**: a fair round of `2n + 2` phases ends `Done` -/
theorem fairRound_rough (n : Nat) (s : Sys) (ta tb : Tcb) (hg : Good iss s) (hf : FInv iss mt s) (hc : Rough s ta tb)
    (wa : ta.outgoing.text.length ≤ 65535 * n) (wb : tb.outgoing.text.length ≤ 65535 * n) :
    ∃ s' ta' tb', fairRound (2 * n + 2) s = .ok s' ∧ PlainRun s s' ∧ Good iss s' ∧ Done s' ta' tb' := by
  have hsa : (s.side .A).tcb = some ta := hc.ha
  have hsb : (s.side .B).tcb = some tb := hc.hb
  obtain ⟨s1, r1, ta1, e1, p1, g1, h1a, h1p, fa⟩ := tick_rough s hg .A ta hsa hc.a
  have h1b : (s1.side .B).tcb = some tb := by
    have : s1.side .B = s.side .B := h1p
    rw [this]; exact hsb
  obtain ⟨s2, r2, tb1, e2, p2, g2, h2b, h2p, fb⟩ := tick_rough s1 g1 .B tb h1b hc.b
  have h2a : (s2.side .A).tcb = some ta1 := by
    have : s2.side .A = s1.side .A := h2p
    rw [this]; exact h1a
  obtain ⟨ca, hfa⟩ := hc.a.of_flagged fa
  obtain ⟨cb, hfb⟩ := hc.b.of_flagged fb
  have hf2 : FInv iss mt s2 := finv_run hg.conv hg.ext hf (p1.trans p2) g2.room
  obtain ⟨s3, ta3, tb3, hp3, r3, g3, st3, ta_text, tb_text⟩ := phase_rough s2 g2 hf2 ta1 tb1 ⟨h2a, h2b, ca, cb⟩ hfa hfb
  obtain ⟨s', ta', tb', hp, hr, hg', hd⟩ := phases_done n s3 ta3 tb3 g3 st3
    (by rw [ta_text, List.length_drop, fa.otext]; omega) (by rw [tb_text, List.length_drop, fb.otext]; omega)
  refine ⟨s', ta', tb', ?_, ((p1.trans p2).trans r3).trans hr, hg', hd⟩
  unfold fairRound
  rw [e1]
  dsimp only
  rw [e2]
  show phases ((2 * n + 1) + 1) s2 = _
  simp only [phases, hp3]
  exact hp

end Elvis.Tcp.Full
