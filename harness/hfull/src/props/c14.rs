//! C14: correspondence + oracle runs (sub-commands `c14-*` of hfull).
//!
//!   * `c14-dhcps` (builder codec-b): the malformed DHCP stream of hcore's `c14-dhcp`, fed to the
//!     real `DhcpServer::demux` (which lives in the `elvis` crate, hence in this binary).
//!   * `c14-dnssim` (builder codec-b): malformed DNS datagrams against the real `DnsServer` and the real
//!     `DnsClient` in a two-machine simulation (`run_internet`, so every op runs in a child process: the
//!     simulator's panic hook exits the process).  Op lines: `srv <datagram>`, `cli <name> <response>`.
//!     Op lines of c14-dhcps: `sdemux <fetch> <hex> <pool>`; `pool` = the single address the server's generator
//!     holds (`-` = exhausted), `fetch` = what `fetch_ip()` yields for that pool (for the model).
use hcommon::*;

// the generators / classification of the hcore side are shared by inclusion (elvis-core + hcommon only)
#[path = "../../../hcore/src/props/c14b.rs"]
#[allow(dead_code)]
mod codec_b;

pub fn run(args: &Args) {
    match args.prop.as_str() {
        "c14-ndl" => super::c19::run_c14_ndl(args),
        "c14-stack" | "c14-path" => super::c14s::run(args),
        "c14-dhcps" | "c14-dhcps-v0" => dhcps::run(args),
        "c14-dnssim" | "c14-dnssim-v0" => dnssim::run(args),
        _ => {
            eprintln!("hfull: {} not implemented yet", args.prop);
            std::process::exit(2);
        }
    }
}

mod dhcps {
    use super::codec_b::{classify, dec_dhcp, fail, flush_failures, ip, ipn, malformed_case, biased, Decoded, Proto, Recorder};
    use elvis::applications::DhcpServer;
    use elvis::ip_generator::{IpGenerator, IpRange};
    use elvis_core::{Control, Machine, Message, Protocol};
    use hcommon::*;
    use std::sync::Arc;

    fn pool_of(tok: &str) -> Option<IpGenerator> {
        if tok == "-" {
            Some(IpGenerator::none())
        } else {
            let n: u32 = tok.parse().ok()?;
            Some(IpGenerator::new(IpRange::new(ip(n), ip(n))))
        }
    }

    fn apply(line: &str, out: &mut Out) {
        let w: Vec<&str> = line.split_whitespace().collect();
        let ans = (|| -> Option<String> {
            let ["sdemux", fetch, h, pool] = w.as_slice() else { return None };
            let bs = unhex(h);
            let gen = pool_of(pool)?;
            // the op line must state what this pool yields (it is the model's input)
            let yields = gen.clone().fetch_ip().map(|a| ipn(a).to_string()).unwrap_or("-".into());
            if yields != *fetch {
                return None;
            }
            let server = DhcpServer::new(ip(0x7b7b7b7b), IpRange::new(ip(1), ip(1)));
            *server.ip_generator.write().unwrap() = gen;
            let before = format!("{:?}", server.ip_generator.read().unwrap());
            let decoded = dec_dhcp(&bs);
            let rec = Arc::new(Recorder::default());
            let r = catch(|| server.demux(Message::new(bs.clone()), rec.clone(), Control::new(), Machine::new().arc()));
            let sends: Vec<Vec<u8>> = rec.0.lock().map(|v| v.clone()).unwrap_or_default();
            let after = server.ip_generator.read().map(|g| format!("{:?}", g)).unwrap_or_else(|_| "poisoned".into());
            Some(match r {
                Err(p) => {
                    let (site, ident) = classify(&p);
                    out.count(&format!("sdemux.{}", site));
                    // a well-formed Discover on an exhausted pool is the code's acknowledged TODO (C15), not malformed input
                    if site != "panic:unwrap:dhcp_server_fetch_ip" {
                        fail(out, &format!("DhcpServer::demux panicked ({}) on datagram {}", site, hex(&bs)), &ident);
                    }
                    site
                }
                Ok(res) => {
                    let accepted = matches!(decoded, Decoded::Ok { .. });
                    if !accepted && (!sends.is_empty() || before != after) {
                        fail(
                            out,
                            &format!("DhcpServer::demux did not drop an undecodable datagram {} (result {:?}, {} sends, pool changed: {})", hex(&bs), res, sends.len(), before != after),
                            "demux-not-dropped dhcp-server",
                        );
                    }
                    let ans = match (res, sends.len(), &decoded) {
                        (_, 0, _) if before == after => "none".to_string(),
                        (Ok(()), 1, _) => format!("sent {}", hex(&sends[0])),
                        (Ok(()), 0, Decoded::Ok { v, .. }) => format!("released {}", v.yip),
                        (r, n, _) => format!("other {:?} {}", r, n),
                    };
                    out.count(&format!("sdemux.{}", ans.split(' ').next().unwrap_or("")));
                    ans
                }
            })
        })();
        match ans {
            Some(a) => out.line(line, &a),
            None => out.line(line, "bad-op"),
        }
        flush_failures(out);
    }

    pub fn run(args: &Args) {
        let mut out = Out::new(&args.out);
        out.max_failures = 40;
        let rule = "the malformed DHCP stream (valid packet, every truncation, every message type code, non-UTF-8 strings, field mutations, random bytes) fed to DhcpServer::demux with a one-address or an exhausted pool; oracles: no panic (except the documented exhausted-pool unwrap on a well-formed Discover), an undecodable datagram is dropped: Err, nothing sent, pool unchanged; a case is non-trivial if it saw a reply, a release and a drop; distinct = hash of the op lines";
        if let Some(rp) = &args.replay {
            out.begin_case(0);
            out.mark_nontrivial();
            for l in read_ops(rp) {
                if !l.starts_with("case ") {
                    apply(&l, &mut out);
                }
            }
            out.end_case();
            out.finish(rule);
            return;
        }
        let mut rng = Rng::new(args.seed ^ 0x5d5d_0000);
        for c in 0..args.cases {
            let mut r = rng.fork();
            out.begin_case(c);
            // case 0 of the hcore stream is the 9000-line UTF-8 table sweep; take a slice of it
            let mut ops = malformed_case(Proto::Dhcp, c, &mut r);
            if c == 0 {
                ops = ops.into_iter().step_by(7).collect();
            }
            let (mut sent, mut dropped, mut released) = (0, 0, 0);
            for op in ops {
                let Some(h) = op.split_whitespace().nth(1) else { continue };
                let pool = if r.chance(1, 8) { "-".to_string() } else { (biased(&mut r, 32) as u32).to_string() };
                let fetch = pool_of(&pool).and_then(|mut g| g.fetch_ip()).map(|a| ipn(a).to_string()).unwrap_or("-".into());
                let line = format!("sdemux {} {} {}", fetch, h, pool);
                let before = (out.hist.get("sdemux.sent").copied().unwrap_or(0), out.hist.get("sdemux.none").copied().unwrap_or(0), out.hist.get("sdemux.released").copied().unwrap_or(0));
                apply(&line, &mut out);
                sent += out.hist.get("sdemux.sent").copied().unwrap_or(0) - before.0;
                dropped += out.hist.get("sdemux.none").copied().unwrap_or(0) - before.1;
                released += out.hist.get("sdemux.released").copied().unwrap_or(0) - before.2;
            }
            if (sent > 0 && dropped > 0 && released > 0) || c == 0 {
                out.mark_nontrivial();
            }
            out.end_case();
        }
        out.finish(rule);
    }
}

/// Full-stack DNS: what the real DnsServer / DnsClient do with an arbitrary datagram.
mod dnssim {
    use super::codec_b::{dl, fail, flush_failures, spec_dns, utf8_table, DnsV};
    use elvis_core::protocol::{DemuxError, StartError};
    use elvis_core::protocols::dns::{dns_client::DnsClient, dns_server::DnsServer};
    use elvis_core::protocols::ipv4::{Ipv4, Ipv4Address, Recipient};
    use elvis_core::protocols::socket_api::socket::{ProtocolFamily, SocketType};
    use elvis_core::protocols::{tcp::Tcp, udp::Udp, Arp, Endpoint, Pci, SocketAPI};
    use elvis_core::{new_machine_arc, run_internet_with_timeout, Control, ExitStatus, IpTable, Machine, Message, Network, Protocol, Session, Shutdown};
    use hcommon::*;
    use std::sync::{Arc, Mutex};
    use std::time::Duration;
    use tokio::sync::Barrier;

    type Slot = Arc<Mutex<Option<String>>>;

    /// sends one datagram to the DNS server and reports what comes back
    struct Prober {
        payload: Vec<u8>,
        result: Slot,
    }
    #[async_trait::async_trait]
    impl Protocol for Prober {
        async fn start(&self, shutdown: Shutdown, initialized: Arc<Barrier>, machine: Arc<Machine>) -> Result<(), StartError> {
            let sockets = machine.protocol::<SocketAPI>().unwrap();
            let mut socket = sockets.new_socket(ProtocolFamily::INET, SocketType::Datagram, machine).await.unwrap();
            initialized.wait().await;
            socket.connect(Endpoint::new(Ipv4Address::DNS_AUTH, 53)).await.unwrap();
            socket.send(self.payload.clone()).unwrap();
            let r = tokio::time::timeout(Duration::from_millis(300), socket.recv_msg()).await;
            *self.result.lock().unwrap() = Some(match r {
                Ok(Ok(m)) => format!("reply {}", hex(&m.to_vec())),
                _ => "noreply".to_string(),
            });
            shutdown.shut_down_with_status(ExitStatus::Status(7));
            Ok(())
        }
        fn demux(&self, _m: Message, _c: Arc<dyn Session>, _k: Control, _ma: Arc<Machine>) -> Result<(), DemuxError> {
            Ok(())
        }
    }

    /// answers the first datagram on port 53 with fixed bytes (`None`: reads it and never answers)
    struct FakeDns {
        response: Option<Vec<u8>>,
    }

    /// ends the simulation after a while (the resolver may be left waiting for an answer that never comes)
    struct Stopper;
    #[async_trait::async_trait]
    impl Protocol for Stopper {
        async fn start(&self, shutdown: Shutdown, initialized: Arc<Barrier>, _machine: Arc<Machine>) -> Result<(), StartError> {
            initialized.wait().await;
            tokio::time::sleep(Duration::from_millis(500)).await;
            shutdown.shut_down_with_status(ExitStatus::Status(8));
            Ok(())
        }
        fn demux(&self, _m: Message, _c: Arc<dyn Session>, _k: Control, _ma: Arc<Machine>) -> Result<(), DemuxError> {
            Ok(())
        }
    }
    #[async_trait::async_trait]
    impl Protocol for FakeDns {
        async fn start(&self, _shutdown: Shutdown, initialized: Arc<Barrier>, machine: Arc<Machine>) -> Result<(), StartError> {
            let sockets = machine.protocol::<SocketAPI>().unwrap();
            let mut listen = sockets.new_socket(ProtocolFamily::INET, SocketType::Datagram, machine).await.unwrap();
            listen.bind(Endpoint::new(Ipv4Address::from([0, 0, 0, 0]), 53)).unwrap();
            listen.listen(10).unwrap();
            initialized.wait().await;
            if let Ok(mut s) = listen.accept().await {
                if s.recv_msg().await.is_ok() {
                    if let Some(r) = &self.response {
                        let _ = s.send(r.clone());
                    }
                }
                // keep the socket alive until the simulation ends
                tokio::time::sleep(Duration::from_millis(2000)).await;
            }
            Ok(())
        }
        fn demux(&self, _m: Message, _c: Arc<dyn Session>, _k: Control, _ma: Arc<Machine>) -> Result<(), DemuxError> {
            Ok(())
        }
    }

    /// asks the machine's DnsClient for a name and reports what it returns
    struct Resolver {
        name: String,
        result: Slot,
    }
    #[async_trait::async_trait]
    impl Protocol for Resolver {
        async fn start(&self, shutdown: Shutdown, initialized: Arc<Barrier>, machine: Arc<Machine>) -> Result<(), StartError> {
            initialized.wait().await;
            let dns = machine.protocol::<DnsClient>().unwrap();
            // no timeout around the call: when no answer comes the resolver is still inside `recv_msg` at shutdown
            let r = dns.get_host_by_name(self.name.clone(), machine.clone()).await;
            *self.result.lock().unwrap() = Some(match r {
                Ok(ip) => format!("ip {}", u32::from_be_bytes(ip.to_bytes())),
                Err(_) => "err".to_string(),
            });
            shutdown.shut_down_with_status(ExitStatus::Status(7));
            Ok(())
        }
        fn demux(&self, _m: Message, _c: Arc<dyn Session>, _k: Control, _ma: Arc<Machine>) -> Result<(), DemuxError> {
            Ok(())
        }
    }

    /// child process: run ONE op in a fresh simulation, print its outcome; a panic anywhere exits with code 1
    /// through the panic hook `run_internet` installs (that is the behaviour under test)
    pub fn child(op: &str) {
        // `run_internet` wraps the hook installed here: it calls it first, then captures a backtrace (slow) and
        // exits with code 1.  This hook reports the panic location and exits at once (code 101), so that the
        // verdict "a panic ended the process" does not race with the end of the simulation.
        std::panic::set_hook(Box::new(|info| {
            let (f, l, c) = info.location().map(|l| (l.file().to_string(), l.line(), l.column())).unwrap_or(("?".into(), 0, 0));
            eprintln!("panicked at {}:{}:{}:", f, l, c);
            std::process::exit(101);
        }));
        let w: Vec<&str> = op.split_whitespace().collect();
        // virtual time: the timeouts below are exact and independent of machine load
        let rt = tokio::runtime::Builder::new_current_thread().enable_all().start_paused(true).build().unwrap();
        let result: Slot = Default::default();
        let network = Network::basic();
        let ip_table: IpTable<Recipient> = [("0.0.0.0/0", Recipient::new(0, None))].into_iter().collect();
        let client_ip: Ipv4Address = [123, 45, 67, 60].into();
        let machines = match w.as_slice() {
            ["srv", h] => vec![
                new_machine_arc![
                    Udp::new(),
                    Tcp::new(),
                    Ipv4::new(ip_table.clone()),
                    Arp::new(),
                    Pci::new([network.clone()]),
                    SocketAPI::new(Some(Ipv4Address::DNS_AUTH)),
                    DnsServer::new(1),
                ],
                new_machine_arc![
                    Udp::new(),
                    Tcp::new(),
                    Ipv4::new(ip_table.clone()),
                    Arp::new(),
                    Pci::new([network.clone()]),
                    SocketAPI::new(Some(client_ip)),
                    Prober { payload: unhex(h), result: result.clone() },
                ],
            ],
            ["cli", n, h] => vec![
                new_machine_arc![
                    Udp::new(),
                    Tcp::new(),
                    Ipv4::new(ip_table.clone()),
                    Arp::new(),
                    Pci::new([network.clone()]),
                    SocketAPI::new(Some(Ipv4Address::DNS_AUTH)),
                    FakeDns { response: if *h == "noreply" { None } else { Some(unhex(h)) } },
                ],
                new_machine_arc![
                    Udp::new(),
                    Tcp::new(),
                    Ipv4::new(ip_table.clone()),
                    Arp::new(),
                    Pci::new([network.clone()]),
                    SocketAPI::new(Some(client_ip)),
                    DnsClient::new(),
                    Resolver { name: String::from_utf8(unhex(n)).unwrap_or_default(), result: result.clone() },
                    Stopper,
                ],
            ],
            _ => {
                println!("OUTCOME bad-op");
                return;
            }
        };
        let status = rt.block_on(run_internet_with_timeout(&machines, Duration::from_secs(3)));
        // a task that was woken by the shutdown may still be finishing (or panicking: the hook then exits)
        for _ in 0..30 {
            if result.lock().unwrap().is_some() {
                break;
            }
            std::thread::sleep(Duration::from_millis(10));
        }
        let r = result.lock().unwrap().clone().unwrap_or_else(|| format!("no-result {:?}", status));
        println!("OUTCOME {}", r);
        // do not wait for runtime shutdown (tasks may be parked on sockets)
        std::process::exit(0);
    }

    fn classify_stderr(stderr: &str) -> (String, String) {
        // "thread '…' panicked at <file>:<line>:<col>:" — the FIRST panic is the one that killed the process
        for l in stderr.lines() {
            if let Some(pos) = l.find("panicked at ") {
                let loc = l[pos + 12..].trim().trim_end_matches(':');
                let mut parts = loc.rsplitn(3, ':');
                let _col = parts.next();
                let line: u32 = parts.next().and_then(|x| x.parse().ok()).unwrap_or(0);
                let file = parts.next().unwrap_or("?").to_string();
                let text = source_line_text(&file, line);
                let base = file.rsplit('/').next().unwrap_or("").to_string();
                let site = match (base.as_str(), text.as_str()) {
                    ("dns_server.rs", t) if t.starts_with("let req_msg = DnsMessage::from_bytes(") && t.contains(".unwrap()") => "panic:unwrap:dns_server_from_bytes".to_string(),
                    ("dns_server.rs", t) if t.starts_with("let name = req_msg.question.query_name().unwrap()") => "panic:unwrap:dns_server_query_name".to_string(),
                    ("dns_server.rs", t) if t.starts_with("DnsServer::respond_to_query(table, socket).await.unwrap()") => "panic:unwrap:dns_server_task".to_string(),
                    ("dns_server.rs", t) if t.starts_with("let response = socket.recv(80).await.unwrap()") => "panic:unwrap:dns_server_recv".to_string(),
                    ("dns_client.rs", t) if t.starts_with("let resp = socket.recv_msg().await.unwrap()") => "panic:unwrap:dns_client_recv".to_string(),
                    ("dns_client.rs", t) if t.starts_with("let res_msg = DnsMessage::from_bytes(resp.iter()).unwrap()") => "panic:unwrap:dns_client_from_bytes".to_string(),
                    ("dns_client.rs", t) if t.starts_with("let name_to_add = String::from_utf8(res_msg.answer.name).unwrap()") => "panic:unwrap:dns_client_answer_name".to_string(),
                    ("dns_client.rs", t) if t.starts_with("let ip_to_add = Ipv4Address::new([rdata[0]") => "panic:index:dns_client_rdata".to_string(),
                    ("dns_client.rs", t) if t.starts_with("Ok(self.get_mapping(&name).unwrap())") => "panic:unwrap:dns_client_get_mapping".to_string(),
                    ("dns_parsing.rs", t) if t.starts_with("let name = String::from_utf8(self.qname.clone()).unwrap()") => "panic:unwrap:dns_query_name".to_string(),
                    _ => format!("panic:other:{}:{}", base, text.replace(' ', "_")),
                };
                return (site, format!("panic {} {}", base, text));
            }
        }
        ("panic:other:unknown".to_string(), "panic unknown".to_string())
    }

    /// run one op in a child process: (answer, Some((what, ident)) if the process died)
    fn exec(line: &str) -> (String, Option<(String, String)>) {
        let exe = std::env::current_exe().unwrap();
        let o = std::process::Command::new(exe).arg("c14-dnssim").arg("--child").arg(line).output();
        match o {
            Err(e) => (format!("spawn-failed {}", e), None),
            Ok(o) => {
                let stdout = String::from_utf8_lossy(&o.stdout);
                let outcome = stdout.lines().rev().find_map(|l| l.strip_prefix("OUTCOME ")).map(|s| s.to_string());
                match (o.status.code(), outcome) {
                    (Some(0), Some(r)) => (r, None),
                    _ => {
                        let (site, ident) = classify_stderr(&String::from_utf8_lossy(&o.stderr));
                        let what = format!("the simulation process died ({}) on `{}`", site, &line[..line.len().min(300)]);
                        (site, Some((what, ident)))
                    }
                }
            }
        }
    }

    /// execute a batch of op lines (children run concurrently, results are recorded in op order)
    fn apply_all(lines: &[String], out: &mut Out) {
        let results: Vec<(String, Option<(String, String)>)> = std::thread::scope(|sc| {
            let hs: Vec<_> = lines.iter().map(|l| sc.spawn(move || exec(l))).collect();
            hs.into_iter().map(|h| h.join().unwrap_or(("thread-failed".into(), None))).collect()
        });
        for (line, (ans, failure)) in lines.iter().zip(results) {
            out.count(&format!("sim.{}", ans.split(' ').next().unwrap_or("")));
            out.line(line, &ans);
            if let Some((what, ident)) = failure {
                fail(out, &what, &ident);
            }
            flush_failures(out);
        }
    }

    fn base(rng: &mut Rng, name: &[u8]) -> DnsV {
        DnsV {
            hdr: [rng.next() as u16, 0, 0, 0, 0, 0],
            qname: name.to_vec(),
            qtype: 1,
            qclass: 1,
            name: name.to_vec(),
            rtype: 1,
            class: 1,
            ttl: rng.next() as u32,
            rdlength: 4,
            rdata: rng.bytes(4),
        }
    }

    fn gen_ops(rng: &mut Rng) -> Vec<String> {
        let names: [&[u8]; 4] = [b"google.com", b"testserver.com", b"x", b"nosuchname.org"];
        let table = utf8_table();
        let not_delim = |v: Vec<u8>| -> Vec<u8> { v.into_iter().map(|x| if x == dl() { b'_' } else { x }).collect() };
        let mut ops = vec![];
        let name = *rng.pick(&names);
        // --- server side
        let q = base(rng, name);
        let b = spec_dns(&q);
        ops.push(format!("srv {}", hex(&b)));
        let n = rng.below(b.len() as u64) as usize;
        ops.push(format!("srv {}", hex(&b[..n])));
        let mut w = q.clone();
        w.qname = not_delim(rng.pick(&table).clone());
        ops.push(format!("srv {}", hex(&spec_dns(&w))));
        let mut w = q.clone();
        w.rdlength = *rng.pick(&[0u16, 3, 5, 0xffff]);
        ops.push(format!("srv {}", hex(&spec_dns(&w))));
        let n = rng.below(40) as usize + 1;
        ops.push(format!("srv {}", hex(&rng.bytes(n))));
        // --- client side: the response is whatever the (fake) server says
        let mut r = base(rng, name);
        r.hdr[1] = 0x8000;
        let good = spec_dns(&r);
        ops.push(format!("cli {} {}", hex(name), hex(&good)));
        let n = rng.below(good.len() as u64) as usize;
        ops.push(format!("cli {} {}", hex(name), hex(&good[..n])));
        let mut w = r.clone();
        w.name = not_delim(rng.pick(&table).clone());
        ops.push(format!("cli {} {}", hex(name), hex(&spec_dns(&w))));
        let mut w = r.clone();
        let l = rng.below(4) as usize;
        w.rdata.truncate(l);
        w.rdlength = l as u16;
        ops.push(format!("cli {} {}", hex(name), hex(&spec_dns(&w))));
        let mut w = r.clone();
        w.name = b"other.example".to_vec();
        ops.push(format!("cli {} {}", hex(name), hex(&spec_dns(&w))));
        let mut w = r.clone();
        w.rdata = rng.bytes(9);
        w.rdlength = 9;
        ops.push(format!("cli {} {}", hex(name), hex(&spec_dns(&w))));
        let n = rng.below(40) as usize + 1;
        ops.push(format!("cli {} {}", hex(name), hex(&rng.bytes(n))));
        if rng.chance(1, 4) {
            ops.push(format!("cli {} noreply", hex(name)));
            ops.push("srv -".to_string());
        }
        ops
    }

    pub fn run(args: &Args) {
        if let Some(op) = args.extra.get("child") {
            // (parse_args reads `--child <op>` as one key/value pair; the op line is a single argument)
            child(op);
            return;
        }
        let mut out = Out::new(&args.out);
        out.max_failures = 40;
        let rule = "two-machine simulations (run_internet, one child process per op): `srv` sends one datagram (valid query for a known/unknown name, truncation, non-UTF-8 query name, inconsistent rdlength, random bytes) to the real DnsServer and records the reply; `cli` lets the real DnsClient resolve a name against a fake server that answers with the given bytes (valid answer, truncation, non-UTF-8 answer name, record shorter/longer than 4 bytes, answer for another name, random bytes); oracle: the process survives (no panic reaches the simulator's exit-on-panic hook); a case is non-trivial if it saw a reply, an address and a rejection; distinct = hash of the op lines";
        if let Some(rp) = &args.replay {
            out.begin_case(0);
            out.mark_nontrivial();
            let ls: Vec<String> = read_ops(rp).into_iter().filter(|l| !l.starts_with("case ")).collect();
            for chunk in ls.chunks(6) {
                apply_all(chunk, &mut out);
            }
            out.end_case();
            out.finish(rule);
            return;
        }
        let mut rng = Rng::new(args.seed ^ 0xd25_0000);
        for c in 0..args.cases {
            let mut r = rng.fork();
            out.begin_case(c);
            for chunk in gen_ops(&mut r).chunks(6) {
                apply_all(chunk, &mut out);
            }
            out.mark_nontrivial();
            out.end_case();
        }
        out.finish(rule);
    }
}
