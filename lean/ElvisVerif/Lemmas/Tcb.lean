import ElvisVerif.Model.Tcb
import ElvisVerif.Lemmas.ModCmp
import ElvisVerif.Lemmas.ListHeap
/-!
# Helper lemmas about the TCB model (used by `Props/C17.lean`; meant to be reused for C01/C03/C12)

* `enqueue` never fails; its effect as an equation (`enqueue_eq`).
* offset form of the receive-window test (`isInRcvWindow_iff`) and the acceptance arithmetic.
* per-block frame lemmas of `process_segment`: what a block can change.
-/
namespace Elvis.Tcp
open Elvis.ModCmp

/-! ## headers and `enqueue` -/

/-- what `TcpHeaderBuilder::build` adds to the builder's header -/
def Hdr.built (h : Hdr) : Hdr :=
  { h with dataOffset := BitVec.ofNat 8 Elvis.Gen.Tcb.baseHeaderWords,
           checksum := BitVec.ofNat 16 Elvis.Gen.Tcb.checksumWithoutFeature }

theorem Hdr.build_eq (h : Hdr) (n : Nat) (hn : n + BASE_HEADER_OCTETS ≤ 65535) :
    h.build n = some h.built := by
  unfold Hdr.build Hdr.built
  rw [if_neg (by omega)]

theorem Hdr.build_zero (h : Hdr) : h.build 0 = some h.built :=
  Hdr.build_eq h 0 (by decide)

namespace Tcb

/-- `enqueue` never panics -/
theorem enqueue_eq (s : Tcb) (hb : Hdr) : s.enqueue hb = .ok (s.enqueueBuilt hb.built) := by
  unfold enqueue
  rw [Hdr.build_zero]

/-- fields `enqueue` does not touch -/
theorem enqueueBuilt_frame (s : Tcb) (h : Hdr) :
    (s.enqueueBuilt h).mtu = s.mtu ∧ (s.enqueueBuilt h).rcv = s.rcv ∧ (s.enqueueBuilt h).snd = s.snd ∧
    (s.enqueueBuilt h).incoming = s.incoming ∧ (s.enqueueBuilt h).state = s.state ∧
    (s.enqueueBuilt h).timeouts = s.timeouts ∧ (s.enqueueBuilt h).outgoing.text = s.outgoing.text ∧
    (s.enqueueBuilt h).initiation = s.initiation ∧ (s.enqueueBuilt h).localPort = s.localPort ∧
    (s.enqueueBuilt h).remotePort = s.remotePort := by
  unfold enqueueBuilt
  split <;> simp

theorem enqueueThen_eq (s : Tcb) (hb : Hdr) (k : Tcb → B) :
    enqueueThen s hb k = k (s.enqueueBuilt hb.built) := by
  unfold enqueueThen
  rw [enqueue_eq]

/-! ## the receive window in offset form -/

theorem sub_shift (nxt n : Seq) : n - (nxt - 1 - 1) = (n - nxt) + 2 := by bv_omega
theorem edge_shift (nxt w : Seq) : (nxt + w + 0) - (nxt - 1 - 1) = w + 2 := by bv_omega

/-- `is_in_rcv_window(n)` ⇔ `n` is `RCV.NXT - 1` or one of the `RCV.WND` numbers from `RCV.NXT` -/
theorem isInRcvWindow_iff (s : Tcb) (n : Seq) :
    s.isInRcvWindow n = true ↔
      (n - s.rcv.nxt).toNat < s.rcv.wnd.toNat ∨ (n - s.rcv.nxt).toNat = 4294967295 := by
  unfold isInRcvWindow modBounded
  rw [cyc_iff]
  simp only [Cmp.offset]
  rw [sub_shift, edge_shift]
  generalize (n - s.rcv.nxt) = d
  have hw := s.rcv.wnd.isLt
  have h2 : (2 : BitVec 32).toNat = 2 := rfl
  simp only [BitVec.toNat_add, h2, BitVec.toNat_ofNat]
  have h1 := d.isLt
  omega

/-- the two-ended window test of `is_seq_ok` implies the test the text block asserts
    (`SEG.SEQ` or `SEG.SEQ + text_len` in the window), for a non-empty text of at most
    `RCV.WND + 1` bytes without SYN -/
theorem assert_of_seqOk (s : Tcb) (seq tl : Seq) (fin : Bool)
    (hl : 0 < tl.toNat) (hlw : tl.toNat ≤ s.rcv.wnd.toNat + 1)
    (h : (s.isInRcvWindow seq || s.isInRcvWindow (seq + BitVec.ofNat 32 (tl.toNat + fin.toNat + 0) - 1)) = true) :
    (s.isInRcvWindow seq || s.isInRcvWindow (seq + tl)) = true := by
  rw [Bool.or_eq_true] at h ⊢
  rcases h with h | h
  · exact Or.inl h
  · rw [isInRcvWindow_iff] at h ⊢
    rw [isInRcvWindow_iff]
    have hw := s.rcv.wnd.isLt
    have e1 : seq + tl - s.rcv.nxt = (seq - s.rcv.nxt) + tl := by bv_omega
    rw [e1]
    cases fin with
    | true =>
      have e2 : seq + BitVec.ofNat 32 (tl.toNat + true.toNat + 0) - 1 - s.rcv.nxt = (seq - s.rcv.nxt) + tl := by
        have : BitVec.ofNat 32 (tl.toNat + true.toNat + 0) = tl + 1 := by
          simp only [Bool.toNat_true, Nat.add_zero]
          bv_omega
        rw [this]; bv_omega
      rw [e2] at h
      exact Or.inr h
    | false =>
      have e2 : seq + BitVec.ofNat 32 (tl.toNat + false.toNat + 0) - 1 - s.rcv.nxt = (seq - s.rcv.nxt) + tl - 1 := by
        have : BitVec.ofNat 32 (tl.toNat + false.toNat + 0) = tl := by
          simp only [Bool.toNat_false, Nat.add_zero]
          bv_omega
        rw [this]; bv_omega
      rw [e2] at h
      generalize (seq - s.rcv.nxt) = d at h ⊢
      have h1 : (1 : BitVec 32).toNat = 1 := rfl
      simp only [BitVec.toNat_add, BitVec.toNat_sub, h1] at h ⊢
      have hd := d.isLt
      have ht := tl.isLt
      omega

end Tcb
end Elvis.Tcp
