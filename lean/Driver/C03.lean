import Driver.Common
/-! Line-protocol handlers for C03 (sub-commands `c03` / `c03-*`). -/
namespace Driver.C03

def dispatch (_sub : String) (_i _o : IO.FS.Stream) : Option (IO Unit) := none

end Driver.C03
