import ElvisVerif.Lemmas.NdlTree
/-!
# NDL normalisation (`\r` dropped, every run of four spaces → tab) on rendered descriptions

All three layouts of a description whose keys and values contain no `\r` and no run of four
spaces (`CalmSim`) normalise to the tab layout.
-/
namespace Elvis.Ndl

/-- no run of four spaces, given `k` spaces immediately before the text -/
def quadFree : Nat → Text → Bool
  | _, [] => true
  | k, c :: r => if c = ' ' then (decide (k < 3) && quadFree (k + 1) r) else quadFree 0 r

/-- arguments the normalisation leaves alone: no `\r`, no run of four spaces (a key is written
    right after one space) -/
def CalmParams (ps : Params) : Prop :=
  ∀ kv ∈ ps, quadFree 1 kv.1 = true ∧ quadFree 0 kv.2 = true ∧ '\r' ∉ kv.1 ∧ '\r' ∉ kv.2

/-! ### the lines of a description -/

abbrev LineSpec := Nat × DecType × Params

def leafLines (d : Nat) (ls : List Leaf) : List LineSpec := ls.map fun l => (d, l.dectype, l.options)

def Network.lineList (n : Network) : List LineSpec := (1, .network, n.options) :: leafLines 2 n.ip

def Machine.lineList (m : Machine) : List LineSpec :=
  (1, .machine, m.options) :: ((2, .networks, []) :: (leafLines 3 m.networks ++
  ((2, .protocols, []) :: (leafLines 3 m.protocols ++
  ((2, .applications, []) :: leafLines 3 m.applications)))))

def Sim.lineList (s : Sim) : List LineSpec :=
  (0, .networks, []) :: ((s.networks.flatMap fun e => e.2.lineList) ++
  ((0, .machines, []) :: s.machines.flatMap (·.lineList)))

def linesText (lay : Layout) (ls : List LineSpec) : Text := ls.flatMap fun x => line lay x.1 x.2.1 x.2.2

theorem linesText_append (lay : Layout) (a b : List LineSpec) :
    linesText lay (a ++ b) = linesText lay a ++ linesText lay b := by simp [linesText]

theorem linesText_cons (lay : Layout) (x : LineSpec) (b : List LineSpec) :
    linesText lay (x :: b) = line lay x.1 x.2.1 x.2.2 ++ linesText lay b := by simp [linesText]

theorem renderLeaves_lines (lay : Layout) (d : Nat) (ls : List Leaf) :
    renderLeaves lay d ls = linesText lay (leafLines d ls) := by
  simp [renderLeaves, linesText, leafLines, List.flatMap_map]

theorem renderNetwork_lines (lay : Layout) (n : Network) :
    renderNetwork lay n = linesText lay n.lineList := by
  simp [renderNetwork, Network.lineList, linesText_cons, renderLeaves_lines]

theorem renderMachine_lines (lay : Layout) (m : Machine) :
    renderMachine lay m = linesText lay m.lineList := by
  simp [renderMachine, Machine.lineList, linesText_cons, linesText_append, renderLeaves_lines]

theorem linesText_flatMap {α : Type} (lay : Layout) (f : α → List LineSpec) (l : List α) :
    linesText lay (l.flatMap f) = l.flatMap fun a => linesText lay (f a) := by
  induction l with
  | nil => simp [linesText]
  | cons a l ih => simp [linesText_append, ih]

theorem render_lines (lay : Layout) (s : Sim) : render lay s = linesText lay s.lineList := by
  have hm : renderMachine lay = fun a => linesText lay a.lineList := funext (renderMachine_lines lay)
  simp [render, Sim.lineList, linesText_cons, linesText_append, linesText_flatMap,
    renderNetwork_lines, hm]

/-- every argument list written in the description is calm -/
def CalmSim (s : Sim) : Prop := ∀ x ∈ s.lineList, CalmParams x.2.2

/-! ### dropping `\r` -/

theorem dropCR_append (a b : Text) : dropCR (a ++ b) = dropCR a ++ dropCR b := by simp [dropCR]

theorem dropCR_self (t : Text) (h : '\r' ∉ t) : dropCR t = t := by
  unfold dropCR
  rw [List.filter_eq_self]
  intro c hc
  simp only [ne_eq, decide_eq_true_eq]
  intro he; exact h (he ▸ hc)

theorem name_no_cr (dt : DecType) : '\r' ∉ dt.name := by cases dt <;> decide

theorem renderArgs_no_cr : ∀ (ps : Params), CalmParams ps → '\r' ∉ renderArgs ps
  | [], _ => by simp [renderArgs]
  | (k, v) :: ps, h => by
    rw [renderArgs_cons]
    have hkv := h (k, v) List.mem_cons_self
    have ih := renderArgs_no_cr ps (fun kv hkv => h kv (List.mem_cons_of_mem _ hkv))
    simp only [List.mem_cons, List.mem_append, not_or]
    exact ⟨by decide, hkv.2.2.1, by decide, by decide, hkv.2.2.2, by decide, ih⟩

theorem renderLine_no_cr (dt : DecType) (ps : Params) (h : CalmParams ps) : '\r' ∉ renderLine dt ps := by
  rw [renderLine_cons]
  simp only [List.mem_cons, List.mem_append, not_or, List.not_mem_nil, or_false]
  exact ⟨by decide, name_no_cr dt, renderArgs_no_cr ps h, by decide⟩

/-- the layout `dropCR` turns a layout into -/
def Layout.noCR : Layout → Layout
  | .crlf => .tabs
  | l => l

theorem dropCR_line (lay : Layout) (d : Nat) (dt : DecType) (ps : Params) (h : CalmParams ps) :
    dropCR (line lay d dt ps) = line lay.noCR d dt ps := by
  unfold line
  rw [dropCR_append, dropCR_append, dropCR_self _ (renderLine_no_cr dt ps h)]
  cases lay <;> simp [indent, eol, Layout.noCR, dropCR]

theorem dropCR_lines (lay : Layout) : ∀ (ls : List LineSpec), (∀ x ∈ ls, CalmParams x.2.2) →
    dropCR (linesText lay ls) = linesText lay.noCR ls
  | [], _ => by simp [linesText, dropCR]
  | x :: ls, h => by
    rw [linesText_cons, linesText_cons, dropCR_append, dropCR_line lay _ _ _ (h x List.mem_cons_self),
      dropCR_lines lay ls (fun y hy => h y (List.mem_cons_of_mem _ hy))]

/-! ### four spaces → tab -/

theorem replicate_succ_space (k : Nat) (t : Text) :
    List.replicate (k + 1) ' ' ++ t = List.replicate k ' ' ++ ' ' :: t := by
  rw [List.replicate_succ']; simp

/-- a calm stretch followed by a non-space character passes through the scanner unchanged -/
theorem fourSpFrom_calm : ∀ (a : Text) (k : Nat) (c : Char) (t : Text), quadFree k a = true → c ≠ ' ' →
    fourSpFrom k (a ++ c :: t) = List.replicate k ' ' ++ (a ++ c :: fourSpFrom 0 t)
  | [], k, c, t, _, hc => by simp [fourSpFrom, hc]
  | x :: a, k, c, t, hq, hc => by
    simp only [quadFree] at hq
    simp only [List.cons_append, fourSpFrom]
    split
    · rename_i hx
      simp only [hx, if_true, Bool.and_eq_true, decide_eq_true_eq] at hq
      have hk : k ≠ 3 := by omega
      simp only [hk, if_false]
      rw [fourSpFrom_calm a (k + 1) c t hq.2 hc, replicate_succ_space, hx]
    · rename_i hx
      simp only [hx, if_false] at hq
      rw [fourSpFrom_calm a 0 c t hq hc]
      simp

theorem quadFree_append : ∀ (a : Text) (k : Nat) (c : Char) (b : Text), c ≠ ' ' →
    quadFree k (a ++ c :: b) = (quadFree k a && quadFree 0 b)
  | [], k, c, b, hc => by simp [quadFree, hc]
  | x :: a, k, c, b, hc => by
    simp only [List.cons_append, quadFree]
    split
    · rw [quadFree_append a (k + 1) c b hc, Bool.and_assoc]
    · exact quadFree_append a 0 c b hc

theorem quadFree_no_space : ∀ (t : Text) (k : Nat), ' ' ∉ t → quadFree k t = true
  | [], _, _ => rfl
  | c :: r, k, h => by
    simp only [List.mem_cons, not_or] at h
    have hc : c ≠ ' ' := fun e => h.1 e.symm
    simp only [quadFree, hc, if_false]
    exact quadFree_no_space r 0 h.2

theorem quadFree_nonspace (c : Char) (t : Text) (k : Nat) (hc : c ≠ ' ') :
    quadFree k (c :: t) = quadFree 0 t := by simp [quadFree, hc]

theorem name_no_space (dt : DecType) : ' ' ∉ dt.name := by cases dt <;> decide

theorem renderArgs_quadFree : ∀ (ps : Params), CalmParams ps → quadFree 0 (renderArgs ps ++ [']']) = true
  | [], _ => by decide
  | (k, v) :: ps, h => by
    rw [renderArgs_cons]
    have hkv := h (k, v) List.mem_cons_self
    have ih := renderArgs_quadFree ps (fun kv hkv => h kv (List.mem_cons_of_mem _ hkv))
    have e1 : (' ' :: (k ++ '=' :: '\'' :: (v ++ '\'' :: renderArgs ps))) ++ [']'] =
        (' ' :: k) ++ '=' :: ('\'' :: ((v ++ '\'' :: (renderArgs ps ++ [']'])))) := by simp
    rw [e1, quadFree_append _ _ '=' _ (by decide), quadFree_nonspace '\'' _ _ (by decide),
      quadFree_append _ _ '\'' _ (by decide), ih]
    have : quadFree 0 (' ' :: k) = quadFree 1 k := by simp [quadFree]
    rw [this, hkv.1, hkv.2.1]; rfl

theorem renderLine_quadFree (d : Nat) (dt : DecType) (ps : Params) (h : CalmParams ps) :
    quadFree 0 (List.replicate d '\t' ++ renderLine dt ps) = true := by
  rw [renderLine_cons]
  have e1 : List.replicate d '\t' ++ '[' :: (dt.name ++ (renderArgs ps ++ [']'])) =
      List.replicate d '\t' ++ '[' :: (dt.name ++ (renderArgs ps ++ [']'])) := rfl
  rw [quadFree_append _ _ '[' _ (by decide)]
  have h1 : quadFree 0 (List.replicate d '\t') = true :=
    quadFree_no_space _ _ (by intro hm; have := List.eq_of_mem_replicate hm; exact absurd this (by decide))
  rw [h1, Bool.true_and]
  cases hps : renderArgs ps ++ [']'] with
  | nil => simp at hps
  | cons c r =>
    -- the name carries no space; the arguments start with a space or are just `]`
    have hq := renderArgs_quadFree ps h
    rw [hps] at hq
    have hname : ∀ (n : Text) (k : Nat), ' ' ∉ n → quadFree k (n ++ c :: r) = quadFree 0 (c :: r) ∨ n = [] := by
      intro n k hn
      induction n generalizing k with
      | nil => exact .inr rfl
      | cons x n ih =>
        left
        simp only [List.mem_cons, not_or] at hn
        have hx : x ≠ ' ' := fun e => hn.1 e.symm
        simp only [List.cons_append, quadFree, hx, if_false]
        rcases ih 0 hn.2 with h | h
        · exact h
        · subst h; rfl
    rcases hname dt.name 0 (name_no_space dt) with h | h
    · rw [h, hq]
    · cases dt <;> simp [DecType.name] at h

theorem fourSp_spaces (d : Nat) (t : Text) :
    fourSpFrom 0 (List.replicate (4 * d) ' ' ++ t) = List.replicate d '\t' ++ fourSpFrom 0 t := by
  induction d with
  | zero => simp
  | succ n ih =>
    have : 4 * (n + 1) = 4 * n + 4 := by omega
    rw [this]
    simp only [List.replicate_succ, List.cons_append, fourSpFrom, if_true]
    simp [ih]

theorem fourSp_line_tabs (d : Nat) (dt : DecType) (ps : Params) (h : CalmParams ps) (more : Text) :
    fourSpFrom 0 (line .tabs d dt ps ++ more) = line .tabs d dt ps ++ fourSpFrom 0 more := by
  have := fourSpFrom_calm (List.replicate d '\t' ++ renderLine dt ps) 0 '\n' more
    (renderLine_quadFree d dt ps h) (by decide)
  simpa [line, indent, eol] using this

theorem fourSp_line_spaces (d : Nat) (dt : DecType) (ps : Params) (h : CalmParams ps) (more : Text) :
    fourSpFrom 0 (line .spaces d dt ps ++ more) = line .tabs d dt ps ++ fourSpFrom 0 more := by
  have h0 := renderLine_quadFree 0 dt ps h
  simp only [List.replicate_zero, List.nil_append] at h0
  have := fourSpFrom_calm (renderLine dt ps) 0 '\n' more h0 (by decide)
  simp only [line, indent, eol, List.append_assoc, fourSp_spaces]
  simpa using this

theorem fourSp_lines (lay : Layout) (hl : lay = .tabs ∨ lay = .spaces) : ∀ (ls : List LineSpec),
    (∀ x ∈ ls, CalmParams x.2.2) → fourSpFrom 0 (linesText lay ls) = linesText .tabs ls
  | [], _ => by simp [linesText, fourSpFrom]
  | x :: ls, h => by
    rw [linesText_cons, linesText_cons]
    have ih := fourSp_lines lay hl ls (fun y hy => h y (List.mem_cons_of_mem _ hy))
    rcases hl with rfl | rfl
    · rw [fourSp_line_tabs _ _ _ (h x List.mem_cons_self), ih]
    · rw [fourSp_line_spaces _ _ _ (h x List.mem_cons_self), ih]

/-- all three layouts of a calm description normalise to its tab layout -/
theorem normalise_render (lay : Layout) (s : Sim) (h : CalmSim s) :
    normalise (render lay s) = render .tabs s := by
  unfold normalise fourSp
  rw [render_lines, render_lines, dropCR_lines lay _ h]
  exact fourSp_lines _ (by cases lay <;> simp [Layout.noCR]) _ h

end Elvis.Ndl
