import ElvisVerif.Lemmas.TcpFullClean
/-!
# ESTABLISHED implies `SND.UNA ≠ ISS` (the SYN has been acknowledged)

`XU iss N t`: `SND.UNA − ISS ≤ N` and, in ESTABLISHED, `1 ≤ SND.UNA − ISS`.  Both ways into ESTABLISHED establish it:
SYN-RECEIVED → ESTABLISHED (block 2) moves `SND.UNA` to an ACK number with `SND.UNA < SEG.ACK`, SYN-SENT → ESTABLISHED
(block 4) tests `mod_gt(SND.UNA, ISS)`; afterwards `SND.UNA` moves only to ACK numbers in `[ISS + 1, SND.NXT]`.
`ackBlock_xu`, `synBlock_est`, `processSegment_xu`, `drain_xu`, `segmentArrives_xu`; system invariant `UInv`
(`uinv_step`, `uinv_run`, `uinv_init`).
-/
namespace Elvis.Tcp.Full
open Elvis.ModCmp Elvis.Tcp.Tcb

/-- `SND.UNA` is not beyond `SND.NXT`, and past the SYN once ESTABLISHED -/
structure XU (iss : Seq) (N : Nat) (t : Tcb) : Prop where
  le : off iss t.snd.una ≤ N
  est : t.state = .Established → 1 ≤ off iss t.snd.una

variable {iss : Seq} {N : Nat}

theorem XU.of_same {t t' : Tcb} (h : XU iss N t) (h1 : t'.snd.una = t.snd.una) (h2 : t'.state = t.state) : XU iss N t' :=
  ⟨by rw [h1]; exact h.le, fun hs => by rw [h1]; exact h.est (by rw [← h2]; exact hs)⟩

theorem xu_enq {t : Tcb} (h : XU iss N t) (hd : Hdr) : XU iss N (t.enqueueBuilt hd) :=
  h.of_same (by rw [(enqueueBuilt_frame _ _).2.2.1]) (enqueueBuilt_frame _ _).2.2.2.2.1

/-- `ack_established_processing`: same state, `SND.UNA` stays or moves to the ACK field -/
theorem ackEst_cases (s : Tcb) (seg : Hdr) (s1 : Tcb) (r1 : ProcessSegmentResult)
    (e : s.ackEstablishedProcessing seg = .ok (s1, r1)) :
    s1.state = s.state ∧ (s1.snd.una = s.snd.una ∨ s1.snd.una = seg.ack) := by
  unfold ackEstablishedProcessing at e
  split at e
  · cases e; exact ⟨rfl, Or.inl rfl⟩
  · split at e
    · rw [enqueue_eq] at e; cases e
      exact ⟨(enqueueBuilt_frame _ _).2.2.2.2.1, Or.inl (by rw [(enqueueBuilt_frame _ _).2.2.1])⟩
    · dsimp only at e
      split at e <;> (cases e; exact ⟨rfl, Or.inr rfl⟩)

/-- with `SND.UNA < SEG.ACK ≤ SND.NXT` the ACK is taken: `SND.UNA` ends past ISS -/
theorem ackEst_moves (hN : N < 2147483648) (s : Tcb) (seg : Hdr) (s1 : Tcb) (r1 : ProcessSegmentResult)
    (e : s.ackEstablishedProcessing seg = .ok (s1, r1)) (hiss : s.snd.iss = iss) (hsent : s.sent = N)
    (hu : off iss s.snd.una ≤ N) (hb : modBounded s.snd.una .Lt seg.ack .Leq s.snd.nxt = true) :
    s1.state = s.state ∧ 1 ≤ off iss s1.snd.una ∧ off iss s1.snd.una ≤ N := by
  have hsentN : off iss s.snd.nxt = N := by rw [← hsent, ← hiss]; rfl
  obtain ⟨o1, o2⟩ := bounded_lt_leq_off iss s.snd.una seg.ack s.snd.nxt (by omega) (by omega) (by omega) hb
  have h1 : ¬ modLeq seg.ack s.snd.una = true := by
    intro h
    have := (modLeq_iff_off iss seg.ack s.snd.una (by omega) (by omega)).1 h
    omega
  unfold ackEstablishedProcessing at e
  rw [if_neg h1, if_neg (by simp [hb])] at e
  dsimp only at e
  split at e <;> (cases e; exact ⟨rfl, by show 1 ≤ off iss seg.ack; omega, by show off iss seg.ack ≤ N; omega⟩)

/-- **block 2** -/
theorem ackBlock_xu (hN : N < 2147483648) (s : Tcb) (seg : Hdr) (s' : Tcb) (r : Option ProcessSegmentResult)
    (e : ackBlock s seg = .ok (s', r)) (hiss : s.snd.iss = iss) (hsent : s.sent = N)
    (ha : seg.ctl.ack = true → 1 ≤ off iss seg.ack ∧ off iss seg.ack ≤ N) (hx : XU iss N s) : XU iss N s' := by
  unfold ackBlock at e
  split at e
  · cases e; exact hx
  · rename_i hack
    obtain ⟨a1, a2⟩ := ha (by simpa using hack)
    -- what the states that run `ack_established_processing` and keep or leave ESTABLISHED-free states give
    have late : ∀ (s1 : Tcb) (r1 : ProcessSegmentResult), s.ackEstablishedProcessing seg = .ok (s1, r1) →
        XU iss N s1 ∧ s1.state = s.state := by
      intro s1 r1 e1
      obtain ⟨c1, c2⟩ := ackEst_cases s seg s1 r1 e1
      refine ⟨?_, c1⟩
      rcases c2 with c2 | c2
      · exact hx.of_same c2 c1
      · exact ⟨by rw [c2]; exact a2, fun _ => by rw [c2]; exact a1⟩
    split at e
    · -- SYN-SENT
      rename_i hst
      split at e
      · split at e
        · cases e; exact hx
        · rw [enqueueThen_eq] at e; cases e; exact xu_enq hx _
      · split at e
        · split at e
          · cases e
            refine ⟨a2, fun hs => ?_⟩
            have : s.state = .Established := hs
            rw [hst] at this; cases this
          · cases e; exact hx
        · rw [enqueueThen_eq] at e; cases e; exact xu_enq hx _
    · -- SYN-RECEIVED
      rename_i hst
      split at e
      · rename_i hb
        obtain ⟨s1, r1, e1, e2⟩ := afterAck_inv _ _ _ _ e
        obtain ⟨m1, m2, m3⟩ := ackEst_moves hN _ seg s1 r1 e1 hiss hsent hx.le hb
        have : s' = s1 := by split at e2 <;> (cases e2; rfl)
        rw [this]
        exact ⟨m3, fun _ => m2⟩
      · rw [enqueueThen_eq] at e; cases e; exact xu_enq hx _
    iterate 3
      · obtain ⟨s1, r1, e1, e2⟩ := afterAck_inv _ _ _ _ e
        obtain ⟨x1, _⟩ := late s1 r1 e1
        have : s' = s1 := by split at e2 <;> (cases e2; rfl)
        rw [this]; exact x1
    · -- FIN-WAIT-1
      rename_i hst
      obtain ⟨s1, r1, e1, e2⟩ := afterAck_inv _ _ _ _ e
      obtain ⟨x1, st1⟩ := late s1 r1 e1
      dsimp only at e2
      have key : s'.snd.una = s1.snd.una ∧ s'.state ≠ .Established := by
        split at e2 <;> split at e2 <;> cases e2
        all_goals refine ⟨rfl, ?_⟩
        all_goals first | (intro h; rw [st1, hst] at h; cases h) | (intro h; cases h)
      exact ⟨by rw [key.1]; exact x1.le, fun hs => absurd hs key.2⟩
    · -- CLOSING
      rename_i hst
      obtain ⟨s1, r1, e1, e2⟩ := afterAck_inv _ _ _ _ e
      obtain ⟨x1, st1⟩ := late s1 r1 e1
      dsimp only at e2
      have key : s'.snd.una = s1.snd.una ∧ s'.state ≠ .Established := by
        split at e2 <;> split at e2 <;> cases e2
        all_goals refine ⟨rfl, ?_⟩
        all_goals first | (intro h; rw [st1, hst] at h; cases h) | (intro h; cases h)
      exact ⟨by rw [key.1]; exact x1.le, fun hs => absurd hs key.2⟩
    · -- LAST-ACK
      rename_i hst
      obtain ⟨s1, r1, e1, e2⟩ := afterAck_inv _ _ _ _ e
      obtain ⟨x1, st1⟩ := late s1 r1 e1
      have : s' = s1 := by
        split at e2
        · cases e2; rfl
        · split at e2 <;> (cases e2; rfl)
      rw [this]; exact x1
    · cases e; exact hx

/-- **block 4**: SYN-SENT → ESTABLISHED only with `SND.UNA` past ISS -/
theorem synBlock_est (s : Tcb) (seg : Hdr) (s' : Tcb) (r : Option ProcessSegmentResult)
    (e : synBlock s seg = .ok (s', r)) (hs : s.state = .SynSent) (h' : s'.state = .Established) :
    modGt s.snd.una s.snd.iss = true := by
  unfold synBlock at e
  split at e
  · first
      | (cases e; rw [hs] at h'; cases h')
      | (split at e <;> (cases e; rw [hs] at h'; cases h'))
  · split at e
    · dsimp only at e
      split at e
      · rename_i hgt
        exact hgt
      · rw [enqueueThen_eq] at e
        cases e
        rw [(enqueueBuilt_frame _ _).2.2.2.2.1] at h'
        cases h'
    · rename_i hns
      exact (hns hs).elim

theorem una_same_of_q {P : Hdr → Prop} {a b : Tcb} (q : QStep P (fun _ => False) a b) : b.snd.una = a.snd.una := by
  rcases q.una with h | h
  · exact h
  · exact h.elim

/-- **`process_segment`** keeps `XU` -/
theorem processSegment_xu (hN : N < 2147483648) (s : Tcb) (g : Segment) (s' : Tcb) (r : ProcessSegmentResult)
    (e : s.processSegment g = .ok (s', r)) (hiss : s.snd.iss = iss) (hsent : s.sent = N)
    (ha : g.hdr.ctl.ack = true → 1 ≤ off iss g.hdr.ack ∧ off iss g.hdr.ack ≤ N) (hfin : g.hdr.ctl.fin = false)
    (hx : XU iss N s) : XU iss N s' := by
  unfold processSegment at e
  dsimp only at e
  cases h1 : seqCheck s g.hdr (BitVec.ofNat 32 g.text.length) with
  | error x => rw [h1] at e; simp [B.andThen] at e
  | ok p1 =>
    obtain ⟨t1, r1⟩ := p1
    rw [h1] at e
    have x1 : XU iss N t1 := hx.of_same (una_same_of_q (seqCheck_q _ _ _ _ _ h1)) (seqCheck_edges _ _ _ _ _ h1).1.state
    cases r1 with
    | some r1 => simp only [andThen_some, Except.ok.injEq, Prod.mk.injEq] at e; rw [← e.1]; exact x1
    | none =>
      have e1 : t1 = s := C01.seqCheck_none h1
      subst e1
      simp only [andThen_none] at e
      cases h2 : ackBlock t1 g.hdr with
      | error x => rw [h2] at e; simp [B.andThen] at e
      | ok p2 =>
        obtain ⟨t2, r2⟩ := p2
        rw [h2] at e
        have x2 := ackBlock_xu hN t1 g.hdr t2 r2 h2 hiss hsent ha hx
        cases r2 with
        | some r2 => simp only [andThen_some, Except.ok.injEq, Prod.mk.injEq] at e; rw [← e.1]; exact x2
        | none =>
          simp only [andThen_none] at e
          cases h3 : rstBlock t2 g.hdr with
          | error x => rw [h3] at e; simp [B.andThen] at e
          | ok p3 =>
            obtain ⟨t3, r3⟩ := p3
            rw [h3] at e
            have e3 : t3 = t2 := C01.rstBlock_eq h3
            subst e3
            cases r3 with
            | some r3 => simp only [andThen_some, Except.ok.injEq, Prod.mk.injEq] at e; rw [← e.1]; exact x2
            | none =>
              simp only [andThen_none] at e
              cases h4 : synBlock t3 g.hdr with
              | error x => rw [h4] at e; simp [B.andThen] at e
              | ok p4 =>
                obtain ⟨t4, r4⟩ := p4
                rw [h4] at e
                have u4 : t4.snd.una = t3.snd.una := una_same_of_q (synBlock_q _ _ _ _ h4)
                have x4 : XU iss N t4 := by
                  refine ⟨by rw [u4]; exact x2.le, fun hs4 => ?_⟩
                  rw [u4]
                  by_cases hs : t3.state = .SynSent
                  · have hgt := synBlock_est t3 g.hdr t4 r4 h4 hs hs4
                    unfold modGt at hgt
                    rw [modLt_iff] at hgt
                    have hi3 : t3.snd.iss = iss := by
                      obtain ⟨_, _, e2', k2⟩ := ackBlock_snd t1 g.hdr
                      rw [h2] at e2'
                      cases e2'
                      rw [k2.iss, hiss]
                    rw [hi3] at hgt
                    unfold off
                    omega
                  · rcases (synBlock_rcv _ _ _ _ h4).1 with ⟨_, hst⟩ | ⟨hss, _⟩
                    · exact x2.est (by rw [← hst]; exact hs4)
                    · exact absurd hss hs
                cases r4 with
                | some r4 => simp only [andThen_some, Except.ok.injEq, Prod.mk.injEq] at e; rw [← e.1]; exact x4
                | none =>
                  simp only [andThen_none] at e
                  have hns4 : t4.state ≠ .SynSent := (synBlock_rcv _ _ _ _ h4).2 rfl
                  cases h5 : textBlock t4 g.hdr g.text (BitVec.ofNat 32 g.text.length) with
                  | error x => rw [h5] at e; simp [B.andThen] at e
                  | ok p5 =>
                    obtain ⟨t5, r5⟩ := p5
                    rw [h5] at e
                    have x5 : XU iss N t5 := x4.of_same (una_same_of_q (textBlock_q _ _ _ _ _ _ h5 hns4))
                      (textBlock_edges _ _ _ _ _ _ h5).1.state
                    cases r5 with
                    | some r5 => simp only [andThen_some, Except.ok.injEq, Prod.mk.injEq] at e; rw [← e.1]; exact x5
                    | none =>
                      simp only [andThen_none] at e
                      cases h6 : finBlock t5 g.hdr (BitVec.ofNat 32 g.text.length) with
                      | error x => rw [h6] at e; simp at e
                      | ok p6 =>
                        obtain ⟨t6, r6⟩ := p6
                        rw [h6] at e
                        have e6 : t6 = t5 := C01.finBlock_eq hfin h6
                        subst e6
                        cases r6 <;>
                          (simp only [Except.ok.injEq, Prod.mk.injEq] at e; rw [← e.1]; exact x5)

theorem drain_xu (hN : N < 2147483648) (fuel : Nat) : ∀ (s s' : Tcb) (r : SegmentArrivesResult),
    drain fuel s = .ok (s', r) → s.snd.iss = iss → s.sent = N →
    (∀ g ∈ s.incoming.segments, (g.hdr.ctl.ack = true → 1 ≤ off iss g.hdr.ack ∧ off iss g.hdr.ack ≤ N) ∧
      g.hdr.ctl.fin = false) → XU iss N s → XU iss N s' := by
  induction fuel with
  | zero => intro s s' r e _ _ _ hx; unfold drain at e; cases e; exact hx
  | succ n ih =>
    intro s s' r e hiss hsent hh hx
    unfold drain at e
    split at e
    · cases e; exact hx
    · rename_i top hpeek
      split at e
      · cases e; exact hx
      · obtain ⟨rest, hpop⟩ := LHeap.pop_of_peek (le := segLe) hpeek
        rw [hpop] at e
        dsimp only at e
        have hmem := LHeap.mem_of_mem_pop hpop
        cases hp : processSegment { s with incoming.segments := rest } top with
        | error x => rw [hp] at e; cases e
        | ok p =>
          obtain ⟨s1, r1⟩ := p
          rw [hp] at e
          dsimp only at e
          have x1 : XU iss N s1 := processSegment_xu hN { s with incoming.segments := rest } top s1 r1 hp hiss hsent
            (hh top hmem.1).1 (hh top hmem.1).2 ⟨hx.le, hx.est⟩
          have k := processSegment_snd _ _ _ _ hp
          have hs1 : s1.incoming.segments = rest := processSegment_heap _ _ _ _ hp
          split at e
          · cases e; exact x1
          · exact ih s1 s' r e (k.iss.trans hiss) ((sent_congr k.iss k.nxt).trans hsent)
              (fun g hg => hh g (hmem.2 g (by rw [hs1] at hg; exact hg))) x1

theorem segmentArrives_xu (hN : N < 2147483648) (s : Tcb) (σ : Segment) (s' : Tcb) (r : SegmentArrivesResult)
    (e : s.segmentArrives σ = .ok (s', r)) (hiss : s.snd.iss = iss) (hsent : s.sent = N)
    (hh : ∀ g ∈ σ :: s.incoming.segments, (g.hdr.ctl.ack = true → 1 ≤ off iss g.hdr.ack ∧ off iss g.hdr.ack ≤ N) ∧
      g.hdr.ctl.fin = false) (hx : XU iss N s) : XU iss N s' := by
  unfold segmentArrives at e
  dsimp only at e
  split at e
  · cases e
  · rw [enqueue_eq] at e
    cases e
    exact xu_enq hx _
  · refine drain_xu hN _ { s with incoming.segments := LHeap.push segLe s.incoming.segments σ } s' r e hiss hsent ?_
      ⟨hx.le, hx.est⟩
    intro g hg
    rcases LHeap.mem_push.1 hg with rfl | hg
    · exact hh _ List.mem_cons_self
    · exact hh g (List.mem_cons_of_mem _ hg)

/-! ## the system invariant -/

/-- in ESTABLISHED the SYN has been acknowledged -/
def UInv (iss : SideId → Seq) (s : Sys) : Prop :=
  ∀ x t, (s.side x).tcb = some t → t.state = .Established → 1 ≤ off (iss x) t.snd.una

theorem UInv.ne {iss : SideId → Seq} {s : Sys} (h : UInv iss s) (hg : Good iss s) (x : SideId) (t : Tcb)
    (ht : (s.side x).tcb = some t) (hst : t.state = .Established) : t.snd.una ≠ t.snd.iss := by
  intro h0
  have := h x t ht hst
  rw [h0, hg.iss_eq x t ht, off_self] at this
  omega

variable {issf : SideId → Seq}

theorem uinv_local (s : Sys) (h : UInv issf s) (x : SideId) (t t' : Tcb) (sd' : Side) (new : List Segment)
    (ht : (s.side x).tcb = some t) (hsd : sd'.tcb = some t') (hu : t'.snd.una = t.snd.una) (hst : t'.state = t.state) :
    UInv issf ((s.setSide x sd').record new) := by
  intro y u hu' hs
  rw [side_record, side_setSide_if] at hu'
  split at hu'
  · rename_i hyx
    subst hyx
    rw [hsd] at hu'; cases hu'
    rw [hu]
    exact h y t ht (by rw [← hst]; exact hs)
  · exact h y u hu' hs

theorem uinv_local0 (s : Sys) (h : UInv issf s) (x : SideId) (t t' : Tcb) (sd' : Side)
    (ht : (s.side x).tcb = some t) (hsd : sd'.tcb = some t') (hu : t'.snd.una = t.snd.una) (hst : t'.state = t.state) :
    UInv issf (s.setSide x sd') := by
  have := uinv_local s h x t t' sd' [] ht hsd hu hst
  rw [record_nil] at this
  exact this

theorem uinv_step (s : Sys) (hg : Good issf s) (h : UInv issf s) (op : Op) (hp : Op.Plain s op) (s' : Sys) (r : Res)
    (e : s.step op = .ok (s', r)) (hg' : Good issf s') : UInv issf s' := by
  cases op with
  | «open» x i mtu => exact hp.elim
  | listen x i mtu => exact hp.elim
  | inject x seg => exact hp.elim
  | abort x => exact hp.elim
  | drop x => exact hp.elim
  | close x => exact hp.elim
  | write x bytes =>
    simp only [Sys.step, Op.side] at e
    split at e
    · simp only [Except.ok.injEq, Prod.mk.injEq] at e
      rw [← e.1]; exact h
    · rename_i tcb htcb
      simp only [Except.ok.injEq, Prod.mk.injEq] at e
      rw [← e.1]
      exact uinv_local0 s h x tcb (tcb.send bytes) _ htcb rfl (send_l tcb bytes).una (send_keep tcb bytes).state
  | read x =>
    simp only [Sys.step, Op.side] at e
    split at e
    · simp only [Except.ok.injEq, Prod.mk.injEq] at e
      rw [← e.1]; exact h
    · rename_i tcb htcb
      simp only [Except.ok.injEq, Prod.mk.injEq] at e
      rw [← e.1]
      exact uinv_local0 s h x tcb tcb.receive.1 _ htcb rfl (receive_l tcb).una (receive_keep tcb).state
  | tick x ms =>
    simp only [Sys.step, Op.side] at e
    split at e
    · simp only [Except.ok.injEq, Prod.mk.injEq] at e
      rw [← e.1]; exact h
    · rename_i tcb htcb
      split at e
      · simp at e
      · rename_i tcb' h1
        simp only [Except.ok.injEq, Prod.mk.injEq] at e
        rw [← e.1]
        obtain ⟨t2, r2, e2, _, hst⟩ := advanceTime_spec tcb ms
        rw [h1] at e2
        cases e2
        exact uinv_local0 s h x tcb tcb' _ htcb rfl (advanceTime_l tcb ms tcb' h1).una hst
      · rename_i tcb' h1
        exfalso
        simp only [Except.ok.injEq, Prod.mk.injEq] at e
        have ha := hg'.conv.nr.alive x
        rw [← e.1, side_setSide_same] at ha
        simp at ha
  | emit x =>
    simp only [Sys.step, Op.side] at e
    split at e
    · simp only [Except.ok.injEq, Prod.mk.injEq] at e
      rw [← e.1]; exact h
    · rename_i tcb htcb
      split at e
      · simp at e
      · rename_i tcb' segs h1
        simp only [Except.ok.injEq, Prod.mk.injEq] at e
        rw [← e.1]
        obtain ⟨l, _⟩ := segments_l tcb tcb' segs h1 (hg.conv.full.fresh x tcb htcb).fresh
        exact uinv_local s h x tcb tcb' _ segs htcb rfl l.una (segments_keep tcb tcb' segs h1).state
  | deliver x i =>
    simp only [Sys.step, Op.side] at e
    split at e
    · simp only [Except.ok.injEq, Prod.mk.injEq] at e
      rw [← e.1]; exact h
    · rename_i σ hn
      obtain ⟨hsrc, hdst⟩ := hp σ hn
      have hmem : σ ∈ s.history := nth_mem s i σ hn
      have hval : C01.Valid (issf x.peer) (s.side x.peer).submitted σ := hg.conv.c01.hist σ hmem x.peer hsrc
      unfold Sys.arrive at e
      dsimp only at e
      split at e
      · rename_i tcb htcb
        split at e
        · simp at e
        · rename_i tcb' h1
          simp only [Except.ok.injEq, Prod.mk.injEq] at e
          rw [← e.1]
          intro y u hu hs
          rw [side_setSide_if] at hu
          split at hu
          · rename_i hyx
            subst hyx
            cases hu
            have hroom := room_of_inv hg.conv.c01 hg.room
            cases hq : (s.side y.peer).tcb with
            | none =>
              exfalso
              have hlis : (s.side y.peer).listen.isSome = true := by
                rcases hg.conv.nr.alive y.peer with ha | ha
                · rw [hq] at ha; cases ha
                · exact ha
              have := (arrive_listening s hg.conv.full.inv hg.conv.full.fresh hg.conv.full.ack hroom y tcb tcb' σ htcb hmem
                hsrc h1 hq hlis).2.2.2
              rw [this] at hs; cases hs
            | some tp =>
              have hN := hg.sent_lt y tcb htcb
              have hissy := hg.iss_eq y tcb htcb
              have hAz := hg.conv.full.ack y
              unfold AckLink at hAz
              rw [htcb, hq] at hAz
              have r3 := ((hg.conv.full.inv.link y).rcv tcb tp htcb hq).1
              have htop : top tcb.snd.iss tp ≤ tcb.sent := top_le r3
              have ti := hg.tinv y tcb htcb
              have hule := una_le_sent_of_conv hg.conv y tcb htcb
              rw [hissy] at hule
              have x' := segmentArrives_xu (iss := issf y) hN tcb σ tcb' .Ok h1 hissy rfl (fun g hg'' => by
                rcases List.mem_cons.1 hg'' with rfl | hgh
                · refine ⟨fun hab => ?_, hval.fin⟩
                  have := hAz.hist tcb tp rfl rfl g hmem hsrc hab
                  rw [hissy] at this
                  rw [hissy] at htop
                  exact ⟨this.1, by omega⟩
                · refine ⟨fun hab => ?_, (ti.heap g hgh).fin⟩
                  have := hAz.heap tcb tp rfl rfl g hgh hab
                  rw [hissy] at this
                  rw [hissy] at htop
                  exact ⟨this.1, by omega⟩) ⟨hule, h y tcb htcb⟩
              exact x'.est hs
          · exact h y u hu hs
        · rename_i h1
          exfalso
          simp only [Except.ok.injEq, Prod.mk.injEq] at e
          have ha := hg'.conv.nr.alive x
          rw [← e.1, side_setSide_same] at ha
          simp at ha
      · rename_i htcb
        split at e
        · rename_i issl mtu hlis
          split at e
          · simp at e
          · simp only [Except.ok.injEq, Prod.mk.injEq] at e
            rw [← e.1]; exact h
          · rename_i tcb h1
            simp only [Except.ok.injEq, Prod.mk.injEq] at e
            rw [← e.1]
            have hc := listen_created σ issl mtu tcb h1
            intro y u hu hs
            rw [side_setSide_if] at hu
            split at hu
            · cases hu
              rw [hc] at hs; cases hs
            · exact h y u hu hs
          · rename_i hd h1
            simp only [Except.ok.injEq, Prod.mk.injEq] at e
            rw [← e.1]
            intro y u hu hs
            rw [side_record] at hu
            exact h y u hu hs
        · rename_i hlis
          exfalso
          rcases hg.conv.nr.alive x with ha | ha
          · rw [htcb] at ha; cases ha
          · rw [hlis] at ha; cases ha

theorem uinv_run {s s' : Sys} (hc : Conv issf s) (hx : Ext s) (h : UInv issf s) (r : PlainRun s s') (hb : RoomH s') :
    UInv issf s' := by
  induction r with
  | refl => exact h
  | step r1 hp e ih =>
    have hb1 := RoomH.of_run (.step (.refl _) hp e) hb
    have g1 := ext_run hc hx r1 hb1
    have g2 := ext_run hc hx (.step r1 hp e) hb
    exact uinv_step _ ⟨g1.1, g1.2, hb1⟩ (ih hb1) _ hp _ _ e ⟨g2.1, g2.2, hb⟩

/-- `open A`, then `listen B` or `open B`: nobody is ESTABLISHED -/
theorem uinv_init (ia ib : Seq) (ma mb : U16) (simultaneous : Bool) (sys : Sys) (rs : List Res)
    (e : Sys.run {} [.open .A ia ma, if simultaneous then .open .B ib mb else .listen .B ib mb] = .ok (sys, rs)) :
    UInv (issOf ia ib) sys := by
  have hopen : ∀ lp rp i m t, Tcb.open lp rp i m = .ok t → t.state = .SynSent := by
    intro lp rp i m t e1
    rw [open_eq] at e1
    cases e1
    rfl
  simp only [Sys.run, Sys.step, Op.side] at e
  cases h1 : Tcb.open SideId.A.port SideId.A.peer.port ia ma with
  | error err => rw [h1] at e; simp at e
  | ok ta =>
    rw [h1] at e
    dsimp only at e
    cases simultaneous with
    | false =>
      simp only [Bool.false_eq_true, if_false, Except.ok.injEq, Prod.mk.injEq] at e
      rw [← e.1]
      intro y u hu hs
      cases y with
      | A => cases hu; rw [hopen _ _ _ _ _ h1] at hs; cases hs
      | B => cases hu
    | true =>
      simp only [if_true] at e
      cases h2 : Tcb.open SideId.B.port SideId.B.peer.port ib mb with
      | error err => rw [h2] at e; simp at e
      | ok tb =>
        rw [h2] at e
        simp only [Except.ok.injEq, Prod.mk.injEq] at e
        rw [← e.1]
        intro y u hu hs
        cases y with
        | A => cases hu; rw [hopen _ _ _ _ _ h1] at hs; cases hs
        | B => cases hu; rw [hopen _ _ _ _ _ h2] at hs; cases hs

end Elvis.Tcp.Full
