import ElvisVerif.Lemmas.ShiftRun
/-!
# Ports: every header a TCB emits carries its local port (C12)

Needed to know which way a segment of the history moves under `Sys.shift` (the history does not
record the emitter): `PortsOk` is an invariant, `PortsKeep` the per-operation step.
-/
namespace Elvis.Tcp
open Elvis.ModCmp

/-! ## invariants of TCBs in a run: ports -/

/-- everything the TCB will emit carries the source port `p` -/
structure PortsOk (t : Tcb) (p : U16) : Prop where
  lp : t.localPort = p
  one : ∀ h ∈ t.outgoing.oneshot, h.srcPort = p
  rtx : ∀ tr ∈ t.outgoing.retransmit, tr.segment.hdr.srcPort = p

/-- `u` keeps the local port and only adds headers with that port to its queues -/
structure PortsKeep (s u : Tcb) : Prop where
  lp : u.localPort = s.localPort
  one : ∀ h ∈ u.outgoing.oneshot, h ∈ s.outgoing.oneshot ∨ h.srcPort = s.localPort
  rtx : ∀ tr ∈ u.outgoing.retransmit,
    (∃ t0 ∈ s.outgoing.retransmit, t0.segment.hdr.srcPort = tr.segment.hdr.srcPort) ∨
      tr.segment.hdr.srcPort = s.localPort

theorem PortsKeep.refl (s : Tcb) : PortsKeep s s := ⟨rfl, fun _ h => Or.inl h, fun tr h => Or.inl ⟨tr, h, rfl⟩⟩

theorem PortsKeep.trans {a b c : Tcb} (h1 : PortsKeep a b) (h2 : PortsKeep b c) : PortsKeep a c := by
  refine ⟨h2.lp.trans h1.lp, fun h hh => ?_, fun tr hh => ?_⟩
  · rcases h2.one h hh with e | e
    · exact h1.one h e
    · exact Or.inr (e.trans h1.lp)
  · rcases h2.rtx tr hh with ⟨t0, e, ep⟩ | e
    · rcases h1.rtx t0 e with ⟨t1, e1, ep1⟩ | e1
      · exact Or.inl ⟨t1, e1, ep1.trans ep⟩
      · exact Or.inr (ep.symm.trans e1)
    · exact Or.inr (e.trans h1.lp)

theorem PortsOk.of_keep {s u : Tcb} {p : U16} (h : PortsOk s p) (k : PortsKeep s u) : PortsOk u p := by
  refine ⟨k.lp.trans h.lp, fun hd hh => ?_, fun tr hh => ?_⟩
  · rcases k.one hd hh with e | e
    · exact h.one hd e
    · exact e.trans h.lp
  · rcases k.rtx tr hh with ⟨t0, e, ep⟩ | e
    · exact ep.symm.trans (h.rtx t0 e)
    · exact e.trans h.lp

/-- same local port and same outgoing queues -/
theorem PortsKeep.of_eq {s u : Tcb} (h1 : u.localPort = s.localPort) (h2 : u.outgoing.oneshot = s.outgoing.oneshot)
    (h3 : u.outgoing.retransmit = s.outgoing.retransmit) : PortsKeep s u :=
  ⟨h1, fun _ h => Or.inl (h2 ▸ h), fun tr h => Or.inl ⟨tr, h3 ▸ h, rfl⟩⟩

theorem keep_enqueueBuilt (s : Tcb) (h : Hdr) (hp : h.srcPort = s.localPort) : PortsKeep s (s.enqueueBuilt h) := by
  unfold Tcb.enqueueBuilt
  split
  · refine ⟨rfl, fun _ hh => Or.inl hh, fun tr hh => ?_⟩
    simp only [List.mem_append, List.mem_singleton] at hh
    rcases hh with e | e
    · exact Or.inl ⟨tr, e, rfl⟩
    · rw [e]; exact Or.inr hp
  · refine ⟨rfl, fun hd hh => ?_, fun tr hh => Or.inl ⟨tr, hh, rfl⟩⟩
    simp only [List.mem_append, List.mem_singleton] at hh
    rcases hh with e | e
    · exact Or.inl e
    · rw [e]; exact Or.inr hp

theorem ackHdr_port (s : Tcb) : s.ackHdr.built.srcPort = s.localPort := rfl
theorem finHdr_port (s : Tcb) : s.finHdr.built.srcPort = s.localPort := rfl
theorem rstForAck_port (s : Tcb) (seg : Hdr) : (s.rstForAck seg).built.srcPort = s.localPort := rfl


/-- first change fields outside `localPort`/`outgoing`, then `h2` -/
theorem keep_left {s m u : Tcb} (h2 : PortsKeep m u) (e1 : m.localPort = s.localPort)
    (e2 : m.outgoing.oneshot = s.outgoing.oneshot) (e3 : m.outgoing.retransmit = s.outgoing.retransmit) :
    PortsKeep s u := (PortsKeep.of_eq e1 e2 e3).trans h2

/-- first `h1`, then change fields outside `localPort`/`outgoing` -/
theorem keep_right {s m u : Tcb} (h1 : PortsKeep s m) (e1 : u.localPort = m.localPort)
    (e2 : u.outgoing.oneshot = m.outgoing.oneshot) (e3 : u.outgoing.retransmit = m.outgoing.retransmit) :
    PortsKeep s u := h1.trans (PortsKeep.of_eq e1 e2 e3)

theorem keep_removeAcked (s : Tcb) (a : Seq) : PortsKeep s (s.removeAckedFromRetransmission a) := by
  unfold Tcb.removeAckedFromRetransmission
  exact ⟨rfl, fun _ h => Or.inl h, fun tr h => Or.inl ⟨tr, (List.mem_filter.1 h).1, rfl⟩⟩

/-- close a leaf: the result is `s` with fields outside `localPort`/`outgoing` changed, possibly
    followed by one `enqueueBuilt` of a header built by `header_builder` -/
macro "ports_leaf" : tactic =>
  `(tactic| first
    | exact PortsKeep.refl _
    | exact PortsKeep.of_eq rfl rfl rfl
    | exact keep_enqueueBuilt _ _ rfl
    | exact keep_left (keep_enqueueBuilt _ _ rfl) rfl rfl rfl
    | exact keep_right (keep_enqueueBuilt _ _ rfl) rfl rfl rfl)

theorem keep_seqCheck (s u : Tcb) (seg : Hdr) (tl : Seq) (r : Option ProcessSegmentResult)
    (h : Tcb.seqCheck s seg tl = .ok (u, r)) : PortsKeep s u := by
  unfold Tcb.seqCheck at h
  simp only [Tcb.enqueueThen_eq] at h
  repeat' (split at h)
  all_goals first
    | (cases h; done)
    | (cases h; ports_leaf)

theorem keep_ackEstablished (s : Tcb) (seg : Hdr) (u : Tcb) (r : ProcessSegmentResult)
    (h : s.ackEstablishedProcessing seg = .ok (u, r)) : PortsKeep s u := by
  rw [ackEstablished_eq] at h
  split at h
  · cases h; ports_leaf
  · split at h
    · rw [Tcb.enqueue_eq] at h
      cases h; ports_leaf
    · dsimp only at h
      cases h
      have k : PortsKeep s ((setUna s seg.ack).removeAckedFromRetransmission seg.ack) :=
        keep_left (keep_removeAcked _ _) rfl rfl rfl
      split
      · exact keep_right k rfl rfl rfl
      · exact k

theorem afterAck_inv_keep (t : Tcb) (seg : Hdr) (k : Tcb → ProcessSegmentResult → Tcb.B) (u : Tcb)
    (r : Option ProcessSegmentResult)
    (h : Tcb.afterAckEstablished (t.ackEstablishedProcessing seg) k = .ok (u, r)) :
    ∃ v r0, PortsKeep t v ∧ k v r0 = .ok (u, r) := by
  unfold Tcb.afterAckEstablished at h
  cases hx : t.ackEstablishedProcessing seg with
  | error e => rw [hx] at h; cases h
  | ok q =>
    obtain ⟨v, r0⟩ := q
    rw [hx] at h
    exact ⟨v, r0, keep_ackEstablished t seg v r0 hx, h⟩

theorem keep_ackBlock (s u : Tcb) (seg : Hdr) (r : Option ProcessSegmentResult)
    (h : Tcb.ackBlock s seg = .ok (u, r)) : PortsKeep s u := by
  unfold Tcb.ackBlock at h
  split at h
  · cases h; ports_leaf
  · obtain ⟨lp, rp, mtu, ini, st, snd, rcv, out, inc, tmo⟩ := s
    cases st
    case SynSent =>
      simp only [Tcb.enqueueThen_eq] at h
      repeat' (split at h)
      all_goals first
        | (cases h; ports_leaf)
        | (cases h; exact keep_left (keep_removeAcked _ _) rfl rfl rfl)
    case SynReceived =>
      dsimp only at h
      split at h
      · obtain ⟨v, r0, hv, hk⟩ := afterAck_inv_keep _ _ _ _ _ h
        split at hk <;> (cases hk; exact keep_left hv rfl rfl rfl)
      · rw [Tcb.enqueueThen_eq] at h; cases h; ports_leaf
    case Established | FinWait2 | CloseWait =>
      obtain ⟨v, r0, hv, hk⟩ := afterAck_inv_keep _ _ _ _ _ h
      split at hk <;> (cases hk; exact hv)
    case FinWait1 | Closing =>
      obtain ⟨v, r0, hv, hk⟩ := afterAck_inv_keep _ _ _ _ _ h
      dsimp only at hk
      repeat' (split at hk)
      all_goals (cases hk; first | exact hv | exact keep_right hv rfl rfl rfl)
    case LastAck =>
      obtain ⟨v, r0, hv, hk⟩ := afterAck_inv_keep _ _ _ _ _ h
      repeat' (split at hk)
      all_goals (cases hk; exact hv)
    case TimeWait =>
      cases h; ports_leaf

theorem keep_synBlock (s u : Tcb) (seg : Hdr) (r : Option ProcessSegmentResult)
    (h : Tcb.synBlock s seg = .ok (u, r)) : PortsKeep s u := by
  unfold Tcb.synBlock at h
  simp only [Tcb.enqueueThen_eq] at h
  repeat' (split at h)
  all_goals (cases h; ports_leaf)

theorem keep_textBlock (s u : Tcb) (seg : Hdr) (text : List UInt8) (tl : Seq) (r : Option ProcessSegmentResult)
    (h : Tcb.textBlock s seg text tl = .ok (u, r)) : PortsKeep s u := by
  unfold Tcb.textBlock at h
  simp only [Tcb.enqueueThen_eq] at h
  repeat' (split at h)
  all_goals first
    | (cases h; done)
    | (cases h; ports_leaf)

theorem keep_finState (s u : Tcb) (r : Option ProcessSegmentResult) (h : finState s = .ok (u, r)) :
    PortsKeep s u := by
  unfold finState at h
  obtain ⟨lp, rp, mtu, ini, st, snd, rcv, out, inc, tmo⟩ := s
  cases st <;> dsimp only at h
  all_goals first
    | (cases h; ports_leaf)
    | (split at h <;> (cases h; ports_leaf))

theorem keep_finBlock (s u : Tcb) (seg : Hdr) (tl : Seq) (r : Option ProcessSegmentResult)
    (h : Tcb.finBlock s seg tl = .ok (u, r)) : PortsKeep s u := by
  rw [finBlock_eq] at h
  split at h
  · cases h; ports_leaf
  · cases hx : finAdvance s seg.seq tl with
    | error e => rw [hx] at h; cases h
    | ok v =>
      rw [hx] at h
      have k1 : PortsKeep s v := by
        unfold finAdvance at hx
        simp only [Tcb.enqueue_eq] at hx
        repeat' (split at hx)
        all_goals (cases hx; ports_leaf)
      exact k1.trans (keep_finState v u r h)

theorem keep_processSegment (s u : Tcb) (seg : Segment) (r : ProcessSegmentResult)
    (h : Tcb.processSegment s seg = .ok (u, r)) : PortsKeep s u := by
  rw [processSegment_eq] at h
  unfold finish at h
  have andk : ∀ (s : Tcb) (x : Tcb.B) (f : Tcb → Tcb.B),
      (∀ v r, x = .ok (v, r) → PortsKeep s v) → (∀ v w r, f v = .ok (w, r) → PortsKeep v w) →
      ∀ u r, x.andThen f = .ok (u, r) → PortsKeep s u := by
    intro s x f hx hf u r h
    rcases andThen_inv_any x f u r h with e | ⟨v, e, hv⟩
    · exact hx u r e
    · exact (hx v none e).trans (hf v u r hv)
  split at h
  · cases h
  all_goals
    cases h
    rename_i heq
    refine andk s _ _ (andk s _ _ (andk s _ _ (andk s _ _ (andk s _ _
      (fun v r h => keep_seqCheck s v _ _ r h) (fun v w r h => keep_ackBlock v w _ r h))
      (fun v w r h => by rw [rstBlock_same v w _ r h]; exact PortsKeep.refl _))
      (fun v w r h => keep_synBlock v w _ r h)) (fun v w r h => keep_textBlock v w _ _ _ r h))
      (fun v w r h => keep_finBlock v w _ _ r h) _ _ heq


theorem keep_drain (fuel : Nat) (s u : Tcb) (r : SegmentArrivesResult) (h : Tcb.drain fuel s = .ok (u, r)) :
    PortsKeep s u := by
  induction fuel generalizing s with
  | zero => cases h; exact PortsKeep.refl _
  | succ n ih =>
    rw [drain_succ] at h
    split at h
    · cases h; exact PortsKeep.refl _
    · split at h
      · cases h; exact PortsKeep.refl _
      · split at h
        · cases h
        · split at h
          · cases h
          · rename_i hp
            have k := keep_processSegment _ _ _ _ hp
            split at h
            · cases h; exact keep_left k rfl rfl rfl
            · exact keep_left (k.trans (ih _ h)) rfl rfl rfl

theorem keep_segmentArrives (s u : Tcb) (seg : Segment) (r : SegmentArrivesResult)
    (h : s.segmentArrives seg = .ok (u, r)) : PortsKeep s u := by
  rw [segmentArrives_eq] at h
  split at h
  · cases h
  · simp only [Tcb.enqueue_eq] at h
    cases h; ports_leaf
  · exact keep_left (keep_drain _ _ _ _ h) rfl rfl rfl

theorem keep_send (s : Tcb) (m : List UInt8) : PortsKeep s (s.send m) := by
  unfold Tcb.send
  split <;> ports_leaf

theorem keep_receive (s : Tcb) : PortsKeep s s.receive.1 := by
  unfold Tcb.receive
  split <;> ports_leaf

theorem keep_needs (s : Tcb) (b : Bool) :
    PortsKeep s { s with outgoing.retransmit := s.outgoing.retransmit.map fun t => { t with needsTransmit := b } } := by
  refine ⟨rfl, fun _ h => Or.inl h, fun tr h => ?_⟩
  obtain ⟨t0, ht0, e⟩ := List.mem_map.1 h
  exact Or.inl ⟨t0, ht0, by rw [← e]⟩

theorem keep_advanceRetransmission (s u : Tcb) (dt : Nat) (h : s.advanceRetransmission dt = .ok u) :
    PortsKeep s u := by
  unfold Tcb.advanceRetransmission at h
  repeat' (split at h)
  all_goals first
    | (cases h; done)
    | (cases h; ports_leaf)
    | (cases h; exact keep_right (keep_needs s true) rfl rfl rfl)

theorem keep_advanceTime (s u : Tcb) (dt : Nat) (r : AdvanceTimeResult) (h : s.advanceTime dt = .ok (u, r)) :
    PortsKeep s u := by
  unfold Tcb.advanceTime at h
  cases hx : s.advanceRetransmission dt with
  | error e => rw [hx] at h; cases h
  | ok v =>
    rw [hx] at h
    refine (keep_advanceRetransmission s v dt hx).trans ?_
    dsimp only at h
    repeat' (split at h)
    all_goals first
      | (cases h; done)
      | (cases h; ports_leaf)

theorem keep_queueFin (s u : Tcb) (h : s.queueFin = .ok u) : PortsKeep s u := by
  rw [queueFin_eq] at h
  split at h
  · cases h; exact keep_right (keep_enqueueBuilt _ _ rfl) rfl rfl rfl
  · cases h; exact PortsKeep.refl _

theorem keep_finIfPending (b : Bool) (s u : Tcb) (h : Tcb.finIfPending b s = .ok u) : PortsKeep s u := by
  unfold Tcb.finIfPending at h
  split at h
  · exact keep_queueFin _ _ h
  · cases h; exact PortsKeep.refl _

theorem keep_close (s u : Tcb) (r : CloseResult) (h : s.close = .ok (u, r)) : PortsKeep s u := by
  unfold Tcb.close at h
  split at h
  all_goals first
    | (cases h; exact PortsKeep.refl _)
    | (split at h
       · cases h
       · rename_i hq; cases h; exact keep_left (keep_queueFin _ _ hq) rfl rfl rfl)

theorem keep_abortRst (s : Tcb) :
    PortsKeep s (({ s with outgoing := {} } : Tcb).enqueueBuilt
      ((({ s with outgoing := {} } : Tcb).headerBuilder s.snd.nxt).withRst.withWnd s.rcv.wnd).built) := by
  have k := keep_enqueueBuilt ({ s with outgoing := {} } : Tcb)
    ((({ s with outgoing := {} } : Tcb).headerBuilder s.snd.nxt).withRst.withWnd s.rcv.wnd).built rfl
  refine ⟨k.lp, fun hd hh => ?_, fun tr hh => ?_⟩
  · rcases k.one hd hh with e | e
    · cases e
    · exact Or.inr e
  · rcases k.rtx tr hh with ⟨t0, e, _⟩ | e
    · cases e
    · exact Or.inr e

theorem keep_abort (s u : Tcb) (h : s.abort = .ok u) : PortsKeep s u := by
  unfold Tcb.abort at h
  simp only [Tcb.enqueue_eq] at h
  obtain ⟨lp, rp, mtu, ini, st, snd, rcv, out, inc, tmo⟩ := s
  cases st <;> dsimp only at h <;> cases h
  all_goals first
    | exact PortsKeep.refl _
    | exact keep_abortRst _


theorem build_port (h hd : Hdr) (n : Nat) (e : h.build n = some hd) : hd.srcPort = h.srcPort := by
  unfold Hdr.build at e
  split at e
  · cases e
  · cases e; rfl

theorem keep_pushSeg (s : Tcb) (header : Hdr) (text rest : List UInt8) (hp : header.srcPort = s.localPort) :
    PortsKeep s (pushSeg s header text rest) := by
  unfold pushSeg
  refine ⟨rfl, fun _ hh => Or.inl hh, fun tr hh => ?_⟩
  simp only [List.mem_append, List.mem_singleton] at hh
  rcases hh with e | e
  · exact Or.inl ⟨tr, e, rfl⟩
  · rw [e]; exact Or.inr hp

theorem keep_segmentize (m fuel : Nat) (s u : Tcb) (q : Nat) (h : Tcb.segmentize m fuel s q = .ok u) :
    PortsKeep s u := by
  induction fuel generalizing s q with
  | zero => cases h; exact PortsKeep.refl _
  | succ n ih =>
    rw [segmentize_succ] at h
    split at h
    · cases h; exact PortsKeep.refl _
    · split at h
      · cases h
      · rename_i hb
        exact (keep_pushSeg s _ _ _ ((build_port _ _ _ hb).trans rfl)).trans (ih _ _ h)

theorem keep_segmentizeIfOpen (s u : Tcb) (h : Tcb.segmentizeIfOpen s = .ok u) : PortsKeep s u := by
  unfold Tcb.segmentizeIfOpen at h
  repeat' (split at h)
  all_goals first
    | (cases h; done)
    | (cases h; exact PortsKeep.refl _)
    | exact keep_segmentize _ _ _ _ _ h

/-- `segments()` keeps the ports and everything it returns carries the port -/
theorem ports_segments (s u : Tcb) (segs : List Segment) (p : U16) (hs : PortsOk s p)
    (h : s.segments = .ok (u, segs)) : PortsOk u p ∧ ∀ sg ∈ segs, sg.hdr.srcPort = p := by
  rw [segments_eq] at h
  cases hv : Tcb.segmentizeIfOpen (clearOneshot s) with
  | error e => rw [hv] at h; cases h
  | ok v =>
    rw [hv] at h
    dsimp only at h
    have hc : PortsOk (clearOneshot s) p := ⟨hs.lp, (fun _ hh => by cases hh), hs.rtx⟩
    have hvp1 : PortsOk v p := hc.of_keep (keep_segmentizeIfOpen _ _ hv)
    cases hf : Tcb.finIfPending s.finPending v with
    | error e => rw [hf] at h; cases h
    | ok v2 =>
    rw [hf] at h
    dsimp only at h
    have hvp : PortsOk v2 p := hvp1.of_keep (keep_finIfPending _ _ _ hf)
    have km : ∀ b, PortsKeep v2 (markSent v2 b) := by
      intro b
      unfold markSent
      cases b
      · exact keep_right (keep_needs v2 false) rfl rfl rfl
      · exact keep_needs v2 false
    cases h
    refine ⟨hvp.of_keep (km _), fun sg hsg => ?_⟩
    simp only [List.mem_append, List.mem_map, List.mem_filter] at hsg
    rcases hsg with ⟨hd, hh, e⟩ | ⟨tr, ⟨ht, _⟩, e⟩
    · rw [← e]; exact hs.one hd hh
    · rw [← e]; exact hvp.rtx tr ht

end Elvis.Tcp
