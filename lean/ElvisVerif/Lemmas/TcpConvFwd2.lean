import ElvisVerif.Lemmas.TcpConvRound
/-!
# Forward evaluation: retransmitted data at an ESTABLISHED endpoint with an empty reorder heap

A data segment that starts `d` sequence numbers BEFORE `RCV.NXT` (`SEG.SEQ + d = RCV.NXT`, `d < 2^31`):

* `arrive_old_fwd` — `d > SEG.LEN`: entirely old and not even adjacent: not acceptable; a pure ACK for
  `RCV.NXT` is queued, nothing else changes;
* `arrive_catch_fwd` — `d ≤ SEG.LEN` (partly old, or ending exactly at `RCV.NXT`): acceptable; its ACK field
  is processed, the `SEG.LEN − d` new bytes (which fit the buffer) are appended, `RCV.NXT` advances to the
  end of the segment, and a pure ACK for the new `RCV.NXT` is queued.
-/
namespace Elvis.Tcp
open Elvis.ModCmp
namespace Tcb

/-- the effect of the text block on a text whose first `d` bytes are old and whose rest fits -/
structure CatchFx (t1 : Tcb) (text : List UInt8) (d : Nat) (t' : Tcb) : Prop where
  nxt : t'.rcv.nxt = t1.rcv.nxt + BitVec.ofNat 32 (text.length - d)
  rwnd : t'.rcv.wnd = t1.rcv.wnd
  text : t'.incoming.text = t1.incoming.text ++ text.drop d
  heap : t'.incoming.segments = t1.incoming.segments
  st : t'.state = t1.state
  snd : t'.snd = t1.snd
  otext : t'.outgoing.text = t1.outgoing.text
  rtx : t'.outgoing.retransmit = t1.outgoing.retransmit
  one : ∃ h, t'.outgoing.oneshot = t1.outgoing.oneshot ++ [h] ∧ h.ack = t'.rcv.nxt
  mtu : t'.mtu = t1.mtu

theorem behind_toNat (seq nxt : Seq) (d : Nat) (hd : d < 2147483648) (h : seq + BitVec.ofNat 32 d = nxt) :
    (nxt - seq).toNat = d := by
  have : nxt - seq = BitVec.ofNat 32 d := by rw [← h]; bv_omega
  rw [this, BitVec.toNat_ofNat]; omega

theorem textBlock_catch (t : Tcb) (seg : Hdr) (text : List UInt8) (d : Nat) (hst : t.state = .Established)
    (hw : t.rcv.wnd = 65535#16) (hsyn : seg.ctl.syn = false) (hseq : seg.seq + BitVec.ofNat 32 d = t.rcv.nxt)
    (hne : text ≠ []) (hd : d ≤ text.length) (hlen : text.length ≤ 65535)
    (hfit : t.incoming.text.length + (text.length - d) ≤ 65535) :
    ∃ t', textBlock t seg text (BitVec.ofNat 32 text.length) = .ok (t', none) ∧ CatchFx t text d t' := by
  have h16 : (65535#16 : BitVec 16).toNat = 65535 := rfl
  have hpos : 0 < text.length := List.length_pos_iff.2 hne
  have hemp : text.isEmpty = false := by
    cases text with
    | nil => exact absurd rfl hne
    | cons a l => rfl
  have htl : (BitVec.ofNat 32 text.length).toNat = text.length := C01.ofNat_toNat_lt _ (by omega)
  have hdn : (t.rcv.nxt - seg.seq).toNat = d := behind_toNat _ _ _ (by omega) hseq
  -- the `assert!`
  have hin : (t.isInRcvWindow seg.seq || t.isInRcvWindow (seg.seq + BitVec.ofNat 32 text.length)) = true := by
    rw [Bool.or_eq_true]
    by_cases hd0 : d = 0
    · left
      rw [isInRcvWindow_iff, hw, h16]
      left
      have : seg.seq - t.rcv.nxt = 0 := by rw [← hseq, hd0]; simp
      rw [this]; decide
    · right
      rw [isInRcvWindow_iff, hw, h16]
      left
      have : seg.seq + BitVec.ofNat 32 text.length - t.rcv.nxt = BitVec.ofNat 32 (text.length - d) := by
        rw [← hseq]
        obtain ⟨k, hk⟩ : ∃ k, text.length = d + k := ⟨text.length - d, by omega⟩
        have hk' : text.length - d = k := by omega
        rw [hk', hk, BitVec.ofNat_add]
        generalize BitVec.ofNat 32 d = x
        generalize BitVec.ofNat 32 k = y
        bv_omega
      rw [this, BitVec.toNat_ofNat]
      omega
  unfold textBlock
  rw [if_neg (by simp [hemp]), hst]
  dsimp only
  rw [if_neg (by simp [hin]), hsyn, C01.sub_zero_ofNat]
  generalize hA : (if t.rcv.nxt - seg.seq ≤ BitVec.ofNat 32 text.length then t.rcv.nxt - seg.seq
      else BitVec.ofNat 32 text.length) = a
  have ha : a.toNat = d := by
    rw [← hA, C01.min_toNat, htl, hdn]
    omega
  rw [htl, ha, hw, h16]
  have hmod : t.incoming.text.length % 4294967296 = t.incoming.text.length := Nat.mod_eq_of_lt (by omega)
  rw [hmod, if_neg (by omega), if_neg (by omega)]
  have hk : min (text.length - d) (65535 - t.incoming.text.length) = text.length - d := by omega
  rw [hk, if_neg (by omega), if_neg (by omega)]
  simp only [enqueueThen_eq]
  rw [enqueueBuilt_plain _ _ rfl rfl]
  refine ⟨_, rfl, ⟨rfl, ?_, ?_, rfl, ?_, rfl, rfl, rfl, ⟨_, rfl, rfl⟩, rfl⟩⟩
  · exact hw.symm
  · show t.incoming.text ++ List.take (text.length - d) (List.drop d text) = t.incoming.text ++ List.drop d text
    rw [List.take_of_length_le (by rw [List.length_drop]; omega)]
  · exact hst.symm

/-- acceptability of a segment whose last byte is `RCV.NXT − 1` or later -/
theorem isSeqOk_catch (t : Tcb) (seq : Seq) (len d : Nat) (hw : t.rcv.wnd = 65535#16)
    (hseq : seq + BitVec.ofNat 32 d = t.rcv.nxt) (hpos : 0 < len) (hd : d ≤ len) (hlen : len ≤ 65535) :
    t.isSeqOk (BitVec.ofNat 32 len) seq false false = .ok true := by
  by_cases hlt : d < len
  · exact C01.isSeqOk_cover (t := t) (base := seq) (p := 0) (q := d) seq hw (by simp) (by rw [← hseq]) (Nat.zero_le _)
      (by omega) hlen
  · have hdl : d = len := by omega
    subst hdl
    have h16 : (65535#16 : BitVec 16).toNat = 65535 := rfl
    have htl : (BitVec.ofNat 32 d).toNat = d := C01.ofNat_toNat_lt _ (by omega)
    have hw0 : ¬ t.rcv.wnd = 0 := by rw [hw]; decide
    unfold isSeqOk
    simp only [htl, Bool.toNat_false, Nat.add_zero]
    rw [if_neg (by omega), if_neg (by omega), if_neg hw0]
    have : t.isInRcvWindow (seq + BitVec.ofNat 32 d - 1) = true := by
      rw [isInRcvWindow_iff]
      right
      have : seq + BitVec.ofNat 32 d - 1 - t.rcv.nxt = 4294967295#32 := by rw [← hseq]; bv_omega
      rw [this]; rfl
    rw [this, Bool.or_true]

/-- **partly old data** (or data ending exactly at `RCV.NXT`) -/
theorem arrive_catch_fwd (t : Tcb) (g : Segment) (d : Nat) (hst : t.state = .Established) (hw : t.rcv.wnd = 65535#16)
    (hheap : t.incoming.segments = []) (hp : Plain t g.hdr) (hne : g.text ≠ [])
    (hseq : g.hdr.seq + BitVec.ofNat 32 d = t.rcv.nxt) (hd : d ≤ g.text.length) (hlen : g.text.length ≤ 65535)
    (hfit : t.incoming.text.length + (g.text.length - d) ≤ 65535) :
    ∃ t1 t', t.segmentArrives g = .ok (t', .Ok) ∧ AckFx t g.hdr t1 ∧ CatchFx t1 g.text d t' := by
  have hpos : 0 < g.text.length := List.length_pos_iff.2 hne
  have hok : t.isSeqOk (BitVec.ofNat 32 g.text.length) g.hdr.seq g.hdr.ctl.syn g.hdr.ctl.fin = .ok true := by
    rw [hp.syn, hp.fin]
    exact isSeqOk_catch t g.hdr.seq g.text.length d hw hseq hpos hd hlen
  obtain ⟨t1, fx, hk⟩ := blocks14_fwd t g hst hp hok
  obtain ⟨t', e5, tx⟩ := textBlock_catch t1 g.hdr g.text d (by rw [fx.st, hst]) (by rw [fx.rcv, hw]) hp.syn
    (by rw [fx.rcv, hseq]) hne hd hlen (by rw [fx.inc]; exact hfit)
  have e6 : finBlock t' g.hdr (BitVec.ofNat 32 g.text.length) = .ok (t', none) := by
    unfold finBlock
    rw [if_pos (by simp [hp.fin])]
  have hps : t.processSegment g = .ok (t', .Success) := by
    unfold processSegment
    dsimp only
    rw [hk, e5, andThen_none, e6]
  have hgate : modGt g.hdr.seq t.rcv.nxt = false := by
    rw [← hseq]
    have := C01.gate_pass g.hdr.seq 0 d (Nat.zero_le _) (by omega)
    simpa using this
  exact ⟨t1, t', arrive_single t g (by rw [hst]; simp) hheap hok hgate t' _ hps rfl, fx, tx⟩

/-- **entirely old data**: answered with a pure ACK for `RCV.NXT`, nothing else changes -/
theorem arrive_old_fwd (t : Tcb) (g : Segment) (d : Nat) (hst : t.state = .Established) (hw : t.rcv.wnd = 65535#16)
    (hsyn : g.hdr.ctl.syn = false) (hfin : g.hdr.ctl.fin = false)
    (hseq : g.hdr.seq + BitVec.ofNat 32 d = t.rcv.nxt) (hd : g.text.length < d) (hd31 : d < 2147483648)
    (hne : g.text ≠ []) :
    t.segmentArrives g = .ok ({ t with outgoing.oneshot := t.outgoing.oneshot ++ [t.ackHdr.built] }, .Ok) := by
  have h16 : (65535#16 : BitVec 16).toNat = 65535 := rfl
  have hpos : 0 < g.text.length := List.length_pos_iff.2 hne
  have htl : (BitVec.ofNat 32 g.text.length).toNat = g.text.length := C01.ofNat_toNat_lt _ (by omega)
  have hw0 : ¬ t.rcv.wnd = 0 := by rw [hw]; decide
  have h1 : t.isInRcvWindow g.hdr.seq = false := by
    cases h : t.isInRcvWindow g.hdr.seq with
    | false => rfl
    | true =>
      rw [isInRcvWindow_iff, hw, h16] at h
      have e : g.hdr.seq - t.rcv.nxt = 0 - BitVec.ofNat 32 d := by rw [← hseq]; bv_omega
      rw [e] at h
      have hdn : (BitVec.ofNat 32 d).toNat = d := C01.ofNat_toNat_lt _ (by omega)
      simp only [BitVec.toNat_sub, hdn] at h
      have h0 : (0 : BitVec 32).toNat = 0 := rfl
      rw [h0] at h
      omega
  have h2 : t.isInRcvWindow (g.hdr.seq + BitVec.ofNat 32 g.text.length - 1) = false := by
    cases h : t.isInRcvWindow (g.hdr.seq + BitVec.ofNat 32 g.text.length - 1) with
    | false => rfl
    | true =>
      rw [isInRcvWindow_iff, hw, h16] at h
      have e : g.hdr.seq + BitVec.ofNat 32 g.text.length - 1 - t.rcv.nxt
          = 0 - BitVec.ofNat 32 (d - g.text.length + 1) := by
        rw [← hseq]
        have e' : d = g.text.length + (d - g.text.length) := by omega
        rw [e', BitVec.ofNat_add]
        have : g.text.length + (d - g.text.length) - g.text.length + 1 = (d - g.text.length) + 1 := by omega
        rw [this, BitVec.ofNat_add]
        generalize BitVec.ofNat 32 g.text.length = x
        generalize BitVec.ofNat 32 (d - g.text.length) = y
        bv_omega
      rw [e] at h
      have hdn : (BitVec.ofNat 32 (d - g.text.length + 1)).toNat = d - g.text.length + 1 := C01.ofNat_toNat_lt _ (by omega)
      simp only [BitVec.toNat_sub, hdn] at h
      have h0 : (0 : BitVec 32).toNat = 0 := rfl
      rw [h0] at h
      omega
  have hno : t.isSeqOk (BitVec.ofNat 32 g.text.length) g.hdr.seq g.hdr.ctl.syn g.hdr.ctl.fin = .ok false := by
    unfold isSeqOk
    rw [hsyn, hfin]
    simp only [htl, Bool.toNat_false, Nat.add_zero]
    rw [if_neg (by omega), if_neg (by omega), if_neg hw0, h1, h2]
    rfl
  unfold segmentArrives
  dsimp only
  rw [if_neg (by rw [hst]; simp), hno]
  dsimp only
  rw [enqueue_eq, enqueueBuilt_plain _ _ rfl rfl]

end Tcb
end Elvis.Tcp
