import ElvisVerif.Model.PortAlloc
import ElvisVerif.Generated.DnsCert
/-!
# C20 (supplement): the ephemeral ports behind concurrent lookups are pairwise distinct

`FourTupleIsolation` of `Props/C20.lean` assumes that the sockets of one client machine have
different local ports.  With one lookup per task and several tasks per machine on a multi-thread
runtime that is a statement about `SocketAPI::get_ephemeral_port` under interleaving:

* `c20_port_alloc_unique`            one-lock version: for EVERY schedule the ports handed out are
                                     pairwise distinct (and below the counter)
* `c20_port_alloc_race_counterexample`  two-lock version (the original code): two calls in flight
                                     return the same port — finding F-C20-5, replayed on the real
                                     code by the `mt` run (lookups that start in the same instant)
* `c20_port_alloc_certificate`       the source has the one-lock shape (extracted on every check)
* `c20_ephemeral_ports_unique`       the two combined: the code as it is, every schedule
-/
namespace Elvis.PortAlloc

/-- invariant of the one-lock version -/
def Good (s : Sys) : Prop := s.handed.Nodup ∧ ∀ p ∈ s.handed, p < s.counter

theorem good_init : Good init := by
  constructor
  · exact List.nodup_nil
  · intro p hp; cases hp

theorem good_step (s : Sys) (a : Step) (h : Good s) : Good (step true s a) := by
  cases a with
  | alloc =>
    obtain ⟨hn, hlt⟩ := h
    simp only [step, if_true]
    constructor
    · show (s.handed ++ [s.counter]).Nodup
      rw [List.nodup_append]
      refine ⟨hn, by simp, ?_⟩
      intro a ha b hb
      have hb' : b = s.counter := by simpa using hb
      have := hlt a ha
      omega
    · intro p hp
      show p < s.counter + 1
      have hp' : p ∈ s.handed ++ [s.counter] := hp
      rcases List.mem_append.mp hp' with h1 | h1
      · have := hlt p h1; omega
      · have : p = s.counter := by simpa using h1
        omega
  | read => simpa [step] using h
  | finish k => simpa [step] using h

theorem good_run (s : Sys) (as : List Step) (h : Good s) : Good (run true s as) := by
  induction as generalizing s with
  | nil => exact h
  | cons a as ih => exact ih _ (good_step s a h)

/-- One lock: whatever the interleaving of calls, no port is handed out twice. -/
theorem c20_port_alloc_unique (sched : List Step) :
    (run true init sched).handed.Nodup ∧ ∀ p ∈ (run true init sched).handed, firstPort ≤ p := by
  refine ⟨(good_run init sched good_init).1, ?_⟩
  -- every handed port was the counter at some point, and the counter never decreases
  suffices h : ∀ (s : Sys), firstPort ≤ s.counter → (∀ p ∈ s.handed, firstPort ≤ p) →
      ∀ p ∈ (run true s sched).handed, firstPort ≤ p by
    exact h init (Nat.le_refl _) (by intro p hp; cases hp)
  induction sched with
  | nil => intro s _ hh; exact hh
  | cons a as ih =>
    intro s hc hh
    apply ih
    · cases a <;> simp only [step, if_true] <;> omega
    · cases a with
      | alloc =>
        intro p hp
        have hp' : p ∈ s.handed ++ [s.counter] := by simpa [step] using hp
        rcases List.mem_append.mp hp' with h1 | h1
        · exact hh p h1
        · have : p = s.counter := by simpa using h1
          omega
      | read => simpa [step] using hh
      | finish k => simpa [step] using hh

/-- non-vacuity: three calls hand out 49152, 49153, 49154 -/
example : (run true init [.alloc, .alloc, .alloc]).handed = [49152, 49153, 49154] := by decide

/-- Two locks (the original code): both calls read 49152 before either advances the counter — two
sockets of one machine with the same local port; the second `connect` is refused
(`Udp::listen`: endpoint taken) and `DnsClient::get_host_by_name` unwraps the error. -/
theorem c20_port_alloc_race_counterexample :
    (run false init [.read, .read, .finish 0, .finish 0]).handed = [49152, 49152] := by decide

/-- ... while calls that do not overlap were fine, which is why sequential and paused-clock runs
never showed it -/
example : (run false init [.read, .finish 0, .read, .finish 0]).handed = [49152, 49153] := by decide

/-- the source reads and advances the counter under one write lock -/
theorem c20_port_alloc_certificate : Elvis.Gen.socketEphemeralPortOneLock = true := by decide

/-- The code as it is (shape extracted from the source on every check): for every interleaving
of `get_ephemeral_port` calls the ports handed out are pairwise distinct. -/
theorem c20_ephemeral_ports_unique (sched : List Step) :
    (run Elvis.Gen.socketEphemeralPortOneLock init sched).handed.Nodup := by
  rw [c20_port_alloc_certificate]
  exact (c20_port_alloc_unique sched).1

end Elvis.PortAlloc
