import ElvisVerif.Model.Subnet
/-!
Helper lemmas for C09 (subnet arithmetic).  Route: the 33-row mask table is checked by
`decide +kernel` and lifted to `k ≤ 32`; the one bit-level fact (`a &&& mask k = a / 2^s * 2^s`,
`s = 32 - k`) is proved by `testBit` extensionality; everything else is `Nat` arithmetic with the
block size `P = 2^s` kept abstract (`0 < P`, `P * Q = 2^32`).
-/
namespace Elvis.Subnet

-- needed for `decide` on results; declared inside the namespace so its name cannot clash
deriving instance DecidableEq for Except

/-! ### well-formedness: what every public constructor establishes -/

/-- a mask is one of the 33 prefix masks -/
def Mask.WF (m : Mask) : Prop := ∃ k, k ≤ 32 ∧ m = Mask.fromBitcount k

/-- "This MUST be a network ID": the id has no host bits -/
def Net.WF (n : Net) : Prop := n.mask.WF ∧ n.id &&& n.mask.bits = n.id

/-- number of addresses of a network -/
def Net.size (n : Net) : Nat := 2 ^ (32 - n.mask.countOnes)

/-! ### the mask table -/

theorem fromBitcount_clamp (n : Nat) : Mask.fromBitcount n = Mask.fromBitcount (min n 32) := by
  unfold Mask.fromBitcount clamp
  have h : (if n < 0 then 0 else if n > 32 then 32 else n) = min n 32 := by
    simp only [Nat.not_lt_zero, if_false]; split <;> omega
  have h2 : (if min n 32 < 0 then 0 else if min n 32 > 32 then 32 else min n 32) = min n 32 := by
    simp only [Nat.not_lt_zero, if_false]; split <;> omega
  simp only [h, h2]

theorem table_toNat : ∀ k : Fin 33,
    (Mask.fromBitcount k.val).bits.toNat = (2 ^ k.val - 1) * 2 ^ (32 - k.val) := by decide +kernel

theorem table_ones : ∀ k : Fin 33, (Mask.fromBitcount k.val).countOnes = k.val := by decide +kernel

theorem table_mono : ∀ i j : Fin 33,
    ((Mask.fromBitcount i.val).bits ≤ (Mask.fromBitcount j.val).bits) = (i.val ≤ j.val) := by
  decide +kernel

theorem fromBitcount_toNat' {k : Nat} (h : k ≤ 32) :
    (Mask.fromBitcount k).bits.toNat = (2 ^ k - 1) * 2 ^ (32 - k) :=
  table_toNat ⟨k, by omega⟩

theorem countOnes_fromBitcount {k : Nat} (h : k ≤ 32) : (Mask.fromBitcount k).countOnes = k :=
  table_ones ⟨k, by omega⟩

theorem fromBitcount_le_iff {i j : Nat} (hi : i ≤ 32) (hj : j ≤ 32) :
    (Mask.fromBitcount i).bits ≤ (Mask.fromBitcount j).bits ↔ i ≤ j := by
  have := table_mono ⟨i, by omega⟩ ⟨j, by omega⟩
  simp only at this
  rw [this]

theorem pow_split {k : Nat} (h : k ≤ 32) : 2 ^ (32 - k) * 2 ^ k = 2 ^ 32 := by
  rw [← Nat.pow_add]; congr 1; omega

theorem fromBitcount_toNat {k : Nat} (h : k ≤ 32) :
    (Mask.fromBitcount k).bits.toNat = 2 ^ 32 - 2 ^ (32 - k) := by
  rw [fromBitcount_toNat' h, Nat.sub_mul, Nat.one_mul, Nat.mul_comm, pow_split h]

theorem fromBitcount_inj {i j : Nat} (hi : i ≤ 32) (hj : j ≤ 32)
    (h : Mask.fromBitcount i = Mask.fromBitcount j) : i = j := by
  have := countOnes_fromBitcount hi
  rw [h, countOnes_fromBitcount hj] at this
  exact this.symm

theorem Mask.WF.eq {m : Mask} (h : m.WF) : m = Mask.fromBitcount m.countOnes ∧ m.countOnes ≤ 32 := by
  obtain ⟨k, hk, rfl⟩ := h
  rw [countOnes_fromBitcount hk]; exact ⟨rfl, hk⟩

theorem Mask.wf_fromBitcount (n : Nat) : (Mask.fromBitcount n).WF :=
  ⟨min n 32, by omega, fromBitcount_clamp n⟩

/-! ### `a &&& mask k` clears the low `32 - k` bits -/

theorem and_prefix_nat (a k : Nat) (ha : a < 2 ^ 32) (hk : k ≤ 32) :
    a &&& ((2 ^ k - 1) * 2 ^ (32 - k)) = a / 2 ^ (32 - k) * 2 ^ (32 - k) := by
  apply Nat.eq_of_testBit_eq
  intro i
  rw [Nat.testBit_and, Nat.testBit_mul_two_pow, Nat.testBit_mul_two_pow, Nat.testBit_two_pow_sub_one,
    Nat.testBit_div_two_pow]
  by_cases h1 : 32 - k ≤ i
  · have e : i - (32 - k) + (32 - k) = i := by omega
    simp only [h1, decide_true, Bool.true_and, e]
    by_cases h2 : i - (32 - k) < k
    · simp [h2]
    · have : a.testBit i = false := by
        apply Nat.testBit_lt_two_pow
        exact Nat.lt_of_lt_of_le ha (Nat.pow_le_pow_right (by omega) (by omega))
      simp [h2, this]
  · simp [h1]

theorem and_mask_toNat (a : BitVec 32) {k : Nat} (hk : k ≤ 32) :
    (a &&& (Mask.fromBitcount k).bits).toNat = a.toNat / 2 ^ (32 - k) * 2 ^ (32 - k) := by
  rw [BitVec.toNat_and, fromBitcount_toNat' hk]
  exact and_prefix_nat a.toNat k a.isLt hk

/-! ### block arithmetic with an abstract block size -/

theorem nat_block (P a i : Nat) (hP : 0 < P) (hi : i % P = 0) :
    i = a / P * P ↔ (i ≤ a ∧ a < i + P) := by
  constructor
  · intro h
    subst h
    exact ⟨Nat.div_mul_le_self a P, Nat.lt_div_mul_add hP⟩
  · intro ⟨h1, h2⟩
    have hq : i / P * P = i := Nat.div_mul_cancel (Nat.dvd_of_mod_eq_zero hi)
    have : a / P = i / P := by
      apply Nat.div_eq_of_lt_le
      · rw [hq]; exact h1
      · rw [Nat.add_mul, Nat.one_mul, hq]; exact h2
    rw [this, hq]

theorem block_fits (P Q i : Nat) (_hP : 0 < P) (hi : i % P = 0) (hlt : i < P * Q) : i + P ≤ P * Q := by
  have hq : i / P * P = i := Nat.div_mul_cancel (Nat.dvd_of_mod_eq_zero hi)
  have h1 : i / P < Q := by
    apply Nat.div_lt_of_lt_mul; exact hlt
  have h2 : (i / P + 1) * P ≤ Q * P := Nat.mul_le_mul_right P h1
  rw [Nat.add_mul, Nat.one_mul, hq, Nat.mul_comm Q P] at h2
  exact h2

theorem div_mul_mod_zero (a P : Nat) : (a / P * P) % P = 0 := Nat.mul_mod_left _ _

/-- facts about a well-formed network, in `Nat`, with `P = 2^(32 - len)` -/
structure BlockFacts (n : Net) (P : Nat) : Prop where
  pos : 0 < P
  le : P ≤ 2 ^ 32
  split : ∃ Q, P * Q = 2 ^ 32
  size : n.size = P
  maskNat : n.mask.bits.toNat = 2 ^ 32 - P
  notMask : (~~~ n.mask.bits).toNat = P - 1
  idMod : n.id.toNat % P = 0
  fits : n.id.toNat + P ≤ 2 ^ 32
  andNat : ∀ a : BitVec 32, (a &&& n.mask.bits).toNat = a.toNat / P * P

theorem Net.WF.facts {n : Net} (h : n.WF) : BlockFacts n n.size := by
  obtain ⟨⟨k, hk, hm⟩, hid⟩ := h
  have hc : n.mask.countOnes = k := by rw [hm]; exact countOnes_fromBitcount hk
  have hsz : n.size = 2 ^ (32 - k) := by unfold Net.size; rw [hc]
  rw [hsz]
  have hpos : 0 < 2 ^ (32 - k) := Nat.two_pow_pos _
  have hsplit := pow_split hk
  have hle : 2 ^ (32 - k) ≤ 2 ^ 32 := Nat.pow_le_pow_right (by omega) (by omega)
  have hmn : n.mask.bits.toNat = 2 ^ 32 - 2 ^ (32 - k) := by rw [hm]; exact fromBitcount_toNat hk
  have hand : ∀ a : BitVec 32, (a &&& n.mask.bits).toNat = a.toNat / 2 ^ (32 - k) * 2 ^ (32 - k) := by
    intro a; rw [hm]; exact and_mask_toNat a hk
  have hidm : n.id.toNat % 2 ^ (32 - k) = 0 := by
    have := hand n.id
    rw [hid] at this
    rw [this]; exact div_mul_mod_zero _ _
  refine ⟨hpos, hle, ⟨2 ^ k, hsplit⟩, hsz, hmn, ?_, hidm, ?_, hand⟩
  · rw [BitVec.toNat_not, hmn]; omega
  · have := block_fits (2 ^ (32 - k)) (2 ^ k) n.id.toNat hpos hidm (by rw [hsplit]; exact n.id.isLt)
    rw [hsplit] at this; exact this

/-! ### constructors establish `WF` -/

theorem Net.wf_new (ip : Addr) (m : Mask) (hm : m.WF) : (Net.new ip m).WF := by
  refine ⟨hm, ?_⟩
  show (ip &&& m.bits) &&& m.bits = ip &&& m.bits
  rw [BitVec.and_assoc, BitVec.and_self]

theorem Net.wf_newShort (ip : Addr) (len : Nat) : (Net.newShort ip len).WF :=
  Net.wf_new ip _ (Mask.wf_fromBitcount len)

theorem Net.wf_new1 (ip : Addr) : (Net.new1 ip).WF := by
  refine ⟨Mask.wf_fromBitcount 32, ?_⟩
  show ip &&& (Mask.fromBitcount 32).bits = ip
  have : (Mask.fromBitcount 32).bits = BitVec.allOnes 32 := by decide
  rw [this, BitVec.and_allOnes]

theorem Net.wf_loopback : Net.loopback.WF := by
  refine ⟨Mask.wf_fromBitcount 8, by decide⟩

theorem Mask.tryFrom_ok {m : BitVec 32} {r : Mask} (h : Mask.tryFrom m = .ok r) :
    r.WF ∧ r.bits = m := by
  unfold Mask.tryFrom at h
  simp only at h
  split at h
  · injection h with h; subst h
    exact ⟨Mask.wf_fromBitcount _, by assumption⟩
  · cases h

theorem Mask.tryFrom_fromBitcount {k : Nat} (hk : k ≤ 32) :
    Mask.tryFrom (Mask.fromBitcount k).bits = .ok (Mask.fromBitcount k) := by
  unfold Mask.tryFrom
  have : popcount (Mask.fromBitcount k).bits = k := countOnes_fromBitcount hk
  simp [this]

theorem Mask.tryFrom_error {m x : BitVec 32} (h : Mask.tryFrom m = .error x) :
    x = m ∧ ∀ k, (Mask.fromBitcount k).bits ≠ m := by
  have h0 := h
  unfold Mask.tryFrom at h
  simp only at h
  split at h
  · cases h
  · injection h with h
    refine ⟨h.symm, ?_⟩
    intro k hk
    have hk' : (Mask.fromBitcount (min k 32)).bits = m := by rw [← fromBitcount_clamp]; exact hk
    have := Mask.tryFrom_fromBitcount (k := min k 32) (by omega)
    rw [hk', h0] at this
    cases this

theorem Net.wf_fromCidr {s : Str} {n : Net} (h : Net.fromCidr s = .ok n) : n.WF := by
  unfold Net.fromCidr at h
  split at h
  · rename_i ip m hc
    injection h with h; subst h
    apply Net.wf_new
    unfold cidrToIp at hc
    split at hc
    · split at hc
      · cases hc
      · split at hc
        · cases hc
        · injection hc with hc
          injection hc with _ hm
          subst hm
          exact Mask.wf_fromBitcount _
    · cases hc
  · cases h

/-! ### broadcast, contains, overlaps in interval form -/

theorem Net.broadcast_ok {n : Net} (h : n.WF) :
    ∃ b, n.broadcast = .ok b ∧ b.toNat = n.id.toNat + n.size - 1 := by
  have f := h.facts
  unfold Net.broadcast
  simp only
  have hlt : n.id.toNat + (~~~ n.mask.bits).toNat < 2 ^ 32 := by
    rw [f.notMask]; have := f.fits; have := f.pos; omega
  rw [if_pos hlt]
  refine ⟨_, rfl, ?_⟩
  rw [BitVec.toNat_add, Nat.mod_eq_of_lt hlt, f.notMask]
  have := f.pos; omega

theorem Net.contains_iff {n : Net} (h : n.WF) (a : Addr) :
    n.contains a = true ↔ n.id.toNat ≤ a.toNat ∧ a.toNat ≤ n.id.toNat + n.size - 1 := by
  have f := h.facts
  unfold Net.contains
  rw [beq_iff_eq]
  have h1 : n.id = a &&& n.mask.bits ↔ n.id.toNat = a.toNat / n.size * n.size := by
    rw [← f.andNat a]
    constructor
    · intro e; rw [← e]
    · intro e; exact BitVec.eq_of_toNat_eq e
  rw [h1, nat_block n.size a.toNat n.id.toNat f.pos f.idMod]
  have := f.pos
  omega

theorem Net.contains_id {n : Net} (h : n.WF) : n.contains n.id = true := by
  rw [Net.contains_iff h]; have := h.facts.pos; omega

theorem Net.contains_new (a : Addr) (m : Mask) : (Net.new a m).contains a = true := by
  simp [Net.contains, Net.new]

/-- a WF network containing `a` is `a/len` -/
theorem Net.eq_new_of_contains {n : Net} {a : Addr} (h : n.contains a = true) :
    n = Net.new a n.mask := by
  unfold Net.contains at h
  rw [beq_iff_eq] at h
  cases n with
  | mk id mask => simp only [Net.new] at *; rw [h]

theorem Net.overlaps_ok {a b : Net} (ha : a.WF) (hb : b.WF) :
    a.overlaps b = .ok (decide (a.id.toNat ≤ b.id.toNat + b.size - 1 ∧
                                b.id.toNat ≤ a.id.toNat + a.size - 1)) := by
  obtain ⟨ba, hba, eba⟩ := Net.broadcast_ok ha
  obtain ⟨bb, hbb, ebb⟩ := Net.broadcast_ok hb
  unfold Net.overlaps
  rw [hba, hbb]
  simp only [bind, Except.bind, pure, Except.pure]
  by_cases h1 : a.id ≤ bb
  · rw [if_pos h1]
    rw [BitVec.le_def, ebb] at h1
    congr 1
    rw [decide_eq_decide, ge_iff_le, BitVec.le_def, eba]
    constructor
    · intro h; exact ⟨h1, h⟩
    · intro h; exact h.2
  · rw [if_neg h1]
    rw [BitVec.le_def, ebb] at h1
    congr 1
    symm
    rw [decide_eq_false_iff_not]
    intro h; exact h1 h.1

/-! ### range → network -/

theorem Net.range_ok {n : Net} (h : n.WF) :
    ∃ b, n.range = .ok (n.id, b) ∧ b.toNat = n.id.toNat + n.size - 1 := by
  obtain ⟨b, hb, eb⟩ := Net.broadcast_ok h
  refine ⟨b, ?_, eb⟩
  unfold Net.range
  rw [hb]; rfl

/-- the conversion succeeds exactly on aligned power-of-two blocks -/
theorem Net.tryFromRange_ok_iff (s e : Addr) (n : Net) :
    Net.tryFromRange s e = .ok (.ok n) ↔
      s ≤ e ∧ ∃ k, k ≤ 32 ∧ e.toNat - s.toNat + 1 = 2 ^ k ∧ s.toNat % 2 ^ k = 0 ∧
        n = { id := s, mask := Mask.fromBitcount (32 - k) } := by
  unfold Net.tryFromRange
  by_cases hse : s > e
  · rw [if_pos hse]
    constructor
    · intro h; cases h
    · intro ⟨h, _⟩
      rw [gt_iff_lt, BitVec.lt_def] at hse; rw [BitVec.le_def] at h; omega
  rw [if_neg hse]
  have hle : s.toNat ≤ e.toNat := by
    rw [gt_iff_lt, BitVec.lt_def] at hse; omega
  rw [if_neg (by omega)]
  have hsub : (e - s).toNat = e.toNat - s.toNat := by
    rw [BitVec.toNat_sub]; have := e.isLt; have := s.isLt; omega
  simp only
  constructor
  · intro h
    split at h
    · cases h
    · rename_i m hm
      obtain ⟨hmwf, hmb⟩ := Mask.tryFrom_ok hm
      have hwf := Net.wf_new s m hmwf
      obtain ⟨b, hr, eb⟩ := Net.range_ok hwf
      rw [hr] at h
      simp only at h
      split at h
      · rename_i heq
        injection h with h; injection h with h
        injection heq with hid hb
        obtain ⟨j, hj, rfl⟩ := hmwf
        have f := hwf.facts
        have hc : (Net.new s (Mask.fromBitcount j)).mask.countOnes = j := countOnes_fromBitcount hj
        have hsz : (Net.new s (Mask.fromBitcount j)).size = 2 ^ (32 - j) := by
          unfold Net.size; rw [hc]
        refine ⟨by rw [BitVec.le_def]; exact hle, 32 - j, by omega, ?_, ?_, ?_⟩
        · have h1 := eb
          rw [hb, hid, hsz] at h1
          have := Nat.two_pow_pos (32 - j)
          omega
        · have := f.idMod
          rw [hid, hsz] at this; exact this
        · rw [← h]
          have e32 : 32 - (32 - j) = j := by omega
          rw [e32]
          show Net.new s (Mask.fromBitcount j) = _
          have : (Net.new s (Mask.fromBitcount j)).id = s := hid
          cases hn : Net.new s (Mask.fromBitcount j) with
          | mk id mask =>
            rw [hn] at this
            simp only at this
            have hmask : mask = Mask.fromBitcount j := by
              have : (Net.new s (Mask.fromBitcount j)).mask = Mask.fromBitcount j := rfl
              rw [hn] at this; exact this
            rw [this, hmask]
      · cases h
  · intro ⟨_, k, hk, hsize, hmod, hn⟩
    have hP := Nat.two_pow_pos k
    have hPle : 2 ^ k ≤ 2 ^ 32 := Nat.pow_le_pow_right (by omega) hk
    have hmask : ~~~ (e - s) = (Mask.fromBitcount (32 - k)).bits := by
      apply BitVec.eq_of_toNat_eq
      rw [BitVec.toNat_not, hsub, fromBitcount_toNat (by omega)]
      have e32 : 32 - (32 - k) = k := by omega
      rw [e32]
      have := e.isLt
      omega
    rw [hmask, Mask.tryFrom_fromBitcount (by omega)]
    simp only
    have hwf := Net.wf_new s (Mask.fromBitcount (32 - k)) (Mask.wf_fromBitcount _)
    obtain ⟨b, hr, eb⟩ := Net.range_ok hwf
    have f := hwf.facts
    have hc : (Net.new s (Mask.fromBitcount (32 - k))).mask.countOnes = 32 - k :=
      countOnes_fromBitcount (by omega)
    have hsz : (Net.new s (Mask.fromBitcount (32 - k))).size = 2 ^ k := by
      unfold Net.size; rw [hc]; congr 1; omega
    have hid : (Net.new s (Mask.fromBitcount (32 - k))).id = s := by
      apply BitVec.eq_of_toNat_eq
      show (s &&& (Mask.fromBitcount (32 - k)).bits).toNat = s.toNat
      have := f.andNat s
      rw [hsz] at this
      show (s &&& (Net.new s (Mask.fromBitcount (32 - k))).mask.bits).toNat = s.toNat
      rw [this]
      exact Nat.div_mul_cancel (Nat.dvd_of_mod_eq_zero hmod)
    have hb : b = e := by
      apply BitVec.eq_of_toNat_eq
      rw [eb, hid, hsz]; omega
    rw [hr, hid, hb]
    simp only [if_true]
    rw [hn]
    congr 2
    cases hnn : Net.new s (Mask.fromBitcount (32 - k)) with
    | mk id mask =>
      rw [hnn] at hid
      simp only at hid
      have hmask2 : mask = Mask.fromBitcount (32 - k) := by
        have : (Net.new s (Mask.fromBitcount (32 - k))).mask = Mask.fromBitcount (32 - k) := rfl
        rw [hnn] at this; exact this
      rw [hid, hmask2]

theorem not_sub_mask {s e : Addr} {k : Nat} (hle : s.toNat ≤ e.toNat) (hk : k ≤ 32)
    (hsz : e.toNat - s.toNat + 1 = 2 ^ k) : ~~~ (e - s) = (Mask.fromBitcount (32 - k)).bits := by
  have hPle : 2 ^ k ≤ 2 ^ 32 := Nat.pow_le_pow_right (by omega) hk
  apply BitVec.eq_of_toNat_eq
  have hsub : (e - s).toNat = e.toNat - s.toNat := by
    rw [BitVec.toNat_sub]; have := e.isLt; have := s.isLt; omega
  rw [BitVec.toNat_not, hsub, fromBitcount_toNat (by omega)]
  have e32 : 32 - (32 - k) = k := by omega
  rw [e32]
  have := e.isLt
  omega

theorem mask_not_sub {s e : Addr} {j : Nat} (hle : s.toNat ≤ e.toNat) (hj : j ≤ 32)
    (h : (Mask.fromBitcount j).bits = ~~~ (e - s)) : e.toNat - s.toNat + 1 = 2 ^ (32 - j) := by
  have hsub : (e - s).toNat = e.toNat - s.toNat := by
    rw [BitVec.toNat_sub]; have := e.isLt; have := s.isLt; omega
  have h1 := congrArg BitVec.toNat h
  rw [BitVec.toNat_not, hsub, fromBitcount_toNat hj] at h1
  have hPle : 2 ^ (32 - j) ≤ 2 ^ 32 := Nat.pow_le_pow_right (by omega) (by omega)
  have := Nat.two_pow_pos (32 - j)
  have := e.isLt
  omega

/-- total classification of the conversion: it never panics, and each outcome is characterised -/
theorem Net.tryFromRange_classify (s e : Addr) :
    (e < s ∧ Net.tryFromRange s e = .ok (.error .empty)) ∨
    (s ≤ e ∧ (¬ ∃ k, k ≤ 32 ∧ e.toNat - s.toNat + 1 = 2 ^ k) ∧
        Net.tryFromRange s e = .ok (.error .size)) ∨
    (s ≤ e ∧ (∃ k, k ≤ 32 ∧ e.toNat - s.toNat + 1 = 2 ^ k ∧ s.toNat % 2 ^ k ≠ 0) ∧
        Net.tryFromRange s e = .ok (.error .start)) ∨
    (s ≤ e ∧ ∃ k, k ≤ 32 ∧ e.toNat - s.toNat + 1 = 2 ^ k ∧ s.toNat % 2 ^ k = 0 ∧
        Net.tryFromRange s e = .ok (.ok { id := s, mask := Mask.fromBitcount (32 - k) })) := by
  by_cases hse : s > e
  · left; exact ⟨hse, by unfold Net.tryFromRange; rw [if_pos hse]⟩
  · right
    have hle : s.toNat ≤ e.toNat := by rw [gt_iff_lt, BitVec.lt_def] at hse; omega
    have hle' : s ≤ e := by rw [BitVec.le_def]; exact hle
    by_cases hk : ∃ k, k ≤ 32 ∧ e.toNat - s.toNat + 1 = 2 ^ k
    · obtain ⟨k, hk32, hsz⟩ := hk
      by_cases hmod : s.toNat % 2 ^ k = 0
      · right; right
        exact ⟨hle', k, hk32, hsz, hmod,
          (Net.tryFromRange_ok_iff s e _).2 ⟨hle', k, hk32, hsz, hmod, rfl⟩⟩
      · right; left
        refine ⟨hle', ⟨k, hk32, hsz, hmod⟩, ?_⟩
        unfold Net.tryFromRange
        rw [if_neg hse, if_neg (by omega)]
        simp only
        rw [not_sub_mask hle hk32 hsz, Mask.tryFrom_fromBitcount (by omega)]
        simp only
        have hwf := Net.wf_new s (Mask.fromBitcount (32 - k)) (Mask.wf_fromBitcount _)
        obtain ⟨b, hr, _⟩ := Net.range_ok hwf
        have f := hwf.facts
        have hc : (Net.new s (Mask.fromBitcount (32 - k))).mask.countOnes = 32 - k :=
          countOnes_fromBitcount (by omega)
        have hszn : (Net.new s (Mask.fromBitcount (32 - k))).size = 2 ^ k := by
          unfold Net.size; rw [hc]; congr 1; omega
        rw [hr]
        simp only
        rw [if_neg]
        intro heq
        injection heq with hid _
        have := f.idMod
        rw [hid, hszn] at this
        exact hmod this
    · left
      refine ⟨hle', hk, ?_⟩
      unfold Net.tryFromRange
      rw [if_neg hse, if_neg (by omega)]
      simp only
      split
      · rfl
      · rename_i m hm
        exfalso
        obtain ⟨⟨j, hj, rfl⟩, hmb⟩ := Mask.tryFrom_ok hm
        exact hk ⟨32 - j, by omega, mask_not_sub hle hj hmb⟩

end Elvis.Subnet
