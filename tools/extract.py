#!/usr/bin/env python3
"""Source -> Lean extraction (run on every check).

Reads /repo's *current* Rust sources and (re)writes lean/ElvisVerif/Generated/*.lean:
numeric constants, the one-expression arithmetic kernels, and structural certificates.
Fails closed: anything it cannot translate is an error (reported by ./check as a broken tie).
Files are rewritten only when their content changes, so Lean's build cache stays valid.
"""
import os, re, sys

REPO = os.environ.get("ELVIS_REPO") or os.path.normpath(os.path.join(os.path.dirname(os.path.abspath(__file__)), "..", "..", "repo"))
CORE = os.path.join(REPO, "sim", "elvis-core", "src")
ELVIS = os.path.join(REPO, "sim", "elvis", "src")
OUT = os.path.join(os.path.dirname(os.path.abspath(__file__)), "..", "lean", "ElvisVerif", "Generated")


class ExtractError(Exception):
    pass


def read(path):
    with open(path) as f:
        return f.read()


def strip_comments(src):
    src = re.sub(r"/\*.*?\*/", "", src, flags=re.S)
    return re.sub(r"//[^\n]*", "", src)


def write_if_changed(name, text):
    p = os.path.join(OUT, name)
    os.makedirs(OUT, exist_ok=True)
    if os.path.exists(p) and read(p) == text:
        return
    with open(p, "w") as f:
        f.write(text)


def check_message_immutability():
    """C07 structural certificate: message/ holds no unsafe code, no in-place mutation of shared
    chunk storage and no interior mutability."""
    bad = []
    files = [os.path.join(CORE, "message.rs")] + [os.path.join(CORE, "message", f) for f in sorted(os.listdir(os.path.join(CORE, "message")))]
    for p in files:
        src = strip_comments(read(p)).split("#[cfg(test)]")[0]
        for tok in ("unsafe", "get_mut(", "make_mut(", "RefCell", "Cell<", "Mutex", "RwLock", "Atomic", "as_mut_ptr", "get_mut_unchecked"):
            if tok in src:
                bad.append(f"{os.path.relpath(p, REPO)}: `{tok}`")
    if bad:
        raise ExtractError("message/ is no longer evidently immutable-by-construction: " + "; ".join(bad))


# ---------------------------------------------------------------------------------------------
# ARP / DNS / DHCP codecs (C08b, C14b): constants + structural certificates -> Generated/CodecB.lean
# ---------------------------------------------------------------------------------------------
def _byte_literal(lit):
    """b' ' / b'\0' / b'\x20' -> int"""
    m = re.fullmatch(r"b'(\\x[0-9a-fA-F]{2}|\\.|[^\\'])'", lit)
    if not m:
        raise ExtractError(f"cannot read byte literal {lit}")
    c = m.group(1)
    if c.startswith("\\x"):
        return int(c[2:], 16)
    if c.startswith("\\"):
        esc = {"0": 0, "n": 10, "r": 13, "t": 9, "\\": 92, "'": 39, '"': 34}
        if c[1] not in esc:
            raise ExtractError(f"cannot read byte literal {lit}")
        return esc[c[1]]
    return ord(c)


def _non_test(path):
    """source without comments and without `#[cfg(test)] mod … { … }` blocks (wherever they are)"""
    src = strip_comments(read(path))
    while True:
        m = re.search(r"#\[cfg\(test\)\]\s*mod\s+\w+\s*\{", src)
        if not m:
            return src
        depth, j = 0, m.end() - 1
        while j < len(src):
            if src[j] == "{":
                depth += 1
            elif src[j] == "}":
                depth -= 1
                if depth == 0:
                    break
            j += 1
        src = src[:m.start()] + src[j + 1:]


def _fn_body(src, header_re, what):
    m = re.search(header_re, src)
    if not m:
        raise ExtractError(f"{what}: function not found")
    i = src.index("{", m.end() - 1) if src[m.end() - 1] != "{" else m.end() - 1
    depth, j = 0, i
    while j < len(src):
        if src[j] == "{":
            depth += 1
        elif src[j] == "}":
            depth -= 1
            if depth == 0:
                return src[i:j + 1]
        j += 1
    raise ExtractError(f"{what}: unbalanced braces")


PANIC_TOKENS = (".unwrap()", ".expect(", "unreachable!", "panic!", "unimplemented!", "todo!", "assert!", "assert_eq!",
                "assert_ne!", "unwrap_unchecked", "unsafe")


def _certify_no_panic(body, what, allowed_arith=()):
    """the decoders' panic sites are exactly those of the model: no panic token, no slice/array indexing,
    no arithmetic other than the sites listed (each of which is a modelled checked operation)"""
    for tok in PANIC_TOKENS:
        if tok in body:
            raise ExtractError(f"{what} contains `{tok}`: a panic site the model (Model/Codec) does not have")
    if re.search(r"[A-Za-z0-9_\)\]]\s*\[[^\]]*\]", body.replace("Vec::from([", "(").replace("vec![", "(")):
        raise ExtractError(f"{what} contains an index/slice expression: a panic site the model does not have")
    arith = re.findall(r"[A-Za-z0-9_\)]+\s*(?:\+=|-=|\*=|/=|%=|<<=|>>=)\s*[^;]+;|[A-Za-z0-9_\)]\s+[-+*/%]\s+[A-Za-z0-9_\(]", body)
    arith = [re.sub(r"\s+", " ", a.strip()) for a in arith]
    if sorted(arith) != sorted(allowed_arith):
        raise ExtractError(f"{what}: arithmetic sites {arith} differ from the modelled ones {list(allowed_arith)}")


def _enum_codes(src, name):
    m = re.search(r"pub enum " + name + r"\s*\{([^}]*)\}", src)
    if not m:
        raise ExtractError(f"enum {name} not found")
    codes, nxt = [], 0
    for item in [x.strip() for x in m.group(1).split(",") if x.strip()]:
        mm = re.fullmatch(r"(\w+)(?:\s*=\s*(\d+))?", item)
        if not mm:
            raise ExtractError(f"enum {name}: cannot read variant `{item}`")
        if mm.group(2) is not None:
            nxt = int(mm.group(2))
        codes.append((mm.group(1), nxt))
        nxt += 1
    return codes


def _const(src, name):
    m = re.search(r"const " + name + r":\s*\w+\s*=\s*(0x[0-9a-fA-F_]+|[0-9_]+)\s*;", src)
    if not m:
        raise ExtractError(f"const {name} not found")
    return int(m.group(1).replace("_", ""), 0)


def extract_codec_b():
    P = os.path.join(CORE, "protocols")
    arp = _non_test(os.path.join(P, "arp", "arp_parsing.rs"))
    dns = _non_test(os.path.join(P, "dns", "dns_parsing.rs"))
    dhcp = _non_test(os.path.join(P, "dhcp", "dhcp_parsing.rs"))
    # --- delimiters: one literal, used consistently by decoder and encoder
    BYTE = r"b'(?:\\.|[^'])+'"
    body = _fn_body(dns, r"pub fn from_bytes\b[^{]*\{", "dns from_bytes")
    d_dec = re.findall(BYTE, body)
    d_enc = re.findall(BYTE, dns.replace(body, ""))
    if len(d_dec) < 2 or len(d_enc) < 2 or len(set(d_dec + d_enc)) != 1:
        raise ExtractError(f"dns_parsing.rs: name delimiter is not one byte literal used by from_bytes and by the builders: {d_dec} {d_enc}")
    dns_delim = _byte_literal(d_dec[0])
    body = _fn_body(dhcp, r"pub fn from_bytes\b[^{]*\{", "dhcp from_bytes")
    t_dec = re.findall(BYTE, body)
    t_enc = re.findall(BYTE, dhcp.replace(body, ""))
    if len(t_dec) < 2 or len(t_enc) < 2 or len(set(t_dec + t_enc)) != 1:
        raise ExtractError(f"dhcp_parsing.rs: string terminator is not one byte literal used by from_bytes and by to_message: {t_dec} {t_enc}")
    dhcp_term = _byte_literal(t_dec[0])
    # --- enum codes and the decoders' matches on them
    mt = _enum_codes(dhcp, "MessageType")
    arms = [(int(a), b) for a, b in re.findall(r"(\d+)\s*=>\s*Ok\(MessageType::(\w+)\)", _fn_body(dhcp, r"fn try_from\b[^{]*\{", "MessageType::try_from"))]
    if sorted(arms) != sorted((c, n) for n, c in mt):
        raise ExtractError(f"MessageType::try_from arms {arms} do not invert the enum discriminants {mt}")
    op = _enum_codes(arp, "Operation")
    arms = [(int(a), b) for a, b in re.findall(r"(\d+)\s*=>\s*Operation::(\w+)", _fn_body(arp, r"pub fn from_bytes\b[^{]*\{", "arp from_bytes"))]
    if sorted(arms) != sorted((c, n) for n, c in op):
        raise ExtractError(f"ArpPacket::from_bytes operation arms {arms} do not invert the enum discriminants {op}")
    # --- structural certificates: the panic sites of the decoders are those of the model
    _certify_no_panic(_fn_body(arp, r"pub fn from_bytes\b[^{]*\{", "arp from_bytes"), "ArpPacket::from_bytes")
    _certify_no_panic(_fn_body(dns, r"pub fn from_bytes\b[^{]*\{", "dns from_bytes"), "DnsMessage::from_bytes", allowed_arith=("i += 1;",))
    _certify_no_panic(_fn_body(dns, r"pub fn query_name\b[^{]*\{", "query_name"), "DnsQuestion::query_name")
    _certify_no_panic(_fn_body(dhcp, r"pub fn from_bytes\b[^{]*\{", "dhcp from_bytes"), "DhcpMessage::from_bytes")
    _certify_no_panic(_fn_body(dhcp, r"fn try_from\b[^{]*\{", "try_from"), "MessageType::try_from")
    for path, what in ((os.path.join(P, "dhcp", "dhcp_client.rs"), "DhcpClient::demux"),
                       (os.path.join(ELVIS, "applications", "dhcp_server.rs"), "DhcpServer::demux"),
                       (os.path.join(P, "arp.rs"), "Arp::demux")):
        body = _fn_body(_non_test(path), r"fn demux\b[^{]*\{", what)
        if re.search(r"from_bytes\([^;]*?\)\s*\.(unwrap|expect)\(", body, flags=re.S):
            raise ExtractError(f"{what} unwraps the result of from_bytes: a panic site the model does not have")
    # the DNS responder / resolver propagate decode failures (F-C14-4)
    srv = _non_test(os.path.join(P, "dns", "dns_server.rs"))
    cli = _non_test(os.path.join(P, "dns", "dns_client.rs"))
    for src, what, pats in (
            (srv, "DnsServer", (r"\.recv\w*\([^;]*?\)\s*\.await\s*\.(unwrap|expect)\(", r"from_bytes\([^;]*?\)\s*\.(unwrap|expect)\(", r"query_name\(\)\s*\.(unwrap|expect)\(",
                               r"respond_to_query\([^;]*?\)\s*\.await\s*\.(unwrap|expect)\(")),
            (cli, "DnsClient::get_host_by_name", (r"\.recv\w*\([^;]*?\)\s*\.await\s*\.(unwrap|expect)\(", r"from_bytes\([^;]*?\)\s*\.(unwrap|expect)\(", r"from_utf8\([^;]*?\)\s*\.(unwrap|expect)\(",
                                                 r"get_mapping\(&name\)\s*\.(unwrap|expect)\("))):
        for pat in pats:
            if re.search(pat, src, flags=re.S):
                raise ExtractError(f"{what} unwraps a decode result (`{pat}`): a panic site the model (Dns.serverRespond / Dns.clientHandle) does not have")
    if re.search(r"rdata\[\d\]", cli) and not re.search(r"rdata\.len\(\)\s*<\s*4", cli):
        raise ExtractError("DnsClient::get_host_by_name indexes rdata[0..4] without the length check the model has")
    lines = ["-- GENERATED from /repo sources (arp_parsing.rs, dns_parsing.rs, dhcp_parsing.rs) by tools/extract.py on every check; do not edit",
             "namespace Elvis.Gen.CodecB",
             f"/-- the name delimiter literal of dns_parsing.rs (from_bytes x2, build x2) -/\ndef dnsDelim : UInt8 := {dns_delim}",
             f"/-- the string terminator literal of dhcp_parsing.rs (from_bytes x2, to_message x2) -/\ndef dhcpTerm : UInt8 := {dhcp_term}",
             "/-- `enum MessageType` discriminants (and `try_from` inverts them: checked by the extractor) -/",
             "def dhcpTypeCodes : List (String × Nat) := [" + ", ".join(f'("{n}", {c})' for n, c in mt) + "]",
             "/-- `enum Operation` discriminants (and `from_bytes` inverts them: checked by the extractor) -/",
             "def arpOperationCodes : List (String × Nat) := [" + ", ".join(f'("{n}", {c})' for n, c in op) + "]",
             f"def arpHtype : Nat := {_const(arp, 'HTYPE')}", f"def arpPtype : Nat := {_const(arp, 'PTYPE')}",
             f"def arpHlen : Nat := {_const(arp, 'HLEN')}", f"def arpPlen : Nat := {_const(arp, 'PLEN')}",
             f"def arpSize : Nat := {_const(arp, 'SIZE')}",
             "end Elvis.Gen.CodecB", ""]
    write_if_changed("CodecB.lean", "\n".join(lines))


def main():
    check_message_immutability()
    extract_codec_b()
    consts = ["-- GENERATED from /repo sources by tools/extract.py on every check; do not edit", "namespace Elvis.Gen", "end Elvis.Gen", ""]
    write_if_changed("Consts.lean", "\n".join(consts))


if __name__ == "__main__":
    try:
        main()
    except ExtractError as e:
        print("EXTRACT-ERROR:", e)
        sys.exit(1)
