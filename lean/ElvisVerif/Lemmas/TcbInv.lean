import ElvisVerif.Lemmas.Tcb
/-!
# Well-formedness of a TCB and what each block of `process_segment` preserves

`Tcb.Wf` is the invariant that makes every TCB operation total (no panic):
`SPACE_FOR_HEADERS ≤ mtu`, `RCV.WND = 65535` (the code never changes it), the buffered text
fits the window, and every parked segment carries at most `MAX_PAYLOAD` bytes.

`Rx s s'` says what an operation may have changed *as far as `Wf` is concerned*; every block
satisfies it, it is reflexive and transitive, and `Wf s → Rx s s' → Wf s'`.
-/
namespace Elvis.Tcp
open Elvis.ModCmp

/-- the largest TCP payload an IPv4 datagram can carry: 65535 - 20 -/
def MAX_PAYLOAD : Nat := 65515

namespace Tcb

/-- well-formedness (totality invariant) -/
structure Wf (s : Tcb) : Prop where
  mtu_ge : SPACE_FOR_HEADERS ≤ s.mtu.toNat
  rcv_wnd : s.rcv.wnd = 65535#16
  in_text : s.incoming.text.length ≤ s.rcv.wnd.toNat
  heap_text : ∀ seg ∈ s.incoming.segments, seg.text.length ≤ MAX_PAYLOAD

/-- in SYN-SENT nothing waits on the reorder heap (holds between calls) -/
def HeapIdle (s : Tcb) : Prop := s.state = .SynSent → s.incoming.segments = []

/-- `s'` differs from `s` only in fields `Wf` does not read, or in ways that keep it -/
structure Rx (s s' : Tcb) : Prop where
  mtu : s'.mtu = s.mtu
  wnd : s'.rcv.wnd = s.rcv.wnd
  heap : s'.incoming.segments = s.incoming.segments
  text : s'.incoming.text = s.incoming.text ∨ s'.incoming.text.length ≤ s'.rcv.wnd.toNat
  synsent : s'.state = .SynSent → s.state = .SynSent

theorem Rx.refl (s : Tcb) : Rx s s := ⟨rfl, rfl, rfl, Or.inl rfl, id⟩

theorem Rx.trans {a b c : Tcb} (h1 : Rx a b) (h2 : Rx b c) : Rx a c := by
  refine ⟨h2.mtu.trans h1.mtu, h2.wnd.trans h1.wnd, h2.heap.trans h1.heap, ?_, fun h => h1.synsent (h2.synsent h)⟩
  rcases h2.text with h | h
  · rcases h1.text with h' | h'
    · exact Or.inl (h.trans h')
    · right; rw [h, h2.wnd]; exact h'
  · exact Or.inr h

theorem Wf.of_rx {s s' : Tcb} (h : Wf s) (r : Rx s s') : Wf s' := by
  refine ⟨by rw [r.mtu]; exact h.mtu_ge, by rw [r.wnd]; exact h.rcv_wnd, ?_, by rw [r.heap]; exact h.heap_text⟩
  rcases r.text with h' | h'
  · rw [h', r.wnd]; exact h.in_text
  · exact h'

/-- `s'` has the same MTU, receive sequence space and incoming queues -/
structure Same (s s' : Tcb) : Prop where
  mtu : s'.mtu = s.mtu
  rcv : s'.rcv = s.rcv
  incoming : s'.incoming = s.incoming

theorem Same.refl (s : Tcb) : Same s s := ⟨rfl, rfl, rfl⟩
theorem Same.trans {a b c : Tcb} (h1 : Same a b) (h2 : Same b c) : Same a c :=
  ⟨h2.mtu.trans h1.mtu, h2.rcv.trans h1.rcv, h2.incoming.trans h1.incoming⟩

theorem Same.rx {s s' : Tcb} (h : Same s s') (hs : s'.state = .SynSent → s.state = .SynSent) : Rx s s' :=
  ⟨h.mtu, by rw [h.rcv], by rw [h.incoming], Or.inl (by rw [h.incoming]), hs⟩

theorem same_enqueueBuilt (s : Tcb) (h : Hdr) : Same s (s.enqueueBuilt h) := by
  have := enqueueBuilt_frame s h
  exact ⟨this.1, this.2.1, this.2.2.2.1⟩

theorem state_enqueueBuilt (s : Tcb) (h : Hdr) : (s.enqueueBuilt h).state = s.state :=
  (enqueueBuilt_frame s h).2.2.2.2.1

/-! ## `ack_established_processing` -/

theorem ackEstablishedProcessing_spec (s : Tcb) (seg : Hdr) :
    ∃ s' r, s.ackEstablishedProcessing seg = .ok (s', r) ∧ Same s s' ∧ s'.state = s.state := by
  unfold ackEstablishedProcessing
  split
  · exact ⟨_, _, rfl, Same.refl _, rfl⟩
  · split
    · rw [enqueue_eq]
      exact ⟨_, _, rfl, same_enqueueBuilt _ _, state_enqueueBuilt _ _⟩
    · refine ⟨_, _, rfl, ?_, ?_⟩
      · unfold removeAckedFromRetransmission
        split <;> exact ⟨rfl, rfl, rfl⟩
      · unfold removeAckedFromRetransmission
        split <;> rfl

/-! ## the blocks of `process_segment` -/

/-- `is_seq_ok` does not panic when the text is short enough for the `u32` sum -/
theorem isSeqOk_ok (s : Tcb) (tl seq : Seq) (syn fin : Bool) (h : tl.toNat ≤ MAX_PAYLOAD) :
    ∃ b, s.isSeqOk tl seq syn fin = .ok b := by
  unfold isSeqOk
  have : ¬ (tl.toNat + fin.toNat + syn.toNat ≥ 4294967296) := by
    unfold MAX_PAYLOAD at h
    cases fin <;> cases syn <;> simp <;> omega
  simp only [this, if_false]
  split
  · split <;> exact ⟨_, rfl⟩
  · split <;> exact ⟨_, rfl⟩

/-- block 1.  An early return leaves everything but the one-shot queue alone; falling through
    leaves the TCB unchanged and means: SYN-SENT, or the segment is acceptable. -/
theorem seqCheck_spec (s : Tcb) (seg : Hdr) (tl : Seq) (h : tl.toNat ≤ MAX_PAYLOAD) :
    ∃ s' r, seqCheck s seg tl = .ok (s', r) ∧ Same s s' ∧ s'.state = s.state ∧
      (r = none → s' = s ∧ (s.state = .SynSent ∨ s.isSeqOk tl seg.seq seg.ctl.syn seg.ctl.fin = .ok true)) := by
  unfold seqCheck
  obtain ⟨b, hb⟩ := isSeqOk_ok s tl seg.seq seg.ctl.syn seg.ctl.fin h
  split
  · exact ⟨_, _, rfl, Same.refl _, rfl, fun _ => ⟨rfl, Or.inl (by assumption)⟩⟩
  · rw [hb]
    cases b with
    | true => exact ⟨_, _, rfl, Same.refl _, rfl, fun _ => ⟨rfl, Or.inr rfl⟩⟩
    | false =>
      simp only [enqueueThen_eq]
      exact ⟨_, _, rfl, same_enqueueBuilt _ _, state_enqueueBuilt _ _, fun h => by simp at h⟩

/-- reasoning principle for `afterAckEstablished`: `ack_established_processing` never panics and
    only touches the send side and the queues -/
theorem afterAck_spec (t : Tcb) (seg : Hdr) (k : Tcb → ProcessSegmentResult → B) (P : B → Prop)
    (h : ∀ s1 r1, Same t s1 → s1.state = t.state → P (k s1 r1)) :
    P (afterAckEstablished (t.ackEstablishedProcessing seg) k) := by
  obtain ⟨s1, r1, h1, hs1, hst1⟩ := ackEstablishedProcessing_spec t seg
  unfold afterAckEstablished
  rw [h1]
  exact h s1 r1 hs1 hst1

/-- block 2 never panics and touches neither the receive side nor the MTU; it never enters
    or leaves SYN-SENT -/
theorem ackBlock_spec (s : Tcb) (seg : Hdr) :
    ∃ s' r, ackBlock s seg = .ok (s', r) ∧ Same s s' ∧ (s'.state = .SynSent ↔ s.state = .SynSent) := by
  unfold ackBlock
  split
  · exact ⟨_, _, rfl, Same.refl _, Iff.rfl⟩
  · split
    · -- SYN-SENT
      rename_i hst
      split
      · split
        · exact ⟨_, _, rfl, Same.refl _, Iff.rfl⟩
        · simp only [enqueueThen_eq]
          exact ⟨_, _, rfl, same_enqueueBuilt _ _, by rw [state_enqueueBuilt]⟩
      · split
        · split
          · refine ⟨_, _, rfl, ?_, ?_⟩
            · unfold removeAckedFromRetransmission; exact ⟨rfl, rfl, rfl⟩
            · unfold removeAckedFromRetransmission; exact Iff.rfl
          · exact ⟨_, _, rfl, Same.refl _, Iff.rfl⟩
        · simp only [enqueueThen_eq]
          exact ⟨_, _, rfl, same_enqueueBuilt _ _, by rw [state_enqueueBuilt]⟩
    · -- SYN-RECEIVED
      rename_i hst
      split
      · dsimp only
        refine afterAck_spec _ seg _
          (fun x => ∃ s' r, x = .ok (s', r) ∧ Same s s' ∧ (s'.state = .SynSent ↔ s.state = .SynSent)) ?_
        intro s1 r1 hs1 hst1
        have hsame : Same s s1 := ⟨hs1.mtu, hs1.rcv, hs1.incoming⟩
        have hne : ¬ s1.state = .SynSent := by rw [hst1]; simp
        split <;> exact ⟨_, _, rfl, hsame, by simp [hne, hst]⟩
      · simp only [enqueueThen_eq]
        exact ⟨_, _, rfl, same_enqueueBuilt _ _, by rw [state_enqueueBuilt]⟩
    iterate 3
      · -- ESTABLISHED | FIN-WAIT-2 | CLOSE-WAIT
        refine afterAck_spec _ seg _
          (fun x => ∃ s' r, x = .ok (s', r) ∧ Same s s' ∧ (s'.state = .SynSent ↔ s.state = .SynSent)) ?_
        intro s1 r1 hs1 hst1
        split <;> exact ⟨_, _, rfl, hs1, by rw [hst1]⟩
    · -- FIN-WAIT-1
      rename_i hst
      refine afterAck_spec _ seg _
        (fun x => ∃ s' r, x = .ok (s', r) ∧ Same s s' ∧ (s'.state = .SynSent ↔ s.state = .SynSent)) ?_
      intro s1 r1 hs1 hst1
      have hne : ¬ s1.state = .SynSent := by rw [hst1, hst]; simp
      dsimp only
      split <;> split <;> refine ⟨_, _, rfl, ?_, ?_⟩ <;>
        first
        | exact hs1
        | exact ⟨hs1.mtu, hs1.rcv, hs1.incoming⟩
        | simp [hne, hst]
    · -- CLOSING
      rename_i hst
      refine afterAck_spec _ seg _
        (fun x => ∃ s' r, x = .ok (s', r) ∧ Same s s' ∧ (s'.state = .SynSent ↔ s.state = .SynSent)) ?_
      intro s1 r1 hs1 hst1
      have hne : ¬ s1.state = .SynSent := by rw [hst1, hst]; simp
      dsimp only
      split <;> split <;> refine ⟨_, _, rfl, ?_, ?_⟩ <;>
        first
        | exact hs1
        | exact ⟨hs1.mtu, hs1.rcv, hs1.incoming⟩
        | simp [hne, hst]
    · -- LAST-ACK
      rename_i hst
      refine afterAck_spec _ seg _
        (fun x => ∃ s' r, x = .ok (s', r) ∧ Same s s' ∧ (s'.state = .SynSent ↔ s.state = .SynSent)) ?_
      intro s1 r1 hs1 hst1
      split
      · exact ⟨_, _, rfl, hs1, by rw [hst1]⟩
      · split <;> exact ⟨_, _, rfl, hs1, by rw [hst1]⟩
    · -- TIME-WAIT
      exact ⟨_, _, rfl, Same.refl _, Iff.rfl⟩

/-- block 3 changes nothing -/
theorem rstBlock_spec (s : Tcb) (seg : Hdr) : ∃ r, rstBlock s seg = .ok (s, r) := by
  unfold rstBlock
  split
  · exact ⟨_, rfl⟩
  · split
    · split
      · exact ⟨_, rfl⟩
      · split <;> exact ⟨_, rfl⟩
    · split <;> exact ⟨_, rfl⟩
    all_goals exact ⟨_, rfl⟩

/-- block 4 never panics.  Falling through means: no SYN outside SYN-SENT (TCB unchanged), or a
    SYN in SYN-SENT that made the connection ESTABLISHED with `RCV.NXT = SEG.SEQ + 1`. -/
theorem synBlock_spec (s : Tcb) (seg : Hdr) :
    ∃ s' r, synBlock s seg = .ok (s', r) ∧ Rx s s' ∧ s'.incoming = s.incoming ∧
      (r = none →
        (seg.ctl.syn = false ∧ s.state ≠ .SynSent ∧ s' = s) ∨
        (seg.ctl.syn = true ∧ s.state = .SynSent ∧ s'.rcv.nxt = seg.seq + 1)) := by
  unfold synBlock
  split
  · rename_i hsyn
    have hsyn' : seg.ctl.syn = false := by simpa using hsyn
    split
    · exact ⟨_, _, rfl, Rx.refl _, rfl, fun h => by simp at h⟩
    · rename_i hst
      exact ⟨_, _, rfl, Rx.refl _, rfl, fun _ => Or.inl ⟨hsyn', hst, rfl⟩⟩
  · rename_i hsyn
    have hsyn' : seg.ctl.syn = true := by simpa using hsyn
    split
    · rename_i hst
      dsimp only
      split
      · simp only [enqueueThen_eq]
        refine ⟨_, _, rfl, ?_, ?_, fun _ => Or.inr ⟨hsyn', hst, ?_⟩⟩
        · refine ⟨?_, ?_, ?_, Or.inl ?_, fun h => hst⟩ <;>
            simp [(enqueueBuilt_frame _ _).1, (enqueueBuilt_frame _ _).2.1, (enqueueBuilt_frame _ _).2.2.2.1]
        · simp [(enqueueBuilt_frame _ _).2.2.2.1]
        · simp [(enqueueBuilt_frame _ _).2.1]
      · simp only [enqueueThen_eq]
        refine ⟨_, _, rfl, ?_, ?_, fun h => by simp at h⟩
        · refine ⟨?_, ?_, ?_, Or.inl ?_, fun h => hst⟩ <;>
            simp [(enqueueBuilt_frame _ _).1, (enqueueBuilt_frame _ _).2.1, (enqueueBuilt_frame _ _).2.2.2.1]
        · simp [(enqueueBuilt_frame _ _).2.2.2.1]
    · simp only [enqueueThen_eq]
      refine ⟨_, _, rfl, (same_enqueueBuilt _ _).rx (by rw [state_enqueueBuilt]; exact id), ?_, fun h => by simp at h⟩
      exact (same_enqueueBuilt _ _).incoming

/-- block 5 does not panic when the buffered text fits the window, the segment text is at most
    `MAX_PAYLOAD` bytes and the asserted window test holds; the buffered text still fits. -/
theorem textBlock_spec (s : Tcb) (seg : Hdr) (text : List UInt8)
    (hin : s.incoming.text.length ≤ s.rcv.wnd.toNat) (hlen : text.length ≤ MAX_PAYLOAD)
    (hpre : text ≠ [] →
      (s.isInRcvWindow seg.seq || s.isInRcvWindow (seg.seq + BitVec.ofNat 32 text.length)) = true) :
    ∃ s' r, textBlock s seg text (BitVec.ofNat 32 text.length) = .ok (s', r) ∧ Rx s s' := by
  unfold textBlock
  split
  · exact ⟨_, _, rfl, Rx.refl _⟩
  · rename_i hne
    have hne' : text ≠ [] := by intro h; simp [h] at hne
    have hpre' := hpre hne'
    have hw := s.rcv.wnd.isLt
    have htl : (BitVec.ofNat 32 text.length).toNat = text.length := by
      simp only [BitVec.toNat_ofNat]; unfold MAX_PAYLOAD at hlen; omega
    split
    all_goals first
      | exact ⟨_, _, rfl, Rx.refl _⟩
      | (rw [if_neg (by simp [hpre'])]
         dsimp only
         generalize hA : (if s.rcv.nxt - seg.seq - BitVec.ofNat 32 seg.ctl.syn.toNat ≤ BitVec.ofNat 32 text.length
             then s.rcv.nxt - seg.seq - BitVec.ofNat 32 seg.ctl.syn.toNat else BitVec.ofNat 32 text.length) = a
         have ha : a.toNat ≤ text.length := by
           rw [← hA]
           split
           · rename_i h; rw [BitVec.le_def, htl] at h; exact h
           · rw [htl]; exact Nat.le_refl _
         rw [htl]
         have hmod : s.incoming.text.length % 4294967296 = s.incoming.text.length := Nat.mod_eq_of_lt (by omega)
         rw [hmod]
         rw [if_neg (by omega), if_neg (by omega)]
         generalize hacc : min (text.length - a.toNat) (s.rcv.wnd.toNat - s.incoming.text.length) = acc
         rw [if_neg (by omega), if_neg (by omega)]
         simp only [enqueueThen_eq]
         refine ⟨_, _, rfl, ?_⟩
         refine ⟨?_, ?_, ?_, Or.inr ?_, ?_⟩
         · simp [(enqueueBuilt_frame _ _).1]
         · simp [(enqueueBuilt_frame _ _).2.1]
         · simp [(enqueueBuilt_frame _ _).2.2.2.1]
         · simp only [(enqueueBuilt_frame _ _).2.2.2.1, (enqueueBuilt_frame _ _).2.1, List.length_append,
             List.length_take, List.length_drop]
           omega
         · simp only [state_enqueueBuilt]; exact id)

/-- block 6 never panics -/
theorem finBlock_spec (s : Tcb) (seg : Hdr) (tl : Seq) :
    ∃ s' r, finBlock s seg tl = .ok (s', r) ∧ Rx s s' := by
  unfold finBlock
  split
  · exact ⟨_, _, rfl, Rx.refl _⟩
  · dsimp only
    -- the optional "advance over the FIN and acknowledge it" step
    have key : ∃ s1, (if s.state ≠ .SynSent then
          if (decide (s.rcv.nxt = seg.seq + tl) || decide (s.rcv.nxt = seg.seq + tl + 1)) = true then
            ({ s with rcv.nxt := seg.seq + tl + 1 } : Tcb).enqueue
              ({ s with rcv.nxt := seg.seq + tl + 1 } : Tcb).ackHdr
          else Except.ok s
        else Except.ok s) = .ok s1 ∧ Rx s s1 ∧ s1.state = s.state := by
      split
      · split
        · rw [enqueue_eq]
          refine ⟨_, rfl, ?_, by rw [state_enqueueBuilt]⟩
          refine ⟨?_, ?_, ?_, Or.inl ?_, ?_⟩
          · simp [(enqueueBuilt_frame _ _).1]
          · simp [(enqueueBuilt_frame _ _).2.1]
          · simp [(enqueueBuilt_frame _ _).2.2.2.1]
          · simp [(enqueueBuilt_frame _ _).2.2.2.1]
          · rw [state_enqueueBuilt]; exact id
        · exact ⟨_, rfl, Rx.refl _, rfl⟩
      · exact ⟨_, rfl, Rx.refl _, rfl⟩
    obtain ⟨s1, h1, hr1, hst1⟩ := key
    rw [h1]
    dsimp only
    have mk : ∀ s2 : Tcb, s2.mtu = s1.mtu → s2.rcv = s1.rcv → s2.incoming = s1.incoming →
        (s2.state = .SynSent → s1.state = .SynSent) → Rx s s2 := fun s2 a b c d =>
      hr1.trans ((Same.mk a b c).rx d)
    split
    all_goals first
      | exact ⟨_, _, rfl, hr1⟩
      | exact ⟨_, _, rfl, mk _ rfl rfl rfl (fun h => by first | exact h | simp at h)⟩
      | (split <;> exact ⟨_, _, rfl, mk _ rfl rfl rfl (fun h => by first | exact h | simp at h)⟩)

/-! ## `process_segment` -/

@[simp] theorem andThen_none (s : Tcb) (f : Tcb → B) : B.andThen (.ok (s, none)) f = f s := rfl
@[simp] theorem andThen_some (s : Tcb) (r : ProcessSegmentResult) (f : Tcb → B) :
    B.andThen (.ok (s, some r)) f = .ok (s, some r) := rfl

/-- `is_seq_ok` for a non-empty text without SYN and a non-zero window is the two-ended window
    test -/
theorem isSeqOk_text (s : Tcb) (tl seq : Seq) (fin : Bool) (hl : 0 < tl.toNat)
    (hw : s.rcv.wnd ≠ 0) (h : s.isSeqOk tl seq false fin = .ok true) :
    (s.isInRcvWindow seq || s.isInRcvWindow (seq + BitVec.ofNat 32 (tl.toNat + fin.toNat + 0) - 1)) = true := by
  unfold isSeqOk at h
  dsimp only at h
  split at h
  · exact absurd h (by simp)
  · split at h
    · rename_i h0; exfalso; simp only [Bool.toNat_false] at h0; omega
    · simp only [Except.ok.injEq] at h
      simpa using h

/-- `process_segment` never panics on a well-formed TCB and a payload of at most `MAX_PAYLOAD`
    bytes, and keeps the TCB well-formed (`Rx`) -/
theorem processSegment_spec (s : Tcb) (segment : Segment) (h : Wf s)
    (hp : segment.text.length ≤ MAX_PAYLOAD) :
    ∃ s' r, s.processSegment segment = .ok (s', r) ∧ Rx s s' := by
  unfold processSegment
  dsimp only
  have htl : (BitVec.ofNat 32 segment.text.length).toNat = segment.text.length := by
    simp only [BitVec.toNat_ofNat]; unfold MAX_PAYLOAD at hp; omega
  obtain ⟨s1, r1, e1, same1, st1, fall1⟩ :=
    seqCheck_spec s segment.hdr (BitVec.ofNat 32 segment.text.length) (by rw [htl]; exact hp)
  rw [e1]
  cases r1 with
  | some r => exact ⟨_, _, rfl, same1.rx (by rw [st1]; exact id)⟩
  | none =>
    obtain ⟨rfl, hseq⟩ := fall1 rfl
    simp only [andThen_none]
    obtain ⟨s2, r2, e2, same2, st2⟩ := ackBlock_spec s1 segment.hdr
    rw [e2]
    have rx2 : Rx s1 s2 := same2.rx st2.1
    cases r2 with
    | some r => exact ⟨_, _, rfl, rx2⟩
    | none =>
      simp only [andThen_none]
      obtain ⟨r3, e3⟩ := rstBlock_spec s2 segment.hdr
      rw [e3]
      cases r3 with
      | some r => exact ⟨_, _, rfl, rx2⟩
      | none =>
        simp only [andThen_none]
        obtain ⟨s4, r4, e4, rx4, inc4, fall4⟩ := synBlock_spec s2 segment.hdr
        rw [e4]
        cases r4 with
        | some r => exact ⟨_, _, rfl, rx2.trans rx4⟩
        | none =>
          simp only [andThen_none]
          have wf4 : Wf s4 := h.of_rx (rx2.trans rx4)
          have pre : segment.text ≠ [] →
              (s4.isInRcvWindow segment.hdr.seq ||
                s4.isInRcvWindow (segment.hdr.seq + BitVec.ofNat 32 segment.text.length)) = true := by
            intro hne
            have hpos : 0 < (BitVec.ofNat 32 segment.text.length).toNat := by
              rw [htl]; exact List.length_pos_iff.2 hne
            rcases fall4 rfl with ⟨hsyn, hst, h42⟩ | ⟨_, _, hnxt⟩
            · -- no SYN, not SYN-SENT: the segment passed `is_seq_ok`
              have hns : s1.state ≠ .SynSent := fun hx => hst (st2.2 hx)
              rcases hseq with hx | hok
              · exact absurd hx hns
              · rw [hsyn] at hok
                have hwnd : s1.rcv.wnd ≠ 0 := by rw [h.rcv_wnd]; decide
                have := isSeqOk_text s1 _ _ _ hpos hwnd hok
                have hrcv : s2.rcv = s1.rcv := same2.rcv
                have hw2 : ∀ n, s2.isInRcvWindow n = s1.isInRcvWindow n := by
                  intro n; unfold isInRcvWindow; rw [hrcv]
                rw [h42, hw2, hw2]
                refine assert_of_seqOk s1 _ _ _ hpos ?_ this
                rw [htl, h.rcv_wnd]
                unfold MAX_PAYLOAD at hp
                have : (65535#16 : BitVec 16).toNat = 65535 := rfl
                omega
            · -- SYN in SYN-SENT: `RCV.NXT = SEG.SEQ + 1`
              rw [Bool.or_eq_true]; left
              rw [isInRcvWindow_iff, hnxt]
              right
              have : segment.hdr.seq - (segment.hdr.seq + 1) = 4294967295#32 := by bv_omega
              rw [this]; rfl
          obtain ⟨s5, r5, e5, rx5⟩ := textBlock_spec s4 segment.hdr segment.text wf4.in_text hp pre
          rw [e5]
          cases r5 with
          | some r => exact ⟨_, _, rfl, (rx2.trans rx4).trans rx5⟩
          | none =>
            simp only [andThen_none]
            obtain ⟨s6, r6, e6, rx6⟩ := finBlock_spec s5 segment.hdr (BitVec.ofNat 32 segment.text.length)
            rw [e6]
            cases r6 <;> exact ⟨_, _, rfl, ((rx2.trans rx4).trans rx5).trans rx6⟩

/-! ## `segment_arrives` -/

/-- the processing loop never panics, keeps `Wf`, and (with enough fuel) ends with an idle heap
    whenever the connection is still in SYN-SENT -/
theorem drain_spec (fuel : Nat) (s : Tcb) (h : Wf s) :
    ∃ s' r, drain fuel s = .ok (s', r) ∧ Wf s' ∧
      (s.incoming.segments.length < fuel → r = .Ok → HeapIdle s') := by
  induction fuel generalizing s with
  | zero => exact ⟨_, _, rfl, h, fun hlt => absurd hlt (Nat.not_lt_zero _)⟩
  | succ n ih =>
    unfold drain
    split
    · rename_i hpeek
      refine ⟨_, _, rfl, h, fun _ _ _ => ?_⟩
      unfold LHeap.peek at hpeek
      exact List.head?_eq_none_iff.1 hpeek
    · rename_i top hpeek
      split
      · rename_i hgate
        refine ⟨_, _, rfl, h, fun _ _ hst => ?_⟩
        simp [hst] at hgate
      · obtain ⟨rest, hpop⟩ := LHeap.pop_of_peek (le := segLe) hpeek
        rw [hpop]
        dsimp only
        have hmem := LHeap.mem_of_mem_pop hpop
        have wf0 : Wf { s with incoming.segments := rest } :=
          ⟨h.mtu_ge, h.rcv_wnd, h.in_text, fun seg hs => h.heap_text seg (hmem.2 seg hs)⟩
        obtain ⟨s1, r1, e1, rx1⟩ := processSegment_spec _ top wf0 (h.heap_text top hmem.1)
        rw [e1]
        dsimp only
        have wf1 : Wf s1 := wf0.of_rx rx1
        split
        · exact ⟨_, _, rfl, wf1, fun _ hr => by simp at hr⟩
        · obtain ⟨s2, r2, e2, wf2, idle2⟩ := ih s1 wf1
          refine ⟨_, _, e2, wf2, fun hlt hr => idle2 ?_ hr⟩
          have hl := LHeap.pop_length hpop
          have : s1.incoming.segments = rest := rx1.heap
          rw [this]
          omega

/-- `segment_arrives` never panics on a well-formed TCB and a payload of at most `MAX_PAYLOAD`
    bytes; the TCB stays well-formed and the heap idle in SYN-SENT -/
theorem segmentArrives_spec (s : Tcb) (segment : Segment) (h : Wf s) (hi : HeapIdle s)
    (hp : segment.text.length ≤ MAX_PAYLOAD) :
    ∃ s' r, s.segmentArrives segment = .ok (s', r) ∧ Wf s' ∧ (r = .Ok → HeapIdle s') := by
  unfold segmentArrives
  have htl : (BitVec.ofNat 32 segment.text.length).toNat ≤ MAX_PAYLOAD := by
    simp only [BitVec.toNat_ofNat]; unfold MAX_PAYLOAD at hp ⊢; omega
  obtain ⟨b, hb⟩ := isSeqOk_ok s (BitVec.ofNat 32 segment.text.length) segment.hdr.seq
    segment.hdr.ctl.syn segment.hdr.ctl.fin htl
  have push_case : ∃ s' r, drain
      (({ s with incoming.segments := LHeap.push segLe s.incoming.segments segment } : Tcb).incoming.segments.length + 1)
      { s with incoming.segments := LHeap.push segLe s.incoming.segments segment } = .ok (s', r) ∧
      Wf s' ∧ (r = .Ok → HeapIdle s') := by
    have wf0 : Wf { s with incoming.segments := LHeap.push segLe s.incoming.segments segment } :=
      ⟨h.mtu_ge, h.rcv_wnd, h.in_text, fun seg hs => by
        rcases LHeap.mem_push.1 hs with rfl | hs
        · exact hp
        · exact h.heap_text seg hs⟩
    obtain ⟨s1, r1, e1, wf1, idle1⟩ := drain_spec _ _ wf0
    exact ⟨_, _, e1, wf1, idle1 (Nat.lt_succ_self _)⟩
  dsimp only
  by_cases hst : s.state = .SynSent
  · rw [if_pos hst]
    exact push_case
  · rw [if_neg hst, hb]
    cases b with
    | true => exact push_case
    | false =>
      dsimp only
      rw [enqueue_eq]
      refine ⟨_, _, rfl, h.of_rx ((same_enqueueBuilt _ _).rx (by rw [state_enqueueBuilt]; exact id)), fun _ => ?_⟩
      unfold HeapIdle
      rw [state_enqueueBuilt, (same_enqueueBuilt _ _).incoming]
      exact hi

/-! ## the API calls -/

theorem segmentize_spec (maxSeg : Nat) (hm : maxSeg + BASE_HEADER_OCTETS ≤ 65535) (fuel : Nat) (s : Tcb) (q : Nat) :
    ∃ s', segmentize maxSeg fuel s q = .ok s' ∧ Same s s' ∧ s'.state = s.state := by
  induction fuel generalizing s q with
  | zero => exact ⟨_, rfl, Same.refl _, rfl⟩
  | succ n ih =>
    unfold segmentize
    dsimp only
    split
    · exact ⟨_, rfl, Same.refl _, rfl⟩
    · have hlen : (List.take (min (min maxSeg (s.snd.wnd.toNat - q)) s.outgoing.text.length) s.outgoing.text).length
          + BASE_HEADER_OCTETS ≤ 65535 := by
        rw [List.length_take]; omega
      rw [Hdr.build_eq _ _ hlen]
      dsimp only
      obtain ⟨s', e, same, st⟩ := ih
        { s with outgoing.text := s.outgoing.text.drop (min (min maxSeg (s.snd.wnd.toNat - q)) s.outgoing.text.length),
                 snd.nxt := s.snd.nxt + BitVec.ofNat 32
                   (List.take (min (min maxSeg (s.snd.wnd.toNat - q)) s.outgoing.text.length) s.outgoing.text).length,
                 outgoing.retransmit := s.outgoing.retransmit ++
                   [Transmit.new ⟨s.ackHdr.built,
                     List.take (min (min maxSeg (s.snd.wnd.toNat - q)) s.outgoing.text.length) s.outgoing.text⟩] }
        (q + min (min maxSeg (s.snd.wnd.toNat - q)) s.outgoing.text.length)
      exact ⟨s', e, ⟨same.mtu, same.rcv, same.incoming⟩, st⟩

theorem segmentizeIfOpen_spec (s : Tcb) (hge : SPACE_FOR_HEADERS ≤ s.mtu.toNat) :
    ∃ s', s.segmentizeIfOpen = .ok s' ∧ Same s s' ∧ s'.state = s.state := by
  unfold segmentizeIfOpen
  have hmtu := s.mtu.isLt
  have hm : s.mtu.toNat - SPACE_FOR_HEADERS + BASE_HEADER_OCTETS ≤ 65535 := by
    have : BASE_HEADER_OCTETS = 20 := rfl
    have : SPACE_FOR_HEADERS = 50 := rfl
    omega
  have seg := segmentize_spec (s.mtu.toNat - SPACE_FOR_HEADERS) hm (s.outgoing.text.length + 1) s
    s.outgoing.queuedBytes
  split
  all_goals first
    | (rw [if_neg (by omega)]; exact seg)
    | exact ⟨_, rfl, Same.refl _, rfl⟩

/-- `queue_fin` never panics and touches only the send side -/
theorem queueFin_spec (s : Tcb) : ∃ s', s.queueFin = .ok s' ∧ Same s s' ∧ s'.state = s.state := by
  unfold queueFin
  split
  · rw [enqueue_eq]
    dsimp only
    have := same_enqueueBuilt s s.finHdr.built
    exact ⟨_, rfl, ⟨this.mtu, this.rcv, this.incoming⟩, by simp only [state_enqueueBuilt]⟩
  · exact ⟨_, rfl, Same.refl _, rfl⟩

theorem finIfPending_spec (b : Bool) (s : Tcb) :
    ∃ s', finIfPending b s = .ok s' ∧ Same s s' ∧ s'.state = s.state := by
  unfold finIfPending
  split
  · exact queueFin_spec s
  · exact ⟨_, rfl, Same.refl _, rfl⟩

/-- `segments()` never panics on a well-formed TCB and touches only the send side -/
theorem segments_spec (s : Tcb) (h : Wf s) :
    ∃ s' out, s.segments = .ok (s', out) ∧ Same s s' ∧ s'.state = s.state := by
  unfold segments
  dsimp only
  obtain ⟨s1, e1, same1, st1⟩ := segmentizeIfOpen_spec { s with outgoing.oneshot := [] } h.mtu_ge
  rw [e1]
  dsimp only
  obtain ⟨s2, e2, same2, st2⟩ := finIfPending_spec s.finPending s1
  rw [e2]
  dsimp only
  have same : Same s s2 := ⟨same2.mtu.trans same1.mtu, same2.rcv.trans same1.rcv, same2.incoming.trans same1.incoming⟩
  split <;> exact ⟨_, _, rfl, ⟨same.mtu, same.rcv, same.incoming⟩, st2.trans st1⟩

theorem advanceRetransmission_spec (s : Tcb) (dt : Nat) :
    ∃ s', s.advanceRetransmission dt = .ok s' ∧ Same s s' ∧ s'.state = s.state := by
  unfold advanceRetransmission
  split
  · exact ⟨_, rfl, ⟨rfl, rfl, rfl⟩, rfl⟩
  · exact ⟨_, rfl, ⟨rfl, rfl, rfl⟩, rfl⟩

/-- `advance_time` never panics (both `Duration` subtractions are guarded) -/
theorem advanceTime_spec (s : Tcb) (dt : Nat) :
    ∃ s' r, s.advanceTime dt = .ok (s', r) ∧ Same s s' ∧ s'.state = s.state := by
  unfold advanceTime
  obtain ⟨s1, e1, same1, st1⟩ := advanceRetransmission_spec s dt
  rw [e1]
  dsimp only
  split
  · split
    · exact ⟨_, _, rfl, same1, st1⟩
    · exact ⟨_, _, rfl, ⟨same1.mtu, same1.rcv, same1.incoming⟩, st1⟩
  · exact ⟨_, _, rfl, same1, st1⟩

theorem send_same (s : Tcb) (m : List UInt8) : Same s (s.send m) ∧ (s.send m).state = s.state := by
  unfold send
  split <;> exact ⟨⟨rfl, rfl, rfl⟩, rfl⟩

/-- `receive` only empties the buffered text -/
theorem receive_rx (s : Tcb) : Rx s s.receive.1 ∧ s.receive.1.state = s.state := by
  unfold receive
  split <;> first
    | exact ⟨⟨rfl, rfl, rfl, Or.inr (Nat.zero_le _), id⟩, rfl⟩
    | exact ⟨Rx.refl _, rfl⟩

/-- `close` never panics and never enters SYN-SENT -/
theorem close_spec (s : Tcb) :
    ∃ s' r, s.close = .ok (s', r) ∧ Same s s' ∧ (s'.state = .SynSent → s.state = .SynSent) := by
  unfold close
  split
  · obtain ⟨s1, e1, same1, st1⟩ := queueFin_spec ({ s with state := .FinWait1 } : Tcb)
    rw [e1]
    exact ⟨_, _, rfl, ⟨same1.mtu, same1.rcv, same1.incoming⟩, fun h => by rw [st1] at h; simp at h⟩
  · obtain ⟨s1, e1, same1, st1⟩ := queueFin_spec ({ s with state := .FinWait1 } : Tcb)
    rw [e1]
    exact ⟨_, _, rfl, ⟨same1.mtu, same1.rcv, same1.incoming⟩, fun h => by rw [st1] at h; simp at h⟩
  · obtain ⟨s1, e1, same1, st1⟩ := queueFin_spec ({ s with state := .LastAck } : Tcb)
    rw [e1]
    exact ⟨_, _, rfl, ⟨same1.mtu, same1.rcv, same1.incoming⟩, fun h => by rw [st1] at h; simp at h⟩
  · exact ⟨_, _, rfl, Same.refl _, id⟩

/-- `abort` never panics -/
theorem abort_spec (s : Tcb) : ∃ s', s.abort = .ok s' ∧ Same s s' ∧ s'.state = s.state := by
  unfold abort
  split
  all_goals first
    | exact ⟨_, rfl, Same.refl _, rfl⟩
    | (dsimp only
       rw [enqueue_eq]
       have := same_enqueueBuilt ({ s with outgoing := {} } : Tcb)
         ((({ s with outgoing := {} } : Tcb).headerBuilder s.snd.nxt).withRst.withWnd s.rcv.wnd).built
       exact ⟨_, rfl, ⟨this.mtu, this.rcv, this.incoming⟩, by rw [state_enqueueBuilt]⟩)

/-- an actively opened TCB is well-formed when the MTU leaves room for the headers -/
theorem open_spec (lp rp : U16) (iss : Seq) (mtu : U16) (hm : SPACE_FOR_HEADERS ≤ mtu.toNat) :
    ∃ s, Tcb.open lp rp iss mtu = .ok s ∧ Wf s ∧ HeapIdle s := by
  unfold Tcb.open
  dsimp only
  rw [enqueue_eq]
  refine ⟨_, rfl, ?_, ?_⟩
  · refine Wf.of_rx ?_ ((same_enqueueBuilt _ _).rx (by rw [state_enqueueBuilt]; exact id))
    exact ⟨hm, rfl, Nat.zero_le _, fun _ h => by simp at h⟩
  · intro _
    rw [(same_enqueueBuilt _ _).incoming]

/-- a TCB created from LISTEN is well-formed -/
theorem listen_spec (segment : Segment) (iss : Seq) (mtu : U16) (hm : SPACE_FOR_HEADERS ≤ mtu.toNat)
    (hp : segment.text.length ≤ MAX_PAYLOAD) :
    ∃ r, segmentArrivesListen segment iss mtu = .ok r ∧
      ∀ tcb, r = some (.Tcb tcb) → Wf tcb ∧ HeapIdle tcb := by
  unfold segmentArrivesListen
  dsimp only
  split
  · exact ⟨_, rfl, fun _ h => by simp at h⟩
  · split
    · refine ⟨_, rfl, fun tcb h => ?_⟩
      cases hb : (Hdr.builder segment.hdr.dstPort segment.hdr.srcPort segment.hdr.ack).withRst.build 0 <;>
        simp [hb] at h
    · split
      · rw [enqueue_eq]
        dsimp only
        refine ⟨_, rfl, fun tcb h => ?_⟩
        simp only [Option.some.injEq, ListenResult.Tcb.injEq] at h
        subst h
        refine ⟨⟨?_, ?_, ?_, ?_⟩, ?_⟩
        · simp only [(enqueueBuilt_frame _ _).1]; exact hm
        · simp only [(enqueueBuilt_frame _ _).2.1]; rfl
        · simp only [(enqueueBuilt_frame _ _).2.2.2.1, (enqueueBuilt_frame _ _).2.1]; exact Nat.zero_le _
        · intro seg hs
          simp only [(enqueueBuilt_frame _ _).2.2.2.1] at hs
          rcases LHeap.mem_push.1 hs with rfl | hs
          · exact hp
          · simp at hs
        · intro hst
          simp only [state_enqueueBuilt] at hst
          simp at hst
      · exact ⟨_, rfl, fun _ h => by simp at h⟩

end Tcb
end Elvis.Tcp
