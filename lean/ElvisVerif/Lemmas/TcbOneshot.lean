import ElvisVerif.Lemmas.TcbNoop
/-!
# The one-shot output queue never influences behaviour

`pre p s` = `s` with the headers `p` put in front of its one-shot queue.  Every operation except
`segments()` and `abort` commutes with `pre p` (they only append to the queue and never read it);
`segments()` hands `p` to the network in front of its normal output and `abort` discards it, and
both end in exactly the state they would have reached without `p`.  Hence two TCBs that differ
only in their one-shot queues behave identically towards the application, forever.
-/
namespace Elvis.Tcp
open Elvis.ModCmp
namespace Tcb

/-- put `p` in front of the one-shot queue -/
def pre (p : List Hdr) (s : Tcb) : Tcb := { s with outgoing.oneshot := p ++ s.outgoing.oneshot }

/-- apply `g` to the TCB of a result -/
def mapT {α : Type} (g : Tcb → Tcb) (x : Except String (Tcb × α)) : Except String (Tcb × α) :=
  match x with
  | .error e => .error e
  | .ok (s, a) => .ok (g s, a)

@[simp] theorem mapT_ok {α : Type} (g : Tcb → Tcb) (s : Tcb) (a : α) : mapT g (.ok (s, a)) = .ok (g s, a) := rfl
@[simp] theorem mapT_error {α : Type} (g : Tcb → Tcb) (e : String) :
    mapT g (.error e : Except String (Tcb × α)) = .error e := rfl

theorem pre_nil (s : Tcb) : pre [] s = s := by
  cases s with
  | mk lp rp mtu ini st snd rcv out inc tmo => cases out; rfl

theorem pre_pre (p q : List Hdr) (s : Tcb) : pre p (pre q s) = pre (p ++ q) s := by
  unfold pre; simp [List.append_assoc]

theorem pre_enqueueBuilt (p : List Hdr) (s : Tcb) (h : Hdr) :
    (pre p s).enqueueBuilt h = pre p (s.enqueueBuilt h) := by
  unfold enqueueBuilt pre
  split <;> simp [List.append_assoc]

theorem pre_enqueueBuilt' (p : List Hdr) (s t : Tcb) (ht : t = pre p s) (h h' : Hdr) (hh : h' = h) :
    t.enqueueBuilt h' = pre p (s.enqueueBuilt h) := by
  subst ht hh; exact pre_enqueueBuilt p s _

/-- `enqueueThen` commutes when the continuation does -/
theorem pre_enqueueThen (p : List Hdr) (s t : Tcb) (ht : t = pre p s) (hb hb' : Hdr) (hh : hb' = hb)
    (k : Tcb → B) (hk : ∀ u, k (pre p u) = mapT (pre p) (k u)) :
    enqueueThen t hb' k = mapT (pre p) (enqueueThen s hb k) := by
  subst ht hh
  rw [enqueueThen_eq, enqueueThen_eq, pre_enqueueBuilt, hk]

theorem pre_ackEstablished (p : List Hdr) (s : Tcb) (seg : Hdr) :
    (pre p s).ackEstablishedProcessing seg = mapT (pre p) (s.ackEstablishedProcessing seg) := by
  unfold ackEstablishedProcessing
  simp only [enqueue_eq, apply_ite (mapT (pre p)), apply_ite (pre p), mapT_ok]
  rw [show (pre p s).enqueueBuilt (pre p s).ackHdr.built = pre p (s.enqueueBuilt s.ackHdr.built) from
    pre_enqueueBuilt p s _]
  rfl

/-- `afterAckEstablished` commutes when the continuation does -/
theorem pre_afterAck (p : List Hdr) (s t : Tcb) (ht : t = pre p s) (seg : Hdr)
    (k : Tcb → ProcessSegmentResult → B) (hk : ∀ u r, k (pre p u) r = mapT (pre p) (k u r)) :
    afterAckEstablished (t.ackEstablishedProcessing seg) k =
      mapT (pre p) (afterAckEstablished (s.ackEstablishedProcessing seg) k) := by
  subst ht
  rw [pre_ackEstablished]
  unfold afterAckEstablished
  cases s.ackEstablishedProcessing seg with
  | error e => rfl
  | ok q => obtain ⟨u, r⟩ := q; exact hk u r

theorem pre_seqCheck (p : List Hdr) (s : Tcb) (seg : Hdr) (tl : Seq) :
    seqCheck (pre p s) seg tl = mapT (pre p) (seqCheck s seg tl) := by
  unfold seqCheck
  have hs : (pre p s).state = s.state := rfl
  have hq : (pre p s).isSeqOk tl seg.seq seg.ctl.syn seg.ctl.fin = s.isSeqOk tl seg.seq seg.ctl.syn seg.ctl.fin := rfl
  rw [hs, hq]
  cases s.state <;> first
    | rfl
    | (cases s.isSeqOk tl seg.seq seg.ctl.syn seg.ctl.fin with
       | error e => rfl
       | ok b =>
         cases b with
         | true => rfl
         | false => exact pre_enqueueThen p s _ rfl _ _ rfl _ (fun u => rfl))

/-- push `mapT (pre p)` and `pre p` to the leaves of the `if` trees, then compare -/
macro "leaves" : tactic =>
  `(tactic| (first
      | rfl
      | (simp only [apply_ite (mapT (pre _)), apply_ite (pre _), mapT_ok, mapT_error]; rfl)))

theorem pre_ackBlock (p : List Hdr) (s : Tcb) (seg : Hdr) :
    ackBlock (pre p s) seg = mapT (pre p) (ackBlock s seg) := by
  unfold ackBlock
  by_cases hack : (!seg.ctl.ack) = true
  · rw [if_pos hack, if_pos hack]; rfl
  · rw [if_neg hack, if_neg hack]
    have hs : (pre p s).state = s.state := rfl
    rw [hs]
    cases hst : s.state with
    | SynSent =>
      dsimp only
      -- the three exits of SYN-SENT
      have e1 : enqueueThen (pre p s) ((pre p s).rstForAck seg) (fun s => .ok (s, some .InvalidAck)) =
          mapT (pre p) (enqueueThen s (s.rstForAck seg) (fun s => .ok (s, some .InvalidAck))) :=
        pre_enqueueThen p s _ rfl _ _ rfl _ (fun u => rfl)
      rw [e1]
      simp only [apply_ite (mapT (pre p)), mapT_ok]
      rfl
    | SynReceived =>
      dsimp only
      have e1 : enqueueThen (pre p s) ((pre p s).rstForAck seg) (fun s => .ok (s, none)) =
          mapT (pre p) (enqueueThen s (s.rstForAck seg) (fun s => .ok (s, none))) :=
        pre_enqueueThen p s _ rfl _ _ rfl _ (fun u => rfl)
      rw [e1]
      have e2 := pre_afterAck p
        { s with state := .Established, snd.wnd := seg.wnd, snd.wl1 := seg.seq, snd.wl2 := seg.ack }
        { pre p s with state := .Established, snd.wnd := seg.wnd, snd.wl1 := seg.seq, snd.wl2 := seg.ack }
        rfl seg (fun s r => if r = .Success then .ok (s, none) else .ok (s, some r))
        (fun u r => by simp only [apply_ite (mapT (pre p)), mapT_ok])
      rw [e2]
      simp only [apply_ite (mapT (pre p))]
      rfl
    | Established | FinWait2 | CloseWait =>
      exact pre_afterAck p s _ rfl seg _ (fun u r => by simp only [apply_ite (mapT (pre p)), mapT_ok])
    | FinWait1 | Closing =>
      refine pre_afterAck p s _ rfl seg _ (fun u r => ?_)
      simp only [apply_ite (mapT (pre p)), apply_ite (pre p), mapT_ok]
      rfl
    | LastAck =>
      refine pre_afterAck p s _ rfl seg _ (fun u r => ?_)
      have hf : (pre p u).isFinAcked = u.isFinAcked := rfl
      rw [hf]
      simp only [apply_ite (mapT (pre p)), mapT_ok]
    | TimeWait => rfl

theorem pre_rstBlock (p : List Hdr) (s : Tcb) (seg : Hdr) :
    rstBlock (pre p s) seg = mapT (pre p) (rstBlock s seg) := by
  unfold rstBlock
  have hs : (pre p s).state = s.state := rfl
  have hi : (pre p s).initiation = s.initiation := rfl
  have hr : (pre p s).rcv = s.rcv := rfl
  rw [hs, hi, hr]
  by_cases h : (!seg.ctl.rst) = true
  · rw [if_pos h, if_pos h]; rfl
  · rw [if_neg h, if_neg h]
    cases s.state <;> first
      | rfl
      | (cases s.initiation <;> rfl)
      | (simp only [apply_ite (mapT (pre p)), mapT_ok])

/-- split the `if`s of both sides in lockstep (their conditions are syntactically equal) -/
macro "lockstep" : tactic =>
  `(tactic| repeat' (first
      | rfl
      | (split <;> (rename_i hc; simp only [hc, if_true, if_false, ↓reduceIte, mapT_ok, mapT_error]))))

/-- `enqueueThen` on both sides: unify with the goal first, then discharge the side conditions -/
macro "enq" : tactic =>
  `(tactic| (refine pre_enqueueThen _ _ _ ?_ _ _ ?_ _ ?_ <;> first | rfl | (intro u; rfl)))

theorem pre_synBlock (p : List Hdr) (s : Tcb) (seg : Hdr) :
    synBlock (pre p s) seg = mapT (pre p) (synBlock s seg) := by
  unfold synBlock
  have hs : (pre p s).state = s.state := rfl
  by_cases h : (!seg.ctl.syn) = true
  · rw [if_pos h, if_pos h, hs]
    simp only [apply_ite (mapT (pre p)), mapT_ok]
  · rw [if_neg h, if_neg h, hs]
    cases s.state with
    | SynSent =>
      dsimp only
      have hsnd : (pre p s).snd = s.snd := rfl
      rw [hsnd]
      by_cases hc : modGt s.snd.una s.snd.iss = true
      · rw [if_pos hc, if_pos hc]
        enq
      · rw [if_neg hc, if_neg hc]
        enq
    | _ => exact pre_enqueueThen p s _ rfl _ _ rfl _ (fun u => rfl)

theorem pre_textBlock (p : List Hdr) (s : Tcb) (seg : Hdr) (text : List UInt8) (tl : Seq) :
    textBlock (pre p s) seg text tl = mapT (pre p) (textBlock s seg text tl) := by
  unfold textBlock
  have hs : (pre p s).state = s.state := rfl
  have hw : ∀ n, (pre p s).isInRcvWindow n = s.isInRcvWindow n := fun _ => rfl
  have hr : (pre p s).rcv = s.rcv := rfl
  have hi : (pre p s).incoming = s.incoming := rfl
  by_cases h : text.isEmpty = true
  · rw [if_pos h, if_pos h]; rfl
  · rw [if_neg h, if_neg h, hs]
    cases s.state <;> first
      | rfl
      | (dsimp only
         rw [hw, hw, hr, hi]
         by_cases h1 : (!(s.isInRcvWindow seg.seq || s.isInRcvWindow (seg.seq + tl))) = true
         · rw [if_pos h1, if_pos h1]; rfl
         · rw [if_neg h1, if_neg h1]
           generalize (if s.rcv.nxt - seg.seq - BitVec.ofNat 32 seg.ctl.syn.toNat ≤ tl
             then s.rcv.nxt - seg.seq - BitVec.ofNat 32 seg.ctl.syn.toNat else tl) = a
           by_cases h2 : tl.toNat < a.toNat
           · rw [if_pos h2, if_pos h2]; rfl
           · rw [if_neg h2, if_neg h2]
             by_cases h3 : s.rcv.wnd.toNat < s.incoming.text.length % 4294967296
             · rw [if_pos h3, if_pos h3]; rfl
             · rw [if_neg h3, if_neg h3]
               split
               · rfl
               · split
                 · rfl
                 · enq)

theorem pre_finBlock (p : List Hdr) (s : Tcb) (seg : Hdr) (tl : Seq) :
    finBlock (pre p s) seg tl = mapT (pre p) (finBlock s seg tl) := by
  unfold finBlock
  by_cases h : (!seg.ctl.fin) = true
  · rw [if_pos h, if_pos h]; rfl
  · rw [if_neg h, if_neg h]
    dsimp only
    have hs : (pre p s).state = s.state := rfl
    have hr : (pre p s).rcv = s.rcv := rfl
    rw [hs, hr]
    -- the optional "advance over the FIN" step, on both sides
    have key : ∀ (x y : Except String Tcb), y = x.map (pre p) →
        (match y with
          | .error e => (.error e : B)
          | .ok s => match s.state with
            | .SynReceived | .Established => .ok ({ s with state := .CloseWait }, none)
            | .FinWait1 =>
              if s.isFinAcked then
                .ok ({ s with state := .TimeWait, timeouts.timeWait := some TIME_WAIT }, none)
              else .ok ({ s with state := .Closing }, none)
            | .FinWait2 =>
              .ok ({ s with state := .TimeWait, timeouts.timeWait := some TIME_WAIT,
                            timeouts.retransmission := RTO }, none)
            | .TimeWait => .ok ({ s with timeouts.timeWait := some TIME_WAIT }, none)
            | _ => .ok (s, none)) =
        mapT (pre p) (match x with
          | .error e => (.error e : B)
          | .ok s => match s.state with
            | .SynReceived | .Established => .ok ({ s with state := .CloseWait }, none)
            | .FinWait1 =>
              if s.isFinAcked then
                .ok ({ s with state := .TimeWait, timeouts.timeWait := some TIME_WAIT }, none)
              else .ok ({ s with state := .Closing }, none)
            | .FinWait2 =>
              .ok ({ s with state := .TimeWait, timeouts.timeWait := some TIME_WAIT,
                            timeouts.retransmission := RTO }, none)
            | .TimeWait => .ok ({ s with timeouts.timeWait := some TIME_WAIT }, none)
            | _ => .ok (s, none)) := by
      intro x y hy
      subst hy
      cases x with
      | error e => rfl
      | ok u =>
        have hu : (pre p u).state = u.state := rfl
        have hf : (pre p u).isFinAcked = u.isFinAcked := rfl
        simp only [Except.map]
        rw [hu, hf]
        cases hst : u.state <;> first
          | rfl
          | (simp only [apply_ite (mapT (pre p)), mapT_ok]; rfl)
          | (simp only [hst]; rfl)
    apply key
    by_cases h1 : s.state ≠ .SynSent
    · rw [if_pos h1, if_pos h1]
      split
      · rw [enqueue_eq, enqueue_eq]
        simp only [Except.map]
        congr 1
        refine pre_enqueueBuilt' _ _ _ ?_ _ _ ?_ <;> rfl
      · rfl
    · rw [if_neg h1, if_neg h1]; rfl

/-- sequencing of blocks commutes with `pre p` when both parts do -/
theorem pre_andThen (p : List Hdr) (x y : B) (f g : Tcb → B) (hxy : y = mapT (pre p) x)
    (hfg : ∀ u, g (pre p u) = mapT (pre p) (f u)) : y.andThen g = mapT (pre p) (x.andThen f) := by
  subst hxy
  cases x with
  | error e => rfl
  | ok q =>
    obtain ⟨u, r⟩ := q
    cases r with
    | some r => rfl
    | none => exact hfg u

theorem pre_processSegment (p : List Hdr) (s : Tcb) (segment : Segment) :
    (pre p s).processSegment segment = mapT (pre p) (s.processSegment segment) := by
  unfold processSegment
  dsimp only
  have h1 := pre_seqCheck p s segment.hdr (BitVec.ofNat 32 segment.text.length)
  have h2 := pre_andThen p _ _ (fun s => ackBlock s segment.hdr) (fun s => ackBlock s segment.hdr) h1
    (fun u => pre_ackBlock p u segment.hdr)
  have h3 := pre_andThen p _ _ (fun s => rstBlock s segment.hdr) (fun s => rstBlock s segment.hdr) h2
    (fun u => pre_rstBlock p u segment.hdr)
  have h4 := pre_andThen p _ _ (fun s => synBlock s segment.hdr) (fun s => synBlock s segment.hdr) h3
    (fun u => pre_synBlock p u segment.hdr)
  have h5 := pre_andThen p _ _
    (fun s => textBlock s segment.hdr segment.text (BitVec.ofNat 32 segment.text.length))
    (fun s => textBlock s segment.hdr segment.text (BitVec.ofNat 32 segment.text.length)) h4
    (fun u => pre_textBlock p u segment.hdr segment.text (BitVec.ofNat 32 segment.text.length))
  have chain := pre_andThen p _ _
    (fun s => finBlock s segment.hdr (BitVec.ofNat 32 segment.text.length))
    (fun s => finBlock s segment.hdr (BitVec.ofNat 32 segment.text.length)) h5
    (fun u => pre_finBlock p u segment.hdr (BitVec.ofNat 32 segment.text.length))
  rw [chain]
  cases (((((seqCheck s segment.hdr (BitVec.ofNat 32 segment.text.length)).andThen fun s =>
      ackBlock s segment.hdr).andThen fun s => rstBlock s segment.hdr).andThen fun s =>
      synBlock s segment.hdr).andThen fun s =>
      textBlock s segment.hdr segment.text (BitVec.ofNat 32 segment.text.length)).andThen fun s =>
      finBlock s segment.hdr (BitVec.ofNat 32 segment.text.length) with
  | error e => rfl
  | ok q =>
    obtain ⟨u, r⟩ := q
    cases r <;> rfl

theorem pre_drain (p : List Hdr) (fuel : Nat) (s : Tcb) :
    drain fuel (pre p s) = mapT (pre p) (drain fuel s) := by
  induction fuel generalizing s with
  | zero => rfl
  | succ n ih =>
    unfold drain
    have hi : (pre p s).incoming = s.incoming := rfl
    have hs : (pre p s).state = s.state := rfl
    have hr : (pre p s).rcv = s.rcv := rfl
    rw [hi, hs, hr]
    cases LHeap.peek s.incoming.segments with
    | none => rfl
    | some top =>
      dsimp only
      by_cases hg : (decide (s.state ≠ .SynSent) && ModCmp.modGt top.hdr.seq s.rcv.nxt) = true
      · rw [if_pos hg, if_pos hg]; rfl
      · rw [if_neg hg, if_neg hg]
        cases LHeap.pop segLe s.incoming.segments with
        | mk o rest =>
          cases o with
          | none => rfl
          | some segment =>
            dsimp only
            have e := pre_processSegment p { s with incoming.segments := rest } segment
            erw [e]
            cases ({ s with incoming.segments := rest } : Tcb).processSegment segment with
            | error e => rfl
            | ok q =>
              obtain ⟨u, r⟩ := q
              dsimp only [mapT]
              by_cases hd : r.shouldDeleteTcb = true
              · rw [if_pos hd, if_pos hd]
              · rw [if_neg hd, if_neg hd]
                exact ih u

theorem pre_segmentArrives (p : List Hdr) (s : Tcb) (segment : Segment) :
    (pre p s).segmentArrives segment = mapT (pre p) (s.segmentArrives segment) := by
  unfold segmentArrives
  dsimp only
  have hs : (pre p s).state = s.state := rfl
  have hq : ∀ a b c d, (pre p s).isSeqOk a b c d = s.isSeqOk a b c d := fun _ _ _ _ => rfl
  have hi : (pre p s).incoming = s.incoming := rfl
  rw [hs, hq, hi]
  cases (if s.state = .SynSent then (.ok true : Except String Bool)
      else s.isSeqOk (BitVec.ofNat 32 segment.text.length) segment.hdr.seq segment.hdr.ctl.syn
        segment.hdr.ctl.fin) with
  | error e => rfl
  | ok b =>
    cases b with
    | false =>
      dsimp only
      rw [enqueue_eq, enqueue_eq]
      dsimp only [mapT]
      congr 2
      exact pre_enqueueBuilt p s _
    | true =>
      dsimp only
      exact pre_drain p _ { s with incoming.segments := LHeap.push segLe s.incoming.segments segment }

/-! ## the API calls -/

theorem pre_advanceTime (p : List Hdr) (s : Tcb) (dt : Nat) :
    (pre p s).advanceTime dt = mapT (pre p) (s.advanceTime dt) := by
  unfold advanceTime
  have e : (pre p s).advanceRetransmission dt = (s.advanceRetransmission dt).map (pre p) := by
    unfold advanceRetransmission
    have ht : (pre p s).timeouts = s.timeouts := rfl
    rw [ht]
    by_cases h1 : s.timeouts.retransmission < dt
    · simp only [gt_iff_lt, h1, ↓reduceIte]; rfl
    · simp only [gt_iff_lt, h1, ↓reduceIte]; rfl
  rw [e]
  cases s.advanceRetransmission dt with
  | error e => rfl
  | ok u =>
    simp only [Except.map]
    have ht : (pre p u).timeouts = u.timeouts := rfl
    rw [ht]
    cases u.timeouts.timeWait with
    | none => rfl
    | some tw =>
      dsimp only
      by_cases h1 : tw < dt
      · simp only [gt_iff_lt, h1, ↓reduceIte]; rfl
      · simp only [gt_iff_lt, h1, ↓reduceIte]; rfl

theorem pre_send (p : List Hdr) (s : Tcb) (m : List UInt8) : (pre p s).send m = pre p (s.send m) := by
  unfold send
  have hs : (pre p s).state = s.state := rfl
  rw [hs]
  cases s.state <;> rfl

theorem pre_receive (p : List Hdr) (s : Tcb) :
    (pre p s).receive = (pre p s.receive.1, s.receive.2) := by
  unfold receive
  have hs : (pre p s).state = s.state := rfl
  rw [hs]
  cases s.state <;> rfl

theorem pre_queueFin (p : List Hdr) (s : Tcb) :
    (pre p s).queueFin = match s.queueFin with
      | .error e => .error e
      | .ok t => .ok (pre p t) := by
  unfold queueFin
  have ht : (pre p s).outgoing.text = s.outgoing.text := rfl
  rw [ht]
  by_cases h : s.outgoing.text.isEmpty = true
  · rw [if_pos h, if_pos h, enqueue_eq, enqueue_eq]
    dsimp only
    have := pre_enqueueBuilt' p s (pre p s) rfl s.finHdr.built (pre p s).finHdr.built rfl
    rw [this]
    rfl
  · rw [if_neg h, if_neg h]

theorem pre_close (p : List Hdr) (s : Tcb) : (pre p s).close = mapT (pre p) s.close := by
  unfold close
  have hs : (pre p s).state = s.state := rfl
  rw [hs]
  have e1 : ({ pre p s with state := .FinWait1 } : Tcb) = pre p { s with state := .FinWait1 } := rfl
  have e2 : ({ pre p s with state := .LastAck } : Tcb) = pre p { s with state := .LastAck } := rfl
  cases s.state <;> first
    | rfl
    | (dsimp only
       rw [e1, pre_queueFin]
       cases ({ s with state := .FinWait1 } : Tcb).queueFin <;> rfl)
    | (dsimp only
       rw [e2, pre_queueFin]
       cases ({ s with state := .LastAck } : Tcb).queueFin <;> rfl)

/-- `segments()` hands the prefix to the network in front of its normal output.  The state it ends
    in is the one it would have reached without the prefix — except for ONE thing: sending anything
    at all re-arms the retransmission timer, so a non-empty prefix re-arms it even when nothing else
    was sent. -/
theorem pre_segments (p : List Hdr) (s : Tcb) (hp : p ≠ []) :
    (pre p s).segments =
      match s.segments with
      | .error e => .error e
      | .ok (s', out) =>
        .ok ({ s' with timeouts.retransmission := RTO }, (p.map fun h => (⟨h, []⟩ : Segment)) ++ out) := by
  unfold segments
  dsimp only
  have e : ({ pre p s with outgoing.oneshot := [] } : Tcb) = { s with outgoing.oneshot := [] } := rfl
  rw [e]
  have hf : (pre p s).finPending = s.finPending := rfl
  rw [hf]
  cases segmentizeIfOpen { s with outgoing.oneshot := [] } with
  | error e => rfl
  | ok u0 =>
    dsimp only
    cases finIfPending s.finPending u0 with
    | error e => rfl
    | ok u =>
    dsimp only
    have ho : (pre p s).outgoing.oneshot = p ++ s.outgoing.oneshot := rfl
    rw [ho]
    obtain ⟨h0, t0, rfl⟩ := List.exists_cons_of_ne_nil hp
    simp only [List.cons_append, List.map_cons, List.isEmpty_cons, Bool.false_eq_true, if_false,
      List.map_append, List.append_assoc]
    congr 2
    split <;> rfl

end Tcb
end Elvis.Tcp
