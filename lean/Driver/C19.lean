import Driver.Common
/-! Line-protocol handlers for C19 (sub-commands `c19` / `c19-*`). -/
namespace Driver.C19

def dispatch (_sub : String) (_i _o : IO.FS.Stream) : Option (IO Unit) := none

end Driver.C19
