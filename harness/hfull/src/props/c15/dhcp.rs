use hcommon::*;
pub fn run(_args: &Args) { unimplemented!() }
