import ElvisVerif.Lemmas.TcpRelTail
import ElvisVerif.Lemmas.TcpRelAcks
import ElvisVerif.Lemmas.TcpRelEmit
import ElvisVerif.Lemmas.TcpConvRound
/-!
# `close()` with unsent text still queued: the data, then the FIN; FIN-WAIT-2 / CLOSE-WAIT

`close_data_front`: a reachable steady state of the closed system (both ESTABLISHED, heaps / buffers / queues empty,
`RCV.NXT_peer = SND.NXT` both ways) in which A still holds unsent text (at most one window, 65535 bytes) and B has
nothing to send.  A's application calls `close()`: FIN-WAIT-1, no FIN yet (`fin_pending`).  First exchange phase: A
emits all its text followed by the FIN, numbered behind the last text byte; B takes the data in order, then the FIN
(CLOSE-WAIT), its application reads everything.  Second phase: B's ACKs — of every data segment, then of the FIN — take A
to FIN-WAIT-2 with an empty retransmission queue.  Both endpoints are calm (`RestX`), so `release_tail`
(`Lemmas/TcpRelTail.lean`) applies: `close_data_release`.

The ESTABLISHED twin of A is run alongside as far as the invariants of the close-free system (`Good`) are needed: what B
makes of A's data, and what its ACKs look like.
-/
namespace Elvis.Tcp
open Tcb Elvis.ModCmp Elvis.Tcp.Fin

namespace Tcb

theorem arriveList_append (a b : List Segment) : ∀ (t t1 : Tcb), arriveList t a = .ok t1 →
    arriveList t (a ++ b) = arriveList t1 b := by
  induction a with
  | nil => intro t t1 h; cases h; rfl
  | cons g rest ih =>
    intro t t1 h
    simp only [arriveList, List.cons_append] at h ⊢
    cases hg : t.segmentArrives g with
    | error e => rw [hg] at h; cases h
    | ok p =>
      obtain ⟨t2, r⟩ := p
      rw [hg] at h
      cases r with
      | Ok => exact ih t2 t1 h
      | Close => cases h

end Tcb

/-- `close A`, two exchange phases -/
def closeDataFront (s : Sys) : Except String Sys :=
  match s.step (.close .A) with
  | .error e => .error e
  | .ok (s1, _) =>
  match phase s1 with
  | .error e => .error e
  | .ok s2 => phase s2

section
variable {iss : SideId → Seq}

/-- **the closer sends its text, then the FIN; the peer acknowledges both** -/
theorem close_data_front (s : Sys) (hg : Good iss s) (ta tb : Tcb) (hs : Steady s ta tb)
    (qa : ta.outgoing.retransmit = []) (qb : tb.outgoing.retransmit = [])
    (oa : ta.outgoing.oneshot = []) (ob : tb.outgoing.oneshot = []) (tbt : tb.outgoing.text = [])
    (hne : ta.outgoing.text ≠ []) (hlen : ta.outgoing.text.length ≤ 65535) :
    ∃ s' ta' tb', closeDataFront s = .ok s' ∧ FinRun s s' ∧
      (s'.side .A).tcb = some ta' ∧ (s'.side .B).tcb = some tb' ∧
      ta'.state = .FinWait2 ∧ tb'.state = .CloseWait ∧ RestX .A ta' tb' ∧ RestX .B tb' ta' ∧
      (s'.side .A).submitted = (s.side .A).submitted ∧ (s'.side .B).submitted = (s.side .B).submitted ∧
      (s'.side .A).delivered = (s.side .A).delivered ∧ s.historyLen + 2 ≤ s'.historyLen := by
  have hsa : (s.side .A).tcb = some ta := hs.ha
  have hsb : (s.side .B).tcb = some tb := hs.hb
  have wndA : ta.snd.wnd = 65535#16 := (hg.ext.tcb .A ta hsa).swnd (by rw [hs.a.st]; simp)
  have h16 : (65535#16 : BitVec 16).toNat = 65535 := rfl
  have hfitA : ta.outgoing.text.length ≤ ta.snd.wnd.toNat - rtxBytes ta.outgoing.retransmit := by
    rw [qa, wndA, h16]; simp only [rtxBytes_nil]; omega
  -- both sides emit (A: the ESTABLISHED twin and the closer)
  obtain ⟨newA, ta1, outA, ta1', fin, eA, fA, eA', cf⟩ := segments_twin ta hs.a.st hs.a.mtu hfitA
  have eA' := eA' hne
  obtain ⟨s1, r1, st1, h1a, h1p, h1sub, _, h1len, h1new, h1old⟩ := emit_facts s .A ta ta1 outA hsa eA
  have h1b : (s1.side .B).tcb = some tb := by
    have : s1.side .B = s.side .B := h1p
    rw [this]; exact hsb
  obtain ⟨newB, tb1, outB, eB, fB⟩ := segments_fwd tb (by rw [hs.b.st]; trivial) hs.b.mtu
  obtain ⟨s2, r2, st2, h2b, h2p, h2sub, _, h2len, h2new, h2old⟩ := emit_facts s1 .B tb tb1 outB h1b eB
  have h2pa : s2.side .A = s1.side .A := h2p
  have h2a : (s2.side .A).tcb = some ta1 := by rw [h2pa]; exact h1a
  have r02 : PlainRun s s2 :=
    (PlainRun.step (op := .emit .A) (.refl _) trivial st1).trans (.step (op := .emit .B) (.refl _) trivial st2)
  have hsubA2 : (s2.side .A).submitted = (s.side .A).submitted := by rw [h2pa]; exact h1sub
  have hsubB2 : (s2.side .B).submitted = (s.side .B).submitted := by
    rw [h2sub]
    have : s1.side .B = s.side .B := h1p
    rw [this]
  have hroom2 : RoomH s2 := by
    have a := hg.room.1
    have b := hg.room.2
    exact ⟨by show (s2.side .A).submitted.length + 2 < _; rw [hsubA2]; exact a,
      by show (s2.side .B).submitted.length + 2 < _; rw [hsubB2]; exact b⟩
  have hg2 : Good iss s2 := ⟨(ext_run hg.conv hg.ext r02 hroom2).1, (ext_run hg.conv hg.ext r02 hroom2).2, hroom2⟩
  have oneA := oneshot_facts hg .A ta tb hsa hsb hs.a.st
  have sqB := squeeze_facts hg .B tb ta hsb hsa hs.a.st
  obtain ⟨houtA, haA⟩ := out_shape hg .A ta tb ta1 newA outA hsa hs.a fA
  obtain ⟨houtB, _⟩ := out_shape hg .B tb ta tb1 newB outB hsb hs.b fB
  -- B has nothing to send
  have hamtB : emitAmount tb = 0 := by unfold emitAmount; rw [tbt]; simp
  have hnewB : newB = [] := by
    have := dataRun_nil _ _ _ _ _ _ fB.run (by rw [fB.bytes, hamtB])
    exact List.map_eq_nil_iff.1 this
  have hob : outB = [] := by rw [houtB, ob, hnewB]; rfl
  subst hob
  have hnxtB1 : tb1.snd.nxt = tb.snd.nxt := by rw [fB.nxt, hamtB]; simp
  -- B takes A's data
  obtain ⟨tb2, eb2, b_st, b_heap, b_rcv, b_nxt, b_mtu, b_unf, b_una, _, b_text, _, _⟩ :=
    side_outcome hg2 .B tb tb1 ta ta1 newB newA [] outA h2b fB fA hs.b hs.a oneA sqB (hg.iss_eq .B tb hsb)
      (hg.sent_lt .B tb hsb) (fun tr htr => (hg.queue .B tb hsb tr htr).2)
  have hnA : ∀ j (hj : j < outA.length), s2.nth (s.historyLen + j) = some outA[j] := by
    intro j hj
    rw [h2old _ (by rw [h1len]; omega)]
    exact h1new j hj
  obtain ⟨s3, _, r23, h3b, h3p, h3sub, _, _, _⟩ :=
    batch_facts s2 .B s.historyLen outA tb1 tb2 h2b hnA eb2 (fun g hg' => haA g hg')
  have h3pa : s3.side .A = s2.side .A := h3p
  have h3a : (s3.side .A).tcb = some ta1 := by rw [h3pa]; exact h2a
  have hroom3 : RoomH s3 := by
    have a := hg.room.1
    have b := hg.room.2
    exact ⟨by show (s3.side .A).submitted.length + 2 < _; rw [h3pa, hsubA2]; exact a,
      by show (s3.side .B).submitted.length + 2 < _; rw [h3sub, hsubB2]; exact b⟩
  have r03 : PlainRun s s3 := r02.trans r23
  have hg3 : Good iss s3 := ⟨(ext_run hg.conv hg.ext r03 hroom3).1, (ext_run hg.conv hg.ext r03 hroom3).2, hroom3⟩
  -- what the invariants say about the twin `ta1` and about `tb2`
  obtain ⟨sbA, lpA, rpA⟩ := (hg3.conv.full.inv.link .A).snd ta1 h3a
  obtain ⟨sbB, lpB, rpB⟩ := (hg3.conv.full.inv.link .B).snd tb2 h3b
  have wB2 : tb2.rcv.wnd = 65535#16 := hg3.wnd .B tb2 h3b
  have wA : ta.rcv.wnd = 65535#16 := hg.wnd .A ta hsa
  have issA1 : ta1.snd.iss = iss .A := hg3.iss_eq .A ta1 h3a
  have roomA1 : ta1.sent + 1 < 2147483648 := by
    have := room_of_inv hg3.conv.c01 hg3.room .A ta1 h3a
    unfold Room at this; omega
  have sqA3 := squeeze_facts hg3 .A ta1 tb2 h3a h3b b_st
  have oneB3 := oneshot_facts hg3 .B tb2 ta1 h3b h3a b_st
  have qA1 := hg3.queue .A ta1 h3a
  have hsentA1 : off (iss .A) ta1.snd.nxt = ta1.sent := by unfold sent; rw [issA1]
  have hunaB2 : tb2.snd.una = tb2.snd.nxt := by rw [b_una, b_nxt, hnxtB1]
  have hrtxB2 : tb2.outgoing.retransmit = [] := by
    apply List.eq_nil_iff_forall_not_mem.2
    intro tr htr
    obtain ⟨k1, k2⟩ := hg3.queue .B tb2 h3b tr htr
    have hN := hg3.sent_lt .B tb2 h3b
    have hu : off (iss .B) tb2.snd.una = tb2.sent := by
      rw [hunaB2]; unfold sent; rw [hg3.iss_eq .B tb2 h3b]
    have := (keepFor_iff (iss .B) tb2.snd.una tr tb2.sent hN (by omega) k2).1 k1
    omega
  -- the FIN reaches B behind the data
  let gF : Segment := ⟨fin, []⟩
  let tb3 : Tcb := ({ tb2 with state := .CloseWait, rcv.nxt := tb2.rcv.nxt + 1, outgoing.oneshot := tb2.outgoing.oneshot ++ [tb2.finAckHdr] } : Tcb)
  have eF : tb2.segmentArrives gF = .ok (tb3, .Ok) :=
    arrive_fin_est tb2 gF b_st wB2 b_heap cf.isfin.rst cf.isfin.syn cf.isfin.fin cf.isfin.ackb cf.isfin.text
      (by rw [cf.isfin.seq, b_rcv])
      (by
        rw [cf.isfin.ack, fA.rcv, hs.b.sync, b_una]
        exact modLeq_self _)
  have aB : tb1.arriveList (outA ++ [gF]) = .ok tb3 := by
    rw [arriveList_append outA [gF] tb1 tb2 eb2]
    simp only [arriveList, eF]
  -- close A
  have st0 : s.step (.close .A) = .ok (s.setSide .A { s.side .A with tcb := some (fw ta) }, .closed .Ok) := by
    simp only [Sys.step, Op.side, hsa, close_pending ta hs.a.st hne]
  generalize hc0 : s.setSide .A { s.side .A with tcb := some (fw ta) } = c0 at st0
  have c0a : (c0.side .A).tcb = some (fw ta) := by rw [← hc0]; rfl
  have c0b : (c0.side .B).tcb = some tb := by rw [← hc0]; exact hsb
  have c0sa : (c0.side .A).submitted = (s.side .A).submitted := by rw [← hc0]; rfl
  have c0sb : (c0.side .B).submitted = (s.side .B).submitted := by rw [← hc0]; rfl
  have c0da : (c0.side .A).delivered = (s.side .A).delivered := by rw [← hc0]; rfl
  have c0len : c0.historyLen = s.historyLen := by rw [← hc0]; rfl
  -- phase 1: the data and the FIN
  have hbufA1' : ta1'.incoming.text = [] := by rw [cf.inc, fA.inc]; exact hs.a.buf
  obtain ⟨c1, ph1, r01, c1a, c1b, c1sa, c1sb, c1da, _, c1len⟩ :=
    phase_eval c0 (fw ta) tb ta1' tb1 ta1' tb3 (outA ++ [gF]) [] c0a c0b eA' eB aB rfl
      (fun g hg' => by
        rcases List.mem_append.1 hg' with h | h
        · exact haA g h
        · simp only [List.mem_singleton] at h
          subst h
          exact ⟨cf.src.trans lpA, cf.dst.trans rpA⟩)
      (fun g hg' => by cases hg')
  rw [receive_empty ta1' hbufA1'] at c1a c1da
  let tb4 : Tcb := ({ tb3 with incoming.text := [] } : Tcb)
  have hrB3 : tb3.receive.1 = tb4 := rfl
  rw [hrB3] at c1b
  -- phase 2: B's ACKs
  have hmA1' : ¬ ta1'.mtu.toNat < SPACE_FOR_HEADERS := by
    rw [cf.mtu, fA.mtu]; have := hs.a.mtu; omega
  have hmB4 : ¬ tb4.mtu.toNat < SPACE_FOR_HEADERS := by
    show ¬ tb2.mtu.toNat < _
    rw [b_mtu]; have := hs.b.mtu; omega
  have hrtxA1 : ∀ tr ∈ ta1.outgoing.retransmit, tr.needsTransmit = false := by
    intro tr htr
    rw [fA.rtx] at htr
    obtain ⟨t0, _, rfl⟩ := List.mem_map.1 htr
    rfl
  have eA2 := segments_notext_eq ta1' cf.text hmA1'
  have houtA2 : emitOut ta1' = [] := by
    unfold emitOut
    rw [cf.one, cf.rtx, List.filter_append]
    have h1 : ta1.outgoing.retransmit.filter (·.needsTransmit) = [] :=
      List.filter_eq_nil_iff.2 (fun tr htr => by rw [hrtxA1 tr htr]; simp)
    rw [h1]
    rfl
  rw [houtA2] at eA2
  have htB4 : tb4.outgoing.text = [] := by
    show tb2.outgoing.text = []
    rw [b_text, tbt]; simp
  have eB2 := segments_notext_eq tb4 htB4 hmB4
  have houtB2 : emitOut tb4 = (tb2.outgoing.oneshot ++ [tb2.finAckHdr]).map fun h => (⟨h, []⟩ : Segment) := by
    unfold emitOut
    show List.map _ (tb2.outgoing.oneshot ++ [tb2.finAckHdr]) ++
      List.map _ (List.filter _ tb2.outgoing.retransmit) = _
    rw [hrtxB2]
    simp
  rw [houtB2] at eB2
  -- A takes the ACKs
  have hN : ta1.sent + 1 < 2147483648 := roomA1
  have hnxtA1' : off (iss .A) (emitT ta1').snd.nxt = ta1.sent + 1 := by
    show off (iss .A) ta1'.snd.nxt = _
    rw [cf.nxt, off_add_one _ _ (by rw [hsentA1]; omega), hsentA1]
  have hunaA1' : off (iss .A) (emitT ta1').snd.una ≤ ta1.sent + 1 := by
    show off (iss .A) ta1'.snd.una ≤ _
    rw [cf.una]
    have := sqA3.1
    have := sqA3.2
    omega
  have hrcvA : (emitT ta1').rcv.nxt = tb2.snd.nxt := by
    show ta1'.rcv.nxt = _
    rw [cf.rcv, fA.rcv, hs.b.sync, b_nxt, hnxtB1]
  have hrcvB2 : off (iss .A) tb2.rcv.nxt = ta1.sent := by rw [b_rcv, hsentA1]
  obtain ⟨ta5, aA, lf⟩ := ackList_fwx (iss .A) (ta1.sent + 1) hN
    ((tb2.outgoing.oneshot ++ [tb2.finAckHdr]).map fun h => (⟨h, []⟩ : Segment)) (emitT ta1')
    (Or.inl cf.st) (by show ta1'.rcv.wnd = _; rw [cf.rcv, fA.rcv]; exact wA)
    (by show ta1'.incoming.segments = []; rw [cf.inc, fA.inc]; exact hs.a.heap) cf.text
    (by show ta1'.snd.iss = _; rw [cf.iss]; exact issA1) hnxtA1' hunaA1'
    (fun g hg' => by
      obtain ⟨h, hh, rfl⟩ := List.mem_map.1 hg'
      rcases List.mem_append.1 hh with hh | hh
      · obtain ⟨e1, e2, e3, e4, e5, e6, e7⟩ := oneB3.2 h hh
        have e7' : off (iss .A) h.ack ≤ off (iss .A) tb2.rcv.nxt := e7
        rw [hrcvB2] at e7'
        refine ⟨⟨e2, e3, e4, e5, rfl⟩, by rw [hrcvA]; exact e1, ?_, ?_⟩
        · show 1 ≤ off (iss .A) h.ack
          exact e6
        · show off (iss .A) h.ack ≤ ta1.sent + 1
          omega
      · simp only [List.mem_singleton] at hh
        subst hh
        have hack : (tb2.finAckHdr).ack = tb2.rcv.nxt + 1 := rfl
        have hoff : off (iss .A) (tb2.finAckHdr).ack = ta1.sent + 1 := by
          rw [hack, off_add_one _ _ (by rw [hrcvB2]; omega), hrcvB2]
        exact ⟨⟨rfl, rfl, rfl, rfl, rfl⟩, by rw [hrcvA]; rfl, by show 1 ≤ off _ (tb2.finAckHdr).ack; omega,
          by show off _ (tb2.finAckHdr).ack ≤ _; omega⟩)
    (fun tr htr => by
      have htr' : tr ∈ ta1'.outgoing.retransmit.map (fun x => ({ x with needsTransmit := false } : Transmit)) := htr
      obtain ⟨t0, h0, rfl⟩ := List.mem_map.1 htr'
      show keepFor ta1'.snd.una t0 = true
      rw [cf.una]
      rw [cf.rtx] at h0
      rcases List.mem_append.1 h0 with h0 | h0
      · exact (qA1 t0 h0).1
      · simp only [List.mem_singleton] at h0
        subst h0
        unfold keepFor
        show modLt ta1.snd.una (fin.seq + BitVec.ofNat 32 (Segment.segLen ⟨fin, []⟩)) = true
        have hsl : Segment.segLen ⟨fin, []⟩ = 1 := by
          unfold Segment.segLen
          rw [cf.isfin.syn, cf.isfin.fin]
          rfl
        have hseq : fin.seq = ta1.snd.nxt := cf.isfin.seq
        rw [hsl, hseq]
        have e1 : off (iss .A) (ta1.snd.nxt + BitVec.ofNat 32 1) = ta1.sent + 1 := by
          rw [off_add _ _ _ (by rw [hsentA1]; omega), hsentA1]
        refine (modLt_iff_off (iss .A) _ _ (by have := sqA3.1; have := sqA3.2; omega) (by rw [e1]; omega)).2 ?_
        rw [e1]
        have := sqA3.1
        have := sqA3.2
        omega)
  obtain ⟨c2, ph2, r12, c2a, c2b, c2sa, c2sb, c2da, _, c2len⟩ :=
    phase_eval c1 ta1' tb4 (emitT ta1') (emitT tb4) ta5 (emitT tb4) []
      ((tb2.outgoing.oneshot ++ [tb2.finAckHdr]).map fun h => (⟨h, []⟩ : Segment)) c1a c1b eA2 eB2 rfl aA
      (fun g hg' => by cases hg')
      (fun g hg' => by
        obtain ⟨h, hh, rfl⟩ := List.mem_map.1 hg'
        rcases List.mem_append.1 hh with hh | hh
        · have := sbB.oports h hh
          exact ⟨this.1.trans lpB, this.2.trans rpB⟩
        · simp only [List.mem_singleton] at hh
          subst hh
          exact ⟨lpB, rpB⟩)
  -- the final TCBs
  have hbufA5 : ta5.incoming.text = [] := by
    rw [lf.inc]; exact hbufA1'
  rw [receive_empty ta5 hbufA5] at c2a c2da
  have hbufB5 : (emitT tb4).incoming.text = [] := rfl
  rw [receive_empty (emitT tb4) hbufB5] at c2b
  -- SND.UNA has reached SND.NXT on A's side
  have hmax : maxAck (iss .A) ((tb2.outgoing.oneshot ++ [tb2.finAckHdr]).map fun h => (⟨h, []⟩ : Segment)) = ta1.sent + 1 := by
    have hack : (tb2.finAckHdr).ack = tb2.rcv.nxt + 1 := rfl
    have hoff : off (iss .A) (tb2.finAckHdr).ack = ta1.sent + 1 := by
      rw [hack, off_add_one _ _ (by rw [hrcvB2]; omega), hrcvB2]
    apply Nat.le_antisymm
    · refine maxAck_le _ _ _ (fun g hg' => ?_)
      obtain ⟨h, hh, rfl⟩ := List.mem_map.1 hg'
      rcases List.mem_append.1 hh with hh | hh
      · have e7 : off (iss .A) h.ack ≤ off (iss .A) tb2.rcv.nxt := (oneB3.2 h hh).2.2.2.2.2.2
        show off (iss .A) h.ack ≤ _
        rw [hrcvB2] at e7; omega
      · simp only [List.mem_singleton] at hh
        subst hh
        show off (iss .A) (tb2.finAckHdr).ack ≤ _
        omega
    · have hm : (⟨tb2.finAckHdr, []⟩ : Segment) ∈
          (tb2.outgoing.oneshot ++ [tb2.finAckHdr]).map fun h => (⟨h, []⟩ : Segment) :=
        List.mem_map.2 ⟨tb2.finAckHdr, List.mem_append_right _ (List.mem_singleton.2 rfl), rfl⟩
      have := maxAck_ge (iss .A) _ ⟨tb2.finAckHdr, []⟩ hm
      rw [← hoff]
      exact this
  have hu5 : off (iss .A) ta5.snd.una = ta1.sent + 1 := by
    rw [lf.una, hmax]
    omega
  have hun5 : ta5.snd.una = ta5.snd.nxt := by
    apply off_inj (base := iss .A)
    rw [hu5, lf.nxt, hnxtA1']
  have hst5 : ta5.state = .FinWait2 := lf.done (by simp) hun5
  have hrtx5 : ta5.outgoing.retransmit = [] := by
    apply List.eq_nil_iff_forall_not_mem.2
    intro tr htr
    obtain ⟨k1, k2⟩ := lf.rtx tr htr
    have k1' : tr ∈ ta1'.outgoing.retransmit.map (fun x => ({ x with needsTransmit := false } : Transmit)) := k1
    obtain ⟨t0, h0, rfl⟩ := List.mem_map.1 k1'
    have hend : txEnd ({ t0 with needsTransmit := false } : Transmit) = txEnd t0 := rfl
    have hle : off (iss .A) (txEnd t0) ≤ ta1.sent + 1 := by
      rw [cf.rtx] at h0
      rcases List.mem_append.1 h0 with h0 | h0
      · have := (qA1 t0 h0).2; omega
      · simp only [List.mem_singleton] at h0
        subst h0
        unfold txEnd
        show off (iss .A) (fin.seq + BitVec.ofNat 32 (Segment.segLen ⟨fin, []⟩)) ≤ _
        have hsl : Segment.segLen ⟨fin, []⟩ = 1 := by
          unfold Segment.segLen
          rw [cf.isfin.syn, cf.isfin.fin]
          rfl
        have hseq : fin.seq = ta1.snd.nxt := cf.isfin.seq
        rw [hsl, hseq, off_add _ _ _ (by rw [hsentA1]; omega), hsentA1]
        omega
    have := (keepFor_iff (iss .A) ta5.snd.una { t0 with needsTransmit := false } (ta1.sent + 1) hN (by omega)
      (by rw [hend]; exact hle)).1 k2
    rw [hend, hu5] at this
    omega
  refine ⟨c2, ta5, emitT tb4, ?_, ?_, c2a, c2b, hst5, rfl, ?_, ?_, ?_, ?_, ?_, ?_⟩
  · unfold closeDataFront
    rw [st0]
    dsimp only
    rw [ph1]
    dsimp only
    exact ph2
  · exact ((FinRun.step (op := .close .A) (.refl _) trivial st0).trans (FinRun.of_plain r01)).trans
      (FinRun.of_plain r12)
  · -- A is calm
    refine ⟨by rw [lf.inc]; show ta1'.incoming.segments = []; rw [cf.inc, fA.inc]; exact hs.a.heap, hbufA5,
      by rw [lf.otext]; exact cf.text, hrtx5,
      by rw [lf.one]; rfl, hun5, ?_, by rw [lf.rcv]; show ta1'.rcv.wnd = _; rw [cf.rcv, fA.rcv]; exact wA,
      by rw [lf.mtu]; exact hmA1',
      by rw [lf.lp]; show ta1'.localPort = _; rw [cf.lp]; exact lpA,
      by rw [lf.rp]; show ta1'.remotePort = _; rw [cf.rp]; exact rpA⟩
    show tb2.rcv.nxt + 1 = ta5.snd.nxt
    rw [lf.nxt, b_rcv]
    exact cf.nxt.symm
  · -- B is calm
    refine ⟨b_heap, rfl, htB4, by show tb2.outgoing.retransmit.map _ = []; rw [hrtxB2]; rfl, rfl, hunaB2, ?_, wB2, hmB4,
      lpB, rpB⟩
    show ta5.rcv.nxt = tb2.snd.nxt
    rw [lf.rcv]
    exact hrcvA
  · rw [c2sa, c1sa, c0sa]
  · rw [c2sb, c1sb, c0sb]
  · rw [c2da, c1da, c0da]; simp
  · rw [c2len, c1len, c0len]
    simp only [List.length_append, List.length_map, List.length_cons, List.length_nil]
    omega

/-- a steady side with nothing unsent: the peer's application has been handed everything it submitted
    (one direction of `done_stream`, `Lemmas/TcpConvRound.lean`) -/
theorem steady_stream {s : Sys} (hg : Good iss s) (x : SideId) (t u : Tcb) (ht : (s.side x).tcb = some t)
    (hu : (s.side x.peer).tcb = some u) (S : SteadyX t u) (S' : SteadyX u t) (htext : t.outgoing.text = []) :
    (s.side x.peer).delivered = (s.side x).submitted := by
  have tx := hg.tinv x t ht
  have tu := hg.tinv x.peer u hu
  rw [SideId.peer_peer] at tu
  obtain ⟨pre, hsub, hnxt⟩ := tx.out
  rw [htext, List.append_nil] at hsub
  have hns : u.state ≠ .SynSent := by rw [S'.st]; simp
  obtain ⟨hrn, hpre⟩ := tu.rcv1 hns
  rw [S'.buf, List.append_nil] at hpre
  rw [S'.buf] at hrn
  have hb := hg.room.side x
  have hlen := hpre.length_le
  have e : iss x + 1 + BitVec.ofNat 32 ((s.side x.peer).delivered.length + ([] : List UInt8).length)
      = iss x + 1 + BitVec.ofNat 32 pre.length := by rw [← hrn, ← hnxt]; exact S.sync
  have e2 : BitVec.ofNat 32 ((s.side x.peer).delivered.length + ([] : List UInt8).length) = BitVec.ofNat 32 pre.length := by
    generalize BitVec.ofNat 32 ((s.side x.peer).delivered.length + ([] : List UInt8).length) = p at e
    generalize BitVec.ofNat 32 pre.length = q at e
    bv_omega
  have e3 := congrArg BitVec.toNat e2
  simp only [BitVec.toNat_ofNat, List.length_nil, Nat.add_zero] at e3
  have hl : pre.length = (s.side x).submitted.length := by rw [hsub]
  exact hpre.eq_of_length (by omega)

/-- `close A` with text queued, two exchange phases; then `close B`, two exchange phases, `2·MSL + 1` ms on A's side -/
def closeDataRound (s : Sys) : Except String Sys :=
  match closeDataFront s with
  | .error e => .error e
  | .ok s1 => releaseTail s1

/-- **close with unsent text queued, then the peer closes: both TCBs are deleted** -/
theorem close_data_release (s : Sys) (hg : Good iss s) (ta tb : Tcb) (hs : Steady s ta tb)
    (qa : ta.outgoing.retransmit = []) (qb : tb.outgoing.retransmit = [])
    (oa : ta.outgoing.oneshot = []) (ob : tb.outgoing.oneshot = []) (tbt : tb.outgoing.text = [])
    (hne : ta.outgoing.text ≠ []) (hlen : ta.outgoing.text.length ≤ 65535) :
    ∃ s1 ta1 tb1 s2, closeDataFront s = .ok s1 ∧ FinRun s s1 ∧
      (s1.side .A).tcb = some ta1 ∧ (s1.side .B).tcb = some tb1 ∧
      ta1.state = .FinWait2 ∧ tb1.state = .CloseWait ∧ RestX .A ta1 tb1 ∧ RestX .B tb1 ta1 ∧
      (s1.side .A).submitted = (s.side .A).submitted ∧ (s1.side .B).submitted = (s.side .B).submitted ∧
      (s1.side .A).delivered = (s.side .A).delivered ∧
      closeDataRound s = .ok s2 ∧ releaseTail s1 = .ok s2 ∧ FinRun s1 s2 ∧
      (s2.side .A).tcb = none ∧ (s2.side .B).tcb = none ∧
      (s2.side .A).submitted = (s.side .A).submitted ∧ (s2.side .B).submitted = (s.side .B).submitted ∧
      (s2.side .A).delivered = (s.side .A).delivered ∧ (s2.side .B).delivered = (s1.side .B).delivered ∧
      s.historyLen + 4 ≤ s2.historyLen := by
  obtain ⟨s1, ta1, tb1, e1, r1, h1a, h1b, sa, sb, ca, cb, u1, u2, u3, l1⟩ :=
    close_data_front s hg ta tb hs qa qb oa ob tbt hne hlen
  obtain ⟨s2, e2, r2, na, nb, v1, v2, v3, v4, l2⟩ := release_tail s1 ta1 tb1 h1a h1b sa sb ca cb
  refine ⟨s1, ta1, tb1, s2, e1, r1, h1a, h1b, sa, sb, ca, cb, u1, u2, u3, ?_, e2, r2, na, nb, v1.trans u1, v2.trans u2,
    v3.trans u3, v4, by omega⟩
  unfold closeDataRound
  rw [e1]
  exact e2

end
end Elvis.Tcp
