/-
Model of `elvis_core::message::{Message, Chunk, SliceRange}`
(sim/elvis-core/src/message.rs, message/chunk.rs, message/slice_range.rs).

Function by function; `&mut self` methods return the new value, `assert!` and checked
`usize` subtraction are `Except` errors.  `Arc<Vec<u8>>` sharing is invisible here (values).
No imports: this file is linked into the native driver.
-/
namespace Elvis.Msg

/-- `Chunk { start, end, bytes }` -/
structure Chunk where
  bytes : List UInt8
  start : Nat
  stop : Nat
deriving Repr

namespace Chunk
/-- `Chunk::new` -/
def new (b : List UInt8) : Chunk := { bytes := b, start := 0, stop := b.length }
/-- `Chunk::len` : `self.end - self.start` (never underflows on well-formed chunks) -/
def len (c : Chunk) : Nat := c.stop - c.start
/-- `Chunk::as_slice` : `&self.bytes[self.start..self.end]` -/
def view (c : Chunk) : List UInt8 := (c.bytes.drop c.start).take (c.stop - c.start)
end Chunk

/-- `Message { chunks, len }` -/
structure Msg where
  chunks : List Chunk
  len : Nat
deriving Repr

/-- `SliceRange { start, len }` -/
structure SliceRange where
  start : Nat
  len : Option Nat
deriving Repr

/-- the six `From<Range…> for SliceRange` impls; `a..=b` computes `end + 1 - start` with
    checked subtraction (dev profile) -/
inductive RangeForm
  | range (a b : Nat)        -- a..b   : len = Range::len() = b - a saturating at 0
  | rangeFrom (a : Nat)      -- a..
  | rangeFull                -- ..
  | rangeIncl (a b : Nat)    -- a..=b  : len = b + 1 - a (panics when b + 1 < a)
  | rangeTo (b : Nat)        -- ..b
  | rangeToIncl (b : Nat)    -- ..=b
deriving Repr

def RangeForm.toSliceRange : RangeForm → Except String SliceRange
  | .range a b => .ok { start := a, len := some (b - a) }
  | .rangeFrom a => .ok { start := a, len := none }
  | .rangeFull => .ok { start := 0, len := none }
  | .rangeIncl a b => if b + 1 < a then .error "panic:sub-overflow:slice_range" else .ok { start := a, len := some (b + 1 - a) }
  | .rangeTo b => .ok { start := 0, len := some b }
  | .rangeToIncl b => .ok { start := 0, len := some (b + 1) }

/-- `Message::new` -/
def new (b : List UInt8) : Msg := { chunks := [Chunk.new b], len := b.length }

/-- `Message::header` -/
def header (m : Msg) (h : List UInt8) : Msg :=
  { chunks := Chunk.new h :: m.chunks, len := m.len + h.length }

/-- `Message::concatenate` -/
def concatenate (m o : Msg) : Msg :=
  { chunks := m.chunks ++ o.chunks, len := m.len + o.len }

/-- first loop of `slice_inner`: drop leading chunks with `head_len <= start` -/
def dropLeading : List Chunk → Nat → List Chunk × Nat
  | [], s => ([], s)
  | c :: cs, s => if c.len ≤ s then dropLeading cs (s - c.len) else (c :: cs, s)

/-- `if let Some(head) = front_mut() { head.start += start }` -/
def bumpHead : List Chunk → Nat → List Chunk
  | [], _ => []
  | c :: cs, s => { c with start := c.start + s } :: cs

/-- third loop + `drain(i..)` -/
def keep : List Chunk → Nat → List Chunk
  | [], _ => []
  | c :: cs, k => if k ≥ c.len then c :: keep cs (k - c.len) else [{ c with stop := c.start + k }]

def sliceChunks (cs : List Chunk) (s l : Nat) : List Chunk :=
  let r := dropLeading cs s
  keep (bumpHead r.1 r.2) l

/-- `Message::slice_inner` -/
def sliceInner (m : Msg) (r : SliceRange) : Except String Msg :=
  if r.start + r.len.getD 0 ≤ m.len then
    let newLen := r.len.getD (m.len - r.start)
    .ok { chunks := sliceChunks m.chunks r.start newLen, len := newLen }
  else .error "panic:assert:slice_inner"

/-- `Message::slice` -/
def slice (m : Msg) (f : RangeForm) : Except String Msg :=
  match f.toSliceRange with
  | .ok r => sliceInner m r
  | .error e => .error e

/-- loop of `Message::cut`: returns (removed chunks, remaining chunks) -/
def cutChunks : List Chunk → Nat → List Chunk × List Chunk
  | [], _ => ([], [])
  | c :: cs, n =>
    if c.len ≤ n then
      let r := cutChunks cs (n - c.len)
      (c :: r.1, r.2)
    else
      ((if n > 0 then [{ c with stop := c.start + n }] else []), { c with start := c.start + n } :: cs)

/-- `Message::cut` : (self afterwards, returned message) -/
def cut (m : Msg) (n : Nat) : Except String (Msg × Msg) :=
  if n ≤ m.len then
    let r := cutChunks m.chunks n
    .ok ({ chunks := r.2, len := m.len - n }, { chunks := r.1, len := n })
  else .error "panic:assert:cut"

/-- loop of `Message::remove_front` -/
def removeFrontChunks : List Chunk → Nat → List Chunk
  | [], _ => []
  | c :: cs, n => if c.len ≤ n then removeFrontChunks cs (n - c.len) else { c with start := c.start + n } :: cs

/-- `Message::remove_front` -/
def removeFront (m : Msg) (n : Nat) : Except String Msg :=
  if n ≤ m.len then .ok { chunks := removeFrontChunks m.chunks n, len := m.len - n }
  else .error "panic:assert:remove_front"

/-- `Message::iter().collect()` = `to_vec` -/
def toBytes (m : Msg) : List UInt8 := m.chunks.flatMap Chunk.view

/-- `impl PartialEq for Message` : `self.iter().eq(other.iter())` -/
def beq (a b : Msg) : Bool := toBytes a == toBytes b

/-! ### pool machine: the operation language of the correspondence check -/

inductive Op
  | new (b : List UInt8)
  | header (i : Nat) (h : List UInt8)
  | concat (i j : Nat)            -- pool[i].concatenate(pool[j].clone())
  | slice (i : Nat) (f : RangeForm)
  | cut (i n : Nat)               -- pushes the returned message onto the pool
  | removeFront (i n : Nat)
  | clone (i : Nat)               -- pushes a clone
deriving Repr

/-- A panicking op leaves the pool as it was (the harness restores the pre-op clone of the
    target, because a `&mut` method that panicked half-way has no defined value). -/
def step (pool : List Msg) : Op → Except String (List Msg)
  | .new b => .ok (pool ++ [new b])
  | .header i h => match pool[i]? with
    | some m => .ok (pool.set i (header m h))
    | none => .error "bad-op"
  | .concat i j => match pool[i]?, pool[j]? with
    | some m, some o => .ok (pool.set i (concatenate m o))
    | _, _ => .error "bad-op"
  | .slice i f => match pool[i]? with
    | some m => match slice m f with
      | .ok m' => .ok (pool.set i m')
      | .error e => .error e
    | none => .error "bad-op"
  | .cut i n => match pool[i]? with
    | some m => match cut m n with
      | .ok (m', r) => .ok (pool.set i m' ++ [r])
      | .error e => .error e
    | none => .error "bad-op"
  | .removeFront i n => match pool[i]? with
    | some m => match removeFront m n with
      | .ok m' => .ok (pool.set i m')
      | .error e => .error e
    | none => .error "bad-op"
  | .clone i => match pool[i]? with
    | some m => .ok (pool ++ [m])
    | none => .error "bad-op"

/-! ### the specification: the same operations on plain byte vectors -/
namespace Spec

def slice (v : List UInt8) (f : RangeForm) : Except String (List UInt8) :=
  match f.toSliceRange with
  | .error e => .error e
  | .ok r =>
    if r.start + r.len.getD 0 ≤ v.length then
      .ok ((v.drop r.start).take (r.len.getD (v.length - r.start)))
    else .error "panic:assert:slice_inner"

def step (pool : List (List UInt8)) : Op → Except String (List (List UInt8))
  | .new b => .ok (pool ++ [b])
  | .header i h => match pool[i]? with
    | some v => .ok (pool.set i (h ++ v))
    | none => .error "bad-op"
  | .concat i j => match pool[i]?, pool[j]? with
    | some v, some w => .ok (pool.set i (v ++ w))
    | _, _ => .error "bad-op"
  | .slice i f => match pool[i]? with
    | some v => match slice v f with
      | .ok v' => .ok (pool.set i v')
      | .error e => .error e
    | none => .error "bad-op"
  | .cut i n => match pool[i]? with
    | some v => if n ≤ v.length then .ok (pool.set i (v.drop n) ++ [v.take n]) else .error "panic:assert:cut"
    | none => .error "bad-op"
  | .removeFront i n => match pool[i]? with
    | some v => if n ≤ v.length then .ok (pool.set i (v.drop n)) else .error "panic:assert:remove_front"
    | none => .error "bad-op"
  | .clone i => match pool[i]? with
    | some v => .ok (pool ++ [v])
    | none => .error "bad-op"

end Spec

/-- run a whole op sequence; a failing op is skipped (pool unchanged), as in the harness -/
def run (pool : List Msg) : List Op → List Msg
  | [] => pool
  | op :: ops => match step pool op with
    | .ok p => run p ops
    | .error _ => run pool ops

def Spec.run (pool : List (List UInt8)) : List Op → List (List UInt8)
  | [] => pool
  | op :: ops => match Spec.step pool op with
    | .ok p => Spec.run p ops
    | .error _ => Spec.run pool ops

end Elvis.Msg
