import ElvisVerif.Lemmas.Reasm
/-!
# C11 — IPv4 reassembly rebuilds exactly the datagrams that were fragmented

Property theorems only (model: `Model/Reasm.lean`, `Base/Heap.lean`; lemmas: `Lemmas/Reasm.lean`,
`Lemmas/Heap.lean`).  The model has two behaviours: `Cfg.fixed` is the code in the repository
(after the two `fix:` commits), `Cfg.orig` the code as found.  The full theorems are about
`Cfg.fixed`; the two counterexample theorems document what was wrong in `Cfg.orig`.

Setting of the theorems: `Datagram H B` is an original datagram (basic header, offset 0, MF clear,
payload `B` of 1…65515 octets) with identifier `id = (src, dst, protocol, identification)`.
`PieceOf H B f` says `f` is a fragment of it — C10 shows that every piece produced by the
fragmenter along any chain of MTUs is one (`c11_fragments_are_pieces`).  An operation sequence is
*any* list of packets and expiry callbacks in which the packets addressed to `id` are fragments
of `(H, B)` (`GoodOp`) — repeated, overlapping (from different chains), in any order, interleaved
with arbitrary traffic for other identifiers and with arbitrary expiry callbacks.
-/
namespace Elvis.Reasm
open Elvis.Frag

/-! ### the running example (also the witness of the two defects) -/

/-- a 16-octet datagram and its two 8-octet fragments -/
def exH : Hdr :=
  { ihl := 5, tos := 0, totalLength := 36, ident := 7, fragOffset := 0, flags := 0, ttl := 64,
    proto := 17, checksum := 0, src := 1, dst := 2 }
def exB : List UInt8 := [1, 2, 3, 4, 5, 6, 7, 8, 9, 10, 11, 12, 13, 14, 15, 16]
def exF1 : Hdr := { exH with totalLength := 28, flags := 1 }
def exF2 : Hdr := { exH with totalLength := 28, fragOffset := 1 }
def exId : BufId := BufId.ofHdr exH

/-- payload lengths of the datagrams returned by a run (0 for anything else) -/
def returnedLengths (os : List Out) : List Nat :=
  os.map fun o => match o with | .res (.complete _ b) => b.length | _ => 0

/-- buffer presence before/after each expiry callback of a run -/
def cullEffects (os : List Out) : List (Bool × Bool) :=
  os.filterMap fun o => match o with | .culled a b => some (a, b) | _ => none

/-- the hypotheses are satisfiable: the example is a datagram and its fragments are pieces of it -/
example : Datagram exH exB := ⟨rfl, rfl, by decide, by decide, rfl, Or.inl rfl⟩
example : PieceOf exH exB (exF1, exB.take 8) :=
  ⟨by unfold SameFields; decide, rfl, by decide, by decide, by decide, by decide, by decide, by decide⟩
example : PieceOf exH exB (exF2, exB.drop 8) :=
  ⟨by unfold SameFields; decide, rfl, by decide, by decide, by decide, by decide, by decide, by decide⟩

/-! ### the defects of the code as found -/

/-- **F-C11-1** (code as found): the first fragment delivered twice is appended twice — a
    24-octet payload is returned for a 16-octet datagram.  Fixed code: 16 octets. -/
theorem c11_duplicate_counterexample :
    returnedLengths (run Cfg.orig Reassembly.new
      [.pkt exF1 (exB.take 8), .pkt exF1 (exB.take 8), .pkt exF2 (exB.drop 8)]).2 = [0, 0, 24] ∧
    returnedLengths (run Cfg.fixed Reassembly.new
      [.pkt exF1 (exB.take 8), .pkt exF1 (exB.take 8), .pkt exF2 (exB.drop 8)]).2 = [0, 0, 16] := by
  decide

/-- **F-C11-2** (code as found): datagram A completes (its first arrival issued the token
    `(id, 1)`); datagram B reuses the identification and its first arrival gets epoch 1 again; A's
    stale timer frees B's buffer and B is never returned although all of it arrived.
    Fixed code: the stale token frees nothing and B is returned. -/
theorem c11_stale_token_counterexample :
    let ops : List Op :=
      [.pkt exF2 (exB.drop 8), .pkt exF1 (exB.take 8),          -- A: token (id,1), then complete
       .pkt exF2 (exB.drop 8),                                  -- B: first arrival
       .cull exId 1,                                            -- A's timer
       .pkt exF1 (exB.take 8)]                                  -- rest of B
    (cullEffects (run Cfg.orig Reassembly.new ops).2 = [(true, false)] ∧
      returnedLengths (run Cfg.orig Reassembly.new ops).2 = [0, 16, 0, 0, 0]) ∧
    (cullEffects (run Cfg.fixed Reassembly.new ops).2 = [(true, true)] ∧
      returnedLengths (run Cfg.fixed Reassembly.new ops).2 = [0, 16, 0, 0, 16]) := by
  decide

/-! ### C10 ⟶ C11 -/

/-- **What the fragmenter produces is what the reassembler is proved correct for**: every piece
    that arrives after any chain of MTUs ≥ 68 is a `PieceOf` the original datagram. -/
theorem c11_fragments_are_pieces (H : Hdr) (B : List UInt8) (mtus : List Nat) (l : List Frag)
    (dg : Datagram H B) (hdf : mayFragment H.flags = true) (hm : ∀ m ∈ mtus, 68 ≤ m)
    (e : chain mtus [(H, B)] = .ok l) : ∀ f ∈ l, PieceOf H B f := by
  have pre : PreG H B := ⟨dg.ihl, dg.tl, by have := dg.tl; have := dg.max; omega,
    by have := dg.fo; have := dg.max; omega⟩
  obtain ⟨l', e', p, _⟩ := chain_pieces H B pre hdf mtus [(H, B)] H.totalLength
    (fun m hmm => by have := hm m hmm; omega) (Pieces.single H B dg.tl) (by simp)
  rw [e] at e'; cases e'
  exact Pieces.pieceOf dg p

/-! ### completion and correctness -/

/-- **A datagram is returned exactly when the pieces received since its last completion cover
    it.**  After any operation sequence `ops`, let `g` be the fragments received for `id` since its
    buffer was last freed (by a completion, a flush or an expiry — `track` reads this off the
    results of the run).  The next fragment `(h, b)` for `id` makes `receive_packet` return a
    datagram iff `g ++ [(h, b)]` contains a last fragment and covers every block of the datagram;
    otherwise it returns `Incomplete` for this `id`.  It never panics. -/
theorem c11_complete_iff {H : Hdr} {B : List UInt8} {id : BufId} (dg : Datagram H B)
    (ops : List Op) (good : ∀ op ∈ ops, GoodOp H B id op)
    (h : Hdr) (b : List UInt8) (hid : BufId.ofHdr h = id) (pf : PieceOf H B (h, b)) :
    let rg := track id (Reassembly.new, []) ops
    let o := (step Cfg.fixed rg.1 (.pkt h b)).2
    ((∃ hd msg, o = .res (.complete hd msg)) ↔ Covered B.length (rg.2 ++ [(h, b)])) ∧
    ((∃ t e, o = .res (.incomplete t id e)) ↔ ¬ Covered B.length (rg.2 ++ [(h, b)])) := by
  intro rg o
  have inv := track_inv dg ops (Reassembly.new, []) (rinv_new H B id) good
  rcases receive_id dg inv h b hid pf with ⟨r', e, hc, _⟩ | ⟨r', t, ep, e, hnc, _⟩
  · have ho : o = .res (.complete H B) := by
      show (step Cfg.fixed (track id (Reassembly.new, []) ops).1 (.pkt h b)).2 = _
      simp only [step, e]
    constructor
    · exact ⟨fun _ => hc, fun _ => ⟨H, B, ho⟩⟩
    · constructor
      · rintro ⟨t, ep, h'⟩; rw [ho] at h'; cases h'
      · intro hn; exact absurd hc hn
  · have ho : o = .res (.incomplete t id ep) := by
      show (step Cfg.fixed (track id (Reassembly.new, []) ops).1 (.pkt h b)).2 = _
      simp only [step, e]
    constructor
    · constructor
      · rintro ⟨hd, msg, h'⟩; rw [ho] at h'; cases h'
      · intro hc; exact absurd hc hnc
    · exact ⟨fun _ => hnc, fun _ => ⟨t, ep, ho⟩⟩

/-- **What is returned is the original header and payload, byte for byte** — for every arrival
    order, every interleaving with other datagrams and expiry callbacks, fragments arriving any
    number of times, and fragments of the same datagram made by different MTU chains. -/
theorem c11_correct {H : Hdr} {B : List UInt8} {id : BufId} (dg : Datagram H B)
    (ops : List Op) (good : ∀ op ∈ ops, GoodOp H B id op)
    (h : Hdr) (b : List UInt8) (hid : BufId.ofHdr h = id) (pf : PieceOf H B (h, b))
    (hd : Hdr) (msg : List UInt8)
    (e : (step Cfg.fixed (track id (Reassembly.new, []) ops).1 (.pkt h b)).2 =
      .res (.complete hd msg)) : hd = H ∧ msg = B := by
  have inv := track_inv dg ops (Reassembly.new, []) (rinv_new H B id) good
  rcases receive_id dg inv h b hid pf with ⟨r', e', _, _⟩ | ⟨r', t, ep, e', _, _⟩
  · simp only [step, e'] at e
    cases e; exact ⟨rfl, rfl⟩
  · simp only [step, e'] at e
    cases e

/-! ### isolation -/

/-- **Fragments of datagrams that differ in source, destination, protocol or identification
    never mix**: an operation that does not address `id` (a packet with another identifier, an
    expiry for another identifier) leaves the buffer of `id` exactly as it was; and what a packet
    returns depends on nothing but the buffer of its own identifier (and the epoch floor, which
    only numbers the expiry tokens).  Together with `c11_correct`, which allows arbitrary foreign
    traffic, no piece ever crosses from one identifier to another. -/
theorem c11_isolation (cfg : Cfg) (r : Reassembly) (op : Op) (id : BufId) (hne : ¬ op.concerns id) :
    lookup id (step cfg r op).1.segments = lookup id r.segments :=
  step_lookup_ne cfg r op id hne

/-- any amount of foreign traffic (packets and expiries of other identifiers, panicking or not)
    leaves the buffer of `id` exactly as it was -/
theorem c11_isolation_run (cfg : Cfg) (id : BufId) : ∀ (ops : List Op) (r : Reassembly),
    (∀ op ∈ ops, ¬ op.concerns id) →
    lookup id (run cfg r ops).1.segments = lookup id r.segments := by
  intro ops
  induction ops with
  | nil => intro r _; rfl
  | cons op ops ih =>
    intro r h
    simp only [run]
    rw [ih _ (fun o ho => h o (by simp [ho]))]
    exact step_lookup_ne cfg r op id (h op (by simp))

theorem c11_isolation_result (cfg : Cfg) (r1 r2 : Reassembly) (h : Hdr) (b : List UInt8)
    (hl : lookup (BufId.ofHdr h) r1.segments = lookup (BufId.ofHdr h) r2.segments)
    (hf : r1.floor = r2.floor) :
    (step cfg r1 (.pkt h b)).2 = (step cfg r2 (.pkt h b)).2 := by
  simp only [step, Reassembly.receive, Reassembly.bufferFor, hl, hf]
  by_cases hs : (isLast h.flags && decide (h.fragOffset = 0)) = true
  · simp only [hs, if_true]
  · simp only [hs]
    unfold Reassembly.receiveInto
    cases (match lookup (BufId.ofHdr h) r2.segments with
      | some s => s
      | none => Segment.newAt (if cfg.floor = true then r2.floor else 0)).receive cfg h b with
    | error _ => rfl
    | ok p =>
      obtain ⟨seg', res⟩ := p
      cases res with
      | none => rfl
      | some q => rfl

/-! ### expiry -/

/-- An expiry callback frees the buffer exactly when its token is live, and then only that one. -/
theorem c11_cull_iff (cfg : Cfg) (r : Reassembly) (id : BufId) (e : Nat) :
    ((r.contains id = true ∧ (r.maybeCull cfg id e).contains id = false) ↔ Live r id e) ∧
    (¬ Live r id e → r.maybeCull cfg id e = r) ∧
    (∀ k, k ≠ id → lookup k (r.maybeCull cfg id e).segments = lookup k r.segments) := by
  refine ⟨?_, ?_, fun k hk => maybeCull_lookup_ne cfg r id k e (Ne.symm hk)⟩
  · simp only [Reassembly.contains, Reassembly.maybeCull, Live]
    cases hl : lookup id r.segments with
    | none => simp
    | some s =>
      by_cases he : s.epoch = e
      · simp [he, free_lookup_self]
      · simp [he, hl]
  · intro hn
    simp only [Reassembly.maybeCull, Live] at hn ⊢
    cases hl : lookup id r.segments with
    | none => rfl
    | some s =>
      by_cases he : s.epoch = e
      · exact absurd ⟨s, hl, he⟩ hn
      · simp [he]

/-- **An incomplete datagram is discarded once its timer expires without new fragments, but not
    while fragments keep arriving.**  Let an arrival for `id` (in any state `r`) return
    `Incomplete(timeout, id, e)`.  After any further operations `post`, the callback
    `maybe_cull_segment(id, e)` frees the buffer iff no fragment for `id` arrived in `post` and the
    token was not already used; every later arrival makes the token harmless for ever — also
    across completion and re-use of the identification (F-C11-2). -/
theorem c11_expiry (r : Reassembly) (h : Hdr) (b : List UInt8) (r' : Reassembly) (t e : Nat)
    (id : BufId) (hstep : step Cfg.fixed r (.pkt h b) = (r', .res (.incomplete t id e)))
    (post : List Op) :
    id = BufId.ofHdr h ∧ Live r' id e ∧
    (Live (run Cfg.fixed r' post).1 id e ↔
      ∀ p ∈ post.zip (run Cfg.fixed r' post).2, ¬ Disturbs id e p.1 p.2) := by
  have hl : id = BufId.ofHdr h ∧ Live r' id e := by
    simp only [step] at hstep
    cases hr : r.receive Cfg.fixed h b with
    | error _ => simp [hr] at hstep
    | ok p =>
      obtain ⟨r2, o⟩ := p
      simp only [hr, Prod.mk.injEq, Out.res.injEq] at hstep
      obtain ⟨rfl, rfl⟩ := hstep
      rcases receive_shape r h b r2 _ hr with ⟨_, _, _, hd, msg, hc⟩ | ⟨s', hs', _, _, ho⟩
      · cases hc
      · cases ho
        exact ⟨rfl, s', hs', rfl⟩
  exact ⟨hl.1, hl.2, live_run post r' hl.2⟩

end Elvis.Reasm
