import ElvisVerif.Model.IpGen
/-
Model of the DHCP exchange: `elvis::applications::dhcp_server::DhcpServer::demux`,
`elvis_core::protocols::dhcp::dhcp_client::DhcpClient::{start, demux}` and the two fields of
`DhcpMessage` they look at (`msg_type`, `your_ip`).

A transition system over an explicit bag of datagrams in flight.  The scheduler/network is the
`Act` argument: any packet may be delivered next (`deliver i`), duplicated (`dup i`) or lost
(`drop i`), clients start in any order (`start c`).  `release c` is an environment action the
shipped client does not have (it never sends `Release`; the server handles it): the client
forgets its address and sends `Release(your_ip)`.

Server replies go to `caller`, the session the datagram arrived on: `Packet.client` names it.
`unwrap()` on an exhausted pool is the panic site the code marks with a TODO.
`offered` / `owner` are ghost fields (never read by the transitions).
No imports outside the project: linked into the native driver.
-/
namespace Elvis.Dhcp
open Elvis.IpGen

/-- `dhcp_parsing::MessageType` -/
inductive MsgType
  | discover | offer | request | decline | ack | nack | release
deriving Repr, DecidableEq

def MsgType.name : MsgType → String
  | .discover => "discover" | .offer => "offer" | .request => "request" | .decline => "decline"
  | .ack => "ack" | .nack => "nack" | .release => "release"

/-- one datagram in flight -/
structure Packet where
  /-- `true`: client → server (port 67); `false`: server → client -/
  toServer : Bool
  /-- which client's session it travels on -/
  client : Nat
  typ : MsgType
  yourIp : Nat
deriving Repr, DecidableEq

structure World where
  /-- `DhcpServer.ip_generator` -/
  gen : Gen
  /-- `DhcpClient.ip_address` of every client -/
  clients : List (Option Nat)
  /-- datagrams in flight -/
  net : List Packet
  /-- ghost: every `(client, ip)` the server ever put into an Offer -/
  offered : List (Nat × Nat)
  /-- ghost: outstanding leases `(ip, client, release under way)` -/
  owner : List (Nat × Nat × Bool)

/-- `DhcpServer::new(_, ip_range)` and `n` fresh `DhcpClient::new` -/
def World.init (pool : Range) (n : Nat) : World :=
  { gen := IpGen.new pool, clients := List.replicate n none, net := [], offered := [], owner := [] }

/-- `self.ip_generator.write().unwrap().fetch_ip().unwrap()` on an exhausted pool -/
def exhaustedPanic : String := "panic:unwrap:DhcpServer::demux.fetch_ip"
def errBadClient : String := "bad-client"
def errBadIndex : String := "bad-index"
def errNothingToRelease : String := "nothing-to-release"

/-- `DhcpServer::demux` on a message of type `typ` / `your_ip = y` arriving on client `c`'s
    session: new generator, replies, ghost updates -/
def serverDemux (w : World) (c : Nat) (typ : MsgType) (y : Nat) : Except String World :=
  match typ with
  | .discover =>
    match fetchIp w.gen with
    | .error e => .error e
    | .ok (_, none) => .error exhaustedPanic
    | .ok (g', some ip) =>
      .ok { w with gen := g', net := w.net ++ [⟨false, c, .offer, ip⟩],
                   offered := (c, ip) :: w.offered, owner := (ip, c, false) :: w.owner }
  | .request => .ok { w with net := w.net ++ [⟨false, c, .ack, y⟩] }
  | .release =>
    match returnIp w.gen y with
    | .error e => .error e
    | .ok g' => .ok { w with gen := g', owner := w.owner.filter (fun e => e.1 != y) }
  | _ => .ok w     -- `Err(DemuxError::Other)`: dropped

/-- `DhcpClient::demux` -/
def clientDemux (w : World) (c : Nat) (typ : MsgType) (y : Nat) : World :=
  match typ with
  | .offer => { w with net := w.net ++ [⟨true, c, .request, y⟩] }
  | .ack => { w with clients := w.clients.set c (some y) }
  | _ => w         -- `Err(DemuxError::Other)`: dropped

inductive Act
  /-- `DhcpClient::start` of client `c` (after the barrier): send Discover -/
  | start (c : Nat)
  /-- the network delivers (and consumes) in-flight datagram number `i` -/
  | deliver (i : Nat)
  /-- the network duplicates in-flight datagram number `i` -/
  | dup (i : Nat)
  /-- the network loses in-flight datagram number `i` -/
  | drop (i : Nat)
  /-- client `c` gives its address back -/
  | release (c : Nat)
deriving Repr

def World.step (w : World) : Act → Except String World
  | .start c =>
    if c < w.clients.length then .ok { w with net := w.net ++ [⟨true, c, .discover, 0⟩] }
    else .error errBadClient
  | .deliver i =>
    match w.net[i]? with
    | none => .error errBadIndex
    | some p =>
      let w1 := { w with net := w.net.eraseIdx i }
      if p.toServer then serverDemux w1 p.client p.typ p.yourIp
      else .ok (clientDemux w1 p.client p.typ p.yourIp)
  | .dup i =>
    match w.net[i]? with
    | none => .error errBadIndex
    | some p => .ok { w with net := w.net ++ [p] }
  | .drop i =>
    match w.net[i]? with
    | none => .error errBadIndex
    | some _ => .ok { w with net := w.net.eraseIdx i }
  | .release c =>
    match w.clients[c]? with
    | some (some a) =>
      .ok { w with clients := w.clients.set c none, net := w.net ++ [⟨true, c, .release, a⟩],
                   owner := w.owner.map (fun e => if e.1 == a then (e.1, e.2.1, true) else e) }
    | _ => .error errNothingToRelease

/-! ### driver helpers (text form) -/

def parseAct : List String → Option Act
  | ["start", c] => c.toNat?.map .start
  | ["deliver", i] => i.toNat?.map .deliver
  | ["dup", i] => i.toNat?.map .dup
  | ["drop", i] => i.toNat?.map .drop
  | ["release", c] => c.toNat?.map .release
  | _ => none

def Packet.show (p : Packet) : String :=
  s!"{if p.toServer then "S" else "C"}{p.client}:{p.typ.name}:{p.yourIp}"

/-- observable state: client addresses, datagrams in flight, the address the server would offer next -/
def World.summary (w : World) : String :=
  let cs := w.clients.map fun | some a => toString a | none => "-"
  let nx := match fetchIp w.gen with
    | .ok (_, some a) => toString a
    | .ok (_, none) => "none"
    | .error e => "E:" ++ e
  s!"clients=[{",".intercalate cs}] net=[{",".intercalate (w.net.map Packet.show)}] next={nx}"

end Elvis.Dhcp
