import ElvisVerif.Lemmas.TcpAckLocal
/-!
# The acknowledgment invariant of a pair of endpoints, without the `Sys` plumbing

`AckCore tx ty ly hist py`: `tx` = the TCB (if any) of endpoint X — sender of data, receiver of
ACKs —, `ty` = the TCB (if any) of its peer Y — the acknowledger —, `ly` = "Y has a LISTEN
binding", `hist` = the history of everything emitted, `py` = Y's port.

While both TCBs exist (`t`, `u`), with `R = top ISS_X u` (= `RCV.NXT_Y − ISS_X` outside SYN-SENT, 0 in
SYN-SENT):

* every header on Y's queues, every history element from Y's port and every segment parked in
  X's reorder heap acknowledges (if it has the ACK bit) a number in `[ISS_X + 1, ISS_X + R]`;
* `RCV.NXT_Y` is past X's SYN; `SND.UNA_X ≤ ISS_X + R`; X in SYN-RECEIVED has `SND.UNA = ISS`.

While Y only listens: nothing in the history, on X's queues or in X's heap has the ACK bit, and
X has nothing acknowledged.
-/
namespace Elvis.Tcp
open Elvis.ModCmp
namespace Tcb

theorem off_eq_zero {base x : Seq} (h : off base x = 0) : x = base := by
  unfold off at h
  have e : x - base = 0 := by
    apply BitVec.eq_of_toNat_eq
    rw [h]; rfl
  bv_omega

/-- queued headers of `u` acknowledge at most `top base u`; RCV.NXT is past the peer's SYN -/
structure AckQ (base : Seq) (u : Tcb) : Prop where
  one : ∀ h ∈ u.outgoing.oneshot, AckLe base (top base u) h
  rtx : ∀ tr ∈ u.outgoing.retransmit, AckLe base (top base u) tr.segment.hdr
  pos : u.state ≠ .SynSent → 1 ≤ off base u.rcv.nxt

theorem AckQ.of_qstep {base : Seq} {bad : Prop} {A : Seq → Prop} {u u' : Tcb} (h : AckQ base u)
    (q : QStep (AckP base bad u') A u u') (ht : top base u ≤ top base u')
    (hpos : u'.state ≠ .SynSent → 1 ≤ off base u'.rcv.nxt) : AckQ base u' := by
  refine ⟨fun x hx => ?_, fun tr hx => ?_, hpos⟩
  · rcases q.one x hx with e | e
    · exact (h.one x e).mono ht
    · exact e.1
  · rcases q.rtx tr hx with ⟨t0, e, es⟩ | e
    · rw [← es]; exact (h.rtx t0 e).mono ht
    · exact e.1

theorem AckQ.step_a {base : Seq} {N : Nat} {bad : Prop} {A : Seq → Prop} {u u' : Tcb} (h : AckQ base u)
    (a : AStep base N bad A u u') : AckQ base u' :=
  h.of_qstep a.q (top_mono a.rcv) a.pos

theorem AckQ.step_l {base : Seq} {u u' : Tcb} (h : AckQ base u) (l : LStep u u') : AckQ base u' := by
  have hpos : u'.state ≠ .SynSent → 1 ≤ off base u'.rcv.nxt := by
    intro hs; rw [l.rcv]; exact h.pos (fun hx => hs (l.synsent.2 hx))
  exact h.of_qstep (bad := False) (l.q.mono (fun _ hx => ackP_new hx hpos) (fun _ hx => hx))
    (by rw [l.top]; exact Nat.le_refl _) hpos

/-- nothing about the TCB carries an ACK: queues, reorder heap; nothing acknowledged -/
structure NoAck (t : Tcb) : Prop where
  one : ∀ h ∈ t.outgoing.oneshot, h.ctl.ack = false
  rtx : ∀ tr ∈ t.outgoing.retransmit, tr.segment.hdr.ctl.ack = false
  heap : ∀ σ ∈ t.incoming.segments, σ.hdr.ctl.ack = false
  una : t.snd.una = t.snd.iss

structure AckCore (tx ty : Option Tcb) (ly : Bool) (H : List Segment) (py : U16) : Prop where
  q : ∀ t u, tx = some t → ty = some u → AckQ t.snd.iss u
  hist : ∀ t u, tx = some t → ty = some u → ∀ σ ∈ H, σ.hdr.srcPort = py →
    AckLe t.snd.iss (top t.snd.iss u) σ.hdr
  heap : ∀ t u, tx = some t → ty = some u → ∀ σ ∈ t.incoming.segments, AckLe t.snd.iss (top t.snd.iss u) σ.hdr
  una : ∀ t u, tx = some t → ty = some u → off t.snd.iss t.snd.una ≤ top t.snd.iss u
  rcvd : ∀ t u, tx = some t → ty = some u → t.state = .SynReceived → t.snd.una = t.snd.iss
  fresh : ∀ t, tx = some t → ty = none → ly = true → (∀ σ ∈ H, σ.hdr.ctl.ack = false) ∧ NoAck t

/-- no TCB on X's side: nothing to say -/
theorem AckCore.of_none (ty : Option Tcb) (ly : Bool) (hist : List Segment) (py : U16) :
    AckCore none ty ly hist py :=
  ⟨fun _ _ h => (by cases h), fun _ _ h => (by cases h), fun _ _ h => (by cases h), fun _ _ h => (by cases h),
    fun _ _ h => (by cases h), fun _ h => (by cases h)⟩

/-- the peer is gone (neither TCB nor LISTEN binding): nothing to say -/
theorem AckCore.of_gone (tx : Option Tcb) (hist : List Segment) (py : U16) : AckCore tx none false hist py :=
  ⟨fun _ _ _ h => (by cases h), fun _ _ _ h => (by cases h), fun _ _ _ h => (by cases h), fun _ _ _ h => (by cases h),
    fun _ _ _ h => (by cases h), fun _ _ _ h => (by cases h)⟩

/-! ## local calls -/

/-- X does a local call (`t → t'`), handing `new` (all from its own port) to the network -/
theorem AckCore.local_x {t t' : Tcb} {ty : Option Tcb} {ly : Bool} {hist hist' new : List Segment} {py : U16}
    (h : AckCore (some t) ty ly hist py) (l : LStep t t')
    (hh : ∀ σ ∈ hist', σ ∈ new ∨ σ ∈ hist) (hp : ∀ σ ∈ new, σ.hdr.srcPort ≠ py)
    (hnew : ∀ σ ∈ new, σ.hdr ∈ t.outgoing.oneshot ∨ ∃ tr ∈ t'.outgoing.retransmit, tr.segment = σ)
    (hss : ty = none → ly = true → t.state = .SynSent) : AckCore (some t') ty ly hist' py := by
  refine ⟨fun a u ha hu => ?_, fun a u ha hu σ hσ hs => ?_, fun a u ha hu σ hσ => ?_, fun a u ha hu => ?_,
    fun a u ha hu hst => ?_, fun a ha hy hl => ?_⟩
  all_goals cases ha
  · rw [l.iss]; exact h.q t u rfl hu
  · rw [l.iss]
    rcases hh σ hσ with hn | ho
    · exact absurd hs (hp σ hn)
    · exact h.hist t u rfl hu σ ho hs
  · rw [l.iss]; rw [l.heap] at hσ; exact h.heap t u rfl hu σ hσ
  · rw [l.iss, l.una]; exact h.una t u rfl hu
  · rw [l.iss, l.una]; exact h.rcvd t u rfl hu (l.rcvd hst)
  · obtain ⟨f1, f2⟩ := h.fresh t rfl hy hl
    have hst := hss hy hl
    have hst' : t'.state = .SynSent := l.synsent.2 hst
    -- in SYN-SENT a new header has no ACK bit
    have nq : NoAck t' := by
      refine ⟨fun x hx => ?_, fun tr hx => ?_, by rw [l.heap]; exact f2.heap, by rw [l.una, l.iss]; exact f2.una⟩
      · rcases l.q.one x hx with e | e
        · exact f2.one x e
        · cases hf : x.ctl.ack with
          | false => rfl
          | true => exact absurd hst' (e.2.2.1 hf).2
      · rcases l.q.rtx tr hx with ⟨t0, e, es⟩ | e
        · rw [← es]; exact f2.rtx t0 e
        · cases hf : tr.segment.hdr.ctl.ack with
          | false => rfl
          | true => exact absurd hst' (e.2.2.1 hf).2
    refine ⟨fun σ hσ => ?_, nq⟩
    rcases hh σ hσ with hn | ho
    · rcases hnew σ hn with e | ⟨tr, e, es⟩
      · exact f2.one _ e
      · rw [← es]; exact nq.rtx tr e
    · exact f1 σ ho

/-- Y does a local call (`u → u'`), handing `new` (from its queues) to the network -/
theorem AckCore.local_y {tx : Option Tcb} {u u' : Tcb} {ly : Bool} {hist hist' new : List Segment} {py : U16}
    (h : AckCore tx (some u) ly hist py) (l : LStep u u')
    (hh : ∀ σ ∈ hist', σ ∈ new ∨ σ ∈ hist)
    (hnew : ∀ σ ∈ new, σ.hdr ∈ u.outgoing.oneshot ∨ ∃ tr ∈ u'.outgoing.retransmit, tr.segment = σ) :
    AckCore tx (some u') ly hist' py := by
  refine ⟨fun t a ht ha => ?_, fun t a ht ha σ hσ hs => ?_, fun t a ht ha σ hσ => ?_, fun t a ht ha => ?_,
    fun t a ht ha hst => ?_, fun t _ hy => (by cases hy)⟩
  all_goals cases ha
  · exact (h.q t u ht rfl).step_l l
  · rw [l.top]
    rcases hh σ hσ with hn | ho
    · rcases hnew σ hn with e | ⟨tr, e, es⟩
      · exact (h.q t u ht rfl).one _ e
      · rw [← es, ← l.top]; exact ((h.q t u ht rfl).step_l l).rtx tr e
    · exact h.hist t u ht rfl σ ho hs
  · rw [l.top]; exact h.heap t u ht rfl σ hσ
  · rw [l.top]; exact h.una t u ht rfl
  · exact h.rcvd t u ht rfl hst

/-! ## a side without TCB answers -/

/-- the history grows by elements without ACK bit, or the peer does not listen -/
theorem AckCore.respond {tx ty : Option Tcb} {ly : Bool} {hist hist' new : List Segment} {py : U16}
    (h : AckCore tx ty ly hist py) (hh : ∀ σ ∈ hist', σ ∈ new ∨ σ ∈ hist)
    (hn : ∀ σ ∈ new, (∀ u, ty = some u → σ.hdr.srcPort ≠ py) ∧ (ty = none → ly = true → σ.hdr.ctl.ack = false)) :
    AckCore tx ty ly hist' py := by
  refine ⟨h.q, fun t u ht hu σ hσ hs => ?_, h.heap, h.una, h.rcvd, fun t ht hy hl => ?_⟩
  · rcases hh σ hσ with e | e
    · exact absurd hs ((hn σ e).1 u hu)
    · exact h.hist t u ht hu σ e hs
  · obtain ⟨f1, f2⟩ := h.fresh t ht hy hl
    refine ⟨fun σ hσ => ?_, f2⟩
    rcases hh σ hσ with e | e
    · exact (hn σ e).2 hy hl
    · exact f1 σ e

/-! ## a segment arrives -/

/-- X's TCB has processed a segment, the peer's TCB exists: what `segment_arrives_ack` yields -/
theorem AckCore.arrive_x {t t' u : Tcb} {ly : Bool} {hist : List Segment} {py : U16} {σ : Segment}
    (h : AckCore (some t) (some u) ly hist py) (hiss : t'.snd.iss = t.snd.iss)
    (hr : AckRcv t.snd.iss (top t.snd.iss u) t')
    (hheap : ∀ x ∈ t'.incoming.segments, x ∈ σ :: t.incoming.segments)
    (hσ : σ ∈ hist) (hs : σ.hdr.srcPort = py) : AckCore (some t') (some u) ly hist py := by
  refine ⟨fun a b ha hb => ?_, fun a b ha hb τ hτ hp => ?_, fun a b ha hb τ hτ => ?_, fun a b ha hb => ?_,
    fun a b ha hb hst => ?_, fun a _ hy => (by cases hy)⟩
  all_goals cases ha
  all_goals cases hb
  · rw [hiss]; exact h.q t u rfl rfl
  · rw [hiss]; exact h.hist t u rfl rfl τ hτ hp
  · rw [hiss]
    rcases List.mem_cons.1 (hheap τ hτ) with rfl | e
    · exact h.hist t u rfl rfl _ hσ hs
    · exact h.heap t u rfl rfl τ e
  · rw [hiss]; exact hr.una
  · exact hr.rcvd hst

/-- Y's TCB has processed a segment (`u → u'`) -/
theorem AckCore.arrive_y {tx : Option Tcb} {u u' : Tcb} {ly : Bool} {hist : List Segment} {py : U16}
    (h : AckCore tx (some u) ly hist py)
    (ha : ∀ t, tx = some t → ∃ N bad A, AStep t.snd.iss N bad A u u') : AckCore tx (some u') ly hist py := by
  refine ⟨fun t b ht hb => ?_, fun t b ht hb τ hτ hp => ?_, fun t b ht hb τ hτ => ?_, fun t b ht hb => ?_,
    fun t b ht hb hst => ?_, fun t _ hy => (by cases hy)⟩
  all_goals cases hb
  all_goals obtain ⟨N, bad, A, a⟩ := ha t ht
  · exact (h.q t u ht rfl).step_a a
  · exact (h.hist t u ht rfl τ hτ hp).mono (top_mono a.rcv)
  · exact (h.heap t u ht rfl τ hτ).mono (top_mono a.rcv)
  · exact Nat.le_trans (h.una t u ht rfl) (top_mono a.rcv)
  · exact h.rcvd t u ht rfl hst

/-- X (in SYN-SENT) has processed a segment while its peer only listens -/
theorem AckCore.arrive_fresh {t t' : Tcb} {hist : List Segment} {py : U16}
    (h : AckCore (some t) none true hist py) (hn : NoAck t') : AckCore (some t') none true hist py :=
  ⟨fun _ _ _ hb => (by cases hb), fun _ _ _ hb => (by cases hb), fun _ _ _ hb => (by cases hb), fun _ _ _ hb => (by cases hb),
    fun _ _ _ hb => (by cases hb), fun a ha _ _ => by cases ha; exact ⟨(h.fresh t rfl rfl rfl).1, hn⟩⟩

end Tcb
end Elvis.Tcp
