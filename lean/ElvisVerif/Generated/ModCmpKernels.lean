-- GENERATED from tcp/tcb/modular_cmp.rs by tools/extract.py; do not edit
namespace Elvis.Gen.ModCmp
inductive Cmp | Lt | Leq deriving DecidableEq, Repr
def Cmp.offset : Cmp → BitVec 32 | .Lt => 0 | .Leq => 1
def mod_lt (a : BitVec 32) (b : BitVec 32) : Bool :=
  decide ((a - b) > ((1 : BitVec 32) <<< (31 : BitVec 32)))
def mod_leq (a : BitVec 32) (b : BitVec 32) : Bool :=
  ((a == b) || (mod_lt a b))
def mod_gt (a : BitVec 32) (b : BitVec 32) : Bool :=
  (mod_lt b a)
def mod_geq (a : BitVec 32) (b : BitVec 32) : Bool :=
  ((a == b) || (mod_gt a b))
def mod_bounded (a : BitVec 32) (ab_cmp : Cmp) (b : BitVec 32) (bc_cmp : Cmp) (c : BitVec 32) : Bool :=
  let a := (a - (Cmp.offset ab_cmp))
  let c := (c + (Cmp.offset bc_cmp))
  let j := ((decide (a < b) && decide (b < c)) && decide (a < c))
  let k := ((decide (a < b) && decide (b > c)) && decide (a > c))
  let l := ((decide (a > b) && decide (b < c)) && decide (a > c))
  ((j || k) || l)
end Elvis.Gen.ModCmp
