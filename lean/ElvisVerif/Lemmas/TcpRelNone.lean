import ElvisVerif.Lemmas.TcpRelLoss
/-!
# `close()` with NO text queued from a steady state: data in flight, no loss, no timer expiry

`final_core_steady` = `phase_final` (`Lemmas/TcpRelData2.lean`) for ANY closer TCB that emits the twin's batch followed by a
FIN; `close_data_none`: the FIN numbered by `close()` itself (`Tcb.segments_closedT`).
-/
namespace Elvis.Tcp
open Tcb Elvis.ModCmp Elvis.Tcp.Fin

section
variable {iss : SideId → Seq}

/-- the core of `phase_final`: the closer's TCB `tc` is any TCB that emits the twin's batch followed by a FIN (`CloseFx`) —
    the FIN may have been numbered by `close()` itself -/
theorem final_core_steady (s c : Sys) (hg : Good iss s) (ta tb : Tcb) (hs : Steady s ta tb) (hi : IdleB ta tb)
    (tc : Tcb) (hca : (c.side .A).tcb = some tc) (hcb : (c.side .B).tcb = some tb)
    (hcsa : (c.side .A).submitted = (s.side .A).submitted) (hcsb : (c.side .B).submitted = (s.side .B).submitted)
    (hcda : (c.side .A).delivered = (s.side .A).delivered)
    (newA : List Transmit) (ta1 : Tcb) (outA : List Segment) (ta1' : Tcb) (fin : Hdr)
    (eA : ta.segments = .ok (ta1, outA)) (fA : EmitFx ta newA ta1 outA)
    (eA' : tc.segments = .ok (ta1', outA ++ [⟨fin, []⟩])) (cf : CloseFx ta1 fin ta1') :
    ∃ c' ta' tb', phases 2 c = .ok c' ∧ PlainRun c c' ∧
      (c'.side .A).tcb = some ta' ∧ (c'.side .B).tcb = some tb' ∧
      ta'.state = .FinWait2 ∧ tb'.state = .CloseWait ∧ RestX .A ta' tb' ∧ RestX .B tb' ta' ∧
      (c'.side .A).submitted = (s.side .A).submitted ∧ (c'.side .B).submitted = (s.side .B).submitted ∧
      (c'.side .A).delivered = (s.side .A).delivered := by
  have hsa : (s.side .A).tcb = some ta := hs.ha
  have hsb : (s.side .B).tcb = some tb := hs.hb
  obtain ⟨s1, r1, st1, h1a, h1p, h1sub, _, h1len, h1new, h1old⟩ := emit_facts s .A ta ta1 outA hsa eA
  have h1b : (s1.side .B).tcb = some tb := by
    have : s1.side .B = s.side .B := h1p
    rw [this]; exact hsb
  obtain ⟨newB, tb1, outB, eB, fB⟩ := segments_fwd tb (by rw [hs.b.st]; trivial) hs.b.mtu
  obtain ⟨s2, r2, st2, h2b, h2p, h2sub, _, h2len, h2new, h2old⟩ := emit_facts s1 .B tb tb1 outB h1b eB
  have h2pa : s2.side .A = s1.side .A := h2p
  have h2a : (s2.side .A).tcb = some ta1 := by rw [h2pa]; exact h1a
  have r02 : PlainRun s s2 :=
    (PlainRun.step (op := .emit .A) (.refl _) trivial st1).trans (.step (op := .emit .B) (.refl _) trivial st2)
  have hsubA2 : (s2.side .A).submitted = (s.side .A).submitted := by rw [h2pa]; exact h1sub
  have hsubB2 : (s2.side .B).submitted = (s.side .B).submitted := by
    rw [h2sub]
    have : s1.side .B = s.side .B := h1p
    rw [this]
  have hroom2 : RoomH s2 := by
    have a := hg.room.1
    have b := hg.room.2
    exact ⟨by show (s2.side .A).submitted.length + 2 < _; rw [hsubA2]; exact a,
      by show (s2.side .B).submitted.length + 2 < _; rw [hsubB2]; exact b⟩
  have hg2 : Good iss s2 := ⟨(ext_run hg.conv hg.ext r02 hroom2).1, (ext_run hg.conv hg.ext r02 hroom2).2, hroom2⟩
  have oneA := oneshot_facts hg .A ta tb hsa hsb hs.a.st
  have oneB := oneshot_facts hg .B tb ta hsb hsa hs.b.st
  have sqB := squeeze_facts hg .B tb ta hsb hsa hs.a.st
  obtain ⟨houtA, haA⟩ := out_shape hg .A ta tb ta1 newA outA hsa hs.a fA
  obtain ⟨_, haB⟩ := out_shape hg .B tb ta tb1 newB outB hsb hs.b fB
  obtain ⟨hamtB, hnewB, houtB, hnxtB1⟩ := idle_out hg ta tb tb1 newB outB hsb hs.b hi.tbt fB
  -- B takes A's data
  obtain ⟨tb2, eb2, b_st, b_heap, b_rcv, b_nxt, b_mtu, b_unf, b_una, _, b_text, _, _⟩ :=
    side_outcome hg2 .B tb tb1 ta ta1 newB newA outB outA h2b fB fA hs.b hs.a oneA sqB (hg.iss_eq .B tb hsb)
      (hg.sent_lt .B tb hsb) (fun tr htr => (hg.queue .B tb hsb tr htr).2)
  have hnA : ∀ j (hj : j < outA.length), s2.nth (s.historyLen + j) = some outA[j] := by
    intro j hj
    rw [h2old _ (by rw [h1len]; omega)]
    exact h1new j hj
  obtain ⟨s3, _, r23, h3b, h3p, h3sub, _, _, _⟩ :=
    batch_facts s2 .B s.historyLen outA tb1 tb2 h2b hnA eb2 (fun g hg' => haA g hg')
  have h3pa : s3.side .A = s2.side .A := h3p
  have h3a : (s3.side .A).tcb = some ta1 := by rw [h3pa]; exact h2a
  have hroom3 : RoomH s3 := by
    have a := hg.room.1
    have b := hg.room.2
    exact ⟨by show (s3.side .A).submitted.length + 2 < _; rw [h3pa, hsubA2]; exact a,
      by show (s3.side .B).submitted.length + 2 < _; rw [h3sub, hsubB2]; exact b⟩
  have r03 : PlainRun s s3 := r02.trans r23
  have hg3 : Good iss s3 := ⟨(ext_run hg.conv hg.ext r03 hroom3).1, (ext_run hg.conv hg.ext r03 hroom3).2, hroom3⟩
  -- what the invariants say about the twin `ta1` and about `tb2`
  obtain ⟨sbA, lpA, rpA⟩ := (hg3.conv.full.inv.link .A).snd ta1 h3a
  obtain ⟨sbB, lpB, rpB⟩ := (hg3.conv.full.inv.link .B).snd tb2 h3b
  have wB2 : tb2.rcv.wnd = 65535#16 := hg3.wnd .B tb2 h3b
  have wA : ta.rcv.wnd = 65535#16 := hg.wnd .A ta hsa
  have issA1 : ta1.snd.iss = iss .A := hg3.iss_eq .A ta1 h3a
  have hN : ta1.sent + 1 < 2147483648 := by
    have := room_of_inv hg3.conv.c01 hg3.room .A ta1 h3a
    unfold Room at this; omega
  have sqA3 := squeeze_facts hg3 .A ta1 tb2 h3a h3b b_st
  have oneB3 := oneshot_facts hg3 .B tb2 ta1 h3b h3a b_st
  have qA1 := hg3.queue .A ta1 h3a
  have hsentA1 : off (iss .A) ta1.snd.nxt = ta1.sent := by unfold sent; rw [issA1]
  have hunaB2 : tb2.snd.una = tb2.snd.nxt := by rw [b_una, b_nxt, hnxtB1]
  have hrtxB2 : tb2.outgoing.retransmit = [] := by
    apply List.eq_nil_iff_forall_not_mem.2
    intro tr htr
    obtain ⟨k1, k2⟩ := hg3.queue .B tb2 h3b tr htr
    have hNB := hg3.sent_lt .B tb2 h3b
    have hu : off (iss .B) tb2.snd.una = tb2.sent := by
      rw [hunaB2]; unfold sent; rw [hg3.iss_eq .B tb2 h3b]
    have := (keepFor_iff (iss .B) tb2.snd.una tr tb2.sent hNB (by omega) k2).1 k1
    omega
  -- the FIN reaches B behind the data
  let gF : Segment := ⟨fin, []⟩
  let tb3 : Tcb := ({ tb2 with state := .CloseWait, rcv.nxt := tb2.rcv.nxt + 1, outgoing.oneshot := tb2.outgoing.oneshot ++ [tb2.finAckHdr] } : Tcb)
  have eF : tb2.segmentArrives gF = .ok (tb3, .Ok) :=
    arrive_fin_est tb2 gF b_st wB2 b_heap cf.isfin.rst cf.isfin.syn cf.isfin.fin cf.isfin.ackb cf.isfin.text
      (by rw [cf.isfin.seq, b_rcv])
      (by
        rw [cf.isfin.ack, fA.rcv, hs.b.sync, b_una]
        exact modLeq_self _)
  have aB : tb1.arriveList (outA ++ [gF]) = .ok tb3 := by
    rw [arriveList_append outA [gF] tb1 tb2 eb2]
    simp only [arriveList, eF]
  -- the closer (FIN queued) takes B's pending pure ACKs
  have hfinLen : Segment.segLen ⟨fin, []⟩ = 1 := by
    unfold Segment.segLen
    rw [cf.isfin.syn, cf.isfin.fin]
    rfl
  have hfinSeq : fin.seq = ta1.snd.nxt := cf.isfin.seq
  have hfinEnd : off (iss .A) (ta1.snd.nxt + BitVec.ofNat 32 1) = ta1.sent + 1 := by
    rw [off_add _ _ _ (by rw [hsentA1]; omega), hsentA1]
  have hnxtA1' : off (iss .A) ta1'.snd.nxt = ta1.sent + 1 := by
    rw [cf.nxt, off_add_one _ _ (by rw [hsentA1]; omega), hsentA1]
  have hunaA1' : off (iss .A) ta1'.snd.una ≤ ta1.sent := by
    rw [cf.una]
    have := sqA3.1
    have := sqA3.2
    omega
  have hrcvA1' : ta1'.rcv.nxt = tb.snd.nxt := by rw [cf.rcv, fA.rcv, hs.b.sync]
  have hkeep1' : ∀ tr ∈ ta1'.outgoing.retransmit, keepFor ta1'.snd.una tr = true := by
    intro t0 h0
    rw [cf.una]
    rw [cf.rtx] at h0
    rcases List.mem_append.1 h0 with h0 | h0
    · exact (qA1 t0 h0).1
    · simp only [List.mem_singleton] at h0
      subst h0
      unfold keepFor
      show modLt ta1.snd.una (fin.seq + BitVec.ofNat 32 (Segment.segLen ⟨fin, []⟩)) = true
      rw [hfinLen, hfinSeq]
      refine (modLt_iff_off (iss .A) _ _ (by have := sqA3.1; have := sqA3.2; omega) (by rw [hfinEnd]; omega)).2 ?_
      rw [hfinEnd]
      have := sqA3.1
      have := sqA3.2
      omega
  have hend1' : ∀ tr ∈ ta1'.outgoing.retransmit, off (iss .A) (txEnd tr) ≤ ta1.sent + 1 := by
    intro t0 h0
    rw [cf.rtx] at h0
    rcases List.mem_append.1 h0 with h0 | h0
    · have := (qA1 t0 h0).2; omega
    · simp only [List.mem_singleton] at h0
      subst h0
      unfold txEnd
      show off (iss .A) (fin.seq + BitVec.ofNat 32 (Segment.segLen ⟨fin, []⟩)) ≤ _
      rw [hfinLen, hfinSeq, hfinEnd]
      omega
  have hsyncA : off (iss .A) tb.rcv.nxt = ta.sent := by
    rw [hs.a.sync]; unfold sent; rw [hg.iss_eq .A ta hsa]
  have hsent1 : ta.sent ≤ ta1.sent := by
    have : ta1.sent = ta.sent + emitAmount ta := by
      unfold sent
      rw [issA1, fA.nxt, ← hg.iss_eq .A ta hsa]
      have := hg.sent_lt .A ta hsa
      have hΔ : emitAmount ta ≤ 65535 := by
        unfold emitAmount
        have := ta.snd.wnd.isLt
        omega
      exact off_add _ _ _ (by unfold sent at this; omega)
    omega
  have hallB : ∀ g ∈ outB, PureAck g ∧ g.hdr.seq = ta1'.rcv.nxt ∧ 1 ≤ off (iss .A) g.hdr.ack ∧
      off (iss .A) g.hdr.ack ≤ ta1.sent := by
    intro g hg'
    rw [houtB] at hg'
    obtain ⟨h, hh, rfl⟩ := List.mem_map.1 hg'
    obtain ⟨e1, e2, e3, e4, e5, e6, e7⟩ := oneB.2 h hh
    have e7' : off (iss .A) h.ack ≤ off (iss .A) tb.rcv.nxt := e7
    refine ⟨⟨e2, e3, e4, e5, rfl⟩, ?_, ?_, ?_⟩
    · show h.seq = ta1'.rcv.nxt
      rw [hrcvA1']; exact e1
    · show 1 ≤ off (iss .A) h.ack
      exact e6
    · show off (iss .A) h.ack ≤ ta1.sent
      omega
  obtain ⟨ta3, aA1, lf1⟩ := ackList_fwx (iss .A) (ta1.sent + 1) hN outB ta1'
    (Or.inl cf.st) (by rw [cf.rcv, fA.rcv]; exact wA)
    (by rw [cf.inc, fA.inc]; exact hs.a.heap) cf.text
    (by rw [cf.iss]; exact issA1) hnxtA1' (by omega)
    (fun g hg' => by
      obtain ⟨a, b, c1, d⟩ := hallB g hg'
      exact ⟨a, b, c1, by omega⟩)
    hkeep1'
  -- phase 1: the data and the FIN
  have hbufA1' : ta1'.incoming.text = [] := by rw [cf.inc, fA.inc]; exact hs.a.buf
  have hbufA3 : ta3.incoming.text = [] := by rw [lf1.inc]; exact hbufA1'
  obtain ⟨c1, ph1, r01, c1a, c1b, c1sa, c1sb, c1da, _, _⟩ :=
    phase_eval c tc tb ta1' tb1 ta3 tb3 (outA ++ [gF]) outB hca hcb eA' eB aB aA1
      (fun g hg' => by
        rcases List.mem_append.1 hg' with h | h
        · exact haA g h
        · simp only [List.mem_singleton] at h
          subst h
          exact ⟨cf.src.trans lpA, cf.dst.trans rpA⟩)
      (fun g hg' => haB g hg')
  rw [receive_empty ta3 hbufA3] at c1a c1da
  let tb4 : Tcb := ({ tb3 with incoming.text := [] } : Tcb)
  have hrB3 : tb3.receive.1 = tb4 := rfl
  rw [hrB3] at c1b
  -- phase 2: B's ACKs
  have hmA1' : ¬ ta1'.mtu.toNat < SPACE_FOR_HEADERS := by
    rw [cf.mtu, fA.mtu]; have := hs.a.mtu; omega
  have hmA3 : ¬ ta3.mtu.toNat < SPACE_FOR_HEADERS := by rw [lf1.mtu]; exact hmA1'
  have hmB4 : ¬ tb4.mtu.toNat < SPACE_FOR_HEADERS := by
    show ¬ tb2.mtu.toNat < _
    rw [b_mtu]; have := hs.b.mtu; omega
  have hunfA1' : ∀ tr ∈ ta1'.outgoing.retransmit, tr.needsTransmit = false := by
    intro tr htr
    rw [cf.rtx, fA.rtx] at htr
    rcases List.mem_append.1 htr with h | h
    · obtain ⟨t0, _, rfl⟩ := List.mem_map.1 h
      rfl
    · simp only [List.mem_singleton] at h
      subst h
      rfl
  have htA3 : ta3.outgoing.text = [] := by rw [lf1.otext]; exact cf.text
  have eA2 := segments_notext_eq ta3 htA3 hmA3
  have houtA2 : emitOut ta3 = [] := by
    unfold emitOut
    rw [lf1.one, cf.one]
    have h1 : ta3.outgoing.retransmit.filter (·.needsTransmit) = [] :=
      List.filter_eq_nil_iff.2 (fun tr htr => by rw [hunfA1' tr (lf1.rtx tr htr).1]; simp)
    rw [h1]
    rfl
  rw [houtA2] at eA2
  have htB4 : tb4.outgoing.text = [] := by
    show tb2.outgoing.text = []
    rw [b_text, hi.tbt]; simp
  have eB2 := segments_notext_eq tb4 htB4 hmB4
  have houtB2 : emitOut tb4 = (tb2.outgoing.oneshot ++ [tb2.finAckHdr]).map fun h => (⟨h, []⟩ : Segment) := by
    unfold emitOut
    show List.map _ (tb2.outgoing.oneshot ++ [tb2.finAckHdr]) ++
      List.map _ (List.filter _ tb2.outgoing.retransmit) = _
    rw [hrtxB2]
    simp
  rw [houtB2] at eB2
  -- A takes the ACKs
  have hmax1 : maxAck (iss .A) outB ≤ ta1.sent :=
    maxAck_le _ _ _ (fun g hg' => (hallB g hg').2.2.2)
  have hunaA3 : off (iss .A) (emitT ta3).snd.una ≤ ta1.sent + 1 := by
    show off (iss .A) ta3.snd.una ≤ _
    rw [lf1.una]
    omega
  have hnxtA3 : off (iss .A) (emitT ta3).snd.nxt = ta1.sent + 1 := by
    show off (iss .A) ta3.snd.nxt = _
    rw [lf1.nxt]; exact hnxtA1'
  have hrcvA : (emitT ta3).rcv.nxt = tb2.snd.nxt := by
    show ta3.rcv.nxt = _
    rw [lf1.rcv, hrcvA1', b_nxt, hnxtB1]
  have hrcvB2 : off (iss .A) tb2.rcv.nxt = ta1.sent := by rw [b_rcv, hsentA1]
  have hackF : (tb2.finAckHdr).ack = tb2.rcv.nxt + 1 := rfl
  have hoffF : off (iss .A) (tb2.finAckHdr).ack = ta1.sent + 1 := by
    rw [hackF, off_add_one _ _ (by rw [hrcvB2]; omega), hrcvB2]
  obtain ⟨ta5, aA, lf⟩ := ackList_fwx (iss .A) (ta1.sent + 1) hN
    ((tb2.outgoing.oneshot ++ [tb2.finAckHdr]).map fun h => (⟨h, []⟩ : Segment)) (emitT ta3)
    lf1.st (by show ta3.rcv.wnd = _; rw [lf1.rcv, cf.rcv, fA.rcv]; exact wA)
    (by show ta3.incoming.segments = []; rw [lf1.inc, cf.inc, fA.inc]; exact hs.a.heap) htA3
    (by show ta3.snd.iss = _; rw [lf1.iss, cf.iss]; exact issA1) hnxtA3 hunaA3
    (fun g hg' => by
      obtain ⟨h, hh, rfl⟩ := List.mem_map.1 hg'
      rcases List.mem_append.1 hh with hh | hh
      · obtain ⟨e1, e2, e3, e4, e5, e6, e7⟩ := oneB3.2 h hh
        have e7' : off (iss .A) h.ack ≤ off (iss .A) tb2.rcv.nxt := e7
        rw [hrcvB2] at e7'
        refine ⟨⟨e2, e3, e4, e5, rfl⟩, by rw [hrcvA]; exact e1, ?_, ?_⟩
        · show 1 ≤ off (iss .A) h.ack
          exact e6
        · show off (iss .A) h.ack ≤ ta1.sent + 1
          omega
      · simp only [List.mem_singleton] at hh
        subst hh
        exact ⟨⟨rfl, rfl, rfl, rfl, rfl⟩, by rw [hrcvA]; rfl, by show 1 ≤ off _ (tb2.finAckHdr).ack; omega,
          by show off _ (tb2.finAckHdr).ack ≤ _; omega⟩)
    (fun tr htr => by
      have htr' : tr ∈ ta3.outgoing.retransmit.map (fun x => ({ x with needsTransmit := false } : Transmit)) := htr
      obtain ⟨t0, h0, rfl⟩ := List.mem_map.1 htr'
      show keepFor ta3.snd.una t0 = true
      exact (lf1.rtx t0 h0).2)
  obtain ⟨c2, ph2, r12, c2a, c2b, c2sa, c2sb, c2da, _, _⟩ :=
    phase_eval c1 ta3 tb4 (emitT ta3) (emitT tb4) ta5 (emitT tb4) []
      ((tb2.outgoing.oneshot ++ [tb2.finAckHdr]).map fun h => (⟨h, []⟩ : Segment)) c1a c1b eA2 eB2 rfl aA
      (fun g hg' => by cases hg')
      (fun g hg' => by
        obtain ⟨h, hh, rfl⟩ := List.mem_map.1 hg'
        rcases List.mem_append.1 hh with hh | hh
        · have := sbB.oports h hh
          exact ⟨this.1.trans lpB, this.2.trans rpB⟩
        · simp only [List.mem_singleton] at hh
          subst hh
          exact ⟨lpB, rpB⟩)
  -- the final TCBs
  have hbufA5 : ta5.incoming.text = [] := by
    rw [lf.inc]; exact hbufA3
  rw [receive_empty ta5 hbufA5] at c2a c2da
  have hbufB5 : (emitT tb4).incoming.text = [] := rfl
  rw [receive_empty (emitT tb4) hbufB5] at c2b
  -- SND.UNA has reached SND.NXT on A's side
  have hmax : maxAck (iss .A) ((tb2.outgoing.oneshot ++ [tb2.finAckHdr]).map fun h => (⟨h, []⟩ : Segment)) = ta1.sent + 1 := by
    apply Nat.le_antisymm
    · refine maxAck_le _ _ _ (fun g hg' => ?_)
      obtain ⟨h, hh, rfl⟩ := List.mem_map.1 hg'
      rcases List.mem_append.1 hh with hh | hh
      · have e7 : off (iss .A) h.ack ≤ off (iss .A) tb2.rcv.nxt := (oneB3.2 h hh).2.2.2.2.2.2
        show off (iss .A) h.ack ≤ _
        rw [hrcvB2] at e7; omega
      · simp only [List.mem_singleton] at hh
        subst hh
        show off (iss .A) (tb2.finAckHdr).ack ≤ _
        omega
    · have hm : (⟨tb2.finAckHdr, []⟩ : Segment) ∈
          (tb2.outgoing.oneshot ++ [tb2.finAckHdr]).map fun h => (⟨h, []⟩ : Segment) :=
        List.mem_map.2 ⟨tb2.finAckHdr, List.mem_append_right _ (List.mem_singleton.2 rfl), rfl⟩
      have := maxAck_ge (iss .A) _ ⟨tb2.finAckHdr, []⟩ hm
      rw [← hoffF]
      exact this
  have hu5 : off (iss .A) ta5.snd.una = ta1.sent + 1 := by
    rw [lf.una, hmax]
    omega
  have hun5 : ta5.snd.una = ta5.snd.nxt := by
    apply off_inj (base := iss .A)
    rw [hu5, lf.nxt, hnxtA3]
  have hst5 : ta5.state = .FinWait2 := lf.done (by simp) hun5
  have hrtx5 : ta5.outgoing.retransmit = [] := by
    apply List.eq_nil_iff_forall_not_mem.2
    intro tr htr
    obtain ⟨k1, k2⟩ := lf.rtx tr htr
    have k1' : tr ∈ ta3.outgoing.retransmit.map (fun x => ({ x with needsTransmit := false } : Transmit)) := k1
    obtain ⟨t0, h0, rfl⟩ := List.mem_map.1 k1'
    have hend : txEnd ({ t0 with needsTransmit := false } : Transmit) = txEnd t0 := rfl
    have hle : off (iss .A) (txEnd t0) ≤ ta1.sent + 1 := hend1' t0 (lf1.rtx t0 h0).1
    have := (keepFor_iff (iss .A) ta5.snd.una { t0 with needsTransmit := false } (ta1.sent + 1) hN (by omega)
      (by rw [hend]; exact hle)).1 k2
    rw [hend, hu5] at this
    omega
  refine ⟨c2, ta5, emitT tb4, ?_, r01.trans r12, c2a, c2b, hst5, rfl, ?_, ?_, ?_, ?_, ?_⟩
  · simp only [phases, ph1, ph2]
  · -- A is at rest
    refine ⟨by rw [lf.inc]; show ta3.incoming.segments = []; rw [lf1.inc, cf.inc, fA.inc]; exact hs.a.heap, hbufA5,
      by rw [lf.otext]; exact htA3, hrtx5,
      by rw [lf.one]; rfl, hun5, ?_, by rw [lf.rcv]; show ta3.rcv.wnd = _; rw [lf1.rcv, cf.rcv, fA.rcv]; exact wA,
      by rw [lf.mtu]; exact hmA3,
      by rw [lf.lp]; show ta3.localPort = _; rw [lf1.lp, cf.lp]; exact lpA,
      by rw [lf.rp]; show ta3.remotePort = _; rw [lf1.rp, cf.rp]; exact rpA⟩
    show tb2.rcv.nxt + 1 = ta5.snd.nxt
    rw [lf.nxt]
    show _ = ta3.snd.nxt
    rw [lf1.nxt, b_rcv]
    exact cf.nxt.symm
  · -- B is at rest
    refine ⟨b_heap, rfl, htB4, by show tb2.outgoing.retransmit.map _ = []; rw [hrtxB2]; rfl, rfl, hunaB2, ?_, wB2, hmB4,
      lpB, rpB⟩
    show ta5.rcv.nxt = tb2.snd.nxt
    rw [lf.rcv]
    exact hrcvA
  · rw [c2sa, c1sa]; exact hcsa
  · rw [c2sb, c1sb]; exact hcsb
  · rw [c2da, c1da, hcda]; simp


/-- **close with NO text queued from a steady state** (data in flight: delivered, its ACK still on the peer's one-shot
    queue): `close()` numbers the FIN at once; `close A`, `2n + 1` exchange phases (two suffice) -/
theorem close_data_none (n : Nat) (hn : 1 ≤ n) (s : Sys) (hg : Good iss s) (ta tb : Tcb) (hs : Steady s ta tb) (hi : IdleB ta tb)
    (hnt : ta.outgoing.text = []) :
    ∃ s1 ta1 tb1 s2, closeDataFrontN n s = .ok s1 ∧ FinRun s s1 ∧
      (s1.side .A).tcb = some ta1 ∧ (s1.side .B).tcb = some tb1 ∧
      ta1.state = .FinWait2 ∧ tb1.state = .CloseWait ∧ RestX .A ta1 tb1 ∧ RestX .B tb1 ta1 ∧
      (s1.side .A).submitted = (s.side .A).submitted ∧ (s1.side .B).submitted = (s.side .B).submitted ∧
      (s1.side .A).delivered = (s.side .A).delivered ∧
      closeDataRoundN n s = .ok s2 ∧ releaseTail s1 = .ok s2 ∧ FinRun s1 s2 ∧
      (s2.side .A).tcb = none ∧ (s2.side .B).tcb = none ∧
      (s2.side .A).submitted = (s.side .A).submitted ∧ (s2.side .B).submitted = (s.side .B).submitted ∧
      (s2.side .A).delivered = (s.side .A).delivered ∧ (s2.side .B).delivered = (s1.side .B).delivered := by
  have hsa : (s.side .A).tcb = some ta := hs.ha
  have hsb : (s.side .B).tcb = some tb := hs.hb
  have st0 : s.step (.close .A) = .ok (s.setSide .A { s.side .A with tcb := some (closedT ta) }, .closed .Ok) := by
    have : ta.close = .ok (closedT ta, .Ok) := close_fwd ta hs.a.st hnt
    simp only [Sys.step, Op.side, hsa, this]
  generalize hc0 : s.setSide .A { s.side .A with tcb := some (closedT ta) } = c0 at st0
  have c0a : (c0.side .A).tcb = some (closedT ta) := by rw [← hc0]; rfl
  have c0b : (c0.side .B).tcb = some tb := by rw [← hc0]; exact hsb
  have c0sa : (c0.side .A).submitted = (s.side .A).submitted := by rw [← hc0]; rfl
  have c0sb : (c0.side .B).submitted = (s.side .B).submitted := by rw [← hc0]; rfl
  have c0da : (c0.side .A).delivered = (s.side .A).delivered := by rw [← hc0]; rfl
  have hm : ¬ ta.mtu.toNat < SPACE_FOR_HEADERS := by have := hs.a.mtu; omega
  obtain ⟨eP, eC, cf⟩ := segments_closedT ta hnt hm
  obtain ⟨newA, ta2, outA, eA, fA⟩ := segments_fwd ta (by rw [hs.a.st]; trivial) hs.a.mtu
  rw [eP] at eA
  cases eA
  obtain ⟨c3, ta3, tb3, p3, r3, h3a, h3b, sa3, sb3, qa3, qb3, u1, u2, u3⟩ :=
    final_core_steady s c0 hg ta tb hs hi (closedT ta) c0a c0b c0sa c0sb c0da newA (emitT ta) (emitOut ta)
      (emitT (closedT ta)) (finSeg ta).hdr eP fA eC cf
  obtain ⟨c4, ta4, tb4, p4, r4, h4a, h4b, sa4, sb4, qa4, qb4, v1, v2, v3, _⟩ :=
    rest_phases (2 * n + 1 - 2) c3 ta3 tb3 h3a h3b sa3 sb3 qa3 qb3
  obtain ⟨sF, eF, rF, na, nb, w1, w2, w3, w4, _⟩ := release_tail c4 ta4 tb4 h4a h4b sa4 sb4 qa4 qb4
  have hfront : closeDataFrontN n s = .ok c4 := by
    unfold closeDataFrontN
    rw [st0]
    show phases (2 * n + 1) c0 = _
    rw [show 2 * n + 1 = 2 + (2 * n + 1 - 2) by omega, phases_add, p3]
    exact p4
  refine ⟨c4, ta4, tb4, sF, hfront, ?_, h4a, h4b, sa4, sb4, qa4, qb4, v1.trans u1, v2.trans u2,
    v3.trans u3, ?_, eF, rF, na, nb, (w1.trans v1).trans u1, (w2.trans v2).trans u2, (w3.trans v3).trans u3, w4⟩
  · exact (FinRun.step (op := .close .A) (.refl _) trivial st0).trans (FinRun.of_plain (r3.trans r4))
  · unfold closeDataRoundN
    rw [hfront]
    exact eF

end
end Elvis.Tcp
