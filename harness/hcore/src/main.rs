//! hcore: correspondence + oracle runs; sub-command `cXX` or `cXX-<variant>` selects the module.
mod props;
use hcommon::{install_panic_hook, parse_args};

fn main() {
    install_panic_hook();
    let args = parse_args();
    let key = args.prop.split('-').next().unwrap_or("").to_string();
    match key.as_str() {
        "c01" => props::c01::run(&args),
        "c03" => props::c03::run(&args),
        "c07" => props::c07::run(&args),
        "c08" => props::c08::run(&args),
        "c09" => props::c09::run(&args),
        "c10" => props::c10::run(&args),
        "c11" => props::c11::run(&args),
        "c12" => props::c12::run(&args),
        "c14" => props::c14::run(&args),
        "c17" => props::c17::run(&args),
        "c18" => props::c18::run(&args),
        p => {
            eprintln!("hcore: unknown property {}", p);
            std::process::exit(2);
        }
    }
}
