/-!
# Ephemeral-port allocation of `SocketAPI` (`get_ephemeral_port`) as a transition system

Every `Socket::connect` without a bound local endpoint (every cache miss of the DNS client) takes
its local port from one counter of the machine's `SocketAPI`.  The original code did

    let port = *self.local_ports.read().unwrap();      -- (1) read under the read lock
    *self.local_ports.write().unwrap() += 1;           -- (2) advance under the write lock

so on a multi-thread runtime two tasks can both be between (1) and (2); the repaired code does both
under one write lock.  The model keeps what matters for "no two sockets get the same port":

* `counter`  — the value of `local_ports`
* `pending`  — the values read by calls that are between (1) and (2), one entry per such call
* `handed`   — the ports returned so far, in order of return

`Step.alloc` is a whole call of the one-lock version; `Step.read` / `Step.finish k` are the two
halves of a call of the two-lock version (`k` picks which of the calls in flight continues).
The `u16` overflow of the counter (recorded finding F-C20-4: the 16 384th socket of a machine) is
not the subject here: the counter is a `Nat`.
-/
namespace Elvis.PortAlloc

structure Sys where
  counter : Nat
  pending : List Nat := []
  handed : List Nat := []
deriving Repr, DecidableEq

inductive Step
  /-- a call under one lock: read and advance -/
  | alloc
  /-- first half of a two-lock call: read the counter -/
  | read
  /-- second half of the `k`-th call in flight: advance the counter, return what was read -/
  | finish (k : Nat)
deriving Repr, DecidableEq

/-- `oneLock`: which version of the function runs; steps of the other version do nothing -/
def step (oneLock : Bool) (s : Sys) : Step → Sys
  | .alloc => if oneLock then { s with counter := s.counter + 1, handed := s.handed ++ [s.counter] } else s
  | .read => if oneLock then s else { s with pending := s.pending ++ [s.counter] }
  | .finish k =>
    if oneLock then s
    else
      match s.pending[k]? with
      | none => s
      | some p => { counter := s.counter + 1, pending := s.pending.eraseIdx k, handed := s.handed ++ [p] }

def run (oneLock : Bool) (s : Sys) : List Step → Sys
  | [] => s
  | a :: as => run oneLock (step oneLock s a) as

/-- first ephemeral port of a machine (`SocketAPI::new`) -/
def firstPort : Nat := 49152

def init : Sys := { counter := firstPort }

end Elvis.PortAlloc
