import ElvisVerif.Lemmas.C01Seq
import ElvisVerif.Lemmas.TcbInv
/-!
# C01 — the stream invariant of one TCB (`TInv`) and its frame relation (`Fr`)

`Valid iss sub g` — segment validity `V_X` of DESIGN.md section 8 (C01): what every segment
emitted by the endpoint with initial sequence number `iss` and submitted bytes `sub` looks like:
no FIN, a SYN carries `seq = iss` and no text, a text-bearing segment carries a slice
`sub[p, p+len)` at `seq = iss + 1 + p`.

`TInv port issX issY subX subY delX t` — the invariant of endpoint X's TCB `t` (peer Y):
send facts S1-S3, validity of everything on the retransmission and one-shot queues, validity of
the reorder heap (R2), and the receive facts R1 (`RCV.IRS = issY`, `RCV.NXT = issY + 1 + |delivered ++ buffered|`,
`delivered ++ buffered` a prefix of `subY`) outside SYN-SENT, `delivered = buffered = []` in
SYN-SENT.  No fact about acknowledgment numbers, `SND.UNA`, windows or timers.

`Fr t t'` — "nothing the invariant reads changed, except: queue entries disappeared, harmless
headers were appended to the one-shot queue, SYN-RECEIVED became ESTABLISHED".  Most blocks of
`process_segment` satisfy `Fr`; `TInv.of_fr` transports the invariant.
-/
namespace Elvis.Tcp.C01
open Elvis.ModCmp Elvis.Tcp.Tcb

/-- the states a TCB can be in when nobody closes (no FIN is ever sent) -/
def Ok3 : State → Prop
  | .SynSent | .SynReceived | .Established => True
  | _ => False

theorem Ok3.cases {st : State} (h : Ok3 st) : st = .SynSent ∨ st = .SynReceived ∨ st = .Established := by
  cases st <;> simp [Ok3] at h ⊢

/-- no FIN waits for queued text in the states of a connection nobody closes -/
theorem Ok3.finPending {t : Tcb} (h : Ok3 t.state) : t.finPending = false := by
  unfold Tcb.finPending
  rcases h.cases with hs | hs | hs <;> rw [hs] <;> rfl

/-- `V_X`: a segment the endpoint with ISS `iss` and submitted bytes `sub` may have emitted -/
structure Valid (iss : Seq) (sub : List UInt8) (g : Segment) : Prop where
  fin : g.hdr.ctl.fin = false
  syn : g.hdr.ctl.syn = true → g.hdr.seq = iss ∧ g.text = []
  txt : g.text ≠ [] → ∃ p, g.hdr.seq = iss + 1 + BitVec.ofNat 32 p ∧ p + g.text.length ≤ sub.length ∧
    g.text = (sub.drop p).take g.text.length

theorem Valid.mono {iss : Seq} {sub : List UInt8} {g : Segment} (h : Valid iss sub g) (more : List UInt8) :
    Valid iss (sub ++ more) g := by
  refine ⟨h.fin, h.syn, fun hne => ?_⟩
  obtain ⟨p, hs, hl, ht⟩ := h.txt hne
  refine ⟨p, hs, by rw [List.length_append]; omega, ?_⟩
  rw [List.drop_append_of_le_length (by omega), List.take_append_of_le_length (by rw [List.length_drop]; omega)]
  exact ht

/-- a segment without text, SYN and FIN is valid for everybody -/
theorem Valid.plain {iss : Seq} {sub : List UInt8} (h : Hdr) (hs : h.ctl.syn = false) (hf : h.ctl.fin = false) :
    Valid iss sub ⟨h, []⟩ :=
  ⟨hf, fun h' => by simp [hs] at h', fun h' => absurd rfl h'⟩

/-- the invariant of endpoint X's TCB -/
structure TInv (port : U16) (issX issY : Seq) (subX subY delX : List UInt8) (t : Tcb) : Prop where
  lp : t.localPort = port
  st : Ok3 t.state
  iss : t.snd.iss = issX
  out : ∃ pre, subX = pre ++ t.outgoing.text ∧ t.snd.nxt = issX + 1 + BitVec.ofNat 32 pre.length
  rtx : ∀ g ∈ t.outgoing.retransmit.map (·.segment), Valid issX subX g ∧ g.hdr.srcPort = port
  one : ∀ h ∈ t.outgoing.oneshot, h.ctl.syn = false ∧ h.ctl.fin = false ∧ h.srcPort = port
  heap : ∀ g ∈ t.incoming.segments, Valid issY subY g
  rcv0 : t.state = .SynSent → delX = [] ∧ t.incoming.text = []
  rcv1 : t.state ≠ .SynSent →
    t.rcv.nxt = issY + 1 + BitVec.ofNat 32 (delX.length + t.incoming.text.length) ∧
    (delX ++ t.incoming.text) <+: subY
  irs : t.state ≠ .SynSent → t.rcv.irs = issY

/-- the frame relation -/
structure Fr (t t' : Tcb) : Prop where
  lp : t'.localPort = t.localPort
  iss : t'.snd.iss = t.snd.iss
  nxt : t'.snd.nxt = t.snd.nxt
  otext : t'.outgoing.text = t.outgoing.text
  rcv : t'.rcv = t.rcv
  inc : t'.incoming = t.incoming
  st : t'.state = t.state ∨ (t.state = .SynReceived ∧ t'.state = .Established)
  rtx : ∀ g ∈ t'.outgoing.retransmit.map (·.segment), g ∈ t.outgoing.retransmit.map (·.segment)
  one : ∀ h ∈ t'.outgoing.oneshot, h ∈ t.outgoing.oneshot ∨
    (h.ctl.syn = false ∧ h.ctl.fin = false ∧ h.srcPort = t.localPort)

theorem Fr.refl (t : Tcb) : Fr t t :=
  ⟨rfl, rfl, rfl, rfl, rfl, rfl, Or.inl rfl, fun _ h => h, fun _ h => Or.inl h⟩

theorem Fr.trans {a b c : Tcb} (h1 : Fr a b) (h2 : Fr b c) : Fr a c := by
  refine ⟨h2.lp.trans h1.lp, h2.iss.trans h1.iss, h2.nxt.trans h1.nxt, h2.otext.trans h1.otext,
    h2.rcv.trans h1.rcv, h2.inc.trans h1.inc, ?_, fun g hg => h1.rtx g (h2.rtx g hg), fun h hh => ?_⟩
  · rcases h2.st with e2 | ⟨e2, e2'⟩
    · rcases h1.st with e1 | ⟨e1, e1'⟩
      · exact Or.inl (e2.trans e1)
      · exact Or.inr ⟨e1, e2.trans e1'⟩
    · rcases h1.st with e1 | ⟨e1, e1'⟩
      · exact Or.inr ⟨e1 ▸ e2, e2'⟩
      · rw [e1'] at e2; cases e2
  · rcases h2.one h hh with hb | ⟨x, y, z⟩
    · exact h1.one h hb
    · exact Or.inr ⟨x, y, z.trans h1.lp⟩

theorem Fr.ok3 {t t' : Tcb} (f : Fr t t') (h : Ok3 t.state) : Ok3 t'.state := by
  rcases f.st with e | ⟨_, e⟩
  · rw [e]; exact h
  · rw [e]; trivial

theorem Fr.synSent {t t' : Tcb} (f : Fr t t') : t'.state = .SynSent ↔ t.state = .SynSent := by
  rcases f.st with e | ⟨e, e'⟩
  · rw [e]
  · rw [e, e']; simp

theorem TInv.of_fr {port : U16} {issX issY : Seq} {subX subY delX : List UInt8} {t t' : Tcb}
    (h : TInv port issX issY subX subY delX t) (f : Fr t t') : TInv port issX issY subX subY delX t' := by
  refine ⟨f.lp.trans h.lp, f.ok3 h.st, f.iss.trans h.iss, ?_, fun g hg => h.rtx g (f.rtx g hg), fun x hx => ?_,
    by rw [f.inc]; exact h.heap, fun hs => ?_, fun hs => ?_, fun hs => ?_⟩
  · rw [f.otext, f.nxt]; exact h.out
  · rcases f.one x hx with hx | ⟨a, b, c⟩
    · exact h.one x hx
    · exact ⟨a, b, c.trans h.lp⟩
  · rw [f.inc]; exact h.rcv0 (f.synSent.1 hs)
  · rw [f.inc, f.rcv]; exact h.rcv1 (fun e => hs (f.synSent.2 e))
  · rw [f.rcv]; exact h.irs (fun e => hs (f.synSent.2 e))

/-! ## monotonicity in the peer's submitted bytes -/

theorem TInv.mono_peer {port : U16} {issX issY : Seq} {subX subY delX : List UInt8} {t : Tcb}
    (h : TInv port issX issY subX subY delX t) (more : List UInt8) :
    TInv port issX issY subX (subY ++ more) delX t :=
  ⟨h.lp, h.st, h.iss, h.out, h.rtx, h.one, fun g hg => (h.heap g hg).mono more, h.rcv0,
    fun hs => ⟨(h.rcv1 hs).1, (h.rcv1 hs).2.trans (List.prefix_append _ _)⟩, h.irs⟩

/-! ## headers -/

@[simp] theorem built_ctl (h : Hdr) : h.built.ctl = h.ctl := rfl
@[simp] theorem built_srcPort (h : Hdr) : h.built.srcPort = h.srcPort := rfl
@[simp] theorem built_dstPort (h : Hdr) : h.built.dstPort = h.dstPort := rfl
@[simp] theorem built_seq (h : Hdr) : h.built.seq = h.seq := rfl

theorem ackHdr_plain (t : Tcb) :
    t.ackHdr.built.ctl.syn = false ∧ t.ackHdr.built.ctl.fin = false ∧ t.ackHdr.built.srcPort = t.localPort :=
  ⟨rfl, rfl, rfl⟩

theorem rstForAck_plain (t : Tcb) (seg : Hdr) :
    (t.rstForAck seg).built.ctl.syn = false ∧ (t.rstForAck seg).built.ctl.fin = false ∧
      (t.rstForAck seg).built.srcPort = t.localPort :=
  ⟨rfl, rfl, rfl⟩

/-- queueing a header without SYN and FIN that carries our port is a frame step -/
theorem Fr.enq (t : Tcb) (h : Hdr) (hp : h.ctl.syn = false ∧ h.ctl.fin = false ∧ h.srcPort = t.localPort) :
    Fr t (t.enqueueBuilt h) := by
  unfold enqueueBuilt
  rw [if_neg (by simp [hp.1, hp.2.1])]
  refine ⟨rfl, rfl, rfl, rfl, rfl, rfl, Or.inl rfl, fun _ h => h, fun x hx => ?_⟩
  simp only [List.mem_append, List.mem_singleton] at hx
  rcases hx with hx | rfl
  · exact Or.inl hx
  · exact Or.inr hp

theorem Fr.enqAck (t : Tcb) : Fr t (t.enqueueBuilt t.ackHdr.built) := Fr.enq t _ (ackHdr_plain t)

theorem mem_map_filter {β γ : Type} (f : β → γ) (p : β → Bool) (l : List β) (g : γ)
    (h : g ∈ (l.filter p).map f) : g ∈ l.map f := by
  rw [List.mem_map] at h ⊢
  obtain ⟨a, ha, e⟩ := h
  exact ⟨a, (List.mem_filter.1 ha).1, e⟩

end Elvis.Tcp.C01
