import ElvisVerif.Lemmas.TcpRelFwd2
/-!
# The two endpoints of a sequential close, step by step

`x` closes first (`actA …`: FIN-WAIT-1 → FIN-WAIT-2 → TIME-WAIT); the peer closes when it has seen the FIN
(`pasB …`: CLOSE-WAIT → LAST-ACK → deleted).  All TCBs are explicit terms of the starting TCB.
-/
namespace Elvis.Tcp
open Elvis.ModCmp
namespace Tcb

theorem filter_unflag (l : List Transmit) (p : Transmit → Bool) :
    (((l.map fun x => ({ x with needsTransmit := false } : Transmit)).filter p).filter (·.needsTransmit)) = [] := by
  apply List.filter_eq_nil_iff.2
  intro a ha
  obtain ⟨b, _, rfl⟩ := List.mem_map.1 (List.mem_filter.1 ha).1
  simp

theorem filter_unflag' (l : List Transmit) :
    ((l.map fun x => ({ x with needsTransmit := false } : Transmit)).filter (·.needsTransmit)) = [] := by
  apply List.filter_eq_nil_iff.2
  intro a ha
  obtain ⟨b, _, rfl⟩ := List.mem_map.1 ha
  simp

/-- nothing is emitted twice -/
theorem emitOut_emitT (t : Tcb) : emitOut (emitT t) = [] := by
  unfold emitOut emitT
  simp only [List.map_nil, List.nil_append, filter_unflag']

/-! ## the side that closes first -/

/-- after `close()` and the emission of the FIN -/
def actA1 (t : Tcb) : Tcb := emitT (closedT t)
/-- after the next `segments()` (nothing to send) -/
def actA2 (t : Tcb) : Tcb := emitT (actA1 t)
/-- after the ACK of the FIN: FIN-WAIT-2 -/
def actA3 (t : Tcb) (gA : Segment) : Tcb := ({ aepT (actA2 t) gA.hdr with state := .FinWait2 } : Tcb)
def actA4 (t : Tcb) (gA : Segment) : Tcb := emitT (actA3 t gA)
/-- after the peer's FIN: TIME-WAIT -/
def actA5 (t : Tcb) (gA : Segment) : Tcb :=
  ({ actA4 t gA with state := .TimeWait, rcv.nxt := (actA4 t gA).rcv.nxt + 1, outgoing.oneshot := (actA4 t gA).outgoing.oneshot ++ [(actA4 t gA).finAckHdr], timeouts := { timeWait := some TIME_WAIT, retransmission := RTO } } : Tcb)
def actA6 (t : Tcb) (gA : Segment) : Tcb := emitT (actA5 t gA)

theorem act_close (x : SideId) (t u : Tcb) (q : QuietX x t u) :
    t.close = .ok (closedT t, .Ok) ∧ (closedT t).segments = .ok (actA1 t, [finSeg t]) ∧
      (actA1 t).receive = (actA1 t, []) ∧ (actA1 t).segments = .ok (actA2 t, []) := by
  refine ⟨close_fwd t q.st q.text, ?_, receive_empty _ q.buf, ?_⟩
  · have hout : emitOut (closedT t) = [finSeg t] := by
      unfold emitOut closedT
      simp only [q.one, q.rtx, List.map_nil, List.nil_append]
      rfl
    rw [← hout]
    exact segments_notext_eq (closedT t) q.text q.mtu
  · have := segments_notext_eq (actA1 t) q.text q.mtu
    rw [show emitOut (actA1 t) = [] from emitOut_emitT _] at this
    exact this

theorem act_ack (x : SideId) (t u : Tcb) (q : QuietX x t u) (gA : Segment)
    (hA : IsAck gA t.rcv.nxt (t.snd.nxt + 1)) :
    (actA2 t).arriveList [gA] = .ok (actA3 t gA) ∧ (actA3 t gA).receive = (actA3 t gA, []) ∧
      (actA3 t gA).segments = .ok (actA4 t gA, []) := by
  have hd : ((actA2 t).snd.nxt - (actA2 t).snd.una).toNat = 1 := by
    show (t.snd.nxt + 1 - t.snd.una).toNat = 1
    rw [q.una]
    have : t.snd.nxt + 1 - t.snd.nxt = 1 := by bv_omega
    rw [this]; rfl
  obtain ⟨k1, k2⟩ := ack_of_nxt (actA2 t).snd.una (actA2 t).snd.nxt (by omega) (by omega)
  have hack : gA.hdr.ack = (actA2 t).snd.nxt := hA.ack
  have e := arrive_ack_fw1 (actA2 t) gA rfl q.wnd q.heap q.text hA.rst hA.syn hA.fin hA.ackb hA.text hA.seq
    (by rw [hack]; exact k1) (by rw [hack]; exact k2) hack
  refine ⟨by simp only [arriveList, e]; rfl, receive_empty _ q.buf, ?_⟩
  have := segments_notext_eq (actA3 t gA) q.text q.mtu
  have hout : emitOut (actA3 t gA) = [] := by
    unfold emitOut actA3 aepT actA2 emitT
    simp only [List.map_nil, List.nil_append, filter_unflag]
  rw [hout] at this
  exact this

theorem act_fin (x : SideId) (t u : Tcb) (q : QuietX x t u) (gA gF : Segment)
    (hA : IsAck gA t.rcv.nxt (t.snd.nxt + 1)) (hF : IsFin gF t.rcv.nxt (t.snd.nxt + 1)) :
    (actA4 t gA).arriveList [gF] = .ok (actA5 t gA) ∧ (actA5 t gA).receive = (actA5 t gA, []) ∧
      (actA5 t gA).segments = .ok (actA6 t gA, [⟨(actA4 t gA).finAckHdr, []⟩]) ∧
      IsAck ⟨(actA4 t gA).finAckHdr, []⟩ (t.snd.nxt + 1) (t.rcv.nxt + 1) ∧
      (actA4 t gA).finAckHdr.srcPort = t.localPort ∧ (actA4 t gA).finAckHdr.dstPort = t.remotePort ∧
      (actA6 t gA).receive = (actA6 t gA, []) ∧ (actA6 t gA).timeouts.timeWait = some TIME_WAIT := by
  have e := arrive_fin_fw2 (actA4 t gA) gF rfl q.wnd q.heap hF.rst hF.syn hF.fin hF.ackb hF.text hF.seq
    (by
      show modLeq gF.hdr.ack gA.hdr.ack = true
      rw [hF.ack, hA.ack]; exact modLeq_self _)
  refine ⟨by simp only [arriveList, e]; rfl, receive_quiet _ (Or.inr (Or.inl rfl)), ?_, ⟨rfl, rfl, rfl, rfl, rfl, rfl, rfl⟩,
    rfl, rfl, receive_quiet _ (Or.inr (Or.inl rfl)), rfl⟩
  have := segments_notext_eq (actA5 t gA) q.text q.mtu
  have hout : emitOut (actA5 t gA) = [⟨(actA4 t gA).finAckHdr, []⟩] := by
    unfold emitOut actA5
    have h1 : (actA4 t gA).outgoing.oneshot = [] := rfl
    have h2 : (actA4 t gA).outgoing.retransmit.filter (·.needsTransmit) = [] := by
      unfold actA4 emitT
      exact filter_unflag' _
    simp only [h1, h2, List.nil_append, List.map_cons, List.map_nil, List.append_nil]
  rw [hout] at this
  exact this

/-! ## the side that closes second -/

def pasB1 (t : Tcb) : Tcb := emitT t
/-- after the peer's FIN: CLOSE-WAIT -/
def pasB2 (t : Tcb) : Tcb :=
  ({ pasB1 t with state := .CloseWait, rcv.nxt := (pasB1 t).rcv.nxt + 1, outgoing.oneshot := (pasB1 t).outgoing.oneshot ++ [(pasB1 t).finAckHdr] } : Tcb)
def pasB3 (t : Tcb) : Tcb := emitT (pasB2 t)
/-- after `close()`: LAST-ACK -/
def pasB4 (t : Tcb) : Tcb :=
  ({ pasB3 t with state := .LastAck, snd.nxt := (pasB3 t).snd.nxt + 1, outgoing.retransmit := (pasB3 t).outgoing.retransmit ++ [Transmit.new ⟨({ pasB3 t with state := .LastAck } : Tcb).finHdr.built, []⟩] } : Tcb)
def pasFin (t : Tcb) : Segment := ⟨({ pasB3 t with state := .LastAck } : Tcb).finHdr.built, []⟩
def pasB5 (t : Tcb) : Tcb := emitT (pasB4 t)
def pasB6 (t : Tcb) : Tcb := emitT (pasB5 t)

theorem pas_fin (x : SideId) (t u : Tcb) (q : QuietX x t u) (gF : Segment) (hF : IsFin gF t.rcv.nxt t.snd.nxt) :
    t.segments = .ok (pasB1 t, []) ∧ (pasB1 t).arriveList [gF] = .ok (pasB2 t) ∧
      (pasB2 t).receive = (pasB2 t, []) ∧
      (pasB2 t).segments = .ok (pasB3 t, [⟨(pasB1 t).finAckHdr, []⟩]) ∧
      IsAck ⟨(pasB1 t).finAckHdr, []⟩ t.snd.nxt (t.rcv.nxt + 1) ∧
      (pasB1 t).finAckHdr.srcPort = t.localPort ∧ (pasB1 t).finAckHdr.dstPort = t.remotePort ∧
      (pasB3 t).receive = (pasB3 t, []) := by
  have e0 := segments_notext_eq t q.text q.mtu
  have hout0 : emitOut t = [] := by
    unfold emitOut
    simp only [q.one, q.rtx, List.map_nil, List.filter_nil, List.append_nil]
  rw [hout0] at e0
  have e := arrive_fin_est (pasB1 t) gF q.st q.wnd q.heap hF.rst hF.syn hF.fin hF.ackb hF.text hF.seq
    (by
      show modLeq gF.hdr.ack t.snd.una = true
      rw [hF.ack, q.una]; exact modLeq_self _)
  refine ⟨e0, by simp only [arriveList, e]; rfl, receive_empty _ q.buf, ?_, ⟨rfl, rfl, rfl, rfl, rfl, rfl, rfl⟩, rfl, rfl,
    receive_empty _ q.buf⟩
  have := segments_notext_eq (pasB2 t) q.text q.mtu
  have hout : emitOut (pasB2 t) = [⟨(pasB1 t).finAckHdr, []⟩] := by
    unfold emitOut pasB2
    have h1 : (pasB1 t).outgoing.oneshot = [] := rfl
    have h2 : (pasB1 t).outgoing.retransmit.filter (·.needsTransmit) = [] := by
      unfold pasB1 emitT
      exact filter_unflag' _
    simp only [h1, h2, List.nil_append, List.map_cons, List.map_nil, List.append_nil]
  rw [hout] at this
  exact this

theorem pas_close (x : SideId) (t u : Tcb) (q : QuietX x t u) (gA : Segment)
    (hA : IsAck gA (t.rcv.nxt + 1) (t.snd.nxt + 1)) :
    (pasB3 t).close = .ok (pasB4 t, .Ok) ∧ (pasB4 t).segments = .ok (pasB5 t, [pasFin t]) ∧
      IsFin (pasFin t) t.snd.nxt (t.rcv.nxt + 1) ∧
      (pasFin t).hdr.srcPort = t.localPort ∧ (pasFin t).hdr.dstPort = t.remotePort ∧
      (pasB5 t).receive = (pasB5 t, []) ∧ (pasB5 t).segments = .ok (pasB6 t, []) ∧
      ∃ t', (pasB6 t).segmentArrives gA = .ok (t', .Close) := by
  have hq : (pasB3 t).outgoing.retransmit = [] := by
    unfold pasB3 emitT pasB2 pasB1 emitT
    simp only [q.rtx, List.map_nil]
  refine ⟨close_fwd_cw (pasB3 t) rfl q.text, ?_, ⟨rfl, rfl, rfl, rfl, rfl, rfl, rfl⟩, rfl, rfl,
    receive_quiet _ (Or.inr (Or.inr rfl)), ?_, ?_⟩
  · have := segments_notext_eq (pasB4 t) q.text q.mtu
    have hout : emitOut (pasB4 t) = [pasFin t] := by
      unfold emitOut pasB4
      have h1 : (pasB3 t).outgoing.oneshot = [] := rfl
      simp only [h1, hq, List.map_nil, List.nil_append]
      rfl
    rw [hout] at this
    exact this
  · have := segments_notext_eq (pasB5 t) q.text q.mtu
    rw [show emitOut (pasB5 t) = [] from emitOut_emitT _] at this
    exact this
  · have hd : ((pasB6 t).snd.nxt - (pasB6 t).snd.una).toNat = 1 := by
      show (t.snd.nxt + 1 - t.snd.una).toNat = 1
      rw [q.una]
      have : t.snd.nxt + 1 - t.snd.nxt = 1 := by bv_omega
      rw [this]; rfl
    exact arrive_ack_lastack (pasB6 t) gA rfl q.wnd q.heap q.text hA.syn hA.fin hA.ackb hA.text hA.seq hd hA.ack

end Tcb
end Elvis.Tcp
