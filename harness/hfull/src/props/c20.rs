//! C20: correspondence + oracle runs (sub-commands `c20` / `c20-*`).
use hcommon::*;

pub fn run(args: &Args) {
    eprintln!("hfull: {} not implemented yet", args.prop);
    std::process::exit(2);
}
