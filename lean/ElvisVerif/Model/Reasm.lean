import ElvisVerif.Model.Frag
import ElvisVerif.Base.Heap
import ElvisVerif.Generated.Consts
/-
Model of `elvis_core::protocols::ipv4::reassembly` (reassembly.rs, reassembly/{segment,fragment,
bitvec,buf_id}.rs): `Reassembly::receive_packet`, `Reassembly::maybe_cull_segment`,
`Segment::receive_packet`, the block bit vector and the offset-ordered `BinaryHeap<Fragment>`.

Same branches, same order of the checked u16 operations (each a `panic:<kind>:<site>` error).
`Message` is a byte list (C07).  The `FxHashMap<BufId, Segment>` is an association list (its
iteration order is never observed).  The bit vector is a `Nat` used as a bit mask
(`set_range` = or with a run of ones, `complete n` = the low `n` bits are all set); its byte
layout is not observable.

Two behaviours of the code exist in this model, selected by `Cfg`:
* `Cfg.orig`  — the code as it was before the two `fix:` commits (kept so that the
  counterexample theorems of F-C11-1 / F-C11-2 stay checkable);
* `Cfg.fixed` — the current code: overlapping octets are trimmed when the datagram is put
  together, and a new buffer starts its epoch at the reassembler's `epoch_floor`.
Only core imports: this file is linked into the native driver.
-/
namespace Elvis.Reasm
open Elvis.Frag

structure Cfg where
  /-- F-C11-1 fix: octets already in place are not appended again -/
  trim : Bool
  /-- F-C11-2 fix: buffers start at the epoch floor; the floor rises when a buffer is freed -/
  floor : Bool
deriving DecidableEq, Repr

def Cfg.orig : Cfg := ⟨false, false⟩
def Cfg.fixed : Cfg := ⟨true, true⟩

/-- `BufId { src, dst, protocol, identification }` -/
structure BufId where
  src : Nat
  dst : Nat
  proto : Nat
  ident : Nat
deriving DecidableEq, Repr, Inhabited

/-- `BufId::from_header` -/
def BufId.ofHdr (h : Hdr) : BufId := ⟨h.src, h.dst, h.proto, h.ident⟩

/-- `reassembly::fragment::Fragment { message, offset }` -/
structure Piece where
  body : List UInt8
  offset : Nat
deriving Repr, Inhabited

/-- `<=` of `Fragment`: `cmp` is the *reversed* comparison of the offsets, so
    `a <= b ⇔ a.offset >= b.offset` (the heap's maximum is the smallest offset) -/
def Piece.le (a b : Piece) : Bool := decide (b.offset ≤ a.offset)

/-! ### `BitVec` -/

/-- `BitVec::get` -/
def bitGet (m : Nat) (b : Nat) : Bool := m.testBit b

/-- `BitVec::set_range(start, end)` (nothing when `start >= end`) -/
def setRange (m s e : Nat) : Nat :=
  if s < e then m ||| ((2 ^ (e - s) - 1) <<< s) else m

/-- `BitVec::complete(len)` : `(0..len).all(|i| self.get(i))` -/
def complete (m len : Nat) : Bool := m &&& (2 ^ len - 1) == 2 ^ len - 1

/-! ### `Segment` -/

structure Segment where
  header : Option Hdr
  blocks : Nat
  frags : Array Piece
  tdl : Nat
  timeout : Nat
  epoch : Nat
deriving Repr, Inhabited

/-- `Segment::new`, with the epoch it starts counting from (0 in `Segment::new` itself; the fixed
    `Reassembly::receive_packet` overwrites it with the epoch floor) -/
def Segment.newAt (epoch : Nat) : Segment :=
  { header := none, blocks := 0, frags := #[], tdl := 0, timeout := Elvis.Gen.TLB, epoch := epoch }

/-- `Segment::new` -/
def Segment.new : Segment := Segment.newAt 0

/-- putting the datagram together from the pieces in pop order.
    original code: plain concatenation.  fixed code: the first
    `min(have − 8·offset, len)` octets of a piece are already in place and are dropped. -/
def assemble (cfg : Cfg) (ps : List Piece) : List UInt8 :=
  ps.foldl (fun msg p =>
    if cfg.trim then msg ++ p.body.drop (min (msg.length - p.offset * 8) p.body.length)
    else msg ++ p.body) []

/-- `Segment::receive_packet`: the new segment and `Some((header, message))` on completion -/
def Segment.receive (cfg : Cfg) (s : Segment) (h : Hdr) (body : List UInt8) :
    Except String (Segment × Option (Hdr × List UInt8)) :=
  -- (8) self.fragments.push(Fragment::new(body, header.fragment_offset))
  let frags := Elvis.Heap.push Piece.le s.frags ⟨body, h.fragOffset⟩
  -- (9) header.fragment_offset + (header.total_length - header.ihl as u16 * 4 + 7) / 8
  if h.totalLength < h.ihl * 4 then .error "panic:sub-overflow:data_length" else
  let dl := h.totalLength - h.ihl * 4
  -- (the `+ 7` and the `fragment_offset +` additions sit on one source line: one panic class)
  if 65535 < dl + 7 then .error "panic:add-overflow:block_end" else
  if 65535 < h.fragOffset + (dl + 7) / 8 then .error "panic:add-overflow:block_end" else
  let blocks := setRange s.blocks h.fragOffset (h.fragOffset + (dl + 7) / 8)
  -- (10) IF MF = 0 THEN TDL <- TL-(IHL*4)+(FO*8)
  if isLast h.flags && 65535 < h.fragOffset * 8 then .error "panic:mul-overflow:tdl" else
  if isLast h.flags && 65535 < dl + h.fragOffset * 8 then .error "panic:add-overflow:tdl" else
  let tdl := if isLast h.flags then dl + h.fragOffset * 8 else s.tdl
  -- (11) IF FO = 0 THEN put header in header buffer
  let header := if h.fragOffset = 0 then some h else s.header
  -- (12)(13)
  if tdl ≠ 0 && 65535 < tdl + 7 then .error "panic:add-overflow:tdl_round" else
  if tdl ≠ 0 && complete blocks ((tdl + 7) / 8) then
    match header with
    | none => .error "panic:unwrap:header"
    | some hd =>
      -- (14) TL <- TDL+(IHL*4)
      if 65535 < tdl + hd.ihl * 4 then .error "panic:add-overflow:total_length" else
      let hd' := { hd with totalLength := tdl + hd.ihl * 4, flags := setIsLast hd.flags true }
      -- (15) pop all pieces
      let msg := assemble cfg (Elvis.Heap.drain Piece.le frags)
      .ok ({ s with header := header, blocks := blocks, frags := #[], tdl := tdl }, some (hd', msg))
  else
    -- (17) self.epoch += 1; TIMER <- MAX(TIMER,TTL)
    if 65535 ≤ s.epoch && !cfg.floor then .error "panic:add-overflow:epoch" else
    .ok ({ header := header, blocks := blocks, frags := frags, tdl := tdl,
           timeout := max s.timeout h.ttl, epoch := s.epoch + 1 }, none)

/-! ### `Reassembly` -/

structure Reassembly where
  segments : List (BufId × Segment)
  /-- `epoch_floor` (fixed code only; stays 0 in the original) -/
  floor : Nat
deriving Repr, Inhabited

def Reassembly.new : Reassembly := ⟨[], 0⟩

def lookup (id : BufId) : List (BufId × Segment) → Option Segment
  | [] => none
  | (k, v) :: rest => if k = id then some v else lookup id rest

def erase (id : BufId) (l : List (BufId × Segment)) : List (BufId × Segment) :=
  l.filter fun p => !decide (p.1 = id)

def insert (id : BufId) (s : Segment) (l : List (BufId × Segment)) : List (BufId × Segment) :=
  (id, s) :: erase id l

/-- freeing a buffer: `self.segments.remove(&buf_id)`; the fixed code raises the epoch floor to
    the freed buffer's epoch -/
def Reassembly.free (cfg : Cfg) (r : Reassembly) (id : BufId) : Reassembly :=
  match lookup id r.segments with
  | none => r
  | some s =>
    { segments := erase id r.segments, floor := if cfg.floor then max r.floor s.epoch else r.floor }

/-- `enum ReceivePacketResult` (the `Duration` in whole seconds) -/
inductive Result
  | complete (h : Hdr) (body : List UInt8)
  | incomplete (timeout : Nat) (id : BufId) (epoch : Nat)
deriving Repr

/-- second half of `Reassembly::receive_packet`: the fragment goes into the buffer `seg` of `id` -/
def Reassembly.receiveInto (cfg : Cfg) (r : Reassembly) (id : BufId) (seg : Segment) (h : Hdr)
    (body : List UInt8) : Except String (Reassembly × Result) :=
  match seg.receive cfg h body with
  | .error e => .error e
  | .ok (seg', some (hd, msg)) =>
    -- (16) free all reassembly resources
    .ok (({ r with segments := insert id seg' r.segments } : Reassembly).free cfg id, .complete hd msg)
  | .ok (seg', none) =>
    .ok ({ r with segments := insert id seg' r.segments }, .incomplete seg'.timeout id seg'.epoch)

/-- the buffer a fragment for `id` goes into: (6)(7) `entry(buf_id).or_insert(Segment::new())`
    (the fixed code starts a new buffer at the epoch floor) -/
def Reassembly.bufferFor (cfg : Cfg) (r : Reassembly) (id : BufId) : Segment :=
  match lookup id r.segments with
  | some s => s
  | none => Segment.newAt (if cfg.floor then r.floor else 0)

/-- `Reassembly::receive_packet` -/
def Reassembly.receive (cfg : Cfg) (r : Reassembly) (h : Hdr) (body : List UInt8) :
    Except String (Reassembly × Result) :=
  let id := BufId.ofHdr h
  -- (2) IF FO = 0 AND MF = 0 : flush, submit
  if isLast h.flags && h.fragOffset = 0 then .ok (r.free cfg id, .complete h body)
  else r.receiveInto cfg id (r.bufferFor cfg id) h body

/-- `Reassembly::maybe_cull_segment` -/
def Reassembly.maybeCull (cfg : Cfg) (r : Reassembly) (id : BufId) (epoch : Nat) : Reassembly :=
  match lookup id r.segments with
  | some s => if s.epoch = epoch then r.free cfg id else r
  | none => r

/-- is a buffer allocated for `id`? (what the harness observes through `verif_contains`) -/
def Reassembly.contains (r : Reassembly) (id : BufId) : Bool := (lookup id r.segments).isSome

/-! ### operation sequences -/

inductive Op
  | pkt (h : Hdr) (body : List UInt8)
  | cull (id : BufId) (epoch : Nat)
deriving Repr

inductive Out
  | res (r : Result)
  | panic (e : String)
  /-- buffer present before / after the cull -/
  | culled (before after : Bool)
deriving Repr

/-- one step; a panicking `receive_packet` leaves the reassembler as it was (the harness restores
    the pre-call clone, a `&mut` method that panicked half-way has no defined value) -/
def step (cfg : Cfg) (r : Reassembly) : Op → Reassembly × Out
  | .pkt h body =>
    match r.receive cfg h body with
    | .ok (r', res) => (r', .res res)
    | .error e => (r, .panic e)
  | .cull id epoch =>
    let r' := r.maybeCull cfg id epoch
    (r', .culled (r.contains id) (r'.contains id))

def run (cfg : Cfg) (r : Reassembly) : List Op → Reassembly × List Out
  | [] => (r, [])
  | op :: ops =>
    let (r', o) := step cfg r op
    let (r'', os) := run cfg r' ops
    (r'', o :: os)

end Elvis.Reasm
