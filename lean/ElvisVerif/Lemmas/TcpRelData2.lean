import ElvisVerif.Lemmas.TcpRelData
import ElvisVerif.Lemmas.TcpRelTwin
/-!
# `close()` with ANY amount of unsent text queued (quiet peer): the closer keeps segmentizing in FIN-WAIT-1

The closed system `c` runs alongside its close-free twin `s` (`Twin`): same TCBs except that A's is in FIN-WAIT-1.
* `phase_twin`: while the window does not let through all of A's unsent text, one exchange phase does to `c` exactly what it
  does to `s` (the closer cuts what the window admits, `Tcb.segments_twin_more`; B's ACKs of the previous window are
  processed as in ESTABLISHED, `Tcb.ackList_twin`); `s` stays `Good` and steady, so the argument repeats.
* `phase_final`: once the window admits all the remaining text, two phases: the text and the FIN behind it, B's ACKs;
  A is in FIN-WAIT-2 and B in CLOSE-WAIT, both at rest (`RestX`).
* `close_data_any`: at most `2n − 1` phases of the first kind when `|unsent| ≤ 65535·n`.
-/
namespace Elvis.Tcp
open Tcb Elvis.ModCmp Elvis.Tcp.Fin

/-- `c` is `s` with A's TCB in FIN-WAIT-1 -/
structure Twin (c s : Sys) (ta tb : Tcb) : Prop where
  ca : (c.side .A).tcb = some (fw ta)
  cb : (c.side .B).tcb = some tb
  sa : (c.side .A).submitted = (s.side .A).submitted
  sb : (c.side .B).submitted = (s.side .B).submitted
  da : (c.side .A).delivered = (s.side .A).delivered
  db : (c.side .B).delivered = (s.side .B).delivered

/-- the peer B has nothing unsent (what it has sent has been received — `Steady` — but need not be acknowledged yet) -/
structure IdleB (ta tb : Tcb) : Prop where
  tbt : tb.outgoing.text = []

section
variable {iss : SideId → Seq}

/-- B emits only its pure ACKs -/
theorem idle_out {s : Sys} (hg : Good iss s) (ta tb tb1 : Tcb) (newB : List Transmit) (outB : List Segment)
    (hsb : (s.side .B).tcb = some tb) (S : SteadyX tb ta) (tbt : tb.outgoing.text = [])
    (fB : EmitFx tb newB tb1 outB) :
    emitAmount tb = 0 ∧ newB = [] ∧ outB = tb.outgoing.oneshot.map (fun h => (⟨h, []⟩ : Segment)) ∧
      tb1.snd.nxt = tb.snd.nxt := by
  have hamtB : emitAmount tb = 0 := by unfold emitAmount; rw [tbt]; simp
  have hnewB : newB = [] := by
    have := dataRun_nil _ _ _ _ _ _ fB.run (by rw [fB.bytes, hamtB])
    exact List.map_eq_nil_iff.1 this
  obtain ⟨houtB, _⟩ := out_shape hg .B tb ta tb1 newB outB hsb S fB
  exact ⟨hamtB, hnewB, by rw [houtB, hnewB]; simp, by rw [fB.nxt, hamtB]; simp⟩

/-- **one exchange phase while text remains**: the closed system follows its twin -/
theorem phase_twin (s c : Sys) (hg : Good iss s) (ta tb : Tcb) (hs : Steady s ta tb) (hi : IdleB ta tb)
    (tw : Twin c s ta tb) (hmore : emitAmount ta < ta.outgoing.text.length) :
    ∃ s' c' ta' tb', phase s = .ok s' ∧ PlainRun s s' ∧ Good iss s' ∧ Steady s' ta' tb' ∧ IdleB ta' tb' ∧
      PhaseX ta tb ta' ∧ phase c = .ok c' ∧ PlainRun c c' ∧ Twin c' s' ta' tb' ∧
      (s'.side .A).submitted = (s.side .A).submitted ∧ (s'.side .B).submitted = (s.side .B).submitted := by
  have hsa : (s.side .A).tcb = some ta := hs.ha
  have hsb : (s.side .B).tcb = some tb := hs.hb
  obtain ⟨newA, ta1, outA, eA, fA, eA'⟩ := segments_twin_more ta hs.a.st hs.a.mtu
  have hne1 : ta1.outgoing.text ≠ [] := by
    intro h0
    have := congrArg List.length h0
    rw [fA.text, List.length_drop] at this
    simp only [List.length_nil] at this
    omega
  have eA' := eA' hne1
  obtain ⟨s1, r1, st1, h1a, h1p, h1sub, _, h1len, h1new, h1old⟩ := emit_facts s .A ta ta1 outA hsa eA
  have h1b : (s1.side .B).tcb = some tb := by
    have : s1.side .B = s.side .B := h1p
    rw [this]; exact hsb
  obtain ⟨newB, tb1, outB, eB, fB⟩ := segments_fwd tb (by rw [hs.b.st]; trivial) hs.b.mtu
  obtain ⟨s2, r2, st2, h2b, h2p, h2sub, _, h2len, h2new, h2old⟩ := emit_facts s1 .B tb tb1 outB h1b eB
  have h2pa : s2.side .A = s1.side .A := h2p
  have h2a : (s2.side .A).tcb = some ta1 := by rw [h2pa]; exact h1a
  have r02 : PlainRun s s2 :=
    (PlainRun.step (op := .emit .A) (.refl _) trivial st1).trans (.step (op := .emit .B) (.refl _) trivial st2)
  have hsubA2 : (s2.side .A).submitted = (s.side .A).submitted := by rw [h2pa]; exact h1sub
  have hsubB2 : (s2.side .B).submitted = (s.side .B).submitted := by
    rw [h2sub]
    have : s1.side .B = s.side .B := h1p
    rw [this]
  have hroom2 : RoomH s2 := by
    have a := hg.room.1
    have b := hg.room.2
    exact ⟨by show (s2.side .A).submitted.length + 2 < _; rw [hsubA2]; exact a,
      by show (s2.side .B).submitted.length + 2 < _; rw [hsubB2]; exact b⟩
  have hg2 : Good iss s2 := ⟨(ext_run hg.conv hg.ext r02 hroom2).1, (ext_run hg.conv hg.ext r02 hroom2).2, hroom2⟩
  have oneA := oneshot_facts hg .A ta tb hsa hsb hs.a.st
  have oneB := oneshot_facts hg .B tb ta hsb hsa hs.b.st
  have sqA := squeeze_facts hg .A ta tb hsa hsb hs.b.st
  have sqB := squeeze_facts hg .B tb ta hsb hsa hs.a.st
  obtain ⟨houtA, haA⟩ := out_shape hg .A ta tb ta1 newA outA hsa hs.a fA
  obtain ⟨_, haB⟩ := out_shape hg .B tb ta tb1 newB outB hsb hs.b fB
  obtain ⟨hamtB, hnewB, houtB, hnxtB1⟩ := idle_out hg ta tb tb1 newB outB hsb hs.b hi.tbt fB
  -- each side takes the other's batch (twin)
  obtain ⟨tb2, eb2, b_st, _⟩ :=
    side_outcome hg2 .B tb tb1 ta ta1 newB newA outB outA h2b fB fA hs.b hs.a oneA sqB (hg.iss_eq .B tb hsb)
      (hg.sent_lt .B tb hsb) (fun tr htr => (hg.queue .B tb hsb tr htr).2)
  obtain ⟨ta2, ea2, a_st, _⟩ :=
    side_outcome hg2 .A ta ta1 tb tb1 newA newB outA outB h2a fA fB hs.a hs.b oneB sqA (hg.iss_eq .A ta hsa)
      (hg.sent_lt .A ta hsa) (fun tr htr => (hg.queue .A ta hsa tr htr).2)
  -- the closer takes B's pure ACKs as its twin does
  have sq2 := squeeze_facts hg2 .A ta1 tb1 h2a h2b (by rw [fB.st]; exact hs.b.st)
  have issA1 : ta1.snd.iss = iss .A := hg2.iss_eq .A ta1 h2a
  have hsent1 : ta1.sent = ta.sent + emitAmount ta := by
    unfold sent
    rw [issA1, fA.nxt, ← hg.iss_eq .A ta hsa]
    have := hg.sent_lt .A ta hsa
    have hΔ : emitAmount ta ≤ 65535 := by
      unfold emitAmount
      have := ta.snd.wnd.isLt
      omega
    exact off_add _ _ _ (by unfold sent at this; omega)
  have ea2' : (fw ta1).arriveList outB = .ok (fw ta2) := by
    refine (ackList_twin (iss .A) ta1.sent (hg2.sent_lt .A ta1 h2a) outB ta1 ta2 (by rw [fA.st]; exact hs.a.st)
      (by rw [fA.rcv]; exact hg.wnd .A ta hsa) (by rw [fA.inc]; exact hs.a.heap) hne1 issA1
      (by unfold sent; rw [issA1]) (by have := sq2.1; have := sq2.2; omega) ?_ ea2).1
    intro g hg'
    rw [houtB] at hg'
    obtain ⟨h, hh, rfl⟩ := List.mem_map.1 hg'
    obtain ⟨e1, e2, e3, e4, e5, e6, e7⟩ := oneB.2 h hh
    have e7' : off (iss .A) h.ack ≤ off (iss .A) tb.rcv.nxt := e7
    have hsync : off (iss .A) tb.rcv.nxt = ta.sent := by
      rw [hs.a.sync]; unfold sent; rw [hg.iss_eq .A ta hsa]
    refine ⟨⟨e2, e3, e4, e5, rfl⟩, ?_, ?_, ?_⟩
    · show h.seq = ta1.rcv.nxt
      rw [fA.rcv, hs.b.sync]; exact e1
    · show 1 ≤ off (iss .A) h.ack
      exact e6
    · show off (iss .A) h.ack ≤ ta1.sent
      omega
  -- the two phases
  obtain ⟨s6, ph, r06, h6a, h6b, h6sa, h6sb, h6da, h6db, _⟩ :=
    phase_eval s ta tb ta1 tb1 ta2 tb2 outA outB hsa hsb eA eB eb2 ea2 (fun g hg' => haA g hg') (fun g hg' => haB g hg')
  obtain ⟨c6, phc, rc06, k6a, k6b, k6sa, k6sb, k6da, k6db, _⟩ :=
    phase_eval c (fw ta) tb (fw ta1) tb1 (fw ta2) tb2 outA outB tw.ca tw.cb eA' eB eb2 ea2'
      (fun g hg' => haA g hg') (fun g hg' => haB g hg')
  obtain ⟨s', ta', tb', hp, hr, hg', hs', pa, pb⟩ := phase_steady s hg ta tb hs
  rw [ph] at hp
  cases hp
  have hta' : ta' = ta2.receive.1 := by
    have := hs'.ha
    have h6a' : s6.a.tcb = some ta2.receive.1 := h6a
    rw [h6a'] at this
    cases this; rfl
  have htb' : tb' = tb2.receive.1 := by
    have := hs'.hb
    have h6b' : s6.b.tcb = some tb2.receive.1 := h6b
    rw [h6b'] at this
    cases this; rfl
  have hrA : (fw ta2).receive = (fw ta2.receive.1, ta2.receive.2) := by
    rw [receive_established ta2 a_st]
    rfl
  have hoa' : ta'.outgoing.oneshot = [] := pa.one hamtB
  have hidle' : IdleB ta' tb' := ⟨by rw [pb.text, hi.tbt]; simp⟩
  refine ⟨s6, c6, ta', tb', ph, hr, hg', hs', hidle', pa, phc, rc06, ?_, h6sa, h6sb⟩
  rw [hrA] at k6a k6da
  exact ⟨by rw [hta']; exact k6a, by rw [htb']; exact k6b, by rw [k6sa, h6sa]; exact tw.sa,
    by rw [k6sb, h6sb]; exact tw.sb, by rw [k6da, h6da, tw.da], by rw [k6db, h6db, tw.db]⟩

/-- **the last two phases**: the window admits all the remaining text -/
theorem phase_final (s c : Sys) (hg : Good iss s) (ta tb : Tcb) (hs : Steady s ta tb) (hi : IdleB ta tb)
    (tw : Twin c s ta tb) (hne : ta.outgoing.text ≠ []) (hfit : emitAmount ta = ta.outgoing.text.length) :
    ∃ c' ta' tb', phases 2 c = .ok c' ∧ PlainRun c c' ∧
      (c'.side .A).tcb = some ta' ∧ (c'.side .B).tcb = some tb' ∧
      ta'.state = .FinWait2 ∧ tb'.state = .CloseWait ∧ RestX .A ta' tb' ∧ RestX .B tb' ta' ∧
      (c'.side .A).submitted = (s.side .A).submitted ∧ (c'.side .B).submitted = (s.side .B).submitted ∧
      (c'.side .A).delivered = (s.side .A).delivered := by
  have hsa : (s.side .A).tcb = some ta := hs.ha
  have hsb : (s.side .B).tcb = some tb := hs.hb
  have hfitA : ta.outgoing.text.length ≤ ta.snd.wnd.toNat - rtxBytes ta.outgoing.retransmit := by
    unfold emitAmount at hfit; omega
  -- both sides emit (A: the ESTABLISHED twin and the closer)
  obtain ⟨newA, ta1, outA, ta1', fin, eA, fA, eA', cf⟩ := segments_twin ta hs.a.st hs.a.mtu hfitA
  have eA' := eA' hne
  obtain ⟨s1, r1, st1, h1a, h1p, h1sub, _, h1len, h1new, h1old⟩ := emit_facts s .A ta ta1 outA hsa eA
  have h1b : (s1.side .B).tcb = some tb := by
    have : s1.side .B = s.side .B := h1p
    rw [this]; exact hsb
  obtain ⟨newB, tb1, outB, eB, fB⟩ := segments_fwd tb (by rw [hs.b.st]; trivial) hs.b.mtu
  obtain ⟨s2, r2, st2, h2b, h2p, h2sub, _, h2len, h2new, h2old⟩ := emit_facts s1 .B tb tb1 outB h1b eB
  have h2pa : s2.side .A = s1.side .A := h2p
  have h2a : (s2.side .A).tcb = some ta1 := by rw [h2pa]; exact h1a
  have r02 : PlainRun s s2 :=
    (PlainRun.step (op := .emit .A) (.refl _) trivial st1).trans (.step (op := .emit .B) (.refl _) trivial st2)
  have hsubA2 : (s2.side .A).submitted = (s.side .A).submitted := by rw [h2pa]; exact h1sub
  have hsubB2 : (s2.side .B).submitted = (s.side .B).submitted := by
    rw [h2sub]
    have : s1.side .B = s.side .B := h1p
    rw [this]
  have hroom2 : RoomH s2 := by
    have a := hg.room.1
    have b := hg.room.2
    exact ⟨by show (s2.side .A).submitted.length + 2 < _; rw [hsubA2]; exact a,
      by show (s2.side .B).submitted.length + 2 < _; rw [hsubB2]; exact b⟩
  have hg2 : Good iss s2 := ⟨(ext_run hg.conv hg.ext r02 hroom2).1, (ext_run hg.conv hg.ext r02 hroom2).2, hroom2⟩
  have oneA := oneshot_facts hg .A ta tb hsa hsb hs.a.st
  have oneB := oneshot_facts hg .B tb ta hsb hsa hs.b.st
  have sqB := squeeze_facts hg .B tb ta hsb hsa hs.a.st
  obtain ⟨houtA, haA⟩ := out_shape hg .A ta tb ta1 newA outA hsa hs.a fA
  obtain ⟨_, haB⟩ := out_shape hg .B tb ta tb1 newB outB hsb hs.b fB
  obtain ⟨hamtB, hnewB, houtB, hnxtB1⟩ := idle_out hg ta tb tb1 newB outB hsb hs.b hi.tbt fB
  -- B takes A's data
  obtain ⟨tb2, eb2, b_st, b_heap, b_rcv, b_nxt, b_mtu, b_unf, b_una, _, b_text, _, _⟩ :=
    side_outcome hg2 .B tb tb1 ta ta1 newB newA outB outA h2b fB fA hs.b hs.a oneA sqB (hg.iss_eq .B tb hsb)
      (hg.sent_lt .B tb hsb) (fun tr htr => (hg.queue .B tb hsb tr htr).2)
  have hnA : ∀ j (hj : j < outA.length), s2.nth (s.historyLen + j) = some outA[j] := by
    intro j hj
    rw [h2old _ (by rw [h1len]; omega)]
    exact h1new j hj
  obtain ⟨s3, _, r23, h3b, h3p, h3sub, _, _, _⟩ :=
    batch_facts s2 .B s.historyLen outA tb1 tb2 h2b hnA eb2 (fun g hg' => haA g hg')
  have h3pa : s3.side .A = s2.side .A := h3p
  have h3a : (s3.side .A).tcb = some ta1 := by rw [h3pa]; exact h2a
  have hroom3 : RoomH s3 := by
    have a := hg.room.1
    have b := hg.room.2
    exact ⟨by show (s3.side .A).submitted.length + 2 < _; rw [h3pa, hsubA2]; exact a,
      by show (s3.side .B).submitted.length + 2 < _; rw [h3sub, hsubB2]; exact b⟩
  have r03 : PlainRun s s3 := r02.trans r23
  have hg3 : Good iss s3 := ⟨(ext_run hg.conv hg.ext r03 hroom3).1, (ext_run hg.conv hg.ext r03 hroom3).2, hroom3⟩
  -- what the invariants say about the twin `ta1` and about `tb2`
  obtain ⟨sbA, lpA, rpA⟩ := (hg3.conv.full.inv.link .A).snd ta1 h3a
  obtain ⟨sbB, lpB, rpB⟩ := (hg3.conv.full.inv.link .B).snd tb2 h3b
  have wB2 : tb2.rcv.wnd = 65535#16 := hg3.wnd .B tb2 h3b
  have wA : ta.rcv.wnd = 65535#16 := hg.wnd .A ta hsa
  have issA1 : ta1.snd.iss = iss .A := hg3.iss_eq .A ta1 h3a
  have hN : ta1.sent + 1 < 2147483648 := by
    have := room_of_inv hg3.conv.c01 hg3.room .A ta1 h3a
    unfold Room at this; omega
  have sqA3 := squeeze_facts hg3 .A ta1 tb2 h3a h3b b_st
  have oneB3 := oneshot_facts hg3 .B tb2 ta1 h3b h3a b_st
  have qA1 := hg3.queue .A ta1 h3a
  have hsentA1 : off (iss .A) ta1.snd.nxt = ta1.sent := by unfold sent; rw [issA1]
  have hunaB2 : tb2.snd.una = tb2.snd.nxt := by rw [b_una, b_nxt, hnxtB1]
  have hrtxB2 : tb2.outgoing.retransmit = [] := by
    apply List.eq_nil_iff_forall_not_mem.2
    intro tr htr
    obtain ⟨k1, k2⟩ := hg3.queue .B tb2 h3b tr htr
    have hNB := hg3.sent_lt .B tb2 h3b
    have hu : off (iss .B) tb2.snd.una = tb2.sent := by
      rw [hunaB2]; unfold sent; rw [hg3.iss_eq .B tb2 h3b]
    have := (keepFor_iff (iss .B) tb2.snd.una tr tb2.sent hNB (by omega) k2).1 k1
    omega
  -- the FIN reaches B behind the data
  let gF : Segment := ⟨fin, []⟩
  let tb3 : Tcb := ({ tb2 with state := .CloseWait, rcv.nxt := tb2.rcv.nxt + 1, outgoing.oneshot := tb2.outgoing.oneshot ++ [tb2.finAckHdr] } : Tcb)
  have eF : tb2.segmentArrives gF = .ok (tb3, .Ok) :=
    arrive_fin_est tb2 gF b_st wB2 b_heap cf.isfin.rst cf.isfin.syn cf.isfin.fin cf.isfin.ackb cf.isfin.text
      (by rw [cf.isfin.seq, b_rcv])
      (by
        rw [cf.isfin.ack, fA.rcv, hs.b.sync, b_una]
        exact modLeq_self _)
  have aB : tb1.arriveList (outA ++ [gF]) = .ok tb3 := by
    rw [arriveList_append outA [gF] tb1 tb2 eb2]
    simp only [arriveList, eF]
  -- the closer (FIN queued) takes B's pending pure ACKs
  have hfinLen : Segment.segLen ⟨fin, []⟩ = 1 := by
    unfold Segment.segLen
    rw [cf.isfin.syn, cf.isfin.fin]
    rfl
  have hfinSeq : fin.seq = ta1.snd.nxt := cf.isfin.seq
  have hfinEnd : off (iss .A) (ta1.snd.nxt + BitVec.ofNat 32 1) = ta1.sent + 1 := by
    rw [off_add _ _ _ (by rw [hsentA1]; omega), hsentA1]
  have hnxtA1' : off (iss .A) ta1'.snd.nxt = ta1.sent + 1 := by
    rw [cf.nxt, off_add_one _ _ (by rw [hsentA1]; omega), hsentA1]
  have hunaA1' : off (iss .A) ta1'.snd.una ≤ ta1.sent := by
    rw [cf.una]
    have := sqA3.1
    have := sqA3.2
    omega
  have hrcvA1' : ta1'.rcv.nxt = tb.snd.nxt := by rw [cf.rcv, fA.rcv, hs.b.sync]
  have hkeep1' : ∀ tr ∈ ta1'.outgoing.retransmit, keepFor ta1'.snd.una tr = true := by
    intro t0 h0
    rw [cf.una]
    rw [cf.rtx] at h0
    rcases List.mem_append.1 h0 with h0 | h0
    · exact (qA1 t0 h0).1
    · simp only [List.mem_singleton] at h0
      subst h0
      unfold keepFor
      show modLt ta1.snd.una (fin.seq + BitVec.ofNat 32 (Segment.segLen ⟨fin, []⟩)) = true
      rw [hfinLen, hfinSeq]
      refine (modLt_iff_off (iss .A) _ _ (by have := sqA3.1; have := sqA3.2; omega) (by rw [hfinEnd]; omega)).2 ?_
      rw [hfinEnd]
      have := sqA3.1
      have := sqA3.2
      omega
  have hend1' : ∀ tr ∈ ta1'.outgoing.retransmit, off (iss .A) (txEnd tr) ≤ ta1.sent + 1 := by
    intro t0 h0
    rw [cf.rtx] at h0
    rcases List.mem_append.1 h0 with h0 | h0
    · have := (qA1 t0 h0).2; omega
    · simp only [List.mem_singleton] at h0
      subst h0
      unfold txEnd
      show off (iss .A) (fin.seq + BitVec.ofNat 32 (Segment.segLen ⟨fin, []⟩)) ≤ _
      rw [hfinLen, hfinSeq, hfinEnd]
      omega
  have hsyncA : off (iss .A) tb.rcv.nxt = ta.sent := by
    rw [hs.a.sync]; unfold sent; rw [hg.iss_eq .A ta hsa]
  have hsent1 : ta.sent ≤ ta1.sent := by
    have : ta1.sent = ta.sent + emitAmount ta := by
      unfold sent
      rw [issA1, fA.nxt, ← hg.iss_eq .A ta hsa]
      have := hg.sent_lt .A ta hsa
      have hΔ : emitAmount ta ≤ 65535 := by
        unfold emitAmount
        have := ta.snd.wnd.isLt
        omega
      exact off_add _ _ _ (by unfold sent at this; omega)
    omega
  have hallB : ∀ g ∈ outB, PureAck g ∧ g.hdr.seq = ta1'.rcv.nxt ∧ 1 ≤ off (iss .A) g.hdr.ack ∧
      off (iss .A) g.hdr.ack ≤ ta1.sent := by
    intro g hg'
    rw [houtB] at hg'
    obtain ⟨h, hh, rfl⟩ := List.mem_map.1 hg'
    obtain ⟨e1, e2, e3, e4, e5, e6, e7⟩ := oneB.2 h hh
    have e7' : off (iss .A) h.ack ≤ off (iss .A) tb.rcv.nxt := e7
    refine ⟨⟨e2, e3, e4, e5, rfl⟩, ?_, ?_, ?_⟩
    · show h.seq = ta1'.rcv.nxt
      rw [hrcvA1']; exact e1
    · show 1 ≤ off (iss .A) h.ack
      exact e6
    · show off (iss .A) h.ack ≤ ta1.sent
      omega
  obtain ⟨ta3, aA1, lf1⟩ := ackList_fwx (iss .A) (ta1.sent + 1) hN outB ta1'
    (Or.inl cf.st) (by rw [cf.rcv, fA.rcv]; exact wA)
    (by rw [cf.inc, fA.inc]; exact hs.a.heap) cf.text
    (by rw [cf.iss]; exact issA1) hnxtA1' (by omega)
    (fun g hg' => by
      obtain ⟨a, b, c1, d⟩ := hallB g hg'
      exact ⟨a, b, c1, by omega⟩)
    hkeep1'
  -- phase 1: the data and the FIN
  have hbufA1' : ta1'.incoming.text = [] := by rw [cf.inc, fA.inc]; exact hs.a.buf
  have hbufA3 : ta3.incoming.text = [] := by rw [lf1.inc]; exact hbufA1'
  obtain ⟨c1, ph1, r01, c1a, c1b, c1sa, c1sb, c1da, _, _⟩ :=
    phase_eval c (fw ta) tb ta1' tb1 ta3 tb3 (outA ++ [gF]) outB tw.ca tw.cb eA' eB aB aA1
      (fun g hg' => by
        rcases List.mem_append.1 hg' with h | h
        · exact haA g h
        · simp only [List.mem_singleton] at h
          subst h
          exact ⟨cf.src.trans lpA, cf.dst.trans rpA⟩)
      (fun g hg' => haB g hg')
  rw [receive_empty ta3 hbufA3] at c1a c1da
  let tb4 : Tcb := ({ tb3 with incoming.text := [] } : Tcb)
  have hrB3 : tb3.receive.1 = tb4 := rfl
  rw [hrB3] at c1b
  -- phase 2: B's ACKs
  have hmA1' : ¬ ta1'.mtu.toNat < SPACE_FOR_HEADERS := by
    rw [cf.mtu, fA.mtu]; have := hs.a.mtu; omega
  have hmA3 : ¬ ta3.mtu.toNat < SPACE_FOR_HEADERS := by rw [lf1.mtu]; exact hmA1'
  have hmB4 : ¬ tb4.mtu.toNat < SPACE_FOR_HEADERS := by
    show ¬ tb2.mtu.toNat < _
    rw [b_mtu]; have := hs.b.mtu; omega
  have hunfA1' : ∀ tr ∈ ta1'.outgoing.retransmit, tr.needsTransmit = false := by
    intro tr htr
    rw [cf.rtx, fA.rtx] at htr
    rcases List.mem_append.1 htr with h | h
    · obtain ⟨t0, _, rfl⟩ := List.mem_map.1 h
      rfl
    · simp only [List.mem_singleton] at h
      subst h
      rfl
  have htA3 : ta3.outgoing.text = [] := by rw [lf1.otext]; exact cf.text
  have eA2 := segments_notext_eq ta3 htA3 hmA3
  have houtA2 : emitOut ta3 = [] := by
    unfold emitOut
    rw [lf1.one, cf.one]
    have h1 : ta3.outgoing.retransmit.filter (·.needsTransmit) = [] :=
      List.filter_eq_nil_iff.2 (fun tr htr => by rw [hunfA1' tr (lf1.rtx tr htr).1]; simp)
    rw [h1]
    rfl
  rw [houtA2] at eA2
  have htB4 : tb4.outgoing.text = [] := by
    show tb2.outgoing.text = []
    rw [b_text, hi.tbt]; simp
  have eB2 := segments_notext_eq tb4 htB4 hmB4
  have houtB2 : emitOut tb4 = (tb2.outgoing.oneshot ++ [tb2.finAckHdr]).map fun h => (⟨h, []⟩ : Segment) := by
    unfold emitOut
    show List.map _ (tb2.outgoing.oneshot ++ [tb2.finAckHdr]) ++
      List.map _ (List.filter _ tb2.outgoing.retransmit) = _
    rw [hrtxB2]
    simp
  rw [houtB2] at eB2
  -- A takes the ACKs
  have hmax1 : maxAck (iss .A) outB ≤ ta1.sent :=
    maxAck_le _ _ _ (fun g hg' => (hallB g hg').2.2.2)
  have hunaA3 : off (iss .A) (emitT ta3).snd.una ≤ ta1.sent + 1 := by
    show off (iss .A) ta3.snd.una ≤ _
    rw [lf1.una]
    omega
  have hnxtA3 : off (iss .A) (emitT ta3).snd.nxt = ta1.sent + 1 := by
    show off (iss .A) ta3.snd.nxt = _
    rw [lf1.nxt]; exact hnxtA1'
  have hrcvA : (emitT ta3).rcv.nxt = tb2.snd.nxt := by
    show ta3.rcv.nxt = _
    rw [lf1.rcv, hrcvA1', b_nxt, hnxtB1]
  have hrcvB2 : off (iss .A) tb2.rcv.nxt = ta1.sent := by rw [b_rcv, hsentA1]
  have hackF : (tb2.finAckHdr).ack = tb2.rcv.nxt + 1 := rfl
  have hoffF : off (iss .A) (tb2.finAckHdr).ack = ta1.sent + 1 := by
    rw [hackF, off_add_one _ _ (by rw [hrcvB2]; omega), hrcvB2]
  obtain ⟨ta5, aA, lf⟩ := ackList_fwx (iss .A) (ta1.sent + 1) hN
    ((tb2.outgoing.oneshot ++ [tb2.finAckHdr]).map fun h => (⟨h, []⟩ : Segment)) (emitT ta3)
    lf1.st (by show ta3.rcv.wnd = _; rw [lf1.rcv, cf.rcv, fA.rcv]; exact wA)
    (by show ta3.incoming.segments = []; rw [lf1.inc, cf.inc, fA.inc]; exact hs.a.heap) htA3
    (by show ta3.snd.iss = _; rw [lf1.iss, cf.iss]; exact issA1) hnxtA3 hunaA3
    (fun g hg' => by
      obtain ⟨h, hh, rfl⟩ := List.mem_map.1 hg'
      rcases List.mem_append.1 hh with hh | hh
      · obtain ⟨e1, e2, e3, e4, e5, e6, e7⟩ := oneB3.2 h hh
        have e7' : off (iss .A) h.ack ≤ off (iss .A) tb2.rcv.nxt := e7
        rw [hrcvB2] at e7'
        refine ⟨⟨e2, e3, e4, e5, rfl⟩, by rw [hrcvA]; exact e1, ?_, ?_⟩
        · show 1 ≤ off (iss .A) h.ack
          exact e6
        · show off (iss .A) h.ack ≤ ta1.sent + 1
          omega
      · simp only [List.mem_singleton] at hh
        subst hh
        exact ⟨⟨rfl, rfl, rfl, rfl, rfl⟩, by rw [hrcvA]; rfl, by show 1 ≤ off _ (tb2.finAckHdr).ack; omega,
          by show off _ (tb2.finAckHdr).ack ≤ _; omega⟩)
    (fun tr htr => by
      have htr' : tr ∈ ta3.outgoing.retransmit.map (fun x => ({ x with needsTransmit := false } : Transmit)) := htr
      obtain ⟨t0, h0, rfl⟩ := List.mem_map.1 htr'
      show keepFor ta3.snd.una t0 = true
      exact (lf1.rtx t0 h0).2)
  obtain ⟨c2, ph2, r12, c2a, c2b, c2sa, c2sb, c2da, _, _⟩ :=
    phase_eval c1 ta3 tb4 (emitT ta3) (emitT tb4) ta5 (emitT tb4) []
      ((tb2.outgoing.oneshot ++ [tb2.finAckHdr]).map fun h => (⟨h, []⟩ : Segment)) c1a c1b eA2 eB2 rfl aA
      (fun g hg' => by cases hg')
      (fun g hg' => by
        obtain ⟨h, hh, rfl⟩ := List.mem_map.1 hg'
        rcases List.mem_append.1 hh with hh | hh
        · have := sbB.oports h hh
          exact ⟨this.1.trans lpB, this.2.trans rpB⟩
        · simp only [List.mem_singleton] at hh
          subst hh
          exact ⟨lpB, rpB⟩)
  -- the final TCBs
  have hbufA5 : ta5.incoming.text = [] := by
    rw [lf.inc]; exact hbufA3
  rw [receive_empty ta5 hbufA5] at c2a c2da
  have hbufB5 : (emitT tb4).incoming.text = [] := rfl
  rw [receive_empty (emitT tb4) hbufB5] at c2b
  -- SND.UNA has reached SND.NXT on A's side
  have hmax : maxAck (iss .A) ((tb2.outgoing.oneshot ++ [tb2.finAckHdr]).map fun h => (⟨h, []⟩ : Segment)) = ta1.sent + 1 := by
    apply Nat.le_antisymm
    · refine maxAck_le _ _ _ (fun g hg' => ?_)
      obtain ⟨h, hh, rfl⟩ := List.mem_map.1 hg'
      rcases List.mem_append.1 hh with hh | hh
      · have e7 : off (iss .A) h.ack ≤ off (iss .A) tb2.rcv.nxt := (oneB3.2 h hh).2.2.2.2.2.2
        show off (iss .A) h.ack ≤ _
        rw [hrcvB2] at e7; omega
      · simp only [List.mem_singleton] at hh
        subst hh
        show off (iss .A) (tb2.finAckHdr).ack ≤ _
        omega
    · have hm : (⟨tb2.finAckHdr, []⟩ : Segment) ∈
          (tb2.outgoing.oneshot ++ [tb2.finAckHdr]).map fun h => (⟨h, []⟩ : Segment) :=
        List.mem_map.2 ⟨tb2.finAckHdr, List.mem_append_right _ (List.mem_singleton.2 rfl), rfl⟩
      have := maxAck_ge (iss .A) _ ⟨tb2.finAckHdr, []⟩ hm
      rw [← hoffF]
      exact this
  have hu5 : off (iss .A) ta5.snd.una = ta1.sent + 1 := by
    rw [lf.una, hmax]
    omega
  have hun5 : ta5.snd.una = ta5.snd.nxt := by
    apply off_inj (base := iss .A)
    rw [hu5, lf.nxt, hnxtA3]
  have hst5 : ta5.state = .FinWait2 := lf.done (by simp) hun5
  have hrtx5 : ta5.outgoing.retransmit = [] := by
    apply List.eq_nil_iff_forall_not_mem.2
    intro tr htr
    obtain ⟨k1, k2⟩ := lf.rtx tr htr
    have k1' : tr ∈ ta3.outgoing.retransmit.map (fun x => ({ x with needsTransmit := false } : Transmit)) := k1
    obtain ⟨t0, h0, rfl⟩ := List.mem_map.1 k1'
    have hend : txEnd ({ t0 with needsTransmit := false } : Transmit) = txEnd t0 := rfl
    have hle : off (iss .A) (txEnd t0) ≤ ta1.sent + 1 := hend1' t0 (lf1.rtx t0 h0).1
    have := (keepFor_iff (iss .A) ta5.snd.una { t0 with needsTransmit := false } (ta1.sent + 1) hN (by omega)
      (by rw [hend]; exact hle)).1 k2
    rw [hend, hu5] at this
    omega
  refine ⟨c2, ta5, emitT tb4, ?_, r01.trans r12, c2a, c2b, hst5, rfl, ?_, ?_, ?_, ?_, ?_⟩
  · simp only [phases, ph1, ph2]
  · -- A is at rest
    refine ⟨by rw [lf.inc]; show ta3.incoming.segments = []; rw [lf1.inc, cf.inc, fA.inc]; exact hs.a.heap, hbufA5,
      by rw [lf.otext]; exact htA3, hrtx5,
      by rw [lf.one]; rfl, hun5, ?_, by rw [lf.rcv]; show ta3.rcv.wnd = _; rw [lf1.rcv, cf.rcv, fA.rcv]; exact wA,
      by rw [lf.mtu]; exact hmA3,
      by rw [lf.lp]; show ta3.localPort = _; rw [lf1.lp, cf.lp]; exact lpA,
      by rw [lf.rp]; show ta3.remotePort = _; rw [lf1.rp, cf.rp]; exact rpA⟩
    show tb2.rcv.nxt + 1 = ta5.snd.nxt
    rw [lf.nxt]
    show _ = ta3.snd.nxt
    rw [lf1.nxt, b_rcv]
    exact cf.nxt.symm
  · -- B is at rest
    refine ⟨b_heap, rfl, htB4, by show tb2.outgoing.retransmit.map _ = []; rw [hrtxB2]; rfl, rfl, hunaB2, ?_, wB2, hmB4,
      lpB, rpB⟩
    show ta5.rcv.nxt = tb2.snd.nxt
    rw [lf.rcv]
    exact hrcvA
  · rw [c2sa, c1sa]; exact tw.sa
  · rw [c2sb, c1sb]; exact tw.sb
  · rw [c2da, c1da, tw.da]; simp

/-- **the closer empties its text**: at most `2n − 1` phases in which the closed system follows its twin, until the
    window admits all the remaining text -/
theorem phases_twin (n : Nat) : ∀ (s c : Sys) (ta tb : Tcb), Good iss s → Steady s ta tb → IdleB ta tb →
    Twin c s ta tb → ta.outgoing.text ≠ [] → ta.outgoing.text.length ≤ 65535 * n →
    ∃ k s' c' ta' tb', k + 1 ≤ 2 * n ∧ phases k c = .ok c' ∧ PlainRun c c' ∧ PlainRun s s' ∧ Good iss s' ∧
      Steady s' ta' tb' ∧ IdleB ta' tb' ∧ Twin c' s' ta' tb' ∧ ta'.outgoing.text ≠ [] ∧
      emitAmount ta' = ta'.outgoing.text.length ∧
      (s'.side .A).submitted = (s.side .A).submitted ∧ (s'.side .B).submitted = (s.side .B).submitted := by
  induction n with
  | zero =>
    intro s c ta tb _ _ _ _ hne hl
    exact (hne (List.eq_nil_of_length_eq_zero (by omega))).elim
  | succ n ih =>
    intro s c ta tb hg hs hi tw hne hl
    by_cases h0 : emitAmount ta = ta.outgoing.text.length
    · exact ⟨0, s, c, ta, tb, by omega, rfl, .refl _, .refl _, hg, hs, hi, tw, hne, h0, rfl, rfl⟩
    · have hlt0 : emitAmount ta < ta.outgoing.text.length := by
        unfold emitAmount at h0 ⊢; omega
      obtain ⟨s1, c1, ta1, tb1, _, r1, hg1, hs1, hi1, pa1, pc1, rc1, tw1, x1a, x1b⟩ := phase_twin s c hg ta tb hs hi tw hlt0
      have e0 := emitAmount_eq hg .A ta hs.ha hs.a.st
      have e1 := emitAmount_eq hg1 .A ta1 hs1.ha hs1.a.st
      have l1 : ta1.outgoing.text.length = ta.outgoing.text.length - emitAmount ta := by
        rw [pa1.text, List.length_drop]
      have b1 := pa1.bytes
      have hne1 : ta1.outgoing.text ≠ [] := by
        intro h; have := congrArg List.length h; simp only [List.length_nil] at this; omega
      by_cases h1 : emitAmount ta1 = ta1.outgoing.text.length
      · refine ⟨1, s1, c1, ta1, tb1, by omega, by simp only [phases, pc1], rc1, r1, hg1, hs1, hi1, tw1, hne1, h1, x1a, x1b⟩
      · have hlt1 : emitAmount ta1 < ta1.outgoing.text.length := by
          unfold emitAmount at h1 ⊢; omega
        obtain ⟨s2, c2, ta2, tb2, _, r2, hg2, hs2, hi2, pa2, pc2, rc2, tw2, x2a, x2b⟩ :=
          phase_twin s1 c1 hg1 ta1 tb1 hs1 hi1 tw1 hlt1
        have l2 : ta2.outgoing.text.length = ta1.outgoing.text.length - emitAmount ta1 := by
          rw [pa2.text, List.length_drop]
        have hne2 : ta2.outgoing.text ≠ [] := by
          intro h; have := congrArg List.length h; simp only [List.length_nil] at this; omega
        have hl2 : ta2.outgoing.text.length ≤ 65535 * n := by omega
        obtain ⟨k, s', c', ta', tb', hk, pk, rck, rk, hg', hs', hi', tw', hne', hf', xa, xb⟩ :=
          ih s2 c2 ta2 tb2 hg2 hs2 hi2 tw2 hne2 hl2
        refine ⟨2 + k, s', c', ta', tb', by omega, ?_, (rc1.trans rc2).trans rck, (r1.trans r2).trans rk, hg', hs', hi',
          tw', hne', hf', (xa.trans x2a).trans x1a, (xb.trans x2b).trans x1b⟩
        rw [phases_add]
        simp only [phases, pc1, pc2]
        exact pk

/-- an exchange phase with both endpoints at rest (FIN-WAIT-2 / CLOSE-WAIT): nothing is emitted, nothing changes -/
theorem rest_phase (c : Sys) (ta tb : Tcb) (ha : (c.side .A).tcb = some ta) (hb : (c.side .B).tcb = some tb)
    (sa : ta.state = .FinWait2) (sb : tb.state = .CloseWait) (qa : RestX .A ta tb) (qb : RestX .B tb ta) :
    ∃ c' ta' tb', phase c = .ok c' ∧ PlainRun c c' ∧ (c'.side .A).tcb = some ta' ∧ (c'.side .B).tcb = some tb' ∧
      ta'.state = .FinWait2 ∧ tb'.state = .CloseWait ∧ RestX .A ta' tb' ∧ RestX .B tb' ta' ∧
      (c'.side .A).submitted = (c.side .A).submitted ∧ (c'.side .B).submitted = (c.side .B).submitted ∧
      (c'.side .A).delivered = (c.side .A).delivered ∧ (c'.side .B).delivered = (c.side .B).delivered := by
  have eA := segments_notext_eq ta qa.text qa.mtu
  rw [emitOut_quiet ta qa.one qa.rtx] at eA
  have eB := segments_notext_eq tb qb.text qb.mtu
  rw [emitOut_quiet tb qb.one qb.rtx] at eB
  obtain ⟨c1, ph, r, c1a, c1b, c1sa, c1sb, c1da, c1db, _⟩ :=
    phase_eval c ta tb (emitT ta) (emitT tb) (emitT ta) (emitT tb) [] [] ha hb eA eB rfl rfl
      (fun g hg' => by cases hg') (fun g hg' => by cases hg')
  have hbA : (emitT ta).incoming.text = [] := qa.buf
  have hbB : (emitT tb).incoming.text = [] := qb.buf
  rw [receive_empty _ hbA] at c1a c1da
  rw [receive_empty _ hbB] at c1b c1db
  refine ⟨c1, emitT ta, emitT tb, ph, r, c1a, c1b, sa, sb, ?_, ?_, c1sa, c1sb, by rw [c1da]; simp, by rw [c1db]; simp⟩
  · exact ⟨qa.heap, qa.buf, qa.text, by show ta.outgoing.retransmit.map _ = []; rw [qa.rtx]; rfl, rfl, qa.una, qa.sync,
      qa.wnd, qa.mtu, qa.lp, qa.rp⟩
  · exact ⟨qb.heap, qb.buf, qb.text, by show tb.outgoing.retransmit.map _ = []; rw [qb.rtx]; rfl, rfl, qb.una, qb.sync,
      qb.wnd, qb.mtu, qb.lp, qb.rp⟩

theorem rest_phases (j : Nat) : ∀ (c : Sys) (ta tb : Tcb), (c.side .A).tcb = some ta → (c.side .B).tcb = some tb →
    ta.state = .FinWait2 → tb.state = .CloseWait → RestX .A ta tb → RestX .B tb ta →
    ∃ c' ta' tb', phases j c = .ok c' ∧ PlainRun c c' ∧ (c'.side .A).tcb = some ta' ∧ (c'.side .B).tcb = some tb' ∧
      ta'.state = .FinWait2 ∧ tb'.state = .CloseWait ∧ RestX .A ta' tb' ∧ RestX .B tb' ta' ∧
      (c'.side .A).submitted = (c.side .A).submitted ∧ (c'.side .B).submitted = (c.side .B).submitted ∧
      (c'.side .A).delivered = (c.side .A).delivered ∧ (c'.side .B).delivered = (c.side .B).delivered := by
  induction j with
  | zero =>
    intro c ta tb ha hb sa sb qa qb
    exact ⟨c, ta, tb, rfl, .refl _, ha, hb, sa, sb, qa, qb, rfl, rfl, rfl, rfl⟩
  | succ j ih =>
    intro c ta tb ha hb sa sb qa qb
    obtain ⟨c1, ta1, tb1, ph, r, h1a, h1b, sa1, sb1, qa1, qb1, u1, u2, u3, u4⟩ := rest_phase c ta tb ha hb sa sb qa qb
    obtain ⟨c', ta', tb', ph', r', ha', hb', sa', sb', qa', qb', v1, v2, v3, v4⟩ := ih c1 ta1 tb1 h1a h1b sa1 sb1 qa1 qb1
    exact ⟨c', ta', tb', by simp only [phases, ph]; exact ph', r.trans r', ha', hb', sa', sb', qa', qb', v1.trans u1,
      v2.trans u2, v3.trans u3, v4.trans u4⟩

/-- `close A`, `2n + 1` exchange phases -/
def closeDataFrontN (n : Nat) (s : Sys) : Except String Sys :=
  match s.step (.close .A) with
  | .error e => .error e
  | .ok (s1, _) => phases (2 * n + 1) s1

/-- `close A` with any amount of text queued, `2n + 1` exchange phases; then `close B`, two exchange phases, `2·MSL + 1` ms
    on A's side -/
def closeDataRoundN (n : Nat) (s : Sys) : Except String Sys :=
  match closeDataFrontN n s with
  | .error e => .error e
  | .ok s1 => releaseTail s1

/-- **close with any amount of unsent text queued (at most `65535·n` bytes), quiet peer** -/
theorem close_data_any (n : Nat) (s : Sys) (hg : Good iss s) (ta tb : Tcb) (hs : Steady s ta tb) (hi : IdleB ta tb)
    (hne : ta.outgoing.text ≠ []) (hlen : ta.outgoing.text.length ≤ 65535 * n) :
    ∃ s1 ta1 tb1 s2, closeDataFrontN n s = .ok s1 ∧ FinRun s s1 ∧
      (s1.side .A).tcb = some ta1 ∧ (s1.side .B).tcb = some tb1 ∧
      ta1.state = .FinWait2 ∧ tb1.state = .CloseWait ∧ RestX .A ta1 tb1 ∧ RestX .B tb1 ta1 ∧
      (s1.side .A).submitted = (s.side .A).submitted ∧ (s1.side .B).submitted = (s.side .B).submitted ∧
      (s1.side .A).delivered = (s.side .A).delivered ∧
      closeDataRoundN n s = .ok s2 ∧ releaseTail s1 = .ok s2 ∧ FinRun s1 s2 ∧
      (s2.side .A).tcb = none ∧ (s2.side .B).tcb = none ∧
      (s2.side .A).submitted = (s.side .A).submitted ∧ (s2.side .B).submitted = (s.side .B).submitted ∧
      (s2.side .A).delivered = (s.side .A).delivered ∧ (s2.side .B).delivered = (s1.side .B).delivered := by
  have hsa : (s.side .A).tcb = some ta := hs.ha
  have hsb : (s.side .B).tcb = some tb := hs.hb
  -- close A
  have st0 : s.step (.close .A) = .ok (s.setSide .A { s.side .A with tcb := some (fw ta) }, .closed .Ok) := by
    simp only [Sys.step, Op.side, hsa, close_pending ta hs.a.st hne]
  generalize hc0 : s.setSide .A { s.side .A with tcb := some (fw ta) } = c0 at st0
  have tw0 : Twin c0 s ta tb := by
    rw [← hc0]
    exact ⟨rfl, hsb, rfl, rfl, rfl, rfl⟩
  obtain ⟨k, s', c', ta', tb', hk, pk, rck, _, hg', hs', hi', tw', hne', hf', hsubA, hsubB⟩ :=
    phases_twin n s c0 ta tb hg hs hi tw0 hne hlen
  obtain ⟨c2, ta2, tb2, p2, r2, h2a, h2b, sa2, sb2, qa2, qb2, u1, u2, u3⟩ :=
    phase_final s' c' hg' ta' tb' hs' hi' tw' hne' hf'
  obtain ⟨c3, ta3, tb3, p3, r3, h3a, h3b, sa3, sb3, qa3, qb3, v1, v2, v3, _⟩ :=
    rest_phases (2 * n + 1 - (k + 2)) c2 ta2 tb2 h2a h2b sa2 sb2 qa2 qb2
  have hph : phases (2 * n + 1) c0 = .ok c3 := by
    rw [show 2 * n + 1 = k + (2 + (2 * n + 1 - (k + 2))) by omega, phases_add, pk]
    dsimp only
    rw [phases_add, p2]
    exact p3
  -- the twin's logs are those of `s`
  have hdelA : (s'.side .A).delivered = (s.side .A).delivered := by
    have d1 : (s.side .A).delivered = (s.side .B).submitted :=
      steady_stream hg .B tb ta hs.hb hs.ha hs.b hs.a hi.tbt
    have d2 : (s'.side .A).delivered = (s'.side .B).submitted :=
      steady_stream hg' .B tb' ta' hs'.hb hs'.ha hs'.b hs'.a hi'.tbt
    rw [d1, d2, hsubB]
  obtain ⟨s2, e2, rr2, na, nb, w1, w2, w3, w4, _⟩ := release_tail c3 ta3 tb3 h3a h3b sa3 sb3 qa3 qb3
  have hfront : closeDataFrontN n s = .ok c3 := by
    unfold closeDataFrontN
    rw [st0]
    exact hph
  refine ⟨c3, ta3, tb3, s2, hfront, ?_, h3a, h3b, sa3, sb3, qa3, qb3, (v1.trans u1).trans hsubA, (v2.trans u2).trans hsubB,
    (v3.trans u3).trans hdelA, ?_, e2, rr2, na, nb, (w1.trans (v1.trans u1)).trans hsubA,
    (w2.trans (v2.trans u2)).trans hsubB, (w3.trans (v3.trans u3)).trans hdelA, w4⟩
  · exact (FinRun.step (op := .close .A) (.refl _) trivial st0).trans
      (FinRun.of_plain ((rck.trans r2).trans r3))
  · unfold closeDataRoundN
    rw [hfront]
    exact e2

end
end Elvis.Tcp
