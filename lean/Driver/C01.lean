import Driver.Common
/-! Line-protocol handlers for C01 (sub-commands `c01` / `c01-*`). -/
namespace Driver.C01

def dispatch (_sub : String) (_i _o : IO.FS.Stream) : Option (IO Unit) := none

end Driver.C01
