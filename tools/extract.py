#!/usr/bin/env python3
"""Source -> Lean extraction (run on every check).

Reads /repo's *current* Rust sources and (re)writes lean/ElvisVerif/Generated/*.lean:
numeric constants, the one-expression arithmetic kernels, and structural certificates.
Fails closed: anything it cannot translate is an error (reported by ./check as a broken tie).
Files are rewritten only when their content changes, so Lean's build cache stays valid.
"""
import os, re, sys

REPO = os.environ.get("ELVIS_REPO") or os.path.normpath(os.path.join(os.path.dirname(os.path.abspath(__file__)), "..", "..", "repo"))
CORE = os.path.join(REPO, "sim", "elvis-core", "src")
ELVIS = os.path.join(REPO, "sim", "elvis", "src")
OUT = os.path.join(os.path.dirname(os.path.abspath(__file__)), "..", "lean", "ElvisVerif", "Generated")


class ExtractError(Exception):
    pass


def read(path):
    with open(path) as f:
        return f.read()


def strip_comments(src):
    src = re.sub(r"/\*.*?\*/", "", src, flags=re.S)
    return re.sub(r"//[^\n]*", "", src)


def write_if_changed(name, text):
    p = os.path.join(OUT, name)
    os.makedirs(OUT, exist_ok=True)
    if os.path.exists(p) and read(p) == text:
        return
    with open(p, "w") as f:
        f.write(text)


def check_message_immutability():
    """C07 structural certificate: message/ holds no unsafe code, no in-place mutation of shared
    chunk storage and no interior mutability."""
    bad = []
    files = [os.path.join(CORE, "message.rs")] + [os.path.join(CORE, "message", f) for f in sorted(os.listdir(os.path.join(CORE, "message")))]
    for p in files:
        src = strip_comments(read(p)).split("#[cfg(test)]")[0]
        for tok in ("unsafe", "get_mut(", "make_mut(", "RefCell", "Cell<", "Mutex", "RwLock", "Atomic", "OnceLock", "OnceCell", "LazyLock", "LazyCell", "as_mut_ptr", "get_mut_unchecked"):
            if tok in src:
                bad.append(f"{os.path.relpath(p, REPO)}: `{tok}`")
    if bad:
        raise ExtractError("message/ is no longer evidently immutable-by-construction: " + "; ".join(bad))


def block_at(src, start):
    """text of the brace-balanced block that starts at the first '{' at or after `start`"""
    j = src.index("{", start)
    d = 0
    for k in range(j, len(src)):
        if src[k] == "{":
            d += 1
        elif src[k] == "}":
            d -= 1
            if d == 0:
                return src[j:k + 1]
    raise ExtractError("unbalanced braces")


SEND_LIKE = ["send(", "send_pci(", ".open(", "open_and_listen(", "open_for_sending(", "connect(", "spawn(", "send_message(", "send_to(", "resolve("]


def gen_sim_cert():
    """C13: per `Protocol::start` implementation: number of barrier waits and whether a
    frame-producing call precedes the wait; barrier sizing; shutdown channel capacity; outer
    timeout slack."""
    import glob
    rows = []
    files = sorted(glob.glob(os.path.join(CORE, "**", "*.rs"), recursive=True) + glob.glob(os.path.join(ELVIS, "**", "*.rs"), recursive=True))
    for p in files:
        src = strip_comments(read(p))
        if "impl Protocol for" not in src:
            continue
        for m in re.finditer(r"impl\s+Protocol\s+for\s+([A-Za-z0-9_<>:, ]+?)\s*\{", src):
            impl = block_at(src, m.end() - 1)
            sm = re.search(r"async\s+fn\s+start\s*\(", impl)
            if not sm:
                raise ExtractError(f"{p}: impl Protocol for {m.group(1)} has no async fn start")
            sig_end = impl.index(")", sm.end())
            # skip to the body: first '{' after the return type
            body = block_at(impl, impl.index("StartError", sig_end))
            waits = len(re.findall(r"\.wait\(\)\s*\.await", body))
            pre = re.split(r"\.wait\(\)\s*\.await", body)[0] if waits else body
            send_before = any(t in pre for t in SEND_LIKE)
            name = os.path.relpath(p, os.path.join(REPO, "sim")) + "::" + re.sub(r"\s+", "", m.group(1))
            rows.append((name, waits, send_before))
    if len(rows) < 10:
        raise ExtractError("found suspiciously few Protocol implementations: %d" % len(rows))
    inet = re.sub(r"\s+", " ", strip_comments(read(os.path.join(CORE, "internet.rs"))))
    mach = re.sub(r"\s+", " ", strip_comments(read(os.path.join(CORE, "machine.rs"))))
    shut = re.sub(r"\s+", " ", strip_comments(read(os.path.join(CORE, "shutdown.rs"))))
    sized = bool(re.search(r"let total_protocols: usize = machines \.iter\(\) \.map\(\|machine\| machine\.protocol_count\(\)\) \.sum\(\);", inet)) \
        and "Barrier::new(total_protocols)" in inet \
        and bool(re.search(r"for machine in machines \{.*?handles\.spawn\(machine\.start\(shutdown, initialized\)\);", inet))
    per_proto = bool(re.search(r"for protocol in self\.iter\(\) \{.*?\.start\(shutdown_clone, initialized_clone, self_clone\).*?handles\.spawn\(fut\);", mach)) \
        and bool(re.search(r"pub fn protocol_count\(&self\) -> usize \{ self\.protocols\.len\(\) \}", mach)) \
        and bool(re.search(r"pub fn iter\(&self\).*?\{ self\.protocols\.values\(\)", mach))
    mcap = re.search(r"broadcast::channel\((\d+)\)", shut)
    if not mcap:
        raise ExtractError("shutdown.rs: broadcast::channel(<literal>) not found")
    mslack = re.search(r"tokio::time::timeout\(duration \+ Duration::from_secs\((\d+)\), future\)", inet)
    if not mslack:
        raise ExtractError("internet.rs: outer timeout(duration + Duration::from_secs(<literal>)) not found")
    receiver_first = inet.find("shutdown.clone().receiver()") != -1 and inet.find("shutdown.clone().receiver()") < inet.find("handles.spawn(machine.start")
    cell = ("let _ = self.first.set(ExitStatus::Exited);" in shut and "let _ = self.first.set(status.clone());" in shut
            and inet.count("first_status.get().cloned().unwrap_or(result)") >= 2
            and inet.find("let first_status = shutdown.first_status();") != -1
            and inet.find("let first_status = shutdown.first_status();") < inet.find("handles.spawn(machine.start"))
    lines = ["-- GENERATED from /repo sources by tools/extract.py on every check; do not edit",
             "namespace Elvis.Gen",
             "structure StartCert where", "  name : String", "  waits : Nat", "  sendBeforeWait : Bool", "deriving Repr, DecidableEq", "",
             "/-- one row per `impl Protocol for T`: barrier waits in `start`, frame-producing call before the wait -/",
             "def startRoutines : List StartCert := ["]
    lines.append(",\n".join(f'  ⟨"{n}", {w}, {"true" if sb else "false"}⟩' for n, w, sb in rows))
    lines += ["]", "",
              f"def barrierSizedByProtocolCount : Bool := {'true' if sized else 'false'}",
              f"def machineSpawnsStartPerProtocol : Bool := {'true' if per_proto else 'false'}",
              f"def shutdownReceiverCreatedBeforeStart : Bool := {'true' if receiver_first else 'false'}",
              "/-- run_internet returns the set-once first-request status when one exists -/",
              f"def firstStatusCellUsed : Bool := {'true' if cell else 'false'}",
              f"def shutdownChannelCapacity : Nat := {mcap.group(1)}",
              f"def outerTimeoutSlackMs : Nat := {int(mslack.group(1)) * 1000}",
              "end Elvis.Gen", ""]
    write_if_changed("SimCert.lean", "\n".join(lines))
def subnet_kernels():
    """C09: arithmetic kernels of subnetting.rs / Obm::cmp + representation certificates."""
    import extract_subnet
    try:
        write_if_changed("SubnetKernels.lean", extract_subnet.generate(CORE))
    except extract_subnet.ExtractError as e:
        raise ExtractError("subnet kernels: " + str(e))
def const_u(path, name, ty):
    """`const NAME: ty = <integer literal>;` -> int (fail closed)"""
    m = re.search(r"\bconst\s+%s\s*:\s*%s\s*=\s*([0-9][0-9_]*)\s*;" % (re.escape(name), re.escape(ty)), strip_comments(read(path)))
    if not m:
        raise ExtractError(f"{os.path.relpath(path, REPO)}: `const {name}: {ty} = <literal>;` not found")
    return int(m.group(1).replace("_", ""))
# ---------------------------------------------------------------------------------------------
# C08 / C18: header-size and bit-position constants, checksum and flag-constructor kernels
# ---------------------------------------------------------------------------------------------

def parse_int(tok):
    t = tok.replace("_", "")
    for suf in ("u8", "u16", "u32", "u64", "usize"):
        if t.endswith(suf) and t[:-len(suf)] and t[:-len(suf)][-1].isalnum() and not t.startswith("0x"):
            t = t[:-len(suf)]
    if t.startswith("0x"):
        return int(t, 16)
    if t.startswith("0b"):
        return int(t, 2)
    return int(t)


def const_value(src, name, env):
    """`const NAME: T = expr;` where expr is a literal, or NAME [as T] * literal"""
    m = re.search(r"const\s+%s\s*:\s*\w+\s*=\s*([^;]+);" % name, src)
    if not m:
        raise ExtractError(f"constant {name} not found")
    e = m.group(1).strip()
    mm = re.fullmatch(r"(\w+)(?:\s+as\s+\w+)?\s*\*\s*(\w+)", e)
    if mm and mm.group(1) in env:
        return env[mm.group(1)] * parse_int(mm.group(2))
    try:
        return parse_int(e)
    except ValueError:
        raise ExtractError(f"constant {name}: unsupported initialiser `{e}`")


def require(src, pattern, what):
    """a literal site must be present exactly once (fail closed); returns the match"""
    ms = list(re.finditer(pattern, src))
    if len(ms) != 1:
        raise ExtractError(f"literal site `{what}`: expected exactly one match of /{pattern}/, found {len(ms)}")
    return ms[0]


def fn_body(src, header_re, what):
    m = re.search(header_re + r"\s*\{", src)
    if not m:
        raise ExtractError(f"function {what} not found")
    i = m.end()
    depth = 1
    j = i
    while depth:
        if j >= len(src):
            raise ExtractError(f"function {what}: unbalanced braces")
        depth += {"{": 1, "}": -1}.get(src[j], 0)
        j += 1
    return " ".join(src[i:j - 1].split())


TOK = re.compile(r"\s*(?:(0x[0-9a-fA-F_]+|0b[01_]+|\d[\d_]*(?:u8|u16)?)|([A-Za-z_][A-Za-z0-9_]*(?:\.0)?)|(<<|>>|[|&!+()]))")


class Expr:
    """tiny grammar: literals, identifiers (bool or unsigned), `!x` on bool, `x as uN`,
    `<< >> | & +` on a fixed unsigned width; everything else is refused"""

    def __init__(self, text, width, bools):
        self.t = []
        i = 0
        while i < len(text):
            m = TOK.match(text, i)
            if not m:
                if text[i:].strip() == "":
                    break
                raise ExtractError(f"kernel expression: cannot tokenise `{text[i:i + 20]}`")
            i = m.end()
            self.t.append(m.group(1) or m.group(2) or m.group(3))
        self.i = 0
        self.w = width
        self.bools = bools

    def peek(self):
        return self.t[self.i] if self.i < len(self.t) else None

    def eat(self, v=None):
        k = self.peek()
        if k is None or (v is not None and k != v):
            raise ExtractError(f"kernel expression: expected {v}, got {k}")
        self.i += 1
        return k

    def parse(self):
        e = self.or_()
        if self.peek() is not None:
            raise ExtractError(f"kernel expression: trailing `{self.peek()}`")
        return e

    # Rust precedence: | < & < << >> < + < as < unary
    def or_(self):
        l = self.and_()
        while self.peek() == "|":
            self.eat()
            l = f"({l} ||| {self.and_()})"
        return l

    def and_(self):
        l = self.shift()
        while self.peek() == "&":
            self.eat()
            l = f"({l} &&& {self.shift()})"
        return l

    def shift(self):
        l = self.add()
        while self.peek() in ("<<", ">>"):
            op = self.eat()
            r = self.add()
            l = f"(({l} <<< {r}) % {2 ** self.w})" if op == "<<" else f"({l} >>> {r})"
        return l

    def add(self):
        l = self.cast()
        while self.peek() == "+":
            self.eat()
            l = f"({l} + {self.cast()})"
        return l

    def cast(self):
        e, is_bool = self.unary()
        while self.peek() == "as":
            self.eat()
            ty = self.eat()
            if ty not in ("u8", "u16"):
                raise ExtractError(f"kernel expression: cast to {ty}")
            e = f"(Bool.toNat {e})" if is_bool else f"({e} % {2 ** int(ty[1:])})"
            is_bool = False
        if is_bool:
            raise ExtractError("kernel expression: bool used as a number")
        return e

    def unary(self):
        k = self.eat()
        if k == "!":
            e, b = self.unary()
            if not b:
                raise ExtractError("kernel expression: `!` on a number")
            return f"(!{e})", True
        if k == "(":
            e = self.or_()
            self.eat(")")
            return e, False
        if re.match(r"\d|0x|0b", k):
            return str(parse_int(k)), False
        if re.match(r"[A-Za-z_]", k):
            name = k.replace(".", "_")
            return name, name in self.bools
        raise ExtractError(f"kernel expression: unexpected `{k}`")


_fn_body_by_header = fn_body


def fn_body(src, where, what=None):
    """Two call shapes grew independently: (src, start_index) and (src, header_regex, what)."""
    if isinstance(where, int):
        return block_at(src, where)
    return _fn_body_by_header(src, where, what)


def codec_extract():
    ip = strip_comments(read(os.path.join(CORE, "protocols", "ipv4", "ipv4_parsing.rs"))).split("#[cfg(test)]")[0]
    ud = strip_comments(read(os.path.join(CORE, "protocols", "udp", "udp_parsing.rs"))).split("#[cfg(test)]")[0]
    tc = strip_comments(read(os.path.join(CORE, "protocols", "tcp", "tcp_parsing.rs"))).split("#[cfg(test)]")[0]
    ut = strip_comments(read(os.path.join(CORE, "protocols", "utility.rs"))).split("#[cfg(test)]")[0]
    c = {}
    c["ipv4_BASE_WORDS"] = const_value(ip, "BASE_WORDS", {})
    c["ipv4_BASE_OCTETS"] = const_value(ip, "BASE_OCTETS", {"BASE_WORDS": c["ipv4_BASE_WORDS"]})
    c["ipv4_FRAGMENT_OFFSET_MASK"] = const_value(ip, "FRAGMENT_OFFSET_MASK", {})
    c["udp_HEADER_OCTETS"] = const_value(ud, "HEADER_OCTETS", {})
    c["tcp_BASE_HEADER_WORDS"] = const_value(tc, "BASE_HEADER_WORDS", {})
    c["tcp_BASE_HEADER_OCTETS"] = const_value(tc, "BASE_HEADER_OCTETS", {"BASE_HEADER_WORDS": c["tcp_BASE_HEADER_WORDS"]})
    # literal sites of the decoders / encoders (shift amounts, masks, protocol numbers)
    sites = [
        ("ipv4_version_shift", ip, r"let version = version_and_ihl >> (\w+);"),
        ("ipv4_version", ip, r"if version != (\w+) \{"),
        ("ipv4_ihl_mask", ip, r"let ihl = version_and_ihl & (\w+);"),
        ("ipv4_tos_reserved_mask", ip, r"let reserved = type_of_service_byte & (\w+);"),
        ("ipv4_flags_shift", ip, r"let control_flag_bits = \(flags_and_fragment_offset_bytes >> (\w+)\) as u8;"),
        ("ipv4_reserved_flag_mask", ip, r"if control_flag_bits & (\w+) != 0 \{"),
        ("ipv4_build_version", ip, r"let version_and_ihl = \((\w+) << 4\) \| BASE_WORDS;"),
        ("ipv4_build_flags_shift", ip, r"\(\(self\.flags\.as_u8\(\) as u16\) << (\w+)\) \| \(self\.fragment_offset & FRAGMENT_OFFSET_MASK\)"),
        ("ipv4_tos_precedence_shift", ip, r"\(self\.0 >> (\w+)\)\.try_into\(\)\.unwrap\(\)"),
        ("ipv4_tos_delay_shift", ip, r"fn delay\(&self\) -> Delay \{\s*\(\(self\.0 >> (\w+)\) & 0b1\)"),
        ("ipv4_tos_throughput_shift", ip, r"fn throughput\(&self\) -> Throughput \{\s*\(\(self\.0 >> (\w+)\) & 0b1\)"),
        ("ipv4_tos_reliability_shift", ip, r"fn reliability\(&self\) -> Reliability \{\s*\(\(self\.0 >> (\w+)\) & 0b1\)"),
        ("ipv4_may_fragment_mask", ip, r"fn may_fragment\(&self\) -> bool \{\s*self\.0 & (\w+) == 0"),
        ("ipv4_last_fragment_mask", ip, r"fn is_last_fragment\(&self\) -> bool \{\s*self\.0 & (\w+) == 0"),
        ("udp_protocol_number", ud, r"checksum\.add_u8\(0, (\w+)\);\s*checksum\.accumulate_remainder"),
        ("udp_build_protocol_number", ud, r"checksum\.add_u8\(0, (\w+)\);\s*checksum\.add_u16\(source_port\);"),
        ("tcp_data_offset_shift", tc, r"let data_offset = offset_reserved_control\[0\] >> (\w+);"),
        ("tcp_control_mask", tc, r"let ctl = Control::from\(offset_reserved_control\[1\] & (\w+)\);"),
        ("tcp_serialize_offset_shift", tc, r"out\.push\(self\.data_offset << (\w+)\);"),
        ("tcp_build_offset_shift", tc, r"checksum\.add_u8\(data_offset << (\w+), self\.0\.ctl\.into\(\)\);"),
        ("tcp_protocol_number", tc, r"checksum\.add_u8\(0, (\w+)\);\s*checksum\.add_u16\(\s*packet_len"),
        ("tcp_build_protocol_number", tc, r"checksum\.add_u8\(0, (\w+)\);\s*checksum\.add_u16\(length\);"),
        ("tcp_bytes_factor", tc, r"self\.data_offset \* (\w+)"),
    ]
    for name, src, pat in sites:
        c[name] = parse_int(require(src, pat, name).group(1))
    # Precedence / Delay / Throughput / Reliability discriminants must be the numeric value
    for variant, val in (("NetworkControl", 7), ("Routine", 0), ("Flash", 3)):
        m = require(ip, r"\b%s = (\w+)," % variant, "Precedence::" + variant)
        if parse_int(m.group(1)) != val:
            raise ExtractError(f"Precedence::{variant} discriminant changed")
    lines = ["-- GENERATED from /repo sources by tools/extract.py on every check; do not edit",
             "-- header-size / bit-position constants and one-expression kernels of the IPv4, UDP, TCP codecs",
             "namespace Elvis.Gen.Codec"]
    for k in sorted(c):
        lines.append(f"def {k} : Nat := {c[k]}")
    # --- kernels ---
    # Checksum::add_u16 (feature on)
    body = fn_body(ut, r'#\[cfg\(feature = "compute_checksum"\)\]\s*pub fn add_u16\(&mut self, value: u16\)', "Checksum::add_u16")
    m = re.fullmatch(r"let \((\w+), (\w+)\) = self\.0\.overflowing_add\(value\); self\.0 = (.+);", body)
    if not m:
        raise ExtractError(f"Checksum::add_u16: body outside the kernel grammar: `{body}`")
    s_, c_, rhs = m.groups()
    e = Expr(rhs, 16, {c_}).parse()
    lines += ["/-- `Checksum::add_u16` (compute_checksum): the value assigned to `self.0`, before the overflow check of the `+` -/",
              "def add_u16 (self_0 value : Nat) : Nat :=",
              f"  let {s_} := (self_0 + value) % 65536",
              f"  let {c_} := decide (self_0 + value ≥ 65536)",
              f"  {e}"]
    body = fn_body(ut, r'#\[cfg\(feature = "compute_checksum"\)\]\s*pub fn as_u16\(&self\) -> u16', "Checksum::as_u16")
    m = re.fullmatch(r"match self\.0 \{ (\w+) => (\w+), (\w+) => !(\w+), \}", body)
    if not m or m.group(3) != m.group(4):
        raise ExtractError(f"Checksum::as_u16: body outside the kernel grammar: `{body}`")
    lines += ["/-- `Checksum::as_u16` (compute_checksum); `!x` on `u16` is `65535 - x` -/",
              "def as_u16 (self_0 : Nat) : Nat :=",
              f"  if self_0 = {parse_int(m.group(1))} then {parse_int(m.group(2))} else 65535 - self_0"]
    body = fn_body(ut, r'#\[cfg\(not\(feature = "compute_checksum"\)\)\]\s*pub fn as_u16\(&self\) -> u16', "Checksum::as_u16 (off)")
    lines += ["/-- `Checksum::as_u16` with the feature off -/", f"def as_u16_off : Nat := {parse_int(body)}"]
    body = fn_body(ut, r'#\[cfg\(not\(feature = "compute_checksum"\)\)\]\s*pub fn add_u16\(&mut self, _value: u16\)', "Checksum::add_u16 (off)")
    if body != "":
        raise ExtractError("Checksum::add_u16 with the feature off is no longer empty")
    body = fn_body(ut, r"pub fn matches\(&self, expected: u16\) -> bool", "Checksum::matches")
    if body != "self.as_u16() == expected || (self.0 == 0xffff && expected == 0)":
        raise ExtractError(f"Checksum::matches: body outside the kernel grammar: `{body}`")
    lines += ["/-- `Checksum::matches` -/",
              "def matches_ (as_u16 self_0 expected : Nat) : Bool :=",
              "  as_u16 == expected || (self_0 == 65535 && expected == 0)"]
    # Control::new, ControlFlags::new, TypeOfService::new : `Self( expr )`
    for (src, hdr, name, params, bools, what) in (
        (tc, r"pub const fn new\(urg: bool, ack: bool, psh: bool, rst: bool, syn: bool, fin: bool\) -> Self", "control_new",
         "(urg ack psh rst syn fin : Bool)", {"urg", "ack", "psh", "rst", "syn", "fin"}, "Control::new"),
        (ip, r"pub const fn new\(may_fragment: bool, is_last_fragment: bool\) -> Self", "control_flags_new",
         "(may_fragment is_last_fragment : Bool)", {"may_fragment", "is_last_fragment"}, "ControlFlags::new"),
        (ip, r"pub const fn new\(\s*precedence: Precedence,\s*delay: Delay,\s*throughput: Throughput,\s*reliability: Reliability,\s*\) -> Self", "type_of_service_new",
         "(precedence delay throughput reliability : Nat)", set(), "TypeOfService::new"),
    ):
        body = fn_body(src, hdr, what)
        m = re.fullmatch(r"Self\(\s*(.+?),?\s*\)", body)
        if not m:
            raise ExtractError(f"{what}: body outside the kernel grammar: `{body}`")
        lines += [f"/-- `{what}` -/", f"def {name} {params} : Nat :=", "  " + Expr(m.group(1), 8, bools).parse()]
    lines += ["end Elvis.Gen.Codec", ""]
    write_if_changed("Codec.lean", "\n".join(lines))
# ---------------------------------------------------------------------------------------------
# ARP / DNS / DHCP codecs (C08b, C14b): constants + structural certificates -> Generated/CodecB.lean
# ---------------------------------------------------------------------------------------------
def _byte_literal(lit):
    """b' ' / b'\0' / b'\x20' -> int"""
    m = re.fullmatch(r"b'(\\x[0-9a-fA-F]{2}|\\.|[^\\'])'", lit)
    if not m:
        raise ExtractError(f"cannot read byte literal {lit}")
    c = m.group(1)
    if c.startswith("\\x"):
        return int(c[2:], 16)
    if c.startswith("\\"):
        esc = {"0": 0, "n": 10, "r": 13, "t": 9, "\\": 92, "'": 39, '"': 34}
        if c[1] not in esc:
            raise ExtractError(f"cannot read byte literal {lit}")
        return esc[c[1]]
    return ord(c)


def _non_test(path):
    """source without comments and without `#[cfg(test)] mod … { … }` blocks (wherever they are)"""
    src = strip_comments(read(path))
    while True:
        m = re.search(r"#\[cfg\(test\)\]\s*mod\s+\w+\s*\{", src)
        if not m:
            return src
        depth, j = 0, m.end() - 1
        while j < len(src):
            if src[j] == "{":
                depth += 1
            elif src[j] == "}":
                depth -= 1
                if depth == 0:
                    break
            j += 1
        src = src[:m.start()] + src[j + 1:]


def _fn_body(src, header_re, what):
    m = re.search(header_re, src)
    if not m:
        raise ExtractError(f"{what}: function not found")
    i = src.index("{", m.end() - 1) if src[m.end() - 1] != "{" else m.end() - 1
    depth, j = 0, i
    while j < len(src):
        if src[j] == "{":
            depth += 1
        elif src[j] == "}":
            depth -= 1
            if depth == 0:
                return src[i:j + 1]
        j += 1
    raise ExtractError(f"{what}: unbalanced braces")


PANIC_TOKENS = (".unwrap()", ".expect(", "unreachable!", "panic!", "unimplemented!", "todo!", "assert!", "assert_eq!",
                "assert_ne!", "unwrap_unchecked", "unsafe")


def _certify_no_panic(body, what, allowed_arith=()):
    """the decoders' panic sites are exactly those of the model: no panic token, no slice/array indexing,
    no arithmetic other than the sites listed (each of which is a modelled checked operation)"""
    for tok in PANIC_TOKENS:
        if tok in body:
            raise ExtractError(f"{what} contains `{tok}`: a panic site the model (Model/Codec) does not have")
    if re.search(r"[A-Za-z0-9_\)\]]\s*\[[^\]]*\]", body.replace("Vec::from([", "(").replace("vec![", "(")):
        raise ExtractError(f"{what} contains an index/slice expression: a panic site the model does not have")
    arith = re.findall(r"[A-Za-z0-9_\)]+\s*(?:\+=|-=|\*=|/=|%=|<<=|>>=)\s*[^;]+;|[A-Za-z0-9_\)]\s+[-+*/%]\s+[A-Za-z0-9_\(]", body)
    arith = [re.sub(r"\s+", " ", a.strip()) for a in arith]
    if sorted(arith) != sorted(allowed_arith):
        raise ExtractError(f"{what}: arithmetic sites {arith} differ from the modelled ones {list(allowed_arith)}")


def _enum_codes(src, name):
    m = re.search(r"pub enum " + name + r"\s*\{([^}]*)\}", src)
    if not m:
        raise ExtractError(f"enum {name} not found")
    codes, nxt = [], 0
    for item in [x.strip() for x in m.group(1).split(",") if x.strip()]:
        mm = re.fullmatch(r"(\w+)(?:\s*=\s*(\d+))?", item)
        if not mm:
            raise ExtractError(f"enum {name}: cannot read variant `{item}`")
        if mm.group(2) is not None:
            nxt = int(mm.group(2))
        codes.append((mm.group(1), nxt))
        nxt += 1
    return codes


def _const(src, name):
    m = re.search(r"const " + name + r":\s*\w+\s*=\s*(0x[0-9a-fA-F_]+|[0-9_]+)\s*;", src)
    if not m:
        raise ExtractError(f"const {name} not found")
    return int(m.group(1).replace("_", ""), 0)


def extract_codec_b():
    P = os.path.join(CORE, "protocols")
    arp = _non_test(os.path.join(P, "arp", "arp_parsing.rs"))
    dns = _non_test(os.path.join(P, "dns", "dns_parsing.rs"))
    dhcp = _non_test(os.path.join(P, "dhcp", "dhcp_parsing.rs"))
    # --- delimiters: one literal, used consistently by decoder and encoder
    BYTE = r"b'(?:\\.|[^'])+'"
    body = _fn_body(dns, r"pub fn from_bytes\b[^{]*\{", "dns from_bytes")
    d_dec = re.findall(BYTE, body)
    d_enc = re.findall(BYTE, dns.replace(body, ""))
    if len(d_dec) < 2 or len(d_enc) < 2 or len(set(d_dec + d_enc)) != 1:
        raise ExtractError(f"dns_parsing.rs: name delimiter is not one byte literal used by from_bytes and by the builders: {d_dec} {d_enc}")
    dns_delim = _byte_literal(d_dec[0])
    body = _fn_body(dhcp, r"pub fn from_bytes\b[^{]*\{", "dhcp from_bytes")
    t_dec = re.findall(BYTE, body)
    t_enc = re.findall(BYTE, dhcp.replace(body, ""))
    if len(t_dec) < 2 or len(t_enc) < 2 or len(set(t_dec + t_enc)) != 1:
        raise ExtractError(f"dhcp_parsing.rs: string terminator is not one byte literal used by from_bytes and by to_message: {t_dec} {t_enc}")
    dhcp_term = _byte_literal(t_dec[0])
    # --- enum codes and the decoders' matches on them
    mt = _enum_codes(dhcp, "MessageType")
    arms = [(int(a), b) for a, b in re.findall(r"(\d+)\s*=>\s*Ok\(MessageType::(\w+)\)", _fn_body(dhcp, r"fn try_from\b[^{]*\{", "MessageType::try_from"))]
    if sorted(arms) != sorted((c, n) for n, c in mt):
        raise ExtractError(f"MessageType::try_from arms {arms} do not invert the enum discriminants {mt}")
    op = _enum_codes(arp, "Operation")
    arms = [(int(a), b) for a, b in re.findall(r"(\d+)\s*=>\s*Operation::(\w+)", _fn_body(arp, r"pub fn from_bytes\b[^{]*\{", "arp from_bytes"))]
    if sorted(arms) != sorted((c, n) for n, c in op):
        raise ExtractError(f"ArpPacket::from_bytes operation arms {arms} do not invert the enum discriminants {op}")
    # --- structural certificates: the panic sites of the decoders are those of the model
    _certify_no_panic(_fn_body(arp, r"pub fn from_bytes\b[^{]*\{", "arp from_bytes"), "ArpPacket::from_bytes")
    _certify_no_panic(_fn_body(dns, r"pub fn from_bytes\b[^{]*\{", "dns from_bytes"), "DnsMessage::from_bytes", allowed_arith=("i += 1;",))
    _certify_no_panic(_fn_body(dns, r"pub fn query_name\b[^{]*\{", "query_name"), "DnsQuestion::query_name")
    _certify_no_panic(_fn_body(dhcp, r"pub fn from_bytes\b[^{]*\{", "dhcp from_bytes"), "DhcpMessage::from_bytes")
    _certify_no_panic(_fn_body(dhcp, r"fn try_from\b[^{]*\{", "try_from"), "MessageType::try_from")
    for path, what in ((os.path.join(P, "dhcp", "dhcp_client.rs"), "DhcpClient::demux"),
                       (os.path.join(ELVIS, "applications", "dhcp_server.rs"), "DhcpServer::demux"),
                       (os.path.join(P, "arp.rs"), "Arp::demux")):
        body = _fn_body(_non_test(path), r"fn demux\b[^{]*\{", what)
        if re.search(r"from_bytes\([^;]*?\)\s*\.(unwrap|expect)\(", body, flags=re.S):
            raise ExtractError(f"{what} unwraps the result of from_bytes: a panic site the model does not have")
    # the DNS responder / resolver propagate decode failures (F-C14-4)
    srv = _non_test(os.path.join(P, "dns", "dns_server.rs"))
    cli = _non_test(os.path.join(P, "dns", "dns_client.rs"))
    for src, what, pats in (
            (srv, "DnsServer", (r"\.recv\w*\([^;]*?\)\s*\.await\s*\.(unwrap|expect)\(", r"from_bytes\([^;]*?\)\s*\.(unwrap|expect)\(", r"query_name\(\)\s*\.(unwrap|expect)\(",
                               r"respond_to_query\([^;]*?\)\s*\.await\s*\.(unwrap|expect)\(")),
            (cli, "DnsClient::get_host_by_name", (r"\.recv\w*\([^;]*?\)\s*\.await\s*\.(unwrap|expect)\(", r"from_bytes\([^;]*?\)\s*\.(unwrap|expect)\(", r"from_utf8\([^;]*?\)\s*\.(unwrap|expect)\(",
                                                 r"get_mapping\(&name\)\s*\.(unwrap|expect)\("))):
        for pat in pats:
            if re.search(pat, src, flags=re.S):
                raise ExtractError(f"{what} unwraps a decode result (`{pat}`): a panic site the model (Dns.serverRespond / Dns.clientHandle) does not have")
    if re.search(r"rdata\[\d\]", cli) and not re.search(r"rdata\.len\(\)\s*<\s*4", cli):
        raise ExtractError("DnsClient::get_host_by_name indexes rdata[0..4] without the length check the model has")
    lines = ["-- GENERATED from /repo sources (arp_parsing.rs, dns_parsing.rs, dhcp_parsing.rs) by tools/extract.py on every check; do not edit",
             "namespace Elvis.Gen.CodecB",
             f"/-- the name delimiter literal of dns_parsing.rs (from_bytes x2, build x2) -/\ndef dnsDelim : UInt8 := {dns_delim}",
             f"/-- the string terminator literal of dhcp_parsing.rs (from_bytes x2, to_message x2) -/\ndef dhcpTerm : UInt8 := {dhcp_term}",
             "/-- `enum MessageType` discriminants (and `try_from` inverts them: checked by the extractor) -/",
             "def dhcpTypeCodes : List (String × Nat) := [" + ", ".join(f'("{n}", {c})' for n, c in mt) + "]",
             "/-- `enum Operation` discriminants (and `from_bytes` inverts them: checked by the extractor) -/",
             "def arpOperationCodes : List (String × Nat) := [" + ", ".join(f'("{n}", {c})' for n, c in op) + "]",
             f"def arpHtype : Nat := {_const(arp, 'HTYPE')}", f"def arpPtype : Nat := {_const(arp, 'PTYPE')}",
             f"def arpHlen : Nat := {_const(arp, 'HLEN')}", f"def arpPlen : Nat := {_const(arp, 'PLEN')}",
             f"def arpSize : Nat := {_const(arp, 'SIZE')}",
             "end Elvis.Gen.CodecB", ""]
    write_if_changed("CodecB.lean", "\n".join(lines))


def norm(s):
    return re.sub(r"\s+", " ", s).strip()


def const_of(src, pat, what):
    m = re.search(pat, src)
    if not m:
        raise ExtractError(f"{what}: pattern `{pat}` not found")
    return int(m.group(1).replace("_", ""), 0)


def gen_arp():
    """C06: retry budget, packet constants, the mask / network-id kernels the gateway decision
    of `Arp::resolve` uses (exact text match, fail closed) -> Generated/Arp.lean."""
    arp = strip_comments(read(os.path.join(CORE, "protocols", "arp.rs")))
    par_full = strip_comments(read(os.path.join(CORE, "protocols", "arp", "arp_parsing.rs")))
    par = par_full.split("#[cfg(test)]")[0]
    sub = strip_comments(read(os.path.join(CORE, "protocols", "arp", "subnetting.rs"))).split("#[cfg(test)]")[0]
    net = strip_comments(read(os.path.join(CORE, "network.rs")))
    tries = const_of(arp, r"pub const RESEND_TRIES: u32 = (\d[\d_]*);", "arp.rs RESEND_TRIES")
    delay_ms = const_of(arp, r"pub const RESEND_DELAY: Duration = Duration::from_millis\((\d[\d_]*)\);", "arp.rs RESEND_DELAY")
    size = const_of(par, r"pub const SIZE: usize = (\d+);", "ArpPacket::SIZE")
    htype = const_of(par, r"const HTYPE: u16 = (0x[0-9a-fA-F_]+|\d+);", "HTYPE")
    ptype = const_of(par, r"const PTYPE: u16 = (0x[0-9a-fA-F_]+|\d+);", "PTYPE")
    hlen = const_of(par, r"const HLEN: u8 = (\d+);", "HLEN")
    plen = const_of(par, r"const PLEN: u8 = (\d+);", "PLEN")
    req = const_of(par_full, r"pub enum Operation \{\s*Request = (\d+),", "Operation::Request")
    rep = const_of(par_full, r"pub enum Operation \{\s*Request = \d+,\s*Reply = (\d+),", "Operation::Reply")
    m = re.search(r"pub fn new_request\(.*?\) -> ArpPacket \{(.*?)\n    \}", par, flags=re.S)
    if not m:
        raise ExtractError("arp_parsing.rs: new_request not found")
    tmac = const_of(m.group(1), r"target_mac: (\d+),", "new_request target_mac placeholder")
    bmac = const_of(net, r"pub const BROADCAST_MAC: Mac = (0x[0-9a-fA-F_]+);", "Network::BROADCAST_MAC")
    # kernels: exact (whitespace-normalised) text, translated by hand once; any edit fails closed
    nsub = norm(sub)
    clamp_txt = "const fn clamp(num: u32, min: u32, max: u32) -> u32 { assert!(min <= max); if num < min { min } else if num > max { max } else { num } }"
    fb_txt = ("pub const fn from_bitcount(size: u32) -> Ipv4Mask { let size = clamp(size, 0, 32); if size == 0 { Ipv4Mask(0) } "
              "else if size == 32 { Ipv4Mask(0xFF_FF_FF_FF) } else { Ipv4Mask(((1 << size) - 1) << (32 - size)) } }")
    new_txt = "pub fn new(ip: Ipv4Address, mask: Ipv4Mask) -> Self { Self { network_id: Ipv4Address::from(ip.to_u32() & mask.to_u32()), mask, } }"
    id_txt = "pub fn id(&self) -> Ipv4Address { self.network_id }"
    for t, w in ((clamp_txt, "clamp"), (fb_txt, "Ipv4Mask::from_bitcount"), (new_txt, "Ipv4Net::new"), (id_txt, "Ipv4Net::id")):
        if t not in nsub:
            raise ExtractError(f"subnetting.rs: `{w}` no longer has the text the Lean kernel was translated from")
    narp = norm(arp)
    gw_txt = ("if let Some(subnet) = subnet { let mask = subnet.mask; if Ipv4Net::new(endpoints.local, mask).id() != "
              "Ipv4Net::new(endpoints.remote, mask).id() { endpoints.remote = subnet.default_gateway; } };")
    if gw_txt not in narp:
        raise ExtractError("arp.rs: the gateway decision of Arp::resolve no longer has the text the model was written from")
    # does a cached failure answer `resolve` / wake a waiter in `get_mac`?  (F-C06-1)
    old_r = "if let Some(status) = self.arp_table.get_clone(dest_ip) { return status; }" in narp
    old_g = "if let Some(value) = self.get_clone(ip) { return value; }" in narp
    new_r = "if let Some(Ok(mac)) = self.arp_table.get_clone(dest_ip) { return Ok(mac); }" in narp
    new_g = "if let Some(Ok(mac)) = self.get_clone(ip) { return Ok(mac); }" in narp
    if old_r and old_g and not (new_r or new_g):
        neg_cache = True
    elif new_r and new_g and not (old_r or old_g):
        neg_cache = False
    else:
        raise ExtractError("arp.rs: table lookups of Arp::resolve / ArpTable::get_mac have neither of the two known forms")
    # the wire layout of a MAC: the low six bytes of the u64
    if par.count(".to_be_bytes()[2..8]") != 2 or "next_u48_be()" not in par:
        raise ExtractError("arp_parsing.rs: MAC wire layout (to_be_bytes()[2..8] / next_u48_be) changed")
    lines = ["-- GENERATED from /repo sources by tools/extract.py on every check; do not edit",
             "namespace Elvis.Gen.Arp",
             "/-- `Arp::RESEND_TRIES` -/",
             f"def resendTries : Nat := {tries}",
             "/-- `Arp::RESEND_DELAY` in microseconds -/",
             f"def resendDelayUs : Nat := {delay_ms * 1000}",
             f"def packetSize : Nat := {size}",
             f"def htype : Nat := {htype}",
             f"def ptype : Nat := {ptype}",
             f"def hlen : Nat := {hlen}",
             f"def plen : Nat := {plen}",
             f"def operRequest : Nat := {req}",
             f"def operReply : Nat := {rep}",
             "/-- `target_mac` placeholder of `ArpPacket::new_request` -/",
             f"def requestTargetMac : Nat := {tmac}",
             f"def broadcastMac : Nat := {bmac}",
             "/-- does an `Err` entry of the ARP table answer `resolve` and wake waiters of `get_mac`? -/",
             f"def cachedFailureIsAnswer : Bool := {'true' if neg_cache else 'false'}",
             "/-- `clamp` of subnetting.rs (u32 arguments) -/",
             "def clamp (num min max : Nat) : Nat := if num < min then min else if num > max then max else num",
             "/-- `Ipv4Mask::from_bitcount` (no u32 overflow possible: `size < 32` in the last branch) -/",
             "def maskFromBitcount (size : Nat) : Nat :=",
             "  let size := clamp size 0 32",
             "  if size == 0 then 0 else if size == 32 then 0xFFFFFFFF else ((1 <<< size) - 1) <<< (32 - size)",
             "/-- `Ipv4Net::new(ip, mask).id()` -/",
             "def netId (ip mask : Nat) : Nat := ip &&& mask",
             "end Elvis.Gen.Arp", ""]
    write_if_changed("Arp.lean", "\n".join(lines))
def _one(pattern, src, what, path):
    m = re.findall(pattern, src)
    if len(m) != 1:
        raise ExtractError(f"{what}: expected exactly one match of /{pattern}/ in {os.path.relpath(path, REPO)}, found {len(m)}")
    return m[0]


def _int(lit):
    return int(lit.replace("_", ""), 0)


def stack_consts():
    """C04/C05: constants and literal sites of the demux path and of the link."""
    out = []

    def const(lean, value):
        out.append("def %s : Nat := %d" % (lean, value))

    p = os.path.join(CORE, "protocols", "ipv4", "ipv4_address.rs")
    src = strip_comments(read(p))
    for name, lean in (("CURRENT_NETWORK", "ipv4CurrentNetwork"), ("SUBNET", "ipv4SubnetBroadcast")):
        g = _one(r"pub const %s: Self = Self\(\[(\d+)u8, (\d+), (\d+), (\d+)\]\);" % name, src, name, p)
        const(lean, int.from_bytes(bytes(int(x) for x in g), "big"))
    p = os.path.join(CORE, "protocols", "udp", "udp_parsing.rs")
    const("udpHeaderOctets", _int(_one(r"const HEADER_OCTETS: u16 = (\w+);", strip_comments(read(p)), "HEADER_OCTETS", p)))
    p = os.path.join(CORE, "protocols", "udp.rs")
    src = strip_comments(read(p))
    const("udpDemuxStrip", _int(_one(r"message\.remove_front\((\w+)\);", src, "Udp::demux header strip", p)))
    # the wildcard key of Udp::demux is built from CURRENT_NETWORK and the port of the datagram
    _one(r"let any_listen_id = Endpoint \{\s*address: Ipv4Address::(CURRENT_NETWORK),\s*port: endpoints\.local\.port,\s*\};", src, "Udp::demux wildcard key", p)
    _one(r"Endpoint::new\(ipv4_header\.destination, udp_header\.destination\),\s*Endpoint::new\(ipv4_header\.(source), udp_header\.source\),", src, "Udp::demux endpoints from headers", p)
    _one(r"socket\.address,\s*machine,\s*ipv4::ProtocolNumber::(UDP),", src, "Udp::listen -> Ipv4::listen(UDP)", p)
    p = os.path.join(CORE, "protocols", "ipv4.rs")
    src = strip_comments(read(p))
    const("ipv4DemuxStripFactor", _int(_one(r"message\.remove_front\(header\.ihl as usize \* (\w+)\);", src, "Ipv4::demux header strip", p)))
    udp_no = _int(_one(r"UDP = (\d+),", src, "ProtocolNumber::UDP", p))
    const("ipv4ProtoUdp", udp_no)
    if _int(_one(r"(\d+) => ProtocolNumber::UDP,", src, "ProtocolNumber::from UDP", p)) != udp_no:
        raise ExtractError("ProtocolNumber::from(u8) does not map the UDP number to UDP")
    _one(r"\.get\(&\(Ipv4Address::(CURRENT_NETWORK), protocol_no\)\)", src, "Ipv4::demux wildcard key", p)
    p = os.path.join(CORE, "protocols", "ipv4", "ipv4_parsing.rs")
    const("ipv4BaseWords", _int(_one(r"const BASE_WORDS: u8 = (\w+);", strip_comments(read(p)), "BASE_WORDS", p)))
    p = os.path.join(CORE, "network.rs")
    src = strip_comments(read(p))
    const("broadcastMac", _int(_one(r"pub const BROADCAST_MAC: Mac = (\w+);", src, "BROADCAST_MAC", p)))
    bits = {"u8": 8, "u16": 16, "u32": 32, "u64": 64}
    const("mtuBits", bits[_one(r"pub type Mtu = (u\d+);", src, "type Mtu", p)])
    const("macBits", bits[_one(r"pub type Mac = (u\d+);", src, "type Mac", p)])
    _one(r"mtu: mtu\.unwrap_or\(Mtu::(MAX)\),", src, "default MTU", p)
    out.append("def mtuDefault : Nat := 2 ^ mtuBits - 1")
    # transmission time: len * 10^9 / thr + carry nanoseconds, slept in whole milliseconds,
    # remainder carried to the next frame
    const("txNsPerSec", _int(_one(r"let ns = delivery\.message\.len\(\) as u128 \* (\w+) / throughput\.0 as u128\s*\+ \*carry as u128;", src, "throughput transmission time", p)))
    ns_per_ms = _int(_one(r"\*carry = \(ns % (\w+)\) as u64;", src, "throughput carry", p))
    if _int(_one(r"\(ns / (\w+)\) as u64", src, "throughput milliseconds", p)) != ns_per_ms:
        raise ExtractError("throughput wait: divisor of the sleep and modulus of the carry differ")
    const("txNsPerMs", ns_per_ms)
    _one(r"sleep\(Duration::from_(millis)\(ms\)\)\.await;", src, "throughput wait unit", p)
    _one(r"if throughput\.0 > 0 \{\s*self\.throughput_permit\.(notified)\(\)\.await;", src, "permit taken before the transmission", p)
    _one(r"sleep\(Duration::from_millis\(ms\)\)\.await;\s*self\.throughput_permit\.(notify_one)\(\);", src, "permit released after the transmission", p)
    p = os.path.join(CORE, "protocols", "pci", "pci_session.rs")
    _one(r"if message\.len\(\) (>) self\.network\.mtu as usize \{\s*return Err\(SendError::Mtu\(self\.network\.mtu\)\);", strip_comments(read(p)), "send_pci MTU check", p)
    return out


def gen_socket_cert():
    """C02: disciplines and capacities of the socket layer (socket.rs, socket_api.rs,
    socket_session.rs, tcp/tcp_session.rs, udp/udp_parsing.rs). Fails closed: every item must match
    one of the shapes named here."""
    P = os.path.join(CORE, "protocols")
    sock = strip_comments(read(os.path.join(P, "socket_api", "socket.rs")))
    api = strip_comments(read(os.path.join(P, "socket_api.rs")))
    sess = strip_comments(read(os.path.join(P, "socket_api", "socket_session.rs")))
    tcps = strip_comments(read(os.path.join(P, "tcp", "tcp_session.rs")))
    udpp = strip_comments(read(os.path.join(P, "udp", "udp_parsing.rs")))
    flat = lambda t: re.sub(r"\s+", " ", t)

    def body_of(src, pat, what):
        m = re.search(pat, src)
        if not m:
            raise ExtractError(f"C02: {what} not found")
        return flat(block_at(src, m.end() - 1))

    # --- Socket::recv: what each dequeued message is compared with
    recv = body_of(sock, r"pub\s+async\s+fn\s+recv\s*\(\s*&mut\s+self\s*,\s*bytes\s*:\s*usize\s*\)[^{]*\{", "Socket::recv")
    wm = re.search(r"while buf\.len\(\) < bytes \{", recv)
    if not wm:
        raise ExtractError("C02: Socket::recv: `while buf.len() < bytes` loop not found")
    loop = recv[wm.start():]
    head = recv[:wm.start()]
    if not ("if message.len() <= bytes {" in head and "message.iter().take(bytes)" in head and "message.slice(bytes..)" in head):
        raise ExtractError("C02: Socket::recv: the stored-remainder part changed shape")
    old = "if message.len() <= bytes {" in loop and "take(bytes)" in loop and "slice(bytes..)" in loop
    new = ("let space = bytes - buf.len();" in loop and "if message.len() <= space {" in loop and "take(space)" in loop
           and "slice(space..)" in loop and "<= bytes" not in loop and "take(bytes)" not in loop)
    if old == new:
        raise ExtractError("C02: Socket::recv: cannot classify the comparison in the receive loop")
    if not ("if buf.is_empty() && self.is_blocking {" in loop and "message_receiver.try_recv()" in loop and "break;" in loop):
        raise ExtractError("C02: Socket::recv: blocking discipline of the loop changed shape")

    # --- write hand-off: spawned task per write or synchronous
    ssend = body_of(sock, r"pub\s+fn\s+send\s*\(\s*&self\s*,[^{]*\{", "Socket::send")
    if not re.search(r"session\s*\.send\(", ssend):
        raise ExtractError("C02: Socket::send no longer calls session.send")
    socket_send_spawns = "spawn(" in ssend
    imp = re.search(r"impl\s+Session\s+for\s+TcpSession\s*\{", tcps)
    if not imp:
        raise ExtractError("C02: impl Session for TcpSession not found")
    tsend = flat(block_at(tcps, imp.end() - 1))
    if "Instruction::Outgoing(message)" not in tsend:
        raise ExtractError("C02: TcpSession::send no longer enqueues Instruction::Outgoing")
    tcp_send_spawns = "spawn(" in tsend
    trecv = body_of(tcps, r"pub\s+fn\s+receive\s*\(\s*&self\s*,\s*segment\s*:\s*Segment\s*\)\s*\{", "TcpSession::receive")
    if "Instruction::Incoming(segment)" not in trecv:
        raise ExtractError("C02: TcpSession::receive no longer enqueues Instruction::Incoming")
    tcp_recv_spawns = "spawn(" in trecv
    ftcps = flat(tcps)
    mcap = re.search(r"let \(send, mut recv\) = channel\((\d+)\);", ftcps)
    unb = "let (send, mut recv) = unbounded_channel();" in ftcps
    if bool(mcap) == unb:
        raise ExtractError("C02: TcpSession instruction queue: neither channel(<literal>) nor unbounded_channel()")
    if not unb and not (tcp_send_spawns and tcp_recv_spawns):
        raise ExtractError("C02: bounded instruction queue with a synchronous enqueue: shape not modelled")
    fifo = ("recv.try_recv()" in ftcps and "recv.recv()" in ftcps and "Instruction::Outgoing(message) => {" in ftcps and "tcb.send(message);" in ftcps)
    if not fifo:
        raise ExtractError("C02: TcpSession task no longer drains one FIFO instruction queue into tcb.send")

    # --- socket channel capacity, try_send, accept replay
    caps = re.findall(r"mpsc::channel\((u8::MAX\.into\(\)|\d+)\)", flat(api))
    if len(caps) != 2 or caps[0] != caps[1]:
        raise ExtractError("C02: socket_api.rs: expected two identical message channel capacities, got %r" % caps)
    cap = 255 if caps[0] == "u8::MAX.into()" else int(caps[0])
    if "mpsc::channel(backlog)" not in flat(api):
        raise ExtractError("C02: listen backlog channel not found")
    rcv = body_of(sess, r"pub\s+fn\s+receive\s*\(\s*&self\s*,\s*message\s*:\s*Message\s*\)[^{]*\{", "SocketSession::receive")
    if not ("sock.is_closed()" in rcv and "sock.try_send(message)" in rcv and "self.stored_messages.write().unwrap().push_back(message);" in rcv):
        raise ExtractError("C02: SocketSession::receive changed shape")
    rsm = body_of(sess, r"pub\s+fn\s+receive_stored_messages\s*\([^)]*\)[^{]*\{", "SocketSession::receive_stored_messages")
    if not ("while !queue.is_empty()" in rsm and "sock.try_send(queue.pop_front().unwrap())" in rsm and "return Err(DemuxError::MissingSession);" in rsm):
        raise ExtractError("C02: SocketSession::receive_stored_messages changed shape")
    gss = body_of(api, r"fn\s+get_socket_session\s*\(", "SocketAPI::get_socket_session")
    acc = body_of(sock, r"pub\s+async\s+fn\s+accept\s*\(", "Socket::accept")
    if "let session_map = self.socket_sessions.write().unwrap();" not in gss or "*session.upstream.write().unwrap() = Some(sender);" not in gss:
        raise ExtractError("C02: get_socket_session no longer activates the channel under the sessions write lock")
    in_gss = "receive_stored_messages()" in gss
    in_acc = "receive_stored_messages()" in acc
    if in_gss == in_acc:
        raise ExtractError("C02: cannot classify where accept() replays the stored messages")
    if in_gss and not (gss.index("*session.upstream.write().unwrap() = Some(sender);") < gss.index("receive_stored_messages()")):
        raise ExtractError("C02: replay precedes activation in get_socket_session: shape not modelled")
    if in_acc and not (acc.index("get_socket_session(") < acc.index("receive_stored_messages()")):
        raise ExtractError("C02: accept(): replay precedes get_socket_session")
    dm = body_of(api, r"fn\s+demux\s*\(", "SocketAPI::demux")
    # demux holds the sessions READ lock while SocketSession::receive runs (so a replay under the
    # WRITE lock excludes it)
    demux_under_read = "match self.socket_sessions.read().unwrap().entry(identifier) { Entry::Occupied(entry) => entry.get().receive(message)?," in dm
    lookup = ("let any_identifier = Endpoint::new(Ipv4Address::CURRENT_NETWORK, identifier.local.port);" in dm
              and "self.listen_bindings.get(&identifier.local)" in dm and "self.listen_bindings.get(&any_identifier)" in dm
              and dm.index("self.listen_bindings.get(&identifier.local)") < dm.index("self.listen_bindings.get(&any_identifier)")
              and "session.stored_messages.write().unwrap().push_back(message);" in dm
              and "sender.try_send(identifier.remote)" in dm
              and dm.index("sender.try_send(identifier.remote)") < dm.index("entry.insert(session);"))
    mh = re.search(r"const HEADER_OCTETS: u16 = (\d+);", udpp)
    if not mh:
        raise ExtractError("C02: udp_parsing.rs HEADER_OCTETS not found")
    b = lambda x: "true" if x else "false"
    lines = ["-- GENERATED from /repo sources by tools/extract.py on every check; do not edit",
             "namespace Elvis.Gen",
             "/-- Socket::recv compares a dequeued message with the space left (`bytes - buf.len()`), not with `bytes` -/",
             f"def recvComparesWithRemaining : Bool := {b(new)}",
             "/-- Socket::send hands the write to the session inside a spawned task -/",
             f"def socketSendSpawns : Bool := {b(socket_send_spawns)}",
             "/-- TcpSession::send enqueues the Outgoing instruction inside a spawned task -/",
             f"def tcpSessionSendSpawns : Bool := {b(tcp_send_spawns)}",
             "/-- TcpSession::receive enqueues the Incoming instruction inside a spawned task -/",
             f"def tcpSessionReceiveSpawns : Bool := {b(tcp_recv_spawns)}",
             "/-- capacity of the per-session instruction queue (`none` = unbounded_channel) -/",
             f"def instructionQueueCapacity : Option Nat := {'none' if unb else 'some ' + mcap.group(1)}",
             "/-- capacity of the mpsc channel between a SocketSession and its Socket -/",
             f"def socketChannelCapacity : Nat := {cap}",
             "/-- accept(): the stored messages are replayed inside get_socket_session, under the sessions write lock -/",
             f"def acceptReplayUnderLock : Bool := {b(in_gss)}",
             "/-- SocketAPI::demux runs SocketSession::receive while holding the sessions read lock -/",
             f"def demuxReceivesUnderReadLock : Bool := {b(demux_under_read)}",
             "/-- SocketAPI::demux: exact 4-tuple, else listen binding exact-then-wildcard, store + backlog try_send before insert -/",
             f"def demuxLookupShape : Bool := {b(lookup)}",
             "end Elvis.Gen", ""]
    # `udpHeaderOctets` is generated once, in Generated/Consts.lean (same source constant)
    lines.insert(0, "import ElvisVerif.Generated.Consts")
    write_if_changed("SocketCert.lean", "\n".join(lines))


def gen_dns_cert():
    """C20: how the DNS responder reads its request (whole datagram vs. a byte budget), the
    records `DnsServer::start` inserts itself, the well-known server endpoint, the delimiter,
    and that the client resolves on a fresh connected datagram socket and caches the answer."""
    srv = strip_comments(read(os.path.join(CORE, "protocols", "dns", "dns_server.rs"))).split("#[cfg(test)]")[0]
    cli = strip_comments(read(os.path.join(CORE, "protocols", "dns", "dns_client.rs"))).split("#[cfg(test)]")[0]
    par = strip_comments(read(os.path.join(CORE, "protocols", "dns", "dns_parsing.rs"))).split("#[cfg(test)]")[0]
    adr = strip_comments(read(os.path.join(CORE, "protocols", "ipv4", "ipv4_address.rs")))
    m = re.search(r"async\s+fn\s+respond_to_query\s*\(", srv)
    if not m:
        raise ExtractError("dns_server.rs: respond_to_query not found")
    body = re.sub(r"\s+", "", fn_body(srv, srv.index("DnsServerError", m.end())))
    reads = re.findall(r"socket\.(recv_msg\(\)|recv\((\d+)\))\.await", body)
    if len(reads) != 1:
        raise ExtractError("dns_server.rs: respond_to_query should read its socket exactly once, found %d reads" % len(reads))
    whole = reads[0][0] == "recv_msg()"
    budget = 0 if whole else int(reads[0][1])
    sm = re.search(r"impl\s+Protocol\s+for\s+DnsServer\s*\{", srv)
    if not sm:
        raise ExtractError("dns_server.rs: impl Protocol for DnsServer not found")
    start = fn_body(srv, sm.end() - 1)
    calls = re.findall(r'self\.(add_mapping|add_default_mapping)\(\s*"([^"\\]*)"\.to_string\(\)\s*,\s*\[(\d+),\s*(\d+),\s*(\d+),\s*(\d+)\]\.into\(\)\s*\)', start)
    if len(calls) != len(re.findall(r"add_(?:default_)?mapping\(", start)):
        raise ExtractError("dns_server.rs: a mapping inserted by DnsServer::start is not of the literal form")
    kinds = {c[0] for c in calls}
    if len(kinds) > 1:
        raise ExtractError("dns_server.rs: DnsServer::start mixes add_mapping and add_default_mapping")
    overrides = kinds == {"add_mapping"}
    if "add_default_mapping" in kinds:
        dm = re.search(r"fn\s+add_default_mapping\s*\(\s*&self\s*,\s*name\s*:\s*String\s*,\s*ip\s*:\s*Ipv4Address\s*\)", srv)
        if not dm or re.sub(r"\s+", "", fn_body(srv, dm.end())) != "{self.name_to_ip.entry(name).or_insert(ip);}":
            raise ExtractError("dns_server.rs: add_default_mapping is not `self.name_to_ip.entry(name).or_insert(ip);`")
    am_ = re.search(r"pub\s+fn\s+add_mapping\s*\(\s*&self\s*,\s*name\s*:\s*String\s*,\s*ip\s*:\s*Ipv4Address\s*\)", srv)
    if not am_ or re.sub(r"\s+", "", fn_body(srv, am_.end())) != "{self.name_to_ip.insert(name,ip);}":
        raise ExtractError("dns_server.rs: add_mapping is not `self.name_to_ip.insert(name, ip);`")
    builtin = [c[1:] for c in calls]
    pm = re.search(r"let local_port = (\d+);", start)
    cm = re.search(r"Endpoint::new\(Ipv4Address::DNS_AUTH,\s*(\d+)\)", cli)
    am = re.search(r"pub const DNS_AUTH: Self = Self\(\[(\d+)u8, (\d+), (\d+), (\d+)\]\);", adr)
    if not (pm and cm and am):
        raise ExtractError("dns: server port / client remote endpoint / DNS_AUTH literal not found")
    delims = set(re.findall(r"b'(.)'", par))
    if delims != {" "}:
        raise ExtractError("dns_parsing.rs: the name delimiter is no longer the single literal b' ': %r" % sorted(delims))
    flat = re.sub(r"\s+", " ", cli)
    gm = re.search(r"pub async fn get_host_by_name\(", flat)
    if not gm:
        raise ExtractError("dns_client.rs: get_host_by_name not found")
    g = fn_body(flat, gm.end())
    # order of the calls that matter (names of locals are not part of the certificate)
    order = ["self.get_mapping(&name)", "Ok(ip) => Ok(ip)", ".new_socket(", ".connect(", ".send(", ".recv_msg()", "DnsMessage::from_bytes(",
             "self.add_mapping(", "self.get_mapping(&name)"]
    pos = []
    at = 0
    for t in order:
        at = g.find(t, at)
        pos.append(at)
        if at < 0:
            break
        at += len(t)
    shape = all(p >= 0 for p in pos) and g.count(".send(") == 1 and g.count("new_socket(") == 1 and g.count("add_mapping(") == 1 \
        and "SocketType::Datagram" in g
    # error handling: the responder task logs what respond_to_query returns (no unwrap of it, no
    # unwrap inside before the reply is built); the resolver returns errors after recv_msg
    srv_flat = re.sub(r"\s+", "", srv)
    before_reply = body.split("create_response(")[0]
    server_reports = ("ifletErr(e)=DnsServer::respond_to_query(table,socket).await{" in srv_flat
                      and "respond_to_query(table,socket).await.unwrap()" not in srv_flat
                      and ".unwrap()" not in before_reply and ".expect(" not in before_reply)
    gflat = re.sub(r"\s+", "", g)
    after_recv = gflat.split(".recv_msg()", 1)[1] if ".recv_msg()" in gflat else ".unwrap()"
    client_reports = ".unwrap()" not in after_recv and ".expect(" not in after_recv and "rdata.len()<4" in after_recv
    # every cache miss takes a fresh ephemeral port from SocketAPI: does `get_ephemeral_port` read
    # and advance its counter under ONE lock (two sockets never get the same port), or with a read
    # lock followed by a separate write lock (two tasks on different threads can read the same value)?
    sapi = strip_comments(read(os.path.join(CORE, "protocols", "socket_api.rs"))).split("#[cfg(test)]")[0]
    em = re.search(r"fn\s+get_ephemeral_port\s*\(\s*&self\s*\)\s*->\s*Result<u16,\s*SocketError>", sapi)
    if not em:
        raise ExtractError("socket_api.rs: get_ephemeral_port not found")
    eb = re.sub(r"\s+", "", fn_body(sapi, em.end()))
    n_read, n_write = eb.count("self.local_ports.read()"), eb.count("self.local_ports.write()")
    if eb.count("local_ports") != n_read + n_write + eb.count("*local_ports") or (n_read, n_write) not in ((0, 1), (1, 1)) \
            or ".await" in eb or "drop(" in eb:
        raise ExtractError("socket_api.rs: get_ephemeral_port no longer has one of the two known shapes "
                           "(one write lock / a read lock then a write lock): %d reads, %d writes" % (n_read, n_write))
    port_one_lock = (n_read, n_write) == (0, 1)
    lines = ["-- GENERATED from /repo sources by tools/extract.py on every check; do not edit",
             "namespace Elvis.Gen",
             "/-- `SocketAPI::get_ephemeral_port` reads and advances the port counter under one write lock",
             "    (false: a read lock, released, then a write lock) -/",
             f"def socketEphemeralPortOneLock : Bool := {'true' if port_one_lock else 'false'}",
             "/-- the responder task logs the error `respond_to_query` returns; nothing is unwrapped before the reply is built -/",
             f"def dnsServerReportsErrors : Bool := {'true' if server_reports else 'false'}",
             "/-- `get_host_by_name` unwraps nothing after `recv_msg` and checks `rdata.len() < 4` -/",
             f"def dnsClientReportsErrors : Bool := {'true' if client_reports else 'false'}",
             "/-- `respond_to_query` reads its request with `recv_msg()` (the whole datagram) -/",
             f"def dnsServerReadsWholeDatagram : Bool := {'true' if whole else 'false'}",
             "/-- byte budget of `recv(n)` when it does not (0 = reads the whole datagram) -/",
             f"def dnsServerRecvBudget : Nat := {budget}",
             "/-- records `DnsServer::start` inserts itself, in order: name (UTF-8 bytes), address bytes: "
             + ", ".join(n for n, *_ in builtin) + " -/",
             "def dnsBuiltinRecords : List (List Nat × (Nat × Nat × Nat × Nat)) := ["
             + ", ".join(f'({list(n.encode("utf-8"))}, ({a}, {b}, {c}, {d}))' for n, a, b, c, d in builtin) + "]",
             "/-- they are inserted with `add_mapping` (replacing a configured record of the same name) -/",
             f"def dnsBuiltinOverrides : Bool := {'true' if overrides else 'false'}",
             f"def dnsServerPort : Nat := {pm.group(1)}",
             f"def dnsClientRemotePort : Nat := {cm.group(1)}",
             f"def dnsAuthAddr : Nat × Nat × Nat × Nat := ({am.group(1)}, {am.group(2)}, {am.group(3)}, {am.group(4)})",
             "/-- `get_host_by_name`: cache lookup first and `Ok(ip)` on a hit without any other call; on a",
             "    miss exactly one new datagram socket, connect, one send, `recv_msg`, parse, cache insert of",
             "    the answer's name, lookup of the requested name — in this order (token-level scan) -/",
             f"def dnsClientShape : Bool := {'true' if shape else 'false'}",
             "end Elvis.Gen", ""]
    write_if_changed("DnsCert.lean", "\n".join(lines))
# ---------------------------------------------------------------------------------------------
# TCB constants (C01 C03 C12 C17) -> Generated/TcbConsts.lean
# ---------------------------------------------------------------------------------------------
def duration_ms(expr, what):
    m = re.fullmatch(r"Duration::from_(secs|millis)\((\d[\d_]*)\)", expr.strip())
    if not m:
        raise ExtractError(f"{what}: cannot read duration `{expr.strip()}`")
    n = int(m.group(2).replace("_", ""))
    return n * 1000 if m.group(1) == "secs" else n


def const_expr(src, name, what):
    m = re.search(r"const\s+" + name + r"\s*:\s*[\w:]+\s*=\s*([^;]+);", src)
    if not m:
        raise ExtractError(f"{what}: `const {name}` not found")
    return m.group(1).strip()


def extract_tcb_consts():
    tcb = strip_comments(read(os.path.join(CORE, "protocols", "tcp", "tcb.rs")))
    rss = strip_comments(read(os.path.join(CORE, "protocols", "tcp", "tcb", "receive_sequence_space.rs")))
    par = strip_comments(read(os.path.join(CORE, "protocols", "tcp", "tcp_parsing.rs")))
    msl = duration_ms(const_expr(tcb, "MSL", "tcb.rs"), "MSL")
    rto = duration_ms(const_expr(tcb, "RETRANSMISSION_TIMEOUT", "tcb.rs"), "RETRANSMISSION_TIMEOUT")
    sfh = const_expr(tcb, "SPACE_FOR_HEADERS", "tcb.rs")
    if not re.fullmatch(r"\d+", sfh):
        raise ExtractError(f"SPACE_FOR_HEADERS is not a literal: {sfh}")
    # every TIME-WAIT assignment must be 2*MSL
    tws = re.findall(r"time_wait\s*=\s*Some\(([^)]*)\)", tcb)
    tws = [t.strip() for t in tws if "delta_time" not in t]
    if not tws or any(t not in ("MSL * 2", "2 * MSL") for t in tws):
        raise ExtractError(f"TIME-WAIT timer is not uniformly 2*MSL: {tws}")
    m = re.search(r"impl Default for ReceiveSequenceSpace\s*\{.*?Self\s*\{\s*irs:\s*(\d+),\s*nxt:\s*(\d+),\s*wnd:\s*([\w:]+),?\s*\}", rss, re.S)
    if not m or m.group(1) != "0" or m.group(2) != "0":
        raise ExtractError("ReceiveSequenceSpace::default is not {irs: 0, nxt: 0, wnd: <const>}")
    wnd = {"u16::MAX": 65535}.get(m.group(3))
    if wnd is None:
        if not re.fullmatch(r"\d+", m.group(3)):
            raise ExtractError(f"default receive window not a literal: {m.group(3)}")
        wnd = int(m.group(3))
    words = const_expr(par, "BASE_HEADER_WORDS", "tcp_parsing.rs")
    octets = const_expr(par, "BASE_HEADER_OCTETS", "tcp_parsing.rs")
    if not re.fullmatch(r"\d+", words) or octets != "BASE_HEADER_WORDS * 4":
        raise ExtractError(f"TCP base header constants changed shape: {words} / {octets}")
    # without the compute_checksum feature the checksum field is the constant 0
    util = strip_comments(read(os.path.join(CORE, "protocols", "utility.rs")))
    if not re.search(r'#\[cfg\(not\(feature = "compute_checksum"\)\)\]\s*pub fn as_u16\(&self\) -> u16 \{\s*0\s*\}', util):
        raise ExtractError("Checksum::as_u16 without compute_checksum is no longer the constant 0")
    lines = ["-- GENERATED from tcp/tcb.rs, tcb/receive_sequence_space.rs, tcp_parsing.rs by tools/extract.py; do not edit",
             "namespace Elvis.Gen.Tcb",
             f"/-- `MSL` in milliseconds -/\ndef mslMs : Nat := {msl}",
             f"/-- `RETRANSMISSION_TIMEOUT` in milliseconds -/\ndef rtoMs : Nat := {rto}",
             "/-- every `time_wait = Some(..)` in tcb.rs is `2 * MSL` -/\ndef timeWaitMs : Nat := 2 * mslMs",
             f"/-- `SPACE_FOR_HEADERS` in `Tcb::segments` -/\ndef spaceForHeaders : Nat := {sfh}",
             f"/-- `ReceiveSequenceSpace::default().wnd` -/\ndef defaultRcvWnd : Nat := {wnd}",
             f"/-- `BASE_HEADER_WORDS` -/\ndef baseHeaderWords : Nat := {words}",
             "/-- `BASE_HEADER_OCTETS = BASE_HEADER_WORDS * 4` -/\ndef baseHeaderOctets : Nat := baseHeaderWords * 4",
             "/-- `Checksum::as_u16` without the `compute_checksum` feature -/\ndef checksumWithoutFeature : Nat := 0",
             "end Elvis.Gen.Tcb", ""]
    write_if_changed("TcbConsts.lean", "\n".join(lines))


# ---------------------------------------------------------------------------------------------
# modular_cmp.rs one-expression kernels -> Generated/ModCmpKernels.lean
# ---------------------------------------------------------------------------------------------
KTOK = re.compile(r"\s*(?:(\d[\d_]*)|([A-Za-z_][A-Za-z0-9_]*)|(<<|>>|<=|>=|==|&&|\|\||[-+<>()!,.&|]))")


def ktokens(s):
    out, i = [], 0
    while i < len(s):
        m = KTOK.match(s, i)
        if not m:
            if s[i:].strip() == "":
                break
            raise ExtractError("modular_cmp.rs: cannot tokenise `" + s[i:i + 20] + "`")
        i = m.end()
        out.append(("num", m.group(1).replace("_", "")) if m.group(1) else ("id", m.group(2)) if m.group(2) else ("op", m.group(3)))
    return out


class KParser:
    """|| < && < comparison < shift < postfix method calls; checked + - are refused"""

    def __init__(s, toks, fns):
        s.t, s.i, s.fns = toks, 0, fns

    def peek(s):
        return s.t[s.i] if s.i < len(s.t) else ("eof", "")

    def eat(s, v=None):
        k = s.peek()
        if v is not None and k[1] != v:
            raise ExtractError(f"modular_cmp.rs: expected {v} got {k}")
        s.i += 1
        return k

    def expr(s):
        l = s.and_()
        while s.peek() == ("op", "||"):
            s.eat()
            l = f"({l} || {s.and_()})"
        return l

    def and_(s):
        l = s.cmp()
        while s.peek() == ("op", "&&"):
            s.eat()
            l = f"({l} && {s.cmp()})"
        return l

    def cmp(s):
        l = s.add()
        if s.peek()[0] == "op" and s.peek()[1] in ("<", ">", "<=", ">=", "=="):
            op = s.eat()[1]
            r = s.add()
            return {"<": f"decide ({l} < {r})", ">": f"decide ({l} > {r})", "<=": f"decide ({l} ≤ {r})",
                    ">=": f"decide ({l} ≥ {r})", "==": f"({l} == {r})"}[op]
        return l

    def add(s):
        l = s.shift()
        if s.peek()[0] == "op" and s.peek()[1] in "+-":
            raise ExtractError("modular_cmp.rs: checked +/- is outside the kernel grammar")
        return l

    def shift(s):
        l = s.post()
        while s.peek() == ("op", "<<"):
            s.eat()
            l = f"({l} <<< {s.post()})"
        return l

    def args(s):
        s.eat("(")
        a = []
        while s.peek() != ("op", ")"):
            a.append(s.expr())
            if s.peek() == ("op", ","):
                s.eat()
        s.eat(")")
        return a

    def post(s):
        a = s.atom()
        while s.peek() == ("op", "."):
            s.eat()
            name = s.eat()[1]
            args = s.args()
            if name == "wrapping_sub" and len(args) == 1:
                a = f"({a} - {args[0]})"
            elif name == "wrapping_add" and len(args) == 1:
                a = f"({a} + {args[0]})"
            elif name == "offset" and not args:
                a = f"(Cmp.offset {a})"
            else:
                raise ExtractError("modular_cmp.rs: method " + name)
        return a

    def atom(s):
        k = s.eat()
        if k[0] == "num":
            return f"({k[1]} : BitVec 32)"
        if k == ("op", "("):
            e = s.expr()
            s.eat(")")
            return e
        if k[0] == "id":
            if s.peek() == ("op", "("):
                if k[1] not in s.fns:
                    raise ExtractError("modular_cmp.rs: call of " + k[1])
                return "(" + " ".join([k[1]] + s.args()) + ")"
            return k[1]
        raise ExtractError("modular_cmp.rs: unexpected " + str(k))


def extract_modcmp_kernels():
    src = strip_comments(read(os.path.join(CORE, "protocols", "tcp", "tcb", "modular_cmp.rs"))).split("#[cfg(test)]")[0]
    fn_re = re.compile(r"pub fn (\w+)\(([^)]*)\)\s*->\s*bool\s*\{(.*?)\n\}", re.S)
    fns = list(fn_re.finditer(src))
    names = [m.group(1) for m in fns]
    want = ["mod_lt", "mod_leq", "mod_gt", "mod_geq", "mod_bounded"]
    if names != want:
        raise ExtractError(f"modular_cmp.rs: expected functions {want}, found {names}")
    m = re.search(r"fn offset\(self\) -> u32 \{\s*match self \{\s*Lt => (\d+),\s*Leq => (\d+),\s*\}\s*\}", src)
    if not m:
        raise ExtractError("modular_cmp.rs: ModCmp::offset changed shape")
    if not re.search(r"pub enum ModCmp \{\s*Lt,\s*Leq,\s*\}", src):
        raise ExtractError("modular_cmp.rs: enum ModCmp changed")
    out = ["-- GENERATED from tcp/tcb/modular_cmp.rs by tools/extract.py; do not edit",
           "namespace Elvis.Gen.ModCmp",
           "inductive Cmp | Lt | Leq deriving DecidableEq, Repr",
           f"def Cmp.offset : Cmp → BitVec 32 | .Lt => {m.group(1)} | .Leq => {m.group(2)}"]
    for f in fns:
        name, params, body = f.group(1), f.group(2), f.group(3)
        ps = []
        for p in params.split(","):
            n, t = [x.strip() for x in p.split(":")]
            if t not in ("u32", "ModCmp"):
                raise ExtractError(f"modular_cmp.rs: parameter type {t}")
            ps.append(f"({n} : {'BitVec 32' if t == 'u32' else 'Cmp'})")
        stmts = [x.strip() for x in body.strip().split(";") if x.strip()]
        lines = []
        for st in stmts[:-1]:
            mm = re.match(r"let (\w+) = (.*)$", st, re.S)
            if not mm:
                raise ExtractError("modular_cmp.rs: statement `" + st + "`")
            p = KParser(ktokens(mm.group(2)), names)
            lines.append(f"  let {mm.group(1)} := {p.expr()}")
            if p.peek()[0] != "eof":
                raise ExtractError("modular_cmp.rs: trailing tokens in `" + st + "`")
        p = KParser(ktokens(stmts[-1]), names)
        lines.append("  " + p.expr())
        if p.peek()[0] != "eof":
            raise ExtractError("modular_cmp.rs: trailing tokens in `" + stmts[-1] + "`")
        out.append(f"def {name} {' '.join(ps)} : Bool :=\n" + "\n".join(lines))
    out += ["end Elvis.Gen.ModCmp", ""]
    write_if_changed("ModCmpKernels.lean", "\n".join(out))


def gen_consts():
    """Generated/Consts.lean is shared: every contributor appends to `consts` here."""
    consts = ["-- GENERATED from /repo sources by tools/extract.py on every check; do not edit", "namespace Elvis.Gen"]
    # C11: reassembly timer lower bound (segment.rs `const TLB: u8 = 15;`)
    tlb = const_u(os.path.join(CORE, "protocols", "ipv4", "reassembly", "segment.rs"), "TLB", "u8")
    consts += ["/-- reassembly/segment.rs `TLB` (timer lower bound, seconds) -/", f"def TLB : Nat := {tlb}"]
    consts += stack_consts()
    consts += ["end Elvis.Gen", ""]
    write_if_changed("Consts.lean", "\n".join(consts))


def gen_ndl_cert():
    """C19/C14: the type-tag alternatives of `get_type` in `alt` order and the matcher used for
    them, the string -> DecType table of `DecType::from` (with its fall-through), the DecType
    variants, and the sections `machine_parser` requires."""
    pu = strip_comments(read(os.path.join(ELVIS, "ndl", "parsing", "parser_util.rs")))
    pd = strip_comments(read(os.path.join(ELVIS, "ndl", "parsing", "parsing_data.rs")))
    mp = strip_comments(read(os.path.join(ELVIS, "ndl", "parsing", "machine_parser.rs")))
    m = re.search(r"fn\s+get_type\s*\(", pu)
    if not m:
        raise ExtractError("parser_util.rs: fn get_type not found")
    body = fn_body(pu, m.end())
    am = re.search(r"alt\s*\(\s*\((.*?)\)\s*,?\s*\)\s*,?\s*\)\s*\(input\)", body, flags=re.S)
    if not am:
        raise ExtractError("parser_util.rs: get_type is no longer `context(.., alt((..)))(input)`")
    entries = [e.strip() for e in am.group(1).split(",") if e.strip()]
    tags, matchers = [], set()
    for e in entries:
        em = re.fullmatch(r"([a-z_]+)\(\s*\"([A-Za-z]+)\"\s*\)", e)
        if not em:
            raise ExtractError(f"parser_util.rs: get_type alternative `{e}` is not <matcher>(\"<letters>\")")
        matchers.add(em.group(1))
        tags.append(em.group(2))
    if len(matchers) != 1 or not tags:
        raise ExtractError(f"parser_util.rs: get_type mixes matchers {sorted(matchers)}")
    matcher = matchers.pop()
    if matcher not in ("tag_no_case", "keyword"):
        raise ExtractError(f"parser_util.rs: unknown tag matcher `{matcher}` (model knows nom's tag_no_case and the local keyword)")
    if not re.search(r"\.map\(\|\(next_input, res\)\| \(next_input, res\.into\(\)\)\)", body):
        raise ExtractError("parser_util.rs: get_type no longer converts the matched tag with `.into()`")
    em = re.search(r"pub\s+enum\s+DecType\s*\{(.*?)\}", pd, flags=re.S)
    if not em:
        raise ExtractError("parsing_data.rs: enum DecType not found")
    variants = [v.strip() for v in em.group(1).split(",") if v.strip()]
    fm = re.search(r"impl\s+From<&str>\s+for\s+DecType", pd)
    if not fm:
        raise ExtractError("parsing_data.rs: impl From<&str> for DecType not found")
    fbody = fn_body(pd, fm.end())
    if "match i.to_lowercase().as_str()" not in re.sub(r"\s+", " ", fbody):
        raise ExtractError("parsing_data.rs: DecType::from no longer matches on i.to_lowercase()")
    table = re.findall(r"\"([a-z]+)\"\s*=>\s*DecType::([A-Za-z]+)\s*,", fbody)
    fall = re.search(r"_\s*=>\s*([a-z_]+!?)", fbody)
    if not table or not fall:
        raise ExtractError("parsing_data.rs: DecType::from arms not recognised")
    fallthrough = fall.group(1)
    if fallthrough not in ("unimplemented!", "panic!", "unreachable!", "todo!"):
        raise ExtractError(f"parsing_data.rs: DecType::from fall-through `{fallthrough}` not modelled")
    for _, v in table:
        if v not in variants:
            raise ExtractError(f"parsing_data.rs: DecType::{v} is not a variant")
    rm = re.search(r"let\s+mut\s+req\s*=\s*vec!\[(.*?)\]", mp, flags=re.S)
    if not rm:
        raise ExtractError("machine_parser.rs: `let mut req = vec![..]` not found")
    req = re.findall(r"DecType::([A-Za-z]+)", rm.group(1))
    # texts are emitted as `List Char` literals (the model is over `List Char`; kernel evaluation
    # of `String.toList` is avoided)
    cl = lambda x: "[" + ", ".join("'%s'" % c for c in x) + "]"
    q = lambda xs: "[" + ", ".join(cl(x) for x in xs) + "]"
    lines = ["-- GENERATED from /repo sources by tools/extract.py on every check; do not edit",
             "namespace Elvis.Gen.Ndl",
             "/-- alternatives of `get_type`'s `alt((..))`, in source order -/",
             f"def tagAlt : List (List Char) := {q(tags)}  -- {' '.join(tags)}",
             "/-- the combinator applied to each alternative: nom's `tag_no_case` or the local `keyword` -/",
             f'def tagMatcher : String := "{matcher}"',
             "/-- variants of `enum DecType`, in source order -/",
             f"def decTypeVariants : List (List Char) := {q(variants)}",
             "/-- arms of `DecType::from` (`i.to_lowercase()` => variant); anything else hits the fall-through -/",
             "def decTypeTable : List (List Char × List Char) := [" + ", ".join("(%s, %s)" % (cl(k), cl(v)) for k, v in table) + "]",
             f'def decTypeFallthrough : String := "{fallthrough}"',
             "/-- sections `machine_parser` requires exactly once each -/",
             f"def machineRequired : List (List Char) := {q(req)}",
             "end Elvis.Gen.Ndl", ""]
    write_if_changed("NdlCert.lean", "\n".join(lines))


def gen_router_cert():
    """C16: TTL handling of `ArpRouter::demux` translated statement by statement into a Lean
    kernel, structural facts about the forwarding path (one send site, no loop, lookup by
    destination, next hop = gateway or destination, ARP on the outgoing slot), the default TTL of
    `Ipv4HeaderBuilder::new`, header constants and the ARP retry budget.  Fails closed."""
    path = os.path.join(ELVIS, "applications", "arp_router.rs")
    src = strip_comments(read(path))
    m = re.search(r"impl\s+Protocol\s+for\s+ArpRouter\s*\{", src)
    if not m:
        raise ExtractError("arp_router.rs: impl Protocol for ArpRouter not found")
    impl = fn_body(src, m.end() - 1)
    dm = re.search(r"fn\s+demux\s*\(", impl)
    if not dm:
        raise ExtractError("arp_router.rs: fn demux not found")
    body = fn_body(impl, impl.index("DemuxError>", dm.end()))
    flat = re.sub(r"\s+", " ", body)
    # the header copy that is modified and re-serialised (any variable name)
    mh = re.search(r"let mut (\w+) = \*control\.get::<Ipv4Header>\(\)\.ok_or\(DemuxError::Other\)\?;", flat)
    if not mh:
        raise ExtractError("arp_router.rs: demux no longer copies the Ipv4Header out of the control block in the recognised form")
    var = mh.group(1)
    ser = flat.find(var + ".serialize()", mh.end())
    if ser < 0:
        raise ExtractError("arp_router.rs: demux no longer re-serialises the header")
    # the TTL zone ends where the statement containing `.serialize()` starts
    zone_end = max(flat.rfind(";", mh.end() - 1, ser), flat.rfind("}", mh.end() - 1, ser)) + 1
    ttl_part = flat[mh.end():zone_end].strip()
    V = re.escape(var)
    # statement grammar of the TTL handling
    stmts = []
    rest = ttl_part
    while rest:
        m0 = re.match(r"tracing::\w+!\([^;]*\); ?", rest)
        m1 = re.match(V + r"\.time_to_live -= (\d+); ?", rest) or re.match(V + r"\.time_to_live = " + V + r"\.time_to_live - (\d+); ?", rest)
        m2 = re.match(r"if " + V + r"\.time_to_live (==|<=|<) (\d+) \{ (?:tracing::\w+!\([^;]*\); )?return Ok\(\(\)\); \} ?", rest)
        m3 = re.match(V + r"\.time_to_live = " + V + r"\.time_to_live\.(saturating_sub|wrapping_sub)\((\d+)\); ?", rest)
        if m0:
            rest = rest[m0.end():]
        elif m1:
            stmts.append(("sub", int(m1.group(1))))
            rest = rest[m1.end():]
        elif m2:
            stmts.append(("drop", m2.group(1), int(m2.group(2))))
            rest = rest[m2.end():]
        elif m3:
            stmts.append((m3.group(1), int(m3.group(2))))
            rest = rest[m3.end():]
        else:
            raise ExtractError("arp_router.rs: TTL handling of ArpRouter::demux is outside the translatable statement grammar: `%s`" % rest[:120])
    lean_lines = []
    for st in stmts:
        if st[0] == "sub":
            lean_lines.append(f'  if ttl < {st[1]} then .error "panic:sub:ArpRouter::demux:time_to_live" else')
            lean_lines.append(f"  let ttl := ttl - {st[1]}")
        elif st[0] == "saturating_sub":
            lean_lines.append(f"  let ttl := ttl - {st[1]}")
        elif st[0] == "wrapping_sub":
            lean_lines.append(f"  let ttl := (ttl + 256 - {st[1]} % 256) % 256")
        else:
            op = {"==": "==", "<=": "≤", "<": "<"}[st[1]]
            cond = f"ttl == {st[2]}" if st[1] == "==" else f"decide (ttl {op} {st[2]})"
            lean_lines.append(f"  if {cond} then .ok none else")
    lean_lines.append("  .ok (some ttl)")
    after = flat[zone_end:]
    loops = len(re.findall(r"\b(for|while|loop)\b", flat))
    sends = flat.count("send_pci(")
    spawns = flat.count("tokio::spawn(")
    # structural facts, tolerant of local renames
    by_dest = bool(re.search(r"\.get_recipient\(\s*" + V + r"\.destination\s*\)", after))
    gw_or_dest = bool(re.search(r"match (\w+)\.0 \{ Some\((\w+)\) => \2, None => " + V + r"\.destination,? \}", after)) \
        or bool(re.search(r"\w+\.0\.unwrap_or\(\s*" + V + r"\.destination\s*\)", after))
    mres = re.findall(r"\.resolve\(\s*\w+\s*,\s*(\w+)\s*,", after)
    mopen = re.findall(r"\.open\(\s*(\w+)\s*\)", after)
    msend = re.findall(r"\.send_pci\(\s*\w+\s*,\s*Some\(\s*\w+\s*\)\s*,\s*TypeId::of::<Ipv4>\(\)\s*\)", after)
    mloc = re.findall(r"local: self\.local_ips\[(\w+) as usize\]", after)
    arp_on_slot = len(mres) == 1 and len(mopen) == 1 and len(msend) == 1 and len(mloc) == 1 and mres[0] == mopen[0] == mloc[0]
    start = re.sub(r"\s+", " ", fn_body(impl, impl.index("StartError>", re.search(r"async\s+fn\s+start\s*\(", impl).end())))
    wild = [pn for pn, name in ((6, "TCP"), (17, "UDP"))
            if re.search(r"ipv4\.listen\( self\.id\(\), Ipv4Address::CURRENT_NETWORK, machine(\.clone\(\))?, ProtocolNumber::%s, \)" % name, start)]
    arp_listens = "for ip in self.local_ips.iter() { arp.listen(*ip); }" in start
    # Ipv4 header constants and default TTL
    prs = strip_comments(read(os.path.join(CORE, "protocols", "ipv4", "ipv4_parsing.rs")))
    mw = re.search(r"const BASE_WORDS: u8 = (\d+);", prs)
    mo = re.search(r"const BASE_OCTETS: u16 = BASE_WORDS as u16 \* (\d+);", prs)
    mf = re.search(r"const FRAGMENT_OFFSET_MASK: u16 = (0x[0-9a-fA-F_]+|\d+);", prs)
    nb = re.search(r"pub fn new\( source: Ipv4Address, destination: Ipv4Address, protocol: u8, payload_length: u16, \) -> Self \{ Self \{(.*?)\} \}", re.sub(r"\s+", " ", prs))
    mt = nb and re.search(r"time_to_live: (\d+),", nb.group(1))
    ser = "payload_length: self.total_length - BASE_OCTETS," in re.sub(r"\s+", " ", prs)
    dec_short = bool(re.search(r"let total_length = bytes\.next_u16_be\(\)\.ok_or\(HTS\)\?; if total_length < ihl as u16 \* 4 \{ Err\(ParseError::\w+\)\? \}", re.sub(r"\s+", " ", prs)))
    if not (mw and mo and mf and mt):
        raise ExtractError("ipv4_parsing.rs: BASE_WORDS / BASE_OCTETS / FRAGMENT_OFFSET_MASK / default time_to_live not found")
    arp = strip_comments(read(os.path.join(CORE, "protocols", "arp.rs")))
    mr = re.search(r"pub const RESEND_TRIES: u32 = (\d+);", arp)
    md = re.search(r"pub const RESEND_DELAY: Duration = Duration::from_millis\((\d+)\);", arp)
    if not (mr and md):
        raise ExtractError("arp.rs: RESEND_TRIES / RESEND_DELAY not found")
    b = lambda x: "true" if x else "false"
    lines = ["-- GENERATED from /repo sources by tools/extract.py on every check; do not edit",
             "namespace Elvis.Gen",
             "/-- TTL handling of `ArpRouter::demux`, statement by statement (dev profile: checked `-=`):",
             "    `.error` = panic, `.ok none` = `return Ok(())` (datagram dropped), `.ok (some t)` = forwarded with TTL t.",
             "    Source statements: " + "; ".join(" ".join(str(x) for x in st) for st in stmts) + " -/",
             "def routerTtlKernel (ttl : Nat) : Except String (Option Nat) :="] + lean_lines + ["",
             f"def routerDemuxSendSites : Nat := {sends}",
             f"def routerDemuxSpawns : Nat := {spawns}",
             f"def routerDemuxLoops : Nat := {loops}",
             f"def routerLooksUpDestination : Bool := {b(by_dest)}",
             f"def routerNextHopGatewayOrDestination : Bool := {b(gw_or_dest)}",
             f"def routerArpOnOutgoingSlotOneSend : Bool := {b(arp_on_slot)}",
             f"def routerWildcardListens : List Nat := [{', '.join(str(x) for x in wild)}]",
             f"def routerArpListensLocalIps : Bool := {b(arp_listens)}",
             f"def ipv4DefaultTtl : Nat := {mt.group(1)}",
             f"def ipv4BaseOctets : Nat := {int(mw.group(1)) * int(mo.group(1))}",
             f"def ipv4FragmentOffsetMask : Nat := {int(mf.group(1).replace('_', ''), 0)}",
             f"def ipv4SerializeSubtractsBaseOctets : Bool := {b(ser)}",
             "/-- `Ipv4Header::from_bytes` rejects `total_length < ihl * 4` -/",
             f"def ipv4DecoderRejectsShortTotalLength : Bool := {b(dec_short)}",
             f"def arpResendTries : Nat := {mr.group(1)}",
             f"def arpResendDelayMs : Nat := {md.group(1)}",
             "end Elvis.Gen", ""]
    write_if_changed("RouterCert.lean", "\n".join(lines))


def gen_recv_cert():
    """C14 (drop at the failing layer): constants and literal sites of the receive path
    `PciSession::receive -> Ipv4::demux -> Udp::demux / Tcp::demux` -> Generated/RecvCert.lean.
    Fails closed: every error branch the composed model (Model/RecvPath.lean) mirrors must be there
    in one of the shapes named here."""
    P = os.path.join(CORE, "protocols")
    lines = ["-- GENERATED from protocols/{ipv4,udp,tcp}.rs, pci/pci_session.rs, message.rs by tools/extract.py; do not edit",
             "namespace Elvis.Gen.Recv"]

    def const(lean, value, doc):
        lines.append("/-- %s -/" % doc)
        lines.append("def %s : Nat := %d" % (lean, value))

    # ---- tcp.rs
    p = os.path.join(P, "tcp.rs")
    src = strip_comments(read(p))
    const("tcpDemuxStrip", _int(_one(r"message\.remove_front\((\w+)\);", src, "Tcp::demux header strip", p)),
          "`message.remove_front(N)` in `Tcp::demux`")
    _one(r"let ipv4_header = control\s*\.get::<Ipv4Header>\(\)\s*\.ok_or\(DemuxError::(MissingContext)\)\?;", src, "Tcp::demux missing IPv4 context", p)
    _one(r"TcpHeader::from_bytes\(\s*message\.iter\(\),\s*message\.len\(\),\s*ipv4_header\.source,\s*ipv4_header\.destination,\s*\)\s*\.map_err\(\|_\| DemuxError::(Header)\)\?;", src, "Tcp::demux decode failure -> DemuxError::Header", p)
    _one(r"address: Ipv4Address::(CURRENT_NETWORK),\s*port: endpoints\.local\.port,", src, "Tcp::demux wildcard listen key", p)
    _one(r"return Err\(DemuxError::(MissingSession)\)\?;", src, "Tcp::demux closed path result", p)
    if len(re.findall(r"\.map_err\(\|_\| DemuxError::Other\)\?;", src)) != 2:
        raise ExtractError("Tcp::demux: expected two reply sends mapped to DemuxError::Other")
    _one(r"\.ok_or\(DemuxError::(MissingProtocol)\(upstream\)\)\?", src, "Tcp::demux upstream of the listen binding", p)
    tcp_no = _int(_one(r"TCP = (\d+),", strip_comments(read(os.path.join(P, "ipv4.rs"))), "ProtocolNumber::TCP", p))
    const("ipv4ProtoTcp", tcp_no, "`ProtocolNumber::TCP`")
    # ---- udp.rs
    p = os.path.join(P, "udp.rs")
    src = strip_comments(read(p))
    _one(r"let ipv4_header = \*control\s*\.get::<Ipv4Header>\(\)\s*\.ok_or\(DemuxError::(MissingContext)\)\?;", src, "Udp::demux missing IPv4 context", p)
    _one(r"UdpHeader::from_bytes_ipv4\(\s*message\.iter\(\),\s*message\.len\(\),\s*ipv4_header\.source,\s*ipv4_header\.destination,\s*\) \{\s*Ok\(header\) => header,\s*Err\(e\) => \{\s*tracing::error!\(\"\{\}\", e\);\s*Err\(DemuxError::(Header)\)\?", src, "Udp::demux decode failure -> DemuxError::Header", p)
    # ---- ipv4.rs
    p = os.path.join(P, "ipv4.rs")
    src = strip_comments(read(p))
    _one(r"let header = match Ipv4Header::from_bytes\(message\.iter\(\)\) \{\s*Ok\(header\) => header,\s*Err\(e\) => \{\s*tracing::error!\(\"\{\}\", e\);\s*Err\(DemuxError::(Header)\)\?", src, "Ipv4::demux decode failure -> DemuxError::Header", p)
    const("fragGuardWord", _int(_one(r"let header_octets = header\.ihl as u32 \* (\w+);", src, "Ipv4::demux header_octets", p)),
          "`header.ihl as u32 * N` (fragment guard)")
    _one(r"let data_octets = header\.total_length as u32 (-) header_octets;", src, "Ipv4::demux data_octets", p)
    const("fragGuardUnit", _int(_one(r"if header\.fragment_offset as u32 \* (\w+) \+ data_octets > u16::MAX as u32 - header_octets \{", src, "Ipv4::demux fragment guard", p)),
          "`header.fragment_offset as u32 * N` (fragment guard)")
    _one(r"tracing::error!\(\"Fragment extends beyond the maximum datagram length\"\);\s*Err\(DemuxError::(Header)\)\?\s*\}", src, "Ipv4::demux fragment guard result", p)
    # fix F-C14-S3: a frame shorter than the total length is dropped, a longer one is cut there, before
    # the header goes into the control block and anything is handed up
    _one(r"if message\.len\(\) (<) header\.total_length as usize \{\s*tracing::error!\(\"[^\"]*\"\);\s*Err\(DemuxError::Header\)\?\s*\}", src, "Ipv4::demux frame shorter than the total length -> DemuxError::Header", p)
    _one(r"message\.(slice)\(\.\.header\.total_length as usize\);\s*control\.insert\(header\);\s*message\.remove_front\(header\.ihl as usize \* \w+\);", src, "Ipv4::demux cuts the frame at the total length", p)
    _one(r"let pci_demux_info = control\s*\.get::<pci::DemuxInfo>\(\)\s*\.ok_or\(DemuxError::(MissingContext)\)\?;", src, "Ipv4::demux link context", p)
    # ---- pci_session.rs: the link context is inserted before any protocol is called
    p = os.path.join(P, "pci", "pci_session.rs")
    src = strip_comments(read(p))
    _one(r"control\.insert\(pci_demux_info\);\s*let protocols = [^;]*;\s*let protocol = match protocols\.get\(delivery\.protocol\) \{\s*Some\(protocol\) => protocol,\s*None => \{[\s\S]{0,200}?Err\(ReceiveError::(Protocol)\(delivery\.protocol\)\)\?", src, "PciSession::receive protocol lookup", p)
    # ---- message.rs: what remove_front demands
    p = os.path.join(CORE, "message.rs")
    src = strip_comments(read(p))
    _one(r"pub fn remove_front\(&mut self, len: usize\) \{\s*assert!\(len (<=) self\.len\);", src, "Message::remove_front precondition", p)
    lines += ["end Elvis.Gen.Recv", ""]
    write_if_changed("RecvCert.lean", "\n".join(lines))


def main():
    check_message_immutability()
    gen_consts()
    gen_sim_cert()
    subnet_kernels()
    codec_extract()
    extract_codec_b()
    gen_arp()
    gen_socket_cert()
    gen_dns_cert()
    extract_tcb_consts()
    extract_modcmp_kernels()
    gen_ndl_cert()
    gen_router_cert()
    gen_recv_cert()


if __name__ == "__main__":
    try:
        main()
    except ExtractError as e:
        print("EXTRACT-ERROR:", e)
        sys.exit(1)
