import ElvisVerif.Lemmas.TcpFullHsBatch
/-!
# One exchange phase makes the handshake progress

`recv_trace`: in an exchange phase, everything side `x` emits is delivered to its peer `y` at some intermediate state
that satisfies the invariants.  `recv_low` (a side without TCB or in SYN-SENT whose peer is in SYN-SENT / SYN-RECEIVED
gets past SYN-SENT), `recv_sr` (SYN-RECEIVED with the peer in SYN-RECEIVED becomes ESTABLISHED), `recv_sr_es`
(SYN-RECEIVED with the peer ESTABLISHED becomes ESTABLISHED, or — when the peer has nothing at all to send — the peer ends
with an ACK on its one-shot queue).
-/
namespace Elvis.Tcp.Full
open Elvis.ModCmp Elvis.Tcp.Tcb

variable {iss : SideId → Seq} {mt : SideId → U16}

/-- what the phase does with the batch of side `x` -/
structure RecvT (iss : SideId → Seq) (mt : SideId → U16) (x : SideId) (P0 s' : Sys) : Prop where
  ex : ∃ (se : Sys) (out : List Segment), PlainRun P0 se ∧ All iss mt se ∧ se.side x = P0.side x ∧
    (∀ tp, (P0.side x.peer).tcb = some tp → ∃ tp', (se.side x.peer).tcb = some tp' ∧ tp'.state = tp.state) ∧
    (∀ tx, (P0.side x).tcb = some tx → ∃ tx', tx.segments = .ok (tx', out)) ∧
    (∀ σ ∈ out, ∃ sa sb i r, PlainRun P0 sa ∧ Good iss sa ∧ sa.nth i = some σ ∧ σ.hdr.srcPort = x.port ∧
      Op.Plain sa (.deliver x.peer i) ∧
      sa.step (.deliver x.peer i) = .ok (sb, r) ∧ Good iss sb ∧ PlainRun sb s' ∧ QuietRun iss sb s')

theorem recv_trace {P0 s' : Sys} (a : All iss mt P0) (t : PhaseT iss P0 s') (x : SideId) :
    RecvT iss mt x P0 s' := by
  obtain ⟨s1, s2, s3, s4, s5, outA, outB, tA, tB, p3, g3, hh3, hl3, hp3, tr3, p4, g4, hh4, hl4, hp4, tr4, t5, t6, q3, q4⟩ := t.ex
  have r45 : PlainRun s4 s' := t5.run.trans t6.run
  cases x with
  | A =>
    refine ⟨P0, outA, .refl _, a, rfl, fun tp htp => ⟨tp, htp, rfl⟩, fun tx htx => ?_, fun σ hσ => ?_⟩
    · obtain ⟨tx', e1, _⟩ := tA.tcb tx htx
      exact ⟨tx', e1⟩
    · obtain ⟨j, hj, rfl⟩ := List.getElem_of_mem hσ
      obtain ⟨sa, sb, r, q1, ga, ea, gb, q2, ha, hla, _, qq⟩ := (tr3 j hj).ex
      have hnth : sa.nth (P0.historyLen + j) = some outA[j] := by
        rw [nth_of_hist ha hla, tB.old _ (by rw [tA.len]; omega), tA.new j hj]
      exact ⟨sa, sb, P0.historyLen + j, r, (tA.run.trans tB.run).trans q1, ga, hnth,
        (tA.ports _ (List.getElem_mem hj)).1,
        (fun τ hτ => by rw [hnth] at hτ; cases hτ; exact tA.ports _ (List.getElem_mem hj)),
        ea, gb, (q2.trans p4).trans r45, qq.trans q3⟩
  | B =>
    have a1 : All iss mt s1 := all_run a tA.run tA.good.room
    refine ⟨s1, outB, tA.run, a1, tA.peer, fun tp htp => ?_, fun tx htx => ?_, fun σ hσ => ?_⟩
    · obtain ⟨tp', e1, h1⟩ := tA.tcb tp htp
      exact ⟨tp', h1, (segments_keep tp tp' outA e1).state⟩
    · have htx1 : (s1.side .B).tcb = some tx := by
        have : s1.side .B = P0.side .B := tA.peer
        rw [this]; exact htx
      obtain ⟨tx', e1, _⟩ := tB.tcb tx htx1
      exact ⟨tx', e1⟩
    · obtain ⟨j, hj, rfl⟩ := List.getElem_of_mem hσ
      obtain ⟨sa, sb, r, q1, ga, ea, gb, q2, ha, hla, _, qq⟩ := (tr4 j hj).ex
      have hnth : sa.nth (s1.historyLen + j) = some outB[j] := by
        rw [nth_of_hist ha hla, nth_of_hist hh3 hl3, tB.new j hj]
      exact ⟨sa, sb, s1.historyLen + j, r, ((tA.run.trans tB.run).trans p3).trans q1, ga, hnth,
        (tB.ports _ (List.getElem_mem hj)).1,
        (fun τ hτ => by rw [hnth] at hτ; cases hτ; exact tB.ports _ (List.getElem_mem hj)),
        ea, gb, q2.trans r45, qq.trans q4⟩

theorem stRank_le3 (st : State) : stRank st ≤ 3 := by cases st <;> decide

theorem rk_le3 (s : Sys) (x : SideId) : rk s x ≤ 3 := by
  unfold rk
  split
  · omega
  · exact stRank_le3 _

theorem state_of_rk {s : Sys} (hg : Good iss s) {x : SideId} {t : Tcb} (ht : (s.side x).tcb = some t) :
    (rk s x = 1 ↔ t.state = .SynSent) ∧ (rk s x = 2 ↔ t.state = .SynReceived) ∧ (rk s x = 3 ↔ t.state = .Established) := by
  rw [rk_some ht]
  rcases (hg.tinv x t ht).st.cases with h | h | h <;> rw [h] <;> simp [stRank]

/-- the rank of `y` after a delivery, carried to the end of the phase -/
theorem rk_to_end {sb s' : Sys} (gb : Good iss sb) (p : PlainRun sb s') (hs' : Good iss s') (y : SideId) (k : Nat)
    (h : k ≤ rk sb y) : k ≤ rk s' y := Nat.le_trans h (rk_mono_run gb p hs'.room y)

/-- **a side without TCB or in SYN-SENT whose peer is in SYN-SENT / SYN-RECEIVED gets past SYN-SENT** -/
theorem recv_low {P0 s' : Sys} (a : All iss mt P0) (hm : ∀ x, SPACE_FOR_HEADERS < (mt x).toNat) (hs' : Good iss s')
    (x : SideId) (T : RecvT iss mt x P0 s') (tx : Tcb) (htx : (P0.side x).tcb = some tx)
    (hst : tx.state = .SynSent ∨ tx.state = .SynReceived)
    (hflag : ∀ tr ∈ tx.outgoing.retransmit, tr.needsTransmit = true) : 2 ≤ rk s' x.peer := by
  obtain ⟨se, out, pe, ae, hse, _, hseg, htr⟩ := T.ex
  obtain ⟨tx', es⟩ := hseg tx htx
  obtain ⟨σ, hσ, hsyn⟩ := (batch_syn ae hm x tx tx' out (by rw [hse]; exact htx) es hflag).1 hst
  obtain ⟨sa, sb, i, r, pa, ga, hn, hsrc, hpl, ea, gb, pb, _⟩ := htr σ hσ
  have aa : All iss mt sa := all_run a pa ga.room
  have hsrc' : σ.hdr.srcPort = x.peer.peer.port := by rw [SideId.peer_peer]; exact hsrc
  refine rk_to_end gb pb hs' x.peer 2 ?_
  cases hy : (sa.side x.peer).tcb with
  | none => rw [deliver_listen aa x.peer i σ hy hn hsrc' hsyn ea]; exact Nat.le_refl _
  | some t =>
    rcases (ga.tinv x.peer t hy).st.cases with h | h | h
    · exact deliver_ss aa x.peer i σ t hy h hn hsrc' hsyn ea gb
    · have : 2 ≤ rk sa x.peer := by rw [rk_some hy, h]; decide
      exact Nat.le_trans this (rk_mono_step sa ga _ hpl sb r ea gb x.peer)
    · have : 2 ≤ rk sa x.peer := by rw [rk_some hy, h]; decide
      exact Nat.le_trans this (rk_mono_step sa ga _ hpl sb r ea gb x.peer)

/-- a trigger in the batch of `x` makes the peer (in SYN-RECEIVED or beyond at the start) ESTABLISHED -/
theorem recv_trig {P0 s' : Sys} (a : All iss mt P0) (hs' : Good iss s') (x : SideId) (out : List Segment)
    (htr : ∀ σ ∈ out, ∃ sa sb i r, PlainRun P0 sa ∧ Good iss sa ∧ sa.nth i = some σ ∧ σ.hdr.srcPort = x.port ∧
      Op.Plain sa (.deliver x.peer i) ∧
      sa.step (.deliver x.peer i) = .ok (sb, r) ∧ Good iss sb ∧ PlainRun sb s' ∧ QuietRun iss sb s')
    (σ : Segment) (hσ : σ ∈ out) (ht : Trig (iss x) σ) (h2 : 2 ≤ rk P0 x.peer) : 3 ≤ rk s' x.peer := by
  obtain ⟨sa, sb, i, r, pa, ga, hn, hsrc, hpl, ea, gb, pb, _⟩ := htr σ hσ
  have aa : All iss mt sa := all_run a pa ga.room
  have hsrc' : σ.hdr.srcPort = x.peer.peer.port := by rw [SideId.peer_peer]; exact hsrc
  refine rk_to_end gb pb hs' x.peer 3 ?_
  have h2a : 2 ≤ rk sa x.peer := Nat.le_trans h2 (rk_mono_run a.good pa ga.room x.peer)
  cases hy : (sa.side x.peer).tcb with
  | none => rw [rk_none hy] at h2a; omega
  | some t =>
    rcases (ga.tinv x.peer t hy).st.cases with h | h | h
    · rw [rk_some hy, h] at h2a
      have h1 : stRank State.SynSent = 1 := rfl
      omega
    · have := deliver_sr aa x.peer i σ t hy h hn hsrc' (by rw [SideId.peer_peer]; exact ht) ea gb
      omega
    · have : 3 ≤ rk sa x.peer := by rw [rk_some hy, h]; decide
      exact Nat.le_trans this (rk_mono_step sa ga _ hpl sb r ea gb x.peer)

/-- **SYN-RECEIVED with the peer in SYN-RECEIVED becomes ESTABLISHED** -/
theorem recv_sr {P0 s' : Sys} (a : All iss mt P0) (hm : ∀ x, SPACE_FOR_HEADERS < (mt x).toNat) (hs' : Good iss s')
    (x : SideId) (T : RecvT iss mt x P0 s') (tx : Tcb) (htx : (P0.side x).tcb = some tx)
    (hst : tx.state = .SynReceived) (hflag : ∀ tr ∈ tx.outgoing.retransmit, tr.needsTransmit = true)
    (h2 : 2 ≤ rk P0 x.peer) : 3 ≤ rk s' x.peer := by
  obtain ⟨se, out, pe, ae, hse, _, hseg, htr⟩ := T.ex
  obtain ⟨tx', es⟩ := hseg tx htx
  obtain ⟨σ, hσ, ht⟩ := (batch_syn ae hm x tx tx' out (by rw [hse]; exact htx) es hflag).2 hst
  exact recv_trig a hs' x out htr σ hσ ht h2

/-- **SYN-RECEIVED with the peer ESTABLISHED**: ESTABLISHED after the phase, or the peer had nothing at all to send and ends
    the phase with an ACK on its one-shot queue -/
theorem recv_sr_es {P0 s' : Sys} (a : All iss mt P0) (hm : ∀ x, SPACE_FOR_HEADERS < (mt x).toNat) (hs' : Good iss s')
    (x : SideId) (T : RecvT iss mt x P0 s') (T' : RecvT iss mt x.peer P0 s') (tx ty : Tcb)
    (htx : (P0.side x).tcb = some tx) (hty : (P0.side x.peer).tcb = some ty)
    (hst : tx.state = .Established) (hsty : ty.state = .SynReceived)
    (hflag : ∀ tr ∈ tx.outgoing.retransmit, tr.needsTransmit = true)
    (hflagy : ∀ tr ∈ ty.outgoing.retransmit, tr.needsTransmit = true) :
    3 ≤ rk s' x.peer ∨ (tx.outgoing.oneshot = [] ∧ NE s' x) := by
  obtain ⟨se, out, pe, ae, hse, hpeer, hseg, htr⟩ := T.ex
  obtain ⟨tx', es⟩ := hseg tx htx
  have h2 : 2 ≤ rk P0 x.peer := by rw [rk_some hty, hsty]; decide
  by_cases hout : out = []
  · right
    have htxe : (se.side x).tcb = some tx := by rw [hse]; exact htx
    obtain ⟨new, fx⟩ := emitFx_of_segments ae hm x tx tx' out htxe es
    have ho : tx.outgoing.oneshot = [] := by
      have := fx.out
      rw [hout] at this
      have := (List.append_eq_nil_iff.1 this.symm).1
      exact List.map_eq_nil_iff.1 this
    refine ⟨ho, ?_⟩
    -- the peer's SYN-ACK reaches `x`
    obtain ⟨se', out', _, ae', hse', _, hseg', htr'⟩ := T'.ex
    obtain ⟨ty', es'⟩ := hseg' ty hty
    obtain ⟨σ, hσ, hsyn⟩ := (batch_syn ae' hm x.peer ty ty' out' (by rw [hse']; exact hty) es' hflagy).1 (Or.inr hsty)
    obtain ⟨sa, sb, i, r, pa, ga, hn, hsrc, hpl, ea, gb, pb, qq⟩ := htr' σ hσ
    have aa : All iss mt sa := all_run a pa ga.room
    rw [SideId.peer_peer] at ea hpl
    have h3 : 3 ≤ rk sa x := by
      have : rk P0 x = 3 := by rw [rk_some htx, hst]; rfl
      exact Nat.le_trans (by omega) (rk_mono_run a.good pa ga.room x)
    cases hx : (sa.side x).tcb with
    | none => rw [rk_none hx] at h3; omega
    | some t =>
      have hes : t.state = .Established := ((state_of_rk ga hx).2.2).1 (by have := rk_le3 sa x; omega)
      exact ne_quiet qq x (deliver_es_syn aa x i σ t hx hes hn hsrc hsyn ea gb)
  · left
    obtain ⟨tp', htp', hstp'⟩ := hpeer ty hty
    obtain ⟨σ, hσ, ht⟩ := batch_trig ae hm x tx tp' tx' out (by rw [hse]; exact htx) htp' hst (by rw [hstp']; exact hsty)
      es hflag hout
    exact recv_trig a hs' x out htr σ hσ ht h2

/-! ## the measure -/

/-- an ESTABLISHED side whose peer is in SYN-RECEIVED has something on its one-shot queue -/
def fX (t u : Tcb) : Bool :=
  t.state == .Established && u.state == .SynReceived && !t.outgoing.oneshot.isEmpty

def fB (s : Sys) : Bool :=
  match s.a.tcb, s.b.tcb with
  | some ta, some tb => fX ta tb || fX tb ta
  | _, _ => false

theorem fB_true {s : Sys} (x : SideId) (t u : Tcb) (ht : (s.side x).tcb = some t) (hu : (s.side x.peer).tcb = some u)
    (h1 : t.state = .Established) (h2 : u.state = .SynReceived) (h3 : t.outgoing.oneshot ≠ []) : fB s = true := by
  have hf : fX t u = true := by
    unfold fX
    rw [h1, h2]
    cases ho : t.outgoing.oneshot with
    | nil => exact absurd ho h3
    | cons a l => rfl
  cases x with
  | A =>
    have ha : s.a.tcb = some t := ht
    have hb : s.b.tcb = some u := hu
    unfold fB; rw [ha, hb]; simp [hf]
  | B =>
    have hb : s.b.tcb = some t := ht
    have ha : s.a.tcb = some u := hu
    unfold fB; rw [ha, hb]; simp [hf]

theorem fB_false {s : Sys} (x : SideId) (t u : Tcb) (ht : (s.side x).tcb = some t) (hu : (s.side x.peer).tcb = some u)
    (h1 : t.state = .Established) (h2 : u.state = .SynReceived) (h3 : t.outgoing.oneshot = []) : fB s = false := by
  have hf : fX t u = false := by unfold fX; rw [h3]; simp
  have hf' : fX u t = false := by unfold fX; rw [h2]; simp
  cases x with
  | A =>
    have ha : s.a.tcb = some t := ht
    have hb : s.b.tcb = some u := hu
    unfold fB; rw [ha, hb]; simp [hf, hf']
  | B =>
    have hb : s.b.tcb = some t := ht
    have ha : s.a.tcb = some u := hu
    unfold fB; rw [ha, hb]; simp [hf, hf']

def meas (s : Sys) : Nat := 2 * (6 - (rk s .A + rk s .B)) + (if fB s then 0 else 1)

/-- an ESTABLISHED side's peer is not in SYN-SENT -/
theorem es_peer_not_ss {s : Sys} (a : All iss mt s) (x : SideId) (t u : Tcb) (ht : (s.side x).tcb = some t)
    (hu : (s.side x.peer).tcb = some u) (hst : t.state = .Established) : u.state ≠ .SynSent := by
  intro hs
  have hA := a.good.conv.full.ack x
  unfold AckLink at hA
  rw [ht, hu] at hA
  have h1 := hA.una t u rfl rfl
  rw [top_of_synSent hs, a.good.iss_eq x t ht] at h1
  have := a.u x t ht hst
  omega

/-- **one exchange phase after both timers expired makes the handshake progress** -/
theorem phase_progress {P0 s' : Sys} (a : All iss mt P0) (hm : ∀ x, SPACE_FOR_HEADERS < (mt x).toNat) (hs' : Good iss s')
    (T : PhaseT iss P0 s') (pr : PlainRun P0 s')
    (hflag : ∀ z t, (P0.side z).tcb = some t → ∀ tr ∈ t.outgoing.retransmit, tr.needsTransmit = true)
    (hne : ¬ (rk P0 .A = 3 ∧ rk P0 .B = 3)) :
    rk P0 .A + rk P0 .B < rk s' .A + rk s' .B ∨ (fB P0 = false ∧ fB s' = true) := by
  have hg := a.good
  have monoA := rk_mono_run hg pr hs'.room .A
  have monoB := rk_mono_run hg pr hs'.room .B
  have TA := recv_trace a T .A
  have TB := recv_trace a T .B
  -- A always has a TCB
  obtain ⟨ta, hta⟩ : ∃ ta, (P0.side .A).tcb = some ta := by
    rcases hg.conv.nr.alive .A with h | h
    · exact Option.isSome_iff_exists.1 h
    · have : P0.a.listen.isSome = true := h
      rw [hg.conv.full.inv.noListenA] at this; cases this
  have h3a := (hg.tinv .A ta hta).st
  -- general step: `y` gains rank
  have gain : ∀ y : SideId, rk P0 y < rk s' y → rk P0 .A + rk P0 .B < rk s' .A + rk s' .B := by
    intro y hy
    cases y <;> omega
  cases htb : (P0.side .B).tcb with
  | none =>
    -- B only listens: A is in SYN-SENT
    have hlis : (P0.side .B).listen.isSome = true := by
      rcases hg.conv.nr.alive .B with h | h
      · rw [htb] at h; cases h
      · exact h
    have hss := ((hg.conv.full.inv.link .B).fresh htb hlis).2 ta hta
    have := recv_low a hm hs' .A TA ta hta (Or.inl hss.1) (hflag .A ta hta)
    left
    refine gain .B ?_
    have h0 : rk P0 .B = 0 := rk_none htb
    have : 2 ≤ rk s' .B := this
    omega
  | some tb =>
    have h3b := (hg.tinv .B tb htb).st
    rcases h3a.cases with sa | sa | sa
    · -- A in SYN-SENT: B is not ESTABLISHED
      have hb : tb.state = .SynSent ∨ tb.state = .SynReceived := by
        rcases h3b.cases with h | h | h
        · exact Or.inl h
        · exact Or.inr h
        · exact absurd sa (es_peer_not_ss a .B tb ta htb hta h)
      have := recv_low a hm hs' .B TB tb htb hb (hflag .B tb htb)
      left
      refine gain .A ?_
      have h1 : rk P0 .A = 1 := by rw [rk_some hta, sa]; rfl
      have : 2 ≤ rk s' .A := this
      omega
    · rcases h3b.cases with sb | sb | sb
      · -- B in SYN-SENT, A in SYN-RECEIVED
        have := recv_low a hm hs' .A TA ta hta (Or.inr sa) (hflag .A ta hta)
        left
        refine gain .B ?_
        have h1 : rk P0 .B = 1 := by rw [rk_some htb, sb]; rfl
        have : 2 ≤ rk s' .B := this
        omega
      · -- both in SYN-RECEIVED
        have := recv_sr a hm hs' .A TA ta hta sa (hflag .A ta hta) (by
          show 2 ≤ rk P0 .B
          rw [rk_some htb, sb]; decide)
        left
        refine gain .B ?_
        have h1 : rk P0 .B = 2 := by rw [rk_some htb, sb]; rfl
        have : 3 ≤ rk s' .B := this
        omega
      · -- A in SYN-RECEIVED, B ESTABLISHED
        have h2 : rk P0 .A = 2 := by rw [rk_some hta, sa]; rfl
        rcases recv_sr_es a hm hs' .B TB TA tb ta htb hta sb sa (hflag .B tb htb) (hflag .A ta hta) with h | ⟨ho, hne'⟩
        · left
          refine gain .A ?_
          have : 3 ≤ rk s' .A := h
          omega
        · by_cases hA3 : 3 ≤ rk s' .A
          · left; exact gain .A (by omega)
          · right
            refine ⟨fB_false .B tb ta htb hta sb sa ho, ?_⟩
            obtain ⟨tb', htb', hneb⟩ := hne'
            have hB3 : rk s' .B = 3 := by
              have : rk P0 .B = 3 := by rw [rk_some htb, sb]; rfl
              have := rk_le3 s' .B
              omega
            have hA2 : rk s' .A = 2 := by omega
            cases hta' : (s'.side .A).tcb with
            | none => rw [rk_none hta'] at hA2; omega
            | some ta' =>
              exact fB_true .B tb' ta' htb' hta' (((state_of_rk hs' htb').2.2).1 hB3)
                (((state_of_rk hs' hta').2.1).1 hA2) hneb
    · rcases h3b.cases with sb | sb | sb
      · exact absurd sb (es_peer_not_ss a .A ta tb hta htb sa)
      · -- A ESTABLISHED, B in SYN-RECEIVED
        have h2 : rk P0 .B = 2 := by rw [rk_some htb, sb]; rfl
        rcases recv_sr_es a hm hs' .A TA TB ta tb hta htb sa sb (hflag .A ta hta) (hflag .B tb htb) with h | ⟨ho, hne'⟩
        · left
          refine gain .B ?_
          have : 3 ≤ rk s' .B := h
          omega
        · by_cases hB3 : 3 ≤ rk s' .B
          · left; exact gain .B (by omega)
          · right
            refine ⟨fB_false .A ta tb hta htb sa sb ho, ?_⟩
            obtain ⟨ta', hta', hnea⟩ := hne'
            have hA3 : rk s' .A = 3 := by
              have : rk P0 .A = 3 := by rw [rk_some hta, sa]; rfl
              have := rk_le3 s' .A
              omega
            have hB2 : rk s' .B = 2 := by omega
            cases htb' : (s'.side .B).tcb with
            | none => rw [rk_none htb'] at hB2; omega
            | some tb' =>
              exact fB_true .A ta' tb' hta' htb' (((state_of_rk hs' hta').2.2).1 hA3)
                (((state_of_rk hs' htb').2.1).1 hB2) hnea
      · exfalso
        apply hne
        exact ⟨by rw [rk_some hta, sa]; rfl, by rw [rk_some htb, sb]; rfl⟩

/-! ## the fair round and the induction -/

theorem fX_congr {t t1 u u1 : Tcb} (h1 : t1.state = t.state) (h2 : t1.outgoing.oneshot = t.outgoing.oneshot)
    (h3 : u1.state = u.state) : fX t1 u1 = fX t u := by
  unfold fX; rw [h1, h2, h3]

/-- a tick changes neither the ranks nor the flag -/
theorem tick_meas {x : SideId} {s s1 : Sys} (T : TickT iss x s s1) :
    fB s1 = fB s ∧ ∀ z, rk s1 z = rk s z := by
  cases ht : (s.side x).tcb with
  | none =>
    rw [T.none ht]
    exact ⟨rfl, fun _ => rfl⟩
  | some t =>
    obtain ⟨t1, ht1, k⟩ := T.tcb t ht
    have hp := T.peer
    refine ⟨?_, fun z => ?_⟩
    · cases x with
      | A =>
        have e1 : s1.a.tcb = some t1 := ht1
        have e0 : s.a.tcb = some t := ht
        have eb : s1.b = s.b := hp
        unfold fB
        rw [e1, e0, eb]
        cases s.b.tcb with
        | none => rfl
        | some u =>
          dsimp only
          rw [fX_congr k.st k.one rfl, fX_congr (t := u) (t1 := u) rfl rfl k.st]
      | B =>
        have e1 : s1.b.tcb = some t1 := ht1
        have e0 : s.b.tcb = some t := ht
        have ea : s1.a = s.a := hp
        unfold fB
        rw [e1, e0, ea]
        cases s.a.tcb with
        | none => rfl
        | some u =>
          dsimp only
          rw [fX_congr k.st k.one rfl, fX_congr (t := u) (t1 := u) rfl rfl k.st]
    · rcases side_cases x z with rfl | rfl
      · rw [rk_some ht1, rk_some ht, k.st]
      · exact rk_congr hp

/-- **one fair round of one phase makes the handshake progress** -/
theorem fair1_progress (s : Sys) (a : All iss mt s) (hm : ∀ x, SPACE_FOR_HEADERS < (mt x).toNat) :
    ∃ s', fairRound 1 s = .ok s' ∧ PlainRun s s' ∧ All iss mt s' ∧ (∀ y, (s'.side y).submitted = (s.side y).submitted) ∧
      ((rk s .A = 3 ∧ rk s .B = 3) ∨ meas s' < meas s) := by
  obtain ⟨s1, r1, e1, t1⟩ := tick_any s a.good a.f .A
  have a1 : All iss mt s1 := all_run a t1.run t1.good.room
  obtain ⟨s2, r2, e2, t2⟩ := tick_any s1 a1.good a1.f .B
  have a2 : All iss mt s2 := all_run a1 t2.run t2.good.room
  obtain ⟨s', e3, p3, g3, sub3, T⟩ := phase_any s2 a2.good
  have pr := (t1.run.trans t2.run).trans p3
  have a' : All iss mt s' := all_run a pr g3.room
  refine ⟨s', ?_, pr, a', fun y => by rw [sub3, t2.sub, t1.sub], ?_⟩
  · unfold fairRound
    rw [e1]
    dsimp only
    rw [e2]
    simp only [phases, e3]
  · by_cases hne : rk s .A = 3 ∧ rk s .B = 3
    · exact Or.inl hne
    · right
      obtain ⟨f1, k1⟩ := tick_meas t1
      obtain ⟨f2, k2⟩ := tick_meas t2
      have hne2 : ¬ (rk s2 .A = 3 ∧ rk s2 .B = 3) := by rw [k2, k2, k1, k1]; exact hne
      -- after the ticks every queue entry is flagged
      have hflag : ∀ z t, (s2.side z).tcb = some t → ∀ tr ∈ t.outgoing.retransmit, tr.needsTransmit = true := by
        intro z t hz tr htr
        have key : ∀ (t0 t1' : Tcb), Flagged t0 t1' → ∀ tr ∈ t1'.outgoing.retransmit, tr.needsTransmit = true := by
          intro t0 t1' k tr htr
          rw [k.rtx] at htr
          obtain ⟨x0, _, rfl⟩ := List.mem_map.1 htr
          rfl
        cases z with
        | A =>
          have hpa : s2.side .A = s1.side .A := t2.peer
          rw [hpa] at hz
          cases h0 : (s.side .A).tcb with
          | none =>
            have := t1.none h0
            rw [this, h0] at hz; cases hz
          | some t0 =>
            obtain ⟨t1', h1', k⟩ := t1.tcb t0 h0
            rw [h1'] at hz; cases hz
            exact key t0 t k tr htr
        | B =>
          cases h0 : (s1.side .B).tcb with
          | none =>
            have := t2.none h0
            rw [this, h0] at hz; cases hz
          | some t0 =>
            obtain ⟨t1', h1', k⟩ := t2.tcb t0 h0
            rw [h1'] at hz; cases hz
            exact key t0 t k tr htr
      have hA := rk_le3 s' .A
      have hB := rk_le3 s' .B
      have mA := rk_mono_run a2.good p3 g3.room .A
      have mB := rk_mono_run a2.good p3 g3.room .B
      have hm2 : meas s2 = meas s := by unfold meas; rw [f2, f1, k2, k2, k1, k1]
      rw [← hm2]
      rcases phase_progress a2 hm g3 T p3 hflag hne2 with h | ⟨h1, h2⟩
      · unfold meas
        split <;> split <;> omega
      · unfold meas
        rw [h1, h2]
        simp only [if_true, Bool.false_eq_true, if_false]
        omega

/-- **the handshake completes**: from every state satisfying the invariants some fair rounds (at most `meas s` rounds
    of one phase each) lead to a state in which both endpoints are ESTABLISHED -/
theorem handshake_rounds (hm : ∀ x, SPACE_FOR_HEADERS < (mt x).toNat) (n : Nat) : ∀ (s : Sys), All iss mt s → meas s ≤ n →
    ∃ (rounds : List Nat) (s1 : Sys), rounds.foldlM (fun st k => fairRound k st) s = .ok s1 ∧ PlainRun s s1 ∧
      All iss mt s1 ∧ rk s1 .A = 3 ∧ rk s1 .B = 3 ∧ (∀ y, (s1.side y).submitted = (s.side y).submitted) ∧
      rounds.length ≤ n ∧ (∀ k ∈ rounds, k = 1) := by
  induction n with
  | zero =>
    intro s a hn
    have hA := rk_le3 s .A
    have hB := rk_le3 s .B
    have : rk s .A = 3 ∧ rk s .B = 3 := by
      unfold meas at hn
      split at hn <;> omega
    exact ⟨[], s, rfl, .refl _, a, this.1, this.2, fun _ => rfl, Nat.le_refl _, fun k hk => by cases hk⟩
  | succ n ih =>
    intro s a hn
    obtain ⟨s', e1, p1, a', sub1, hpr⟩ := fair1_progress s a hm
    rcases hpr with ⟨h1, h2⟩ | hlt
    · exact ⟨[], s, rfl, .refl _, a, h1, h2, fun _ => rfl, Nat.zero_le _, fun k hk => by cases hk⟩
    · obtain ⟨rounds, s1, e2, p2, a1, h1, h2, sub2, hl, hone⟩ := ih s' a' (by omega)
      refine ⟨1 :: rounds, s1, ?_, p1.trans p2, a1, h1, h2, fun y => (sub2 y).trans (sub1 y), by simp; omega,
        fun k hk => ?_⟩
      rotate_left
      · rcases List.mem_cons.1 hk with rfl | hk
        · rfl
        · exact hone k hk
      simp only [List.foldlM, e1, bind, Except.bind]
      exact e2

end Elvis.Tcp.Full
