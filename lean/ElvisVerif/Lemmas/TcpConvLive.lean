import ElvisVerif.Lemmas.TcpAckLocal
import ElvisVerif.Lemmas.TcbWindow
import ElvisVerif.Lemmas.C01Inv
/-!
# The retransmission queue holds only what is still unacknowledged

`KeepOk s`: every entry of the retransmission queue occupies sequence space (`SEG.LEN > 0`) and
passes the retention test of `remove_acked_from_retransmission` against the current `SND.UNA`
(`mod_lt(SND.UNA, SEG.SEQ + SEG.LEN)`).  So when everything is acknowledged (`SND.UNA = SND.NXT`)
the queue is empty (`keepOk_empty`) — nothing is ever retransmitted again.

Kept by every block of `process_segment` (the only arithmetic: the SYN,ACK of a simultaneous open
sits at `ISS` with `SND.UNA = ISS`, from `Early`), by `segment_arrives` and the local calls; new data
and the FIN are numbered at `SND.NXT >= SND.UNA` (`keep_new`, offsets below 2^31).
-/
namespace Elvis.Tcp
open Elvis.ModCmp
namespace Tcb

def KeepOk (s : Tcb) : Prop :=
  ∀ tr ∈ s.outgoing.retransmit, 0 < tr.segment.segLen ∧ keepFor s.snd.una tr = true

/-- same `SND.UNA`, same segments on the queue (flags may differ) -/
theorem KeepOk.congr {s s' : Tcb} (h : KeepOk s) (h1 : s'.snd.una = s.snd.una)
    (h2 : ∀ tr ∈ s'.outgoing.retransmit, ∃ t0 ∈ s.outgoing.retransmit, t0.segment = tr.segment) : KeepOk s' := by
  intro tr htr
  obtain ⟨t0, h0, e⟩ := h2 tr htr
  have := h t0 h0
  unfold keepFor at this ⊢
  rw [h1, ← e]
  exact this

theorem KeepOk.of_eq {s s' : Tcb} (h : KeepOk s) (h1 : s'.snd.una = s.snd.una)
    (h2 : s'.outgoing.retransmit = s.outgoing.retransmit) : KeepOk s' :=
  h.congr h1 (fun tr htr => ⟨tr, h2 ▸ htr, rfl⟩)

/-- a header without SYN and FIN goes to the one-shot queue -/
theorem keepOk_enqueue_plain {s : Tcb} (h : KeepOk s) (hd : Hdr) (hs : hd.ctl.syn = false) (hf : hd.ctl.fin = false) :
    KeepOk (s.enqueueBuilt hd) := by
  unfold enqueueBuilt
  rw [if_neg (by simp [hs, hf])]
  exact h.of_eq rfl rfl

/-- a SYN or FIN whose end is beyond `SND.UNA` -/
theorem keepOk_enqueue_ctl {s : Tcb} (h : KeepOk s) (hd : Hdr) (hsf : (hd.ctl.syn || hd.ctl.fin) = true)
    (hk : modLt s.snd.una (hd.seq + BitVec.ofNat 32 (Segment.segLen ⟨hd, []⟩)) = true) :
    KeepOk (s.enqueueBuilt hd) := by
  unfold enqueueBuilt
  rw [if_pos hsf]
  intro tr htr
  simp only [List.mem_append, List.mem_singleton] at htr
  rcases htr with htr | rfl
  · exact h tr htr
  · refine ⟨?_, hk⟩
    unfold Segment.segLen Transmit.new
    simp only [List.length_nil, Nat.zero_add]
    have hsf' := hsf
    simp only [Bool.or_eq_true] at hsf'
    rcases hsf' with e | e <;> rw [e] <;> simp <;> omega

theorem keepOk_then_plain {s t : Tcb} (h : KeepOk s) (h1 : t.snd.una = s.snd.una)
    (h2 : t.outgoing.retransmit = s.outgoing.retransmit) (hd : Hdr) (hs : hd.ctl.syn = false)
    (hf : hd.ctl.fin = false) : KeepOk (t.enqueueBuilt hd) :=
  keepOk_enqueue_plain (h.of_eq h1 h2) hd hs hf

theorem keepOk_then_ctl {s t : Tcb} (h : KeepOk s) (h1 : t.snd.una = s.snd.una)
    (h2 : t.outgoing.retransmit = s.outgoing.retransmit) (hd : Hdr) (hsf : (hd.ctl.syn || hd.ctl.fin) = true)
    (hk : modLt t.snd.una (hd.seq + BitVec.ofNat 32 (Segment.segLen ⟨hd, []⟩)) = true) :
    KeepOk (t.enqueueBuilt hd) :=
  keepOk_enqueue_ctl (h.of_eq h1 h2) hd hsf hk

theorem keepOk_removeAcked (s : Tcb) (ack : Seq) (h : KeepOk s) :
    KeepOk (({ s with snd.una := ack } : Tcb).removeAckedFromRetransmission ack) := by
  intro tr htr
  obtain ⟨h1, h2⟩ := List.mem_filter.1 htr
  exact ⟨(h tr h1).1, h2⟩

/-- **everything acknowledged ⇒ nothing queued**: with `SND.UNA = SND.NXT` the retransmission queue
    is empty (every entry would end beyond `SND.NXT`) -/
theorem keepOk_empty (s : Tcb) (h : KeepOk s) (hb : SndBelow s) (hN : s.sent < 2147483648)
    (hq : s.snd.una = s.snd.nxt) : s.outgoing.retransmit = [] := by
  cases hl : s.outgoing.retransmit with
  | nil => rfl
  | cons tr rest =>
    exfalso
    have hm : tr ∈ s.outgoing.retransmit := by rw [hl]; exact List.mem_cons_self
    obtain ⟨hp, hk⟩ := h tr hm
    have hle := (hb.queue tr hm).len hp
    unfold keepFor at hk
    rw [hq] at hk
    have ho : off s.snd.iss (tr.segment.hdr.seq + BitVec.ofNat 32 tr.segment.segLen)
        = off s.snd.iss tr.segment.hdr.seq + tr.segment.segLen := off_add _ _ _ (by omega)
    have := (modLt_iff_off s.snd.iss s.snd.nxt _ (by unfold sent at hN; exact hN) (by rw [ho]; omega)).1 hk
    rw [ho] at this
    unfold sent at hle
    omega

/-! ## the blocks -/

theorem seqCheck_live (s : Tcb) (seg : Hdr) (tl : Seq) (s' : Tcb) (r : Option ProcessSegmentResult)
    (e : seqCheck s seg tl = .ok (s', r)) (h : KeepOk s) : KeepOk s' := by
  unfold seqCheck at e
  split at e
  · cases e; exact h
  · split at e
    · simp at e
    · cases e; exact h
    · rw [enqueueThen_eq] at e
      cases e
      exact keepOk_enqueue_plain h _ rfl rfl

theorem ackEstablished_live (s : Tcb) (seg : Hdr) (h : KeepOk s) :
    ∃ s' r, s.ackEstablishedProcessing seg = .ok (s', r) ∧ KeepOk s' := by
  unfold ackEstablishedProcessing
  split
  · exact ⟨_, _, rfl, h⟩
  · split
    · rw [enqueue_eq]
      exact ⟨_, _, rfl, keepOk_enqueue_plain h _ rfl rfl⟩
    · dsimp only
      have base := keepOk_removeAcked s seg.ack h
      split
      · exact ⟨_, _, rfl, base.of_eq rfl rfl⟩
      · exact ⟨_, _, rfl, base⟩

theorem afterAck_live (t : Tcb) (seg : Hdr) (ht : KeepOk t) (k : Tcb → ProcessSegmentResult → B) (Q : B → Prop)
    (h : ∀ s1 r1, KeepOk s1 → Q (k s1 r1)) : Q (afterAckEstablished (t.ackEstablishedProcessing seg) k) := by
  obtain ⟨s1, r1, h1, k1⟩ := ackEstablished_live t seg ht
  unfold afterAckEstablished
  rw [h1]
  exact h s1 r1 k1

theorem ackBlock_live (s : Tcb) (seg : Hdr) (h : KeepOk s) : ∃ s' r, ackBlock s seg = .ok (s', r) ∧ KeepOk s' := by
  unfold ackBlock
  split
  · exact ⟨_, _, rfl, h⟩
  · split
    · -- SYN-SENT
      split
      · split
        · exact ⟨_, _, rfl, h⟩
        · simp only [enqueueThen_eq]
          exact ⟨_, _, rfl, keepOk_enqueue_plain h _ rfl rfl⟩
      · split
        · split
          · exact ⟨_, _, rfl, keepOk_removeAcked s seg.ack h⟩
          · exact ⟨_, _, rfl, h⟩
        · simp only [enqueueThen_eq]
          exact ⟨_, _, rfl, keepOk_enqueue_plain h _ rfl rfl⟩
    · -- SYN-RECEIVED
      split
      · dsimp only
        refine afterAck_live _ seg ?_ _ (fun x => ∃ s' r, x = .ok (s', r) ∧ KeepOk s') ?_
        · exact h.of_eq rfl rfl
        intro s1 r1 k1
        split <;> exact ⟨_, _, rfl, k1⟩
      · simp only [enqueueThen_eq]
        exact ⟨_, _, rfl, keepOk_enqueue_plain h _ rfl rfl⟩
    iterate 3
      · refine afterAck_live _ seg h _ (fun x => ∃ s' r, x = .ok (s', r) ∧ KeepOk s') ?_
        intro s1 r1 k1
        split <;> exact ⟨_, _, rfl, k1⟩
    iterate 2
      · refine afterAck_live _ seg h _ (fun x => ∃ s' r, x = .ok (s', r) ∧ KeepOk s') ?_
        intro s1 r1 k1
        dsimp only
        split <;> split <;> exact ⟨_, _, rfl, k1.of_eq rfl rfl⟩
    · refine afterAck_live _ seg h _ (fun x => ∃ s' r, x = .ok (s', r) ∧ KeepOk s') ?_
      intro s1 r1 k1
      split
      · exact ⟨_, _, rfl, k1⟩
      · split <;> exact ⟨_, _, rfl, k1⟩
    · exact ⟨_, _, rfl, h⟩

theorem synBlock_live (s : Tcb) (seg : Hdr) (s' : Tcb) (r : Option ProcessSegmentResult)
    (e : synBlock s seg = .ok (s', r)) (hE : Early s) (h : KeepOk s) : KeepOk s' := by
  unfold synBlock at e
  split at e
  · split at e <;> (cases e; exact h)
  · split at e
    · rename_i hst
      obtain ⟨_, hu⟩ := hE.synSent hst
      dsimp only at e
      split at e
      · rw [enqueueThen_eq] at e
        cases e
        (refine keepOk_then_plain h ?_ ?_ _ ?_ ?_ <;> rfl)
      · rename_i hgt
        rw [enqueueThen_eq] at e
        cases e
        have hu0 : s.snd.una = s.snd.iss := by
          rcases hu with hu | hu
          · exact hu
          · exfalso
            apply hgt
            show modGt s.snd.una s.snd.iss = true
            rw [hu]; exact modGt_succ _
        refine keepOk_then_ctl h ?_ ?_ _ ?_ ?_
        · rfl
        · rfl
        · rfl
        show modLt s.snd.una (s.snd.iss + BitVec.ofNat 32 _) = true
        rw [hu0]
        have : modGt (s.snd.iss + 1) s.snd.iss = true := modGt_succ _
        exact this
    · rw [enqueueThen_eq] at e
      cases e
      exact keepOk_enqueue_plain h _ rfl rfl

theorem textBlock_live (s : Tcb) (seg : Hdr) (text : List UInt8) (tl : Seq) (s' : Tcb)
    (r : Option ProcessSegmentResult) (e : textBlock s seg text tl = .ok (s', r)) (h : KeepOk s) : KeepOk s' := by
  unfold textBlock at e
  split at e
  · cases e; exact h
  · split at e
    all_goals first
      | (cases e; exact h)
      | (dsimp only at e
         repeat' (split at e)
         all_goals first
           | (simp at e; done)
           | (rw [enqueueThen_eq] at e
              cases e
              (refine keepOk_then_plain h ?_ ?_ _ ?_ ?_ <;> rfl)))

theorem finBlock_live (s : Tcb) (seg : Hdr) (tl : Seq) (s' : Tcb) (r : Option ProcessSegmentResult)
    (e : finBlock s seg tl = .ok (s', r)) (h : KeepOk s) : KeepOk s' := by
  unfold finBlock at e
  split at e
  · cases e; exact h
  · dsimp only at e
    have key : ∀ s1, (if s.state ≠ .SynSent then
          if (decide (s.rcv.nxt = seg.seq + tl) || decide (s.rcv.nxt = seg.seq + tl + 1)) = true then
            ({ s with rcv.nxt := seg.seq + tl + 1 } : Tcb).enqueue
              ({ s with rcv.nxt := seg.seq + tl + 1 } : Tcb).ackHdr
          else Except.ok s
        else Except.ok s) = .ok s1 → KeepOk s1 := by
      intro s1 h1
      split at h1
      · split at h1
        · rw [enqueue_eq] at h1
          cases h1
          (refine keepOk_then_plain h ?_ ?_ _ ?_ ?_ <;> rfl)
        · cases h1; exact h
      · cases h1; exact h
    split at e
    · simp at e
    · rename_i s1 h1
      have k := key s1 h1
      split at e
      all_goals first
        | (cases e; exact k)
        | (cases e; exact k.of_eq rfl rfl)
        | (split at e <;> (cases e; exact k.of_eq rfl rfl))

theorem processSegment_live (s : Tcb) (segment : Segment) (s' : Tcb) (r : ProcessSegmentResult)
    (e : s.processSegment segment = .ok (s', r)) (hE : Early s) (h : KeepOk s) : KeepOk s' := by
  unfold processSegment at e
  dsimp only at e
  cases h1 : seqCheck s segment.hdr (BitVec.ofNat 32 segment.text.length) with
  | error err => rw [h1] at e; simp [B.andThen] at e
  | ok p1 =>
    obtain ⟨s1, r1⟩ := p1
    have k1 := seqCheck_live _ _ _ _ _ h1 h
    have e1 := seqCheck_early _ _ _ _ _ h1 hE
    rw [h1] at e
    cases r1 with
    | some x => simp only [andThen_some] at e; cases e; exact k1
    | none =>
      simp only [andThen_none] at e
      obtain ⟨s2, r2, e2, k2⟩ := ackBlock_live s1 segment.hdr k1
      obtain ⟨s2', r2', e2', ee2⟩ := ackBlock_early s1 segment.hdr e1
      rw [e2] at e2'
      cases e2'
      rw [e2] at e
      cases r2 with
      | some x => simp only [andThen_some] at e; cases e; exact k2
      | none =>
        simp only [andThen_none] at e
        obtain ⟨r3, e3⟩ := rstBlock_spec s2 segment.hdr
        rw [e3] at e
        cases r3 with
        | some x => simp only [andThen_some] at e; cases e; exact k2
        | none =>
          simp only [andThen_none] at e
          cases h4 : synBlock s2 segment.hdr with
          | error err => rw [h4] at e; simp [B.andThen] at e
          | ok p4 =>
            obtain ⟨s4, r4⟩ := p4
            have k4 := synBlock_live _ _ _ _ h4 ee2 k2
            rw [h4] at e
            cases r4 with
            | some x => simp only [andThen_some] at e; cases e; exact k4
            | none =>
              simp only [andThen_none] at e
              cases h5 : textBlock s4 segment.hdr segment.text (BitVec.ofNat 32 segment.text.length) with
              | error err => rw [h5] at e; simp [B.andThen] at e
              | ok p5 =>
                obtain ⟨s5, r5⟩ := p5
                have k5 := textBlock_live _ _ _ _ _ _ h5 k4
                rw [h5] at e
                cases r5 with
                | some x => simp only [andThen_some] at e; cases e; exact k5
                | none =>
                  simp only [andThen_none] at e
                  cases h6 : finBlock s5 segment.hdr (BitVec.ofNat 32 segment.text.length) with
                  | error err => rw [h6] at e; simp at e
                  | ok p6 =>
                    obtain ⟨s6, r6⟩ := p6
                    have k6 := finBlock_live _ _ _ _ _ h6 k5
                    rw [h6] at e
                    cases r6 <;> (cases e; exact k6)

theorem drain_live (fuel : Nat) (s s' : Tcb) (r : SegmentArrivesResult) (e : drain fuel s = .ok (s', r))
    (hE : Early s) (h : KeepOk s) : KeepOk s' ∧ Early s' := by
  induction fuel generalizing s with
  | zero => unfold drain at e; cases e; exact ⟨h, hE⟩
  | succ n ih =>
    unfold drain at e
    split at e
    · cases e; exact ⟨h, hE⟩
    · split at e
      · cases e; exact ⟨h, hE⟩
      · split at e
        · simp at e
        · rename_i segment rest hpop
          cases hp : processSegment { s with incoming.segments := rest } segment with
          | error err => rw [hp] at e; simp at e
          | ok p1 =>
            obtain ⟨s1, r1⟩ := p1
            rw [hp] at e
            dsimp only at e
            have hE0 : Early ({ s with incoming.segments := rest } : Tcb) := hE.congr rfl rfl
            have k1 := processSegment_live _ _ _ _ hp hE0 (h.of_eq rfl rfl)
            have e1 := processSegment_early _ _ _ _ hp hE0
            split at e
            · cases e; exact ⟨k1, e1⟩
            · exact ih s1 e e1 k1

theorem segmentArrives_live (s : Tcb) (segment : Segment) (s' : Tcb) (r : SegmentArrivesResult)
    (e : s.segmentArrives segment = .ok (s', r)) (hE : Early s) (h : KeepOk s) : KeepOk s' ∧ Early s' := by
  unfold segmentArrives at e
  dsimp only at e
  split at e
  · simp at e
  · rw [enqueue_eq] at e
    cases e
    exact ⟨keepOk_enqueue_plain h _ rfl rfl, early_enqueueBuilt hE _⟩
  · exact drain_live _ _ _ _ e (hE.congr rfl rfl) (h.of_eq rfl rfl)

/-! ## local calls -/

/-- new data (or a FIN) numbered at `SND.NXT >= SND.UNA` is beyond `SND.UNA` -/
theorem keep_new (iss una nxt : Seq) (k : Nat) (hu : off iss una ≤ off iss nxt) (hk : 0 < k)
    (hb : off iss nxt + k < 2147483648) : modLt una (nxt + BitVec.ofNat 32 k) = true := by
  have ho : off iss (nxt + BitVec.ofNat 32 k) = off iss nxt + k := off_add iss nxt k (by omega)
  exact (modLt_iff_off iss una _ (by omega) (by omega)).2 (by omega)

theorem keepOk_flags {s s' : Tcb} (h : KeepOk s) (h1 : s'.snd.una = s.snd.una) (b : Bool)
    (h2 : s'.outgoing.retransmit = s.outgoing.retransmit.map fun t => { t with needsTransmit := b }) : KeepOk s' := by
  refine h.congr h1 (fun tr htr => ?_)
  rw [h2] at htr
  obtain ⟨t0, h0, rfl⟩ := List.mem_map.1 htr
  exact ⟨t0, h0, rfl⟩

theorem segmentize_live (m fuel : Nat) (s : Tcb) (q : Nat) (u : Tcb) (e : segmentize m fuel s q = .ok u)
    (h : KeepOk s) (hu : off s.snd.iss s.snd.una ≤ s.sent) (hr : Room s) : KeepOk u := by
  induction fuel generalizing s q with
  | zero => cases e; exact h
  | succ n ih =>
    rw [segmentize_succ] at e
    split at e
    · cases e; exact h
    · rename_i hb
      generalize hbytes : min (min m (s.snd.wnd.toNat - q)) s.outgoing.text.length = bytes at e hb
      split at e
      · cases e
      · rename_i header hbuild
        have hh : header = s.ackHdr.built := by
          unfold Hdr.build at hbuild
          split at hbuild
          · simp at hbuild
          · simp only [Option.some.injEq] at hbuild
            exact hbuild.symm
        have hlen : (List.take bytes s.outgoing.text).length = bytes := by
          rw [List.length_take]; omega
        have hle : bytes ≤ s.outgoing.text.length := by omega
        have hpos : 0 < bytes := Nat.pos_of_ne_zero hb
        unfold Room at hr
        have hsent : (pushSeg s header (List.take bytes s.outgoing.text) (List.drop bytes s.outgoing.text)).sent
            = s.sent + bytes := by
          show off s.snd.iss (s.snd.nxt + BitVec.ofNat 32 (List.take bytes s.outgoing.text).length) = _
          rw [hlen]; exact off_add _ _ _ (by unfold sent at hr; omega)
        refine ih _ _ e ?_ ?_ ?_
        · intro tr htr
          have h' : tr ∈ s.outgoing.retransmit ++ [Transmit.new ⟨header, s.outgoing.text.take bytes⟩] := htr
          simp only [List.mem_append, List.mem_singleton] at h'
          rcases h' with h' | rfl
          · exact h tr h'
          · subst hh
            have hsl : (Transmit.new ⟨s.ackHdr.built, List.take bytes s.outgoing.text⟩).segment.segLen = bytes := by
              simp [Transmit.new, Segment.segLen, hlen, ackHdr, Hdr.built, Hdr.withAck, Hdr.withWnd,
                headerBuilder, Hdr.builder]
            refine ⟨by rw [hsl]; exact hpos, ?_⟩
            unfold keepFor
            rw [hsl]
            exact keep_new s.snd.iss s.snd.una s.snd.nxt bytes hu hpos (by unfold sent at hr; omega)
        · show off s.snd.iss s.snd.una ≤ _
          rw [hsent]; omega
        · show _ + (List.drop bytes s.outgoing.text).length + 1 < 2147483648
          rw [hsent, List.length_drop]; omega

theorem segmentize_una (m fuel : Nat) (s : Tcb) (q : Nat) (u : Tcb) (e : segmentize m fuel s q = .ok u) :
    u.snd.una = s.snd.una := by
  induction fuel generalizing s q with
  | zero => cases e; rfl
  | succ n ih =>
    rw [segmentize_succ] at e
    split at e
    · cases e; rfl
    · split at e
      · cases e
      · have := ih _ _ e
        exact this

/-- **`segments()`** keeps the invariant (in the states of a connection nobody closes) -/
theorem segments_live (s s' : Tcb) (out : List Segment) (e : s.segments = .ok (s', out))
    (hst : C01.Ok3 s.state) (h : KeepOk s) (hu : off s.snd.iss s.snd.una ≤ s.sent) (hr : Room s) : KeepOk s' := by
  rw [segments_eq] at e
  cases hv : segmentizeIfOpen (clearOneshot s) with
  | error err => rw [hv] at e; cases e
  | ok v =>
    rw [hv] at e
    dsimp only at e
    have h0 : KeepOk (clearOneshot s) := h.of_eq rfl rfl
    have k1 : KeepOk v ∧ v.snd.una = (clearOneshot s).snd.una := by
      unfold segmentizeIfOpen at hv
      split at hv
      all_goals first
        | (split at hv
           · cases hv
           · exact ⟨segmentize_live _ _ _ _ _ hv h0 hu hr, segmentize_una _ _ _ _ _ hv⟩)
        | (cases hv; exact ⟨h0, rfl⟩)
    have hfp : s.finPending = false := by
      unfold finPending
      rcases hst.cases with hs | hs | hs <;> rw [hs] <;> rfl
    rw [hfp] at e
    unfold finIfPending at e
    simp only [Bool.false_eq_true, if_false] at e
    cases e
    unfold markSent
    split
    · exact keepOk_flags k1.1 rfl false rfl
    · exact keepOk_flags k1.1 rfl false rfl

end Tcb
end Elvis.Tcp
