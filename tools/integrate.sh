#!/bin/bash
# usage: tools/integrate.sh NAME  -- cherry-pick agent NAME's /repo commits into /repo, merge its verif branch
set -e
N=$1
cd /repo
BASE=$(git merge-base HEAD agent/$N)
MAP=""
for c in $(git rev-list --reverse $BASE..agent/$N); do
  git cherry-pick $c >/dev/null
  new=$(git rev-parse --short=8 HEAD); old=$(git rev-parse --short=8 $c)
  echo "repo: $old -> $new $(git log --format=%s -1 | cut -c1-80)"
  MAP="$MAP $old:$new"
done
cd /verif
git merge --no-edit agent/$N >/dev/null 2>&1 || true
for f in $(git diff --name-only --diff-filter=U); do
  case $f in
    evidence/*|known_findings.json|MANIFEST.json|harness/Cargo.lock) git checkout --ours -- $f ;;
    tools/extract.py|tools/hook_commits.txt|lean/Driver/Main.lean|harness/*/src/main.rs|harness/*/src/props/mod.rs|setup) python3 tools/union_merge.py $f; echo "union-merged $f" ;;
    *) echo "CONFLICT needs manual resolution: $f" ;;
  esac
done
for m in $MAP; do old=${m%%:*}; new=${m##*:}; grep -rl "$old" known notes tools/props 2>/dev/null | xargs -r sed -i "s/$old/$new/g"; done
echo "remaining conflicts:"; git diff --name-only --diff-filter=U
python3 - <<'PY'
for p in ['/verif/harness/hfull/Cargo.toml','/verif/harness/hcore/Cargo.toml']:
    lines=open(p).read().split('\n'); seen=set(); out=[]
    for l in lines:
        k=l.split('=')[0].strip() if '=' in l and not l.startswith('[') else None
        if k and k in seen: continue
        if k: seen.add(k)
        out.append(l)
    open(p,'w').write('\n'.join(out))
PY
