import ElvisVerif.Lemmas.DnsInv
/-!
# C20 — Name resolution returns the registered address and caches it

Model: `ElvisVerif/Model/Dns.lean` (wire format of `dns_parsing.rs`, `DnsServer::respond_to_query`
/ `create_response`, `DnsClient::get_host_by_name`, and the exchange of one server and N clients
as a transition system whose `Choice` list is the interleaving of lookups and datagram arrivals).

* `c20_response_echo`     whatever request datagram the server answers, the answer parses, carries
                          the request's id, question name and answer name, and its address is the
                          table's record of the question name.
* `c20_resolve_correct`   for EVERY record table, number of clients and interleaving of lookups,
                          query arrivals and reply arrivals: an address returned by
                          `get_host_by_name(name)` is the server's record of `name`; the reply a
                          client consumes echoes id and name of the query of that very socket.
* `c20_resolve_registered` the same, phrased over the configured registrations
                          (`add_mapping` calls; the last registration of a name is its record).
* `c20_cache_silent`      once a client resolved a name, each later lookup of it — after any
                          further activity — returns the same address and changes nothing but the
                          result log: no datagram, no socket.
* `c20_unregistered`      an unknown name yields a reported error (`Err(Cache)`, logged by the
                          responder task; no reply is sent) and is never resolved to an address.
* `c20_never_fails`       with the authoritative server `get_host_by_name` never returns an error.
* `c20_completes`         (progress of the model) when no datagram is left in flight and no panic
                          occurred, every lookup that opened a socket has returned.
* F-C20-1 (fixed): `c20_recv80_regression` — with `recv(80)` the query for a registered 25-byte
  name is undecodable for the server (at the time: process exit; now: no answer); `c20_recv_budget_partial` — names up to 24 bytes were unaffected;
  `c20_server_reads_whole_datagram` — the source now reads the whole datagram (certificate).
* F-C20-2 (fixed): `c20_standin_override_regression`, `c20_configured_record_wins`.

ASSUMED, not proved here: `FourTupleIsolation` (a datagram reaches only the socket with its
4-tuple; ephemeral ports are handed out once) — properties C04/C02; tokio (tasks, channels).
-/
namespace Elvis.Dns

deriving instance DecidableEq for Except

/-! ## certificates regenerated from the source on every check -/

/-- `respond_to_query` reads its request with `recv_msg()`: the whole datagram, whatever its size -/
theorem c20_server_reads_whole_datagram : sourceBudget = none := by decide

/-- `DnsServer::start` keeps configured records: its stand-in names are inserted only if absent -/
theorem c20_standins_do_not_override : Elvis.Gen.dnsBuiltinOverrides = false := by decide

/-- `get_host_by_name` has the shape the model gives it (cache first; one fresh datagram socket,
    one send, one receive, cache insert, lookup) and talks to the port the server listens on -/
theorem c20_client_shape_certificate :
    Elvis.Gen.dnsClientShape = true ∧ Elvis.Gen.dnsClientRemotePort = Elvis.Gen.dnsServerPort := by decide

/-- failures are values, not panics: the responder task logs what `respond_to_query` returns and
    unwraps nothing before the reply is built; the resolver unwraps nothing after `recv_msg` -/
theorem c20_errors_reported_certificate :
    Elvis.Gen.dnsServerReportsErrors = true ∧ Elvis.Gen.dnsClientReportsErrors = true := by decide

/-! ## T1: the response echoes the request -/

theorem c20_response_echo (t : Table) (d r : Bytes) (h : respond t d = .ok r) :
    ∃ req resp a, fromBytes d = some req ∧ fromBytes r = some resp ∧
      resp.header.id = req.header.id ∧
      resp.question.qname = req.question.qname ∧
      resp.answer.name = req.answer.name ∧
      t.get req.question.qname = some a ∧ resp.answer.rdata = a.toBytes := by
  unfold respond at h
  rw [c20_server_reads_whole_datagram] at h
  obtain ⟨req, a, hreq, _, ha, rfl⟩ := respondWith_ok h
  simp only [serverRead] at hreq
  exact ⟨req, createResponse req a, a, hreq, fromBytes_build' _ (createResponse_wf (fromBytes_wf hreq) a), rfl, rfl, rfl, ha, rfl⟩

/-- the client's own queries: answered exactly when the name has a record, with that record -/
theorem c20_response_to_query (t : Table) (name : Bytes) (id : Nat) (a : Addr)
    (hn : NameOk name) (hid : id < 65536) (ha : t.get name = some a) :
    ∃ r resp, respond t (queryBytes name id) = .ok r ∧ fromBytes r = some resp ∧
      resp.header.id = id ∧ resp.question.qname = name ∧ resp.answer.name = name ∧
      addrOfRdata resp.answer.rdata = some a := by
  refine ⟨_, createResponse (createRequest name id) a, ?_,
    fromBytes_build' _ (createResponse_wf (createRequest_wf hn.1 hid) a), rfl, rfl, rfl, rfl⟩
  unfold respond
  rw [c20_server_reads_whole_datagram, respondWith_query hn hid, ha]

/-- "名.x" is a carriable name, "a b" is not -/
example : NameOk [0xe5, 0x90, 0x8d, 0x2e, 0x78] ∧ ¬ NameOk [0x61, 0x20, 0x62] := by decide

/-! ## T2: resolution is correct under every interleaving -/

theorem c20_resolve_correct (table : Table) (n : Nat) (cs : List Choice) (hcs : ∀ ch ∈ cs, ChoiceOk ch) :
    let s := run (init table n) cs
    (∀ c name a cached, Event.resolved c name a cached ∈ s.events → table.get name = some a) ∧
    (∀ c name id reply, Event.accepted c name id reply ∈ s.events →
        reply.header.id = id ∧ reply.question.qname = name ∧ reply.answer.name = name) := by
  intro s
  have hinv : Inv s := run_inv c20_server_reads_whole_datagram hcs (init_inv table n)
  have ht : s.table = table := run_table _ _
  refine ⟨fun c name a k he => ?_, fun c name id m he => hinv.evAcc c name id m he⟩
  rw [← ht]; exact (hinv.evRes c name a k he).1

/-- with the authoritative server (and `FourTupleIsolation`) no lookup ever returns an error: a
    lookup returns the record, or — unknown name, discarded query — does not return -/
theorem c20_never_fails (table : Table) (n : Nat) (cs : List Choice) (hcs : ∀ ch ∈ cs, ChoiceOk ch) :
    ∀ c name e, Event.failed c name e ∉ (run (init table n) cs).events :=
  (run_inv c20_server_reads_whole_datagram hcs (init_inv table n)).evFail

/-- what the table built from the registrations answers: the last registration of a name, the
    stand-in record for a stand-in name nobody registered -/
theorem c20_configured_record_wins (configured : List (Bytes × Addr)) (name : Bytes) (a : Addr)
    (h : registered configured name = some a) : (serverTable configured).get name = some a := by
  unfold serverTable serverTableWith
  rw [c20_standins_do_not_override]
  simp only [Bool.false_eq_true, if_false, Table.get_append]
  unfold registered at h
  rw [h]

/-- end to end over the registrations: a client that completes the resolution of a registered
    name obtains exactly the registered address -/
theorem c20_resolve_registered (configured : List (Bytes × Addr)) (n : Nat) (cs : List Choice)
    (hcs : ∀ ch ∈ cs, ChoiceOk ch) (c : Nat) (name : Bytes) (a reg : Addr) (cached : Bool)
    (hreg : registered configured name = some reg)
    (hres : Event.resolved c name a cached ∈ (run (init (serverTable configured) n) cs).events) :
    a = reg := by
  have h1 := (c20_resolve_correct (serverTable configured) n cs hcs).1 c name a cached hres
  rw [c20_configured_record_wins configured name reg hreg] at h1
  cases h1; rfl

/-- non-vacuity: two clients, replies arriving in the opposite order of the queries, a repeated
    lookup answered from the cache -/
example :
    let na : Bytes := [0x61, 0x2e, 0x78]   -- "a.x"
    let nb : Bytes := [0x62, 0x2e, 0x78]   -- "b.x"
    let t : Table := serverTable [(na, ⟨10, 0, 0, 1⟩), (nb, ⟨10, 0, 0, 2⟩)]
    let s := run (init t 2) [.lookup 0 na 7, .lookup 1 nb 8, .deliver 0, .deliver 0, .deliver 1, .deliver 0, .lookup 0 na 9]
    s.crashed = none ∧ s.net = [] ∧
      (s.events.filterMap fun e => match e with | .resolved c _ a k => some (c, a, k) | _ => none)
        = [(1, ⟨10, 0, 0, 2⟩, false), (0, ⟨10, 0, 0, 1⟩, false), (0, ⟨10, 0, 0, 1⟩, true)] := by
  decide

/-! ## T3: the cache answers later lookups silently -/

theorem c20_cache_silent (table : Table) (n : Nat) (cs cs' : List Choice)
    (hcs : ∀ ch ∈ cs ++ cs', ChoiceOk ch) (c : Nat) (name : Bytes) (a : Addr) (cached : Bool) (id : Nat)
    (hres : Event.resolved c name a cached ∈ (run (init table n) cs).events)
    (halive : (run (init table n) (cs ++ cs')).crashed = none) :
    let s := run (init table n) (cs ++ cs')
    step s (.lookup c name id) = { s with events := s.events ++ [.resolved c name a true] } := by
  intro s
  have hinv : Inv s := run_inv c20_server_reads_whole_datagram hcs (init_inv table n)
  have hres' : Event.resolved c name a cached ∈ s.events := by
    show _ ∈ (run (init table n) (cs ++ cs')).events
    rw [run_append]; exact run_events_mono _ _ _ hres
  obtain ⟨_, cl, hcl, hget⟩ := hinv.evRes c name a cached hres'
  exact step_lookup_hit halive hcl hget

/-! ## progress of the model: nothing in flight = every lookup has returned -/

/-- For every interleaving: if no panic occurred and no datagram is left in flight, every socket a
    lookup opened for a name the server has a record of has consumed its reply and its lookup has
    returned that record.  (A delivered query for a known name is answered, a delivered reply is
    consumed by its socket: the model loses nothing; the real stack's bounded queues are exercised
    by the runs only.  A lookup of an unknown name is never answered and never returns.) -/
theorem c20_completes (table : Table) (n : Nat) (cs : List Choice) (hcs : ∀ ch ∈ cs, ChoiceOk ch) :
    let s := run (init table n) cs
    s.crashed = none → s.net = [] →
      ∀ so ∈ s.socks, ∀ a, table.get so.name = some a →
        so.done = true ∧ Event.resolved so.client so.name a false ∈ s.events := by
  intro s hcr hnet so hso a hreg
  have hb := c20_server_reads_whole_datagram
  have hlive : Live s := run_live hb hcs (init_inv table n) (init_live table n)
  have ht : s.table = table := run_table _ _
  have hdone : so.done = true := by
    cases hd : so.done with
    | true => rfl
    | false =>
      obtain ⟨d, hdm, _⟩ := hlive.pending hcr so hso hd ⟨a, by rw [ht]; exact hreg⟩
      rw [hnet] at hdm; cases hdm
  obtain ⟨a', ha'⟩ := hlive.doneRes so hso hdone
  have := (c20_resolve_correct table n cs hcs).1 _ _ _ _ ha'
  rw [hreg] at this; cases this
  exact ⟨hdone, ha'⟩

/-! ## unknown names -/

theorem c20_unregistered (t : Table) (name : Bytes) (id : Nat) (hn : NameOk name) (hid : id < 65536)
    (h : t.get name = none) :
    respond t (queryBytes name id) = .error "err:Cache:server_unknown_name" ∧
    ∀ (n : Nat) (cs : List Choice), (∀ ch ∈ cs, ChoiceOk ch) →
      ∀ c a cached, Event.resolved c name a cached ∉ (run (init t n) cs).events := by
  constructor
  · unfold respond
    rw [c20_server_reads_whole_datagram, respondWith_query hn hid, h]
  · intro n cs hcs c a cached hmem
    have := (c20_resolve_correct t n cs hcs).1 c name a cached hmem
    rw [h] at this; cases this

/-- an unknown name in a run: the query is logged as unanswered, nothing comes back, the lookup
    neither resolves nor fails -/
example :
    let t : Table := [([97], ⟨1, 2, 3, 4⟩)]
    let s := run (init t 1) [.lookup 0 [98] 5, .deliver 0]
    s.crashed = none ∧ s.net = [] ∧ s.events.getLast? = some (.unanswered (.client 0 49152) "err:Cache:server_unknown_name") := by
  decide

/-- a table with a record for "a" has none for "b"; both are carriable names -/
example : Table.get [([97], ⟨1, 2, 3, 4⟩)] [98] = none ∧ NameOk [98] := by decide

/-! ## F-C20-1 (fixed): the request was read with `recv(80)` -/

/-- a registered name of 25 bytes: the 82-byte query is cut to 80 and the parse fails (when the
    defect was found the responder unwrapped the result and the process ended; as the code is now
    the query would go unanswered and the lookup would never return) -/
theorem c20_recv80_regression :
    -- "abcdefghijklmnopqrstuvwxy"
    let name : Bytes := [97, 98, 99, 100, 101, 102, 103, 104, 105, 106, 107, 108, 109, 110, 111, 112, 113, 114, 115, 116, 117, 118, 119, 120, 121]
    NameOk name ∧
    respondWith (some 80) [(name, ⟨10, 9, 8, 7⟩)] (queryBytes name 7) = .error "err:Other:server_from_bytes" ∧
    (respondWith none [(name, ⟨10, 9, 8, 7⟩)] (queryBytes name 7)).toOption.isSome = true := by
  decide

/-- what held before the fix: names of at most `(budget - 32) / 2` bytes (24 for `recv(80)`) were
    answered as if the whole datagram had been read -/
theorem c20_recv_budget_partial (budget : Nat) (t : Table) (name : Bytes) (id : Nat)
    (h : 32 + 2 * name.length ≤ budget) :
    respondWith (some budget) t (queryBytes name id) = respondWith none t (queryBytes name id) := by
  unfold respondWith serverRead
  simp only
  rw [List.take_of_length_le (by rw [length_queryBytes]; exact h)]

example : 32 + 2 * (List.replicate 24 (97 : UInt8)).length ≤ 80 := by decide

/-! ## F-C20-2 (fixed): the stand-in records replaced configured ones -/

theorem c20_standin_override_regression :
    let g : Bytes := [103, 111, 111, 103, 108, 101, 46, 99, 111, 109]   -- "google.com"
    let configured : List (Bytes × Addr) := [(g, ⟨9, 9, 9, 9⟩)]
    registered configured g = some ⟨9, 9, 9, 9⟩ ∧
    (serverTableWith true builtinRecords configured).get g = some ⟨123, 45, 67, 60⟩ ∧
    (serverTableWith false builtinRecords configured).get g = some ⟨9, 9, 9, 9⟩ := by
  decide

end Elvis.Dns
